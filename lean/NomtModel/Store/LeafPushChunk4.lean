import NomtModel.Store.LeafPushChunk3
/-!
# `push_chunk` ≡ a loop of `push_cell`; `finish`; the range form; concrete pages for the counterexamples
-/
namespace Nomt.Store
open Nomt (Outcome)

/-- `for e in ch { push_cell(e) }` keeps the invariant -/
theorem lbPushMany_inv : ∀ (ch : List LeafEntry) {b : LeafB} {n total : Nat} {es : List LeafEntry}
    {mid tail : List UInt8}, LeafBAt b n total es mid tail → (∀ e ∈ ch, e.key.size = 32) →
    es.length + ch.length ≤ n → leafTotal ch ≤ b.rem →
    ∃ b', lbPushMany b ch = .ok b' ∧
      LeafBAt b' n total (es ++ ch) (mid.drop (34 * ch.length)) (tail.drop (leafTotal ch)) := by
  intro ch
  induction ch with
  | nil =>
    intro b n total es mid tail h _ _ _
    exact ⟨b, rfl, by simpa [leafTotal] using h⟩
  | cons e r ih =>
    intro b n total es mid tail h hk hidx hfit
    simp only [leafTotal] at hfit
    simp only [List.length_cons] at hidx
    obtain ⟨b1, hb1, hinv1⟩ := lbPush_inv h e (by omega) (hk e (List.mem_cons_self ..)) (by omega)
    have hrem1 : b1.rem + leafTotal (es ++ [e]) = total := hinv1.2.2.2.2.1
    have hrem : b.rem + leafTotal es = total := h.2.2.2.2.1
    simp only [leafTotal_append, leafTotal] at hrem1
    obtain ⟨b2, hb2, hinv2⟩ := ih hinv1 (fun x hx => hk x (List.mem_cons_of_mem _ hx))
      (by simp only [List.length_append, List.length_cons, List.length_nil]; omega) (by omega)
    refine ⟨b2, by simp only [lbPushMany, hb1, hb2], ?_⟩
    have e1 : (mid.drop 34).drop (34 * r.length) = mid.drop (34 * (e :: r).length) := by
      rw [List.drop_drop]; congr 1; simp only [List.length_cons]; omega
    have e2 : (tail.drop e.cell.size).drop (leafTotal r) = tail.drop (leafTotal (e :: r)) := by
      rw [List.drop_drop]; rfl
    have e3 : es ++ [e] ++ r = es ++ e :: r := by simp
    rw [e1, e2, e3] at hinv2
    exact hinv2

/-- `[from, to)` of a list -/
def leafRange (bes : List LeafEntry) (from_ to : Nat) : List LeafEntry := (bes.drop from_).take (to - from_)

theorem leafRange_split (bes : List LeafEntry) (from_ to : Nat) (hft : from_ ≤ to) (hto : to ≤ bes.length) :
    bes = bes.take from_ ++ (leafRange bes from_ to ++ bes.drop to) ∧ (bes.take from_).length = from_ ∧
      (bes.take from_).length + (leafRange bes from_ to).length = to := by
  refine ⟨?_, by simp; omega, by simp [leafRange]; omega⟩
  have h1 : bes.drop to = (bes.drop from_).drop (to - from_) := by
    rw [List.drop_drop]; congr 1; omega
  rw [h1, leafRange, List.take_append_drop, List.take_append_drop]

/-- range form of `lbPushChunk_inv`, together with byte equality with the loop of `push_cell` -/
theorem lbPushChunk_range {b : LeafB} {n total : Nat} {es : List LeafEntry} {mid tail : List UInt8}
    (h : LeafBAt b n total es mid tail) (bes : List LeafEntry) (pad : List UInt8) (hbase : leafOK bes pad = true)
    (from_ to : Nat) (hft : from_ < to) (hto : to ≤ bes.length)
    (hidx : b.index + (to - from_) ≤ n) (hfit : leafTotal (leafRange bes from_ to) ≤ b.rem) :
    ∃ b', lbPushChunk .none b (encodeLeafL bes pad) from_ to = .ok b' ∧
      lbPushMany b (leafRange bes from_ to) = .ok b' ∧
      LeafBAt b' n total (es ++ leafRange bes from_ to) (mid.drop (34 * (to - from_)))
        (tail.drop (leafTotal (leafRange bes from_ to))) := by
  obtain ⟨hs, hl1, hl2⟩ := leafRange_split bes from_ to (by omega) hto
  have hlen : (leafRange bes from_ to).length = to - from_ := by omega
  have hne : leafRange bes from_ to ≠ [] := by
    intro h0; rw [h0] at hlen; simp at hlen; omega
  have hbase' := hbase
  rw [hs] at hbase'
  have hi : b.index = es.length := h.1
  obtain ⟨b1, hb1, hinv1⟩ := lbPushChunk_inv h (bes.take from_) (leafRange bes from_ to) (bes.drop to) pad hbase' hne
    (by omega) hfit
  rw [← hs, hl1, show from_ + (leafRange bes from_ to).length = to by omega] at hb1
  have hk : ∀ e ∈ leafRange bes from_ to, e.key.size = 32 := by
    intro e he
    have hmem : e ∈ bes := by rw [hs]; simp [he]
    exact leafEntryOK_key ((leafOK_parts hbase).2.1 e hmem)
  obtain ⟨b2, hb2, hinv2⟩ := lbPushMany_inv (leafRange bes from_ to) h hk (by omega) hfit
  have heq : b2 = b1 := LeafBAt_unique hinv2 hinv1
  subst heq
  rw [hlen] at hinv1
  exact ⟨b2, hb1, hb2, hinv1⟩

/-! ## `finish` -/

theorem lbFinish_decodes {b : LeafB} {n total : Nat} {es : List LeafEntry} {mid tail : List UInt8}
    (h : LeafBAt b n total es mid tail) (hn : es.length = n) (hpos : 0 < n) (hrem : b.rem = 0)
    (hok : ∀ e ∈ es, leafEntryOK e = true) :
    lbFinish b = .ok b.page ∧ b.page = encodeLeafL es mid ∧ leafOK es mid = true ∧
      decodeLeaf b.page.toByteArray = .ok es := by
  obtain ⟨h1, h2, h3, h4, h5, h6, h7, h8⟩ := h
  have htail : tail = [] := List.eq_nil_of_length_eq_zero (by omega)
  have htot : total = leafTotal es := by omega
  have hpage : b.page = encodeLeafL es mid := by
    rw [h8, htail, htot, ← hn]; simp [lbPageOf, encodeLeafL]
  have hOK : leafOK es mid = true := by
    unfold leafOK
    simp only [Bool.and_eq_true, Bool.not_eq_true', List.all_eq_true, beq_iff_eq]
    refine ⟨⟨?_, hok⟩, by omega⟩
    cases es with
    | nil => simp at hn; omega
    | cons a r => rfl
  refine ⟨by simp [lbFinish, hrem], hpage, hOK, ?_⟩
  rw [hpage]
  exact leaf_rt es mid hOK

/-! ## a concrete base leaf and builder (non-vacuity, counterexamples) -/

def lbExPool : List UInt8 := List.replicate 4096 0
def lbExKey (k : Nat) : ByteArray := (List.replicate 32 (UInt8.ofNat k)).toByteArray
/-- an inline value of 2 bytes -/
def lbExE1 : LeafEntry := ⟨lbExKey 1, false, [1, 2].toByteArray⟩
/-- an overflow cell of 44 bytes -/
def lbExE2 : LeafEntry := ⟨lbExKey 2, true, (List.replicate 44 7).toByteArray⟩
def lbExE3 : LeafEntry := ⟨lbExKey 3, false, [9].toByteArray⟩
def lbExPad : List UInt8 := List.replicate (4096 - 2 - 68 - 46) 0
/-- base leaf holding `[lbExE1, lbExE2]`: cells at 4050 and 4052 -/
def lbExBase : List UInt8 := encodeLeafL [lbExE1, lbExE2] lbExPad
/-- `LeafBuilder::new(3, 47)`: the chunk `[0, 2)` of the base goes to 4049, one byte lower than in the base
(negative `difference`), the last byte is left for `lbExE3` -/
def lbExB0 : LeafB := lbNew lbExPool 3 47

/-- the raw u16 words of the cell pointers `0..k` of a result -/
def lbPtrWords (o : Outcome Unit LeafB) (k : Nat) : Option (List Nat) :=
  match o with
  | .ok b => some ((List.range k).map (fun i => rd16 b.page (2 + 34 * i + 32)))
  | _ => none

theorem lbExBase_ok : leafOK [lbExE1, lbExE2] lbExPad = true := by decide +kernel

theorem lbExB0_inv : LeafBAt lbExB0 3 47 [] ((lbExPool.drop 2).take (PAGE - 47 - 2)) (lbExPool.drop (PAGE - 47)) :=
  lbNew_inv lbExPool 3 47 (by decide +kernel) (by decide)

end Nomt.Store
