import NomtModel.Store.BranchUpdTake
/-!
# Branch updater: `extract_ops_until`

The loop consumes ops into a fresh gauge until the target is reached.  It keeps the content (`den`), the consumed ops
stay consistent with the gauge (`TrOK`), the node described by the gauge never exceeds `BRANCH_NODE_BODY_SIZE`, the
target is only ever lowered to `BRANCH_MERGE_THRESHOLD`, and when the loop ends below the target nothing is left.  No
panic site is reachable (`stop_prefix_compression` is only called on a gauge whose compression is not stopped yet:
otherwise the next item costs at most 38 bytes and cannot take the node from below the merge threshold to over-full).
-/
namespace Nomt.BranchUpd
open Nomt.LeafUpd (Entry Sorted slice_length slice_append slice_succ slice_cons_of_lt mem_slice slice_self)

def headNonIns : List Op → Nat
  | [] => 0
  | .ins _ _ :: _ => 0
  | _ :: _ => 1

/-- the termination measure of the loop -/
def mu (todo : List Op) : Nat := 2 * opsCount todo + headNonIns todo

theorem headNonIns_le (l : List Op) : headNonIns l ≤ 1 := by
  unfold headNonIns; split <;> omega

structure ExtractOut (kf : KF) (b? : Option Base) (done todo : List Op) (target : Nat)
    (r : Gauge × List Op × List Op × Nat) : Prop where
  den_eq : den b? r.2.1 ++ den b? r.2.2.1 = den b? done ++ den b? todo
  tr : TrOK kf b? r.2.1 r.1
  wf_todo : WF kf b? r.2.2.1
  body : ∃ bd, r.1.body = some bd ∧ bd ≤ BODY ∧ (bd < r.2.2.2 → r.2.2.1 = [])
  target : MERGE ≤ r.2.2.2 ∧ r.2.2.2 ≤ target
  prefix_ : ∃ x, r.2.1 = done ++ x

/-- a node of one key occupies at most 38 bytes -/
theorem GOK.body_single_le {kf : KF} (hkf : KFOK kf) {g : Gauge} {k : Nat} (h : GOK kf g [k]) (hb : Below [k]) :
    ∃ bd, g.body = some bd ∧ bd ≤ 38 := by
  refine ⟨_, h.body hkf (by simp [SortedK]) hb, ?_⟩
  exact bodyOfKeys_single_le kf hkf _ _ _ h.pl_le (h.pcItems_bounds (by simp)).1

/-- with prefix compression stopped the next key costs at most 38 bytes -/
theorem GOK.stopped_step {kf : KF} (hkf : KFOK kf) {g : Gauge} {L : List Nat} (h : GOK kf g L) (c : Nat)
    (hpc : g.pc = some c) (key : Nat) :
    bodyOfKeys kf (g.ingestKey kf key (kf.sl key)).pl (g.ingestKey kf key (kf.sl key)).pcItems (L ++ [key]) ≤
      bodyOfKeys kf g.pl g.pcItems L + 38 := by
  have hc := h.pc_ok c hpc
  cases L with
  | nil => simp at hc; omega
  | cons k0 r =>
    have hfirst : g.first = some (k0, kf.sl k0) := by rw [h.first]; rfl
    rw [ingestKey_first_some _ _ _ _ _ _ hfirst]
    simp only [Gauge.pcItems, hpc, Option.isNone_some, Bool.false_eq_true, if_false, Option.getD_some]
    rw [bodyOfKeys_snoc_stopped kf g.pl c (k0 :: r) key hc.2]
    have := hkf.sl_le key
    unfold bodyOfKeys bodySize
    generalize (lensOf kf g.pl c (k0 :: r)).sum = S
    omega

theorem MERGE_38 : MERGE + 38 ≤ BODY := by decide

/-- what `body_size_after(key)` says about an op that stands for one key -/
theorem one_key_after {kf : KF} (hkf : KFOK kf) {g : Gauge} {L : List Nat} (hL : GOK kf g L) (key bd : Nat)
    (hs : SortedK (L ++ [key])) (hb : Below (L ++ [key])) (hbd : g.body = some bd) :
    ∃ a, g.bodyAfter kf key (kf.sl key) = some a ∧ (g.ingestKey kf key (kf.sl key)).body = some a ∧
      (BODY < a → bd < MERGE → g.pc = none ∧ L ≠ []) := by
  have hM := MERGE_38
  have hg2 := hL.ingestKey hkf key hs hb
  have hb2 := hg2.body hkf hs hb
  have hbdK : bd = bodyOfKeys kf g.pl g.pcItems L := by
    have := hL.body hkf hs.append_left hb.append_left
    rw [hbd] at this
    exact Option.some.inj this
  refine ⟨_, by rw [hL.bodyAfter_eq]; exact hb2, hb2, ?_⟩
  intro hover hlow
  constructor
  · cases hpc : g.pc with
    | none => rfl
    | some c =>
      exfalso
      have := hL.stopped_step hkf c hpc key
      omega
  · intro hnil
    subst hnil
    obtain ⟨b1, e1, e2⟩ := hg2.body_single_le hkf (by simpa using hb)
    simp only [List.nil_append] at hb2 hover
    rw [hb2] at e1
    have := Option.some.inj e1
    have := BODY_eq
    omega

/-- `stop_prefix_compression()` in front of a key that would overflow the node: afterwards the key fits -/
theorem stop_then_key {kf : KF} (hkf : KFOK kf) {g : Gauge} {L : List Nat} (hL : GOK kf g L) (key bd : Nat)
    (hs : SortedK (L ++ [key])) (hb : Below (L ++ [key])) (hbd : g.body = some bd) (hlow : bd < MERGE)
    (hpc : g.pc = none) (hne : L ≠ []) :
    ∃ g1, g.stop = some g1 ∧ GOK kf g1 L ∧ g1.pcItems = g.pcItems ∧
      ∃ bd', (g1.ingestKey kf key (kf.sl key)).body = some bd' ∧ bd' ≤ BODY := by
  have hM := MERGE_38
  obtain ⟨e1, hg1⟩ := hL.stop hne hpc
  have hpcI : ({ g with pc := some g.n } : Gauge).pcItems = g.pcItems := by simp [Gauge.pcItems, hpc]
  have hbdK : bd = bodyOfKeys kf g.pl g.pcItems L := by
    have := hL.body hkf hs.append_left hb.append_left
    rw [hbd] at this
    exact Option.some.inj this
  refine ⟨_, e1, hg1, hpcI, ?_⟩
  have hg2 := hg1.ingestKey hkf key hs hb
  refine ⟨_, hg2.body hkf hs hb, ?_⟩
  have := hg1.stopped_step hkf g.n rfl key
  rw [hpcI] at this
  simp only at this
  omega

theorem extractLoop_spec {kf : KF} (hkf : KFOK kf) (b? : Option Base) (hbase : BaseOK kf b?) :
    ∀ fuel g done todo target, TrOK kf b? done g → WF kf b? todo →
      Sorted (den b? done ++ den b? todo) → (∀ e ∈ den b? done ++ den b? todo, e.key < 2 ^ 256) →
      (∃ bd, g.body = some bd ∧ bd ≤ BODY) → MERGE ≤ target → target ≤ BODY → mu todo < fuel →
      ∃ r, extractLoop kf b? fuel g done todo target = some r ∧ ExtractOut kf b? done todo target r := by
  have hB := BODY_eq
  have hM := MERGE_eq
  have hpcle := hbase.pc_le
  intro fuel
  induction fuel with
  | zero => intro g done todo target _ _ _ _ _ _ _ h; omega
  | succ fuel ih =>
    intro g done todo target htr hwf hsorted hbelow hbody hT1 hT2 hfuel
    obtain ⟨bd, hbd, hbdle⟩ := hbody
    cases todo with
    | nil =>
      exact ⟨_, rfl, ⟨rfl, htr, wf_nil _ _, ⟨bd, hbd, hbdle, fun _ => rfl⟩, ⟨hT1, Nat.le_refl _⟩, ⟨[], by simp⟩⟩⟩
    | cons op rest =>
      simp only [extractLoop, hbd]
      by_cases h0 : ¬ bd < target
      · simp only [h0, not_false_eq_true, if_true]
        exact ⟨_, rfl, ⟨rfl, htr, hwf, ⟨bd, hbd, hbdle, fun h => absurd h h0⟩, ⟨hT1, Nat.le_refl _⟩, ⟨[], by simp⟩⟩⟩
      · simp only [h0, if_false]
        have h0' : bd < target := Decidable.not_not.1 h0
        have hop : OpOK kf b? op := (wf_cons.1 hwf).1
        have hwfr : WF kf b? rest := (wf_cons.1 hwf).2
        have hsK : SortedK (ekeys (den b? done) ++ ekeys (denOp b? op)) := by
          rw [← ekeys_append, sortedK_ekeys]
          rw [den_cons, ← List.append_assoc] at hsorted
          exact hsorted.append_left
        have hbK : Below (ekeys (den b? done) ++ ekeys (denOp b? op)) := by
          rw [← ekeys_append]
          intro x hx
          obtain ⟨e, he, rfl⟩ := List.mem_map.1 hx
          apply hbelow e
          rw [den_cons, ← List.append_assoc]
          exact List.mem_append_left _ he
        -- the recursive call
        have step : ∀ (g' : Gauge) (done' todo' : List Op) (target' : Nat),
            TrOK kf b? done' g' → WF kf b? todo' → den b? done' ++ den b? todo' = den b? done ++ den b? (op :: rest) →
            (∃ bd, g'.body = some bd ∧ bd ≤ BODY) → MERGE ≤ target' → target' ≤ target → mu todo' < fuel →
            (∃ x, done' = done ++ x) →
            ∃ r, extractLoop kf b? fuel g' done' todo' target' = some r ∧ ExtractOut kf b? done (op :: rest) target r := by
          intro g' done' todo' target' h1 h2 h3 h4 h5 h6 h7 h8
          obtain ⟨r, e, o⟩ := ih g' done' todo' target' h1 h2 (by rw [h3]; exact hsorted) (by rw [h3]; exact hbelow) h4 h5
            (by omega) h7
          obtain ⟨x, hx⟩ := h8
          obtain ⟨y, hy⟩ := o.prefix_
          exact ⟨r, e, ⟨by rw [o.den_eq, h3], o.tr, o.wf_todo, o.body, ⟨o.target.1, by have := o.target.2; omega⟩,
            ⟨x ++ y, by rw [hy, hx, List.append_assoc]⟩⟩⟩
        -- taking the head op (or a part of it) with the gauge it produces
        have take : ∀ (g0 : Gauge) (op' : Op) (rest' : List Op) (target' : Nat), TrOK kf b? done g0 → OpOK kf b? op' →
            WF kf b? rest' → den b? (op' :: rest') = den b? (op :: rest) →
            (∀ g', g0.ingestOp kf b? op' = some g' → ∃ bd, g'.body = some bd ∧ bd ≤ BODY) →
            MERGE ≤ target' → target' ≤ target → 2 * opsCount (op' :: rest') ≤ mu (op :: rest) →
            ∃ r, (match takeOp kf b? g0 op' with
                  | none => none
                  | some (g2, r) => extractLoop kf b? fuel g2 (done ++ r) rest' target') = some r ∧
              ExtractOut kf b? done (op :: rest) target r := by
          intro g0 op' rest' target' h1 h2 h3 h4 h5 h6 h7 h8
          have hsK' : SortedK (ekeys (den b? done) ++ ekeys (denOp b? op')) := by
            rw [← ekeys_append, sortedK_ekeys]
            rw [← h4, den_cons, ← List.append_assoc] at hsorted
            exact hsorted.append_left
          have hbK' : Below (ekeys (den b? done) ++ ekeys (denOp b? op')) := by
            rw [← ekeys_append]
            intro x hx
            obtain ⟨e, he, rfl⟩ := List.mem_map.1 hx
            apply hbelow e
            rw [← h4, den_cons, ← List.append_assoc]
            exact List.mem_append_left _ he
          obtain ⟨g2, r, t1, t2, t3, t4, t5, _⟩ := takeOp_spec hkf b? hbase done g0 h1 op' h2 hsK' hbK'
          simp only [t1]
          apply step g2 (done ++ r) rest' target' t4 h3 (by rw [den_append, t3, List.append_assoc, ← den_cons, h4])
            (h5 g2 t2) h6 h7 _ ⟨r, rfl⟩
          have hc := count_pos_of_ok h2
          have := headNonIns_le rest'
          have hmu : mu (op :: rest) < fuel + 1 := hfuel
          simp only [opsCount_cons] at h8
          show 2 * opsCount rest' + headNonIns rest' < fuel
          omega
        have hL := htr.gauge
        have hmu0 : 2 * opsCount (op :: rest) ≤ mu (op :: rest) := by simp only [mu]; omega
        have exitM : bd ≥ MERGE → ∃ r, some (g, done, op :: rest, MERGE) = some r ∧ ExtractOut kf b? done (op :: rest) target r :=
          fun hge => ⟨_, rfl, ⟨rfl, htr, hwf, ⟨bd, hbd, hbdle, fun h => absurd (show bd < MERGE from h) (by omega)⟩, ⟨Nat.le_refl _, hT1⟩, ⟨[], by simp⟩⟩⟩
        cases op with
        | ins key pn =>
          have hk : ekeys (denOp b? (.ins key pn)) = [key] := rfl
          rw [hk] at hsK hbK
          obtain ⟨a, ha1, ha2, ha3⟩ := one_key_after hkf hL key bd hsK hbK hbd
          simp only [ha1]
          by_cases hov : a > BODY
          · simp only [hov, if_true]
            by_cases hlow : bd < MERGE
            · simp only [hlow, if_true]
              obtain ⟨hpc, hne⟩ := ha3 hov hlow
              obtain ⟨g1, s1, s2, s3, bd', s4, s5⟩ := stop_then_key hkf hL key bd hsK hbK hbd hlow hpc hne
              simp only [s1]
              exact take g1 (.ins key pn) rest MERGE ⟨htr.wf, s2, by rw [s3]; exact htr.pc⟩ hop hwfr rfl
                (by intro g' hi; simp only [Gauge.ingestOp, Option.some.injEq] at hi; subst hi; exact ⟨bd', s4, s5⟩)
                (Nat.le_refl _) hT1 hmu0
            · simp only [hlow, if_false]
              exact exitM (by omega)
          · simp only [hov, if_false]
            exact take g (.ins key pn) rest target htr hop hwfr rfl
              (by intro g' hi; simp only [Gauge.ingestOp, Option.some.injEq] at hi; subst hi; exact ⟨a, ha2, by omega⟩)
              hT1 (Nat.le_refl _) hmu0
        | upd pos pn =>
          obtain ⟨b, eb, hpos, hns⟩ := hop
          subst eb
          have hp : pos < b.node.items.length := by have := hpcle b rfl; omega
          have hkeyp := Node.key_of_lt b.node pos hp
          have hk : ekeys (denOp (some b) (.upd pos pn)) = [b.node.items[pos].key] := by
            simp [denOp, baseItems, List.getElem?_eq_getElem hp]
          have hopU : OpOK kf (some b) (.upd pos pn) := ⟨b, rfl, hpos, hns⟩
          have hiU : ∀ g0 : Gauge, g0.ingestOp kf (some b) (.upd pos pn) =
              some (g0.ingestKey kf b.node.items[pos].key (kf.sl b.node.items[pos].key)) := by
            intro g0; simp [Gauge.ingestOp, hkeyp]
          rw [hk] at hsK hbK
          obtain ⟨a, ha1, ha2, ha3⟩ := one_key_after hkf hL b.node.items[pos].key bd hsK hbK hbd
          simp only [hkeyp, ha1]
          by_cases hov : a > BODY
          · simp only [hov, if_true]
            by_cases hlow : bd < MERGE
            · simp only [hlow, if_true]
              have hs2 : ¬ kf.seeded = 2 := by rw [hkf.seeded]; decide
              simp only [hs2, if_false, replaceOp, hkeyp, Option.map_some]
              apply step g done (.ins b.node.items[pos].key pn :: rest) target htr
                (wf_cons.2 ⟨trivial, hwfr⟩) _ ⟨bd, hbd, hbdle⟩ hT1 (Nat.le_refl _) _ ⟨[], by simp⟩
              · simp [denOp, baseItems, List.getElem?_eq_getElem hp]
              · simp only [mu, opsCount_cons, Op.count, headNonIns] at hfuel ⊢
                omega
            · simp only [hlow, if_false]
              exact exitM (by omega)
          · simp only [hov, if_false]
            exact take g (.upd pos pn) rest target htr hopU hwfr rfl
              (by intro g' hi; rw [hiU] at hi; cases hi; exact ⟨a, ha2, by omega⟩)
              hT1 (Nat.le_refl _) hmu0
        | keep s e sum =>
          obtain ⟨b, eb, hse, hepc, hsum, hns⟩ := hop
          subst eb
          subst hsum
          have hel : e ≤ b.node.items.length := by have := hpcle b rfl; omega
          rw [denOp_keep_keys] at hsK hbK
          obtain ⟨gc, c1, c2, _, c4⟩ := hL.ingestChunk hkf b s e hse hel hsK hbK
          have hac := c2.body hkf hsK hbK
          have hafter := hL.bodyAfterChunk_eq b s e _ gc c1
          simp only [hafter, hac]
          generalize hacv : bodyOfKeys kf gc.pl gc.pcItems (ekeys (den (some b) done) ++ chunkKeys b s e) = ac at hac
          -- the body after taking the first `m - s` items of the chunk as a chunk
          have hpart : ∀ m, s < m → m ≤ e →
              (∃ bd1, (g.ingestKeys kf (chunkKeys b s m)).body = some bd1 ∧ bd1 ≤ BODY) →
              ∀ g', g.ingestOp kf (some b) (.keep s m (slSum kf (chunkKeys b s m))) = some g' →
                ∃ bd', g'.body = some bd' ∧ bd' ≤ BODY := by
            intro m hm1 hm2 hbd1 g' hi
            have hkeys : chunkKeys b s m ++ chunkKeys b m e = chunkKeys b s e := chunkKeys_append b s m e (by omega) hm2
            have hsm : SortedK (ekeys (den (some b) done) ++ chunkKeys b s m) := by
              rw [← hkeys, ← List.append_assoc] at hsK; exact hsK.append_left
            have hbm : Below (ekeys (den (some b) done) ++ chunkKeys b s m) := by
              rw [← hkeys, ← List.append_assoc] at hbK; exact hbK.append_left
            obtain ⟨gm, m1, m2, _, m4⟩ := hL.ingestChunk hkf b s m hm1 (by omega) hsm hbm
            simp only [Gauge.ingestOp] at hi
            rw [m1] at hi
            cases hi
            by_cases hcase : ekeys (den (some b) done) ≠ [] ∨ 2 ≤ m - s
            · rw [m4 hcase]; exact hbd1
            · have hc' := not_or.1 hcase
              have hnil : ekeys (den (some b) done) = [] := Decidable.not_not.1 hc'.1
              have hlen := chunkKeys_length b s m (by omega)
              have hone : ∃ k, chunkKeys b s m = [k] := by
                have : (chunkKeys b s m).length = 1 := by omega
                match hx : chunkKeys b s m, this with
                | [k], _ => exact ⟨k, rfl⟩
              obtain ⟨k, hk⟩ := hone
              rw [hnil, hk] at m2 hbm
              obtain ⟨b1, e1, e2⟩ := m2.body_single_le hkf (by simpa using hbm)
              exact ⟨b1, e1, by omega⟩
          by_cases hbig : ac > target
          · simp only [hbig, if_true]
            obtain ⟨ln, todo', e1, e2, e3, e4⟩ := trySplitKeep_spec hkf b target BODY g _ hL s e rest hse hel hsK hbK
            simp only [e1]
            by_cases hz : ln = 0
            · have hz' : (ln == 0) = true := by simp [hz]
              simp only [hz', if_true, e3 hz]
              obtain ⟨k, pn, q1, q2, q3⟩ := extractInsert_spec (kf := kf) b s e rest hse hel
              rcases q2 with ⟨q4, q5⟩ | ⟨q4, q5⟩
              · simp only [q5]
                apply step g done (.ins k pn :: rest) target htr (wf_cons.2 ⟨trivial, hwfr⟩) _ ⟨bd, hbd, hbdle⟩ hT1
                  (Nat.le_refl _) _ ⟨[], by simp⟩
                · have : slice b.node.items (s + 1) e = [] := by rw [q4]; exact slice_self _ _
                  rw [this] at q3
                  simp only [den_cons, denOp, baseItems]
                  rw [← q3]; simp
                · simp only [mu, opsCount_cons, Op.count, headNonIns] at hfuel ⊢
                  omega
              · simp only [q5]
                apply step g done (.ins k pn :: .keep (s + 1) e (slSum kf (chunkKeys b (s + 1) e)) :: rest) target htr
                  (wf_cons.2 ⟨trivial, wf_cons.2 ⟨⟨b, rfl, q4, hepc, rfl, fun _ h => absurd h (by omega)⟩, hwfr⟩⟩) _ ⟨bd, hbd, hbdle⟩ hT1
                  (Nat.le_refl _) _ ⟨[], by simp⟩
                · simp only [den_cons, denOp, baseItems]
                  rw [← q3]; simp
                · simp only [mu, opsCount_cons, Op.count, headNonIns] at hfuel ⊢
                  omega
            · have hz' : (ln == 0) = false := by simp [hz]
              simp only [hz', Bool.false_eq_true, if_false]
              obtain ⟨⟨bd1, f1, f2⟩, f3⟩ := e4 (Nat.pos_of_ne_zero hz)
              have hbd1 : ∃ bd1, (g.ingestKeys kf (chunkKeys b s (s + ln))).body = some bd1 ∧ bd1 ≤ BODY :=
                ⟨bd1, f1, by rcases f2 with h | h <;> omega⟩
              rcases f3 with ⟨f4, f5⟩ | ⟨f4, f5⟩
              · subst f5
                have hm : s + ln = e := by rw [f4]; exact Nat.add_sub_cancel' (Nat.le_of_lt hse)
                rw [hm] at hbd1
                exact take g (.keep s e (slSum kf (chunkKeys b s e))) rest target htr ⟨b, rfl, hse, hepc, rfl, hns⟩ hwfr rfl
                  (hpart e hse (Nat.le_refl _) hbd1) hT1 (Nat.le_refl _) hmu0
              · subst f5
                simp only
                apply take g (.keep s (s + ln) (slSum kf (chunkKeys b s (s + ln))))
                  (.keep (s + ln) e (slSum kf (chunkKeys b (s + ln) e)) :: rest) target htr
                  ⟨b, rfl, by clear hbd1; omega, by clear hbd1; omega, rfl, hns⟩
                  (wf_cons.2 ⟨⟨b, rfl, by clear hbd1; omega, hepc, rfl, fun _ h => absurd h (by clear hbd1; omega)⟩, hwfr⟩) _
                  (hpart (s + ln) (by clear hbd1; omega) (by clear hbd1; omega) hbd1) hT1 (Nat.le_refl _)
                · clear hbd1
                  simp only [mu, opsCount_cons, Op.count]
                  omega
                · simp only [den_cons, denOp, baseItems, ← List.append_assoc, ← ents_append]
                  rw [slice_append _ _ _ _ (by clear hbd1; omega) (by clear hbd1; omega)]
          · simp only [hbig, if_false]
            exact take g (.keep s e (slSum kf (chunkKeys b s e))) rest target htr ⟨b, rfl, hse, hepc, rfl, hns⟩ hwfr rfl
              (by
                intro g' hi
                simp only [Gauge.ingestOp] at hi
                rw [c1] at hi
                cases hi
                exact ⟨ac, hac, by omega⟩)
              hT1 (Nat.le_refl _) hmu0

end Nomt.BranchUpd
