import NomtModel.Generated.Functions
import NomtModel.Store.OvfModel
import NomtModel.Store.BitOps
import NomtModel.Store.WalRedo
import NomtModel.Store.ImgTable
import NomtModel.Core.TriePos
import NomtModel.Api.PageRegionModel
import NomtModel.Store.LeafUpdModel

/-!
# The translated Rust functions equal the hand-written mirrors

`Generated/Functions.lean` is produced on every run by `tools/gen_functions.py` from the CURRENT Rust sources (a
Rust-subset → Lean translator; `none` = the Rust function panics).  Every theorem below states, for ALL arguments of
the function's domain, that the translated definition returns exactly the value of the hand-written mirror the property
theorems are about (and panics exactly where the mirror says so).  A change of the Rust function that alters its
meaning makes the corresponding proof fail on the next run.
-/

namespace Nomt.GenFnCheck
open Nomt
set_option maxRecDepth 8192

/-- discharge the no-panic guards of a translated function one after the other (however many the current source has) -/
macro "guards" : tactic =>
  `(tactic| repeat (first | rw [if_pos (by omega)] | rw [if_pos (by decide)] | rw [if_pos (Nat.succ_ne_zero _)]))
/-- follow every control path of a small translated function: each path ends in the mirror's value or contradicts its guards -/
macro "paths" : tactic =>
  `(tactic| (try dsimp only) <;> (repeat' split) <;>
      (try simp only [decide_eq_true_eq, decide_not, Bool.not_eq_true', decide_eq_false_iff_not, ne_eq, Classical.not_not] at *) <;>
      (first | rfl | omega | (congr 1; omega) | (exfalso; omega)))
/-- the translated value and the mirror's value are the same arithmetic -/
macro "same" : tactic => `(tactic| first | rfl | (congr 1; omega) | (congr 1; simp only [] ; omega) | omega)

/-! ## overflow page arithmetic (`beatree/ops/overflow.rs`) -/

theorem needed_pages_eq (s : Nat) (h : s < 2 ^ 63) :
    GenFn.needed_pages s = some (Ovf.neededPages s) := by
  have h' : s < 9223372036854775808 := by simpa using h
  unfold GenFn.needed_pages Ovf.neededPages
  have e : Ovf.BODY_SIZE = 4092 := rfl
  rw [e]
  guards
  all_goals same


theorem tnp_rhs (v : Nat) : Ovf.totalNeededPages v =
    (let np := (v + 4092 - 1) / 4092
     if np ≤ 15 then np else if np ≤ 15 + (np * 4092 - v) / 4 then np
     else np + (v + (np - 15) * 4 - np * 4092 + 4092 - 3) / 4088) := rfl

theorem total_needed_pages_eq (v : Nat) (h : v < 2 ^ 48) :
    GenFn.total_needed_pages v = some (Ovf.totalNeededPages v) := by
  have h' : v < 281474976710656 := by simpa using h
  unfold GenFn.total_needed_pages
  rw [needed_pages_eq v (by omega), tnp_rhs]
  have hn : Ovf.neededPages v = (v + 4092 - 1) / 4092 := rfl
  rw [hn]
  generalize hnp : (v + 4092 - 1) / 4092 = np
  have hb : np * 4092 < v + 4092 ∧ v ≤ np * 4092 := by omega
  show (if decide (np ≤ 15) = true then _ else _) = _
  by_cases h1 : np ≤ 15
  · rw [if_pos (by simpa using h1)]
    show some np = some (if np ≤ 15 then np else _)
    rw [if_pos h1]
  · rw [if_neg (by simpa using h1)]
    dsimp only
    rw [if_neg h1]
    by_cases h2 : np ≤ 15 + (np * 4092 - v) / 4
    · rw [if_pos h2]
      guards
      rw [if_pos (by rw [decide_eq_true_eq]; omega)]
    · rw [if_neg h2]
      guards
      rw [if_neg (by rw [decide_eq_true_eq]; omega)]
      guards
      all_goals same

/-! ## node body sizes (`beatree/leaf/node.rs`, `beatree/branch/node.rs`) -/

theorem leaf_body_size_eq (n sum : Nat) (h : n < 2 ^ 32) (hs : sum < 2 ^ 32) :
    GenFn.leaf_body_size n sum = some (LeafUpd.bodySize n sum) := by
  have : n < 4294967296 := by simpa using h
  have : sum < 4294967296 := by simpa using hs
  unfold GenFn.leaf_body_size LeafUpd.bodySize
  guards
  all_goals same

theorem leaf_body_size_eq_ovf (n sum : Nat) (h : n < 2 ^ 32) (hs : sum < 2 ^ 32) :
    GenFn.leaf_body_size n sum = some (Ovf.bodySize n sum) := leaf_body_size_eq n sum h hs

/-- the branch node body: cell pointers (2 bytes each), the prefix and separator BITS rounded up to bytes, node pointers (4 bytes each) -/
theorem branch_body_size_eq (pl tot n : Nat) (h : n < 2 ^ 32) (hp : pl < 2 ^ 32) (ht : tot < 2 ^ 32) :
    GenFn.branch_body_size pl tot n = some (2 * n + (pl + tot + 7) / 8 + 4 * n) := by
  have : n < 4294967296 := by simpa using h
  have : pl < 4294967296 := by simpa using hp
  have : tot < 4294967296 := by simpa using ht
  unfold GenFn.branch_body_size
  guards
  all_goals same

/-! ## page-cache shards (`page_cache.rs`) -/

theorem shard_index_for_eq (n a : Nat) (hn : n ≤ 64) (ha : a < 64) :
    GenFn.shard_index_for n a = TriePos.shardIndexFor n a := by
  unfold GenFn.shard_index_for TriePos.shardIndexFor
  by_cases h0 : n = 0
  · rw [if_neg (by simpa using h0), if_pos h0]
  · have hp : 64 / n ≤ 64 := Nat.div_le_self _ _
    have hr : 64 % n < n := Nat.mod_lt _ (by omega)
    have hm : (64 / n + 1) * (64 % n) ≤ 65 * 64 := Nat.mul_le_mul (by omega) (by omega)
    rw [if_pos h0, if_neg h0]
    dsimp only
    rw [if_pos h0, if_pos (by omega), if_pos (by omega)]
    by_cases hc : (64 / n + 1) * (64 % n) > a
    · rw [if_pos (by simpa using hc), if_pos hc, if_pos (by omega), if_pos (Nat.succ_ne_zero _)]
    · rw [if_neg (by simpa using hc), if_neg hc, if_pos (by omega), if_pos (by omega), if_pos (by omega)]
      by_cases hz : 64 / n = 0
      · rw [if_neg (fun h => h hz), if_pos hz]
      · have hd : (a - (64 / n + 1) * (64 % n)) / (64 / n) ≤ a := Nat.le_trans (Nat.div_le_self _ _) (by omega)
        rw [if_pos hz, if_neg hz, if_pos (by omega)]

/-! ## hash-table meta bytes and file length (`bitbox/meta_map.rs`, `bitbox/ht_file.rs`) -/

theorem full_entry_eq (hash : Nat) :
    GenFn.full_entry hash = some (Wal.fullEntry hash).toNat := by
  unfold GenFn.full_entry Wal.fullEntry
  rw [if_pos (by decide)]
  congr 1
  have h1 : hash / 2 ^ 57 % 256 < 2 ^ 8 := Nat.mod_lt _ (by decide)
  have h2 : (hash / 2 ^ 57 % 256) ^^^ 128 < 2 ^ 8 := Nat.xor_lt_two_pow h1 (by decide)
  rw [Nat.shiftRight_eq_div_pow]
  show _ = (UInt8.ofNat ((hash / 2 ^ 57 % 256) ^^^ 128)).toNat
  rw [UInt8.toNat_ofNat']
  exact (Nat.mod_eq_of_lt h2).symm

theorem num_meta_byte_pages_eq (n : Nat) (h : n < 2 ^ 32 - 4095) :
    GenFn.num_meta_byte_pages n = some (Store.numMetaBytePages n) := by
  have : n < 4294963201 := by simpa using h
  unfold GenFn.num_meta_byte_pages Store.numMetaBytePages
  have e : Store.PAGE = 4096 := rfl
  rw [e]
  guards
  all_goals same

theorem expected_file_len_eq (n : Nat) (h : n < 2 ^ 31) :
    GenFn.expected_file_len n = some ((Store.numMetaBytePages n + n) * 4096) := by
  have : n < 2147483648 := by simpa using h
  unfold GenFn.expected_file_len
  rw [num_meta_byte_pages_eq n (by omega)]
  have e : Store.numMetaBytePages n = (n + 4095) / 4096 := rfl
  rw [e]
  dsimp only
  guards
  all_goals same

/-! ## node indices inside a page (`core/src/trie_pos.rs`) -/

theorem bottom_node_index_eq (i : Nat) : GenFn.bottom_node_index i = TriePos.bottomNodeIndex i := by
  unfold GenFn.bottom_node_index TriePos.bottomNodeIndex
  paths

theorem sibling_index_eq (i : Nat) (hb : i < 2 ^ 63) :
    GenFn.sibling_index i = if i % 2 = 0 then some (i + 1) else some (i - 1) := by
  have : i < 9223372036854775808 := by simpa using hb
  unfold GenFn.sibling_index
  paths

theorem sibling_index_eq_mirror (i : Nat) (hb : i < 2 ^ 63) :
    GenFn.sibling_index i = some (TriePos.siblingIndexOf i) := by
  rw [sibling_index_eq i hb]
  unfold TriePos.siblingIndexOf
  split <;> rfl

theorem parent_node_index_eq (i : Nat) : GenFn.parent_node_index i = TriePos.parentNodeIndex i := by
  unfold GenFn.parent_node_index TriePos.parentNodeIndex
  paths

/-! ## chunk masks of `bitwise_memcpy` (`beatree/ops/bit_ops.rs`) -/

theorem first_chunk_mask_eq (s : Nat) : GenFn.first_chunk_mask s = BitOps.firstChunkMask s := by
  unfold GenFn.first_chunk_mask BitOps.firstChunkMask BitOps.checkedShl64
  by_cases h : s ≤ 7
  · have h7 : ¬ 7 < s := by omega
    have hm : (7 - s) % 4294967296 = 7 - s := Nat.mod_eq_of_lt (by omega)
    simp only [h, h7, if_true, if_false, hm]
    rw [if_pos (by omega), if_pos (by decide), if_pos (by omega)]
    by_cases h64 : 7 - s + 1 + 8 * 7 < 64
    · have hlt : 2 ^ (7 - s + 1 + 8 * 7) < 18446744073709551616 := by
        have := Nat.pow_lt_pow_right (a := 2) (by decide) h64
        simpa using this
      have hpos : 1 ≤ 2 ^ (7 - s + 1 + 8 * 7) := Nat.one_le_two_pow
      simp only [h64, if_true, Nat.shiftLeft_eq, Nat.one_mul, Nat.mod_eq_of_lt hlt, hpos]
    · simp only [h64, if_false, BitOps.M64]
  · have h7 : 7 < s := by omega
    simp [h, h7]

theorem last_chunk_mask_eq (s l n : Nat) (hb : s + l < 2 ^ 63) (hn : n < 2 ^ 57) :
    GenFn.last_chunk_mask s l n = BitOps.lastChunkMask s l n := by
  have : s + l < 9223372036854775808 := by simpa using hb
  have : n < 144115188075855872 := by simpa using hn
  unfold GenFn.last_chunk_mask BitOps.lastChunkMask BitOps.checkedShl64
  rw [if_pos (by omega)]
  by_cases h0 : n = 0
  · simp [h0]
  · simp only [h0, if_false]
    rw [if_pos (by omega), if_pos (by omega)]
    have e32 : (2 : Nat) ^ 32 = 4294967296 := by decide
    simp only [e32]
    generalize hsh : 64 - (s + l - (n - 1) * 64) % 4294967296 = sh
    by_cases h64 : sh < 64
    · have hlt : 2 ^ sh < 18446744073709551616 := by
        have := Nat.pow_lt_pow_right (a := 2) (by decide) h64
        simpa using this
      have hpos : 1 ≤ 2 ^ sh := Nat.one_le_two_pow
      simp only [h64, if_true, Nat.shiftLeft_eq, Nat.one_mul, Nat.mod_eq_of_lt hlt, hpos, BitOps.M64]
      congr 1
      have hm : 2 ^ sh - 1 < 2 ^ 64 := by omega
      have : (2 ^ 64 - 1) ^^^ (2 ^ sh - 1) = 2 ^ 64 - 1 - (2 ^ sh - 1) := by
        have e : 2 ^ 64 - 1 - (2 ^ sh - 1) = 2 ^ 64 - ((2 ^ sh - 1) + 1) := by omega
        apply Nat.eq_of_testBit_eq
        intro i
        rw [e, Nat.testBit_xor, Nat.testBit_two_pow_sub_one, Nat.testBit_two_pow_sub_succ hm, Nat.testBit_two_pow_sub_one]
        by_cases hi : i < 64 <;> by_cases hj : i < sh <;> simp [hi, hj] <;> omega
      simpa using this.symm
    · simp only [h64, if_false]

end Nomt.GenFnCheck
