import NomtModel.Store.CacheOps
import NomtModel.Store.CacheLruLemmas
/-!
# The page cache: views, the effect of every method on the view, no panic for valid configurations
-/
namespace Nomt.Cache
open Nomt

variable {P : Type}

/-- where `CacheShardLocked::get` looks -/
def Shard.view (fl : Nat) (s : Shard P) (id : PageId) : Option (Entry P) :=
  if id.length ≤ fl then Lru.find? s.fixed id else s.cached.peek id

/-- where `PageCache::get` looks -/
def PageCache.view (pc : PageCache P) : PageId → Option (Entry P)
  | [] => pc.root
  | a :: t =>
    match pc.shards[Shards.indexFor pc.shards.length a]? with
    | some s => s.view pc.fixedLevels (a :: t)
    | none => none

/-- `v'` is `v` with `k` set to `w`, possibly with other keys dropped -/
def Upd {E : Type} (v v' : PageId → Option E) (k : PageId) (w : Option E) : Prop :=
  v' k = w ∧ ∀ k', k' ≠ k → ∀ x, v' k' = some x → v k' = some x

def Sub {E : Type} (v' v : PageId → Option E) : Prop := ∀ k x, v' k = some x → v k = some x

structure PageCache.WF (pc : PageCache P) : Prop where
  lo : 1 ≤ pc.shards.length
  hi : pc.shards.length ≤ 64

/-- a page id the Rust type can hold: child indices below 64 -/
def ValidId (id : PageId) : Prop := ∀ a ∈ id, a < 64

/-- same shape: shard count, pinned levels, limits -/
def Same (pc pc' : PageCache P) : Prop :=
  pc'.shards.length = pc.shards.length ∧ pc'.fixedLevels = pc.fixedLevels ∧
  pc'.shards.map (·.pageLimit) = pc.shards.map (·.pageLimit)

theorem Same.refl (pc : PageCache P) : Same pc pc := ⟨rfl, rfl, rfl⟩
theorem Same.trans {a b c : PageCache P} (h1 : Same a b) (h2 : Same b c) : Same a c :=
  ⟨h2.1.trans h1.1, h2.2.1.trans h1.2.1, h2.2.2.trans h1.2.2⟩
theorem Same.wf {a b : PageCache P} (h : Same a b) (w : a.WF) : b.WF := ⟨h.1 ▸ w.lo, h.1 ▸ w.hi⟩

/-! ## shards -/

@[simp] theorem flags_default_insertLt : ({} : Flags).insertLt = false := rfl
@[simp] theorem flags_default_leafSkipFull : ({} : Flags).leafSkipFull = false := rfl

theorem Shard.view_fixed (fl : Nat) (s : Shard P) (k : PageId) (h : k.length ≤ fl) :
    s.view fl k = Lru.find? s.fixed k := by simp [Shard.view, h]
theorem Shard.view_cached (fl : Nat) (s : Shard P) (k : PageId) (h : ¬ k.length ≤ fl) :
    s.view fl k = s.cached.peek k := by simp [Shard.view, h]

theorem Shard.get_fixed (fl : Nat) (s : Shard P) (id : PageId) (h : id.length ≤ fl) :
    s.get fl id = (Lru.find? s.fixed id, s) := by simp [Shard.get, h]
theorem Shard.get_cached (fl : Nat) (s : Shard P) (id : PageId) (h : ¬ id.length ≤ fl) :
    s.get fl id = ((s.cached.get id).1, { s with cached := (s.cached.get id).2 }) := by simp [Shard.get, h]

theorem Shard.get_fst (fl : Nat) (s : Shard P) (id : PageId) : (s.get fl id).1 = s.view fl id := by
  by_cases h : id.length ≤ fl
  · rw [Shard.get_fixed _ _ _ h, Shard.view_fixed _ _ _ h]
  · rw [Shard.get_cached _ _ _ h, Shard.view_cached _ _ _ h]; exact Lru.get_fst _ _

theorem Shard.get_view (fl : Nat) (s : Shard P) (id k : PageId) : (s.get fl id).2.view fl k = s.view fl k := by
  by_cases h : id.length ≤ fl
  · rw [Shard.get_fixed _ _ _ h]
  · rw [Shard.get_cached _ _ _ h]
    by_cases hk : k.length ≤ fl
    · rw [Shard.view_fixed _ _ _ hk, Shard.view_fixed _ _ _ hk]
    · rw [Shard.view_cached _ _ _ hk, Shard.view_cached _ _ _ hk]; exact Lru.get_peek _ _ _

theorem Shard.get_limit (fl : Nat) (s : Shard P) (id : PageId) : (s.get fl id).2.pageLimit = s.pageLimit := by
  by_cases h : id.length ≤ fl
  · rw [Shard.get_fixed _ _ _ h]
  · rw [Shard.get_cached _ _ _ h]

theorem Shard.getOrInsert_cached (fl : Nat) (s : Shard P) (id : PageId) (e : Entry P) (h : ¬ id.length ≤ fl) :
    s.getOrInsert fl id e = ((s.cached.getOrInsert id e).1, { s with cached := (s.cached.getOrInsert id e).2 }) := by
  simp [Shard.getOrInsert, h]

theorem Shard.getOrInsert_fixed_some (fl : Nat) (s : Shard P) (id : PageId) (e old : Entry P) (h : id.length ≤ fl)
    (ho : Lru.find? s.fixed id = some old) : s.getOrInsert fl id e = (old, s) := by
  simp [Shard.getOrInsert, h, ho]

theorem Shard.getOrInsert_fixed_none (fl : Nat) (s : Shard P) (id : PageId) (e : Entry P) (h : id.length ≤ fl)
    (ho : Lru.find? s.fixed id = none) : s.getOrInsert fl id e = (e, { s with fixed := (id, e) :: s.fixed }) := by
  simp [Shard.getOrInsert, h, ho]

theorem Shard.getOrInsert_fst (fl : Nat) (s : Shard P) (id : PageId) (e : Entry P) :
    (s.getOrInsert fl id e).1 = (s.view fl id).getD e := by
  by_cases h : id.length ≤ fl
  · rw [Shard.view_fixed _ _ _ h]
    cases ho : Lru.find? s.fixed id with
    | some old => rw [Shard.getOrInsert_fixed_some _ _ _ _ _ h ho]; rfl
    | none => rw [Shard.getOrInsert_fixed_none _ _ _ _ h ho]; rfl
  · rw [Shard.getOrInsert_cached _ _ _ _ h, Shard.view_cached _ _ _ h]; exact Lru.getOrInsert_fst _ _ _

theorem Shard.getOrInsert_upd (fl : Nat) (s : Shard P) (id : PageId) (e : Entry P) :
    Upd (s.view fl) ((s.getOrInsert fl id e).2.view fl) id (some ((s.view fl id).getD e)) := by
  by_cases h : id.length ≤ fl
  · cases ho : Lru.find? s.fixed id with
    | some old =>
      rw [Shard.getOrInsert_fixed_some _ _ _ _ _ h ho]
      refine ⟨by rw [Shard.view_fixed _ _ _ h, ho]; rfl, fun k' _ x hx => hx⟩
    | none =>
      rw [Shard.getOrInsert_fixed_none _ _ _ _ h ho]
      refine ⟨by rw [Shard.view_fixed _ _ _ h, Shard.view_fixed _ _ _ h, ho]; simp, fun k' hk x hx => ?_⟩
      have hne : id ≠ k' := fun e => hk e.symm
      by_cases hk' : k'.length ≤ fl
      · rw [Shard.view_fixed _ _ _ hk'] at hx ⊢; simpa [Lru.find?_cons_ne hne] using hx
      · rw [Shard.view_cached _ _ _ hk'] at hx ⊢; exact hx
  · rw [Shard.getOrInsert_cached _ _ _ _ h]
    refine ⟨by rw [Shard.view_cached _ _ _ h, Shard.view_cached _ _ _ h]; exact Lru.getOrInsert_peek_self _ _ _,
      fun k' hk x hx => ?_⟩
    by_cases hk' : k'.length ≤ fl
    · rw [Shard.view_fixed _ _ _ hk'] at hx ⊢; exact hx
    · rw [Shard.view_cached _ _ _ hk'] at hx ⊢; exact Lru.getOrInsert_peek_ne _ hk _ _ hx

theorem Shard.getOrInsert_limit (fl : Nat) (s : Shard P) (id : PageId) (e : Entry P) :
    (s.getOrInsert fl id e).2.pageLimit = s.pageLimit := by
  by_cases h : id.length ≤ fl
  · cases ho : Lru.find? s.fixed id with
    | some old => rw [Shard.getOrInsert_fixed_some _ _ _ _ _ h ho]
    | none => rw [Shard.getOrInsert_fixed_none _ _ _ _ h ho]
  · rw [Shard.getOrInsert_cached _ _ _ _ h]

theorem Shard.insert_fixed (fl : Nat) (s : Shard P) (id : PageId) (e : Entry P) (h : id.length ≤ fl) :
    s.insert {} fl id e = { s with fixed := (id, e) :: Lru.erase s.fixed id } := by simp [Shard.insert, h]
theorem Shard.insert_cached (fl : Nat) (s : Shard P) (id : PageId) (e : Entry P) (h : ¬ id.length ≤ fl) :
    s.insert {} fl id e = { s with cached := s.cached.put id e } := by simp [Shard.insert, h]

theorem Shard.insert_upd (fl : Nat) (s : Shard P) (id : PageId) (e : Entry P) :
    Upd (s.view fl) ((s.insert {} fl id e).view fl) id (some e) := by
  by_cases h : id.length ≤ fl
  · rw [Shard.insert_fixed _ _ _ _ h]
    refine ⟨by rw [Shard.view_fixed _ _ _ h]; simp, fun k' hk x hx => ?_⟩
    have hne : id ≠ k' := fun e => hk e.symm
    by_cases hk' : k'.length ≤ fl
    · rw [Shard.view_fixed _ _ _ hk'] at hx ⊢
      simpa [Lru.find?_cons_ne hne, Lru.find?_erase_ne _ hk] using hx
    · rw [Shard.view_cached _ _ _ hk'] at hx ⊢; exact hx
  · rw [Shard.insert_cached _ _ _ _ h]
    refine ⟨by rw [Shard.view_cached _ _ _ h]; exact Lru.put_peek_self _ _ _, fun k' hk x hx => ?_⟩
    by_cases hk' : k'.length ≤ fl
    · rw [Shard.view_fixed _ _ _ hk'] at hx ⊢; exact hx
    · rw [Shard.view_cached _ _ _ hk'] at hx ⊢; exact Lru.put_peek_ne _ hk _ _ hx

theorem Shard.remove_fixed (fl : Nat) (s : Shard P) (id : PageId) (h : id.length ≤ fl) :
    s.remove fl id = { s with fixed := Lru.erase s.fixed id } := by simp [Shard.remove, h]
theorem Shard.remove_cached (fl : Nat) (s : Shard P) (id : PageId) (h : ¬ id.length ≤ fl) :
    s.remove fl id = { s with cached := s.cached.pop id } := by simp [Shard.remove, h]

theorem Shard.remove_upd (fl : Nat) (s : Shard P) (id : PageId) :
    Upd (s.view fl) ((s.remove fl id).view fl) id none := by
  by_cases h : id.length ≤ fl
  · rw [Shard.remove_fixed _ _ _ h]
    refine ⟨by rw [Shard.view_fixed _ _ _ h]; exact Lru.find?_erase_self _ _, fun k' hk x hx => ?_⟩
    by_cases hk' : k'.length ≤ fl
    · rw [Shard.view_fixed _ _ _ hk'] at hx ⊢; simpa [Lru.find?_erase_ne _ hk] using hx
    · rw [Shard.view_cached _ _ _ hk'] at hx ⊢; exact hx
  · rw [Shard.remove_cached _ _ _ h]
    refine ⟨by rw [Shard.view_cached _ _ _ h]; exact Lru.pop_peek_self _ _, fun k' hk x hx => ?_⟩
    by_cases hk' : k'.length ≤ fl
    · rw [Shard.view_fixed _ _ _ hk'] at hx ⊢; exact hx
    · rw [Shard.view_cached _ _ _ hk'] at hx ⊢; rw [← Lru.pop_peek_ne _ hk]; exact hx

theorem Shard.evict_sub (fl : Nat) (s : Shard P) : Sub (s.evict.view fl) (s.view fl) := by
  intro k x hx
  by_cases hk : k.length ≤ fl
  · rw [Shard.view_fixed _ _ _ hk] at hx ⊢; exact hx
  · rw [Shard.view_cached _ _ _ hk] at hx ⊢; exact Lru.evict_peek _ _ _ _ hx

/-- pinned levels are not touched by `evict` -/
theorem Shard.evict_pinned (fl : Nat) (s : Shard P) (k : PageId) (hk : k.length ≤ fl) :
    s.evict.view fl k = s.view fl k := by
  simp [Shard.evict, Shard.view, hk]

/-! ## the shard of a page: no panic site for 1…64 shards -/

/-- per shard count: `shard_regions` is the region table, every region non-empty, and `shard_index_for` names an
existing shard whose region holds the child (the `debug_assert!`) -/
def cacheTableOk (n : Nat) : Bool :=
  (match shardRegions n with
   | .ok rs => rs == (List.range n).map (Shards.region n)
   | _ => false) &&
  ((List.range n).all fun i => decide (1 ≤ (Shards.region n i).2)) &&
  (((List.range n).map fun i => (Shards.region n i).2).sum == 64) &&
  ((List.range 64).all fun a =>
    (match PageCache.shardIndexFn n a with
     | .ok i => i == Shards.indexFor n a
     | _ => false) &&
    decide (Shards.indexFor n a < n) &&
    decide ((Shards.region n (Shards.indexFor n a)).1 ≤ a) &&
    decide (a < (Shards.region n (Shards.indexFor n a)).1 + (Shards.region n (Shards.indexFor n a)).2))

theorem cacheTable : ∀ n, 1 ≤ n → n ≤ 64 → cacheTableOk n = true := by
  have table : (List.range 65).all (fun n => n == 0 || cacheTableOk n) = true := by decide +kernel
  intro n h1 h64
  have := List.all_eq_true.mp table n (List.mem_range.mpr (by omega))
  have hn0 : (n == 0) = false := by simp; omega
  simpa [hn0] using this

theorem shardIndexFn_ok (n a : Nat) (h1 : 1 ≤ n) (h64 : n ≤ 64) (ha : a < 64) :
    PageCache.shardIndexFn n a = .ok (Shards.indexFor n a) ∧ Shards.indexFor n a < n ∧
    (Shards.region n (Shards.indexFor n a)).1 ≤ a ∧
    a < (Shards.region n (Shards.indexFor n a)).1 + (Shards.region n (Shards.indexFor n a)).2 := by
  have h := cacheTable n h1 h64
  simp only [cacheTableOk, Bool.and_eq_true, List.all_eq_true, List.mem_range, decide_eq_true_eq] at h
  have h2 := h.2 a ha
  refine ⟨?_, h2.1.1.2, h2.1.2, h2.2⟩
  have h3 := h2.1.1.1
  split at h3
  · rename_i i hi; rw [hi]; simp at h3; rw [h3]
  · simp at h3

theorem PageCache.shardIndexFor_ok (pc : PageCache P) (w : pc.WF) (a : Nat) (t : PageId) (ha : a < 64) :
    pc.shardIndexFor (a :: t) = .ok (some (Shards.indexFor pc.shards.length a)) ∧
    Shards.indexFor pc.shards.length a < pc.shards.length := by
  obtain ⟨h1, h2, h3, h4⟩ := shardIndexFn_ok pc.shards.length a w.lo w.hi ha
  refine ⟨?_, h2⟩
  simp only [PageCache.shardIndexFor, h1, h2, if_true, h3, h4, and_self]

/-! ## `PageCache` methods on the view -/

theorem view_set_same (pc : PageCache P) (i : Nat) (s' : Shard P) (a : Nat) (t : PageId)
    (hi : i = Shards.indexFor pc.shards.length a) (hlt : i < pc.shards.length) :
    ({ pc with shards := pc.shards.set i s' } : PageCache P).view (a :: t) = s'.view pc.fixedLevels (a :: t) := by
  simp only [PageCache.view, List.length_set, ← hi]
  rw [List.getElem?_set_self hlt]

theorem view_set_other (pc : PageCache P) (i : Nat) (s' : Shard P) (a : Nat) (t : PageId)
    (hi : i ≠ Shards.indexFor pc.shards.length a) :
    ({ pc with shards := pc.shards.set i s' } : PageCache P).view (a :: t) = pc.view (a :: t) := by
  simp only [PageCache.view, List.length_set]
  rw [List.getElem?_set_ne hi]

theorem view_set_root (pc : PageCache P) (i : Nat) (s' : Shard P) :
    ({ pc with shards := pc.shards.set i s' } : PageCache P).view [] = pc.view [] := rfl

theorem same_set (pc : PageCache P) (i : Nat) (s s' : Shard P) (hs : pc.shards[i]? = some s)
    (hl : s'.pageLimit = s.pageLimit) : Same pc { pc with shards := pc.shards.set i s' } := by
  refine ⟨by simp, rfl, ?_⟩
  simp only [List.map_set, hl]
  apply List.ext_getElem?
  intro j
  by_cases hj : i = j
  · subst hj
    have hlt : i < pc.shards.length := by
      rcases Nat.lt_or_ge i pc.shards.length with h | h
      · exact h
      · rw [List.getElem?_eq_none h] at hs; cases hs
    rw [List.getElem?_set_self (by simpa using hlt)]
    simp [hs]
  · rw [List.getElem?_set_ne hj]

/-- lifting a shard-level effect on the view to the cache -/
theorem upd_lift (pc : PageCache P) (a : Nat) (t : PageId) (s s' : Shard P) (w : Option (Entry P))
    (hlt : Shards.indexFor pc.shards.length a < pc.shards.length)
    (hs : pc.shards[Shards.indexFor pc.shards.length a]? = some s)
    (hu : Upd (s.view pc.fixedLevels) (s'.view pc.fixedLevels) (a :: t) w) :
    Upd pc.view ({ pc with shards := pc.shards.set (Shards.indexFor pc.shards.length a) s' } : PageCache P).view
      (a :: t) w := by
  refine ⟨by rw [view_set_same pc _ s' a t rfl hlt]; exact hu.1, ?_⟩
  intro k' hk x hx
  cases k' with
  | nil => exact hx
  | cons b u =>
    by_cases hb : Shards.indexFor pc.shards.length a = Shards.indexFor pc.shards.length b
    · rw [view_set_same pc _ s' b u hb hlt] at hx
      have := hu.2 (b :: u) hk x hx
      simp only [PageCache.view, ← hb, hs]; exact this
    · rw [view_set_other pc _ s' b u hb] at hx; exact hx

theorem PageCache.shard_of (pc : PageCache P) (w : pc.WF) (a : Nat) (t : PageId) (ha : a < 64) :
    ∃ s, pc.shardIndexFor (a :: t) = .ok (some (Shards.indexFor pc.shards.length a)) ∧
      Shards.indexFor pc.shards.length a < pc.shards.length ∧
      pc.shards[Shards.indexFor pc.shards.length a]? = some s ∧
      pc.view (a :: t) = s.view pc.fixedLevels (a :: t) := by
  obtain ⟨h1, h2⟩ := pc.shardIndexFor_ok w a t ha
  refine ⟨_, h1, h2, List.getElem?_eq_getElem h2, ?_⟩
  simp only [PageCache.view, List.getElem?_eq_getElem h2]

theorem PageCache.get_ok (pc : PageCache P) (w : pc.WF) (id : PageId) (hv : ValidId id) :
    ∃ pc', pc.get id = .ok (pc.view id, pc') ∧ pc'.view = pc.view ∧ Same pc pc' := by
  cases id with
  | nil => exact ⟨pc, rfl, rfl, Same.refl pc⟩
  | cons a t =>
    have ha : a < 64 := hv a (by simp)
    obtain ⟨s, h1, h2, hs, hview⟩ := pc.shard_of w a t ha
    refine ⟨{ pc with shards := pc.shards.set (Shards.indexFor pc.shards.length a) (s.get pc.fixedLevels (a :: t)).2 },
      ?_, ?_, same_set pc _ _ _ hs (Shard.get_limit _ _ _)⟩
    · simp only [PageCache.get, h1, hs, hview, Shard.get_fst]
    · funext k
      cases k with
      | nil => rfl
      | cons b u =>
        by_cases hb : Shards.indexFor pc.shards.length a = Shards.indexFor pc.shards.length b
        · rw [view_set_same pc _ _ b u hb h2, Shard.get_view]
          simp only [PageCache.view, ← hb, hs]
        · rw [view_set_other pc _ _ b u hb]

theorem PageCache.insert_ok (pc : PageCache P) (w : pc.WF) (id : PageId) (hv : ValidId id) (e : Entry P) :
    ∃ pc', pc.insert id e = .ok ((pc.view id).getD e, pc') ∧
      Upd pc.view pc'.view id (some ((pc.view id).getD e)) ∧ Same pc pc' := by
  cases id with
  | nil =>
    cases hr : pc.root with
    | some r =>
      refine ⟨pc, by simp [PageCache.insert, PageCache.shardIndexFor, hr, PageCache.view], ⟨?_, ?_⟩, Same.refl pc⟩
      · simp [PageCache.view, hr]
      · intro k' _ x hx; exact hx
    | none =>
      refine ⟨{ pc with root := some e }, by simp [PageCache.insert, PageCache.shardIndexFor, hr, PageCache.view],
        ⟨?_, ?_⟩, ⟨rfl, rfl, rfl⟩⟩
      · simp [PageCache.view, hr]
      · intro k' hk x hx
        cases k' with
        | nil => exact absurd rfl hk
        | cons b u => exact hx
  | cons a t =>
    have ha : a < 64 := hv a (by simp)
    obtain ⟨s, h1, h2, hs, hview⟩ := pc.shard_of w a t ha
    refine ⟨{ pc with shards := pc.shards.set (Shards.indexFor pc.shards.length a) (s.getOrInsert pc.fixedLevels (a :: t) e).2 },
      ?_, ?_, same_set pc _ _ _ hs (Shard.getOrInsert_limit _ _ _ _)⟩
    · simp only [PageCache.insert, h1, hs, hview, Shard.getOrInsert_fst]
    · rw [hview]
      exact upd_lift pc a t _ _ _ h2 hs (Shard.getOrInsert_upd _ _ _ _)

theorem Shard.insert_limit (fl : Nat) (s : Shard P) (id : PageId) (e : Entry P) :
    (s.insert {} fl id e).pageLimit = s.pageLimit := by
  by_cases h : id.length ≤ fl
  · rw [Shard.insert_fixed _ _ _ _ h]
  · rw [Shard.insert_cached _ _ _ _ h]

theorem Shard.remove_limit (fl : Nat) (s : Shard P) (id : PageId) : (s.remove fl id).pageLimit = s.pageLimit := by
  by_cases h : id.length ≤ fl
  · rw [Shard.remove_fixed _ _ _ h]
  · rw [Shard.remove_cached _ _ _ h]

theorem PageCache.update1_ok (pc : PageCache P) (w : pc.WF) (id : PageId) (hv : ValidId id) (mp : Option (Entry P)) :
    ∃ pc', pc.update1 {} id mp = .ok pc' ∧ Upd pc.view pc'.view id mp ∧ Same pc pc' := by
  cases id with
  | nil =>
    refine ⟨{ pc with root := mp }, by simp [PageCache.update1], ⟨rfl, ?_⟩, ⟨rfl, rfl, rfl⟩⟩
    intro k' hk x hx
    cases k' with
    | nil => exact absurd rfl hk
    | cons b u => exact hx
  | cons a t =>
    have ha : a < 64 := hv a (by simp)
    obtain ⟨s, h1, h2, hs, hview⟩ := pc.shard_of w a t ha
    cases mp with
    | some e =>
      refine ⟨{ pc with shards := pc.shards.set (Shards.indexFor pc.shards.length a) (s.insert {} pc.fixedLevels (a :: t) e) },
        ?_, ?_, same_set pc _ _ _ hs (Shard.insert_limit _ _ _ _)⟩
      · simp [PageCache.update1, h1, hs]
      · exact upd_lift pc a t _ _ _ h2 hs (Shard.insert_upd _ _ _ _)
    | none =>
      refine ⟨{ pc with shards := pc.shards.set (Shards.indexFor pc.shards.length a) (s.remove pc.fixedLevels (a :: t)) },
        ?_, ?_, same_set pc _ _ _ hs (Shard.remove_limit _ _ _)⟩
      · simp [PageCache.update1, h1, hs]
      · exact upd_lift pc a t _ _ _ h2 hs (Shard.remove_upd _ _ _)

theorem PageCache.evict_sub (pc : PageCache P) : Sub pc.evict.view pc.view := by
  intro k x hx
  cases k with
  | nil => exact hx
  | cons a t =>
    simp only [PageCache.view, PageCache.evict, List.length_map, List.getElem?_map] at hx ⊢
    cases hs : pc.shards[Shards.indexFor pc.shards.length a]? with
    | none => simp [hs] at hx
    | some s => simp only [hs, Option.map_some] at hx; exact Shard.evict_sub _ s _ _ hx

theorem PageCache.evict_pinned (pc : PageCache P) (k : PageId) (hk : k.length ≤ pc.fixedLevels) :
    pc.evict.view k = pc.view k := by
  cases k with
  | nil => rfl
  | cons a t =>
    simp only [PageCache.view, PageCache.evict, List.length_map, List.getElem?_map]
    cases hs : pc.shards[Shards.indexFor pc.shards.length a]? with
    | none => simp
    | some s => simp only [Option.map_some]; exact Shard.evict_pinned _ s _ hk

theorem PageCache.evict_same (pc : PageCache P) : Same pc pc.evict := by
  refine ⟨by simp [PageCache.evict], rfl, ?_⟩
  simp [PageCache.evict, Shard.evict, List.map_map, Function.comp_def]

/-- after `evict` no shard's LRU exceeds its limit -/
theorem PageCache.evict_budget (pc : PageCache P) (s : Shard P) (hs : s ∈ pc.evict.shards) :
    s.cached.len ≤ s.pageLimit := by
  simp only [PageCache.evict, List.mem_map] at hs
  obtain ⟨s0, _, rfl⟩ := hs
  exact Lru.evict_len _ _

end Nomt.Cache
