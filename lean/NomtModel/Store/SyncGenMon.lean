import NomtModel.Store.TraceOrderSim
import NomtModel.Store.SyncGen
/-!
# The order monitor, file by file

Lemmas about `orderStep` (`Store/TraceOrder.lean`) in the form the acceptance proof of the sync choreography needs:

* every kind of trace line, with the condition under which the monitor accepts it and the state it produces (`step_*`);
* a per-file reading of the monitor's state — `Holds f st a` with `a` one of `clean` (nothing of `f` pending, no fsync of
  `f` in flight), `opn N` (no fsync in flight; for every key `k` exactly `N k` pending effects of `f` have not completed),
  `syncing th` (one fsync of `f` in flight, issued by `th`, covering EVERY pending effect of `f`) — and its transitions;
* the frame lemma: a line of another file leaves the reading of `f` unchanged (`orderStep_same`).
-/
namespace Nomt.Store.SyncGen
open Nomt.Store

/-! ## Keys: how `endEffect` pairs an End line with a pending effect -/

abbrev Key := String × Nat

def pkey (p : Pend) : Key := (p.kind, if p.kind == "SetLen" then 0 else p.offset)
def ekey (e : IoEv) : Key := (e.kind, if e.kind == "SetLen" then 0 else e.offset)

theorem endCond_iff (e : IoEv) (p : Pend) :
    endCond e p = true ↔ (p.ended = false ∧ p.name = e.file ∧ pkey p = ekey e) := by
  unfold endCond pkey ekey
  simp only [Bool.and_eq_true, Bool.not_eq_true', beq_iff_eq, Bool.or_eq_true, Prod.mk.injEq]
  constructor
  · rintro ⟨⟨⟨h1, h2⟩, h3⟩, h4⟩
    refine ⟨h1, h3, h2, ?_⟩
    rw [h2]
    by_cases hs : e.kind = "SetLen"
    · simp [hs]
    · rcases h4 with h4 | h4
      · simp [hs, h4]
      · exact absurd h4 hs
  · rintro ⟨h1, h3, h2, h4⟩
    refine ⟨⟨⟨h1, h2⟩, h3⟩, ?_⟩
    rw [h2] at h4
    by_cases hs : e.kind = "SetLen"
    · exact Or.inr hs
    · left; simpa [hs] using h4

/-- pending effects of file `f` with key `k` that have not completed -/
def unK (f : String) (k : Key) (pend : List Pend) : Nat :=
  pend.countP (fun p => !p.ended && p.file == f && pkey p == k)

def syncOf (f : String) (ss : List InFlight) : List InFlight := ss.filter (·.file == f)

theorem isDataKind_pkey (p : Pend) (e : IoEv) (h : pkey p = ekey e) (hk : isDataKind e.kind = true) :
    isDataKind p.kind = true := by
  have : p.kind = e.kind := by simpa [pkey, ekey] using congrArg Prod.fst h
  rw [this]; exact hk

theorem endEffect_mem' (e : IoEv) (pend : List Pend) (q : Pend) (h : q ∈ endEffect e pend) :
    ∃ p ∈ pend, q = p ∨ q = { p with ended := true } := by
  induction pend with
  | nil => cases h
  | cons p rest ih =>
    rw [endEffect_cons] at h
    split at h
    · rcases List.mem_cons.mp h with rfl | h
      · exact ⟨p, by simp, Or.inr rfl⟩
      · exact ⟨q, by simp [h], Or.inl rfl⟩
    · rcases List.mem_cons.mp h with rfl | h
      · exact ⟨q, by simp, Or.inl rfl⟩
      · obtain ⟨p', hp', h'⟩ := ih h
        exact ⟨p', by simp [hp'], h'⟩

theorem mem_endEffect_of_mem (e : IoEv) (pend : List Pend) (p : Pend) (h : p ∈ pend) :
    ∃ q ∈ endEffect e pend, q.id = p.id ∧ q.file = p.file := by
  induction pend with
  | nil => cases h
  | cons a rest ih =>
    rw [endEffect_cons]
    split
    · rcases List.mem_cons.mp h with heq | h
      · subst heq
        exact ⟨{ p with ended := true }, List.mem_cons_self, rfl, rfl⟩
      · exact ⟨p, List.mem_cons_of_mem _ h, rfl, rfl⟩
    · rcases List.mem_cons.mp h with heq | h
      · subst heq
        exact ⟨p, List.mem_cons_self, rfl, rfl⟩
      · obtain ⟨q, hq, h'⟩ := ih h
        exact ⟨q, List.mem_cons_of_mem _ hq, h'⟩

/-- an End line completes exactly one pending effect of its file and key, if there is one -/
theorem unK_endEffect (e : IoEv) (hk : isDataKind e.kind = true) (f : String) (k : Key) :
    ∀ (pend : List Pend), (∀ p ∈ pend, isDataKind p.kind = true → p.name = p.file) →
      unK f k (endEffect e pend) = unK f k pend - (if f = e.file ∧ k = ekey e then 1 else 0) := by
  intro pend
  induction pend with
  | nil => intro _; simp [unK, endEffect]
  | cons p rest ih =>
    intro hpwf
    have ih' := ih (fun q hq => hpwf q (by simp [hq]))
    have hp := hpwf p (by simp)
    rw [endEffect_cons]
    -- is the head counted for (f, k)?
    have hcount : ∀ (q : Pend) (l : List Pend), unK f k (q :: l) =
        unK f k l + (if (!q.ended && q.file == f && pkey q == k) = true then 1 else 0) := by
      intro q l; simp only [unK, List.countP_cons]
    by_cases hc : endCond e p = true
    · simp only [hc, if_true]
      obtain ⟨h1, h2, h3⟩ := (endCond_iff e p).mp hc
      have hfile : p.file = e.file := by rw [← hp (isDataKind_pkey p e h3 hk)]; exact h2
      rw [hcount, hcount]
      have hnew : (!({ p with ended := true } : Pend).ended && ({ p with ended := true } : Pend).file == f &&
          pkey { p with ended := true } == k) = false := by simp
      rw [hnew]
      by_cases hfk : f = e.file ∧ k = ekey e
      · obtain ⟨rfl, rfl⟩ := hfk
        have : (!p.ended && p.file == e.file && pkey p == ekey e) = true := by simp [h1, hfile, h3]
        simp [this]
      · have : (!p.ended && p.file == f && pkey p == k) = false := by
          cases hx : (!p.ended && p.file == f && pkey p == k) with
          | false => rfl
          | true =>
            simp only [Bool.and_eq_true, beq_iff_eq] at hx
            exact absurd ⟨hx.1.2.symm.trans hfile, hx.2.symm.trans h3⟩ hfk
        simp [this, hfk]
    · have hc' : endCond e p = false := by simpa using hc
      simp only [hc', Bool.false_eq_true, if_false]
      rw [hcount, hcount, ih']
      by_cases hfk : f = e.file ∧ k = ekey e
      · obtain ⟨rfl, rfl⟩ := hfk
        have : (!p.ended && p.file == e.file && pkey p == ekey e) = false := by
          cases hx : (!p.ended && p.file == e.file && pkey p == ekey e) with
          | false => rfl
          | true =>
            simp only [Bool.and_eq_true, Bool.not_eq_true', beq_iff_eq] at hx
            exfalso
            apply hc
            rw [endCond_iff]
            exact ⟨hx.1.1, (hp (isDataKind_pkey p e hx.2 hk)).trans hx.1.2, hx.2⟩
        simp [this]
      · simp [hfk]

/-! ## Invariants of the monitor's own state -/

structure GInv (st : OrderSt) (nid : Nat) : Prop where
  m : MInv st nid
  pwf : ∀ p ∈ st.pend, isDataKind p.kind = true → p.name = p.file

theorem ginv_init (st : OrderSt) (hp : st.pend = []) (hs : st.syncs = []) : GInv st 0 :=
  ⟨minv_init st hp hs, fun p h => by rw [hp] at h; cases h⟩

/-! ## The monitor's steps, line kind by line kind -/

theorem isDataKind_Write : isDataKind "Write" = true := by decide
theorem isDataKind_Append : isDataKind "Append" = true := by decide
theorem isDataKind_SetLen : isDataKind "SetLen" = true := by decide

/-- Begin of a data operation on a file other than `meta` -/
theorem step_beginData (st : OrderSt) (id : Nat) (e : IoEv) (th : String)
    (hk : isDataKind e.kind = true) (hm : e.file ≠ "meta") (hp1 : st.phase ≠ 1)
    (hht : e.file = "ht" → st.phase = 2 ∧ st.walWritten = true)
    (hwal : e.file = "wal" → st.phase = 2 → ∀ q ∈ st.pend, q.file ≠ "ht")
    (htree : (e.file = "ln" ∨ e.file = "bbn") → e.kind = "Write" → st.phase ≠ 2) :
    ∃ st', orderStep st id ⟨true, e, th⟩ = .ok st' ∧ st'.pend = st.pend ++ [mkPend id e] ∧ st'.syncs = st.syncs ∧
      st'.phase = st.phase ∧ st'.metaId = st.metaId ∧
      st'.walWritten = (st.walWritten || (e.file == "wal" && st.phase != 2 && e.kind == "Append")) := by
  unfold orderStep
  simp only [hk, if_true]
  unfold beginData
  simp only [bind, Except.bind, pure, Except.pure, throw, throwThe, MonadExceptOf.throw]
  have hm' : (e.file == "meta") = false := by simpa using hm
  have hp1' : (st.phase == 1) = false := by simpa using hp1
  simp only [hm', hp1', Bool.false_eq_true, if_false]
  by_cases hf : e.file = "ht"
  · obtain ⟨h2, hw⟩ := hht hf
    simp [hf, h2, hw, mkPend]
  · have hf' : (e.file == "ht") = false := by simpa using hf
    simp only [hf', Bool.false_eq_true, if_false]
    by_cases hwf : e.file = "wal"
    · simp only [hwf, beq_self_eq_true, if_true]
      by_cases h2 : st.phase = 2
      · have hnone : st.pend.find? (fun q => q.file == "ht") = none := by
          rw [List.find?_eq_none]
          intro q hq
          simpa using hwal hwf h2 q hq
        simp [h2, hnone, mkPend, hwf]
      · have h2' : (st.phase == 2) = false := by simpa using h2
        simp [h2', mkPend, hwf, h2, bne]
    · have hwf' : (e.file == "wal") = false := by simpa using hwf
      simp only [hwf', Bool.false_eq_true, if_false]
      by_cases htf : e.file = "ln" ∨ e.file = "bbn"
      · have : (e.file == "ln" || e.file == "bbn") = true := by simpa using htf
        simp only [this, if_true]
        by_cases hkw : e.kind = "Write"
        · have h2 := htree htf hkw
          have h2' : (st.phase == 2) = false := by simpa using h2
          simp [h2', mkPend]
        · have : (e.kind == "Write") = false := by simpa using hkw
          simp [this, mkPend]
      · have : (e.file == "ln" || e.file == "bbn") = false := by simpa using htf
        simp [this, mkPend]

/-- Begin of the write of the meta page -/
theorem step_beginMeta (st : OrderSt) (id : Nat) (e : IoEv) (th : String)
    (hk : isDataKind e.kind = true) (hm : e.file = "meta") (hp0 : st.phase = 0) (hpend : st.pend = []) :
    ∃ st', orderStep st id ⟨true, e, th⟩ = .ok st' ∧ st'.pend = [mkPend id e] ∧ st'.syncs = st.syncs ∧
      st'.phase = 1 ∧ st'.metaId = id ∧ st'.walWritten = st.walWritten := by
  unfold orderStep
  simp only [hk, if_true]
  unfold beginData
  simp [bind, Except.bind, pure, Except.pure, hm, hp0, hpend, mkPend]

/-- Begin of a create / unlink -/
theorem step_beginDir (st : OrderSt) (id : Nat) (e : IoEv) (th : String)
    (hk : isDataKind e.kind = false) (hd : isDirKind e.kind = true) (hp1 : st.phase ≠ 1)
    (hu : e.kind = "Unlink" → st.phase ≠ 0) :
    ∃ st', orderStep st id ⟨true, e, th⟩ = .ok st' ∧ st'.pend = st.pend ++ [mkDirPend id e] ∧ st'.syncs = st.syncs ∧
      st'.phase = st.phase ∧ st'.metaId = st.metaId ∧ st'.walWritten = st.walWritten := by
  unfold orderStep
  simp only [hk, hd, Bool.false_eq_true, if_false, if_true]
  unfold beginDirOp
  simp only [bind, Except.bind, pure, Except.pure, throw, throwThe, MonadExceptOf.throw]
  have hp1' : (st.phase == 1) = false := by simpa using hp1
  simp only [hp1', Bool.false_eq_true, if_false]
  by_cases hku : e.kind = "Unlink"
  · have := hu hku
    have h0 : (st.phase == 0) = false := by simpa using this
    simp [hku, h0, mkDirPend]
  · have : (e.kind == "Unlink") = false := by simpa using hku
    simp [this, mkDirPend]

/-- Begin of an fsync of file `f` -/
theorem step_beginFsync (st : OrderSt) (id : Nat) (f : String) (o n : Nat) (site th : String) :
    ∃ st', orderStep st id ⟨true, ev "Fsync" f o n site, th⟩ = .ok st' ∧ st'.pend = st.pend ∧
      st'.syncs = st.syncs ++ [⟨f, th, (st.pend.filter (fun p => p.file == f && p.ended)).map (·.id)⟩] ∧
      st'.phase = st.phase ∧ st'.metaId = st.metaId ∧ st'.walWritten = st.walWritten := by
  unfold orderStep
  simp (config := { decide := true }) only [ev, isDataKind, isDirKind, if_true, if_false, Bool.false_eq_true, Bool.or_false,
    Bool.or_self, beq_self_eq_true]
  exact ⟨_, rfl, rfl, rfl, rfl, rfl, rfl⟩

/-- Begin of a directory fsync -/
theorem step_beginDirSync (st : OrderSt) (id : Nat) (f : String) (o n : Nat) (site th : String) :
    ∃ st', orderStep st id ⟨true, ev "DirSync" f o n site, th⟩ = .ok st' ∧ st'.pend = st.pend ∧
      st'.syncs = st.syncs ++ [⟨"dir", th, (st.pend.filter (fun p => p.file == "dir")).map (·.id)⟩] ∧
      st'.phase = st.phase ∧ st'.metaId = st.metaId ∧ st'.walWritten = st.walWritten := by
  unfold orderStep
  simp (config := { decide := true }) only [ev, isDataKind, isDirKind, if_true, if_false, Bool.false_eq_true, Bool.or_false,
    Bool.or_self, beq_self_eq_true]
  exact ⟨_, rfl, rfl, rfl, rfl, rfl, rfl⟩

/-- End of a data operation -/
theorem step_endData (st : OrderSt) (id : Nat) (e : IoEv) (th : String) (hk : isDataKind e.kind = true) :
    ∃ st', orderStep st id ⟨false, e, th⟩ = .ok st' ∧ st'.pend = endEffect e st.pend ∧ st'.syncs = st.syncs ∧
      st'.phase = st.phase ∧ st'.metaId = st.metaId ∧ st'.walWritten = st.walWritten := by
  unfold orderStep
  simp only [Bool.false_eq_true, if_false, hk, if_true]
  exact ⟨_, rfl, rfl, rfl, rfl, rfl, rfl⟩

/-- End of a create / unlink: no effect on the monitor -/
theorem step_endDir (st : OrderSt) (id : Nat) (e : IoEv) (th : String)
    (hk : isDataKind e.kind = false) (hf : e.kind ≠ "Fsync") (hd : e.kind ≠ "DirSync") :
    orderStep st id ⟨false, e, th⟩ = .ok st := by
  have h1 : (e.kind == "Fsync") = false := by simpa using hf
  have h2 : (e.kind == "DirSync") = false := by simpa using hd
  simp [orderStep, hk, h1, h2]

/-- End of an fsync (`f`) / directory fsync (`f = "dir"`), when the in-flight list holds its Begin -/
theorem step_endSync (st : OrderSt) (id : Nat) (e : IoEv) (th : String) (f : String)
    (hkind : (e.kind = "Fsync" ∧ f = e.file) ∨ (e.kind = "DirSync" ∧ f = "dir"))
    (cov : List Nat) (rest : List InFlight) (ht : takeSync f th st.syncs = some (cov, rest)) :
    ∃ st', orderStep st id ⟨false, e, th⟩ = .ok st' ∧ st'.pend = st.pend.filter (fun p => !cov.contains p.id) ∧
      st'.syncs = rest ∧
      st'.phase = (if st.phase == 1 && f == "meta" && cov.contains st.metaId then 2 else st.phase) ∧
      st'.metaId = st.metaId ∧ st'.walWritten = st.walWritten := by
  have hnd : isDataKind e.kind = false := by
    rcases hkind with ⟨h, _⟩ | ⟨h, _⟩ <;> rw [h] <;> decide
  have hfs : (e.kind == "Fsync" || e.kind == "DirSync") = true := by
    rcases hkind with ⟨h, _⟩ | ⟨h, _⟩ <;> rw [h] <;> decide
  have hfile : (if (e.kind == "DirSync") = true then "dir" else e.file) = f := by
    rcases hkind with ⟨h, hf⟩ | ⟨h, hf⟩
    · rw [h, hf]; simp
    · rw [h, hf]; simp
  unfold orderStep
  simp only [Bool.false_eq_true, if_false, hnd, hfs, if_true, hfile, ht]
  exact ⟨_, rfl, rfl, rfl, rfl, rfl, rfl⟩

/-! ## `takeSync` when one fsync of the file is in flight -/

theorem takeSync_filter_ne (f t g : String) (hg : g ≠ f) : ∀ (ss : List InFlight) (cov : List Nat) (rest : List InFlight),
    takeSync f t ss = some (cov, rest) → syncOf g rest = syncOf g ss := by
  intro ss
  induction ss with
  | nil => intro cov rest h; cases h
  | cons s ss ih =>
    intro cov rest h
    rw [takeSync_cons] at h
    cases hr : takeSync f t ss with
    | some x =>
      obtain ⟨c, rest'⟩ := x
      rw [hr] at h
      simp only [Option.some.injEq, Prod.mk.injEq] at h
      obtain ⟨rfl, rfl⟩ := h
      simp only [syncOf, List.filter_cons]
      have := ih c rest' hr
      simp only [syncOf] at this
      rw [this]
    | none =>
      rw [hr] at h
      simp only at h
      split at h
      · rename_i hc
        simp only [Option.some.injEq, Prod.mk.injEq] at h
        obtain ⟨rfl, rfl⟩ := h
        simp only [Bool.and_eq_true, beq_iff_eq] at hc
        have : (s.file == g) = false := by simpa [hc.1] using (Ne.symm hg)
        simp [syncOf, List.filter_cons, this]
      · cases h

theorem takeSync_none_of_filter (f t : String) : ∀ (ss : List InFlight), syncOf f ss = [] → takeSync f t ss = none := by
  intro ss
  induction ss with
  | nil => intro _; rfl
  | cons s ss ih =>
    intro h
    simp only [syncOf, List.filter_cons] at h
    split at h
    · cases h
    · rename_i hs
      rw [takeSync_cons, ih h]
      simp only
      have : (s.file == f && s.thread == t) = false := by simp at hs; simp [hs]
      simp [this]

theorem takeSync_of_unique (f t : String) (x : InFlight) (hx : x.thread = t) :
    ∀ (ss : List InFlight), syncOf f ss = [x] →
      ∃ rest, takeSync f t ss = some (x.covers, rest) ∧ syncOf f rest = [] := by
  intro ss
  induction ss with
  | nil => intro h; cases h
  | cons s ss ih =>
    intro h
    simp only [syncOf, List.filter_cons] at h
    split at h
    · rename_i hs
      simp only [List.cons.injEq] at h
      obtain ⟨rfl, h⟩ := h
      have hn := takeSync_none_of_filter f t ss h
      rw [takeSync_cons, hn]
      simp only [beq_iff_eq] at hs
      simp only [hs, hx, beq_self_eq_true, Bool.and_self, if_true]
      exact ⟨ss, rfl, h⟩
    · rename_i hs
      obtain ⟨rest, hr, hrest⟩ := ih h
      rw [takeSync_cons, hr]
      refine ⟨s :: rest, rfl, ?_⟩
      simp only [syncOf, List.filter_cons, hs]
      simpa [syncOf] using hrest

end Nomt.Store.SyncGen
