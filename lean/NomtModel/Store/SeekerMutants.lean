import NomtModel.Store.SeekerRun
/-!
# One-line variants of the `Seeker` mirror (for the kernel-checked counterexamples of `Props/C05_SeekerMutants.lean`)

Each function below is the function of the same name in `Store/Seeker.lean` with ONE flag:
* `joinWaitersX append` — `false`: the `Occupied` arm of `io_waiters.entry(..)` REPLACES the waiter list
  (`*occupied.get_mut() = vec![request_index]`) instead of pushing onto it;
* `wakeLoopX requeue` — `false`: the completion handlers do not push a request that is not completed back onto
  `idle_requests`;
* `takeAny` — `take_completion` hands out the first COMPLETED request instead of looking at the front only.
-/
namespace Nomt.Seeker
open Nomt Nomt.Ovl Nomt.TriePos Nomt.Seek

variable {Node VH V : Type}

def joinWaitersX (append : Bool) (ws : List (Query × List Nat)) (q : Query) (idx : Nat) :
    Option (Outcome Unit (List (Query × List Nat))) :=
  match ws.lookup q with
  | none => none
  | some w =>
    if w.contains idx then some (.panic "assert: !occupied.get().contains(&request_index)")
    else some (.ok (ws.map (fun e => if e.1 = q then (e.1, if append then e.2 ++ [idx] else [idx]) else e)))

def submitReqX (append : Bool) (env : Env Node VH V) (ht : Ht) : Nat → Mux Node VH V → Nat → Outcome Unit (Mux Node VH V)
  | 0, _, _ => .panic "fuel"
  | fuel + 1, m, idx =>
    if idx < m.processed then .ok m else
    let i := idx - m.processed
    match m.reqs[i]? with
    | none => .panic "requests[i]"
    | some r =>
      match nextQuery r with
      | .panic s => .panic s
      | .err e => .err e
      | .ok (_, none) => .ok m
      | .ok (r, some (.page pid)) =>
        (match memPage env m pid with
         | some (pg, ps) =>
           (match continueSeek env ps r pid pg with
            | .panic s => .panic s
            | .err e => .err e
            | .ok (ps', r') => submitReqX append env ht fuel { m with ps := ps', reqs := m.reqs.set i r' } idx)
         | none =>
           match joinWaitersX append m.waiters (.page pid) idx with
           | some (.ok ws) => .ok { m with reqs := m.reqs.set i r, waiters := ws }
           | some (.panic s) => .panic s
           | some (.err e) => .err e
           | none =>
             match m.slab.insert (.merkle pid 0 false) with
             | .panic s => .panic s
             | .err e => .err e
             | .ok (slab, si) =>
               submitIdleLoad ht { m with reqs := m.reqs.set i { r with ios := r.ios + 1 },
                                          waiters := m.waiters ++ [(.page pid, [idx])], slab := slab } si)
      | .ok (r, some (.leaf l)) =>
        match joinWaitersX append m.waiters (.leaf l) idx with
        | some (.ok ws) => .ok { m with reqs := m.reqs.set i r, waiters := ws }
        | some (.panic s) => .panic s
        | some (.err e) => .err e
        | none =>
          if m.leafCache.contains l then
            match feedLeaf env m.ps r l with
            | .panic s => .panic s
            | .err e => .err e
            | .ok (ps', r') => submitReqX append env ht fuel { m with ps := ps', reqs := m.reqs.set i r' } idx
          else
            match m.slab.insert (.leaf l) with
            | .panic s => .panic s
            | .err e => .err e
            | .ok (slab, si) =>
              .ok { m with reqs := m.reqs.set i { r with ios := r.ios + 1 },
                           waiters := m.waiters ++ [(.leaf l, [idx])], slab := slab,
                           inflight := m.inflight ++ [(si, .leaf l)] }

def submitIdleReqsX (append : Bool) (env : Env Node VH V) (ht : Ht) : List Nat → Mux Node VH V → Outcome Unit (Mux Node VH V)
  | [], m => .ok m
  | idx :: rest, m =>
    if !m.hasRoom then .ok m else
    match submitReqX append env ht (reqFuel env) { m with idleReqs := rest } idx with
    | .ok m' => submitIdleReqsX append env ht rest m'
    | .panic s => .panic s
    | .err e => .err e

def submitAllX (append : Bool) (env : Env Node VH V) (ht : Ht) (m : Mux Node VH V) : Outcome Unit (Mux Node VH V) :=
  if !m.hasRoom then .ok m else
  match submitIdleLoads ht m.idleLoads m with
  | .ok m' => submitIdleReqsX append env ht m'.idleReqs m'
  | .panic s => .panic s
  | .err e => .err e

def wakeLoopX (requeue : Bool) (deliver : PageSet Node → Req Node VH V → Outcome Unit (PageSet Node × Req Node VH V)) :
    List Nat → Mux Node VH V → Outcome Unit (Mux Node VH V)
  | [], m => .ok m
  | w :: rest, m =>
    if w < m.processed then wakeLoopX requeue deliver rest m else
    match m.reqs[w - m.processed]? with
    | none => .panic "requests[idx]"
    | some r =>
      if r.isCompleted then .panic "assert: !request.is_completed()" else
      match deliver m.ps r with
      | .panic s => .panic s
      | .err e => .err e
      | .ok (ps', r') =>
        wakeLoopX requeue deliver rest
          { m with ps := ps', reqs := m.reqs.set (w - m.processed) r',
                   idleReqs := if r'.isCompleted || !requeue then m.idleReqs else m.idleReqs ++ [w] }

/-- `handle_completion` for a merkle page that is the one asked for, with `wakeLoopX` -/
def recvPageX (requeue : Bool) (env : Env Node VH V) (m : Mux Node VH V) (ud : Nat) : Outcome Unit (Mux Node VH V) :=
  let m := { m with inflight := m.inflight.eraseP (fun c => c.1 == ud) }
  match m.slab.remove ud with
  | .ok (slab, .merkle pid _ _) =>
    match env.disk.lookup pid with
    | none => .err ()
    | some page =>
      wakeLoopX requeue (fun ps r => continueSeek env ps r pid page) (removeWaiters m.waiters (.page pid)).2
        { m with slab := slab, cache := (pid, page) :: m.cache, ps := m.ps.insert pid page .persisted,
                 waiters := (removeWaiters m.waiters (.page pid)).1 }
  | _ => .err ()

/-- the first completed request, wherever it stands in the queue -/
def takeAny (m : Mux Node VH V) : Mux Node VH V × Option (Req Node VH V) :=
  match m.reqs.find? (·.isCompleted) with
  | some r => ({ m with reqs := m.reqs.eraseP (·.isCompleted), processed := m.processed + 1 }, some r)
  | none => (m, none)

end Nomt.Seeker
