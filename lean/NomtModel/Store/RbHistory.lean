import NomtModel.Store.RbSync
/-!
Any history of commits, rollbacks and reopens on the mirror of `Rollback` (C09 / C10): no panic site is reached, every
state is `Good`, and the log — newest first — is the specification-level log of `Api.Exec` (`pushLog` = `(d :: log).take
maxLog`, `rollback` = `log.drop n`, refused when `n` exceeds what is held, `reopen` = identity).
-/
namespace Nomt.Rb
open Nomt
variable {V : Type}

/-- what `Nomt` does to the rollback log -/
inductive Op (V : Type) where
  | commit (d : Delta V)          -- `Rollback::commit(delta)` + the sync of the commit
  | rollback (n : Nat)            -- `Nomt::rollback(n)`: `truncate(n)` + the sync of the rollback commit
  | reopen                        -- drop + `Rollback::read` with the range the last sync published

/-- state: the mirror + the range in the meta -/
def step (s : Rb V × (Nat × Nat)) : Op V → Outcome Unit (Rb V × (Nat × Nat))
  | .commit d =>
    (match s.1.commitSync d with
     | .ok (m, r) => .ok (r, m)
     | .err e => .err e
     | .panic p => .panic p)
  | .rollback n =>
    if n = 0 then .ok s                                   -- `Nomt::rollback(0)` returns at once
    else
      (match s.1.truncate n with
       | .ok (none, _) => .ok s                           -- "not enough logged for rolling back"
       | .ok (some _, r1) =>
         (match r1.sync with
          | .ok (m, r2) => .ok (r2, m)
          | .err e => .err e
          | .panic p => .panic p)
       | .err e => .err e
       | .panic p => .panic p)
  | .reopen =>
    (match Rb.read s.1.maxLen s.2 s.1.seg.recs with
     | .ok r => .ok (r, s.2)
     | .err e => .err e
     | .panic p => .panic p)

def run : Rb V × (Nat × Nat) → List (Op V) → Outcome Unit (Rb V × (Nat × Nat))
  | s, [] => .ok s
  | s, op :: ops =>
    match step s op with
    | .ok s' => run s' ops
    | .err e => .err e
    | .panic p => .panic p

/-- the specification-level log (newest first) -/
def specStep (maxLen : Nat) (l : List (Delta V)) : Op V → List (Delta V)
  | .commit d => (d :: l).take maxLen
  | .rollback n => if n ≤ l.length then l.drop n else l
  | .reopen => l

theorem absLog_length (r : Rb V) : r.absLog.length = r.log.length := by simp [Rb.absLog]

theorem step_good {r : Rb V} {m : Nat × Nat} (g : Good r m) (op : Op V) :
    ∃ r' m', step (r, m) op = .ok (r', m') ∧ Good r' m' ∧ r'.absLog = specStep r.maxLen r.absLog op ∧
      r'.maxLen = r.maxLen := by
  cases op with
  | commit d =>
    obtain ⟨m', r', h1, h2, h3, h4⟩ := commitSync_good g d
    exact ⟨r', m', by simp [step, h1], h2, h3, h4⟩
  | rollback n =>
    by_cases h0 : n = 0
    · subst h0
      exact ⟨r, m, by simp [step], g, by simp [specStep], rfl⟩
    · by_cases hle : n ≤ r.log.length
      · obtain ⟨r1, m', r', h1, h2, h3, _, h5, h6⟩ := truncateSync_good g n (by omega) hle
        refine ⟨r', m', by simp [step, h0, h1, h2], h3, ?_, h6⟩
        rw [h5]
        simp [specStep, absLog_length, hle]
      · have := (truncate_spec r n).2.1 (by omega)
        refine ⟨r, m, by simp [step, h0, this], g, ?_, rfl⟩
        simp [specStep, absLog_length, hle]
  | reopen =>
    by_cases hl : r.log = []
    · obtain ⟨_, _, h3, _⟩ := g.empty hl
      obtain ⟨r', h1, h2, h4, h5⟩ := read_good g [] (fun x hx => by cases hx) (fun _ => rfl)
      rw [List.nil_append, hl, ← h3] at h1
      exact ⟨r', m, by simp [step, h1], h4, by simp [specStep, Rb.absLog, h2], h5⟩
    · obtain ⟨f, pre, _, hids, _, hrecs, hpre, _⟩ := g.nonempty hl
      obtain ⟨r', h1, h2, h4, h5⟩ := read_good g pre
        (fun x hx y hy => by have := hpre x hx; have := hids.mem y hy; omega) (fun h => absurd h hl)
      rw [← hrecs] at h1
      exact ⟨r', m, by simp [step, h1], h4, by simp [specStep, Rb.absLog, h2], h5⟩

/-- **every history** from a `Good` state (in particular from the empty log, `good_init`) -/
theorem run_good {r : Rb V} {m : Nat × Nat} (g : Good r m) (ops : List (Op V)) :
    ∃ r' m', run (r, m) ops = .ok (r', m') ∧ Good r' m' ∧ r'.absLog = ops.foldl (specStep r.maxLen) r.absLog ∧
      r'.maxLen = r.maxLen := by
  induction ops generalizing r m with
  | nil => exact ⟨r, m, rfl, g, rfl, rfl⟩
  | cons op ops ih =>
    obtain ⟨r1, m1, h1, g1, a1, l1⟩ := step_good g op
    obtain ⟨r2, m2, h2, g2, a2, l2⟩ := ih g1
    refine ⟨r2, m2, by simp [run, h1, h2], g2, ?_, by rw [l2, l1]⟩
    rw [a2, a1, l1]; rfl

/-- the log never holds more than `max_rollback_log_len` deltas -/
theorem run_bounded {r : Rb V} {m : Nat × Nat} (g : Good r m) (ops : List (Op V)) :
    ∀ r' m', run (r, m) ops = .ok (r', m') → r'.log.length ≤ r.maxLen := by
  intro r' m' h
  obtain ⟨r2, m2, h2, g2, _, l2⟩ := run_good g ops
  rw [h2] at h
  cases h
  rw [← l2]; exact g2.len

end Nomt.Rb
