import NomtModel.Store.WalkerSimRun
import NomtModel.Store.WalkerSimStack
import NomtModel.Store.WalkerGSimStack
/-!
# A whole script on the mirror of `PageWalker`

`Walker.runM` folds `advance_and_replace` / `advance` over a script; the theorems of this file combine the simulation
(`Store/WalkerSim*.lean`) with the invariant of the tree walker (`Store/WalkerTreeRun*.lean`): an ascending prefix-free
script of terminals over a page set that holds the pages on the way to the terminals never reaches a panic site and
`conclude` returns the specified root of the new key set.
-/
namespace Nomt.Walker.G
open Nomt Nomt.TriePos
open Nomt.Wal (PageDiff)

variable {Node VH : Type} [DecidableEq Node] [DecidableEq VH] (H : Hasher Node VH) (ps : PageSet Node)

/-! ## paths and pages -/

/-! ## the page set of a walk -/

/-- what the walk needs from the page set: `fresh` hands out whole pages, every page on the way to a terminal is there —
loaded from the hash table OR reconstructed (any `PageOrigin`) — with 126 slots -/
structure PSOK (steps : List (Step VH)) : Prop where
  fresh : ∀ P, (ps.fresh P).length = 126
  load : ∀ s ∈ steps, s.1 ≠ [] → ∀ Q, Q <+: specPage s.1 →
    ∃ pg o, ps.get Q = some (pg, o) ∧ pg.nodes.length = 126
  /-- the leaf counters of the reconstructed pages are consistent (`OriginsOK`, what the oracle `C02 recon counters` checks) -/
  origins : OriginsOK ps
  /-- no page of the page set lies below a terminal that is replaced (pages exist only below internal nodes) -/
  clean : ∀ s ∈ steps, s.2.isSome = true → ∀ q, s.1 <+: q → q.length % 6 = 0 → ps.get (sextetsOf q) = none

/-- below an absent page the page set holds no weight -/
theorem fullSum_zero_of_absent (hO : OriginsOK ps) (P : PageId) (hget : ps.get P = none) : fullSum ps P = 0 := by
  have := hO P
  unfold originOK at this
  rw [hget] at this
  simp only [decide_eq_true_eq] at this
  have hcl : oldCl ps P = 0 := by unfold oldCl; rw [hget]
  omega

theorem pathsIn_of_psok {steps : List (Step VH)} (hps : PSOK ps steps) :
    PathsIn (Mat ps) steps := by
  intro s hs x hx hne
  have hsne : s.1 ≠ [] := by
    intro e; rw [e] at hx; exact hne (List.prefix_nil.mp hx)
  obtain ⟨pg, b, hget, _⟩ := hps.load s hs hsne (specPage x) (specPage_mono x s.1 hx)
  constructor
  · right; rw [hget]; rfl
  · right; rw [specPage_sibPath, hget]; rfl

theorem loadable_of_psok (root : Node) {steps : List (Step VH)} (hps : PSOK ps steps)
    (s : Step VH) (hs : s ∈ steps) (hne : s.1 ≠ []) (Q : PageId) (hQ : Q <+: specPage s.1) (st : Store Node)
    (hst : ∀ q, q ≠ [] → specPage q = Q → st q = flatStore H ps root q) (Z : Prop) (hz : ¬ Z) :
    Loadable H ps Z st Q := by
  obtain ⟨pg, o, hget, hl⟩ := hps.load s hs hne Q hQ
  refine ⟨pg, o, hget, Or.inl hz, hl, ?_, hps.origins Q⟩
  intro q hq _ hqp
  rw [hst q hq hqp]
  unfold flatStore
  rw [if_neg hq, hqp, hget]

/-! ## the invariant of the run -/

structure RunInv (D : Path → Prop) (pp : Option PageId) (root : Node) (S S' : List (Key × VH))
    (done todo : List (Step VH)) (w : Walker Node) (a : TW Node) : Prop where
  sim : Sim H ps w a
  norec : w.reconstruction = false
  par : w.parentPage = pp
  tw : (Idle (flatStore H ps root) (cfgOf H ps pp) a ∧ ∀ s ∈ done, s.2.isSome = false) ∨
       (InvB H D S S' (flatStore H ps root) (cfgOf H ps pp) done todo a ∧ done ≠ [])
  last : match done.getLast? with
         | none => w.lastPosition = none
         | some s => ∃ p, w.lastPosition = some p ∧ p.path = s.1

/-- the prologue of every call: the order assertion holds and `compact_up` simulates -/
theorem runInv_prologue (hs : H.Sound) {D : Path → Prop} {pp : Option PageId} {root : Node} {S S' : List (Key × VH)}
    {done todo : List (Step VH)} {s : Step VH}
    (hso : ScriptOK S S' (done ++ s :: todo)) {w : Walker Node} {a : TW Node}
    (h : RunInv H ps D pp root S S' done (s :: todo) w a)
    (Lfin : List (PageId × Store Node)) (hnd : (Lfin.map (·.1)).Nodup)
    (hpreC : (a.compactUp H (cfgOf H ps pp) (some s.1)).log <+: Lfin) :
    ∃ w1, w.advancePrologue H (posOfPath s.1) = .ok w1 ∧
      Sim H ps w1 (a.compactUp H (cfgOf H ps pp) (some s.1)) ∧ Same w w1 := by
  have hlen := hso.len s (by simp)
  obtain ⟨hpw, hpp⟩ := posOfPath_wf s.1 hlen
  unfold Walker.advancePrologue
  cases hlp : w.lastPosition with
  | none =>
    simp only
    -- nothing happened yet: the tree walker is idle
    have hdone : done = [] := by
      have hl := h.last
      cases hg : done.getLast? with
      | none => exact List.getLast?_eq_none_iff.mp hg
      | some s0 =>
        rw [hg] at hl
        obtain ⟨p, hp, _⟩ := hl
        rw [hlp] at hp; cases hp
    rcases h.tw with ⟨hidle, _⟩ | ⟨_, hne⟩
    · rw [tw_compactUp_idle H _ a _ hidle.pos]
      exact ⟨w, rfl, h.sim, Same.rfl' _⟩
    · exact absurd hdone hne
  | some lp =>
    simp only
    -- the previous terminal lies to the left
    have hlast : ∃ s0, done.getLast? = some s0 ∧ lp.path = s0.1 := by
      have hl := h.last
      cases hg : done.getLast? with
      | none => rw [hg] at hl; simp only at hl; rw [hlp] at hl; cases hl
      | some s0 =>
        rw [hg] at hl
        obtain ⟨p, hp, hpath⟩ := hl
        rw [hlp] at hp; injection hp with hp
        exact ⟨s0, rfl, by rw [hp]; exact hpath⟩
    obtain ⟨s0, hs0, hlpath⟩ := hlast
    have hs0mem : s0 ∈ done := List.mem_of_getLast? hs0
    have hleft : LeftOf s0.1 s.1 := by
      have := List.pairwise_append.mp hso.asc
      exact this.2.2 s0 hs0mem s (by simp)
    rw [if_neg (by rw [hlpath, hpp, leftOf_bitsLt hleft]; simp)]
    have hsc := sim_compactUp H ps h.sim (some (posOfPath s.1)) (by
      intro t ht hd
      injection ht with ht
      rw [← ht, hpp]
      rcases h.tw with ⟨hidle, _⟩ | ⟨hinv, _⟩
      · have h0 : a.pos.length ≤ 6 * k0 pp := hidle.pos
        rw [h.par] at hd
        omega
      · obtain ⟨p, w', r, hc, ht'⟩ := hinv.todoP s (List.mem_cons_self ..)
        rw [hc, ht', sharedBits_leftOf]
        simp) Lfin hnd ⟨fun hr => absurd hr (by rw [h.norec]; simp), by
          rw [h.par]; simp only [Option.map_some, hpp]; exact hpreC⟩
    obtain ⟨w1, hw1, hs1, hsame1⟩ := hsc
    rw [h.par] at hs1
    simp only [Option.map_some, hpp] at hs1
    exact ⟨w1, hw1, hs1, hsame1⟩

/-- one call of the script keeps the invariant and does not reach a panic site -/
theorem runInv_step (hs : H.Sound) {D : Path → Prop} {pp : Option PageId} {root : Node} {S S' : List (Key × VH)}
    (hS : KeysOK S) (hS' : KeysOK S')
    {done todo : List (Step VH)} {s : Step VH} (hso : ScriptOK S S' (done ++ s :: todo))
    (hps : PSOK ps (done ++ s :: todo)) (hrep : Rep0 H D S (flatStore H ps root))
    (hDp : PathsIn D (done ++ s :: todo)) (hD0 : D []) (hscp : InScope pp (done ++ s :: todo))
    {w : Walker Node} {a : TW Node}
    (h : RunInv H ps D pp root S S' done (s :: todo) w a)
    (Lfin : List (PageId × Store Node)) (hnd : (Lfin.map (·.1)).Nodup)
    (hpre : (a.step H (cfgOf H ps pp) s).log <+: Lfin) :
    ∃ w', w.stepM H ps s = .ok w' ∧
      RunInv H ps D pp root S S' (done ++ [s]) todo w' (a.step H (cfgOf H ps pp) s) := by
  have hlen := hso.len s (by simp)
  have hsmem : s ∈ done ++ s :: todo := by simp
  obtain ⟨hpw, hpp⟩ := posOfPath_wf s.1 hlen
  have hpreC : (a.compactUp H (cfgOf H ps pp) (some s.1)).log <+: Lfin := by
    refine List.IsPrefix.trans ?_ hpre
    unfold TW.step
    cases s.2 with
    | none => exact List.prefix_refl _
    | some ops =>
      simp only
      unfold TW.advanceAndReplace
      exact tw_replaceTerminal_log_prefix H _ ({ a.compactUp H (cfgOf H ps pp) (some s.1) with pos := s.1 } : TW Node) ops
  obtain ⟨w1, hw1, hs1, hsame1⟩ := runInv_prologue H ps hs hso h Lfin hnd hpreC
  have hpar1 : w1.parentPage = pp := hsame1.1.trans h.par
  have hnr1 : w1.reconstruction = false := hsame1.2.2.2.2.trans h.norec
  -- with a parent page the terminal is not the root position
  have hne_of_parent : ∀ P0, pp = some P0 → s.1 ≠ [] := fun P0 hp => inScope_ne hscp P0 hp s hsmem
  have hlast' : ∀ w' : Walker Node, w'.lastPosition = some (posOfPath s.1) →
      (match (done ++ [s]).getLast? with
       | none => w'.lastPosition = none
       | some s0 => ∃ p, w'.lastPosition = some p ∧ p.path = s0.1) := by
    intro w' hw'
    rw [getLast?_append_singleton]
    exact ⟨_, hw', hpp⟩
  unfold Walker.stepM
  cases hop : s.2 with
  | none =>
    -- `advance`
    simp only
    unfold Walker.advance
    rw [hw1]
    simp only
    have hassert : ∃ pid, (posOfPath s.1).pageId = some pid ∧ w1.assertPageInScope pid = .ok () := by
      by_cases hd : 1 ≤ (posOfPath s.1).depth
      · refine ⟨_, pageId_eq _ hpw hd, ?_⟩
        unfold Walker.assertPageInScope
        rw [hpar1, hpp]
        cases hp : pp with
        | none => rfl
        | some P0 =>
          obtain ⟨hpre, hneq⟩ := hscp P0 hp s hsmem
          simp only
          rw [if_neg (Ne.symm hneq), if_neg (by
            rw [Bool.not_eq_true, ← Bool.not_eq_true]
            intro hh
            exact hh ((isDescendantOf_iff _ _).mpr hpre))]
      · refine ⟨_, pageId_root _ (by omega), ?_⟩
        unfold Walker.assertPageInScope
        rw [hpar1]
        cases hp : pp with
        | none => rfl
        | some P0 =>
          exfalso
          have hne := hne_of_parent P0 hp
          have : (posOfPath s.1).depth = s.1.length := by rw [← (posOfPath s.1).path_length hpw, hpp]
          have : 1 ≤ s.1.length := List.length_pos_iff.mpr hne
          omega
    obtain ⟨pid, hpid, hass⟩ := hassert
    rw [hpid]
    simp only
    rw [hass]
    simp only
    refine ⟨_, rfl, ?_⟩
    have hstep : a.step H (cfgOf H ps pp) s = a.compactUp H (cfgOf H ps pp) (some s.1) := by
      unfold TW.step; rw [hop]; rfl
    refine ⟨?_, hnr1, hpar1, ?_, hlast' _ rfl⟩
    · rw [hstep]; exact sim_other_fields H ps hs1 w1.siblingStack w1.prevNode (some (posOfPath s.1))
    · rcases h.tw with ⟨hidle, hdone⟩ | ⟨hinv, _⟩
      · left
        rw [idle_step_advance H _ a hidle s hop]
        refine ⟨hidle, ?_⟩
        intro s' hs'
        rcases List.mem_append.mp hs' with h' | h'
        · exact hdone s' h'
        · rw [List.mem_singleton] at h'; rw [h', hop]; rfl
      · right
        exact ⟨invB_step H D hs hS hS' hso hDp hrep _ a hinv, by simp⟩
  | some ops =>
    -- `advance_and_replace`
    simp only
    unfold Walker.advanceAndReplace
    rw [hw1]
    simp only
    have hops := hso.repl s (by simp) ops hop
    -- what the state after the prologue provides
    have hfacts : (∀ top rest, w1.stack = top :: rest → top.pageId <+: specPage s.1) ∧
        (∀ Q, Q <+: specPage s.1 → (∀ top rest, w1.stack = top :: rest → top.pageId.length < Q.length) →
          (∀ P0, pp = some P0 → P0.length < Q.length) →
          ∀ q, q ≠ [] → specPage q = Q →
            (a.compactUp H (cfgOf H ps pp) (some s.1)).store q = flatStore H ps root q) ∧
        (a.compactUp H (cfgOf H ps pp) (some s.1)).store s.1 = flatStore H ps root s.1 ∧
        (s.1 = [] → w1.stack = []) := by
      rcases h.tw with ⟨hidle, _⟩ | ⟨hinv, _⟩
      · rw [tw_compactUp_idle H _ a _ hidle.pos] at hs1 ⊢
        have hst : w1.stack = [] := hs1.stackE.mpr (by
          rw [hpar1]; exact hidle.pos)
        refine ⟨?_, ?_, by rw [hidle.store], fun _ => hst⟩
        · intro top rest e; rw [hst] at e; cases e
        · intro Q _ _ _ q _ _; rw [hidle.store]
      · obtain ⟨hinv1, hcomp⟩ := invB_compact H D hs hS' hso hrep (cfgOf H ps pp) a hinv
        obtain ⟨p, w', r, hc, ht⟩ := hinv1.todoP s (List.mem_cons_self ..)
        have hsb : sharedBits (a.compactUp H (cfgOf H ps pp) (some s.1)).pos s.1 = p.length := by
          rw [hc, ht]; exact sharedBits_leftOf p w' r
        have htopdef : (cfgOf H ps pp).top = 6 * k0 pp := rfl
        have hl : (p ++ false :: w').length = p.length + 1 + w'.length := by simp; omega
        rw [hsb, hc, htopdef, hl] at hcomp
        have hleft : LeftOf (a.compactUp H (cfgOf H ps pp) (some s.1)).pos s.1 := ⟨p, w', r, hc, ht⟩
        refine ⟨?_, ?_, hinv1.right _ hleft, ?_⟩
        · intro top rest e
          -- the stack is not empty: the position is exactly `p ++ [false]`
          have hgt : 6 * k0 pp < (p ++ false :: w').length := by
            rcases Nat.lt_or_ge (6 * k0 pp) (p ++ false :: w').length with hlt | hge
            · exact hlt
            · have := hs1.stackE.mpr (by rw [hpar1, hc]; exact hge)
              rw [this] at e; cases e
          have hw'nil : w' = [] := List.eq_nil_of_length_eq_zero (by omega)
          subst hw'nil
          rw [hs1.stackT top rest e, hc, ht]
          have : specPage (p ++ [false]) = specPage (p ++ [true]) := by
            have := specPage_sibPath (p ++ [true])
            rw [sibPath_snoc] at this
            simpa using this
          rw [this]
          exact specPage_mono _ _ ⟨r, by simp⟩
        · intro Q hQ hQl hQp q hq hqp
          apply hinv1.right
          rw [hc]
          rw [ht] at hQ
          apply page_right_of' p w' r q Q hQ ?_ hq hqp
          -- the id of `Q` is long enough
          rcases Nat.lt_or_ge (6 * k0 pp) (p ++ false :: w').length with hlt | hge
          · obtain ⟨top, rest, hst, htop⟩ := sim_stack_cons H ps hs1 (by rw [hpar1, hc]; exact hlt)
            have hw'nil : w' = [] := List.eq_nil_of_length_eq_zero (by omega)
            subst hw'nil
            have hl' := hQl top rest hst
            rw [htop, hc] at hl'
            have hsl : (specPage (p ++ [false])).length = p.length / 6 := by
              rw [specPage_length]; simp
            omega
          · cases hp : pp with
            | none =>
              rw [hp] at hge
              simp [k0] at hge
            | some P0 =>
              have := hQp P0 hp
              rw [hp] at hge
              simp only [k0] at hge
              omega
        · intro e
          rw [e] at ht
          have := congrArg List.length ht
          simp at this
    obtain ⟨hF1, hF2, hF3, hF4⟩ := hfacts
    obtain ⟨a1, ha1⟩ : ∃ a1, a1 = a.compactUp H (cfgOf H ps pp) (some s.1) := ⟨_, rfl⟩
    rw [← ha1] at hs1 hF2 hF3
    -- `build_stack`
    have hs1' := sim_other_fields H ps hs1 w1.siblingStack w1.prevNode (some (posOfPath s.1))
    have hbuild : ∃ w2, ({ w1 with lastPosition := some (posOfPath s.1) } : Walker Node).buildStack H ps (posOfPath s.1)
          = .ok w2 ∧
        Sim H ps w2 ({ a1 with pos := s.1 } : TW Node) ∧
        w2.parentPage = pp ∧ w2.lastPosition = some (posOfPath s.1) ∧ w2.reconstruction = false := by
      by_cases hne : s.1 = []
      · have hppn : pp = none := by
          cases hp : pp with
          | none => rfl
          | some P0 => exact absurd hne (hne_of_parent P0 hp)
        obtain ⟨w2, hw2, hs2, hsame2, _⟩ := sim_buildStack_root H ps hs1' (posOfPath s.1) hpw (by rw [hpp]; exact hne)
          (hF4 hne) (by rw [← hppn]; exact hpar1)
        refine ⟨w2, hw2, ?_, hsame2.1.trans hpar1, hsame2.2.1, hsame2.2.2.2.2.trans hnr1⟩
        rw [hne]; exact hs2
      · obtain ⟨w2, hw2, hs2, hsame2, _⟩ := sim_buildStack H ps hs1' (posOfPath s.1) hpw (by rw [hpp]; exact hne)
          (by
            intro P0 hp
            rw [show ({ w1 with lastPosition := some (posOfPath s.1) } : Walker Node).parentPage
                = w1.parentPage from rfl, hpar1] at hp
            rw [hpp]
            exact hscp P0 hp s hsmem)
          (by intro top rest e; rw [hpp]; exact hF1 top rest e)
          (by
            intro Q hQ hQl hQp
            rw [hpp] at hQ
            exact loadable_of_psok H ps root hps s (by simp) hne Q hQ _
              (hF2 Q hQ hQl (by intro P0 hp; exact hQp P0 (by
                rw [show ({ w1 with lastPosition := some (posOfPath s.1) } : Walker Node).parentPage
                  = w1.parentPage from rfl, hpar1]; exact hp))) _
              (by
                show ¬ w1.reconstruction = true
                rw [hnr1]; simp))
        rw [hpp] at hs2
        exact ⟨w2, hw2, hs2, hsame2.1.trans hpar1, hsame2.2.1, hsame2.2.2.2.2.trans hnr1⟩
    obtain ⟨w2, hw2, hs2, hpar2, hlast2, hnr2⟩ := hbuild
    rw [hw2]
    simp only
    have hstep : a.step H (cfgOf H ps pp) s =
        ({ a1 with pos := s.1 } : TW Node).replaceTerminal H (cfgOf H ps pp) (sub S' s.1) := by
      unfold TW.step; rw [hop]; simp only
      unfold TW.advanceAndReplace; rw [hops, ha1]
    -- `replace_terminal`
    have hMat : D s.1 := by
      by_cases hne : s.1 = []
      · rw [hne]; exact hD0
      · exact (hDp s (by simp) s.1 (List.prefix_refl _) hne).1
    have hrt := sim_replaceTerminal H ps hs hps.fresh hS' hs2
      (by
        show (s.1 = [] ∧ w2.parentPage = none) ∨ 6 * k0 w2.parentPage < s.1.length
        by_cases hne : s.1 = []
        · left
          refine ⟨hne, ?_⟩
          rw [hpar2]
          cases hp : pp with
          | none => rfl
          | some P0 => exact absurd hne (hne_of_parent P0 hp)
        · right; rw [hpar2]; exact inScope_depth hscp s hsmem hne)
      (by
        intro _
        show H.kind (a1.store s.1) ≠ .internal
        rw [hF3]
        exact terminal_not_internal H hs hS hrep s.1 hlen hMat (hso.term s (by simp)))
      (by
        intro q hq h6 _
        show fullSum ps (sextetsOf q) = 0
        exact fullSum_zero_of_absent ps hps.origins _
          (hps.clean s hsmem (by rw [hop]; rfl) q hq h6))
      Lfin hnd ⟨fun hr => absurd hr (by
        have : w2.reconstruction = false := hnr2
        rw [this]; simp), by
          show (({ a1 with pos := s.1 } : TW Node).replaceTerminal H (cfgOf H ps w2.parentPage) (sub S' s.1)).log <+: Lfin
          rw [hpar2, ← hstep]; exact hpre⟩
    rw [hops]
    obtain ⟨w3, hw3, hs3, hsame3, _⟩ := hrt
    have hw3' : w2.replaceTerminal H ps (sub S' s.1) = .ok w3 := hw3
    rw [hw3']
    refine ⟨w3, rfl, ?_⟩
    refine ⟨?_, hsame3.2.2.2.2.trans hnr2, hsame3.1.trans hpar2, ?_, hlast' _ (hsame3.2.1.trans hlast2)⟩
    · rw [hstep]
      rw [hpar2] at hs3
      exact hs3
    · right
      rcases h.tw with ⟨hidle, hdone⟩ | ⟨hinv, _⟩
      · exact ⟨(idle_step_replace H D hs hS hS' hso hDp hrep _ a hidle hdone ops hop).2, by simp⟩
      · exact ⟨invB_step H D hs hS hS' hso hDp hrep _ a hinv, by simp⟩

end Nomt.Walker.G
