import NomtModel.Store.TraceOrder
/-!
# The I/O choreography of one state-changing operation, as a small concurrent program (C04 / C03)

The order monitor `checkOrder` (`Store/TraceOrder.lean`) judges the Begin / End traces that were SAMPLED.  This file
writes down the synchronisation structure of the code that PRODUCES those traces, as a program whose runs are exactly
the interleavings the code's joins / channel receives / barriers leave open — for any number and content of page writes:

```
Session::commit / Overlay::commit / Nomt::rollback                                  (caller thread  tMain)
  rollback.commit(delta)          seglog append: [create] header payload pad fsync [dirsync]     — chain `appendLines`
  store.commit → Sync::sync
    bitbox.begin_sync             task on the bitbox pool: prepare_sync, then spawns write_wal    — chain `walLines` (tWal)
    beatree.begin_sync            task on the beatree pool: ops::update issues page writes of ln / bbn from its
                                  workers, grows the files, RECEIVES EVERY COMPLETION (`io_handle.recv` × total_io),
                                  then `bbn_fsync.fsync(); ln_fsync.fsync()`                       — group `bt`, chains fsLn / fsBbn
    rollback.begin_sync           no I/O
    bitbox.wait_pre_meta          join begin_sync task, join write_wal task
    beatree.wait_pre_meta         join begin_sync task, `Fsyncer::wait` × 2
    Meta::write                   write + fsync                                                    — chain `metaLines` (tMain)
    rollback.post_meta            task on the rollback pool: prune_oldest, prune_recent           — chain `pruneLines` (tPrune)
    bitbox.post_meta              write_ht: send every table page, RECEIVE EVERY COMPLETION, fsync ht,
                                  truncate_wal(no fsync)                                           — group `ht`, chain `tailLines` (tMain)
    beatree.post_meta             no I/O
    rollback.wait_post_meta       join
```

A run is a sequence of steps; each step emits one trace line.  A chain emits its lines in order; an operation of a group
emits its Begin line (state 0 → 1) and later its End line (1 → 2).  The guards are the happens-before edges the code
enforces and nothing else: where the code leaves two things unordered (the WAL task against the beatree task, the two
fsyncer threads, the page writes among themselves and against file growth, the prune task against the table writes) the
program leaves them unordered.  `Variant` switches single edges / actions off, for the negative examples.
-/
namespace Nomt.Store.SyncGen
open Nomt.Store

deriving instance DecidableEq for IoEv
deriving instance DecidableEq for IoEv2

/-! ## Lines -/

def ev (kind file : String) (offset len : Nat) (site : String) : IoEv :=
  { kind := kind, file := file, offset := offset, len := len, site := site }

/-- a synchronous call on thread `th`: its Begin line, then its End line -/
def call (th : String) (e : IoEv) : List IoEv2 := [⟨true, e, th⟩, ⟨false, e, th⟩]

/-! ## Parameters of one operation -/

/-- the rollback delta appended at commit time (`SegmentedLog::append`) -/
structure SegAppend where
  name : String            -- `rollback:<file name>` of the head segment
  create : Bool            -- no head segment, or the head is full: a new segment file is created (roll-over)
  off : Nat                -- size of the head segment before the append
  hdrLen : Nat
  payLen : Nat
  padTo : Nat
deriving Repr, DecidableEq

/-- one operation of the beatree update on `ln` / `bbn`: a page write through the I/O pool, or growth of the file -/
structure BtOp where
  bbn : Bool
  grow : Bool
  offset : Nat
  len : Nat
deriving Repr, DecidableEq

def BtOp.file (o : BtOp) : String := if o.bbn then "bbn" else "ln"
def BtOp.evB (o : BtOp) : IoEv :=
  if o.grow then ev "SetLen" o.file o.offset o.len "allocator.grow" else ev "Write" o.file o.offset o.len "io.send"
def BtOp.evE (o : BtOp) : IoEv :=
  if o.grow then ev "SetLen" o.file o.offset o.len "allocator.grow" else ev "Write" o.file o.offset o.len "io.complete"

/-- one hash-table page write of `write_ht` -/
structure HtOp where
  offset : Nat
  len : Nat
deriving Repr, DecidableEq

def HtOp.evB (o : HtOp) : IoEv := ev "Write" "ht" o.offset o.len "io.send"
def HtOp.evE (o : HtOp) : IoEv := ev "Write" "ht" o.offset o.len "io.complete"

/-- `Rollback::writeout_end`: the segments unlinked by `prune_oldest` / `prune_recent` / `remove_all_segments` (path, hook
site), and — when `prune_recent` keeps a head segment — the directory fsync and the truncation + fsync of that head -/
structure Prune where
  unlinks : List (String × String) := []
  tail : Option (String × Nat) := none
deriving Repr, DecidableEq

structure Params where
  seg : Option SegAppend := none
  walLen : Nat := 0
  bt : List BtOp := []
  metaLen : Nat := 4096
  ht : List HtOp := []
  prune : Prune := {}
  tMain : String := "t1"
  tWal : String := "t2"
  tLn : String := "t3"
  tBbn : String := "t4"
  tPrune : String := "t5"
deriving Repr

/-- single edges / actions of the code, switched off one at a time for the negative examples; `{}` is the code -/
structure Variant where
  /-- `SegmentedLog::append` fsyncs the directory after creating a segment file -/
  rolloverDirsync : Bool := true
  /-- `ops::update` receives every completion before `Fsyncer::fsync` is requested -/
  waitWrites : Bool := true
  /-- `beatree::SyncController::wait_pre_meta` waits for both fsyncers before `Meta::write` -/
  waitBeatree : Bool := true
  /-- `write_ht` receives every completion before the table fsync -/
  waitHtWrites : Bool := true
  /-- `write_ht` fsyncs the table before `truncate_wal` -/
  htFsync : Bool := true
deriving Repr, DecidableEq

def real : Variant := {}

/-! ## The chains -/

def appendLines (V : Variant) (P : Params) : List IoEv2 :=
  match P.seg with
  | none => []
  | some a =>
    (if a.create then call P.tMain (ev "Create" a.name 0 0 "seglog.create_segment") else []) ++
    call P.tMain (ev "Append" a.name a.off a.hdrLen "seglog.write_header") ++
    call P.tMain (ev "Append" a.name (a.off + a.hdrLen) a.payLen "seglog.write_payload") ++
    call P.tMain (ev "SetLen" a.name a.padTo 0 "seglog.pad") ++
    call P.tMain (ev "Fsync" a.name 0 0 "seglog.fsync") ++
    (if a.create && V.rolloverDirsync then call P.tMain (ev "DirSync" "dir" 0 0 "seglog.append.dirsync") else [])

def walLines (P : Params) : List IoEv2 :=
  call P.tWal (ev "SetLen" "wal" 0 0 "wal.write.set_len") ++
  call P.tWal (ev "Append" "wal" 0 P.walLen "wal.write") ++
  call P.tWal (ev "Fsync" "wal" 0 0 "wal.write.fsync")

def fsLnLines (P : Params) : List IoEv2 := call P.tLn (ev "Fsync" "ln" 0 0 "fsyncer")
def fsBbnLines (P : Params) : List IoEv2 := call P.tBbn (ev "Fsync" "bbn" 0 0 "fsyncer")

def metaLines (P : Params) : List IoEv2 :=
  call P.tMain (ev "Write" "meta" 0 P.metaLen "meta.write") ++ call P.tMain (ev "Fsync" "meta" 0 0 "meta.fsync")

def tailLines (V : Variant) (P : Params) : List IoEv2 :=
  (if V.htFsync then call P.tMain (ev "Fsync" "ht" 0 0 "ht.fsync") else []) ++
  call P.tMain (ev "SetLen" "wal" 0 0 "wal.truncate")

def unlinkLines (th : String) : List (String × String) → List IoEv2
  | [] => []
  | (n, site) :: rest => call th (ev "Unlink" n 0 0 site) ++ unlinkLines th rest

def pruneTailLines (th : String) : Option (String × Nat) → List IoEv2
  | none => []
  | some (h, len) =>
    call th (ev "DirSync" "dir" 0 0 "seglog.prune_recent.dirsync") ++
    call th (ev "SetLen" h len 0 "seglog.truncate_head") ++
    call th (ev "Fsync" h 0 0 "seglog.truncate_head.fsync")

def pruneLines (P : Params) : List IoEv2 :=
  unlinkLines P.tPrune P.prune.unlinks ++ pruneTailLines P.tPrune P.prune.tail

/-! ## The state of a run and its steps -/

/-- program counters of the chains (lines emitted) and states of the group operations (0 not issued · 1 in flight ·
2 completed) -/
structure PSt where
  w : Nat := 0
  bt : List Nat := []
  fl : Nat := 0
  fb : Nat := 0
  m : Nat := 0
  ht : List Nat := []
  tl : Nat := 0
  pr : Nat := 0
deriving Repr, DecidableEq

def init (P : Params) : PSt := { bt := P.bt.map (fun _ => 0), ht := P.ht.map (fun _ => 0) }

def allDone (l : List Nat) : Bool := l.all (· == 2)

/-- the edges into `Meta::write`: both `wait_pre_meta` -/
def metaGuard (V : Variant) (P : Params) (s : PSt) : Bool :=
  s.w == (walLines P).length && allDone s.bt && (!V.waitBeatree || (s.fl == 2 && s.fb == 2))

/-- one step of the sync (everything after the seglog append): the line it emits and the next state -/
inductive Step (V : Variant) (P : Params) : PSt → IoEv2 → PSt → Prop
  /-- the WAL task: spawned by bitbox's begin_sync task, no predecessor inside the sync -/
  | wal (s : PSt) (l : IoEv2) (h : (walLines P)[s.w]? = some l) : Step V P s l { s with w := s.w + 1 }
  /-- a worker of the beatree update issues a page write / grows a file -/
  | btBegin (s : PSt) (i : Nat) (o : BtOp) (th : String) (ho : P.bt[i]? = some o) (hs : s.bt[i]? = some 0) :
      Step V P s ⟨true, o.evB, th⟩ { s with bt := s.bt.set i 1 }
  /-- its completion (an I/O worker thread for writes) -/
  | btEnd (s : PSt) (i : Nat) (o : BtOp) (th : String) (ho : P.bt[i]? = some o) (hs : s.bt[i]? = some 1) :
      Step V P s ⟨false, o.evE, th⟩ { s with bt := s.bt.set i 2 }
  /-- the `ln` fsyncer thread: requested after `update` has received every completion -/
  | fsLn (s : PSt) (l : IoEv2) (h : (fsLnLines P)[s.fl]? = some l) (hg : V.waitWrites = true → allDone s.bt = true) :
      Step V P s l { s with fl := s.fl + 1 }
  | fsBbn (s : PSt) (l : IoEv2) (h : (fsBbnLines P)[s.fb]? = some l) (hg : V.waitWrites = true → allDone s.bt = true) :
      Step V P s l { s with fb := s.fb + 1 }
  /-- `Meta::write` on the sync thread, after both `wait_pre_meta` -/
  | metaW (s : PSt) (l : IoEv2) (h : (metaLines P)[s.m]? = some l) (hg : metaGuard V P s = true) :
      Step V P s l { s with m := s.m + 1 }
  /-- `write_ht` sends a table page (sync thread) -/
  | htBegin (s : PSt) (i : Nat) (o : HtOp) (ho : P.ht[i]? = some o) (hs : s.ht[i]? = some 0)
      (hm : s.m = (metaLines P).length) : Step V P s ⟨true, o.evB, P.tMain⟩ { s with ht := s.ht.set i 1 }
  | htEnd (s : PSt) (i : Nat) (o : HtOp) (th : String) (ho : P.ht[i]? = some o) (hs : s.ht[i]? = some 1) :
      Step V P s ⟨false, o.evE, th⟩ { s with ht := s.ht.set i 2 }
  /-- table fsync and WAL truncation, after every completion was received -/
  | tail (s : PSt) (l : IoEv2) (h : (tailLines V P)[s.tl]? = some l) (hm : s.m = (metaLines P).length)
      (hg : V.waitHtWrites = true → allDone s.ht = true) : Step V P s l { s with tl := s.tl + 1 }
  /-- the rollback post-meta task -/
  | prune (s : PSt) (l : IoEv2) (h : (pruneLines P)[s.pr]? = some l) (hm : s.m = (metaLines P).length) :
      Step V P s l { s with pr := s.pr + 1 }

inductive Steps (V : Variant) (P : Params) : PSt → List IoEv2 → PSt → Prop
  | nil (s : PSt) : Steps V P s [] s
  | cons (s s1 s2 : PSt) (l : IoEv2) (tr : List IoEv2) (h : Step V P s l s1) (r : Steps V P s1 tr s2) :
      Steps V P s (l :: tr) s2

/-- every task has finished (both `wait_post_meta` returned) -/
def Final (V : Variant) (P : Params) (s : PSt) : Prop :=
  s.w = (walLines P).length ∧ allDone s.bt = true ∧ s.fl = 2 ∧ s.fb = 2 ∧ s.m = (metaLines P).length ∧
  allDone s.ht = true ∧ s.tl = (tailLines V P).length ∧ s.pr = (pruneLines P).length

/-- **the generated language**: the traces of the complete executions of one operation -/
def OpLang (V : Variant) (P : Params) (tr : List IoEv2) : Prop :=
  ∃ tr' s, tr = appendLines V P ++ tr' ∧ Steps V P (init P) tr' s ∧ Final V P s

theorem Steps.append {V : Variant} {P : Params} {s s1 s2 : PSt} {a b : List IoEv2}
    (h1 : Steps V P s a s1) (h2 : Steps V P s1 b s2) : Steps V P s (a ++ b) s2 := by
  induction h1 with
  | nil s => exact h2
  | cons s s1' s2' l tr h r ih => exact .cons s s1' s2 l (tr ++ b) h (ih h2)

/-! ## Executable membership

`stepFn` finds a step that emits the given line (the first operation of a group that fits); `memberOf` runs it over the
trace.  Soundness (`memberOf_sound`): an accepted trace IS a word of `OpLang`. -/

def findIdx2 {α : Type} (p : α → Nat → Bool) : List α → List Nat → Nat → Option Nat
  | a :: as, x :: xs, i => if p a x then some i else findIdx2 p as xs (i + 1)
  | _, _, _ => none

theorem findIdx2_spec {α : Type} (p : α → Nat → Bool) : ∀ (as : List α) (xs : List Nat) (i j : Nat),
    findIdx2 p as xs i = some j → ∃ a x, i ≤ j ∧ as[j - i]? = some a ∧ xs[j - i]? = some x ∧ p a x = true := by
  intro as
  induction as with
  | nil => intro xs i j h; simp [findIdx2] at h
  | cons a as ih =>
    intro xs i j h
    cases xs with
    | nil => simp [findIdx2] at h
    | cons x xs =>
      simp only [findIdx2] at h
      split at h
      · rename_i hp
        injection h with h; subst h
        exact ⟨a, x, Nat.le_refl _, by simp, by simp, hp⟩
      · obtain ⟨a', x', hle, ha, hx, hp⟩ := ih xs (i + 1) j h
        have : j - i = (j - (i + 1)) + 1 := by omega
        refine ⟨a', x', by omega, ?_, ?_, hp⟩
        · rw [this]; simpa using ha
        · rw [this]; simpa using hx

/-- the steps tried in this order; a line fits at most one chain (sites differ), group operations are matched by event -/
def stepFn (V : Variant) (P : Params) (s : PSt) (l : IoEv2) : Option PSt :=
  if (walLines P)[s.w]? = some l then some { s with w := s.w + 1 }
  else if (fsLnLines P)[s.fl]? = some l ∧ (V.waitWrites = true → allDone s.bt = true) then some { s with fl := s.fl + 1 }
  else if (fsBbnLines P)[s.fb]? = some l ∧ (V.waitWrites = true → allDone s.bt = true) then some { s with fb := s.fb + 1 }
  else if (metaLines P)[s.m]? = some l ∧ metaGuard V P s = true then some { s with m := s.m + 1 }
  else if (tailLines V P)[s.tl]? = some l ∧ s.m = (metaLines P).length ∧ (V.waitHtWrites = true → allDone s.ht = true) then
    some { s with tl := s.tl + 1 }
  else if (pruneLines P)[s.pr]? = some l ∧ s.m = (metaLines P).length then some { s with pr := s.pr + 1 }
  else if l.isBegin then
    match findIdx2 (fun (o : BtOp) x => x == 0 && decide (o.evB = l.ev)) P.bt s.bt 0 with
    | some i => some { s with bt := s.bt.set i 1 }
    | none =>
      if s.m = (metaLines P).length ∧ l.thread = P.tMain then
        match findIdx2 (fun (o : HtOp) x => x == 0 && decide (o.evB = l.ev)) P.ht s.ht 0 with
        | some i => some { s with ht := s.ht.set i 1 }
        | none => none
      else none
  else
    match findIdx2 (fun (o : BtOp) x => x == 1 && decide (o.evE = l.ev)) P.bt s.bt 0 with
    | some i => some { s with bt := s.bt.set i 2 }
    | none =>
      match findIdx2 (fun (o : HtOp) x => x == 1 && decide (o.evE = l.ev)) P.ht s.ht 0 with
      | some i => some { s with ht := s.ht.set i 2 }
      | none => none

theorem stepFn_sound (V : Variant) (P : Params) (s s' : PSt) (l : IoEv2) (h : stepFn V P s l = some s') :
    Step V P s l s' := by
  unfold stepFn at h
  split at h
  · rename_i hw; injection h with h; subst h; exact .wal s l hw
  split at h
  · rename_i hw; injection h with h; subst h; exact .fsLn s l hw.1 hw.2
  split at h
  · rename_i hw; injection h with h; subst h; exact .fsBbn s l hw.1 hw.2
  split at h
  · rename_i hw; injection h with h; subst h; exact .metaW s l hw.1 hw.2
  split at h
  · rename_i hw; injection h with h; subst h; exact .tail s l hw.1 hw.2.1 hw.2.2
  split at h
  · rename_i hw; injection h with h; subst h; exact .prune s l hw.1 hw.2
  split at h
  · rename_i hb
    split at h
    · rename_i i hi
      injection h with h; subst h
      obtain ⟨o, x, _, ho, hx, hp⟩ := findIdx2_spec _ _ _ _ _ hi
      simp only [Nat.sub_zero, Bool.and_eq_true, beq_iff_eq, decide_eq_true_eq] at ho hx hp
      obtain ⟨rfl, hev⟩ := hp
      have : l = ⟨true, o.evB, l.thread⟩ := by cases l; simp_all
      rw [this]
      exact .btBegin s i o l.thread ho hx
    · split at h
      · rename_i hm
        split at h
        · rename_i i hi
          injection h with h; subst h
          obtain ⟨o, x, _, ho, hx, hp⟩ := findIdx2_spec _ _ _ _ _ hi
          simp only [Nat.sub_zero, Bool.and_eq_true, beq_iff_eq, decide_eq_true_eq] at ho hx hp
          obtain ⟨rfl, hev⟩ := hp
          have : l = ⟨true, o.evB, P.tMain⟩ := by cases l; simp_all
          rw [this]
          exact .htBegin s i o ho hx hm.1
        · cases h
      · cases h
  · rename_i hb
    split at h
    · rename_i i hi
      injection h with h; subst h
      obtain ⟨o, x, _, ho, hx, hp⟩ := findIdx2_spec _ _ _ _ _ hi
      simp only [Nat.sub_zero, Bool.and_eq_true, beq_iff_eq, decide_eq_true_eq] at ho hx hp
      obtain ⟨rfl, hev⟩ := hp
      have : l = ⟨false, o.evE, l.thread⟩ := by cases l; simp_all
      rw [this]
      exact .btEnd s i o l.thread ho hx
    · split at h
      · rename_i i hi
        injection h with h; subst h
        obtain ⟨o, x, _, ho, hx, hp⟩ := findIdx2_spec _ _ _ _ _ hi
        simp only [Nat.sub_zero, Bool.and_eq_true, beq_iff_eq, decide_eq_true_eq] at ho hx hp
        obtain ⟨rfl, hev⟩ := hp
        have : l = ⟨false, o.evE, l.thread⟩ := by cases l; simp_all
        rw [this]
        exact .htEnd s i o l.thread ho hx
      · cases h

/-- run `stepFn` along a trace; `Except.error k` = the line at position `k` (0-based) is no step of the program -/
def runFn (V : Variant) (P : Params) : PSt → Nat → List IoEv2 → Except Nat PSt
  | s, _, [] => .ok s
  | s, k, l :: rest =>
    match stepFn V P s l with
    | none => .error k
    | some s' => runFn V P s' (k + 1) rest

theorem runFn_sound (V : Variant) (P : Params) : ∀ (tr : List IoEv2) (s s' : PSt) (k : Nat),
    runFn V P s k tr = .ok s' → Steps V P s tr s' := by
  intro tr
  induction tr with
  | nil => intro s s' k h; simp only [runFn] at h; injection h with h; subst h; exact .nil s
  | cons l rest ih =>
    intro s s' k h
    simp only [runFn] at h
    cases hs : stepFn V P s l with
    | none => rw [hs] at h; cases h
    | some s1 =>
      rw [hs] at h
      exact .cons s s1 s' l rest (stepFn_sound V P s s1 l hs) (ih s1 s' (k + 1) h)

def finalB (V : Variant) (P : Params) (s : PSt) : Bool :=
  s.w == (walLines P).length && allDone s.bt && s.fl == 2 && s.fb == 2 && s.m == (metaLines P).length &&
  allDone s.ht && s.tl == (tailLines V P).length && s.pr == (pruneLines P).length

theorem finalB_sound (V : Variant) (P : Params) (s : PSt) (h : finalB V P s = true) : Final V P s := by
  simp only [finalB, Bool.and_eq_true, beq_iff_eq] at h
  obtain ⟨⟨⟨⟨⟨⟨⟨h1, h2⟩, h3⟩, h4⟩, h5⟩, h6⟩, h7⟩, h8⟩ := h
  exact ⟨h1, h2, h3, h4, h5, h6, h7, h8⟩

/-- verdict of the membership check: `ok` — a complete run; `cut k` — all lines are steps but tasks are unfinished (a
trace cut by a crash, or an operation that failed); `bad k` — line `k` is no step of the program in its state -/
inductive Verdict | ok | cut | bad (k : Nat)
deriving Repr, DecidableEq

def member (V : Variant) (P : Params) (tr : List IoEv2) : Verdict :=
  let a := appendLines V P
  if tr.take a.length = a then
    match runFn V P (init P) a.length (tr.drop a.length) with
    | .error k => .bad k
    | .ok s => if finalB V P s then .ok else .cut
  else
    match (List.range tr.length).find? (fun i => tr[i]? != a[i]?) with
    | some i => if i < tr.length then .bad i else .cut
    | none => .cut

def memberOf (V : Variant) (P : Params) (tr : List IoEv2) : Bool := member V P tr == .ok

/-- **soundness of the executable membership check**: a trace `memberOf` accepts is a word of the generated language -/
theorem memberOf_sound (V : Variant) (P : Params) (tr : List IoEv2) (h : memberOf V P tr = true) : OpLang V P tr := by
  unfold memberOf member at h
  simp only at h
  split at h
  · rename_i hpre
    split at h
    · simp at h
    · rename_i s hr
      split at h
      · rename_i hf
        refine ⟨tr.drop (appendLines V P).length, s, ?_, runFn_sound V P _ _ _ _ hr, finalB_sound V P s hf⟩
        conv => lhs; rw [← List.take_append_drop (appendLines V P).length tr]
        rw [hpre]
      · simp at h
  · split at h
    · split at h <;> simp at h
    · simp at h

/-! ## The parameters of a recorded trace -/

def firstBegin (tr : List IoEv2) (p : IoEv → Bool) : Option IoEv2 := tr.find? (fun l => l.isBegin && p l.ev)

def isPruneSite (s : String) : Bool :=
  s == "seglog.prune_oldest" || s == "seglog.prune_recent" || s == "seglog.remove_all"

/-- read the parameters off a trace: the page lists, lengths, names and threads the trace itself shows -/
def paramsOf (tr : List IoEv2) : Params :=
  let thOf (site : String) (dflt : String) : String :=
    match firstBegin tr (fun e => e.site == site) with | some l => l.thread | none => dflt
  let tMain := thOf "meta.write" "t1"
  let seg : Option SegAppend :=
    match firstBegin tr (fun e => e.site == "seglog.write_header") with
    | none => none
    | some h =>
      let pay := match firstBegin tr (fun e => e.site == "seglog.write_payload") with | some l => l.ev.len | none => 0
      let pad := match firstBegin tr (fun e => e.site == "seglog.pad") with | some l => l.ev.offset | none => 0
      some { name := h.ev.file, create := (firstBegin tr (fun e => e.site == "seglog.create_segment")).isSome,
             off := h.ev.offset, hdrLen := h.ev.len, payLen := pay, padTo := pad }
  let bt : List BtOp := tr.filterMap (fun l =>
    if l.isBegin && (l.ev.file == "ln" || l.ev.file == "bbn") && (l.ev.kind == "Write" || l.ev.kind == "SetLen") then
      some { bbn := l.ev.file == "bbn", grow := l.ev.kind == "SetLen", offset := l.ev.offset, len := l.ev.len }
    else none)
  let ht : List HtOp := tr.filterMap (fun l =>
    if l.isBegin && l.ev.file == "ht" && l.ev.kind == "Write" then some { offset := l.ev.offset, len := l.ev.len } else none)
  let unlinks := tr.filterMap (fun l =>
    if l.isBegin && l.ev.kind == "Unlink" && isPruneSite l.ev.site then some (l.ev.file, l.ev.site) else none)
  let tail := match firstBegin tr (fun e => e.site == "seglog.truncate_head") with
    | some l => some (l.ev.file, l.ev.offset) | none => none
  let tPrune := match firstBegin tr (fun e => isPruneSite e.site || e.site == "seglog.prune_recent.dirsync") with
    | some l => l.thread | none => tMain
  { seg := seg,
    walLen := (match firstBegin tr (fun e => e.site == "wal.write") with | some l => l.ev.len | none => 0),
    bt := bt,
    metaLen := (match firstBegin tr (fun e => e.site == "meta.write") with | some l => l.ev.len | none => 4096),
    ht := ht, prune := { unlinks := unlinks, tail := tail },
    tMain := tMain, tWal := thOf "wal.write" "t2",
    tLn := (match firstBegin tr (fun e => e.kind == "Fsync" && e.file == "ln") with | some l => l.thread | none => "t3"),
    tBbn := (match firstBegin tr (fun e => e.kind == "Fsync" && e.file == "bbn") with | some l => l.thread | none => "t4"),
    tPrune := tPrune }

end Nomt.Store.SyncGen
