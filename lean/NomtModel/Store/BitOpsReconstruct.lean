import NomtModel.Store.BitOpsLoop
import NomtModel.Store.BitOpsKeys
/-!
# `reconstruct_key`: mirror = prefix bits ++ separator bits, zero padded
-/
namespace Nomt.BitOps

theorem bitOf_append (l m : List Nat) (p : Nat) :
    bitOf (l ++ m) p = if p < 8 * l.length then bitOf l p else bitOf m (p - 8 * l.length) := by
  unfold bitOf
  rw [List.getD_eq_getElem?_getD, List.getD_eq_getElem?_getD, List.getD_eq_getElem?_getD]
  by_cases h : p / 8 < l.length
  · rw [List.getElem?_append_left h, if_pos (show p < 8 * l.length by omega)]
  · rw [List.getElem?_append_right (by omega), if_neg (show ¬ p < 8 * l.length by omega)]
    have e1 : (p - 8 * l.length) / 8 = p / 8 - l.length := by omega
    have e2 : (p - 8 * l.length) % 8 = p % 8 := by omega
    rw [e1, e2]

/-- the prefix bytes / bit length of `maybe_prefix` (`None` = no bits) -/
def prefBytes : Option (List Nat × Nat) → List Nat
  | some p => p.1
  | none => []
def prefBits : Option (List Nat × Nat) → Nat
  | some p => p.2
  | none => 0

/-- the contract of `reconstruct_key`: the key has room for prefix and separator, the prefix slice holds the
prefix bits, and the separator triple satisfies the contract of `bitwise_memcpy` -/
def ReconstructGuard (prefix? : Option (List Nat × Nat)) (sepBytes : List Nat) (sepStart sepLen : Nat) : Prop :=
  prefBits prefix? + sepLen ≤ 256 ∧ (prefBits prefix? + 7) / 8 ≤ (prefBytes prefix?).length ∧
  (sepLen = 0 ∨ (sepStart ≤ 7 ∧ sepBytes.length / 8 = (sepStart + sepLen + 63) / 64))

instance (prefix? : Option (List Nat × Nat)) (sepBytes : List Nat) (sepStart sepLen : Nat) :
    Decidable (ReconstructGuard prefix? sepBytes sepStart sepLen) := by
  unfold ReconstructGuard; exact inferInstance

theorem reconstructKey_none (sepBytes : List Nat) (sepStart sepLen : Nat) :
    reconstructKey none sepBytes sepStart sepLen = reconstructKey (some ([], 0)) sepBytes sepStart sepLen := rfl

theorem reconstructKey_some (pbytes : List Nat) (pbl : Nat) (sepBytes : List Nat) (sepStart sepLen : Nat)
    (hp : Bytes pbytes) (hs : Bytes sepBytes) (g1 : pbl + sepLen ≤ 256) (g2 : (pbl + 7) / 8 ≤ pbytes.length)
    (g3 : sepLen = 0 ∨ (sepStart ≤ 7 ∧ sepBytes.length / 8 = (sepStart + sepLen + 63) / 64)) :
    reconstructKey (some (pbytes, pbl)) sepBytes sepStart sepLen =
      some (reconstructSpec pbytes pbl sepBytes sepStart sepLen) := by
  unfold reconstructKey
  simp only []
  -- where the separator goes: byte `pbl / 8`, bit `pbl % 8`
  have hsd : (if (pbl + 7) / 8 = 0 then 0 else if pbl % 8 = 0 then (pbl + 7) / 8 else (pbl + 7) / 8 - 1) = pbl / 8 := by
    split
    · omega
    · split <;> omega
  rw [hsd, if_neg (by omega)]
  have hz : Bytes ((List.replicate 32 0).drop (pbl / 8)) := bytes_drop (bytes_replicate_zero 32) _
  have hzl : ((List.replicate 32 0).drop (pbl / 8)).length = 32 - pbl / 8 := by simp
  have hg : MemcpyGuard ((List.replicate 32 0).drop (pbl / 8)).length (pbl % 8) sepBytes.length sepStart sepLen := by
    rw [hzl]
    rcases g3 with g3 | ⟨g3, g4⟩
    · left; exact g3
    · right; exact ⟨g3, by omega, g4, by omega⟩
  rw [bitwiseMemcpy_spec hz hs hg, Option.bind_some]
  -- the key after the copy
  have hk1B : Bytes ((List.replicate 32 0).take (pbl / 8) ++
      memcpySpec ((List.replicate 32 0).drop (pbl / 8)) (pbl % 8) sepBytes sepStart sepLen) :=
    bytes_append (bytes_take (bytes_replicate_zero 32) _) (bytes_memcpySpec _ _ _ _ _)
  have hk1L : ((List.replicate 32 0).take (pbl / 8) ++
      memcpySpec ((List.replicate 32 0).drop (pbl / 8)) (pbl % 8) sepBytes sepStart sepLen).length = 32 := by
    rw [List.length_append, length_memcpySpec, hzl]; simp; omega
  have hk1 : ∀ p, p < 256 → bitOf ((List.replicate 32 0).take (pbl / 8) ++
      memcpySpec ((List.replicate 32 0).drop (pbl / 8)) (pbl % 8) sepBytes sepStart sepLen) p =
      (decide (pbl ≤ p ∧ p < pbl + sepLen) && bitOf sepBytes (sepStart + (p - pbl))) := by
    intro p hp256
    rw [bitOf_append]
    have hl : ((List.replicate 32 0).take (pbl / 8)).length = pbl / 8 := by simp; omega
    rw [hl]
    by_cases h1 : p < 8 * (pbl / 8)
    · rw [if_pos h1, List.take_replicate, bitOf_replicate_zero]
      have : ¬ (pbl ≤ p ∧ p < pbl + sepLen) := by omega
      simp [this]
    · rw [if_neg h1]
      unfold memcpySpec
      rw [bitOf_bytesOfBits _ _ _ (by rw [hzl]; omega)]
      unfold memcpyBit
      rw [List.drop_replicate, bitOf_replicate_zero]
      by_cases h2 : pbl ≤ p ∧ p < pbl + sepLen
      · rw [if_pos (by omega)]
        have e : sepStart + (p - 8 * (pbl / 8) - pbl % 8) = sepStart + (p - pbl) := by omega
        simp [h2, e]
      · rw [if_neg (by omega)]
        simp [h2]
  by_cases hpz : (pbl + 7) / 8 ≠ 0
  · rw [if_pos hpz]
    rw [if_neg (by omega)]
    have hk2L : (writeAt ((List.replicate 32 0).take (pbl / 8) ++
        memcpySpec ((List.replicate 32 0).drop (pbl / 8)) (pbl % 8) sepBytes sepStart sepLen) 0
          (pbytes.take ((pbl + 7) / 8 - 1))).length = 32 := by
      rw [length_writeAt, hk1L]
      rw [hk1L]; simp; omega
    have hk2B := bytes_writeAt hk1B (bytes_take hp ((pbl + 7) / 8 - 1)) 0
    have hi1 : (pbl + 7) / 8 - 1 < pbytes.length := by omega
    have hi2 : (pbl + 7) / 8 - 1 < (writeAt ((List.replicate 32 0).take (pbl / 8) ++
        memcpySpec ((List.replicate 32 0).drop (pbl / 8)) (pbl % 8) sepBytes sepStart sepLen) 0
          (pbytes.take ((pbl + 7) / 8 - 1))).length := by rw [hk2L]; omega
    rw [getElem?_of_lt _ _ hi1, getElem?_of_lt _ _ hi2]
    simp only []
    congr 1
    have hv : (writeAt ((List.replicate 32 0).take (pbl / 8) ++
        memcpySpec ((List.replicate 32 0).drop (pbl / 8)) (pbl % 8) sepBytes sepStart sepLen) 0
          (pbytes.take ((pbl + 7) / 8 - 1))).getD ((pbl + 7) / 8 - 1) 0 |||
        (pbytes.getD ((pbl + 7) / 8 - 1) 0 &&&
          (if 8 - pbl % 8 < 8 then 255 ^^^ (2 ^ (8 - pbl % 8) - 1) else 255)) < 256 :=
      or_lt_256 (getD_lt_of_bytes hk2B _) (and_lt_left _ (getD_lt_of_bytes hp _))
    apply bytes_ext_bits (bytes_setIdx hk2B _ hv) (bytes_bytesOfBits _ _)
      (by rw [length_setIdx, hk2L, length_bytesOfBits])
    intro p hp256
    rw [length_setIdx, hk2L] at hp256
    have hlt : (pbytes.take ((pbl + 7) / 8 - 1)).length = (pbl + 7) / 8 - 1 := by simp; omega
    have h255 : (255 : Nat) = 2 ^ 8 - 1 := by decide
    rw [bitOf_bytesOfBits _ _ _ (by omega), bitOf_setIdx, hk2L]
    unfold reconstructBit
    by_cases hb : (pbl + 7) / 8 - 1 = p / 8 ∧ (pbl + 7) / 8 - 1 < 32
    · have e : 8 * ((pbl + 7) / 8 - 1) + (7 - (7 - p % 8)) = p := by omega
      have e7 : 7 - p % 8 < 8 := by omega
      rw [if_pos hb, Nat.testBit_or, Nat.testBit_and, testBit_getD _ hk2B, testBit_getD _ hp, e,
        bitOf_writeAt _ _ _ _ (Nat.zero_le _), hlt, hk1 _ (by omega)]
      simp only [e7, decide_true, Bool.true_and]
      by_cases hm : 8 - pbl % 8 < 8
      · simp only [if_pos hm, h255, Nat.testBit_xor, Nat.testBit_two_pow_sub_one]
        grind
      · simp only [if_neg hm, h255, Nat.testBit_two_pow_sub_one]
        grind
    · rw [if_neg hb, bitOf_writeAt _ _ _ _ (Nat.zero_le _), hlt, bitOf_take, hk1 _ (by omega)]
      grind
  · rw [if_neg hpz]
    congr 1
    apply bytes_ext_bits hk1B (bytes_bytesOfBits _ _) (by rw [hk1L, length_bytesOfBits])
    intro p hp256
    rw [hk1L] at hp256
    rw [hk1 p (by omega), bitOf_bytesOfBits _ _ _ (by omega)]
    unfold reconstructBit
    grind

/-- **`reconstruct_key` = prefix bits ++ separator bits, zero padded**, under its contract -/
theorem reconstructKey_spec (prefix? : Option (List Nat × Nat)) (sepBytes : List Nat) (sepStart sepLen : Nat)
    (hp : Bytes (prefBytes prefix?)) (hs : Bytes sepBytes) (g : ReconstructGuard prefix? sepBytes sepStart sepLen) :
    reconstructKey prefix? sepBytes sepStart sepLen =
      some (reconstructSpec (prefBytes prefix?) (prefBits prefix?) sepBytes sepStart sepLen) := by
  obtain ⟨g1, g2, g3⟩ := g
  cases prefix? with
  | none =>
    rw [reconstructKey_none]
    exact reconstructKey_some [] 0 sepBytes sepStart sepLen (by intro b hb; simp at hb) hs g1 (by simp) g3
  | some pr =>
    obtain ⟨pbytes, pbl⟩ := pr
    exact reconstructKey_some pbytes pbl sepBytes sepStart sepLen hp hs g1 g2 g3

end Nomt.BitOps
