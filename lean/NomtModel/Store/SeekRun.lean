import NomtModel.Store.SeekMeasure
/-!
# Every operation of the simulation surface keeps `SysInv` and reaches no panic site
(helper lemmas for `Props/C05_Seek.lean`)
-/
namespace Nomt.Seek
open Nomt Nomt.Ovl Nomt.TriePos

variable {Node VH V : Type} [DecidableEq Node] [DecidableEq VH]

theorem sysinv_set {W : World Node VH V} {s : Sys Node VH V} (hs : SysInv W s) {ps' : PageSet Node}
    (hps : PSInv W ps') (he : Ext s.ps ps') {cache' : List (PageId × MPage Node)} (hm : MemOK W cache') (i : Nat)
    {r' : Req Node VH V} {aw' : Option Query} (hr : ReqOK W ps' r' aw') :
    SysInv W { ps := ps', cache := cache', reqs := s.reqs.set i (r', aw') } := by
  refine ⟨hps, hm, ?_⟩
  intro x hx
  rcases List.mem_or_eq_of_mem_set hx with h | h
  · exact reqOK_mono he (hs.reqs x h)
  · rw [h]; exact hr

/-- `Seeker::push` -/
theorem push_ok (W : World Node VH V) (hOK : W.OK) (s : Sys Node VH V) (hs : SysInv W s) (key : Key)
    (hk : key.length = KEY_BITS) : ∃ s', push W.env s key = .ok s' ∧ SysInv W s' ∧
      ∃ r, s'.reqs = s.reqs ++ [(r, none)] ∧ r.key = key := by
  obtain ⟨r, e1, e2, _, e4⟩ := reqNew_ok W hOK s.ps key hk
  unfold push
  rw [e1]
  refine ⟨_, rfl, ⟨hs.ps, hs.mem, ?_⟩, r, rfl, e2⟩
  intro x hx
  simp only at hx
  rcases List.mem_append.1 hx with h | h
  · exact hs.reqs x h
  · have : x = (r, none) := by simpa using h
    rw [this]; exact e4

/-- what a request that waits for a page looks like -/
theorem awaiting_page {W : World Node VH V} {ps : PageSet Node} {r : Req Node VH V} {C : PageId}
    (h : ReqOK W ps r (some (.page C))) :
    r.st = .seeking ∧ r.pos.depth % 6 = 0 ∧ 2 ≤ (under (r.key.take r.pos.depth) W.view).length ∧
      C = sextetsOf (r.key.take r.pos.depth) ∧ W.G C ∧ W.env.ovPages.lookup C = none ∧ W.U C = W.env.disk.lookup C := by
  obtain ⟨_, _, hst⟩ := h
  unfold StOK at hst
  cases hs : r.st with
  | seeking =>
    rw [hs] at hst
    obtain ⟨h1, h2, _, h4⟩ := hst
    rcases h4 with h4 | ⟨h4, h5, h6, h7⟩
    · cases h4
    · have : C = sextetsOf (r.key.take r.pos.depth) := by
        have := Option.some.inj h4
        exact Query.page.inj this
      rw [← this] at h5 h6 h7
      exact ⟨rfl, h1, h2, this, h5, h6, h7⟩
  | fetchingLeaf dels it needed =>
    rw [hs] at hst
    obtain ⟨_, _, _, _, hr⟩ := hst
    exact absurd hr.need (by simp)
  | fetchingLeaves page range it needed coll =>
    rw [hs] at hst
    obtain ⟨_, _, _, _, _, _, _, hr⟩ := hst
    exact absurd hr.need (by simp)
  | completed t =>
    rw [hs] at hst
    exact absurd hst.1 (by simp)

/-- the page the hash table holds for a live page id is good -/
theorem live_page_good {W : World Node VH V} (hOK : W.OK) (ps : PageSet Node) (k : Key) (d : Nat) (hk : k.length = KEY_BITS)
    (hd : d ≤ KEY_BITS) (h6 : d % 6 = 0) (h2 : 2 ≤ (under (k.take d) W.view).length) (hg : W.G (sextetsOf (k.take d))) :
    ∃ pg, W.U (sextetsOf (k.take d)) = some pg ∧ PGood W ps (sextetsOf (k.take d)) pg := by
  have hl : (k.take d).length = d := by rw [List.length_take, hk]; omega
  obtain ⟨pg, e1, e2⟩ := hOK.rep.2 _ hg (by rw [pidBits_sextetsOf _ (by rw [hl]; exact h6)]; exact h2)
  exact ⟨pg, e1, pgood_mono (ext_empty ps) e2⟩

/-- one iteration of the query loop -/
theorem step_ok (W : World Node VH V) (hOK : W.OK) (s : Sys Node VH V) (hs : SysInv W s) (i : Nat) :
    (∃ s' out, step W.env s i = .ok (s', out) ∧ SysInv W s' ∧
        (∀ r, s.reqs[i]? = some (r, none) → r.isCompleted = false → out ≠ .noQuery ∧ out ≠ .busy) ∧
        (out ≠ .noQuery → out ≠ .busy → sysMeasure W.env.leaves.length s' < sysMeasure W.env.leaves.length s)) ∨
      (step W.env s i = .err () ∧ s.reqs[i]? = none) := by
  unfold step
  cases hi : s.reqs[i]? with
  | none => exact .inr ⟨rfl, rfl⟩
  | some x =>
    obtain ⟨r, aw⟩ := x
    cases aw with
    | some q => exact .inl ⟨s, .busy, rfl, hs, fun r' h => (by cases h), fun _ h => absurd rfl h⟩
    | none =>
      left
      have hprog : ∀ (out : StepOut), out ≠ .noQuery ∧ out ≠ .busy →
          ∀ r', some (r, (none : Option Query)) = some (r', none) → r'.isCompleted = false → out ≠ .noQuery ∧ out ≠ .busy :=
        fun _ h _ _ _ => h
      have hr : ReqOK W s.ps r none := hs.reqs _ (List.mem_of_getElem? hi)
      obtain ⟨ht, hpid, hst⟩ := hr
      unfold StOK at hst
      simp only
      cases hrs : r.st with
      | completed t =>
        have : nextQuery r = .ok (r, none) := by unfold nextQuery; rw [hrs]
        rw [this]
        refine ⟨s, .noQuery, rfl, hs, ?_, fun h _ => absurd rfl h⟩
        intro r' h hc
        cases h
        unfold Req.isCompleted at hc
        rw [hrs] at hc
        cases hc
      | seeking =>
        rw [hrs] at hst
        obtain ⟨h6, h2, hav, _⟩ := hst
        rw [nextQuery_seeking W hOK r ht hpid hrs h6 h2]
        simp only
        have hd : r.pos.depth ≤ KEY_BITS := ht.wf.depthLe
        cases hget : s.ps.get (sextetsOf (r.key.take r.pos.depth)) with
        | some x =>
          obtain ⟨pg, o⟩ := x
          simp only
          obtain ⟨ps', r', e1, e2, e3, e4, e5, e6, e7⟩ :=
            continueSeek_ok W hOK s.ps hs.ps r ht hrs h6 h2 pg (hs.ps _ pg o hget)
          rw [e1]
          exact ⟨_, _, rfl, sysinv_set hs e4 e5 hs.mem i e6, hprog _ (by simp),
            fun _ _ => sysMeasure_set _ hi (measure_deeper hrs e6 e7) _ _⟩
        | none =>
          simp only
          have hg : W.G (sextetsOf (r.key.take r.pos.depth)) := by
            rcases hav with ⟨x, hx⟩ | hg
            · rw [hget] at hx; cases hx
            · exact hg
          obtain ⟨pgU, hU, hgoodU⟩ := live_page_good hOK s.ps r.key r.pos.depth ht.klen hd h6 h2 hg
          obtain ⟨m1, m2, m3⟩ := mem_lookup hs.mem (sextetsOf (r.key.take r.pos.depth))
          cases hov : W.env.ovPages.lookup (sextetsOf (r.key.take r.pos.depth)) with
          | some pg =>
            simp only
            have : pg = pgU := by have := m1 pg hov; rw [hU] at this; exact (Option.some.inj this).symm
            subst this
            have hps1 := psinv_insert hs.ps hgoodU Origin.persisted
            have he1 := ext_insert s.ps (sextetsOf (r.key.take r.pos.depth)) pg Origin.persisted
            obtain ⟨ps', r', e1, e2, e3, e4, e5, e6, e7⟩ :=
              continueSeek_ok W hOK _ hps1 r ht hrs h6 h2 pg (pgood_mono he1 hgoodU)
            rw [e1]
            exact ⟨_, _, rfl, sysinv_set hs e4 (ext_trans he1 e5) hs.mem i e6, hprog _ (by simp),
              fun _ _ => sysMeasure_set _ hi (measure_deeper hrs e6 e7) _ _⟩
          | none =>
            simp only
            cases hca : s.cache.lookup (sextetsOf (r.key.take r.pos.depth)) with
            | some pg =>
              simp only
              have : pg = pgU := by have := m2 hov pg hca; rw [hU] at this; exact (Option.some.inj this).symm
              subst this
              have hps1 := psinv_insert hs.ps hgoodU Origin.persisted
              have he1 := ext_insert s.ps (sextetsOf (r.key.take r.pos.depth)) pg Origin.persisted
              obtain ⟨ps', r', e1, e2, e3, e4, e5, e6, e7⟩ :=
                continueSeek_ok W hOK _ hps1 r ht hrs h6 h2 pg (pgood_mono he1 hgoodU)
              rw [e1]
              exact ⟨_, _, rfl, sysinv_set hs e4 (ext_trans he1 e5) hs.mem i e6, hprog _ (by simp),
              fun _ _ => sysMeasure_set _ hi (measure_deeper hrs e6 e7) _ _⟩
            | none =>
              simp only
              refine ⟨_, _, rfl, ?_, hprog _ (by simp), fun _ _ => ?_⟩
              rotate_left
              · unfold setReq
                apply sysMeasure_set _ hi
                rw [reqMeasure_seeking _ (by exact hrs), reqMeasure_seeking _ hrs]
                simp [waitRank]
              unfold setReq
              refine sysinv_set hs hs.ps (ext_refl _) hs.mem i ⟨trail_congr ht rfl rfl rfl, hpid, ?_⟩
              unfold StOK
              rw [hrs]
              exact ⟨h6, h2, hav, .inr ⟨rfl, hg, hov, m3 hov hca⟩⟩
      | fetchingLeaf dels it needed =>
        rw [hrs] at hst
        obtain ⟨k0, v0, hu, hf, hrest⟩ := hst
        obtain ⟨inv, sh, hb, hn⟩ := hrest
        simp only at hn
        obtain ⟨l, rest, hp, hbs⟩ := sh.blk hb
        rw [tw_cons hp hbs, needList_succ] at hn
        subst hn
        have : nextQuery r = .ok ({ r with st := (RState.fetchingLeaf dels it
            (needList (W.env.leaves.length - it.leaf.pending.length + 1)
              (rest.takeWhile (fun l => beforeStop it.leaf.stop l.sep)).length)) },
            some (.leaf (W.env.leaves.length - it.leaf.pending.length))) := by
          unfold nextQuery; rw [hrs]
        rw [this]
        simp only
        refine ⟨_, _, rfl, ?_, hprog _ (by simp), fun _ _ => ?_⟩
        rotate_left
        · unfold setReq
          apply sysMeasure_set _ hi
          rw [reqMeasure_fetch _ (n := it.leaf.pending.length) (by rfl), reqMeasure_fetch _ (n := it.leaf.pending.length) (by rw [hrs]; rfl)]
          simp [waitRank]
        unfold setReq
        refine sysinv_set hs hs.ps (ext_refl _) hs.mem i ⟨trail_congr ht rfl rfl rfl, hpid, ?_⟩
        unfold StOK
        simp only
        refine ⟨k0, v0, hu, hf, inv, sh, hb, ?_⟩
        simp only
        refine ⟨trivial, ?_⟩
        rw [tw_cons hp hbs]
        simp
      | fetchingLeaves page range it needed coll =>
        rw [hrs] at hst
        obtain ⟨f1, f2, f3, f4, f5, f6, f7, hrest⟩ := hst
        obtain ⟨inv, sh, hb, hn⟩ := hrest
        simp only at hn
        obtain ⟨l, rest, hp, hbs⟩ := sh.blk hb
        rw [tw_cons hp hbs, needList_succ] at hn
        subst hn
        have : nextQuery r = .ok ({ r with st := (RState.fetchingLeaves page range it
            (needList (W.env.leaves.length - it.leaf.pending.length + 1)
              (rest.takeWhile (fun l => beforeStop it.leaf.stop l.sep)).length) coll) },
            some (.leaf (W.env.leaves.length - it.leaf.pending.length))) := by
          unfold nextQuery; rw [hrs]
        rw [this]
        simp only
        refine ⟨_, _, rfl, ?_, hprog _ (by simp), fun _ _ => ?_⟩
        rotate_left
        · unfold setReq
          apply sysMeasure_set _ hi
          rw [reqMeasure_fetch _ (n := it.leaf.pending.length) (by rfl), reqMeasure_fetch _ (n := it.leaf.pending.length) (by rw [hrs]; rfl)]
          simp [waitRank]
        unfold setReq
        refine sysinv_set hs hs.ps (ext_refl _) hs.mem i ⟨trail_congr ht rfl rfl rfl, hpid, ?_⟩
        unfold StOK
        simp only
        refine ⟨f1, f2, f3, f4, f5, f6, f7, inv, sh, hb, ?_⟩
        simp only
        refine ⟨trivial, ?_⟩
        rw [tw_cons hp hbs]
        simp

theorem getElem?_set_self {α : Type} {l : List α} {i : Nat} {a b : α} (h : l[i]? = some a) : (l.set i b)[i]? = some b := by
  rw [List.getElem?_set]
  have : i < l.length := by
    obtain ⟨hlt, _⟩ := List.getElem?_eq_some_iff.1 h
    exact hlt
  simp [this]

/-- the page a request waits for arrives -/
theorem supplyPage_ok (W : World Node VH V) (hOK : W.OK) (s : Sys Node VH V) (hs : SysInv W s) (i : Nat) :
    (∃ s', supplyPage W.env s i = .ok s' ∧ SysInv W s' ∧
        sysMeasure W.env.leaves.length s' < sysMeasure W.env.leaves.length s) ∨
      (supplyPage W.env s i = .err () ∧ ∀ r p, s.reqs[i]? ≠ some (r, some (.page p))) := by
  unfold supplyPage
  cases hi : s.reqs[i]? with
  | none => exact .inr ⟨rfl, fun _ _ h => by cases h⟩
  | some x =>
    obtain ⟨r, aw⟩ := x
    cases aw with
    | none => exact .inr ⟨rfl, fun _ _ h => by cases h⟩
    | some q =>
      cases q with
      | leaf l => exact .inr ⟨rfl, fun _ _ h => by cases h⟩
      | page pid =>
        left
        simp only
        have hr : ReqOK W s.ps r (some (.page pid)) := hs.reqs _ (List.mem_of_getElem? hi)
        obtain ⟨hst, h6, h2, hC, hg, hov, hUd⟩ := awaiting_page hr
        subst hC
        obtain ⟨ht, hpid, hstok⟩ := hr
        have hd : r.pos.depth ≤ KEY_BITS := ht.wf.depthLe
        obtain ⟨pgU, hU, hgoodU⟩ := live_page_good hOK s.ps r.key r.pos.depth ht.klen hd h6 h2 hg
        rw [← hUd, hU]
        simp only
        -- the request no longer waits
        have hr0 : ReqOK W s.ps r none := by
          refine ⟨ht, hpid, ?_⟩
          unfold StOK at hstok ⊢
          rw [hst] at hstok ⊢
          exact ⟨hstok.1, hstok.2.1, hstok.2.2.1, .inl rfl⟩
        have hs1 : SysInv W (setReq s i (r, none)) := sysinv_set hs hs.ps (ext_refl _) hs.mem i hr0
        unfold forcePage
        have hget : (setReq s i (r, none)).reqs[i]? = some (r, none) := getElem?_set_self hi
        rw [hget]
        simp only
        have hnc : r.isCompleted = false := by unfold Req.isCompleted; rw [hst]
        obtain ⟨_, m2, _⟩ := mem_lookup hs.mem (sextetsOf (r.key.take r.pos.depth))
        have hps1 := psinv_insert hs.ps hgoodU Origin.persisted
        have he1 := ext_insert s.ps (sextetsOf (r.key.take r.pos.depth)) pgU Origin.persisted
        obtain ⟨ps', r', e1, e2, e3, e4, e5, e6, e7⟩ :=
          continueSeek_ok W hOK _ hps1 r ht hst h6 h2 pgU (pgood_mono he1 hgoodU)
        cases hca : (setReq s i (r, none)).cache.lookup (sextetsOf (r.key.take r.pos.depth)) with
        | some pg =>
          have : pg = pgU := by have := m2 hov pg hca; rw [hU] at this; exact (Option.some.inj this).symm
          subst this
          simp only [hnc, Bool.false_eq_true, if_false]
          have e1' : continueSeek W.env ((setReq s i (r, none)).ps.insert (sextetsOf (r.key.take r.pos.depth)) pg .persisted) r
              (sextetsOf (r.key.take r.pos.depth)) pg = .ok (ps', r') := e1
          rw [e1']
          refine ⟨_, rfl, sysinv_set hs1 e4 (ext_trans he1 e5) hs.mem i e6, ?_⟩
          simp only [setReq, List.set_set]
          exact sysMeasure_set _ hi (measure_deeper hst e6 e7) _ _
        | none =>
          simp only [hnc, Bool.false_eq_true, if_false]
          have e1' : continueSeek W.env ((setReq s i (r, none)).ps.insert (sextetsOf (r.key.take r.pos.depth)) pgU .persisted) r
              (sextetsOf (r.key.take r.pos.depth)) pgU = .ok (ps', r') := e1
          rw [e1']
          refine ⟨_, rfl, sysinv_set hs1 e4 (ext_trans he1 e5) (memOK_insert hs.mem hov hca hU) i e6, ?_⟩
          simp only [setReq, List.set_set]
          exact sysMeasure_set _ hi (measure_deeper hst e6 e7) _ _

/-- what a request that waits for a leaf looks like -/
theorem awaiting_leaf {W : World Node VH V} {ps : PageSet Node} {r : Req Node VH V} {l : Nat}
    (h : ReqOK W ps r (some (.leaf l))) :
    (∃ dels it needed, r.st = .fetchingLeaf dels it needed) ∨
    (∃ page range it needed coll, r.st = .fetchingLeaves page range it needed coll) := by
  obtain ⟨_, _, hst⟩ := h
  unfold StOK at hst
  cases hs : r.st with
  | seeking =>
    rw [hs] at hst
    obtain ⟨_, _, _, h4⟩ := hst
    rcases h4 with h4 | ⟨h4, _⟩
    · cases h4
    · cases h4
  | fetchingLeaf dels it needed => exact .inl ⟨dels, it, needed, rfl⟩
  | fetchingLeaves page range it needed coll => exact .inr ⟨page, range, it, needed, coll, rfl⟩
  | completed t =>
    rw [hs] at hst
    exact absurd hst.1 (by simp)

/-- the leaf a request waits for arrives -/
theorem supplyLeaf_ok (W : World Node VH V) (hOK : W.OK) (s : Sys Node VH V) (hs : SysInv W s) (i : Nat) :
    (∃ s', supplyLeaf W.env s i = .ok s' ∧ SysInv W s' ∧
        sysMeasure W.env.leaves.length s' < sysMeasure W.env.leaves.length s) ∨
      (supplyLeaf W.env s i = .err () ∧ ∀ r l, s.reqs[i]? ≠ some (r, some (.leaf l))) := by
  unfold supplyLeaf
  cases hi : s.reqs[i]? with
  | none => exact .inr ⟨rfl, fun _ _ h => by cases h⟩
  | some x =>
    obtain ⟨r, aw⟩ := x
    cases aw with
    | none => exact .inr ⟨rfl, fun _ _ h => by cases h⟩
    | some q =>
      cases q with
      | page pid => exact .inr ⟨rfl, fun _ _ h => by cases h⟩
      | leaf l =>
        left
        simp only
        have hr : ReqOK W s.ps r (some (.leaf l)) := hs.reqs _ (List.mem_of_getElem? hi)
        have hget : (setReq s i (r, none)).reqs[i]? = some (r, none) := getElem?_set_self hi
        unfold forceLeaf
        rw [hget]
        rcases awaiting_leaf hr with ⟨dels, it, needed, hst⟩ | ⟨page, range, it, needed, coll, hst⟩
        · obtain ⟨leaf, hleaf, r', e1, e2, e3, e4, e5, e6, e7, e8⟩ := leafFetch_supply_ok W s.ps r hr.1 hst hr.2.2
          rw [hleaf]
          have hnc : r.isCompleted = false := by unfold Req.isCompleted; rw [hst]
          simp only [hnc, Bool.false_eq_true, if_false, hst, e1]
          refine ⟨_, rfl, ?_⟩
          have hreq' : ReqOK W s.ps r' none := by
            refine ⟨trail_congr hr.1 e2 e3 e5, ?_, e7⟩
            unfold PidOK
            rw [e4, e3, e2]
            exact hr.2.1
          have := sysinv_set hs hs.ps (ext_refl _) hs.mem i hreq'
          simp only [setReq, List.set_set]
          refine ⟨this, sysMeasure_set _ hi ?_ _ _⟩
          simp only
          rcases e8 with h | ⟨n, h1, h2⟩
          · rw [reqMeasure_completed _ h, reqMeasure_fetch _ (n := it.leaf.pending.length) (by rw [hst]; rfl)]
            omega
          · rw [reqMeasure_fetch _ h1, reqMeasure_fetch _ h2, e3]
            simp [waitRank]; omega
        · obtain ⟨leaf, hleaf, ps', r', e1, e2, e3, e4, e5, e6, e7, e8, e9, e10⟩ :=
            leavesFetch_supply_ok W hOK s.ps hs.ps r hr.1 hr.2.1 hst hr.2.2
          rw [hleaf]
          have hnc : r.isCompleted = false := by unfold Req.isCompleted; rw [hst]
          have e1' : continueLeavesFetch W.env (setReq s i (r, none)).ps r (some leaf) = .ok (ps', r') := e1
          simp only [hnc, Bool.false_eq_true, if_false, hst, e1']
          refine ⟨_, rfl, ?_⟩
          have hreq' : ReqOK W ps' r' none := by
            refine ⟨trail_congr hr.1 e2 e3 e5, ?_, e9⟩
            unfold PidOK
            rw [e4, e3, e2]
            exact hr.2.1
          have := sysinv_set hs e7 e8 hs.mem i hreq'
          simp only [setReq, List.set_set]
          refine ⟨this, sysMeasure_set _ hi ?_ _ _⟩
          simp only
          rcases e10 with h | ⟨n, h1, h2⟩
          · rw [reqMeasure_seeking _ h, reqMeasure_fetch _ (n := it.leaf.pending.length) (by rw [hst]; rfl), e3]
            simp [waitRank]; omega
          · rw [reqMeasure_fetch _ h1, reqMeasure_fetch _ h2, e3]
            simp [waitRank]; omega

/-! ### runs: any sequence of operations, in any order, for any number of interleaved keys -/

/-- what the environment (the `Seeker`'s multiplexing, the I/O pool, the harness) may do next -/
inductive Action where
  | push (key : Key)
  | step (i : Nat)
  | supplyPage (i : Nat)
  | supplyLeaf (i : Nat)

/-- one operation; an operation that does not apply (no such request, nothing awaited) changes nothing -/
def exec (env : Env Node VH V) (s : Sys Node VH V) : Action → Outcome Unit (Sys Node VH V)
  | .push key => push env s key
  | .step i =>
    match step env s i with
    | .ok (s', _) => .ok s'
    | .err _ => .ok s
    | .panic m => .panic m
  | .supplyPage i =>
    match supplyPage env s i with
    | .ok s' => .ok s'
    | .err _ => .ok s
    | .panic m => .panic m
  | .supplyLeaf i =>
    match supplyLeaf env s i with
    | .ok s' => .ok s'
    | .err _ => .ok s
    | .panic m => .panic m

def run (env : Env Node VH V) : Sys Node VH V → List Action → Outcome Unit (Sys Node VH V)
  | s, [] => .ok s
  | s, a :: as =>
    match exec env s a with
    | .ok s' => run env s' as
    | .err e => .err e
    | .panic m => .panic m

/-- the keys handed to `push` are key paths -/
def ActsOK : List Action → Prop
  | [] => True
  | .push key :: as => key.length = KEY_BITS ∧ ActsOK as
  | _ :: as => ActsOK as

theorem exec_ok (W : World Node VH V) (hOK : W.OK) (s : Sys Node VH V) (hs : SysInv W s) (a : Action)
    (ha : ∀ key, a = .push key → key.length = KEY_BITS) : ∃ s', exec W.env s a = .ok s' ∧ SysInv W s' := by
  cases a with
  | push key =>
    obtain ⟨s', e1, e2, _⟩ := push_ok W hOK s hs key (ha key rfl)
    exact ⟨s', e1, e2⟩
  | step i =>
    rcases step_ok W hOK s hs i with ⟨s', out, e1, e2, _, _⟩ | ⟨e1, _⟩
    · exact ⟨s', by simp only [exec, e1], e2⟩
    · exact ⟨s, by simp only [exec, e1], hs⟩
  | supplyPage i =>
    rcases supplyPage_ok W hOK s hs i with ⟨s', e1, e2, _⟩ | ⟨e1, _⟩
    · exact ⟨s', by simp only [exec, e1], e2⟩
    · exact ⟨s, by simp only [exec, e1], hs⟩
  | supplyLeaf i =>
    rcases supplyLeaf_ok W hOK s hs i with ⟨s', e1, e2, _⟩ | ⟨e1, _⟩
    · exact ⟨s', by simp only [exec, e1], e2⟩
    · exact ⟨s, by simp only [exec, e1], hs⟩

theorem run_ok (W : World Node VH V) (hOK : W.OK) : ∀ (acts : List Action) (s : Sys Node VH V), SysInv W s → ActsOK acts →
    ∃ s', run W.env s acts = .ok s' ∧ SysInv W s' := by
  intro acts
  induction acts with
  | nil => intro s hs _; exact ⟨s, rfl, hs⟩
  | cons a as ih =>
    intro s hs ha
    have ha1 : ∀ key, a = .push key → key.length = KEY_BITS := by
      intro key e; subst e; exact ha.1
    have ha2 : ActsOK as := by
      cases a with
      | push key => exact ha.2
      | step i => exact ha
      | supplyPage i => exact ha
      | supplyLeaf i => exact ha
    obtain ⟨s1, e1, h1⟩ := exec_ok W hOK s hs a ha1
    obtain ⟨s2, e2, h2⟩ := ih s1 h1 ha2
    exact ⟨s2, by unfold run; rw [e1]; exact e2, h2⟩

/-- what the invariant says about a completed request -/
theorem completed_result {W : World Node VH V} {ps : PageSet Node} {r : Req Node VH V} {aw : Option Query}
    (h : ReqOK W ps r aw) {res : SeekRes Node VH} (hres : r.result = some res) :
    resultProof res.pos res.sibs res.terminal =
      (if W.env.record then proveSpec W.H KEY_BITS W.view r.key
       else { proveSpec W.H KEY_BITS W.view r.key with siblings := [] }) ∧
    res.pos.path = r.key.take res.pos.depth ∧
    res.pageId = (if res.pos.depth = 0 then none else some (specPage res.pos.path)) := by
  obtain ⟨ht, hpid, hst⟩ := h
  unfold Req.result at hres
  unfold StOK at hst
  cases hs : r.st with
  | completed t =>
    rw [hs] at hres hst
    cases hres
    refine ⟨hst.2, ht.path, ?_⟩
    simp only
    rw [ht.path]
    exact hpid
  | seeking => rw [hs] at hres; cases hres
  | fetchingLeaf dels it needed => rw [hs] at hres; cases hres
  | fetchingLeaves page range it needed coll => rw [hs] at hres; cases hres

/-! ### reading a mapped change list -/

theorem wsLookup_eq_kvGet {A : Type} (ws : List (Key × Option A)) (k : Key) : wsLookup ws k = kvGet ws k := by
  induction ws with
  | nil => rfl
  | cons x xs ih => obtain ⟨k', w⟩ := x; simp only [wsLookup, kvGet, ih]

theorem wsLookup_map {A B : Type} (f : A → B) (ws : List (Key × Option A)) (k : Key) :
    wsLookup (ws.map (fun e => (e.1, e.2.map f))) k = (wsLookup ws k).map (Option.map f) := by
  induction ws with
  | nil => rfl
  | cons x xs ih =>
    obtain ⟨k', w⟩ := x
    simp only [List.map_cons, wsLookup, ih]
    split <;> rfl

end Nomt.Seek
