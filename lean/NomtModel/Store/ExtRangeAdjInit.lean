import NomtModel.Store.ExtRangeAdj
import NomtModel.Store.ExtRangeInit
/-! the state `run` starts the workers in has adjacent separator ranges -/
namespace Nomt.ExtRange

variable {σ N C : Type}

theorem chain_adj (keys : List Nat) (total : Nat) : ∀ (ws : List WP) (low : Option Nat) (start : Nat) (left : Bool),
    ChainOK keys total low start left ws → ∀ i a b, ws[i]? = some a → ws[i + 1]? = some b → a.high = b.low
  | [], _, _, _, h, _, _, _, _, _ => by simp [ChainOK] at h
  | [w], _, _, _, _, i, a, b, _, hb => by simp at hb
  | w :: w' :: rest, _, _, _, h, i, a, b, ha, hb => by
    obtain ⟨_, _, _, _, _, _, _, hrest⟩ := h
    cases i with
    | zero =>
      simp only [List.getElem?_cons_zero, Option.some.injEq, List.getElem?_cons_succ] at ha hb
      subst ha hb
      cases rest with
      | nil => exact hrest.1.symm
      | cons _ _ => exact hrest.1.symm
    | succ i =>
      simp only [List.getElem?_cons_succ] at ha hb
      exact chain_adj keys total (w' :: rest) _ _ _ hrest i a b ha hb

theorem adj_init (U : Upd σ N C) (cfg : Cfg) (db : List (DbN N)) (cs : List (Nat × C)) (keys : List Nat)
    (wps : List WP) (low : Option Nat) (start : Nat) (left : Bool) (hc : ChainOK keys keys.length low start left wps) :
    Adj (initG U cfg db cs wps) := by
  intro i j hi he
  have hi' : i < wps.length := hi
  have hp : wps[i]? = some wps[i] := List.getElem?_eq_getElem hi'
  have hw : (initG U cfg db cs wps).ws i = mkWorker U cfg db cs i wps[i] := by simp [initG, hp]
  rw [hw] at he ⊢
  simp only [effRight, view, mkWorker, Option.map_none] at he
  by_cases hr : wps[i].right = true
  · simp only [hr, if_true, Option.some.injEq] at he
    subst he
    obtain ⟨q, hq, _⟩ := (chain_link keys keys.length wps low start left hc i wps[i] hp).1 hr
    have hadj := chain_adj keys keys.length wps low start left hc i wps[i] q hp hq
    have hw' : (initG U cfg db cs wps).ws (i + 1) = mkWorker U cfg db cs (i + 1) q := by simp [initG, hq]
    rw [hw']
    simp [effHighV, mkWorker, hadj]
  · simp [hr] at he

end Nomt.ExtRange
