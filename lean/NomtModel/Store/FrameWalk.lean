import NomtModel.Store.FrameDecode
/-!
# Frame property of the leaf walk of `wfDetailM`

`leafWalk` claims every leaf page (1) and every overflow page (2) it reads.  Since marks only grow (`MarksLe`), the pages it
reads are marked 1 / 2 in the FINAL marks; an image that agrees with the walked image on the pages the final marks show
as 1 / 2 is walked identically, and its leaves decode (`leafKVs`) to the same key/value lists.
-/
namespace Nomt.Store

theorem mapM_congr_except {α β ε : Type} (f g : α → Except ε β) (l : List α) (h : ∀ a ∈ l, f a = g a) :
    l.mapM f = l.mapM g := by
  induction l with
  | nil => rfl
  | cons a l ih =>
    rw [List.mapM_cons, List.mapM_cons, h a List.mem_cons_self, ih (fun x hx => h x (List.mem_cons_of_mem _ hx))]

theorem entryWalk_spec (A : ByteArray) (bump pn : Nat) (mk : Array UInt8) (ov : Nat) (e : LeafEntry)
    (mk' : Array UInt8) (ov' : Nat)
    (h : entryWalk A bump pn mk ov e = .ok (mk', ov')) (hsz : mk.size = bump) :
    mk'.size = bump ∧ MarksLe mk mk' ∧
    ∀ B : ByteArray, (∀ p : Nat, mk'[p]! = 2 → pageOf B p = pageOf A p) →
      entryWalk B bump pn mk ov e = .ok (mk', ov') ∧ entryValue B bump e = entryValue A bump e := by
  unfold entryWalk at h
  by_cases ho : e.overflow = true
  · simp only [ho, if_true, bind, Except.bind] at h
    cases hr : readOverflowValue A bump e.cell with
    | error err => rw [hr] at h; cases h
    | ok r =>
      obtain ⟨v, pages⟩ := r
      rw [hr] at h
      simp only at h
      cases hc : claimAll mk bump 2 "ln overflow page" pages with
      | error err => rw [hc] at h; cases h
      | ok mk1 =>
        rw [hc] at h
        simp only at h
        obtain ⟨hs1, hle1, hall1, _⟩ := claimAll_spec bump 2 _ (by decide) pages mk mk1 hc hsz
        cases hd : decodeOverflowCell e.cell with
        | none => rw [hd] at h; simp [throw, throwThe, MonadExceptOf.throw] at h
        | some c =>
          rw [hd] at h
          simp only at h
          by_cases hh : (c.valueHash != Blake3.hashAny v) = true
          · simp [hh, throw, throwThe, MonadExceptOf.throw] at h
          · simp only [hh, Bool.false_eq_true, if_false, pure, Except.pure, Except.ok.injEq, Prod.mk.injEq] at h
            obtain ⟨rfl, rfl⟩ := h
            refine ⟨hs1, hle1, fun B hag => ?_⟩
            have hrB := readOverflowValue_frame A B bump e.cell v pages hr (fun p hp => hag p (hall1 p hp).1)
            constructor
            · unfold entryWalk
              simp only [ho, if_true, bind, Except.bind, hrB, hc, hd, hh, Bool.false_eq_true, if_false, pure, Except.pure]
            · unfold entryValue
              simp only [ho, if_true, hrB, hr]
  · simp only [ho, Bool.false_eq_true, if_false, pure, Except.pure, Except.ok.injEq, Prod.mk.injEq] at h
    obtain ⟨rfl, rfl⟩ := h
    refine ⟨hsz, MarksLe.refl _, fun B _ => ⟨?_, ?_⟩⟩
    · unfold entryWalk; simp only [ho, Bool.false_eq_true, if_false, pure, Except.pure]
    · unfold entryValue; simp only [ho, Bool.false_eq_true, if_false]

theorem entriesWalk_spec (A : ByteArray) (bump pn : Nat) :
    ∀ (es : List LeafEntry) (mk : Array UInt8) (ov : Nat) (mk' : Array UInt8) (ov' : Nat),
      entriesWalk A bump pn mk ov es = .ok (mk', ov') → mk.size = bump →
      mk'.size = bump ∧ MarksLe mk mk' ∧
      ∀ B : ByteArray, (∀ p : Nat, mk'[p]! = 2 → pageOf B p = pageOf A p) →
        entriesWalk B bump pn mk ov es = .ok (mk', ov') ∧ ∀ e ∈ es, entryValue B bump e = entryValue A bump e := by
  intro es
  induction es with
  | nil =>
    intro mk ov mk' ov' h hsz
    simp only [entriesWalk, pure, Except.pure, Except.ok.injEq, Prod.mk.injEq] at h
    obtain ⟨rfl, rfl⟩ := h
    exact ⟨hsz, MarksLe.refl _, fun B _ => ⟨by simp [entriesWalk, pure, Except.pure], fun e he => by cases he⟩⟩
  | cons e es ih =>
    intro mk ov mk' ov' h hsz
    simp only [entriesWalk, bind, Except.bind] at h
    cases he : entryWalk A bump pn mk ov e with
    | error err => rw [he] at h; cases h
    | ok r =>
      obtain ⟨mk1, ov1⟩ := r
      rw [he] at h
      simp only at h
      obtain ⟨hs1, hle1, hf1⟩ := entryWalk_spec A bump pn mk ov e mk1 ov1 he hsz
      obtain ⟨hs2, hle2, hf2⟩ := ih mk1 ov1 mk' ov' h hs1
      refine ⟨hs2, hle1.trans hle2, fun B hag => ?_⟩
      obtain ⟨hw1, hv1⟩ := hf1 B (fun p hp => hag p (by rw [hle2.2 p (by rw [hp]; decide), hp]))
      obtain ⟨hw2, hv2⟩ := hf2 B hag
      constructor
      · simp only [entriesWalk, bind, Except.bind, hw1, hw2]
      · intro x hx
        rcases List.mem_cons.1 hx with rfl | hx
        · exact hv1
        · exact hv2 x hx

theorem leafKVs_congr (A B : ByteArray) (bump pn : Nat) (pg : ByteArray) (es : List LeafEntry)
    (hpA : pageOf A pn = some pg) (hpB : pageOf B pn = some pg) (hd : decodeLeaf pg = .ok es)
    (hv : ∀ e ∈ es, entryValue B bump e = entryValue A bump e) : leafKVs B bump pn = leafKVs A bump pn := by
  unfold leafKVs
  simp only [hpA, hpB, hd, bind, Except.bind]
  first
    | (congr 1; apply mapM_congr_except; intro e he; simp only [hv e he])
    | (apply mapM_congr_except; intro e he; simp only [hv e he])

theorem leafWalk_spec (A : ByteArray) (bump : Nat) :
    ∀ (seps : List (Nat × Nat)) (mk : Array UInt8) (keys ov : Nat) (mkF : Array UInt8) (keys' ov' : Nat),
      leafWalk A bump mk keys ov seps = .ok (mkF, keys', ov') → mk.size = bump →
      mkF.size = bump ∧ MarksLe mk mkF ∧ (∀ s ∈ seps, mkF[s.2]! = 1 ∧ s.2 ≠ 0 ∧ s.2 < bump) ∧
      ∀ B : ByteArray, (∀ p : Nat, (mkF[p]! = 1 ∨ mkF[p]! = 2) → pageOf B p = pageOf A p) →
        leafWalk B bump mk keys ov seps = .ok (mkF, keys', ov') ∧ ∀ s ∈ seps, leafKVs B bump s.2 = leafKVs A bump s.2 := by
  intro seps
  induction seps with
  | nil =>
    intro mk keys ov mkF keys' ov' h hsz
    simp only [leafWalk, pure, Except.pure, Except.ok.injEq, Prod.mk.injEq] at h
    obtain ⟨rfl, rfl, rfl⟩ := h
    exact ⟨hsz, MarksLe.refl _, fun _ he => (by cases he), fun B _ => ⟨by simp [leafWalk, pure, Except.pure], fun e he => by cases he⟩⟩
  | cons s rest ih =>
    obtain ⟨lo, pn⟩ := s
    intro mk keys ov mkF keys' ov' h hsz
    simp only [leafWalk, bind, Except.bind] at h
    cases hc : claim mk bump pn 1 "ln leaf" with
    | error err => rw [hc] at h; cases h
    | ok mk1 =>
      rw [hc] at h
      simp only at h
      obtain ⟨hs1, hle1, hp1, hpn0, hpnlt, _⟩ := claim_spec hc hsz
      cases hp : pageOf A pn with
      | none => rw [hp] at h; simp [throw, throwThe, MonadExceptOf.throw] at h
      | some pg =>
        rw [hp] at h
        simp only at h
        cases hd : decodeLeaf pg with
        | error err => rw [hd] at h; cases h
        | ok es =>
          rw [hd] at h
          simp only at h
          by_cases hso : (!strictlySorted (es.map (fun e => keyNat e.key))) = true
          · simp [hso, throw, throwThe, MonadExceptOf.throw] at h
          · simp only [hso, Bool.false_eq_true, if_false] at h
            cases hk : keysInRange pn lo (rest.head?.map (·.1)) (es.map (fun e => keyNat e.key)) with
            | error err => rw [hk] at h; cases h
            | ok u =>
              rw [hk] at h
              simp only at h
              cases hw : entriesWalk A bump pn mk1 ov es with
              | error err => rw [hw] at h; cases h
              | ok r =>
                obtain ⟨mk2, ov2⟩ := r
                rw [hw] at h
                simp only at h
                obtain ⟨hs2, hle2, hf2⟩ := entriesWalk_spec A bump pn es mk1 ov mk2 ov2 hw hs1
                obtain ⟨hs3, hle3, hm3, hf3⟩ := ih mk2 _ ov2 mkF keys' ov' h hs2
                have hpnF : mkF[pn]! = 1 := by
                  have : mk2[pn]! = 1 := by rw [hle2.2 pn (by rw [hp1]; decide), hp1]
                  rw [hle3.2 pn (by rw [this]; decide), this]
                refine ⟨hs3, (hle1.trans hle2).trans hle3, ?_, fun B hag => ?_⟩
                · intro x hx
                  rcases List.mem_cons.1 hx with rfl | hx
                  · exact ⟨hpnF, hpn0, hpnlt⟩
                  · exact hm3 x hx
                have hpB : pageOf B pn = some pg := by rw [hag pn (Or.inl hpnF), hp]
                obtain ⟨hw2, hv2⟩ := hf2 B (fun p hp2 => hag p (Or.inr (by rw [hle3.2 p (by rw [hp2]; decide), hp2])))
                obtain ⟨hw3, hv3⟩ := hf3 B hag
                constructor
                · simp only [leafWalk, bind, Except.bind, hc, hpB, hd, hso, Bool.false_eq_true, if_false, hk, hw2, hw3]
                · intro x hx
                  rcases List.mem_cons.1 hx with rfl | hx
                  · exact leafKVs_congr A B bump pn pg es hp hpB hd hv2
                  · exact hv3 x hx

end Nomt.Store
