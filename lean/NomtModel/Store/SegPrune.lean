import NomtModel.Store.SegAppend
/-!
# `prune_oldest` / `prune_recent`: refinement and crash images
-/
namespace Nomt.Seg

/-! ## the two loops -/

theorem pruneOldestLoop_spec (n : Nat) : ∀ (dropO : List SegMeta) (y : SegMeta) (keep : List SegMeta),
    (∀ x ∈ dropO, x.max < n) → n ≤ y.max →
    pruneOldestLoop n (dropO ++ y :: keep) = (y :: keep, dropO.map (·.id))
  | [], y, [], _, _ => rfl
  | [], y, k :: keep, _, hy => by simp [pruneOldestLoop, hy]
  | z :: zs, y, keep, hz, hy => by
    have hzlt : ¬ n ≤ z.max := by have := hz z (by simp); omega
    have ih := pruneOldestLoop_spec n zs y keep (fun x hx => hz x (by simp [hx])) hy
    cases hzs : zs ++ y :: keep with
    | nil => simp at hzs
    | cons w ws =>
      rw [hzs] at ih
      simp only [List.cons_append, hzs, pruneOldestLoop, hzlt, if_false, ih, List.map_cons]

theorem pruneRecentLoop_spec (n : Nat) : ∀ (dropN : List SegMeta) (y : SegMeta) (keep : List SegMeta),
    (∀ x ∈ dropN, n < x.min) → y.min ≤ n →
    pruneRecentLoop n (dropN ++ y :: keep) = (y :: keep, dropN.map (·.id))
  | [], y, [], _, _ => rfl
  | [], y, k :: keep, _, hy => by simp [pruneRecentLoop, hy]
  | z :: zs, y, keep, hz, hy => by
    have hzlt : ¬ z.min ≤ n := by have := hz z (by simp); omega
    have ih := pruneRecentLoop_spec n zs y keep (fun x hx => hz x (by simp [hx])) hy
    cases hzs : zs ++ y :: keep with
    | nil => simp at hzs
    | cons w ws =>
      rw [hzs] at ih
      simp only [List.cons_append, hzs, pruneRecentLoop, hzlt, if_false, ih, List.map_cons]

/-! ## `(id, min, max)` of a file without torn tail -/

theorem foldMin_some (m : Nat) (l : List Rec) : foldMin (some m) l = some m := by
  induction l with
  | nil => rfl
  | cons x l ih => simpa [foldMin, newMin] using ih

theorem foldMax_idsFrom : ∀ (l : List Rec) (nx : Nat) (mx : Option Nat), IdsFrom nx l → l ≠ [] →
    (mx = none ∨ ∃ m, mx = some m ∧ m < nx) → foldMax mx l = some (nx + l.length - 1)
  | [], _, _, _, h, _ => absurd rfl h
  | x :: l, nx, mx, hids, _, hmx => by
    obtain ⟨hx, hl⟩ := hids
    have h1 : newMax mx x.id = some x.id := by
      rcases hmx with rfl | ⟨m, rfl, hm⟩
      · rfl
      · have : m < x.id := by omega
        simp [newMax, this]
    by_cases hnil : l = []
    · subst hnil
      rw [hx] at h1
      simp only [foldMax, List.foldl_cons, List.foldl_nil, hx, List.length_cons, List.length_nil, h1]
      congr 1
    · have ih := foldMax_idsFrom l (nx + 1) (some x.id) hl hnil (Or.inr ⟨x.id, rfl, by omega⟩)
      simp only [foldMax, List.foldl_cons, h1] at ih ⊢
      rw [ih]; simp only [List.length_cons]; congr 1; omega

theorem metaOf_clean (hid nx : Nat) (recs : List Rec) (hids : IdsFrom nx recs) (hne : recs ≠ []) :
    metaOf (hid, ⟨recs, none⟩) = ⟨hid, nx, nx + recs.length - 1⟩ := by
  cases recs with
  | nil => exact absurd rfl hne
  | cons x l =>
    have hmax := foldMax_idsFrom (x :: l) nx none hids hne (Or.inl rfl)
    have hmin : foldMin none (x :: l) = some nx := by
      have h0 : foldMin none (x :: l) = foldMin (some x.id) l := rfl
      rw [h0, foldMin_some, hids.1]
    simp [metaOf, frameRecs, hmin, hmax]

/-- dropping files at both ends keeps a directory recoverable as long as the record `e` stays inside -/
theorem trim_rec (s e i0 a : Nat) (d A B C : Dir) (R : Recoverable s e i0 a d) (hd : d = A ++ B ++ C)
    (h1 : a + (flatRecs A).length ≤ e) (h2 : e < a + (flatRecs A).length + (flatRecs B).length) :
    Recoverable s e (i0 + A.length) (a + (flatRecs A).length) B := by
  have hBne : B ≠ [] := by
    intro hB
    rw [hB] at h2
    have : (flatRecs ([] : Dir)).length = 0 := rfl
    omega
  have hseg := R.hseg
  rw [hd, List.append_assoc, segIdsFrom_append] at hseg
  have hsegB := ((segIdsFrom_append B C _).mp hseg.2).1
  have hrec := R.hrec
  rw [hd, List.append_assoc] at hrec
  have hrecBC := (recsFrom_append e A (B ++ C) a hrec (by simp [hBne])).2.2
  have hrecB := recsFrom_prefix e B C _ hrecBC
  exact ⟨R.hs, R.hse, by have := R.hi; omega, hsegB, hrecB, h1, h2⟩

theorem recsFrom_file_ids (e : Nat) : ∀ (d : Dir) (nx : Nat), RecsFrom e nx d → ∀ x ∈ d, ∃ nx', IdsFrom nx' x.2.recs
  | [], _, _, x, hx => by cases hx
  | y :: d, nx, h, x, hx => by
    obtain ⟨h1, _, _, h4⟩ := h
    rcases List.mem_cons.mp hx with rfl | hx
    · exact ⟨nx, h1⟩
    · exact recsFrom_file_ids e d _ h4 x hx

/-- in a consistent state every record of a file is at most the file's `max` and at least its `min` -/
theorem Inv.meta_bounds {L : Log} {d : Dir} {i0 a : Nat} (I : Inv L d i0 a) (x : Nat × SegFile) (hx : x ∈ d) :
    ∀ r ∈ x.2.recs, (metaOf x).min ≤ r.id ∧ r.id ≤ (metaOf x).max := by
  obtain ⟨nx, hids⟩ := recsFrom_file_ids _ d a I.hrec x hx
  obtain ⟨ht, hne⟩ := I.hclean x hx
  obtain ⟨hid, recs, torn⟩ := x
  simp only at ht hne hids
  subst ht
  rw [metaOf_clean hid nx recs hids hne]
  intro r hr
  have := idsFrom_mem recs nx hids r hr
  simp only; omega

theorem Inv.meta_has {L : Log} {d : Dir} {i0 a : Nat} (I : Inv L d i0 a) (x : Nat × SegFile) (hx : x ∈ d) :
    (∃ r ∈ x.2.recs, r.id = (metaOf x).max) ∧ (∃ r ∈ x.2.recs, r.id = (metaOf x).min) := by
  obtain ⟨nx, hids⟩ := recsFrom_file_ids _ d a I.hrec x hx
  obtain ⟨ht, hne⟩ := I.hclean x hx
  obtain ⟨hid, recs, torn⟩ := x
  simp only at ht hne hids
  subst ht
  rw [metaOf_clean hid nx recs hids hne]
  have hlen : 0 < recs.length := List.length_pos_iff.mpr hne
  exact ⟨idsFrom_get recs nx (nx + recs.length - 1) hids (by omega) (by omega),
    idsFrom_get recs nx nx hids (by omega) (by omega)⟩

/-- the last file of a consistent state holds the record `endLive` -/
theorem Inv.last_max {L : Log} {i0 a : Nat} {base : Dir} {hid : Nat} {recs0 : List Rec}
    (I : Inv L (base ++ [(hid, ⟨recs0, none⟩)]) i0 a) : (metaOf (hid, ⟨recs0, none⟩)).max = L.endLive := by
  have hids : IdsFrom (a + (flatRecs base).length) recs0 := (recsFrom_append _ base [_] a I.hrec (by simp)).2.2.1
  have hne : recs0 ≠ [] := (I.hclean (hid, ⟨recs0, none⟩) (by simp)).2
  rw [metaOf_clean hid _ recs0 hids hne]
  have := I.hend
  rw [flatRecs_append, List.length_append, flatRecs_single] at this
  have hlen : 0 < recs0.length := List.length_pos_iff.mpr hne
  simp only at this ⊢; omega

/-! ## `prune_oldest` -/

theorem pruneOldest_spec (L : Log) (d : Dir) (i0 a n : Nat) (I : Inv L d i0 a) (hn1 : L.startLive ≤ n) (hn2 : n ≤ L.endLive) :
    ∃ A B, d = A ++ B ∧ B ≠ [] ∧ (∀ r ∈ flatRecs A, r.id < n) ∧
      pruneOldest L d n = ⟨B, { L with startLive := n, segs := B.map metaOf }, A.map (fun x => FsEff.unlink x.1), .ok 0⟩ := by
  obtain ⟨base, hid, recs0, hd, _⟩ := I.split
  have hlastmax : (metaOf (hid, (⟨recs0, none⟩ : SegFile))).max = L.endLive := (hd ▸ I).last_max
  let p : SegFile → Bool := fun f => decide (n ≤ (metaOf (0, f)).max)
  have hex : ∃ x ∈ d, p x.2 = true := ⟨(hid, ⟨recs0, none⟩), by rw [hd]; simp, by
    show decide (n ≤ (metaOf (0, (⟨recs0, none⟩ : SegFile))).max) = true
    have : (metaOf (0, (⟨recs0, none⟩ : SegFile))).max = (metaOf (hid, (⟨recs0, none⟩ : SegFile))).max := rfl
    rw [this, hlastmax]; simpa using hn2⟩
  obtain ⟨j, hj⟩ := firstIdx_exists p d 0 hex
  obtain ⟨A, y, K, hsplit, _, hA, hy⟩ := firstIdx_split p d 0 j hj
  have hAmax : ∀ x ∈ A.map metaOf, x.max < n := by
    intro m hm
    obtain ⟨x, hx, rfl⟩ := List.mem_map.mp hm
    have := hA x hx
    simp only [p, decide_eq_false_iff_not] at this
    have h2 : (metaOf x).max = (metaOf (0, x.2)).max := rfl
    omega
  have hymax : n ≤ (metaOf y).max := by
    have : (metaOf y).max = (metaOf (0, y.2)).max := rfl
    simpa [p, this] using hy
  have hdead : ∀ r ∈ flatRecs A, r.id < n := by
    intro r hr
    simp only [flatRecs, List.mem_flatMap] at hr
    obtain ⟨x, hx, hrx⟩ := hr
    have hb := (I.meta_bounds x (by rw [hsplit]; simp [hx]) r hrx).2
    have := hAmax (metaOf x) (List.mem_map_of_mem hx)
    omega
  refine ⟨A, y :: K, hsplit, by simp, hdead, ?_⟩
  have hn0 : n ≠ 0 := by have := I.hstart; omega
  have hne : L.segs.isEmpty = false := by
    rw [I.hsegs, hd]; simp
  have hloop : pruneOldestLoop n L.segs = ((y :: K).map metaOf, (A.map metaOf).map (·.id)) := by
    rw [I.hsegs, hsplit, List.map_append, List.map_cons]
    exact pruneOldestLoop_spec n _ _ _ hAmax hymax
  have heffs : ((A.map metaOf).map (·.id)).map FsEff.unlink = A.map (fun x => FsEff.unlink x.1) := by
    simp [metaOf, Function.comp_def]
  have hdir : applyEffs d (A.map (fun x => FsEff.unlink x.1)) = y :: K := by
    rw [hsplit]; exact unlink_front i0 A (y :: K) (hsplit ▸ I.hseg)
  unfold pruneOldest
  simp only [hn0, if_false, hne, Bool.false_eq_true, show ¬ L.endLive < n by omega, show ¬ n < L.startLive by omega,
    hloop, heffs, hdir]

/-- **crash images of `prune_oldest`**: after any number of its unlinks the directory recovers under every range
`[s', e]` (in particular the lagging start the meta still holds), and what it has lost are only records below `n` -/
theorem pruneOldest_images (L : Log) (d : Dir) (i0 a n : Nat) (I : Inv L d i0 a) (hn1 : L.startLive ≤ n)
    (hn2 : n ≤ L.endLive) (k : Nat) :
    ∃ gone, flatRecs d = gone ++ flatRecs (applyEffs d ((pruneOldest L d n).effs.take k)) ∧ (∀ r ∈ gone, r.id < n) ∧
      ∀ s', 0 < s' → s' ≤ L.endLive →
        ∃ i0' a', Recoverable s' L.endLive i0' a' (applyEffs d ((pruneOldest L d n).effs.take k)) := by
  obtain ⟨A, B, hd, hB, hdead, hres⟩ := pruneOldest_spec L d i0 a n I hn1 hn2
  rw [hres]
  simp only
  have htake : (A.map (fun x => FsEff.unlink x.1)).take k = (A.take k).map (fun x => FsEff.unlink x.1) := by
    rw [List.map_take]
  have hd2 : d = A.take k ++ (A.drop k ++ B) := by
    rw [hd, ← List.append_assoc, List.take_append_drop]
  have himg : applyEffs d ((A.take k).map (fun x => FsEff.unlink x.1)) = A.drop k ++ B := by
    rw [hd2]; exact unlink_front i0 _ _ (hd2 ▸ I.hseg)
  rw [htake, himg]
  refine ⟨flatRecs (A.take k), by rw [hd2, flatRecs_append], fun r hr => hdead r (mem_flatRecs_take A k r hr), ?_⟩
  intro s' hs' hse'
  have R := I.recoverable s' hs' hse'
  -- the last file stays, so the record `e` stays
  have hBlen : 0 < (flatRecs B).length := by
    obtain ⟨base, hid, recs0, hdd, hr⟩ := I.split
    have hlast : B.getLast? = some (hid, ⟨recs0, none⟩) := by
      have : (A ++ B).getLast? = some (hid, (⟨recs0, none⟩ : SegFile)) := by rw [← hd, hdd]; simp
      rw [List.getLast?_append] at this
      cases hb : B.getLast? with
      | none => exact absurd (List.getLast?_eq_none_iff.mp hb) hB
      | some z => rw [hb] at this; simpa using this
    obtain ⟨B', hB'⟩ := List.getLast?_eq_some_iff.mp hlast
    rw [hB', flatRecs_append, List.length_append, flatRecs_single]
    have : 0 < recs0.length := List.length_pos_iff.mpr hr
    simp only; omega
  have hend := I.hend
  rw [hd2, flatRecs_append, List.length_append, flatRecs_append, List.length_append] at hend
  have := trim_rec s' L.endLive i0 a d (A.take k) (A.drop k ++ B) [] R (by rw [hd2]; simp)
    (by omega) (by rw [flatRecs_append, List.length_append]; omega)
  exact ⟨_, _, this⟩

end Nomt.Seg
