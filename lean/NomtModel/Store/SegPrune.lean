import NomtModel.Store.SegAppend
/-!
# `prune_oldest` / `prune_recent`: refinement and crash images
-/
namespace Nomt.Seg

/-! ## the two loops -/

theorem pruneOldestLoop_spec (n : Nat) : ∀ (dropO : List SegMeta) (y : SegMeta) (keep : List SegMeta),
    (∀ x ∈ dropO, x.max < n) → n ≤ y.max →
    pruneOldestLoop n (dropO ++ y :: keep) = (y :: keep, dropO.map (·.id))
  | [], y, [], _, _ => rfl
  | [], y, k :: keep, _, hy => by simp [pruneOldestLoop, hy]
  | z :: zs, y, keep, hz, hy => by
    have hzlt : ¬ n ≤ z.max := by have := hz z (by simp); omega
    have ih := pruneOldestLoop_spec n zs y keep (fun x hx => hz x (by simp [hx])) hy
    cases hzs : zs ++ y :: keep with
    | nil => simp at hzs
    | cons w ws =>
      rw [hzs] at ih
      simp only [List.cons_append, hzs, pruneOldestLoop, hzlt, if_false, ih, List.map_cons]

theorem pruneRecentLoop_spec (n : Nat) : ∀ (dropN : List SegMeta) (y : SegMeta) (keep : List SegMeta),
    (∀ x ∈ dropN, n < x.min) → y.min ≤ n →
    pruneRecentLoop n (dropN ++ y :: keep) = (y :: keep, dropN.map (·.id))
  | [], y, [], _, _ => rfl
  | [], y, k :: keep, _, hy => by simp [pruneRecentLoop, hy]
  | z :: zs, y, keep, hz, hy => by
    have hzlt : ¬ z.min ≤ n := by have := hz z (by simp); omega
    have ih := pruneRecentLoop_spec n zs y keep (fun x hx => hz x (by simp [hx])) hy
    cases hzs : zs ++ y :: keep with
    | nil => simp at hzs
    | cons w ws =>
      rw [hzs] at ih
      simp only [List.cons_append, hzs, pruneRecentLoop, hzlt, if_false, ih, List.map_cons]

/-! ## `(id, min, max)` of a file without torn tail -/

theorem foldMin_some (m : Nat) (l : List Rec) : foldMin (some m) l = some m := by
  induction l with
  | nil => rfl
  | cons x l ih => simpa [foldMin, newMin] using ih

theorem foldMax_idsFrom : ∀ (l : List Rec) (nx : Nat) (mx : Option Nat), IdsFrom nx l → l ≠ [] →
    (mx = none ∨ ∃ m, mx = some m ∧ m < nx) → foldMax mx l = some (nx + l.length - 1)
  | [], _, _, _, h, _ => absurd rfl h
  | x :: l, nx, mx, hids, _, hmx => by
    obtain ⟨hx, hl⟩ := hids
    have h1 : newMax mx x.id = some x.id := by
      rcases hmx with rfl | ⟨m, rfl, hm⟩
      · rfl
      · have : m < x.id := by omega
        simp [newMax, this]
    by_cases hnil : l = []
    · subst hnil
      rw [hx] at h1
      simp only [foldMax, List.foldl_cons, List.foldl_nil, hx, List.length_cons, List.length_nil, h1]
      congr 1
    · have ih := foldMax_idsFrom l (nx + 1) (some x.id) hl hnil (Or.inr ⟨x.id, rfl, by omega⟩)
      simp only [foldMax, List.foldl_cons, h1] at ih ⊢
      rw [ih]; simp only [List.length_cons]; congr 1; omega

theorem metaOf_clean (hid nx : Nat) (recs : List Rec) (hids : IdsFrom nx recs) (hne : recs ≠ []) :
    metaOf (hid, ⟨recs, none⟩) = ⟨hid, nx, nx + recs.length - 1⟩ := by
  cases recs with
  | nil => exact absurd rfl hne
  | cons x l =>
    have hmax := foldMax_idsFrom (x :: l) nx none hids hne (Or.inl rfl)
    have hmin : foldMin none (x :: l) = some nx := by
      have h0 : foldMin none (x :: l) = foldMin (some x.id) l := rfl
      rw [h0, foldMin_some, hids.1]
    simp [metaOf, frameRecs, hmin, hmax]

/-- dropping files at both ends keeps a directory recoverable as long as the record `e` stays inside -/
theorem trim_rec (s e i0 a : Nat) (d A B C : Dir) (R : Recoverable s e i0 a d) (hd : d = A ++ B ++ C)
    (h1 : a + (flatRecs A).length ≤ e) (h2 : e < a + (flatRecs A).length + (flatRecs B).length) :
    Recoverable s e (i0 + A.length) (a + (flatRecs A).length) B := by
  have hBne : B ≠ [] := by
    intro hB
    rw [hB] at h2
    have : (flatRecs ([] : Dir)).length = 0 := rfl
    omega
  have hseg := R.hseg
  rw [hd, List.append_assoc, segIdsFrom_append] at hseg
  have hsegB := ((segIdsFrom_append B C _).mp hseg.2).1
  have hrec := R.hrec
  rw [hd, List.append_assoc] at hrec
  have hrecBC := (recsFrom_append e A (B ++ C) a hrec (by simp [hBne])).2.2
  have hrecB := recsFrom_prefix e B C _ hrecBC
  exact ⟨R.hs, R.hse, by have := R.hi; omega, hsegB, hrecB, h1, h2⟩

theorem recsFrom_file_ids (e : Nat) : ∀ (d : Dir) (nx : Nat), RecsFrom e nx d → ∀ x ∈ d, ∃ nx', IdsFrom nx' x.2.recs
  | [], _, _, x, hx => by cases hx
  | y :: d, nx, h, x, hx => by
    obtain ⟨h1, _, _, h4⟩ := h
    rcases List.mem_cons.mp hx with rfl | hx
    · exact ⟨nx, h1⟩
    · exact recsFrom_file_ids e d _ h4 x hx

/-- in a consistent state every record of a file is at most the file's `max` and at least its `min` -/
theorem Inv.meta_bounds {L : Log} {d : Dir} {i0 a : Nat} (I : Inv L d i0 a) (x : Nat × SegFile) (hx : x ∈ d) :
    ∀ r ∈ x.2.recs, (metaOf x).min ≤ r.id ∧ r.id ≤ (metaOf x).max := by
  obtain ⟨nx, hids⟩ := recsFrom_file_ids _ d a I.hrec x hx
  obtain ⟨ht, hne⟩ := I.hclean x hx
  obtain ⟨hid, recs, torn⟩ := x
  simp only at ht hne hids
  subst ht
  rw [metaOf_clean hid nx recs hids hne]
  intro r hr
  have := idsFrom_mem recs nx hids r hr
  simp only; omega

theorem Inv.meta_has {L : Log} {d : Dir} {i0 a : Nat} (I : Inv L d i0 a) (x : Nat × SegFile) (hx : x ∈ d) :
    (∃ r ∈ x.2.recs, r.id = (metaOf x).max) ∧ (∃ r ∈ x.2.recs, r.id = (metaOf x).min) := by
  obtain ⟨nx, hids⟩ := recsFrom_file_ids _ d a I.hrec x hx
  obtain ⟨ht, hne⟩ := I.hclean x hx
  obtain ⟨hid, recs, torn⟩ := x
  simp only at ht hne hids
  subst ht
  rw [metaOf_clean hid nx recs hids hne]
  have hlen : 0 < recs.length := List.length_pos_iff.mpr hne
  exact ⟨idsFrom_get recs nx (nx + recs.length - 1) hids (by omega) (by omega),
    idsFrom_get recs nx nx hids (by omega) (by omega)⟩

/-- the last file of a consistent state holds the record `endLive` -/
theorem Inv.last_max {L : Log} {i0 a : Nat} {base : Dir} {hid : Nat} {recs0 : List Rec}
    (I : Inv L (base ++ [(hid, ⟨recs0, none⟩)]) i0 a) : (metaOf (hid, ⟨recs0, none⟩)).max = L.endLive := by
  have hids : IdsFrom (a + (flatRecs base).length) recs0 := (recsFrom_append _ base [_] a I.hrec (by simp)).2.2.1
  have hne : recs0 ≠ [] := (I.hclean (hid, ⟨recs0, none⟩) (by simp)).2
  rw [metaOf_clean hid _ recs0 hids hne]
  have := I.hend
  rw [flatRecs_append, List.length_append, flatRecs_single] at this
  have hlen : 0 < recs0.length := List.length_pos_iff.mpr hne
  simp only at this ⊢; omega

/-! ## `prune_oldest` -/

theorem pruneOldest_spec (L : Log) (d : Dir) (i0 a n : Nat) (I : Inv L d i0 a) (hn1 : L.startLive ≤ n) (hn2 : n ≤ L.endLive) :
    ∃ A B, d = A ++ B ∧ B ≠ [] ∧ (∀ r ∈ flatRecs A, r.id < n) ∧
      pruneOldest L d n = ⟨B, { L with startLive := n, segs := B.map metaOf }, A.map (fun x => FsEff.unlink x.1), .ok 0⟩ := by
  obtain ⟨base, hid, recs0, hd, _⟩ := I.split
  have hlastmax : (metaOf (hid, (⟨recs0, none⟩ : SegFile))).max = L.endLive := (hd ▸ I).last_max
  let p : SegFile → Bool := fun f => decide (n ≤ (metaOf (0, f)).max)
  have hex : ∃ x ∈ d, p x.2 = true := ⟨(hid, ⟨recs0, none⟩), by rw [hd]; simp, by
    show decide (n ≤ (metaOf (0, (⟨recs0, none⟩ : SegFile))).max) = true
    have : (metaOf (0, (⟨recs0, none⟩ : SegFile))).max = (metaOf (hid, (⟨recs0, none⟩ : SegFile))).max := rfl
    rw [this, hlastmax]; simpa using hn2⟩
  obtain ⟨j, hj⟩ := firstIdx_exists p d 0 hex
  obtain ⟨A, y, K, hsplit, _, hA, hy⟩ := firstIdx_split p d 0 j hj
  have hAmax : ∀ x ∈ A.map metaOf, x.max < n := by
    intro m hm
    obtain ⟨x, hx, rfl⟩ := List.mem_map.mp hm
    have := hA x hx
    simp only [p, decide_eq_false_iff_not] at this
    have h2 : (metaOf x).max = (metaOf (0, x.2)).max := rfl
    omega
  have hymax : n ≤ (metaOf y).max := by
    have : (metaOf y).max = (metaOf (0, y.2)).max := rfl
    simpa [p, this] using hy
  have hdead : ∀ r ∈ flatRecs A, r.id < n := by
    intro r hr
    simp only [flatRecs, List.mem_flatMap] at hr
    obtain ⟨x, hx, hrx⟩ := hr
    have hb := (I.meta_bounds x (by rw [hsplit]; simp [hx]) r hrx).2
    have := hAmax (metaOf x) (List.mem_map_of_mem hx)
    omega
  refine ⟨A, y :: K, hsplit, by simp, hdead, ?_⟩
  have hn0 : n ≠ 0 := by have := I.hstart; omega
  have hne : L.segs.isEmpty = false := by
    rw [I.hsegs, hd]; simp
  have hloop : pruneOldestLoop n L.segs = ((y :: K).map metaOf, (A.map metaOf).map (·.id)) := by
    rw [I.hsegs, hsplit, List.map_append, List.map_cons]
    exact pruneOldestLoop_spec n _ _ _ hAmax hymax
  have heffs : ((A.map metaOf).map (·.id)).map FsEff.unlink = A.map (fun x => FsEff.unlink x.1) := by
    simp [metaOf, Function.comp_def]
  have hdir : applyEffs d (A.map (fun x => FsEff.unlink x.1)) = y :: K := by
    rw [hsplit]; exact unlink_front i0 A (y :: K) (hsplit ▸ I.hseg)
  unfold pruneOldest
  simp only [hn0, if_false, hne, Bool.false_eq_true, show ¬ L.endLive < n by omega, show ¬ n < L.startLive by omega,
    hloop, heffs, hdir]

/-- **crash images of `prune_oldest`**: after any number of its unlinks the directory recovers under every range
`[s', e]` (in particular the lagging start the meta still holds), and what it has lost are only records below `n` -/
theorem pruneOldest_images (L : Log) (d : Dir) (i0 a n : Nat) (I : Inv L d i0 a) (hn1 : L.startLive ≤ n)
    (hn2 : n ≤ L.endLive) (k : Nat) :
    ∃ gone, flatRecs d = gone ++ flatRecs (applyEffs d ((pruneOldest L d n).effs.take k)) ∧ (∀ r ∈ gone, r.id < n) ∧
      ∀ s', 0 < s' → s' ≤ L.endLive →
        ∃ i0' a', Recoverable s' L.endLive i0' a' (applyEffs d ((pruneOldest L d n).effs.take k)) := by
  obtain ⟨A, B, hd, hB, hdead, hres⟩ := pruneOldest_spec L d i0 a n I hn1 hn2
  rw [hres]
  simp only
  have htake : (A.map (fun x => FsEff.unlink x.1)).take k = (A.take k).map (fun x => FsEff.unlink x.1) := by
    rw [List.map_take]
  have hd2 : d = A.take k ++ (A.drop k ++ B) := by
    rw [hd, ← List.append_assoc, List.take_append_drop]
  have himg : applyEffs d ((A.take k).map (fun x => FsEff.unlink x.1)) = A.drop k ++ B := by
    rw [hd2]; exact unlink_front i0 _ _ (hd2 ▸ I.hseg)
  rw [htake, himg]
  refine ⟨flatRecs (A.take k), by rw [hd2, flatRecs_append], fun r hr => hdead r (mem_flatRecs_take A k r hr), ?_⟩
  intro s' hs' hse'
  have R := I.recoverable s' hs' hse'
  -- the last file stays, so the record `e` stays
  have hBlen : 0 < (flatRecs B).length := by
    obtain ⟨base, hid, recs0, hdd, hr⟩ := I.split
    have hlast : B.getLast? = some (hid, ⟨recs0, none⟩) := by
      have : (A ++ B).getLast? = some (hid, (⟨recs0, none⟩ : SegFile)) := by rw [← hd, hdd]; simp
      rw [List.getLast?_append] at this
      cases hb : B.getLast? with
      | none => exact absurd (List.getLast?_eq_none_iff.mp hb) hB
      | some z => rw [hb] at this; simpa using this
    obtain ⟨B', hB'⟩ := List.getLast?_eq_some_iff.mp hlast
    rw [hB', flatRecs_append, List.length_append, flatRecs_single]
    have : 0 < recs0.length := List.length_pos_iff.mpr hr
    simp only; omega
  have hend := I.hend
  rw [hd2, flatRecs_append, List.length_append, flatRecs_append, List.length_append] at hend
  have := trim_rec s' L.endLive i0 a d (A.take k) (A.drop k ++ B) [] R (by rw [hd2]; simp)
    (by omega) (by rw [flatRecs_append, List.length_append]; omega)
  exact ⟨_, _, this⟩

/-! ## `prune_recent` -/

theorem Inv.all_clean {L : Log} {d : Dir} {i0 a : Nat} (I : Inv L d i0 a) : ∀ x ∈ d, x.2.torn = none :=
  fun x hx => (I.hclean x hx).1

/-- `prune_recent n` for a record `n` that exists (`a ≤ n ≤ e`; `a` = the oldest record still in a file): the files
above the one holding `n` are unlinked newest first, the directory is fsynced, the new head is cut after `n` -/
theorem pruneRecent_spec (L : Log) (d : Dir) (i0 a n : Nat) (I : Inv L d i0 a) (hn1 : a ≤ n) (hn2 : n ≤ L.endLive) :
    ∃ M T y ny, d = (M ++ [y]) ++ T ∧ (∀ r ∈ flatRecs T, n < r.id) ∧ ny = a + (flatRecs M).length ∧ ny ≤ n ∧
      n < ny + y.2.recs.length ∧
      (pruneRecent L d n).effs = T.reverse.map (fun x => FsEff.unlink x.1) ++ [FsEff.dirsync] ++
        [.setLen y.1 (recsSize (y.2.recs.take (n - ny + 1))), .fsync y.1] ∧
      (pruneRecent L d n).dir = liveDir M y (n - ny + 1) ∧ (pruneRecent L d n).out = .ok 0 ∧
      (pruneRecent L d n).log.endLive = n ∧ (pruneRecent L d n).log.startLive = L.startLive ∧
      (pruneRecent L d n).log = { L with segs := setLast (fun s => { s with max := n }) ((M ++ [y]).map metaOf),
                                         head := some (recsSize (y.2.recs.take (n - ny + 1))), endLive := n } := by
  have hn0 : 0 < n := by have := I.ha; omega
  have hrec' : RecsFrom n a d := recsFrom_change_e _ n d a I.all_clean I.hrec
  have hend := I.hend
  obtain ⟨P, D, T, y, ny, hd, _, hTdead, hny, hnye, hey, _, _, _⟩ :=
    open_ok L.maxSeg 1 n i0 a d (by omega) hn0 I.hi I.hseg hrec' hn1 (by omega)
  have hd' : d = ((P ++ D) ++ [y]) ++ T := by rw [hd]; simp
  refine ⟨P ++ D, T, y, ny, hd', hTdead, hny, hnye, hey, ?_⟩
  have hymem : y ∈ d := by rw [hd']; simp
  have hyids : IdsFrom ny y.2.recs := by
    have := (recsFrom_append n (P ++ D) (y :: T) a (by rw [hd] at hrec'; simpa using hrec') (by simp)).2.2.1
    rw [hny]; exact this
  -- the loop
  have hymin : (metaOf y).min ≤ n := by
    obtain ⟨r, hr, hrid⟩ := idsFrom_get y.2.recs ny n hyids hnye hey
    have := (I.meta_bounds y hymem r hr).1
    omega
  have hTmin : ∀ x ∈ (T.map metaOf).reverse, n < x.min := by
    intro m hm
    rw [List.mem_reverse] at hm
    obtain ⟨x, hx, rfl⟩ := List.mem_map.mp hm
    obtain ⟨_, ⟨r, hr, hrid⟩⟩ := I.meta_has x (by rw [hd']; simp [hx])
    have := hTdead r (by simp only [flatRecs, List.mem_flatMap]; exact ⟨x, hx, hr⟩)
    omega
  have hsegsrev : L.segs.reverse = (T.map metaOf).reverse ++ metaOf y :: ((P ++ D).map metaOf).reverse := by
    rw [I.hsegs, hd']; simp
  have hloop : pruneRecentLoop n L.segs.reverse =
      (metaOf y :: ((P ++ D).map metaOf).reverse, ((T.map metaOf).reverse).map (·.id)) := by
    rw [hsegsrev]; exact pruneRecentLoop_spec n _ _ _ hTmin hymin
  have hsegs' : (metaOf y :: ((P ++ D).map metaOf).reverse).reverse = (P ++ D).map metaOf ++ [metaOf y] := by simp
  have heffs1 : (((T.map metaOf).reverse).map (·.id)).map FsEff.unlink = T.reverse.map (fun x => FsEff.unlink x.1) := by
    simp [metaOf, Function.comp_def, List.map_reverse]
  have hd1 : applyEffs d (T.reverse.map (fun x => FsEff.unlink x.1) ++ [FsEff.dirsync]) = (P ++ D) ++ [y] := by
    rw [applyEffs_append, hd', unlink_back i0 _ _ (hd' ▸ I.hseg)]
    rfl
  have hsegL : SegIdsFrom i0 ((P ++ D) ++ [y]) := ((segIdsFrom_append _ T _).mp (hd' ▸ I.hseg)).1
  have hlook : lookup ((P ++ D) ++ [y]) (metaOf y).id = some y.2 := lookup_last i0 (P ++ D) y hsegL
  have hm : n - ny + 1 ≤ y.2.recs.length := by omega
  have htr : truncateHead y.2 n = .ok (recsSize (y.2.recs.take (n - ny + 1))) := by
    have := findEnd_idsFrom y.2.recs ny n 0 hyids hnye (by omega)
    simp [truncateHead, scanRecordEnd, this]
  have hfinal : applyEffs ((P ++ D) ++ [y]) [FsEff.setLen (metaOf y).id (recsSize (y.2.recs.take (n - ny + 1))), .fsync (metaOf y).id]
      = liveDir (P ++ D) y (n - ny + 1) := by
    simp only [applyEffs, List.foldl_cons, List.foldl_nil, applyEff]
    have : (metaOf y).id = y.1 := rfl
    rw [this, updFile_last _ (P ++ D) y _ hsegL, setLen_at_boundary y.2 _ hm]
    rfl
  have hne : L.segs.isEmpty = false := by rw [I.hsegs, hd']; simp
  have hn0' : n ≠ 0 := by omega
  have hlast : ((P ++ D).map metaOf ++ [metaOf y]).getLast? = some (metaOf y) := by simp
  unfold pruneRecent
  simp only [hn0', if_false, hne, Bool.false_eq_true, hloop, hsegs', heffs1, hd1, hlast, hlook, htr, hfinal]
  simp [metaOf]

/-- **crash images of `prune_recent`** (issued after the meta holds `[s', n]`): after any prefix of its effects the
directory recovers under `[s', n]` to exactly the live records of that range -/
theorem pruneRecent_images (L : Log) (d : Dir) (i0 a n : Nat) (I : Inv L d i0 a) (hn1 : a ≤ n) (hn2 : n ≤ L.endLive)
    (s' : Nat) (hs' : 0 < s') (hsn : s' ≤ n) (k : Nat) :
    ∃ i0' a', Recoverable s' n i0' a' (applyEffs d ((pruneRecent L d n).effs.take k)) ∧
      liveOf s' n (applyEffs d ((pruneRecent L d n).effs.take k)) = liveOf s' n d := by
  obtain ⟨M, T, y, ny, hd, hTdead, hny, hnye, hey, heffs, _, _, _, _, _⟩ := pruneRecent_spec L d i0 a n I hn1 hn2
  rw [heffs]
  have hrec' : RecsFrom n a d := recsFrom_change_e _ n d a I.all_clean I.hrec
  have hend := I.hend
  have R : Recoverable s' n i0 a d := ⟨hs', hsn, I.hi, I.hseg, hrec', hn1, by omega⟩
  have hflatMy : (flatRecs (M ++ [y])).length = (flatRecs M).length + y.2.recs.length := by
    rw [flatRecs_append, List.length_append, flatRecs_single]
  have hnil : (flatRecs ([] : Dir)).length = 0 := rfl
  by_cases hk1 : k ≤ T.length
  · have htake : (T.reverse.map (fun x => FsEff.unlink x.1) ++ [FsEff.dirsync] ++
        [FsEff.setLen y.1 (recsSize (y.2.recs.take (n - ny + 1))), FsEff.fsync y.1]).take k
        = ((T.drop (T.length - k)).reverse).map (fun x => FsEff.unlink x.1) := by
      rw [List.append_assoc, List.take_append_of_le_length (by simpa using hk1), ← List.map_take, List.take_reverse]
    rw [htake]
    have hT : T = T.take (T.length - k) ++ T.drop (T.length - k) := (List.take_append_drop _ _).symm
    have hd3 : d = ((M ++ [y]) ++ T.take (T.length - k)) ++ T.drop (T.length - k) := by
      rw [hd]; conv => lhs; rw [hT]
      simp only [List.append_assoc]
    have himg : applyEffs d (((T.drop (T.length - k)).reverse).map (fun x => FsEff.unlink x.1))
        = (M ++ [y]) ++ T.take (T.length - k) := by
      rw [hd3]; exact unlink_back i0 _ _ (hd3 ▸ I.hseg)
    rw [himg]
    obtain ⟨R', hl⟩ := trim s' n i0 a d [] ((M ++ [y]) ++ T.take (T.length - k)) (T.drop (T.length - k)) R
      (by rw [hd3]; simp) (by intro r hr; cases hr) (fun r hr => hTdead r (mem_flatRecs_drop T _ r hr))
      (by omega) (by rw [flatRecs_append, List.length_append, hflatMy]; omega)
    exact ⟨_, _, R', hl⟩
  · have hlenE : (T.reverse.map (fun x => FsEff.unlink x.1)).length = T.length := by simp
    have himg1 : applyEffs d (T.reverse.map (fun x => FsEff.unlink x.1)) = M ++ [y] := by
      rw [hd]; exact unlink_back i0 _ _ (hd ▸ I.hseg)
    obtain ⟨R1, hl1⟩ := trim s' n i0 a d [] (M ++ [y]) T R (by rw [hd]; simp) (by intro r hr; cases hr) hTdead
      (by omega) (by rw [hflatMy]; omega)
    by_cases hk2 : k = T.length + 1
    · have htake : (T.reverse.map (fun x => FsEff.unlink x.1) ++ [FsEff.dirsync] ++
          [FsEff.setLen y.1 (recsSize (y.2.recs.take (n - ny + 1))), FsEff.fsync y.1]).take k
          = T.reverse.map (fun x => FsEff.unlink x.1) ++ [FsEff.dirsync] := by
        rw [List.take_append_of_le_length (by simp; omega), List.take_of_length_le (by simp; omega)]
      rw [htake, applyEffs_append, himg1]
      exact ⟨_, _, R1, hl1⟩
    · have hk3 : T.length + 2 ≤ k := by omega
      have himgeq : applyEffs d ((T.reverse.map (fun x => FsEff.unlink x.1) ++ [FsEff.dirsync] ++
          [FsEff.setLen y.1 (recsSize (y.2.recs.take (n - ny + 1))), FsEff.fsync y.1]).take k)
          = liveDir M y (n - ny + 1) := by
        have hlenE2 : (T.reverse.map (fun x => FsEff.unlink x.1) ++ [FsEff.dirsync]).length = T.length + 1 := by simp
        rw [List.take_append, List.take_of_length_le (by rw [hlenE2]; omega), hlenE2, applyEffs_append, applyEffs_append, himg1]
        have hsegL : SegIdsFrom i0 (M ++ [y]) := ((segIdsFrom_append _ T _).mp (hd ▸ I.hseg)).1
        have hm : n - ny + 1 ≤ y.2.recs.length := by omega
        have hset : applyEff (M ++ [y]) (FsEff.setLen y.1 (recsSize (y.2.recs.take (n - ny + 1)))) = liveDir M y (n - ny + 1) := by
          simp only [applyEff]
          rw [updFile_last _ M y _ hsegL, setLen_at_boundary y.2 _ hm]
          rfl
        have hdsync : applyEffs (M ++ [y]) [FsEff.dirsync] = M ++ [y] := rfl
        rw [hdsync]
        obtain ⟨k3, hk3'⟩ : ∃ k3, k - (T.length + 1) = k3 + 1 := ⟨k - (T.length + 1) - 1, by omega⟩
        rw [hk3']
        cases k3 with
        | zero => simp [applyEffs, hset]
        | succ k3 =>
          have : ([FsEff.setLen y.1 (recsSize (y.2.recs.take (n - ny + 1))), FsEff.fsync y.1]).take (k3 + 1 + 1)
              = [FsEff.setLen y.1 (recsSize (y.2.recs.take (n - ny + 1))), FsEff.fsync y.1] := by simp
          rw [this]
          simp only [applyEffs, List.foldl_cons, List.foldl_nil, hset]
          rfl
      rw [himgeq]
      obtain ⟨R2, hl2⟩ := cutLast s' n (i0 + ([] : Dir).length) (a + (flatRecs ([] : Dir)).length) M y R1 (by omega)
      have hmeq : n - (a + (flatRecs ([] : Dir)).length + (flatRecs M).length) + 1 = n - ny + 1 := by omega
      rw [hmeq] at R2 hl2
      exact ⟨_, _, R2, by rw [hl2, hl1]⟩

/-! ## the empty live range -/

/-- `open(0, 0)`: nothing is scanned, every segment file is unlinked (oldest first), no record is returned — for any
directory with contiguous non-zero segment ids, whatever the files hold -/
theorem open_empty (maxSeg i0 : Nat) (d : Dir) (hi : 0 < i0) (hseg : SegIdsFrom i0 d) :
    openM maxSeg 0 0 d = ⟨[], d.map (fun x => FsEff.unlink x.1), .ok (⟨maxSeg, 0, 0, [], none⟩, [])⟩ := by
  have hsort : sortById d = d := sortById_of_from d i0 hseg
  have hchk : checkIds none (d.map (·.1)) = .ok () := checkIds_from d i0 none hi hseg (Or.inl rfl)
  have heffs : (d.map (fun c => (⟨c.1, 0, 0⟩ : SegMeta))).map (fun m => FsEff.unlink m.id) = d.map (fun x => FsEff.unlink x.1) := by
    simp [Function.comp_def]
  have hdir : applyEffs d (d.map (fun x => FsEff.unlink x.1)) = [] := by
    have := unlink_front i0 d [] (by simpa using hseg)
    simpa using this
  have hrange : ¬ ((0 = 0) ≠ (0 = 0)) := by simp
  unfold openM openWith
  rw [if_neg hrange]
  simp only [hsort, hchk, if_true, splitLive, heffs, hdir]
  simp

/-- every prefix of that clean-up leaves a directory on which `open(0, 0)` succeeds again -/
theorem open_empty_images (maxSeg i0 : Nat) (d : Dir) (hi : 0 < i0) (hseg : SegIdsFrom i0 d) (k : Nat) :
    (openM maxSeg 0 0 (applyEffs d ((openM maxSeg 0 0 d).effs.take k))).out = .ok (⟨maxSeg, 0, 0, [], none⟩, []) := by
  rw [open_empty maxSeg i0 d hi hseg]
  simp only
  have htake : (d.map (fun x => FsEff.unlink x.1)).take k = (d.take k).map (fun x => FsEff.unlink x.1) := by
    rw [List.map_take]
  have hd2 : d = d.take k ++ d.drop k := (List.take_append_drop k d).symm
  have himg : applyEffs d ((d.take k).map (fun x => FsEff.unlink x.1)) = d.drop k := by
    conv => lhs; arg 1; rw [hd2]
    exact unlink_front i0 _ _ (hd2 ▸ hseg)
  rw [htake, himg]
  have hseg2 : SegIdsFrom (i0 + (d.take k).length) (d.drop k) := ((segIdsFrom_append _ _ i0).mp (hd2 ▸ hseg)).2
  rw [open_empty maxSeg _ (d.drop k) (by omega) hseg2]

end Nomt.Seg
