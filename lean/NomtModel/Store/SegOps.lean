import NomtModel.Store.SegRecover
/-!
# `append`: refinement and crash images

`Inv L d i0 a`: the in-memory `SegmentedLog` `L` describes the directory `d` (segment ids `i0, i0+1, …`, records
`a … L.endLive` consecutive over non-empty files without torn tail, `segments` = the files' (id, min, max), the head
writer's `file_size` = the size of the last file).  `withTail` are the images an interrupted `append` can leave.
-/
namespace Nomt.Seg

structure Inv (L : Log) (d : Dir) (i0 a : Nat) : Prop where
  hi : 0 < i0
  hseg : SegIdsFrom i0 d
  hrec : RecsFrom L.endLive a d
  hclean : ∀ x ∈ d, x.2.torn = none ∧ x.2.recs ≠ []
  hne : d ≠ []
  ha : 0 < a
  hend : a + (flatRecs d).length = L.endLive + 1
  hstart : 0 < L.startLive ∧ L.startLive ≤ L.endLive
  hsegs : L.segs = d.map metaOf
  hhead : L.head = d.getLast?.map (·.2.size)
  hid32 : i0 + d.length < U32

/-- the base files, then file `hid` holding `recs0` and the first `k` bytes of `r` -/
def withTail (base : Dir) (hid : Nat) (recs0 : List Rec) (r : Rec) (k : Nat) : Dir :=
  base ++ [(hid, if k = 0 then ⟨recs0, none⟩ else if k < r.size then ⟨recs0, some (r, k)⟩ else ⟨recs0 ++ [r], none⟩)]

theorem recsFrom_replace_last (e : Nat) : ∀ (base : Dir) (x x' : Nat × SegFile) (nx : Nat),
    RecsFrom e nx (base ++ [x]) → IdsFrom (nx + (flatRecs base).length) x'.2.recs →
    TornOK e (nx + (flatRecs base).length + x'.2.recs.length) x'.2.torn → RecsFrom e nx (base ++ [x'])
  | [], x, x', nx, _, h1, h2 => by
    simp only [flatRecs, List.flatMap_nil, List.length_nil, Nat.add_zero] at h1 h2
    exact ⟨h1, by simp, h2, trivial⟩
  | b :: base, x, x', nx, h, h1, h2 => by
    obtain ⟨g1, g2, g3, g4⟩ := h
    have hl : nx + (flatRecs (b :: base)).length = nx + b.2.recs.length + (flatRecs base).length := by
      simp only [flatRecs, List.flatMap_cons, List.length_append]; omega
    rw [hl] at h1 h2
    exact ⟨g1, fun _ => g2 (by simp), g3, recsFrom_replace_last e base x x' _ g4 h1 h2⟩

theorem zeroFill_full (r : Rec) : zeroFill r (HDR + r.payload.length) = r := by
  simp [zeroFill]

/-- a directory whose records end at `e` stays recoverable with the same live records when the first `k` bytes
(`k = 0` or at least the header) of the record `e + 1` follow in its last file -/
theorem withTail_recoverable (s e i0 a : Nat) (base : Dir) (hid : Nat) (recs0 : List Rec) (r : Rec) (k : Nat)
    (R : Recoverable s e i0 a (base ++ [(hid, ⟨recs0, none⟩)]))
    (hend : a + (flatRecs (base ++ [(hid, ⟨recs0, none⟩)])).length = e + 1) (hr : r.id = e + 1)
    (hk : k = 0 ∨ HDR ≤ k) :
    Recoverable s e i0 a (withTail base hid recs0 r k) ∧
      liveOf s e (withTail base hid recs0 r k) = liveOf s e (base ++ [(hid, ⟨recs0, none⟩)]) := by
  have hlen : (flatRecs (base ++ [(hid, (⟨recs0, none⟩ : SegFile))])).length = (flatRecs base).length + recs0.length := by
    rw [flatRecs_append, List.length_append, flatRecs_single]
  rw [hlen] at hend
  have hseg : ∀ f : SegFile, SegIdsFrom i0 (base ++ [(hid, f)]) := by
    intro f
    have := R.hseg
    rw [segIdsFrom_append] at this ⊢
    exact ⟨this.1, this.2.1, trivial⟩
  have hids0 : IdsFrom (a + (flatRecs base).length) recs0 := (recsFrom_append e base [_] a R.hrec (by simp)).2.2.1
  have hb := R.heb
  rw [hlen] at hb
  unfold withTail
  by_cases hk0 : k = 0
  · simp only [hk0, if_true]
    exact ⟨R, trivial⟩
  · have hk12 : HDR ≤ k := by rcases hk with h | h; exact absurd h hk0; exact h
    simp only [hk0, if_false]
    by_cases hks : k < r.size
    · simp only [hks, if_true]
      refine ⟨⟨R.hs, R.hse, R.hi, hseg _, ?_, R.hae, ?_⟩, ?_⟩
      · exact recsFrom_replace_last e base _ (hid, ⟨recs0, some (r, k)⟩) a R.hrec hids0
          ⟨by rw [hr]; simp only []; omega, by rw [hr]; omega, hk12, hks⟩
      · rw [flatRecs_append, List.length_append, flatRecs_single]; omega
      · simp only [liveOf, flatRecs_append, flatRecs_single]
    · simp only [hks, if_false]
      have hids1 : IdsFrom (a + (flatRecs base).length) (recs0 ++ [r]) := by
        rw [idsFrom_append]; exact ⟨hids0, by rw [hr]; omega, trivial⟩
      refine ⟨⟨R.hs, R.hse, R.hi, hseg _, ?_, R.hae, ?_⟩, ?_⟩
      · exact recsFrom_replace_last e base _ (hid, ⟨recs0 ++ [r], none⟩) a R.hrec hids1 trivial
      · rw [flatRecs_append, List.length_append, flatRecs_single]; simp only [List.length_append]; omega
      · simp only [liveOf, flatRecs_append, flatRecs_single, List.filter_append]
        have : [r].filter (live s e) = [] := filter_live_nil_gt s e [r] (by intro x hx; simp at hx; rw [hx, hr]; omega)
        rw [this, List.append_nil]

/-! ## the file being appended to -/

def tailFile (recs0 : List Rec) (r : Rec) (k : Nat) : SegFile :=
  if k = 0 then ⟨recs0, none⟩ else if k < r.size then ⟨recs0, some (r, k)⟩ else ⟨recs0 ++ [r], none⟩

theorem withTail_eq (base : Dir) (hid : Nat) (recs0 : List Rec) (r : Rec) (k : Nat) :
    withTail base hid recs0 r k = base ++ [(hid, tailFile recs0 r k)] := rfl

theorem tailFile_write (recs0 : List Rec) (r : Rec) (j k : Nat) (hj : j < r.size) :
    (tailFile recs0 r j).writeTail r k = tailFile recs0 r k := by
  unfold tailFile SegFile.writeTail
  by_cases hj0 : j = 0 <;> by_cases hk0 : k = 0 <;> by_cases hks : k < r.size <;> simp [hj0, hk0, hks, hj]

theorem cutRecs_beyond : ∀ (rs : List Rec) (m : Nat), 0 < m → cutRecs rs (recsSize rs + m) = (rs, .inr m)
  | [], m, hm => by
    have : m ≠ 0 := by omega
    simp [cutRecs, recsSize, this]
  | r :: rs, m, hm => by
    have hp := r.size_pos
    have h1 : r.size + recsSize rs + m ≠ 0 := by omega
    have h2 : ¬ r.size + recsSize rs + m < r.size := by omega
    have h3 : r.size + recsSize rs + m - r.size = recsSize rs + m := by omega
    have h4 : r.size ≠ 0 := by omega
    simp [cutRecs, recsSize, h1, h2, h3, h4, cutRecs_beyond rs m hm]

theorem cutRecs_inside : ∀ (rs : List Rec) (r : Rec) (m : Nat), 0 < m → m < r.size →
    cutRecs (rs ++ [r]) (recsSize rs + m) = (rs, .inl (some (r, m)))
  | [], r, m, hm, hlt => by
    have : m ≠ 0 := by omega
    simp [cutRecs, recsSize, this, hlt]
  | x :: rs, r, m, hm, hlt => by
    have hp := x.size_pos
    have h1 : x.size + recsSize rs + m ≠ 0 := by omega
    have h2 : ¬ x.size + recsSize rs + m < x.size := by omega
    have h3 : x.size + recsSize rs + m - x.size = recsSize rs + m := by omega
    have h4 : x.size ≠ 0 := by omega
    simp [cutRecs, recsSize, h1, h2, h3, h4, cutRecs_inside rs r m hm hlt]

/-- cutting the file at `m` bytes into the record being appended -/
theorem tailFile_cut (recs0 : List Rec) (r : Rec) (j m : Nat) (hm : m ≤ j) (hj : j ≤ r.size) :
    (tailFile recs0 r j).setLen (recsSize recs0 + m) = tailFile recs0 r m := by
  have hsz := r.size_pos
  by_cases hm0 : m = 0
  · subst hm0
    have hb : ∀ (f : SegFile), f.recs = recs0 ∨ f.recs = recs0 ++ [r] →
        f.setLen (recsSize recs0) = ⟨recs0, none⟩ := by
      intro f hf
      rcases hf with hf | hf
      · have := setLen_at_boundary f recs0.length (by rw [hf]; exact Nat.le_refl _)
        rw [hf, List.take_length] at this
        rw [this]
      · have := setLen_at_boundary f recs0.length (by rw [hf]; simp)
        rw [hf, List.take_left' rfl] at this
        rw [this]
    simp only [Nat.add_zero]
    rw [hb]
    · simp [tailFile]
    · unfold tailFile; split
      · left; rfl
      · split
        · left; rfl
        · right; rfl
  · have hmpos : 0 < m := by omega
    have hj0 : j ≠ 0 := by omega
    by_cases hjs : j < r.size
    · have hms : m < r.size := by omega
      simp only [tailFile, hj0, hjs, hm0, hms, if_true, if_false, SegFile.setLen, cutRecs_beyond recs0 m hmpos, hm]
    · have hjeq : j = r.size := by omega
      by_cases hms : m < r.size
      · simp only [tailFile, hj0, hjs, hm0, hms, if_true, if_false, SegFile.setLen, cutRecs_inside recs0 r m hmpos hms]
      · have hmeq : m = r.size := by omega
        have := setLen_at_boundary ⟨recs0 ++ [r], none⟩ (recs0.length + 1) (by simp)
        have htk : (recs0 ++ [r]).take (recs0.length + 1) = recs0 ++ [r] := List.take_of_length_le (by simp)
        simp only [htk, recsSize_append] at this
        simp only [recsSize, Nat.add_zero] at this
        have hs0 : r.size ≠ 0 := by omega
        subst hmeq
        simp only [tailFile, hj0, hjs, hs0, Nat.lt_irrefl, if_false, this]

/-- the padding `set_len` completes the record -/
theorem tailFile_pad (recs0 : List Rec) (r : Rec) :
    (tailFile recs0 r (HDR + r.payload.length)).setLen (recsSize recs0 + r.size) = tailFile recs0 r r.size := by
  have hsz := r.size_pos
  have hge := r.size_ge
  by_cases hlt : HDR + r.payload.length < r.size
  · have h0 : HDR + r.payload.length ≠ 0 := by unfold HDR; omega
    have hs0 : r.size ≠ 0 := by omega
    have hnle : ¬ r.size ≤ HDR + r.payload.length := by omega
    have hk : HDR ≤ HDR + r.payload.length := by omega
    simp only [tailFile, h0, hlt, hs0, Nat.lt_irrefl, if_true, if_false, SegFile.setLen, cutRecs_beyond recs0 r.size hsz,
      hnle, hk, and_self, zeroFill_full]
  · have heq : HDR + r.payload.length = r.size := by omega
    rw [heq]
    exact tailFile_cut recs0 r r.size r.size (Nat.le_refl _) (Nat.le_refl _)

theorem applyEff_write_last (i : Nat) (base : Dir) (hid : Nat) (f : SegFile) (r : Rec) (k : Nat)
    (h : SegIdsFrom i (base ++ [(hid, f)])) :
    applyEff (base ++ [(hid, f)]) (.write hid r k) = base ++ [(hid, f.writeTail r k)] :=
  updFile_last i base (hid, f) (fun f => f.writeTail r k) h

theorem applyEff_setLen_last (i : Nat) (base : Dir) (hid : Nat) (f : SegFile) (n : Nat)
    (h : SegIdsFrom i (base ++ [(hid, f)])) :
    applyEff (base ++ [(hid, f)]) (.setLen hid n) = base ++ [(hid, f.setLen n)] :=
  updFile_last i base (hid, f) (fun f => f.setLen n) h

/-! ## the effects of `append` and their prefixes -/

def appendEffs (hid sz : Nat) (r : Rec) : List FsEff :=
  [.write hid r HDR, .write hid r (HDR + r.payload.length), .setLen hid (sz + r.size), .fsync hid]

theorem tailFile_zero (recs0 : List Rec) (r : Rec) : tailFile recs0 r 0 = ⟨recs0, none⟩ := by simp [tailFile]

/-- every prefix of the writes of an append leaves the first `j` bytes of the record (`j` = 0, 12, 12 + len or the
whole record) -/
theorem appendEffs_images (i : Nat) (base : Dir) (hid : Nat) (recs0 : List Rec) (r : Rec)
    (hseg : ∀ f, SegIdsFrom i (base ++ [(hid, f)])) (k : Nat) :
    ∃ j, j ≤ r.size ∧ (j = 0 ∨ HDR ≤ j) ∧ (3 ≤ k → j = r.size) ∧
      applyEffs (base ++ [(hid, ⟨recs0, none⟩)]) ((appendEffs hid (recsSize recs0) r).take k) = withTail base hid recs0 r j := by
  have hlt := r.hdr_lt_size
  have hge := r.size_ge
  have e0 : base ++ [(hid, (⟨recs0, none⟩ : SegFile))] = withTail base hid recs0 r 0 := by
    rw [withTail_eq, tailFile_zero]
  have e1 : applyEff (withTail base hid recs0 r 0) (.write hid r HDR) = withTail base hid recs0 r HDR := by
    rw [withTail_eq, applyEff_write_last i _ _ _ _ _ (hseg _), tailFile_write _ _ _ _ r.size_pos]; rfl
  have e2 : applyEff (withTail base hid recs0 r HDR) (.write hid r (HDR + r.payload.length)) =
      withTail base hid recs0 r (HDR + r.payload.length) := by
    rw [withTail_eq, applyEff_write_last i _ _ _ _ _ (hseg _), tailFile_write _ _ _ _ hlt]; rfl
  have e3 : applyEff (withTail base hid recs0 r (HDR + r.payload.length)) (.setLen hid (recsSize recs0 + r.size)) =
      withTail base hid recs0 r r.size := by
    rw [withTail_eq, applyEff_setLen_last i _ _ _ _ (hseg _), tailFile_pad]; rfl
  rcases k with _ | _ | _ | _ | k
  · exact ⟨0, by omega, Or.inl rfl, by omega, by simp [applyEffs, e0]⟩
  · exact ⟨HDR, by omega, Or.inr (Nat.le_refl _), by omega, by simp [applyEffs, appendEffs, e0, e1]⟩
  · exact ⟨HDR + r.payload.length, hge, Or.inr (by omega), by omega, by simp [applyEffs, appendEffs, e0, e1, e2]⟩
  · exact ⟨r.size, Nat.le_refl _, Or.inr (by omega), fun _ => rfl, by simp [applyEffs, appendEffs, e0, e1, e2, e3]⟩
  · refine ⟨r.size, Nat.le_refl _, Or.inr (by omega), fun _ => rfl, ?_⟩
    have : (appendEffs hid (recsSize recs0) r).take (k + 1 + 1 + 1 + 1) = appendEffs hid (recsSize recs0) r := by
      simp [appendEffs]
    rw [this]
    have e4 : ∀ X : Dir, applyEff X (.fsync hid) = X := fun _ => rfl
    simp only [applyEffs, appendEffs, List.foldl_cons, List.foldl_nil, e0, e1, e2, e3, e4]

/-- a torn tail: the file cut anywhere inside what the append has written so far -/
theorem withTail_cut (i : Nat) (base : Dir) (hid : Nat) (recs0 : List Rec) (r : Rec)
    (hseg : ∀ f, SegIdsFrom i (base ++ [(hid, f)])) (j m : Nat) (hm : m ≤ j) (hj : j ≤ r.size) :
    applyEff (withTail base hid recs0 r j) (.setLen hid (recsSize recs0 + m)) = withTail base hid recs0 r m := by
  rw [withTail_eq, applyEff_setLen_last i _ _ _ _ (hseg _), tailFile_cut _ _ _ _ hm hj]; rfl

end Nomt.Seg
