import NomtModel.Store.PushChunkBase
/-!
# `BranchNode::set_prefix` — what it writes, inside and OUTSIDE the contract of `bitwise_memcpy`

`set_prefix` hands `bitwise_memcpy` the whole 32-byte key as source whatever `prefix_len` is, i.e. four source chunks
where `⌈prefix_len / 64⌉` are needed: outside the contract (`MemcpyGuard`) whenever `0 < prefix_len ≤ 192`
(`Props/C16_BitOps.lean`, `T16_set_prefix_outside_contract`).  Here the mirror of `bitwise_memcpy` is followed through
that case as well (no shift, the loop leaves by its `break` before the last source chunk, every chunk written is a
whole key word): no panic, the `prefix_len` prefix bits arrive, and only the `round_up_8(⌈prefix_len / 8⌉)` bytes of the
destination slice change.
-/
namespace Nomt.BitOps

theorem bitOf_toBE_word (l : List Nat) (hl : Bytes l) (o q : Nat) (hq : q < 64) :
    bitOf (toBE (word l o)) q = bitOf l (8 * o + q) := by
  unfold bitOf
  rw [testBit_toBE _ _ _ (by omega), testBit_word _ hl]
  have h1 : 7 - q % 8 < 8 := by omega
  have h2 : 8 * (7 - q / 8) + (7 - q % 8) < 64 := by omega
  have e : 63 - (8 * (7 - q / 8) + (7 - q % 8)) = q := by omega
  simp only [h1, h2, decide_true, Bool.true_and, e]
  rfl

/-- one iteration of the chunk loop: no shift, both bit offsets 0, not the last source chunk — the whole source word
is stored -/
theorem chunkStep_plain (dst src : List Nat) (len btw ci : Nat) (hsrc : Bytes src) (hsl : src.length = 32) (hci : ci < 3)
    (hd : ci * 8 + 8 ≤ dst.length) :
    chunkStep 0 src 0 len .none 4 btw ci { dst := dst, doff := ci * 8, prev := none } =
      some ({ dst := writeAt dst (ci * 8) (toBE (word src (ci * 8))), doff := ci * 8 + 8, prev := none },
            decide (btw ≤ ci * 8 + 8)) := by
  have hw := word_lt src hsrc (ci * 8)
  have hmin : min 8 (dst.length - ci * 8) = 8 := by omega
  have htake : (toBE (word src (ci * 8))).take 8 = toBE (word src (ci * 8)) := List.take_of_length_le (by rw [length_toBE]; omega)
  have hand : word src (ci * 8) &&& (2 ^ 64 - 1) = word src (ci * 8) := by
    rw [Nat.and_two_pow_sub_one_eq_mod, Nat.mod_eq_of_lt hw]
  have hxor : M64 ^^^ (2 ^ 64 - 1) = 0 := by decide
  unfold chunkStep
  simp only [currRemainder, Option.bind_some]
  rw [if_pos (by omega), Option.bind_some]
  by_cases h0 : ci = 0
  · subst h0
    have hm : chunkMasks 0 0 len 4 0 = some (some (2 ^ 64 - 1, 2 ^ 64 - 1)) := by
      unfold chunkMasks
      rw [if_pos rfl, firstChunkMask_eq 0 (by omega)]
      simp
    rw [hm, Option.bind_some]
    simp only [shiftedChunk, hand, hxor, Nat.and_zero, Nat.or_zero, Option.map_some, Option.bind_some, fixRemainders,
      hmin, htake]
  · have hm : chunkMasks 0 0 len 4 ci = some none := by
      unfold chunkMasks
      rw [if_neg h0, Option.bind_some, if_neg (by omega)]
    rw [hm, Option.bind_some]
    simp only [shiftedChunk, Option.map_some, Option.bind_some, fixRemainders, hmin, htake]

/-- the loop of `set_prefix` outside the contract: `m ≤ 3` whole key words are stored, then `break` -/
theorem chunkLoop_plain (src : List Nat) (len btw m : Nat) (hsrc : Bytes src) (hsl : src.length = 32) (hm : m ≤ 3)
    (hb1 : btw ≤ 8 * m) (hb0 : 8 * (m - 1) < btw) :
    ∀ (r ci : Nat) (dst : List Nat), ci + r = m → 1 ≤ r → dst.length = 8 * m → Bytes dst →
      ∃ dst', chunkLoop 0 src 0 len .none 4 btw (4 - ci) ci { dst := dst, doff := ci * 8, prev := none } =
          some { dst := dst', doff := m * 8, prev := none } ∧
        dst'.length = dst.length ∧ Bytes dst' ∧
        (∀ p, 64 * ci ≤ p → p < 64 * m → bitOf dst' p = bitOf src p) ∧
        (∀ p, p < 64 * ci → bitOf dst' p = bitOf dst p) := by
  intro r
  induction r with
  | zero => intro ci dst _ h; omega
  | succ r ih =>
    intro ci dst hcr _ hdl hdB
    have hfuel : 4 - ci = (3 - ci) + 1 := by omega
    have hstep := chunkStep_plain dst src len btw ci hsrc hsl (by omega) (by omega)
    have hwl : (writeAt dst (ci * 8) (toBE (word src (ci * 8)))).length = dst.length :=
      length_writeAt _ _ _ (by rw [length_toBE]; omega)
    have hwB : Bytes (writeAt dst (ci * 8) (toBE (word src (ci * 8)))) := bytes_writeAt hdB (bytes_toBE _) _
    have hbits : ∀ p, bitOf (writeAt dst (ci * 8) (toBE (word src (ci * 8)))) p =
        if 64 * ci ≤ p ∧ p < 64 * ci + 64 then bitOf src p else bitOf dst p := by
      intro p
      rw [bitOf_writeAt _ _ _ _ (by omega), length_toBE]
      by_cases h1 : p < 8 * (ci * 8)
      · rw [if_pos h1, if_neg (by omega)]
      · rw [if_neg h1]
        by_cases h2 : p < 8 * (ci * 8 + 8)
        · rw [if_pos h2, if_pos (by omega), bitOf_toBE_word _ hsrc _ _ (by omega)]
          congr 1; omega
        · rw [if_neg h2, if_neg (by omega)]
    rw [hfuel]
    unfold chunkLoop
    rw [hstep, Option.bind_some]
    by_cases hr : r = 0
    · subst hr
      have : decide (btw ≤ ci * 8 + 8) = true := by simp; omega
      simp only [this, if_true]
      refine ⟨_, by rw [show ci * 8 + 8 = m * 8 by omega], hwl, hwB, ?_, ?_⟩
      · intro p h1 h2; rw [hbits, if_pos (by omega)]
      · intro p h1; rw [hbits, if_neg (by omega)]
    · have : decide (btw ≤ ci * 8 + 8) = false := by simp; omega
      simp only [this, Bool.false_eq_true, if_false]
      obtain ⟨dst', a1, a2, a3, a4, a5⟩ := ih (ci + 1) _ (by omega) (by omega) (by rw [hwl]; exact hdl) hwB
      have e1 : 4 - (ci + 1) = 3 - ci := by omega
      have e2 : (ci + 1) * 8 = ci * 8 + 8 := by omega
      rw [e1, e2] at a1
      refine ⟨dst', a1, by rw [a2, hwl], a3, ?_, ?_⟩
      · intro p h1 h2
        by_cases h3 : 64 * (ci + 1) ≤ p
        · exact a4 p h3 h2
        · rw [a5 p (by omega), hbits, if_pos (by omega)]
      · intro p h1; rw [a5 p (by omega), hbits, if_neg (by omega)]

/-- `bitwise_memcpy(dst, 0, key, 0, pl)` with the whole key as source and `dst` of `round_up_8(⌈pl / 8⌉)` bytes -/
theorem memcpy_prefix (dst key : List Nat) (pl : Nat) (hd : Bytes dst) (hk : Bytes key) (hkl : key.length = 32) (hpl : pl ≤ 256)
    (hdl : dst.length = ((pl + 7) / 8 + 7) / 8 * 8) :
    ∃ out, bitwiseMemcpy dst 0 key 0 pl = some out ∧ out.length = dst.length ∧ Bytes out ∧
      ∀ p, p < pl → bitOf out p = bitOf key p := by
  by_cases h0 : pl = 0
  · subst h0
    exact ⟨dst, by simp [bitwiseMemcpy], rfl, hd, fun p hp => by omega⟩
  · by_cases h192 : 192 < pl
    · have g : MemcpyGuard dst.length 0 key.length 0 pl := by
        right; rw [hkl, hdl]; refine ⟨by omega, by omega, by omega, by omega⟩
      refine ⟨_, bitwiseMemcpy_spec hd hk g, length_memcpySpec _ _ _ _ _, bytes_memcpySpec _ _ _ _ _, ?_⟩
      intro p hp
      unfold memcpySpec
      rw [bitOf_bytesOfBits _ _ _ (by rw [hdl]; omega)]
      unfold memcpyBit
      rw [if_pos (by omega)]
      congr 1; omega
    · have hm3 : (pl + 63) / 64 ≤ 3 := by omega
      obtain ⟨dst', a1, a2, a3, a4, _⟩ := chunkLoop_plain key pl ((0 + pl + 7) / 8) ((pl + 63) / 64) hk hkl hm3 (by omega) (by omega)
        ((pl + 63) / 64) 0 dst (by omega) (by omega) (by rw [hdl]; omega) hd
      refine ⟨dst', ?_, a2, a3, fun p hp => a4 p (by omega) (by omega)⟩
      unfold bitwiseMemcpy
      rw [if_neg h0]
      simp only [hkl, shiftOf, if_true]
      have e : (32 : Nat) / 8 = 4 := rfl
      rw [e]
      have a1' := a1
      simp only [Nat.sub_zero, Nat.zero_mul] at a1'
      rw [a1', Option.bind_some]
      unfold finalByte
      simp only []
      rw [if_neg (by omega)]

/-- **`set_prefix(key)`** on a page whose header says `n`, `pl`: no panic, the `pl` prefix bits arrive, nothing outside
the destination slice `[10 + 2n, 10 + 2n + round_up_8(⌈pl / 8⌉))` changes -/
theorem setPrefix_spec (pg key : List Nat) (n pc pl : Nat) (cell : Nat → Nat) (L : Lay pg n pc pl cell 0) (hk : Bytes key)
    (hkl : key.length = 32) (hpl : pl ≤ 256) (hroom : 10 + n * 2 + ((pl + 7) / 8 + 7) / 8 * 8 ≤ 4096) :
    ∃ pg', setPrefix pg key = some pg' ∧ pg'.length = pg.length ∧ Bytes pg' ∧
      (∀ p, p < pl → bitOf pg' (8 * (10 + n * 2) + p) = bitOf key p) ∧
      (∀ i, (i < 10 + n * 2 ∨ 10 + n * 2 + ((pl + 7) / 8 + 7) / 8 * 8 ≤ i) → pg'.getD i 0 = pg.getD i 0) := by
  have hr : 10 + n * 2 + ((pl + 7) / 8 + 7) / 8 * 8 ≤ pg.length := by rw [L.len]; exact hroom
  have hsl := length_slice pg (10 + n * 2) (((pl + 7) / 8 + 7) / 8 * 8) hr
  obtain ⟨out, a1, a2, a3, a4⟩ := memcpy_prefix ((pg.drop (10 + n * 2)).take (((pl + 7) / 8 + 7) / 8 * 8)) key pl
    (bytes_slice L.bytes _ _) hk hkl hpl hsl
  have hol : out.length = ((pl + 7) / 8 + 7) / 8 * 8 := by rw [a2, hsl]
  refine ⟨writeAt pg (10 + n * 2) out, ?_, length_writeAt _ _ _ (by rw [hol]; exact hr), bytes_writeAt L.bytes a3 _, ?_, ?_⟩
  · unfold setPrefix
    simp only [L.hn, L.hpl, Option.bind_some, BRANCH_HEADER]
    rw [sliceOf_eq _ _ _ hr, Option.bind_some, a1, Option.map_some]
  · intro p hp
    rw [bitOf_writeAt _ _ _ _ (by omega), if_neg (by omega), if_pos (by rw [hol]; omega)]
    have e : 8 * (10 + n * 2) + p - 8 * (10 + n * 2) = p := by omega
    rw [e, a4 p hp]
  · intro i hi
    rw [getD_writeAt _ _ _ _ (by omega), hol]
    rcases hi with hi | hi
    · rw [if_pos hi]
    · rw [if_neg (by omega), if_neg (by omega)]

end Nomt.BitOps
