import NomtModel.Store.SyncGenInv4
/-!
# The abstraction of a run of the sync choreography writes the meta page

`absTrace` (`Store/TraceOrderSim.lean`) turns the lines of a real trace into events of the concurrent disk machine.  For
every word of the generated language it has the shape `cpre ++ effBegin id (setMeta _) :: crest` the bridge theorems
T4.8 / T4.8b ask for (`hsplit`): `Meta::write` is part of every execution.
-/
namespace Nomt.Store.SyncGen
open Nomt.Store NomtDisk

theorem orderRun_prefix_ok (a b : List IoEv2) (st st' : OrderSt) (id : Nat) (h : orderRun st id (a ++ b) = .ok st') :
    ∃ st1, orderRun st id a = .ok st1 := by
  rw [orderRun_append] at h
  cases hr : orderRun st id a with
  | error e => rw [hr] at h; cases h
  | ok st1 => exact ⟨st1, rfl⟩

/-- every execution passes `Meta::write`: its first line is in the trace -/
theorem steps_meta_line (V : Variant) (P : Params) : ∀ (tr : List IoEv2) (s s' : PSt),
    Steps V P s tr s' → s.m = 0 → 0 < s'.m →
    ∃ t1 t2, tr = t1 ++ ⟨true, ev "Write" "meta" 0 P.metaLen "meta.write", P.tMain⟩ :: t2 := by
  intro tr
  induction tr with
  | nil => intro s s' hs h0 h1; cases hs; omega
  | cons l rest ih =>
    intro s s' hs h0 h1
    cases hs with
    | cons _ s1 _ _ _ hstep r =>
      by_cases hm : s1.m = 0
      · obtain ⟨t1, t2, ht⟩ := ih s1 s' r hm h1
        exact ⟨l :: t1, t2, by rw [ht]; rfl⟩
      · -- the step was the first line of `Meta::write`
        cases hstep with
        | wal l hl => exact absurd h0 hm
        | btBegin i o th ho hx => exact absurd h0 hm
        | btEnd i o th ho hx => exact absurd h0 hm
        | fsLn l hl hg => exact absurd h0 hm
        | fsBbn l hl hg => exact absurd h0 hm
        | htBegin i o ho hx hm' => exact absurd h0 hm
        | htEnd i o th ho hx => exact absurd h0 hm
        | tail l hl hm' hg => exact absurd h0 hm
        | prune l hl hm' => exact absurd h0 hm
        | metaW l hl hg =>
          rw [h0] at hl
          rcases meta_cases P 0 l hl with ⟨_, rfl⟩ | ⟨h, _⟩ | ⟨h, _⟩ | ⟨h, _⟩
          · exact ⟨[], rest, rfl⟩
          · omega
          · omega
          · omega

section abs
variable {Content MetaRec WalRec LogRec : Type} (C : Contents Content MetaRec WalRec)

theorem absTrace_split (a : List IoEv2) (l : IoEv2) (b : List IoEv2) : ∀ (st st' : OrderSt) (id : Nat),
    orderRun st id (a ++ l :: b) = .ok st' →
    ∃ st1 rest, orderRun st id a = .ok st1 ∧
      absTrace (LogRec := LogRec) C st id (a ++ l :: b) =
        absTrace C st id a ++ (absLine C st1 (id + a.length) l ++ rest) := by
  induction a with
  | nil =>
    intro st st' id h
    simp only [List.nil_append, orderRun] at h
    cases hs : orderStep st id l with
    | error e => rw [hs] at h; cases h
    | ok st1 =>
      refine ⟨st, absTrace C st1 (id + 1) b, rfl, ?_⟩
      simp [absTrace, hs]
  | cons x a ih =>
    intro st st' id h
    simp only [List.cons_append, orderRun] at h
    cases hs : orderStep st id x with
    | error e => rw [hs] at h; cases h
    | ok st0 =>
      rw [hs] at h
      obtain ⟨st1, rest, hr, habs⟩ := ih st0 st' (id + 1) h
      refine ⟨st1, rest, by simp only [orderRun, hs]; exact hr, ?_⟩
      simp only [List.cons_append, absTrace, hs, habs, List.append_assoc]
      have : id + 1 + a.length = id + (x :: a).length := by simp; omega
      rw [this]

theorem absLine_metaBegin (st : OrderSt) (id : Nat) (n : Nat) (site th : String) :
    absLine (LogRec := LogRec) C st id ⟨true, ev "Write" "meta" 0 n site, th⟩ = [CEv.effBegin id (.setMeta (C.mt id))] := by
  simp [absLine, ev, isDataKind, absEff]

/-- **`hsplit` holds for every word of the generated language** -/
theorem sync_abs_writes_meta (P : Params) (hwf : P.WF) (tr : List IoEv2) (h : OpLang real P tr) :
    ∃ cpre id crest, absTrace (LogRec := LogRec) C {} 0 tr = cpre ++ CEv.effBegin id (.setMeta (C.mt id)) :: crest := by
  obtain ⟨st, hacc, _⟩ := sync_accepted P hwf tr h
  obtain ⟨tr', s, rfl, hs, hfin⟩ := h
  have hm4 : s.m = 4 := hfin.2.2.2.2.1
  obtain ⟨t1, t2, ht⟩ := steps_meta_line real P tr' (init P) s hs rfl (by omega)
  have hrun : ∃ st', orderRun {} 0 ((appendLines real P ++ t1) ++
      ⟨true, ev "Write" "meta" 0 P.metaLen "meta.write", P.tMain⟩ :: t2) = .ok st' := by
    unfold checkOrder at hacc
    rw [ht, ← List.append_assoc] at hacc
    cases hr : orderRun {} 0 ((appendLines real P ++ t1) ++ ⟨true, ev "Write" "meta" 0 P.metaLen "meta.write", P.tMain⟩ :: t2) with
    | error e => rw [hr] at hacc; cases hacc
    | ok st' => exact ⟨st', rfl⟩
  obtain ⟨st', hr⟩ := hrun
  obtain ⟨st1, rest, _, habs⟩ := absTrace_split (LogRec := LogRec) C _ _ _ {} st' 0 hr
  refine ⟨absTrace C {} 0 (appendLines real P ++ t1), 0 + (appendLines real P ++ t1).length, rest, ?_⟩
  rw [ht, ← List.append_assoc, habs, absLine_metaBegin]
  rfl

end abs

end Nomt.Store.SyncGen
