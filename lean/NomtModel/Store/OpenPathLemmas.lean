import NomtModel.Store.OpenPath
import NomtModel.Store.ImgMerkleAddr
/-!
# Lemmas about the open-path mirror (`Store/OpenPath.lean`)
-/
namespace Nomt.OpenPath
open Nomt Nomt.Store Nomt.Ovl

/-! ## `Meta` -/

/-- `decodeMeta ∘ encode_to` with ANY bytes after the 64 (the rest of the page) -/
theorem meta_rt_suffix (m : Meta) (h : m.WF) (r : List UInt8) :
    decodeMeta (encodeMetaL m ++ r).toByteArray = some m := by
  obtain ⟨h1,h2,h3,h4,h5,h6,h7,h8,h9,h10,h11,h12⟩ := h
  have hs : ¬ (encodeMetaL m ++ r).toByteArray.size < 64 := by
    simp [encodeMetaL, le64, le32, le16, List.size_toByteArray]
  simp only [decodeMeta, META_SIZE, hs, if_false, Option.some.injEq]
  cases m
  simp only [Meta.mk.injEq]
  simp only [encodeMetaL, u64le, u32le, u16le, u8_toByteArray, le64, le32, le16, List.cons_append, List.nil_append,
    List.getD_cons_succ, List.getD_cons_zero, UInt8.toNat_ofNat']
  simp at *
  omega

theorem encodeMetaL_length (m : Meta) : (encodeMetaL m).length = 64 := by
  simp [encodeMetaL, le64, le32, le16]

theorem metaPage_size (m : Meta) : (metaPage m).size = PAGE := by
  simp only [metaPage, pagePad, List.size_toByteArray, List.length_append, List.length_replicate, encodeMetaL_length]
  rfl

theorem metaRead_of (file : ByteArray) (m : Meta) (hsz : PAGE ≤ file.size) (hd : decodeMeta file = some m) :
    metaRead file = .ok m := by
  unfold metaRead
  have : ¬ file.size < PAGE := by omega
  simp only [this, if_false, hd]

/-- `Meta::read` of the page `Meta::write` wrote -/
theorem metaRead_metaPage (m : Meta) (h : m.WF) : metaRead (metaPage m) = .ok m :=
  metaRead_of _ m (by rw [metaPage_size]; exact Nat.le_refl _) (meta_rt_suffix m h pagePad)

/-- `Meta::read` never panics; it fails exactly on a file shorter than a page -/
theorem metaRead_total (file : ByteArray) :
    (file.size < PAGE ∧ ∃ e, metaRead file = .err e) ∨ (PAGE ≤ file.size ∧ ∃ m, metaRead file = .ok m) := by
  unfold metaRead
  by_cases h : file.size < PAGE
  · exact .inl ⟨h, "meta: failed to fill whole buffer", by simp [h]⟩
  · refine .inr ⟨by omega, ?_⟩
    have : ¬ file.size < META_SIZE := by unfold PAGE at h; unfold META_SIZE; omega
    simp only [h, if_false, decodeMeta, this]
    exact ⟨_, rfl⟩

/-- what `Meta::validate` checks — and nothing else -/
theorem validateErrs_nil_iff (m : Meta) :
    validateErrs m = [] ↔ m.magic = MAGIC ∧ m.version = VERSION ∧ (m.rollbackStartLive = 0 ↔ m.rollbackEndLive = 0) := by
  unfold validateErrs VERSION
  simp only [List.append_eq_nil_iff]
  constructor
  · rintro ⟨⟨a, b⟩, c⟩
    refine ⟨?_, ?_, ?_⟩
    · by_cases h : m.magic = MAGIC
      · exact h
      · simp [h] at a
    · by_cases h2 : m.version < 1
      · simp [h2] at b
      · by_cases h3 : m.version > 1
        · simp [h2, h3] at b
        · omega
    · by_cases h4 : m.rollbackStartLive = 0 <;> by_cases h5 : m.rollbackEndLive = 0 <;> simp [h4, h5] at c ⊢
  · rintro ⟨a, b, c⟩
    refine ⟨⟨by simp [a], by simp [b]⟩, ?_⟩
    have : ((m.rollbackStartLive == 0) != (m.rollbackEndLive == 0)) = false := by
      cases hb4 : (m.rollbackStartLive == 0) <;> cases hb5 : (m.rollbackEndLive == 0) <;> simp_all
    simp [this]

theorem validate_ok_iff (m : Meta) :
    validate m = .ok () ↔ m.magic = MAGIC ∧ m.version = VERSION ∧ (m.rollbackStartLive = 0 ↔ m.rollbackEndLive = 0) := by
  rw [← validateErrs_nil_iff]
  unfold validate
  by_cases h : validateErrs m = [] <;> simp [h]

theorem validate_no_panic (m : Meta) : ∀ s, validate m ≠ .panic s := by
  intro s; unfold validate; split <;> simp

/-- the manifests a store writes: `MAGIC`, `VERSION`, a live range that is nil or not nil as a whole (`create_new`,
and `Sync::sync` which copies magic / version and takes the range from `rollback.begin_sync()` or `(0, 0)`) -/
def StoreMeta (m : Meta) : Prop :=
  m.WF ∧ m.magic = MAGIC ∧ m.version = VERSION ∧ (m.rollbackStartLive = 0 ↔ m.rollbackEndLive = 0)

theorem createNew_storeMeta (s0 s1 n : Nat) (h0 : s0 < 2 ^ 64) (h1 : s1 < 2 ^ 64) (hn : n < 2 ^ 32) :
    StoreMeta (createNew s0 s1 n) := by
  refine ⟨?_, rfl, rfl, by simp [createNew]⟩
  simp only [Meta.WF, createNew, MAGIC, VERSION]
  omega

/-! ## `ht_file` -/

theorem genfn_num_meta (n : Nat) (h : n < 2 ^ 32 - 4095) : GenFn.num_meta_byte_pages n = some ((n + 4095) / 4096) := by
  unfold GenFn.num_meta_byte_pages
  have : n + 4095 < 4294967296 := by omega
  simp [this]

theorem genfn_num_meta_none (n : Nat) (h : 2 ^ 32 - 4095 ≤ n) : GenFn.num_meta_byte_pages n = none := by
  unfold GenFn.num_meta_byte_pages
  have : ¬ n + 4095 < 4294967296 := by omega
  simp [this]

/-- the bucket counts for which no `u32` sum of `ht_file.rs` overflows -/
def PagesOK (n : Nat) : Prop := (n + 4095) / 4096 + n < 2 ^ 32

instance (n : Nat) : Decidable (PagesOK n) := by unfold PagesOK; infer_instance

theorem pagesOK_lt (n : Nat) (h : PagesOK n) : n < 2 ^ 32 - 4095 := by unfold PagesOK at h; omega

theorem genfn_expected (n : Nat) (h : PagesOK n) : GenFn.expected_file_len n = some (((n + 4095) / 4096 + n) * 4096) := by
  unfold GenFn.expected_file_len
  rw [genfn_num_meta n (pagesOK_lt n h)]
  unfold PagesOK at h
  have h1 : (n + 4095) / 4096 + n < 4294967296 := by omega
  have h2 : ((n + 4095) / 4096 + n) * 4096 < 18446744073709551616 := by omega
  simp [h1, h2]

theorem genfn_expected_none (n : Nat) (h : ¬ PagesOK n) : GenFn.expected_file_len n = none := by
  unfold GenFn.expected_file_len
  by_cases h0 : n < 2 ^ 32 - 4095
  · rw [genfn_num_meta n h0]
    unfold PagesOK at h
    have h1 : ¬ (n + 4095) / 4096 + n < 4294967296 := by omega
    simp [h1]
  · rw [genfn_num_meta_none n (by omega)]

/-- **`ht_file::open` decided**: in a debug build it panics iff a `u32` sum overflows (`num_pages` above
`2^32 − 2^20 − 1`); otherwise it succeeds iff the file has exactly `(⌈n/4096⌉ + n) · 4096` bytes -/
theorem htOpenCore_dbg (n len : Nat) :
    htOpenCore true n len =
      if PagesOK n then
        (if len = ((n + 4095) / 4096 + n) * 4096 then (Outcome.ok ((n + 4095) / 4096) : Outcome String Nat)
         else Outcome.err "Store corrupted; unexpected file length")
      else Outcome.panic "expected_file_len: attempt to add with overflow" := by
  unfold htOpenCore expectedFileLen numMetaBytePagesU32
  by_cases h : PagesOK n
  · simp only [h, if_true, genfn_expected n h, genfn_num_meta n (pagesOK_lt n h)]
    by_cases hl : len = ((n + 4095) / 4096 + n) * 4096
    · have : ¬ len < (n + 4095) / 4096 * PAGE := by unfold PAGE; omega
      subst hl
      simp [this]
    · simp [hl]
  · simp only [h, if_false, genfn_expected_none n h]
    rfl

/-- a release build never panics in `ht_file::open` -/
theorem htOpenCore_release_no_panic (n len : Nat) : ∀ s, htOpenCore false n len ≠ .panic s := by
  intro s
  unfold htOpenCore expectedFileLen numMetaBytePagesU32
  simp only [Bool.false_eq_true, if_false]
  split <;> simp
  split <;> simp

/-- the file `ht_file::create` lays out is the file `ht_file::open` accepts -/
theorem htCreate_then_open (dbg : Bool) (n : Nat) (h : PagesOK n) :
    htCreateLen dbg n = .ok (((n + 4095) / 4096 + n) * 4096) ∧
    htOpenCore dbg n (((n + 4095) / 4096 + n) * 4096) = .ok ((n + 4095) / 4096) := by
  have hlt := pagesOK_lt n h
  have hP := h
  unfold PagesOK at h
  have e1 : (n + 4095) % 2 ^ 32 = n + 4095 := Nat.mod_eq_of_lt (by omega)
  have e2 : ((n + 4095) / 4096 + n) % 2 ^ 32 = (n + 4095) / 4096 + n := Nat.mod_eq_of_lt (by omega)
  have e3 : (n + (n + 4095) / 4096) % 2 ^ 32 = (n + 4095) / 4096 + n := by rw [Nat.add_comm]; exact e2
  cases dbg with
  | true =>
    refine ⟨?_, ?_⟩
    · unfold htCreateLen numMetaBytePagesU32
      have : ¬ n + (n + 4095) / 4096 ≥ 2 ^ 32 := by omega
      simp only [if_true, genfn_num_meta n hlt, Bool.true_and, decide_eq_true_eq, this, if_false, e3, PAGE]
    · rw [htOpenCore_dbg]; simp [hP]
  | false =>
    refine ⟨?_, ?_⟩
    · unfold htCreateLen numMetaBytePagesU32
      simp only [Bool.false_eq_true, if_false, Bool.false_and, e1, e3, PAGE]
    · unfold htOpenCore expectedFileLen numMetaBytePagesU32
      simp only [Bool.false_eq_true, if_false, e1, e2]
      have : ¬ ((n + 4095) / 4096 + n) * 4096 < (n + 4095) / 4096 * PAGE := by unfold PAGE; omega
      simp [this]

/-! ## `compute_root_node` -/

variable {Node VH B : Type} [DecidableEq Node]

theorem bitsLt_replicate_false : ∀ (k : Key) (n : Nat), n ≤ k.length → bitsLt k (List.replicate n false) = false := by
  intro k
  induction k with
  | nil => intro n h; cases n with | zero => rfl | succ n => simp at h
  | cons a as ih =>
    intro n h
    cases n with
    | zero => rfl
    | succ n =>
      simp only [List.replicate_succ, bitsLt]
      cases a with
      | false => simp only [beq_self_eq_true, if_true]; exact ih n (by simpa using h)
      | true => simp

/-- the loop returns the leaf of the iterator's first item, or the terminator if there is none; the fuel is never
the answer -/
theorem rootLoop_spec (H : Hasher Node VH) (vf : Stored VH B → VH) (fuel : Nat) (it : BtIt (Stored VH B)) (inv : BtInv it)
    (hf : it.measure < fuel) :
    rootLoop H vf fuel it = .ok (match it.spec with | [] => H.term | e :: _ => H.leaf e.1 (vf e.2)) := by
  induction fuel generalizing it with
  | zero => omega
  | succ fuel ih =>
    unfold rootLoop
    have h := next_spec inv
    generalize it.next = r at h
    cases h with
    | fin hs => simp [hs]
    | @item it' k v i1 hs hm => simp [hs]
    | @blocked it' i1 hs hm hst =>
      obtain ⟨lf, hp, hl, hstream, hmeas, hstop⟩ := provide_spec i1.leaf hst
      have hne : it'.leaf.pending ≠ [] := by
        have := i1.leaf
        unfold LInv at this
        rw [hst] at this
        exact this.1
      simp only
      cases hpend : it'.leaf.pending with
      | nil => exact absurd hpend hne
      | cons l rest =>
        simp only [hp]
        have i2 : BtInv { it' with leaf := lf } := ⟨hl, i1.sp, i1.ss, fun e he => hstop ▸ i1.inr e he⟩
        rw [ih { it' with leaf := lf } i2 (by simp only [BtIt.measure] at hm hf ⊢; omega)]
        have : ({ it' with leaf := lf } : BtIt (Stored VH B)).spec = it.spec := by
          rw [← hs]
          show kvApply lf.stream it'.mem.stream = kvApply it'.leaf.stream it'.mem.stream
          rw [hstream]
        rw [this]

/-- the B-tree as `compute_root_node` meets it: the leaves in order (`LeavesOK`), the first separator not above the
all-zero key, 256-bit keys -/
structure TreeOK (leaves : List (Leaf (Stored VH B))) : Prop where
  ok : LeavesOK leaves
  first : ∀ l ∈ leaves.head?, bitsLt zeroKey l.sep = false
  klen : ∀ e ∈ flat leaves, e.1.length = 256

theorem newIt_inv (leaves : List (Leaf (Stored VH B))) (h : TreeOK leaves) :
    BtInv (BtIt.new [] [] leaves zeroKey none) ∧ (BtIt.new [] [] leaves zeroKey none).spec = flat leaves := by
  obtain ⟨li, lstop, lstream⟩ := leafNew_spec h.ok zeroKey none h.first
  have hleaf : (BtIt.new ([] : List (Key × Option (Stored VH B))) [] leaves zeroKey none).leaf =
      LeafIt.new leaves zeroKey none := rfl
  have hmem : (BtIt.new ([] : List (Key × Option (Stored VH B))) [] leaves zeroKey none).mem =
      { primary := [], secondary := [] } := rfl
  refine ⟨⟨by rw [hleaf]; exact li, by rw [hmem]; exact List.Pairwise.nil, by rw [hmem]; exact List.Pairwise.nil, ?_⟩, ?_⟩
  · intro e he
    rw [hmem] at he
    simp [Staging.stream, smerge] at he
  · show kvApply (BtIt.new [] [] leaves zeroKey none).leaf.stream (BtIt.new [] [] leaves zeroKey none).mem.stream = _
    rw [hleaf, lstream, hmem]
    have : (Staging.stream ({ primary := [], secondary := [] } : Staging (Stored VH B))) = [] := by
      simp [Staging.stream, smerge]
    rw [this]
    show List.filter _ (flat leaves) = flat leaves
    apply List.filter_eq_self.2
    intro e he
    simp only [inRange, Bool.and_true, Bool.not_eq_true']
    exact bitsLt_replicate_false e.1 256 (by rw [h.klen e he]; exact Nat.le_refl _)

theorem newIt_measure (leaves : List (Leaf (Stored VH B))) :
    (BtIt.new ([] : List (Key × Option (Stored VH B))) [] leaves zeroKey none).measure ≤
      (leaves.map (fun l => l.entries.length + 1)).sum := by
  show (rangeOf [] zeroKey none).length + (rangeOf [] zeroKey none).length + (LeafIt.new leaves zeroKey none).measure ≤ _
  simp only [rangeOf, List.filter_nil, List.length_nil, Nat.zero_add]
  unfold LeafIt.new
  cases leaves with
  | nil => simp [LeafIt.measure]
  | cons a as =>
    simp only
    split
    · simp [LeafIt.measure]
    · simp only [LeafIt.measure]
      have hsub : ∀ (l : List (Leaf (Stored VH B))) (s : Key),
          ((dropToStart l s).map (fun l => l.entries.length + 1)).sum ≤ (l.map (fun l => l.entries.length + 1)).sum := by
        intro l
        induction l with
        | nil => intro s; simp [dropToStart]
        | cons x xs ih =>
          intro s
          cases xs with
          | nil => simp [dropToStart]
          | cons y ys =>
            unfold dropToStart
            split
            · have := ih s; simp only [List.map_cons, List.sum_cons] at this ⊢; omega
            · exact Nat.le_refl _
      have := hsub (a :: as) zeroKey
      simpa using this

/-- cases 1 / 2 of `compute_root_node` -/
theorem cases12_spec (H : Hasher Node VH) (vf : Stored VH B → VH) (leaves : List (Leaf (Stored VH B))) (h : TreeOK leaves) :
    rootLoop H vf (2 * (leaves.map (fun l => l.entries.length + 1)).sum + 2) (BtIt.new [] [] leaves zeroKey none) =
      .ok (match flat leaves with | [] => H.term | e :: _ => H.leaf e.1 (vf e.2)) := by
  obtain ⟨inv, hspec⟩ := newIt_inv leaves h
  rw [rootLoop_spec H vf _ _ inv (by have := newIt_measure leaves; omega), hspec]

theorem nodeAt_ne_term (H : Hasher Node VH) (hs : H.Sound) (fuel d : Nat) (T : KVL VH) (hne : T ≠ []) :
    nodeAt H fuel d T ≠ H.term := by
  intro he
  have hk : H.kind (nodeAt H fuel d T) = .terminator := by rw [he]; exact hs.kind_term
  match fuel, T, hne with
  | _, [(k, v)], _ => simp only [nodeAt] at hk; rw [hs.kind_leaf] at hk; cases hk
  | 0, (k, v) :: x :: xs, _ => simp only [nodeAt] at hk; rw [hs.kind_leaf] at hk; cases hk
  | fuel + 1, (k, v) :: x :: xs, _ =>
    rw [nodeAt] at hk
    · rw [hs.kind_internal] at hk; cases hk
    · intro h; cases h
    · intro k v h; cases h

theorem side_length (d : Nat) (T : KVL VH) : (side d false T).length + (side d true T).length = T.length := by
  unfold side
  induction T with
  | nil => rfl
  | cons x xs ih =>
    rw [List.filter_cons, List.filter_cons]
    cases hx : x.1.getD d false
    · rw [if_pos (by decide : (false == false) = true), if_neg (by decide : ¬ (false == true) = true)]
      simp only [List.length_cons]; omega
    · rw [if_neg (by decide : ¬ (true == false) = true), if_pos (by decide : (true == true) = true)]
      simp only [List.length_cons]; omega

theorem nodeAt_two (H : Hasher Node VH) (fuel d : Nat) (T : KVL VH) (h2 : 2 ≤ T.length) :
    nodeAt H (fuel + 1) d T = H.internal (nodeAt H fuel (d + 1) (side d false T)) (nodeAt H fuel (d + 1) (side d true T)) := by
  match T, h2 with
  | a :: b :: t, _ =>
    rw [nodeAt]
    · intro h; cases h
    · intro k v h; cases h

/-- **`compute_root_node` = `nodeAt`** under the invariant `RootInv` -/
theorem computeRootNode_spec (H : Hasher Node VH) (hs : H.Sound) (hv : B → VH) (rootPage : Option (Node × Node))
    (leaves : List (Leaf (Stored VH B))) (ht : TreeOK leaves) (hr : RootInv H (trieSet hv (flat leaves)) rootPage) :
    computeRootNode {} H hv rootPage leaves = .ok (nodeAt H 256 0 (trieSet hv (flat leaves))) := by
  obtain ⟨hbig, hsmall⟩ := hr
  by_cases h2 : 2 ≤ (trieSet hv (flat leaves)).length
  · rw [hbig h2, nodeAt_two H 255 0 _ h2]
    unfold computeRootNode
    simp only
    have hsum := side_length 0 (trieSet hv (flat leaves))
    have hor : nodeAt H 255 1 (side 0 false (trieSet hv (flat leaves))) ≠ H.term ∨
        (true = true ∧ nodeAt H 255 1 (side 0 true (trieSet hv (flat leaves))) ≠ H.term) := by
      by_cases hl : side 0 false (trieSet hv (flat leaves)) = []
      · right
        refine ⟨rfl, nodeAt_ne_term H hs _ _ _ ?_⟩
        intro hr'; rw [hl, hr'] at hsum; simp at hsum; omega
      · exact .inl (nodeAt_ne_term H hs _ _ _ hl)
    rw [if_pos (hor.imp id (fun h => ⟨trivial, h.2⟩))]
  · have hle : (trieSet hv (flat leaves)).length ≤ 1 := by omega
    have hc := cases12_spec H (vhOf hv) leaves ht
    have hroot : (match flat leaves with | [] => H.term | e :: _ => H.leaf e.1 (vhOf hv e.2)) =
        nodeAt H 256 0 (trieSet hv (flat leaves)) := by
      cases hf : flat leaves with
      | nil => simp [trieSet, nodeAt]
      | cons e rest =>
        cases rest with
        | nil => simp [trieSet, nodeAt]
        | cons e2 r2 => rw [hf] at hle; simp [trieSet] at hle
    rw [hroot] at hc
    unfold computeRootNode
    rcases hsmall hle with hn | hn
    · rw [hn]; simp only [Bool.false_eq_true, if_false]; exact hc
    · rw [hn]
      have : ¬ (H.term ≠ H.term ∨ (True ∧ H.term ≠ H.term)) := by
        intro h; rcases h with h | h
        · exact h rfl
        · exact h.2 rfl
      simp only
      rw [if_neg this]
      exact hc

/-- the invariant is the clause of the image monitor: for the root page `checkPage` compares slot 0 / 1 with exactly
these two reference nodes (`pageChecks`, `Store/ImgMerkleAddr.lean`), and `walkPages` demands the root page iff the
set has two or more keys -/
theorem rootInv_is_monitor_clause (s : List KVH) :
    (0, nodeAt blakeHasher 255 1 (side 0 false s)) ∈ pageChecks [] s ∧
    (1, nodeAt blakeHasher 255 1 (side 0 true s)) ∈ pageChecks [] s := by
  have a := pageChecks_mem [] s false [] (by simp) (by simp) (by simp [Through])
  have b := pageChecks_mem [] s true [] (by simp) (by simp) (by simp [Through])
  simp only [List.length_nil, Nat.mul_zero, Nat.zero_add, List.length_cons, sidesAlong] at a b
  have e0 : TriePos.nodeIndexOf [false] = 0 := by decide
  have e1 : TriePos.nodeIndexOf [true] = 1 := by decide
  rw [e0] at a
  rw [e1] at b
  exact ⟨a, b⟩

/-! ## `Store::open` -/

variable {Tree Log : Type}

theorem lockPre_ok (d : Dir) : (∀ e ∈ lockPre d, e.mutatesDb = false) ∧ (∀ e ∈ lockPre d, ∀ c, e ≠ .flock c) := by
  unfold lockPre
  split
  · refine ⟨?_, ?_⟩ <;> intro e he <;> simp at he <;> rcases he with rfl | rfl | rfl <;> simp [Eff.mutatesDb]
  · refine ⟨?_, ?_⟩ <;> intro e he <;> simp at he <;> rcases he with rfl | rfl <;> simp [Eff.mutatesDb]

theorem lockPhase_trace (d : Dir) :
    ∃ b, (lockPhase d).2 = lockPre d ++ [Eff.flock b] ∧
      (b = false ↔ d.lockedByOther = true) ∧ (b = false → ∃ m, (lockPhase d).1 = .err m) ∧
      (b = true → ∃ c, (lockPhase d).1 = .ok c) := by
  by_cases hl : d.lockedByOther = true
  · refine ⟨false, by simp [lockPhase, hl], by simp [hl], fun _ => ⟨"Failed to lock directory", by simp [lockPhase, hl]⟩, ?_⟩
    intro h; cases h
  · have hl' : d.lockedByOther = false := by simpa using hl
    refine ⟨true, by simp [lockPhase, hl'], by simp [hl'], ?_, fun _ => ⟨!d.present || d.files.isEmpty, by simp [lockPhase, hl']⟩⟩
    intro h; cases h

/-- the trace of `Store::open` begins with the trace of the lock phase; a refused lock ends it -/
theorem storeOpen_trace (fl : OpenFlags) (dbg : Bool) (P : Parts Tree Log) (o : Options) (d : Dir) :
    ∃ rest, (storeOpen fl dbg P o d).2 = (lockPhase d).2 ++ rest ∧
      (d.lockedByOther = true → rest = [] ∧ ∃ m, (storeOpen fl dbg P o d).1 = .err m) := by
  unfold storeOpen
  simp only
  cases h1 : (lockPhase d).1 with
  | panic s => exact ⟨[], by simp, fun hl => by simp [lockPhase, hl] at h1⟩
  | err e => exact ⟨[], by simp, fun _ => ⟨rfl, e, rfl⟩⟩
  | ok c =>
    have hnl : ¬ d.lockedByOther = true := by
      intro hl; simp [lockPhase, hl] at h1
    simp only
    split
    · cases h2 : (createFiles dbg o d).1 with
      | panic s => exact ⟨_, rfl, fun hl => absurd hl hnl⟩
      | err e => exact ⟨_, rfl, fun hl => absurd hl hnl⟩
      | ok d' => exact ⟨_, by simp only [List.append_assoc]; rfl, fun hl => absurd hl hnl⟩
    · exact ⟨_, rfl, fun hl => absurd hl hnl⟩

/-- on an EXISTING directory (not empty) whose lock is free, `Store::open` is `openFiles` -/
theorem storeOpen_existing (fl : OpenFlags) (dbg : Bool) (P : Parts Tree Log) (o : Options) (d : Dir)
    (hp : d.present = true) (hne : d.files.isEmpty = false) (hl : d.lockedByOther = false) :
    (storeOpen fl dbg P o d).1 = (openFiles fl dbg P o d).1 := by
  unfold storeOpen
  simp only [lockPhase, hp, hne, hl, Bool.not_true, Bool.or_self, Bool.false_eq_true, if_false]

theorem htOpen_buckets (dbg : Bool) (n : Nat) (ht : ByteArray) (h : HtOpened) (e : htOpen dbg n ht = .ok h) :
    h.buckets = n := by
  unfold htOpen at e
  split at e
  · cases e
  · cases e
  · simp only [Outcome.ok.injEq] at e; rw [← e]

theorem dbOpen_buckets (dbg : Bool) (P : Parts Tree Log) (seqn n s0 s1 : Nat) (ht wal ht' : ByteArray) (h : HtOpened)
    (e : (dbOpen dbg P seqn n s0 s1 ht wal).1 = .ok (ht', h)) : h.buckets = n := by
  unfold dbOpen at e
  split at e
  · cases e
  · cases e
  · rename_i h0 hopen
    have hb := htOpen_buckets dbg n ht h0 hopen
    split at e
    · simp only at e
      split at e
      · simp only [Outcome.ok.injEq, Prod.mk.injEq] at e; rw [← e.2]; exact hb
      · cases e
      · cases e
    · simp only [Outcome.ok.injEq, Prod.mk.injEq] at e; rw [← e.2]; exact hb

/-- what `openFiles` returns on success, read off the manifest -/
theorem openFiles_ok (fl : OpenFlags) (dbg : Bool) (P : Parts Tree Log) (o : Options) (d : Dir)
    (r : Opened Tree Log) (h : (openFiles fl dbg P o d).1 = .ok r) :
    ∃ metaF m, d.get .manifest = some metaF ∧ metaRead metaF = .ok m ∧ validate m = .ok () ∧
      r.syncSeqn = m.syncSeqn ∧ r.syncNumPages = m.bitboxNumPages ∧
      r.syncSeed0 = (if fl.syncSeedFromOptions then o.seed0 else m.seed0) ∧
      r.syncSeed1 = (if fl.syncSeedFromOptions then o.seed1 else m.seed1) ∧
      r.bitboxSeed0 = m.seed0 ∧ r.bitboxSeed1 = m.seed1 ∧
      r.capacity = (if fl.numPagesFromOptions then o.bitboxNumPages else m.bitboxNumPages) ∧
      r.treeArgs = (m.lnFreelistPn, m.bbnFreelistPn, m.lnBump, m.bbnBump) ∧
      r.rollbackArgs = (if o.rollback then some (o.maxRollbackLogLen, m.rollbackStartLive, m.rollbackEndLive) else none) ∧
      r.panicOnSync = o.panicOnSync := by
  unfold openFiles at h
  simp only at h
  split at h
  · cases h
  rename_i metaF hm
  split at h
  · cases h
  split at h
  · cases h
  split at h
  · cases h
  rename_i htF _
  split at h
  · cases h
  split at h
  · cases h
  · cases h
  rename_i m hmr
  split at h
  · cases h
  · cases h
  rename_i u hval
  split at h
  · cases h
  · cases h
  split at h
  · cases h
  · cases h
  rename_i ht' hh hdb
  split at h
  · cases h
  · cases h
  rename_i log hrb
  simp only [Outcome.ok.injEq] at h
  subst h
  have hcap : hh.buckets = (if fl.numPagesFromOptions then o.bitboxNumPages else m.bitboxNumPages) :=
    dbOpen_buckets dbg P _ _ _ _ _ _ _ _ hdb
  exact ⟨metaF, m, hm, hmr, by cases u; exact hval, rfl, rfl, rfl, rfl, rfl, rfl, hcap, rfl, rfl, rfl⟩

end Nomt.OpenPath
