import NomtModel.Store.BtLookup
import NomtModel.Core.MultiFind
import NomtModel.Core.MultiAlign
/-!
The code-level read path (`Store/BtLookup.lean`) computes the specification: `find_key_pos` = the partition point
(with the two prefix shortcuts), `search_branch` / `partial_lookup` = `Store.findLeaf`, `LeafNode::get` = the first
entry with the key; none of them reaches a panic site or runs out of fuel on well-formed nodes.
-/
namespace Nomt.BtLookup
open Nomt Nomt.Store

/-- the number of leading separators below `key` (on an ascending list: the partition point) -/
def pp : List (Nat × Nat) → Nat → Nat
  | [], _ => 0
  | e :: r, key => if e.1 < key then pp r key + 1 else 0

theorem pp_le (l : List (Nat × Nat)) (key : Nat) : pp l key ≤ l.length := by
  induction l with
  | nil => simp [pp]
  | cons e r ih => simp only [pp]; split <;> simp <;> omega

theorem pp_lt : ∀ (l : List (Nat × Nat)) (key j : Nat), j < pp l key → ∃ e, l[j]? = some e ∧ e.1 < key
  | [], _, _, h => by simp [pp] at h
  | e :: r, key, j, h => by
    simp only [pp] at h
    split at h
    · rename_i he
      cases j with
      | zero => exact ⟨e, rfl, he⟩
      | succ j => simpa using pp_lt r key j (by omega)
    · omega

theorem pp_ge : ∀ (l : List (Nat × Nat)) (key j : Nat) (e : Nat × Nat), Asc l → pp l key ≤ j → l[j]? = some e → key ≤ e.1
  | [], _, _, _, _, _, h => by simp at h
  | x :: r, key, j, e, ha, hj, h => by
    obtain ⟨hx, hr⟩ := List.pairwise_cons.1 ha
    simp only [pp] at hj
    split at hj
    · cases j with
      | zero => omega
      | succ j => exact pp_ge r key j e hr (by omega) (by simpa using h)
    · rename_i hnot
      cases j with
      | zero => simp at h; subst h; omega
      | succ j =>
        have : e ∈ r := List.mem_of_getElem? (by simpa using h)
        have := hx e this
        omega

/-- what `find_key_pos` must answer -/
def fkpSpec (l : List (Nat × Nat)) (key : Nat) : Bool × Nat :=
  match l[pp l key]? with
  | some e => if e.1 = key then (true, pp l key) else (false, pp l key)
  | none => (false, pp l key)

theorem fkpLoop_spec (nd : BNode) (key : Nat) (ha : Asc nd.seps) : ∀ (fuel low high : Nat),
    high - low < fuel → low ≤ pp nd.seps key → pp nd.seps key ≤ high → high ≤ nd.seps.length →
    (∀ e, nd.seps[pp nd.seps key]? = some e → e.1 = key → pp nd.seps key < high) →
    fkpLoop nd key fuel low high = .ok (fkpSpec nd.seps key)
  | 0, _, _, h, _, _, _, _ => by omega
  | fuel + 1, low, high, hf, hlo, hhi, hn, hkey => by
    unfold fkpLoop
    by_cases hlh : low < high
    · simp only [hlh, if_true]
      have hmid : low + (high - low) / 2 < nd.seps.length := by omega
      obtain ⟨em, hem⟩ : ∃ em, nd.seps[low + (high - low) / 2]? = some em :=
        ⟨_, List.getElem?_eq_getElem hmid⟩
      rw [hem]
      obtain ⟨km, pm⟩ := em
      simp only
      by_cases heq : key = km
      · subst heq
        simp only [if_true]
        -- the partition point is `mid`
        have h1 : pp nd.seps key ≤ low + (high - low) / 2 := by
          apply Nat.le_of_not_lt
          intro hlt
          obtain ⟨e, he, hek⟩ := pp_lt nd.seps key _ hlt
          rw [hem] at he; injection he with he; subst he; simp only at hek; omega
        have h2 : low + (high - low) / 2 ≤ pp nd.seps key := by
          apply Nat.le_of_not_lt
          intro hlt
          have hpl : pp nd.seps key < nd.seps.length := by omega
          have hge := pp_ge nd.seps key _ _ ha (Nat.le_refl _) (List.getElem?_eq_getElem hpl)
          have := (List.pairwise_iff_getElem.1 ha) _ _ hpl hmid hlt
          have hm : nd.seps[low + (high - low) / 2] = (key, pm) := by
            have := List.getElem?_eq_getElem hmid; rw [this] at hem; injection hem
          rw [hm] at this; simp only at this; omega
        have hp : pp nd.seps key = low + (high - low) / 2 := by omega
        unfold fkpSpec
        rw [hp, hem]; simp
      · simp only [heq, if_false]
        by_cases hlt : key < km
        · simp only [hlt, if_true]
          have h1 : pp nd.seps key ≤ low + (high - low) / 2 := by
            apply Nat.le_of_not_lt
            intro hlt'
            obtain ⟨e, he, hek⟩ := pp_lt nd.seps key _ hlt'
            rw [hem] at he; injection he with he; subst he; simp only at hek; omega
          refine fkpLoop_spec nd key ha fuel low _ (by omega) hlo h1 (by omega) ?_
          intro e he hek
          by_cases hpm : pp nd.seps key = low + (high - low) / 2
          · rw [hpm, hem] at he; injection he with he; subst he; simp only at hek; omega
          · omega
        · simp only [hlt, if_false]
          have h1 : low + (high - low) / 2 < pp nd.seps key := by
            apply Nat.lt_of_not_le
            intro hle
            have := pp_ge nd.seps key _ _ ha hle hem
            simp only at this; omega
          exact fkpLoop_spec nd key ha fuel _ high (by omega) (by omega) hhi hn hkey
    · simp only [hlh, if_false]
      have hp : pp nd.seps key = high := by omega
      unfold fkpSpec
      cases he : nd.seps[pp nd.seps key]? with
      | none => simp [hp]
      | some e =>
        by_cases hek : e.1 = key
        · have := hkey e he hek; omega
        · simp [hek, hp]

theorem top_mono {a b : Nat} (h : a ≤ b) (n : Nat) : top a n ≤ top b n := Nat.div_le_div_right h

theorem lt_of_top_lt {a b n : Nat} (h : top a n < top b n) : a < b := by
  apply Nat.lt_of_not_le
  intro hle
  have := top_mono hle n
  omega

structure NodeWF (nd : BNode) : Prop where
  ne : nd.seps ≠ []
  asc : Asc nd.seps
  pl_le : nd.pl ≤ 256
  pc_pos : 1 ≤ nd.pc
  /-- the prefix-compressed separators carry the node's prefix -/
  share : ∀ i e, i < nd.pc → nd.seps[i]? = some e → top e.1 nd.pl = nd.pfx

/-- **`find_key_pos`** on a well-formed node: no panic, fuel suffices, the answer is `(true, i)` for the separator
equal to the key and `(false, partition point)` otherwise — through either prefix shortcut or the binary search -/
theorem findKeyPos_spec {nd : BNode} (h : NodeWF nd) (key : Nat) :
    findKeyPos nd key none = .ok (fkpSpec nd.seps key) := by
  unfold findKeyPos
  have hpl : ¬ nd.pl > 256 := by have := h.pl_le; omega
  simp only [hpl, if_false]
  obtain ⟨e0, r, hl⟩ : ∃ (e0 : Nat × Nat) (r : List (Nat × Nat)), nd.seps = e0 :: r := by
    cases hx : nd.seps with
    | nil => exact absurd hx h.ne
    | cons a b => exact ⟨a, b, rfl⟩
  have h0 : top e0.1 nd.pl = nd.pfx := h.share 0 e0 h.pc_pos (by rw [hl]; rfl)
  by_cases h1 : top key nd.pl < nd.pfx
  · simp only [h1, if_true]
    have hlt : key < e0.1 := lt_of_top_lt (by rw [h0]; exact h1)
    have hp : pp nd.seps key = 0 := by rw [hl]; simp only [pp]; split <;> omega
    unfold fkpSpec
    rw [hp, hl]
    have : ¬ e0.1 = key := by omega
    simp [this]
  · simp only [h1, if_false]
    by_cases h2 : nd.pfx < top key nd.pl ∧ nd.seps.length = nd.pc
    · simp only [h2, and_self, if_true]
      -- every separator is compressed, so every separator is below the key
      have hall : ∀ (j : Nat) (e : Nat × Nat), nd.seps[j]? = some e → e.1 < key := by
        intro j e he
        have hj : j < nd.seps.length := (List.getElem?_eq_some_iff.1 he).1
        have := h.share j e (by omega) he
        exact lt_of_top_lt (by rw [this]; exact h2.1)
      have hp : pp nd.seps key = nd.seps.length := by
        have : ∀ (l : List (Nat × Nat)), (∀ e ∈ l, e.1 < key) → pp l key = l.length := by
          intro l hl'
          induction l with
          | nil => rfl
          | cons x xs ih =>
            simp only [pp, hl' x (List.mem_cons_self ..), if_true, List.length_cons]
            rw [ih (fun e he => hl' e (List.mem_cons_of_mem _ he))]
        apply this
        intro e he
        obtain ⟨j, hj, hje⟩ := List.getElem_of_mem he
        exact hall j e (by rw [List.getElem?_eq_getElem hj, hje])
      unfold fkpSpec
      rw [hp]
      simp [← h2.2]
    · simp only [h2, if_false]
      simp only [Option.getD_none]
      exact fkpLoop_spec nd key h.asc _ 0 _ (by omega) (Nat.zero_le _) (pp_le _ _) (Nat.le_refl _)
        (fun e he _ => (List.getElem?_eq_some_iff.1 he).1)

/-- `findLeaf` in terms of the partition point -/
theorem findLeaf_pp : ∀ (l : List (Nat × Nat)) (key : Nat), Asc l →
    findLeaf l key =
      (match l[pp l key]? with
       | some e => if e.1 = key then some e.2 else (if pp l key = 0 then none else (l[pp l key - 1]?).map (·.2))
       | none => if pp l key = 0 then none else (l[pp l key - 1]?).map (·.2))
  | [], _, _ => by simp [findLeaf, pp]
  | e :: r, key, ha => by
    obtain ⟨he, hr⟩ := List.pairwise_cons.1 ha
    have ih := findLeaf_pp r key hr
    obtain ⟨s, pn⟩ := e
    simp only [findLeaf, pp]
    by_cases h1 : key < s
    · have : ¬ s < key := by omega
      have hne : ¬ s = key := by omega
      simp [h1, this, hne]
    · simp only [h1, if_false]
      by_cases h2 : s < key
      · simp only [h2, if_true, List.getElem?_cons_succ, Nat.add_one_ne_zero, if_false, Nat.add_sub_cancel]
        rw [ih]
        cases hx : r[pp r key]? with
        | some x =>
          simp only
          by_cases hxk : x.1 = key
          · simp [hxk]
          · simp only [hxk, if_false]
            by_cases hp0 : pp r key = 0
            · simp [hp0]
            · obtain ⟨m, hm⟩ : ∃ m, pp r key = m + 1 := ⟨pp r key - 1, by omega⟩
              have hml : m < r.length := by have := pp_le r key; omega
              simp [hm, List.getElem?_eq_getElem hml]
        | none =>
          simp only
          by_cases hp0 : pp r key = 0
          · simp [hp0]
          · obtain ⟨m, hm⟩ : ∃ m, pp r key = m + 1 := ⟨pp r key - 1, by omega⟩
            have hml : m < r.length := by have := pp_le r key; omega
            simp [hm, List.getElem?_eq_getElem hml]
      · have hs : s = key := by omega
        subst hs
        have hnone : findLeaf r s = none := by
          cases r with
          | nil => rfl
          | cons y ys =>
            obtain ⟨ys', yp⟩ := y
            have := he (ys', yp) (List.mem_cons_self ..)
            simp only at this
            simp [findLeaf, this]
        simp [h2, hnone]

/-- **`search_branch`** on a well-formed node: no panic; the leaf it returns is the one `findLeaf` (the specification
`T16_lookup` is stated with) selects, and the index it returns holds that leaf's pointer -/
theorem searchBranch_spec {nd : BNode} (h : NodeWF nd) (key : Nat) :
    ∃ r, searchBranch nd key = .ok r ∧ r.map (·.2) = findLeaf nd.seps key ∧
      ∀ i pn, r = some (i, pn) → ∃ s, nd.seps[i]? = some (s, pn) ∧ s ≤ key := by
  unfold searchBranch
  rw [findKeyPos_spec h key, findLeaf_pp nd.seps key h.asc]
  unfold fkpSpec
  have hple := pp_le nd.seps key
  cases hx : nd.seps[pp nd.seps key]? with
  | some e =>
    simp only
    by_cases hek : e.1 = key
    · simp only [hek, if_true, hx]
      obtain ⟨s, pn⟩ := e
      refine ⟨_, rfl, rfl, ?_⟩
      intro i pn' hr
      simp only [Option.some.injEq, Prod.mk.injEq] at hr
      obtain ⟨hi, hp⟩ := hr
      subst hi; subst hp
      exact ⟨s, hx, by simp only at hek; omega⟩
    · simp only [hek, if_false, Bool.false_eq_true]
      by_cases hp0 : pp nd.seps key = 0
      · simp only [hp0, if_true]
        exact ⟨none, rfl, rfl, fun _ _ hr => by cases hr⟩
      · simp only [hp0, if_false]
        have hml : pp nd.seps key - 1 < nd.seps.length := by omega
        obtain ⟨e', he'l, he'k⟩ := pp_lt nd.seps key (pp nd.seps key - 1) (by omega)
        rw [he'l]
        obtain ⟨s', pn'⟩ := e'
        refine ⟨_, rfl, rfl, ?_⟩
        intro i pn'' hr
        simp only [Option.some.injEq, Prod.mk.injEq] at hr
        obtain ⟨hi, hp⟩ := hr
        subst hi; subst hp
        exact ⟨s', he'l, by simp only at he'k; omega⟩
  | none =>
    simp only [Bool.false_eq_true, if_false]
    by_cases hp0 : pp nd.seps key = 0
    · simp only [hp0, if_true]
      exact ⟨none, rfl, rfl, fun _ _ hr => by cases hr⟩
    · simp only [hp0, if_false]
      obtain ⟨e', he'l, he'k⟩ := pp_lt nd.seps key (pp nd.seps key - 1) (by omega)
      rw [he'l]
      obtain ⟨s', pn'⟩ := e'
      refine ⟨_, rfl, rfl, ?_⟩
      intro i pn'' hr
      simp only [Option.some.injEq, Prod.mk.injEq] at hr
      obtain ⟨hi, hp⟩ := hr
      subst hi; subst hp
      exact ⟨s', he'l, by simp only at he'k; omega⟩

/-! ### the index -/

theorem findLeaf_isSome {c : List (Nat × Nat)} {s pn : Nat} {t : List (Nat × Nat)} {key : Nat}
    (hc : c = (s, pn) :: t) (hk : s ≤ key) : ∃ p, findLeaf c key = some p := by
  subst hc
  have : ¬ key < s := by omega
  simp only [findLeaf, this, if_false]
  cases findLeaf t key with
  | some p => exact ⟨p, rfl⟩
  | none => exact ⟨pn, rfl⟩

theorem findLeaf_append_right : ∀ (a c : List (Nat × Nat)) (key : Nat), Asc (a ++ c) →
    (∃ s pn t, c = (s, pn) :: t ∧ s ≤ key) → findLeaf (a ++ c) key = findLeaf c key
  | [], _, _, _, _ => rfl
  | e :: a, c, key, ha, hc => by
    have ha' : Asc (e :: (a ++ c)) := ha
    obtain ⟨he, hr⟩ := List.pairwise_cons.1 ha'
    obtain ⟨s, pn, t, hct, hsk⟩ := hc
    have ih := findLeaf_append_right a c key hr ⟨s, pn, t, hct, hsk⟩
    obtain ⟨p, hp⟩ := findLeaf_isSome hct hsk
    have hes : e.1 < s := by
      have := he (s, pn) (by rw [hct]; simp)
      exact this
    have : ¬ key < e.1 := by omega
    obtain ⟨e1, e2⟩ := e
    simp only [List.cons_append, findLeaf, this, if_false, ih, hp]

theorem findLeaf_append_left : ∀ (a c : List (Nat × Nat)) (key : Nat),
    (c = [] ∨ ∃ s pn t, c = (s, pn) :: t ∧ key < s) → findLeaf (a ++ c) key = findLeaf a key
  | [], c, key, hc => by
    rcases hc with e | ⟨s, pn, t, e, hk⟩
    · subst e; rfl
    · subst e; simp [findLeaf, hk]
  | (e1, e2) :: a, c, key, hc => by
    have ih := findLeaf_append_left a c key hc
    simp only [List.cons_append, findLeaf, ih]

/-- the index is well formed: every node is, each is stored under its first separator, and the separators ascend
across the nodes -/
structure IndexWF (idx : Index) : Prop where
  nodes : ∀ e ∈ idx, NodeWF e.2 ∧ ∃ pn t, e.2.seps = (e.1, pn) :: t
  asc : Asc idx.flat

theorem flat_cons (e : Nat × BNode) (rest : Index) : Index.flat (e :: rest) = e.2.seps ++ Index.flat rest := by
  simp [Index.flat]

theorem IndexWF.tail {e : Nat × BNode} {rest : Index} (h : IndexWF (e :: rest)) : IndexWF rest where
  nodes := fun x hx => h.nodes x (List.mem_cons_of_mem _ hx)
  asc := by
    have := h.asc
    rw [flat_cons] at this
    exact (List.pairwise_append.1 this).2.1

theorem getPrev_none {idx : Index} {key : Nat} (h : idx.getPrev key = none) :
    idx = [] ∨ ∃ s b rest, idx = (s, b) :: rest ∧ key < s := by
  cases idx with
  | nil => exact .inl rfl
  | cons x rest =>
    obtain ⟨s, b⟩ := x
    refine .inr ⟨s, b, rest, rfl, ?_⟩
    simp only [Index.getPrev] at h
    by_cases hk : key < s
    · exact hk
    · simp only [hk, if_false] at h
      cases hg : Index.getPrev rest key <;> simp [hg] at h

/-- **`partial_lookup`** (`Index::lookup`, then `search_branch`) on a well-formed index: no panic, and the leaf page
it names is the one `findLeaf` selects among ALL separators of the tree -/
theorem partialLookup_spec : ∀ (idx : Index) (key : Nat), IndexWF idx →
    partialLookup idx key = .ok (findLeaf idx.flat key)
  | [], key, _ => by simp [partialLookup, Index.getPrev, Index.flat, findLeaf]
  | (s, b) :: rest, key, h => by
    have ih := partialLookup_spec rest key h.tail
    obtain ⟨hwf, pn0, t0, hb⟩ := h.nodes (s, b) (List.mem_cons_self ..)
    simp only at hb
    rw [flat_cons]
    unfold partialLookup at ih ⊢
    simp only [Index.getPrev]
    by_cases hk : key < s
    · simp only [hk, if_true]
      rw [hb]
      simp [findLeaf, hk]
    · simp only [hk, if_false]
      cases hg : Index.getPrev rest key with
      | some r =>
        simp only
        rw [hg] at ih
        obtain ⟨s2, b2⟩ := r
        simp only at ih ⊢
        -- the key is at or above the first separator of the rest
        have hrest : ∃ s' pn' t', Index.flat rest = (s', pn') :: t' ∧ s' ≤ key := by
          cases rest with
          | nil => simp [Index.getPrev] at hg
          | cons y ys =>
            obtain ⟨sy, by'⟩ := y
            obtain ⟨_, pny, ty, hby⟩ := h.tail.nodes (sy, by') (List.mem_cons_self ..)
            simp only at hby
            refine ⟨sy, pny, ty ++ Index.flat ys, by rw [flat_cons]; simp [hby], ?_⟩
            simp only [Index.getPrev] at hg
            by_cases hky : key < sy
            · simp [hky] at hg
            · omega
        have hasc := h.asc
        rw [flat_cons] at hasc
        rw [findLeaf_append_right _ _ key hasc hrest]
        exact ih
      | none =>
        simp only
        have hrest : Index.flat rest = [] ∨ ∃ s' pn' t', Index.flat rest = (s', pn') :: t' ∧ key < s' := by
          rcases getPrev_none hg with e | ⟨sy, by', ys, e, hky⟩
          · subst e; exact .inl rfl
          · subst e
            obtain ⟨_, pny, ty, hby⟩ := h.tail.nodes (sy, by') (List.mem_cons_self ..)
            simp only at hby
            exact .inr ⟨sy, pny, ty ++ Index.flat ys, by rw [flat_cons]; simp [hby], hky⟩
        rw [findLeaf_append_left _ _ key hrest]
        obtain ⟨r, hr, hrm, _⟩ := searchBranch_spec hwf key
        simp only at hr hrm
        rw [hr]
        simp only
        rw [hrm]


/-! ### `findLeaf` does not depend on how the separators are grouped into nodes -/

theorem findLeaf_none_all : ∀ {l : List (Nat × Nat)} {key : Nat}, Asc l → findLeaf l key = none → ∀ x ∈ l, key < x.1
  | [], _, _, _ => fun _ hx => by cases hx
  | (s, p) :: rest, key, ha, h => by
    obtain ⟨hs, _⟩ := List.pairwise_cons.1 ha
    simp only [findLeaf] at h
    by_cases hk : key < s
    · intro x hx
      rcases List.mem_cons.1 hx with e | e
      · subst e; exact hk
      · have := hs x e; simp only at this; omega
    · simp only [hk, if_false] at h
      cases hf : findLeaf rest key <;> simp [hf] at h

theorem asc_key_unique {l : List (Nat × Nat)} (ha : Asc l) {s p q : Nat} (h1 : (s, p) ∈ l) (h2 : (s, q) ∈ l) : p = q := by
  induction l with
  | nil => cases h1
  | cons x xs ih =>
    obtain ⟨hx, hr⟩ := List.pairwise_cons.1 ha
    rcases List.mem_cons.1 h1 with e1 | e1 <;> rcases List.mem_cons.1 h2 with e2 | e2
    · rw [← e1] at e2; injection e2 with _ e2; exact e2.symm
    · subst e1; have := hx _ e2; simp only at this; omega
    · subst e2; have := hx _ e1; simp only at this; omega
    · exact ih hr e1 e2

/-- the leaf `findLeaf` selects, without reference to the order of the list: the one under the greatest separator
`≤ key` -/
theorem findLeaf_char : ∀ {l : List (Nat × Nat)}, Asc l → ∀ (key p : Nat),
    (findLeaf l key = some p ↔ ∃ s, (s, p) ∈ l ∧ s ≤ key ∧ ∀ x ∈ l, x.1 ≤ key → x.1 ≤ s)
  | [], _, key, p => by simp [findLeaf]
  | (s0, p0) :: rest, ha, key, p => by
    obtain ⟨hs, hr⟩ := List.pairwise_cons.1 ha
    have ih := findLeaf_char hr key
    simp only [findLeaf]
    by_cases hk : key < s0
    · simp only [hk, if_true]
      constructor
      · intro h; cases h
      · rintro ⟨s, hm, hle, _⟩
        rcases List.mem_cons.1 hm with e | e
        · injection e with e1 _; omega
        · have := hs _ e; simp only at this; omega
    · simp only [hk, if_false]
      cases hf : findLeaf rest key with
      | some q =>
        simp only
        obtain ⟨sq, hq1, hq2, hq3⟩ := (ih q).1 hf
        have hs0q : s0 < sq := by have := hs _ hq1; exact this
        constructor
        · intro h
          injection h with h; subst h
          refine ⟨sq, List.mem_cons_of_mem _ hq1, hq2, ?_⟩
          intro x hx hxk
          rcases List.mem_cons.1 hx with e | e
          · subst e; simp only; omega
          · exact hq3 x e hxk
        · rintro ⟨s, hm, hle, hmax⟩
          have h1 : sq ≤ s := hmax (sq, q) (List.mem_cons_of_mem _ hq1) hq2
          rcases List.mem_cons.1 hm with e | e
          · injection e with e1 _; omega
          · have h2 : s ≤ sq := hq3 (s, p) e hle
            have : s = sq := by omega
            subst this
            rw [asc_key_unique hr e hq1]
      | none =>
        simp only
        have hall := findLeaf_none_all hr hf
        constructor
        · intro h
          injection h with h; subst h
          refine ⟨s0, List.mem_cons_self .., by omega, ?_⟩
          intro x hx hxk
          rcases List.mem_cons.1 hx with e | e
          · subst e; exact Nat.le_refl _
          · have := hall x e; omega
        · rintro ⟨s, hm, hle, _⟩
          rcases List.mem_cons.1 hm with e | e
          · injection e with _ e2; rw [e2]
          · have := hall _ e; simp only at this; omega

/-- two ascending separator lists with the same `(separator, leaf)` pairs route every key alike -/
theorem findLeaf_congr {a b : List (Nat × Nat)} (ha : Asc a) (hb : Asc b) (h : ∀ x, x ∈ a ↔ x ∈ b) (key : Nat) :
    findLeaf a key = findLeaf b key := by
  apply Option.ext
  intro p
  rw [findLeaf_char ha key p, findLeaf_char hb key p]
  constructor
  · rintro ⟨s, h1, h2, h3⟩
    exact ⟨s, (h _).1 h1, h2, fun x hx => h3 x ((h x).2 hx)⟩
  · rintro ⟨s, h1, h2, h3⟩
    exact ⟨s, (h _).2 h1, h2, fun x hx => h3 x ((h x).1 hx)⟩

/-! ### `LeafNode::get` -/

/-- the first entry with the key -/
def leafSpec (es : List LeafEntry) (key : Nat) : Option (ByteArray × Bool) :=
  (es.find? (fun e => decide (keyNat e.key = key))).map (fun e => (e.cell, e.overflow))

theorem leafSpec_cons (e : LeafEntry) (r : List LeafEntry) (key : Nat) :
    leafSpec (e :: r) key = if keyNat e.key = key then some (e.cell, e.overflow) else leafSpec r key := by
  unfold leafSpec
  by_cases h : keyNat e.key = key <;> simp [List.find?_cons, h]

abbrev LeafAsc (es : List LeafEntry) : Prop := es.Pairwise (fun a b => keyNat a.key < keyNat b.key)

theorem leafSpec_none : ∀ (es : List LeafEntry) (key : Nat), (∀ e ∈ es, keyNat e.key ≠ key) → leafSpec es key = none
  | [], _, _ => rfl
  | e :: r, key, h => by
    rw [leafSpec_cons]
    simp only [h e (List.mem_cons_self ..), if_false]
    exact leafSpec_none r key (fun x hx => h x (List.mem_cons_of_mem _ hx))

theorem leafSpec_at (es : List LeafEntry) (key : Nat) (e : LeafEntry) (hk : keyNat e.key = key) :
    ∀ (i : Nat), LeafAsc es → es[i]? = some e → leafSpec es key = some (e.cell, e.overflow) := by
  induction es with
  | nil => intro i _ h; simp at h
  | cons x r ih =>
    intro i ha h
    obtain ⟨hx, hr⟩ := List.pairwise_cons.1 ha
    rw [leafSpec_cons]
    cases i with
    | zero =>
      have : x = e := by simpa using h
      subst this
      simp [hk]
    | succ i =>
      have hmem : e ∈ r := List.mem_of_getElem? (by simpa using h)
      have hne : keyNat x.key ≠ key := by have := hx e hmem; omega
      simp only [hne, if_false]
      exact ih i hr (by simpa using h)

/-- **`LeafNode::get`** on a leaf with strictly ascending keys: the toolchain's `binary_search_by` over the cell
pointers finds the entry with the key — no panic — or answers `None` when there is none -/
theorem leafGet_spec (es : List LeafEntry) (key : Nat) (ha : LeafAsc es) :
    leafGet es key = .ok (leafSpec es key) := by
  unfold leafGet
  by_cases hex : ∃ (i : Nat) (e : LeafEntry), es[i]? = some e ∧ keyNat e.key = key
  · obtain ⟨i, e, hi, hk⟩ := hex
    let c : LeafEntry → Ordering := fun x => if keyNat x.key < key then .lt else if key < keyNat x.key then .gt else .eq
    have hf : ∀ x ∈ es, cmpKey key x = .ok (c x) := fun _ _ => rfl
    have hil : i < es.length := (List.getElem?_eq_some_iff.1 hi).1
    have hie : es[i] = e := (List.getElem?_eq_some_iff.1 hi).2
    have hfound := binarySearchBy_sorted_found (cmpKey key) es c i e hf hi
      (by simp only [c]; have : ¬ keyNat e.key < key := by omega
          have h2 : ¬ key < keyNat e.key := by omega
          simp [this, h2])
      (by intro j x hj hx
          have hjl : j < es.length := (List.getElem?_eq_some_iff.1 hx).1
          have hje : es[j] = x := (List.getElem?_eq_some_iff.1 hx).2
          have := (List.pairwise_iff_getElem.1 ha) j i hjl hil hj
          rw [hje, hie] at this
          simp only [c]; simp [show keyNat x.key < key by omega])
      (by intro j x hj hx
          have hjl : j < es.length := (List.getElem?_eq_some_iff.1 hx).1
          have hje : es[j] = x := (List.getElem?_eq_some_iff.1 hx).2
          have := (List.pairwise_iff_getElem.1 ha) i j hil hjl hj
          rw [hje, hie] at this
          simp only [c]
          have h1 : ¬ keyNat x.key < key := by omega
          simp [h1, show key < keyNat x.key by omega])
    rw [hfound]
    simp only [hi]
    rw [leafSpec_at es key e hk i ha hi]
  · have habs : ∀ e ∈ es, keyNat e.key ≠ key := by
      intro e he hk
      obtain ⟨j, hj, hje⟩ := List.getElem_of_mem he
      exact hex ⟨j, e, by rw [List.getElem?_eq_getElem hj, hje], hk⟩
    let g : LeafEntry → Bool := fun x => decide (key < keyNat x.key)
    have hf : ∀ x ∈ es, cmpKey key x = .ok (if !g x then .lt else .gt) := by
      intro x hx
      have := habs x hx
      simp only [cmpKey, g]
      by_cases h1 : keyNat x.key < key
      · have : ¬ key < keyNat x.key := by omega
        simp [h1, this]
      · have h2 : key < keyNat x.key := by omega
        simp [h1, h2]
    have hmono : ∀ (i j : Nat) (x y : LeafEntry), i < j → es[i]? = some x → es[j]? = some y → g x = true → g y = true := by
      intro i j x y hij hx hy hg
      have hil : i < es.length := (List.getElem?_eq_some_iff.1 hx).1
      have hie : es[i] = x := (List.getElem?_eq_some_iff.1 hx).2
      have hjl : j < es.length := (List.getElem?_eq_some_iff.1 hy).1
      have hje : es[j] = y := (List.getElem?_eq_some_iff.1 hy).2
      have := (List.pairwise_iff_getElem.1 ha) i j hil hjl hij
      rw [hie, hje] at this
      simp only [g, decide_eq_true_eq] at hg ⊢
      omega
    obtain ⟨idx, hb, _⟩ := binarySearchBy_partition (cmpKey key) es g hf hmono
    rw [hb]
    simp only
    rw [leafSpec_none es key habs]

end Nomt.BtLookup
