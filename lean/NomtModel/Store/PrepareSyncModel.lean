import NomtModel.Store.WalRedoTable
import NomtModel.Store.ProbeInv
/-!
# Mirror of `bitbox::DB::prepare_sync` (`nomt/src/bitbox/mod.rs`) and of `MetaMap` (`bitbox/meta_map.rs`)

`prepare_sync(sync_seqn, page_pool, changes, wal_blob_builder)`:

```
wal.reset(sync_seqn)
for (page_id, dirty_page) in changes:
  if dirty_page.diff.cleared():   delta -= 1;  bucket = Known(b) | FreshOrDependent(cell).get().unwrap() | unreachable!()
                                  meta_map.set_tombstone(bucket); changed_meta_pages.insert(bucket / 4096)
                                  cache_updates.push((page_id, None));  wal.write_clear(bucket)
  else:                           (meta_map_changed, bucket) = Known(b) → (false, b) | FreshWithNoDependents → (true, allocate_bucket()?)
                                     | FreshOrDependent(cell) → cell.get() = Some(b) → (false, b) | None → (true, allocate_bucket()?), cell.set(b)
                                  if meta_map_changed: delta += 1; meta_map.set_full(bucket, hash); changed_meta_pages.insert(bucket / 4096)
                                  wal.write_update(page_id.encode(), diff, diff.pack_changed_nodes(page), page.elided_children(), bucket)
                                  cache_updates.push(..);  ht_pages.push((data_page_index(bucket), page))
for p in changed_meta_pages:      ht_pages.push((meta_bytes_index(p), copy of meta_map.page_slice(p)))
if cfg!(debug_assertions):        sort by page number, dedup, assert_eq!(orig_len, len)
occupied_buckets ± |delta|;  wal.finalize();  Ok((ht_pages, cache_updates))
```

The mirror follows that text: the same order of effects, every panic site (`unwrap`, `unreachable!`, `bitvec[bucket]`,
`bitvec[start..end]`, the `assert_eq!` of the debug block, `hash % 0`, `data_page_offset + ix`, and the sites of the WAL
builder and of `pack_changed_nodes`) an explicit `Outcome.panic`, `BucketExhaustion` the error value.

* The probing (`ProbeSequence::new / next`, the loop of `allocate_bucket`) is the existing mirror `Probe.allocLoop` of
  `Store/ProbeModel.lean`, run on the decoded view `slotsOf` of the meta bytes.  `slotOfByte` is a bijection on bytes
  (`0 ↦ empty`, `0x7f ↦ tombstone`, any other byte `x ↦ full (x ^ 0x80)`), so nothing of the byte-level behaviour of
  `hint_empty / hint_tombstone / hint_not_match` is lost: a byte `1 … 0x7e` is a bucket that matches no hash.
* `HashSet<usize>` (`changed_meta_pages`): a duplicate-free list; its iteration order is unspecified in Rust — the
  mirror emits ascending order, and the theorems are stated for EVERY permutation of the returned page list
  (`write_ht` sorts by page number before issuing the writes anyway).
* `SharedMaybeBucketIndex`: every `FreshOrDependent` page has a cell of its own, given by its content (`depUnset` /
  `depSet b`); `cells` records the bucket every page ended up with (what `cell.set(bucket)` publishes).
* the hash of a page id (`hash_raw_page_id`: seeded XXH3-64) is the parameter `hash : Bytes → Nat`, as in `Store/WalRedo.lean`.
-/
namespace Nomt.PrepSync
open Nomt Nomt.Wal Nomt.Store

/-! ## `MetaMap` -/

/-- the meta byte of a bucket as the probing reads it: `hint_empty` (`== 0`), `hint_tombstone` (`== 0x7f`), otherwise a
full bucket whose tag `x ^ 0x80` is compared with `hash >> 57` (`hint_not_match`) -/
def slotOfByte (x : UInt8) : Slot :=
  if x = 0 then .empty else if x = TOMBSTONE then .tombstone else .full (x.toNat ^^^ 128)

/-- `struct MetaMap { buckets, bitvec }`; `bitvec` holds whole pages of meta bytes (`ht_file::open`) -/
structure MetaMap where
  buckets : Nat
  bitvec : Bytes
deriving DecidableEq, Repr

namespace MetaMap

/-- `ht_file::open`: `bitvec` = `num_meta_byte_pages(num_pages)` pages, `num_pages > 0`; `num_pages: u32` -/
def WF (m : MetaMap) : Prop :=
  0 < m.buckets ∧ m.buckets < 2 ^ 32 ∧ m.bitvec.length = numMetaBytePages m.buckets * 4096

/-- the meta bytes of the buckets, decoded (what the probe sequence sees) -/
def slots (m : MetaMap) : List Slot := (m.bitvec.take m.buckets).map slotOfByte

/-- `set_full(bucket, hash)`: `bitvec[bucket] = full_entry(hash)` -/
def setFull (m : MetaMap) (bucket hash : Nat) : Option MetaMap :=
  if bucket < m.bitvec.length then some { m with bitvec := m.bitvec.set bucket (fullEntry hash) } else none

/-- `set_tombstone(bucket)`: `bitvec[bucket] = TOMBSTONE` -/
def setTombstone (m : MetaMap) (bucket : Nat) : Option MetaMap :=
  if bucket < m.bitvec.length then some { m with bitvec := m.bitvec.set bucket TOMBSTONE } else none

/-- `page_index(bucket)` -/
def pageIndex (bucket : Nat) : Nat := bucket / 4096

/-- `page_slice(page_index)`: `&bitvec[start..start + 4096]` -/
def pageSlice (m : MetaMap) (i : Nat) : Option Bytes :=
  if i * 4096 + 4096 ≤ m.bitvec.length then some (slice m.bitvec (i * 4096) 4096) else none

/-- `full_count()`: bytes of the whole `bitvec` with `byte & FULL_MASK != 0` -/
def fullCount (m : MetaMap) : Nat := m.bitvec.countP (fun x => x.toNat &&& FULL_MASK != 0)

end MetaMap

/-! ## the changeset -/

/-- `store::BucketInfo` -/
inductive BInfo where
  | known (b : Nat)
  /-- `FreshWithNoDependents` -/
  | fresh
  /-- `FreshOrDependent(cell)`, `cell.get() = None` -/
  | depUnset
  /-- `FreshOrDependent(cell)`, `cell.get() = Some(b)` -/
  | depSet (b : Nat)
deriving DecidableEq, Repr

/-- one `(PageId, DirtyPage)`: `pid` = `page_id.encode()`, `page` = the bytes of the frozen page -/
structure Dirty where
  pid : Bytes
  page : Bytes
  diff : PageDiff
  bucket : BInfo
deriving DecidableEq, Repr

inductive PErr where
  /-- `BucketExhaustion`, with the meta map as the failed call leaves it -/
  | bucketExhaustion (mm : MetaMap)
deriving DecidableEq, Repr

abbrev POut (α : Type) := Outcome PErr α

/-- the WAL builder has no error value; its panics stay panics -/
def liftW {α : Type} : Wal.Out α → POut α
  | .ok a => .ok a
  | .err _ => .panic "wal builder: error value"
  | .panic s => .panic s

/-! ## `allocate_bucket` -/

/-- `allocate_bucket(page_id, meta_map, seed)`: `ok none` = gave up / exhausted -/
def allocateBucket (hash : Bytes → Nat) (m : MetaMap) (pid : Bytes) : POut (Option (Nat × MetaMap)) :=
  -- `ProbeSequence::new`: `hash % meta_map.len() as u64`
  if m.buckets = 0 then .panic "ProbeSequence::new: hash % 0" else
  match Probe.allocLoop m.slots Probe.ALLOC_ATTEMPTS (2 * m.buckets + 2) 0 (Probe.PS.new (hash pid) m.buckets) with
  | none => .panic "fuel"
  | some none => .ok none
  | some (some b) =>
    match m.setFull b (hash pid) with
    | some m' => .ok (some (b, m'))
    | none => .panic "set_full: bitvec[bucket]"

/-! ## the loop body -/

/-- `HashSet::insert` -/
def insertSet (s : List Nat) (x : Nat) : List Nat := if x ∈ s then s else s ++ [x]

/-- the state of the `for (page_id, dirty_page) in changes` loop -/
structure Acc where
  mm : MetaMap
  /-- `changed_meta_pages` -/
  changed : List Nat
  /-- `ht_pages` -/
  ht : List (Nat × Bytes)
  /-- `cache_updates`: page id, and for an inserted page its bytes and bucket -/
  cache : List (Bytes × Option (Bytes × Nat))
  /-- `occupied_buckets_delta` -/
  delta : Int
  wal : Builder
  /-- the bucket of every page processed so far (for a `FreshOrDependent` page: the content of its cell) -/
  cells : List Nat
deriving Repr

/-- the `if dirty_page.diff.cleared()` branch -/
def stepCleared (a : Acc) (d : Dirty) : POut Acc :=
  let bucket : POut Nat :=
    match d.bucket with
    | .known b => .ok b
    | .depSet b => .ok b
    | .depUnset => .panic "cleared page: maybe_bucket.get().unwrap()"
    | .fresh => .panic "cleared page: unreachable!()"
  match bucket with
  | .ok b =>
    match a.mm.setTombstone b with
    | none => .panic "set_tombstone: bitvec[bucket]"
    | some mm =>
      match liftW (a.wal.writeClear b) with
      | .ok w =>
        .ok { a with mm := mm, changed := insertSet a.changed (MetaMap.pageIndex b),
                     cache := a.cache ++ [(d.pid, none)], delta := a.delta - 1, wal := w, cells := a.cells ++ [b] }
      | .err e => .err e
      | .panic s => .panic s
  | .err e => .err e
  | .panic s => .panic s

/-- "Allocate the bucket, if one is necessary": `(meta_map_changed, bucket)` and the meta map after `allocate_bucket` -/
def resolve (hash : Bytes → Nat) (mm : MetaMap) (d : Dirty) : POut (Bool × Nat × MetaMap) :=
  match d.bucket with
  | .known b => .ok (false, b, mm)
  | .depSet b => .ok (false, b, mm)
  | _ =>
    match allocateBucket hash mm d.pid with
    | .ok (some (b, mm')) => .ok (true, b, mm')
    | .ok none => .err (.bucketExhaustion mm)
    | .err e => .err e
    | .panic s => .panic s

/-- `page.elided_children()`: `data[PAGE_SIZE - 40 .. PAGE_SIZE - 32]` -/
def elidedChildren (page : Bytes) : POut Nat :=
  if page.length < PAGE_SIZE - 32 then .panic "read_elided_children: data[PAGE_SIZE - 40..PAGE_SIZE - 32]"
  else .ok (elidedOf page)

/-- the `else` branch; `off` = `HTOffsets::data_page_offset` -/
def stepUpdate (hash : Bytes → Nat) (off : Nat) (a : Acc) (d : Dirty) : POut Acc :=
  match resolve hash a.mm d with
  | .ok (chg, b, mm1) =>
    let h := hash d.pid
    let mm2 : Option MetaMap := if chg then mm1.setFull b h else some mm1
    match mm2 with
    | none => .panic "set_full: bitvec[bucket]"
    | some mm2 =>
      match liftW (d.diff.pack d.page) with
      | .ok nodes =>
        match elidedChildren d.page with
        | .ok el =>
          match liftW (a.wal.writeUpdate d.pid d.diff nodes el b) with
          | .ok w =>
            -- `data_page_index(bucket)`: `data_page_offset + ix` in `u64`
            if off + b ≥ 2 ^ 64 then .panic "data_page_index: data_page_offset + ix" else
            .ok { mm := mm2,
                  changed := if chg then insertSet a.changed (MetaMap.pageIndex b) else a.changed,
                  ht := a.ht ++ [(off + b, d.page)],
                  cache := a.cache ++ [(d.pid, some (d.page, b))],
                  delta := if chg then a.delta + 1 else a.delta,
                  wal := w, cells := a.cells ++ [b] }
          | .err e => .err e
          | .panic s => .panic s
        | .err e => .err e
        | .panic s => .panic s
      | .err e => .err e
      | .panic s => .panic s
  | .err e => .err e
  | .panic s => .panic s

def stepDirty (hash : Bytes → Nat) (off : Nat) (a : Acc) (d : Dirty) : POut Acc :=
  if d.diff.cleared then stepCleared a d else stepUpdate hash off a d

def loop (hash : Bytes → Nat) (off : Nat) : Acc → List Dirty → POut Acc
  | a, [] => .ok a
  | a, d :: ds =>
    match stepDirty hash off a d with
    | .ok a' => loop hash off a' ds
    | .err e => .err e
    | .panic s => .panic s

/-! ## after the loop -/

/-- insertion into a list sorted by the first component (stable) -/
def insKey {α : Type} (x : Nat × α) : List (Nat × α) → List (Nat × α)
  | [] => [x]
  | y :: r => if x.1 < y.1 then x :: y :: r else y :: insKey x r

/-- `sort_by_key(|(pn, _)| *pn)` -/
def sortKey {α : Type} : List (Nat × α) → List (Nat × α)
  | [] => []
  | x :: r => insKey x (sortKey r)

/-- ascending order of a duplicate-free set of numbers -/
def sortNat (l : List Nat) : List Nat := (sortKey (l.map (fun x => (x, ())))).map (·.1)

/-- `for changed_meta_page in changed_meta_pages { ht_pages.push((meta_bytes_index(p), copy of page_slice(p))) }` -/
def metaPages (mm : MetaMap) : List Nat → POut (List (Nat × Bytes))
  | [] => .ok []
  | p :: ps =>
    match mm.pageSlice p with
    | none => .panic "page_slice: bitvec[start..end]"
    | some buf =>
      match metaPages mm ps with
      | .ok r => .ok ((p, buf) :: r)
      | o => o

/-- `dedup_by_key(|(pn, _)| *pn)`: of consecutive elements with the same key the first is kept -/
def dedupKey {α : Type} : List (Nat × α) → List (Nat × α)
  | [] => []
  | [x] => [x]
  | x :: y :: r => if x.1 = y.1 then dedupKey (x :: r) else x :: dedupKey (y :: r)
termination_by l => l.length

/-- the `if cfg!(debug_assertions)` block -/
def debugBlock (debug : Bool) (ht : List (Nat × Bytes)) : POut (List (Nat × Bytes)) :=
  if debug then
    let s := sortKey ht
    if (dedupKey s).length = ht.length then .ok s else .panic "assert_eq!(orig_len, ht_pages.len())"
  else .ok ht

/-- `occupied_buckets.fetch_sub / fetch_add` (wrapping `usize` arithmetic of the atomics) -/
def applyDelta (occupied : Nat) (delta : Int) : Nat :=
  if delta < 0 then (occupied + 2 ^ 64 - delta.natAbs % 2 ^ 64) % 2 ^ 64
  else if delta > 0 then (occupied + delta.natAbs) % 2 ^ 64
  else occupied

/-- what `prepare_sync` returns and leaves behind -/
structure Res where
  /-- the returned `ht_pages` -/
  ht : List (Nat × Bytes)
  /-- the returned `cache_updates` -/
  cache : List (Bytes × Option (Bytes × Nat))
  /-- the in-memory meta map afterwards -/
  mm : MetaMap
  /-- `occupied_buckets` afterwards -/
  occupied : Nat
  /-- the builder afterwards (`as_slice()` = the blob handed to `write_wal`) -/
  wal : Builder
  /-- the bucket of every page of the changeset -/
  cells : List Nat
deriving Repr

/-- the in-memory state `prepare_sync` works on -/
structure St where
  mm : MetaMap
  occupied : Nat
deriving Repr

/-- `HTOffsets::data_page_offset` of a table of `n` buckets -/
def dataOffset (n : Nat) : Nat := numMetaBytePages n

/-- **`DB::prepare_sync`** -/
def prepareSync (hash : Bytes → Nat) (debug : Bool) (S : St) (seqn : Nat) (changes : List Dirty) (wal : Builder) :
    POut Res :=
  match liftW (wal.reset seqn) with
  | .ok w0 =>
    match loop hash (dataOffset S.mm.buckets)
        { mm := S.mm, changed := [], ht := [], cache := [], delta := 0, wal := w0, cells := [] } changes with
    | .ok a =>
      match metaPages a.mm (sortNat a.changed) with
      | .ok mp =>
        match debugBlock debug (a.ht ++ mp) with
        | .ok ht =>
          match liftW a.wal.finalize with
          | .ok w => .ok { ht := ht, cache := a.cache, mm := a.mm, occupied := applyDelta S.occupied a.delta, wal := w,
                           cells := a.cells }
          | .err e => .err e
          | .panic s => .panic s
        | .err e => .err e
        | .panic s => .panic s
      | .err e => .err e
      | .panic s => .panic s
    | .err e => .err e
    | .panic s => .panic s
  | .err e => .err e
  | .panic s => .panic s

/-! ## vocabulary of the theorems -/

/-- the WAL entry `prepare_sync` writes for the page `d` in bucket `b` -/
def entryOf (d : Dirty) (b : Nat) : Entry :=
  if d.diff.cleared then .clear b else .update d.pid d.diff (packedOf d.page d.diff) (elidedOf d.page) b

/-- the entries of a whole changeset, given the bucket of every page -/
def entriesOf : List Dirty → List Nat → List Entry
  | d :: ds, b :: bs => entryOf d b :: entriesOf ds bs
  | _, _ => []

/-- the post-meta write-out: the returned pages applied to the hash-table file (`off` meta pages, then the buckets) -/
def applyHt (off : Nat) (T : Table) : List (Nat × Bytes) → Table
  | [] => T
  | (pn, pg) :: r =>
    applyHt off (if pn < off then { T with «meta» := writeAt T.meta (pn * 4096) pg }
                 else { T with pages := T.pages.set (pn - off) pg }) r

end Nomt.PrepSync
