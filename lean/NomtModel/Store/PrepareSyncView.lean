import NomtModel.Store.PrepareSyncWriteOut
/-!
# The hash table of `prepare_sync` as a table of the probing model

`viewOf mm pages`: slots = the decoded meta bytes of the buckets, label of a bucket = the page id in the last 32 bytes
of its page, as a big-endian number (the convention of `tableOfImage` / `wfTable`).  Basic facts: `set_full` /
`set_tombstone` on the bytes are `List.set` on the slots; a bucket whose slot carries the tag of `hash` holds the byte
`full_entry(hash)`; the bookkeeping of `changed_meta_pages` and of the occupancy delta along a chain of steps.
-/
namespace Nomt.PrepSync
open Nomt Nomt.Wal Nomt.Store

/-! ## page ids as numbers -/

/-- a 32-byte page id as a big-endian number -/
def pidN (pid : Bytes) : Nat := leNat pid.reverse
/-- the 32-byte big-endian encoding -/
def be32 (l : Nat) : Bytes := (leBytes 32 l).reverse

theorem be32_pidN {pid : Bytes} (h : pid.length = 32) : be32 (pidN pid) = pid := by
  unfold be32 pidN
  have := leBytes_leNat pid.reverse
  rw [List.length_reverse, h] at this
  rw [this, List.reverse_reverse]

theorem pidN_inj {p q : Bytes} (hp : p.length = 32) (hq : q.length = 32) (h : pidN p = pidN q) : p = q := by
  rw [← be32_pidN hp, ← be32_pidN hq, h]

/-- the hash on page numbers -/
def hashN (hash : Bytes → Nat) (l : Nat) : Nat := hash (be32 l)

theorem hashN_pidN (hash : Bytes → Nat) {pid : Bytes} (h : pid.length = 32) : hashN hash (pidN pid) = hash pid := by
  unfold hashN; rw [be32_pidN h]

/-! ## meta bytes and slots -/

theorem xor128 : ∀ t, t < 128 → (t ^^^ 128 = t + 128 ∧ (t + 128) ^^^ 128 = t) := by decide

theorem fullEntry_toNat {h : Nat} (hh : h < 2 ^ 64) : (fullEntry h).toNat = Probe.tagOf h + 128 := by
  have ht : h / 2 ^ 57 < 128 := by omega
  unfold fullEntry FULL_MASK Probe.tagOf
  rw [Nat.mod_eq_of_lt (by omega : h / 2 ^ 57 < 256), Nat.mod_eq_of_lt ht]
  show (UInt8.ofNat (h / 2 ^ 57 ^^^ 128)).toNat = _
  rw [(xor128 _ ht).1]
  simp only [UInt8.toNat_ofNat']
  omega

theorem slotOfByte_fullEntry {h : Nat} (hh : h < 2 ^ 64) : slotOfByte (fullEntry h) = .full (Probe.tagOf h) := by
  have e := fullEntry_toNat hh
  have ht : Probe.tagOf h < 128 := Nat.mod_lt _ (by omega)
  unfold slotOfByte
  have h0 : fullEntry h ≠ 0 := by
    intro c; rw [c] at e; simp at e
  have h7 : fullEntry h ≠ TOMBSTONE := by
    intro c; rw [c] at e; simp [TOMBSTONE] at e
  simp only [h0, h7, if_false]
  rw [e, (xor128 _ ht).2]

theorem slotOfByte_tombstone : slotOfByte TOMBSTONE = .tombstone := by decide

theorem byte_of_full {x : UInt8} {h : Nat} (hh : h < 2 ^ 64) (e : slotOfByte x = .full (Probe.tagOf h)) :
    x = fullEntry h := by
  have ht : Probe.tagOf h < 128 := Nat.mod_lt _ (by omega)
  unfold slotOfByte at e
  by_cases h0 : x = 0
  · simp [h0] at e
  · by_cases h7 : x = TOMBSTONE
    · subst h7
      have : slotOfByte TOMBSTONE = .tombstone := by decide
      unfold slotOfByte at this
      rw [this] at e
      cases e
    · simp only [h0, h7, if_false] at e
      injection e with e
      have hx := UInt8.toNat_lt x
      have : x.toNat = Probe.tagOf h + 128 := by
        by_cases hb : x.toNat < 128
        · have := (xor128 _ hb).1
          omega
        · have := (xor128 (x.toNat - 128) (by omega)).2
          have e2 : x.toNat - 128 + 128 = x.toNat := by omega
          rw [e2] at this
          omega
      apply UInt8.toNat_inj.1
      rw [this, fullEntry_toNat hh]

namespace MetaMap

/-- what `ht_file::open` guarantees and `prepare_sync` keeps -/
structure Ok (m : MetaMap) : Prop where
  pos : 0 < m.buckets
  le : m.buckets ≤ m.bitvec.length

theorem WF.ok {m : MetaMap} (h : m.WF) : m.Ok := by
  obtain ⟨h1, _, h3⟩ := h
  refine ⟨h1, ?_⟩
  rw [h3]; unfold numMetaBytePages PAGE; omega

theorem slots_length {m : MetaMap} (h : m.Ok) : m.slots.length = m.buckets := by
  unfold slots
  rw [List.length_map, List.length_take]
  have := h.le
  omega

theorem slots_set {m : MetaMap} (h : m.Ok) {b : Nat} (hb : b < m.buckets) (v : UInt8) :
    ({ m with bitvec := m.bitvec.set b v } : MetaMap).slots = m.slots.set b (slotOfByte v) := by
  unfold slots
  simp only
  rw [← List.map_set, List.take_set]

theorem slotAt_slots {m : MetaMap} (h : m.Ok) {b : Nat} (hb : b < m.buckets) :
    ∃ x, m.bitvec[b]? = some x ∧ Probe.slotAt m.slots b = slotOfByte x := by
  have hlt : b < m.bitvec.length := Nat.lt_of_lt_of_le hb h.le
  refine ⟨m.bitvec[b], List.getElem?_eq_getElem hlt, ?_⟩
  unfold Probe.slotAt slots
  rw [List.getElem?_map, List.getElem?_take]
  simp [hb, List.getElem?_eq_getElem hlt]

end MetaMap

theorem set_getElem?_self {α : Type} {l : List α} {b : Nat} {v : α} (h : l[b]? = some v) : l.set b v = l := by
  apply List.ext_getElem?
  intro i
  rw [List.getElem?_set]
  by_cases e : b = i
  · subst e
    have hlt : b < l.length := by
      apply Nat.lt_of_not_le
      intro hle
      rw [List.getElem?_eq_none hle] at h
      cases h
    have hv : l[b] = v := by
      rw [List.getElem?_eq_getElem hlt] at h
      injection h
    simp [hlt, hv]
  · simp [e]

/-! ## the view -/

def viewOf (mm : MetaMap) (pages : List Bytes) : Probe.Table :=
  { slots := mm.slots, label := fun b => pidN (labelOf (pages.getD b [])) }

theorem viewOf_n {mm : MetaMap} (h : mm.Ok) (pages : List Bytes) : (viewOf mm pages).n = mm.buckets :=
  MetaMap.slots_length h

/-! ## bookkeeping along a chain -/

theorem mem_insertSet {s : List Nat} {x y : Nat} : y ∈ insertSet s x ↔ y ∈ s ∨ y = x := by
  unfold insertSet
  by_cases h : x ∈ s
  · simp only [h, if_true]
    constructor
    · exact Or.inl
    · rintro (a | a)
      · exact a
      · rw [a]; exact h
  · simp [h]

theorem nodup_insertSet {s : List Nat} (x : Nat) (h : s.Nodup) : (insertSet s x).Nodup := by
  unfold insertSet
  by_cases hx : x ∈ s
  · simp [hx, h]
  · simp only [hx, if_false]
    apply List.nodup_append.2
    refine ⟨h, by simp, ?_⟩
    intro a ha b hb e
    simp only [List.mem_singleton] at hb
    subst hb; subst e
    exact hx ha

namespace Chain
variable {hash : Bytes → Nat} {off : Nat}

theorem bitvec_length {a a' : Acc} {ds : List Dirty} {bs : List Nat} {cs : List Bool} (h : Chain hash off a ds bs cs a') :
    a'.mm.bitvec.length = a.mm.bitvec.length := by
  induction h with
  | nil => rfl
  | cons s _ ih =>
    rw [ih, s.bitvec]
    split
    · simp
    · split <;> simp

/-- `changed_meta_pages`: duplicate-free, contains the page of every meta byte that changed, and nothing but pages of
buckets of the changeset -/
theorem changed_spec {a a' : Acc} {ds : List Dirty} {bs : List Nat} {cs : List Bool} (h : Chain hash off a ds bs cs a') :
    (a.changed.Nodup → a'.changed.Nodup) ∧
    (∀ p, p ∈ a.changed → p ∈ a'.changed) ∧
    (∀ j, a.mm.bitvec[j]? ≠ a'.mm.bitvec[j]? → j / 4096 ∈ a'.changed) ∧
    (∀ p, p ∈ a'.changed → p ∈ a.changed ∨ ∃ x ∈ pairs ds bs, p = x.1 / 4096 ∧
      (x.2.diff.cleared = true ∨ x.2.bucket = .fresh ∨ x.2.bucket = .depUnset)) := by
  induction h with
  | nil =>
    refine ⟨id, fun _ h => h, ?_, fun p hp => Or.inl hp⟩
    intro j hj; exact absurd rfl hj
  | @cons a a1 a' d ds b bs c cs s _ ih =>
    obtain ⟨i1, i2, i3, i4⟩ := ih
    have hsub : ∀ p, p ∈ a.changed → p ∈ a1.changed := by
      intro p hp
      rw [s.changed]
      split
      · exact mem_insertSet.2 (Or.inl hp)
      · exact hp
    refine ⟨?_, fun p hp => i2 p (hsub p hp), ?_, ?_⟩
    · intro hn
      apply i1
      rw [s.changed]
      split
      · exact nodup_insertSet _ hn
      · exact hn
    · intro j hj
      by_cases e : a.mm.bitvec[j]? = a1.mm.bitvec[j]?
      · exact i3 j (by rw [← e]; exact hj)
      · apply i2
        have hb : j = b ∧ (d.diff.cleared || c) = true := by
          rw [s.bitvec] at e
          by_cases hc : d.diff.cleared = true
          · simp only [hc, if_true] at e
            rw [List.getElem?_set] at e
            by_cases hbj : b = j
            · exact ⟨hbj.symm, by simp [hc]⟩
            · simp [hbj] at e
          · simp only [hc, Bool.false_eq_true, if_false] at e
            by_cases hcc : c = true
            · simp only [hcc, if_true] at e
              rw [List.getElem?_set] at e
              by_cases hbj : b = j
              · exact ⟨hbj.symm, by simp [hcc]⟩
              · simp [hbj] at e
            · simp [hcc] at e
        rw [s.changed, hb.2, hb.1]
        simp only [if_true]
        exact mem_insertSet.2 (Or.inr rfl)
    · intro p hp
      rcases i4 p hp with h1 | ⟨x, hx, e⟩
      · rw [s.changed] at h1
        by_cases hcc : (d.diff.cleared || c) = true
        · simp only [hcc, if_true] at h1
          rcases mem_insertSet.1 h1 with h2 | h2
          · exact Or.inl h2
          · refine Or.inr ⟨(b, d), by simp [pairs], h2, ?_⟩
            have src := s.src
            by_cases hc : d.diff.cleared = true
            · exact Or.inl hc
            · simp only [hc, Bool.false_eq_true, Bool.false_or] at hcc
              simp only [hc, Bool.false_eq_true, if_false, hcc, if_true] at src
              exact Or.inr src.1
        · simp only [hcc, Bool.false_eq_true, if_false] at h1
          exact Or.inl h1
      · exact Or.inr ⟨x, by simp [pairs, hx], e⟩

/-- where the bucket of every page came from: its bucket information, or an allocation -/
theorem src_spec {a a' : Acc} {ds : List Dirty} {bs : List Nat} {cs : List Bool} (h : Chain hash off a ds bs cs a') :
    ∀ x ∈ pairs ds bs, x.2.bucket = .known x.1 ∨ x.2.bucket = .depSet x.1 ∨
      (x.2.diff.cleared = false ∧ (x.2.bucket = .fresh ∨ x.2.bucket = .depUnset)) := by
  induction h with
  | nil => intro x hx; simp [pairs] at hx
  | @cons a a1 a' d ds b bs c cs s _ ih =>
    intro x hx
    simp only [pairs, List.mem_cons] at hx
    rcases hx with rfl | hx
    · have src := s.src
      by_cases hc : d.diff.cleared = true
      · simp only [hc, if_true] at src
        rcases src.1 with e | e
        · exact Or.inl e
        · exact Or.inr (Or.inl e)
      · have hc' : d.diff.cleared = false := by simpa using hc
        simp only [hc', Bool.false_eq_true, if_false] at src
        by_cases hcc : c = true
        · simp only [hcc, if_true] at src
          exact Or.inr (Or.inr ⟨hc', src.1⟩)
        · simp only [hcc, Bool.false_eq_true, if_false] at src
          rcases src with e | e
          · exact Or.inl e
          · exact Or.inr (Or.inl e)
    · exact ih x hx

end Chain

end Nomt.PrepSync
