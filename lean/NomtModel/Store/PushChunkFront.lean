import NomtModel.Store.PushChunkPrefix
import NomtModel.Store.PushChunkSeps
import NomtModel.Store.PushChunkPtrs
/-!
# `BranchNodeBuilder::push_chunk` — steps 1 and 2 together, and the key arithmetic of the decoded separators
-/
namespace Nomt.BitOps

/-- bit `p` of the key of a prefix-compressed separator: `pl` prefix bits, `L` stored bits at offset `s`, zeros -/
def compKeyBit (A : Nat → Bool) (pl s L p : Nat) : Bool :=
  if p < pl then A p else if p < pl + L then A (pl + s + (p - pl)) else false

theorem storedKeyBit_comp (pg : List Nat) (n pc pl s e i p : Nat) (hi : i < pc) :
    storedKeyBit pg n pc pl s e i p = compKeyBit (fun q => bitOf pg (8 * (10 + n * 2) + q)) pl s (e - s) p := by
  unfold storedKeyBit compKeyBit
  simp only [if_pos hi, BRANCH_HEADER]
  have e1 : ∀ q, 8 * (10 + 2 * n) + q = 8 * (10 + n * 2) + q := by intro q; omega
  simp only [e1]

/-- prefix SHORTER in the new node (`diff` carried prefix bits in front of every separator) -/
theorem compKeyBit_ext (N B : Nat → Bool) (plN plB diff sN sB L p : Nat) (hpl : plN + diff = plB)
    (hpre : ∀ q, q < plN → N q = compKeyBit B plB sB L q)
    (h1 : ∀ t, t < diff → N (plN + sN + t) = B (plN + t))
    (h2 : ∀ t, t < L → N (plN + sN + diff + t) = B (plB + sB + t)) :
    compKeyBit N plN sN (L + diff) p = compKeyBit B plB sB L p := by
  by_cases c1 : p < plN
  · rw [compKeyBit, if_pos c1, hpre p c1]
  · unfold compKeyBit
    rw [if_neg c1]
    by_cases c2 : p < plB
    · rw [if_pos (by omega), if_pos c2, h1 (p - plN) (by omega)]
      congr 1; omega
    · rw [if_neg c2]
      by_cases c3 : p < plB + L
      · rw [if_pos (by omega), if_pos c3]
        have := h2 (p - plB) (by omega)
        rw [← this]; congr 1; omega
      · rw [if_neg (by omega), if_neg c3]

/-- prefix LONGER (or equal) in the new node: every separator loses its first `diff` bits -/
theorem compKeyBit_noext (N B : Nat → Bool) (plN plB diff sN sB L p : Nat) (hpl : plN = plB + diff)
    (hpre : ∀ q, q < plN → N q = compKeyBit B plB sB L q)
    (h1 : ∀ t, t < L - diff → N (plN + sN + t) = B (plB + sB + diff + t)) :
    compKeyBit N plN sN (L - diff) p = compKeyBit B plB sB L p := by
  by_cases c1 : p < plN
  · rw [compKeyBit, if_pos c1, hpre p c1]
  · unfold compKeyBit
    rw [if_neg c1, if_neg (show ¬ p < plB by omega)]
    by_cases c3 : p < plN + (L - diff)
    · rw [if_pos c3, if_pos (by omega), h1 (p - plN) (by omega)]
      congr 1; omega
    · rw [if_neg c3, if_neg (by omega)]

theorem mono_chain (c : Nat → Nat) (n : Nat) (h : ∀ i, i < n → prevCell c i ≤ c i) : ∀ j i, i ≤ j → j < n → c i ≤ c j := by
  intro j
  induction j with
  | zero => intro i hi _; have : i = 0 := by omega
            subst this; exact Nat.le_refl _
  | succ j ih =>
    intro i hi hj
    by_cases e : i = j + 1
    · subst e; exact Nat.le_refl _
    · have h1 := ih i (by omega) (by omega)
      have h2 := h (j + 1) hj
      rw [prevCell_succ] at h2
      omega

theorem prevCell_le (c : Nat → Nat) (n : Nat) (h : ∀ i, i < n → prevCell c i ≤ c i) (i j : Nat) (hij : i ≤ j) (hj : j < n) :
    prevCell c i ≤ c j := Nat.le_trans (h i (by omega)) (mono_chain c n h j i hij hj)

/-- the cells of the node after the chunk -/
def newCells (cOld cB : Nat → Nat) (idx off frm isExt diff : Nat) (i : Nat) : Nat :=
  if i < idx then cOld i else off + cellSum cB frm isExt diff (i - idx + 1)

theorem newCells_at (cOld cB : Nat → Nat) (idx off frm isExt diff j : Nat) :
    newCells cOld cB idx off frm isExt diff (idx + j) = off + cellSum cB frm isExt diff (j + 1) := by
  unfold newCells
  rw [if_neg (by omega), show idx + j - idx + 1 = j + 1 by omega]

theorem prevCell_newCells (cOld cB : Nat → Nat) (idx off frm isExt diff j : Nat) (hoff : prevCell cOld idx = off) :
    prevCell (newCells cOld cB idx off frm isExt diff) (idx + j) = off + cellSum cB frm isExt diff j := by
  by_cases hj : j = 0
  · subst hj
    rw [Nat.add_zero]
    unfold prevCell at hoff ⊢
    by_cases h0 : idx = 0
    · rw [if_pos h0] at hoff ⊢; simp [cellSum, hoff]
    · rw [if_neg h0] at hoff ⊢
      unfold newCells
      rw [if_pos (by omega), hoff]; simp [cellSum]
  · have : idx + j = idx + (j - 1) + 1 := by omega
    rw [this, prevCell_succ, newCells_at, show j - 1 + 1 = j by omega]

theorem updFun_congr (idx : Nat) : ∀ (upd : List (Nat × Nat)) (f g : Nat → Nat) (j : Nat), f j = g j →
    updFun idx upd f j = updFun idx upd g j := by
  intro upd
  induction upd with
  | nil => intro f g j h; exact h
  | cons x r ih =>
    intro f g j h
    obtain ⟨i, pn⟩ := x
    show updFun idx r _ j = updFun idx r _ j
    apply ih
    simp only [h]

/-- steps 1 and 2 of `push_chunk` (cells, node pointers, `updated`) on the page `pg` (after `set_prefix`) -/
theorem pushChunk_front (pg base : List Nat) (idx off frm nItems isExt diff : Nat) (upd : List (Nat × Nat))
    (nN pcN plN : Nat) (cOld : Nat → Nat) (nB pcB plB : Nat) (cB : Nat → Nat) (lastN : Nat)
    (LN : Lay pg nN pcN plN cOld idx) (LB : Lay base nB pcB plB cB nB) (monoB : ∀ i, i < nB → prevCell cB i ≤ cB i)
    (hto : frm + nItems ≤ nB) (hiN : idx + nItems ≤ nN) (FN : Fit nN plN lastN) (hnB4 : nB * 4 + 10 ≤ 4096)
    (hcp : off + cellSum cB frm isExt diff nItems ≤ lastN)
    (hupd : ∀ x, x ∈ upd → idx + x.1 < nN ∧ x.2 < 4294967296) :
    ∃ p1 p3, copyCells base frm isExt diff 0 nItems idx pg (prevCell cB frm) off =
        some (p1, off + cellSum cB frm isExt diff nItems) ∧
      applyUpdated idx upd (writeAt p1 (PAGE_SIZE - nN * 4 + idx * 4)
        ((base.drop (PAGE_SIZE - nB * 4 + frm * 4)).take (nItems * 4))) = some p3 ∧
      Lay p3 nN pcN plN (newCells cOld cB idx off frm isExt diff) (idx + nItems) ∧
      (∀ i, (i < 10 + 2 * idx ∨ (10 + 2 * (idx + nItems) ≤ i ∧ i < 4096 - nN * 4)) → p3.getD i 0 = pg.getD i 0) ∧
      (∀ j, j < nN → ptrVal p3 nN j = updFun idx upd
        (fun j => if idx ≤ j ∧ j < idx + nItems then ptrVal base nB (frm + (j - idx)) else ptrVal pg nN j) j) := by
  have hfit := FN.fit
  have h16 : off + cellSum cB frm isExt diff (0 + nItems) < 65536 := by rw [Nat.zero_add]; omega
  obtain ⟨p1, c1, c2, c3, c4, c5⟩ := copyCells_spec base cB frm isExt diff idx off nItems 0 pg
    (fun j _ hj => LB.hcell _ (by omega)) (fun j _ hj => monoB _ (by omega)) (by rw [LN.len]; omega) h16 LN.bytes
  simp only [Nat.add_zero, Nat.zero_add] at c1 c4 c5
  have z : cellSum cB frm isExt diff 0 = 0 := rfl
  rw [z, Nat.add_zero] at c1
  obtain ⟨d1, d2, d3, d4⟩ := copyPointers_spec p1 base nN nB idx frm nItems (by rw [c2, LN.len]) LB.len c3 LB.bytes hiN hto
    (by omega) (by omega)
  have hn1 : nodeN p1 = some nN := by
    rw [← LN.hn]; unfold nodeN
    exact u16At_congr c2 4 (c5 4 (by left; omega)) (c5 5 (by left; omega))
  have hn2 : nodeN (writeAt p1 (PAGE_SIZE - nN * 4 + idx * 4) ((base.drop (PAGE_SIZE - nB * 4 + frm * 4)).take (nItems * 4))) = some nN := by
    rw [← hn1]; unfold nodeN
    exact u16At_congr d1 4 (d3 4 (by omega)) (d3 5 (by omega))
  obtain ⟨p3, u1, u2, u3, u4, u5⟩ := applyUpdated_spec idx nN (by omega) upd _ hn2 (by rw [d1, c2, LN.len]) d2 hupd
  have hbytes : ∀ i, i < 4096 - nN * 4 → p3.getD i 0 = p1.getD i 0 := fun i hi => by rw [u4 i hi, d3 i hi]
  refine ⟨p1, p3, c1, u1, ?_, ?_, ?_⟩
  · refine ⟨u3, by rw [u2, d1, c2, LN.len], ?_, ?_, ?_, ?_⟩
    · rw [← LN.hn]; unfold nodeN
      exact u16At_congr (by rw [u2, d1, c2]) 4 (by rw [hbytes 4 (by omega), c5 4 (by left; omega)])
        (by rw [hbytes 5 (by omega), c5 5 (by left; omega)])
    · rw [← LN.hpc]; unfold nodePc
      exact u16At_congr (by rw [u2, d1, c2]) 6 (by rw [hbytes 6 (by omega), c5 6 (by left; omega)])
        (by rw [hbytes 7 (by omega), c5 7 (by left; omega)])
    · rw [← LN.hpl]; unfold nodePl
      exact u16At_congr (by rw [u2, d1, c2]) 8 (by rw [hbytes 8 (by omega), c5 8 (by left; omega)])
        (by rw [hbytes 9 (by omega), c5 9 (by left; omega)])
    · intro i hi
      unfold nodeCell
      simp only [BRANCH_HEADER]
      by_cases hlt : i < idx
      · have : newCells cOld cB idx off frm isExt diff i = cOld i := by unfold newCells; rw [if_pos hlt]
        rw [this, ← LN.hcell i hlt]
        unfold nodeCell
        simp only [BRANCH_HEADER]
        exact u16At_congr (by rw [u2, d1, c2]) _ (by rw [hbytes _ (by omega), c5 _ (by left; omega)])
          (by rw [hbytes _ (by omega), c5 _ (by left; omega)])
      · have hc := c4 (i - idx) (Nat.zero_le _) (by omega)
        have e1 : idx + (i - idx) = i := by omega
        rw [e1] at hc
        have e2 : newCells cOld cB idx off frm isExt diff i = off + cellSum cB frm isExt diff (i - idx + 1) := by
          unfold newCells; rw [if_neg hlt]
        rw [e2, ← hc]
        unfold nodeCell
        simp only [BRANCH_HEADER]
        exact u16At_congr (by rw [u2, d1]) _ (hbytes _ (by omega)) (hbytes _ (by omega))
  · intro i hi
    rcases hi with hi | hi
    · rw [hbytes i (by omega), c5 i (by left; omega)]
    · rw [hbytes i (by omega), c5 i (by right; omega)]
  · intro j hj
    rw [u5 j hj]
    apply updFun_congr
    rw [d4 j hj]
    by_cases hc : idx ≤ j ∧ j < idx + nItems
    · rw [if_pos hc, if_pos hc]
    · rw [if_neg hc, if_neg hc]
      unfold ptrVal
      apply u32Val_congr
      intro r hr
      apply c5
      right; omega

end Nomt.BitOps
