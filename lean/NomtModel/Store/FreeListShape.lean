import NomtModel.Store.FreeListLemmas
/-!
Shape of the paginated free list and one-step view of the `preallocate` loop.

* `WellShaped cap ps` — the invariant of a committed free list: every portion holds between 1 and `cap`
  items, every portion below the head is full, except that the second may hold `cap - 1` items when the head
  holds exactly one (the "fragmentation" of the comment of `FreeList::commit`);
* `paStep` — one iteration of the `while i < to_push.len()` loop; `paLoop_succ` ties it to `paLoop`,
  `paStep_cases` lists the four things an iteration can do;
* `PAShape` — the shape invariant of the preallocation state (`paStart_shape`, `paStep_shape`);
* `PAFresh` — every page number `preallocate` takes for the free list's own pages was free in the state the
  sync started from or lies beyond its frontier (`paStart_fresh`, `paStep_fresh`), and `pushEnc_written`:
  `push_and_encode` hands only such pages to `encode_head`.
-/
namespace Nomt.Store.FreeList

/-! ### well-shaped lists -/

def TailFull (cap : Nat) (ps : List Portion) : Prop := ∀ p ∈ ps, p.2.length = cap

def WellShaped (cap : Nat) : List Portion → Prop
  | [] => True
  | [(_, items)] => 1 ≤ items.length ∧ items.length ≤ cap
  | (_, items) :: (_, second) :: rest =>
    1 ≤ items.length ∧ items.length ≤ cap ∧
    (second.length = cap ∨ (items.length = 1 ∧ second.length + 1 = cap)) ∧ TailFull cap rest

theorem TailFull.nil (cap : Nat) : TailFull cap [] := by intro p hp; cases hp

theorem TailFull.cons {cap : Nat} {h : Nat} {items : List Nat} {rest : List Portion}
    (h1 : items.length = cap) (h2 : TailFull cap rest) : TailFull cap ((h, items) :: rest) := by
  intro p hp
  rcases List.mem_cons.mp hp with rfl | hp
  · exact h1
  · exact h2 p hp

theorem TailFull.tail {cap : Nat} {p : Portion} {rest : List Portion} (h : TailFull cap (p :: rest)) :
    TailFull cap rest := fun q hq => h q (List.mem_cons_of_mem _ hq)

theorem TailFull.head {cap : Nat} {p : Portion} {rest : List Portion} (h : TailFull cap (p :: rest)) :
    p.2.length = cap := h p List.mem_cons_self

theorem WellShaped.head_len {cap h : Nat} {items : List Nat} {rest : List Portion}
    (hw : WellShaped cap ((h, items) :: rest)) : 1 ≤ items.length ∧ items.length ≤ cap := by
  cases rest with
  | nil => exact hw
  | cons q r => obtain ⟨qh, qi⟩ := q; exact ⟨hw.1, hw.2.1⟩

/-- what lies below the head: a full (or one-short, if the head holds one item) portion over full portions -/
theorem WellShaped.below {cap h nh : Nat} {items nitems : List Nat} {rest : List Portion}
    (hw : WellShaped cap ((h, items) :: (nh, nitems) :: rest)) :
    (nitems.length = cap ∨ (items.length = 1 ∧ nitems.length + 1 = cap)) ∧ TailFull cap rest :=
  ⟨hw.2.2.1, hw.2.2.2⟩

theorem WellShaped.tail_of_two {cap h : Nat} {items : List Nat} {rest : List Portion}
    (hw : WellShaped cap ((h, items) :: rest)) (h2 : 2 ≤ items.length) : TailFull cap rest := by
  cases rest with
  | nil => exact TailFull.nil cap
  | cons q r =>
    obtain ⟨qh, qi⟩ := q
    obtain ⟨hb, ht⟩ := hw.below
    rcases hb with e | ⟨e, _⟩
    · exact TailFull.cons e ht
    · omega

/-- a head of 1 … cap items over full portions is well-shaped -/
theorem wellShaped_of_tailFull {cap h : Nat} {items : List Nat} {rest : List Portion}
    (h1 : 1 ≤ items.length) (h2 : items.length ≤ cap) (ht : TailFull cap rest) :
    WellShaped cap ((h, items) :: rest) := by
  cases rest with
  | nil => exact ⟨h1, h2⟩
  | cons q r =>
    obtain ⟨qh, qi⟩ := q
    exact ⟨h1, h2, Or.inl ht.head, ht.tail⟩

/-- what remains below a well-shaped head is well-shaped -/
theorem WellShaped.rest {cap h : Nat} {items : List Nat} {rest : List Portion} (hc : 2 ≤ cap)
    (hw : WellShaped cap ((h, items) :: rest)) : WellShaped cap rest := by
  cases rest with
  | nil => trivial
  | cons q r =>
    obtain ⟨qh, qi⟩ := q
    obtain ⟨hb, ht⟩ := hw.below
    apply wellShaped_of_tailFull _ _ ht
    · rcases hb with e | ⟨_, e⟩ <;> omega
    · rcases hb with e | ⟨_, e⟩ <;> omega

/-- `discard` keeps a list well-shaped -/
theorem discardP_wellShaped {cap : Nat} (hc : 2 ≤ cap) : ∀ (ps : List Portion) (n : Nat) (rel : List Nat),
    WellShaped cap ps → WellShaped cap (discardP n ps rel).1 := by
  intro ps
  induction ps with
  | nil => intro n rel _; trivial
  | cons p rest ih =>
    intro n rel hw
    obtain ⟨h, items⟩ := p
    unfold discardP
    by_cases hn : n = 0
    · rw [if_pos hn]; exact hw
    · rw [if_neg hn]
      by_cases hlt : n < items.length
      · rw [if_pos hlt]
        have hl := hw.head_len
        have ht : TailFull cap rest := hw.tail_of_two (by omega)
        exact wellShaped_of_tailFull (by simp only [List.length_drop]; omega)
          (by simp only [List.length_drop]; omega) ht
      · rw [if_neg hlt]
        exact ih _ _ (hw.rest hc)

/-! ### one iteration of the `preallocate` loop -/

def paStep (cap : Nat) (st : PA) : Option PA :=
  match st.nfp, st.ps with
  | true, (h, x :: xs) :: rest =>
    some { st with ps := (x, xs) :: rest, toPush := st.toPush ++ [h], nfp := false, i := st.i + 1 }
  | true, (_, []) :: _ => none
  | _, _ =>
    match popP st.ps with
    | .ok pn rel ps' =>
      some { st with ps := ps', newPages := st.newPages ++ pn :: rel.toList,
                     nfp := rel.isSome || st.nfp, i := st.i + 1 + cap }
    | .empty =>
      some { st with newPages := st.newPages ++ [st.bump], bump := st.bump + 1, i := st.i + cap }
    | .panic => none

theorem paLoop_zero (cap : Nat) (st : PA) :
    paLoop cap 0 st = if st.i < st.toPush.length then none else some st := rfl

theorem paLoop_succ (cap fuel : Nat) (st : PA) :
    paLoop cap (fuel + 1) st =
      if st.i < st.toPush.length then
        match paStep cap st with
        | some st1 => paLoop cap fuel st1
        | none => none
      else some st := by
  obtain ⟨ps, toPush, newPages, bump, i, nfp⟩ := st
  simp only [paLoop, paStep]
  split
  · cases nfp with
    | true =>
      match ps with
      | [] => simp [popP]
      | (h, []) :: rest => rfl
      | (h, x :: xs) :: rest => rfl
    | false =>
      match ps with
      | [] => simp [popP]
      | (h, []) :: rest => simp [popP]
      | (h, [x]) :: rest => simp [popP]
      | (h, x :: y :: xs) :: rest => simp [popP]
  · rfl

/-- the four things an iteration does -/
inductive StepKind (cap : Nat) (st st1 : PA) : Prop where
  /-- a full portion was just uncovered: its top item becomes its new page number, the old one is pushed -/
  | rehead (h x : Nat) (xs : List Nat) (rest : List Portion) (hn : st.nfp = true)
      (hps : st.ps = (h, x :: xs) :: rest)
      (e : st1 = { st with ps := (x, xs) :: rest, toPush := st.toPush ++ [h], nfp := false, i := st.i + 1 })
  /-- a new page popped from a head that keeps items -/
  | pop (h x y : Nat) (xs : List Nat) (rest : List Portion) (hn : st.nfp = false)
      (hps : st.ps = (h, x :: y :: xs) :: rest)
      (e : st1 = { st with ps := (h, y :: xs) :: rest, newPages := st.newPages ++ [x], nfp := false,
                           i := st.i + 1 + cap })
  /-- a new page popped, emptying the head, whose page number becomes a second new page -/
  | release (h x : Nat) (rest : List Portion) (hn : st.nfp = false) (hps : st.ps = (h, [x]) :: rest)
      (e : st1 = { st with ps := rest, newPages := st.newPages ++ [x, h], nfp := true, i := st.i + 1 + cap })
  /-- the list is empty: a new page from the bump allocator -/
  | bump (hps : st.ps = [])
      (e : st1 = { st with newPages := st.newPages ++ [st.bump], bump := st.bump + 1, i := st.i + cap })

theorem paStep_cases {cap : Nat} {st st1 : PA} (h : paStep cap st = some st1) : StepKind cap st st1 := by
  obtain ⟨ps, toPush, newPages, bump, i, nfp⟩ := st
  cases nfp with
  | true =>
    match ps, h with
    | [], h =>
      simp only [paStep, popP, Option.some.injEq] at h
      exact .bump rfl h.symm
    | (hd, []) :: rest, h => simp [paStep] at h
    | (hd, x :: xs) :: rest, h =>
      simp only [paStep, Option.some.injEq] at h
      exact .rehead hd x xs rest rfl rfl h.symm
  | false =>
    match ps, h with
    | [], h =>
      simp only [paStep, popP, Option.some.injEq] at h
      exact .bump rfl h.symm
    | (hd, []) :: rest, h => simp [paStep, popP] at h
    | (hd, [x]) :: rest, h =>
      simp only [paStep, popP, Option.some.injEq] at h
      exact .release hd x rest rfl rfl (by rw [← h]; rfl)
    | (hd, x :: y :: xs) :: rest, h =>
      simp only [paStep, popP, Option.some.injEq] at h
      exact .pop hd x y xs rest rfl rfl (by rw [← h]; rfl)

/-- induction principle: what every iteration preserves holds when the loop ends, and the loop ends with the
cursor past `to_push` -/
theorem paLoop_induct (cap : Nat) (Inv : PA → Prop)
    (hstep : ∀ st st1, Inv st → st.i < st.toPush.length → StepKind cap st st1 → Inv st1) :
    ∀ (fuel : Nat) (st st' : PA), paLoop cap fuel st = some st' → Inv st →
      Inv st' ∧ st'.toPush.length ≤ st'.i := by
  intro fuel
  induction fuel with
  | zero =>
    intro st st' h hi
    rw [paLoop_zero] at h
    split at h
    · cases h
    · injection h with h; subst h; exact ⟨hi, by omega⟩
  | succ fuel ih =>
    intro st st' h hi
    rw [paLoop_succ] at h
    split at h
    · rename_i hlt
      split at h
      · rename_i st1 hs
        exact ih st1 st' h (hstep st st1 hi hlt (paStep_cases hs))
      · cases h
    · injection h with h; subst h; exact ⟨hi, by omega⟩

/-! ### the shape of the preallocation state -/

structure PAShape (cap : Nat) (st : PA) : Prop where
  tail : ∀ h items rest, st.ps = (h, items) :: rest → TailFull cap rest
  full : ∀ h items rest, st.ps = (h, items) :: rest → st.nfp = true → items.length = cap
  part : ∀ h items rest, st.ps = (h, items) :: rest → st.nfp = false → 1 ≤ items.length ∧ items.length + 1 ≤ cap

theorem paStart_shape {cap : Nat} (hc : 2 ≤ cap) {ps : List Portion} {toPush : List Nat} {bump : Nat} {st : PA}
    (hw : WellShaped cap ps) (h : paStart cap ps toPush bump = some st) : PAShape cap st := by
  match ps, hw, h with
  | [], _, h =>
    simp only [paStart, popP, Option.some.injEq] at h
    subst h
    exact ⟨(by intro _ _ _ e; cases e), (by intro _ _ _ e; cases e), (by intro _ _ _ e; cases e)⟩
  | (hd, []) :: rest, _, h => simp [paStart, popP] at h
  | [(hd, [x])], _, h =>
    simp only [paStart, popP, Option.some.injEq] at h
    subst h
    exact ⟨(by intro _ _ _ e; cases e), (by intro _ _ _ e; cases e), (by intro _ _ _ e; cases e)⟩
  | (hd, [x]) :: (nh, nitems) :: rest, hw, h =>
    obtain ⟨hb, ht⟩ := hw.below
    simp only [paStart, popP] at h
    split at h
    · rename_i hfrag
      injection h with h; subst h
      refine ⟨?_, ?_, ?_⟩
      · intro _ _ _ e; simp only [List.cons.injEq, Prod.mk.injEq] at e; rw [← e.2]; exact ht
      · intro _ _ _ _ e; cases e
      · intro _ _ _ e _
        simp only [List.cons.injEq, Prod.mk.injEq] at e
        rw [← e.1.2]; omega
    · rename_i hnf
      injection h with h; subst h
      have hfull : nitems.length = cap := by
        rcases hb with e | ⟨_, e⟩
        · exact e
        · omega
      refine ⟨?_, ?_, ?_⟩
      · intro _ _ _ e; simp only [List.cons.injEq, Prod.mk.injEq] at e; rw [← e.2]; exact ht
      · intro _ _ _ e _
        simp only [List.cons.injEq, Prod.mk.injEq] at e
        rw [← e.1.2]; exact hfull
      · intro _ _ _ _ e; cases e
  | (hd, x :: y :: xs) :: rest, hw, h =>
    simp only [paStart, popP, Option.some.injEq] at h
    subst h
    have hl := hw.head_len
    have ht : TailFull cap rest := hw.tail_of_two (by simp)
    simp only [List.length_cons] at hl
    refine ⟨?_, ?_, ?_⟩
    · intro _ _ _ e; simp only [List.cons.injEq, Prod.mk.injEq] at e; rw [← e.2]; exact ht
    · intro _ _ _ _ e; cases e
    · intro _ _ _ e _
      simp only [List.cons.injEq, Prod.mk.injEq] at e
      rw [← e.1.2]; simp only [List.length_cons]; omega

theorem paStep_shape {cap : Nat} (hc : 2 ≤ cap) {st st1 : PA} (hs : PAShape cap st) (k : StepKind cap st st1) :
    PAShape cap st1 := by
  cases k with
  | rehead h x xs rest hn hps e =>
    subst e
    have hfull := hs.full _ _ _ hps hn
    have ht := hs.tail _ _ _ hps
    simp only [List.length_cons] at hfull
    refine ⟨?_, ?_, ?_⟩
    · intro _ _ _ e; simp only [List.cons.injEq, Prod.mk.injEq] at e; rw [← e.2]; exact ht
    · intro _ _ _ _ e; cases e
    · intro _ _ _ e _
      simp only [List.cons.injEq, Prod.mk.injEq] at e
      rw [← e.1.2]; omega
  | pop h x y xs rest hn hps e =>
    subst e
    have hp := hs.part _ _ _ hps hn
    have ht := hs.tail _ _ _ hps
    simp only [List.length_cons] at hp
    refine ⟨?_, ?_, ?_⟩
    · intro _ _ _ e; simp only [List.cons.injEq, Prod.mk.injEq] at e; rw [← e.2]; exact ht
    · intro _ _ _ _ e; cases e
    · intro _ _ _ e _
      simp only [List.cons.injEq, Prod.mk.injEq] at e
      rw [← e.1.2]; simp only [List.length_cons]; omega
  | release h x rest hn hps e =>
    subst e
    have ht := hs.tail _ _ _ hps
    refine ⟨?_, ?_, ?_⟩
    · intro _ _ _ e; simp only at e; rw [e] at ht; exact ht.tail
    · intro _ _ _ e _; simp only at e; rw [e] at ht; exact ht.head
    · intro _ _ _ _ e; cases e
  | bump hps e =>
    subst e
    exact ⟨(by intro _ _ _ e; simp only at e; rw [hps] at e; cases e),
           (by intro _ _ _ e; simp only at e; rw [hps] at e; cases e),
           (by intro _ _ _ e; simp only at e; rw [hps] at e; cases e)⟩

/-! ### freshness of the pages taken for the free list itself -/

/-- `I` are the free pages of the list `preallocate` starts from, `B` the frontier it starts from -/
structure PAFresh (I : List Nat) (B : Nat) (st : PA) : Prop where
  items : ∀ x ∈ itemsOf st.ps, x ∈ I
  newp : ∀ x ∈ st.newPages, x ∈ I ∨ B ≤ x
  bump : B ≤ st.bump
  head : st.nfp = false → ∀ h ∈ headPn st.ps, h ∈ I ∨ B ≤ h

theorem paStart_fresh {cap : Nat} {ps : List Portion} {toPush : List Nat} {bump : Nat} {st : PA}
    (h : paStart cap ps toPush bump = some st) : PAFresh (itemsOf ps) bump st := by
  match ps, h with
  | [], h =>
    simp only [paStart, popP, Option.some.injEq] at h
    subst h
    exact ⟨by intro x hx; exact hx, (by intro x hx; cases hx), Nat.le_refl _, (by intro e; cases e)⟩
  | (hd, []) :: rest, h => simp [paStart, popP] at h
  | [(hd, [x])], h =>
    simp only [paStart, popP, Option.some.injEq] at h
    subst h
    refine ⟨by intro y hy; simp [itemsOf] at hy, ?_, Nat.le_refl _, (by intro e; cases e)⟩
    intro y hy
    simp only [List.mem_singleton] at hy
    subst hy
    left; simp [itemsOf]
  | (hd, [x]) :: (nh, nitems) :: rest, h =>
    simp only [paStart, popP] at h
    split at h
    · injection h with h; subst h
      refine ⟨?_, (by intro y hy; cases hy), Nat.le_refl _, ?_⟩
      · intro y hy
        simp only [itemsOf_cons] at hy ⊢
        exact List.mem_append_right _ hy
      · intro _ y hy
        simp only [headPn, List.mem_singleton] at hy
        subst hy
        left; simp [itemsOf_cons]
    · injection h with h; subst h
      refine ⟨?_, ?_, Nat.le_refl _, (by intro e; cases e)⟩
      · intro y hy
        simp only [itemsOf_cons] at hy ⊢
        exact List.mem_append_right _ hy
      · intro y hy
        simp only [List.mem_singleton] at hy
        subst hy
        left; simp [itemsOf_cons]
  | (hd, x :: y :: xs) :: rest, h =>
    simp only [paStart, popP, Option.some.injEq] at h
    subst h
    refine ⟨?_, (by intro z hz; cases hz), Nat.le_refl _, ?_⟩
    · intro z hz
      simp only [itemsOf_cons, List.mem_append, List.mem_cons] at hz ⊢
      rcases hz with (hz | hz) | hz
      · exact Or.inl (Or.inr (Or.inl hz))
      · exact Or.inl (Or.inr (Or.inr hz))
      · exact Or.inr hz
    · intro _ z hz
      simp only [headPn, List.mem_singleton] at hz
      subst hz
      left; simp [itemsOf_cons]

theorem paStep_fresh {cap : Nat} {I : List Nat} {B : Nat} {st st1 : PA} (hf : PAFresh I B st)
    (k : StepKind cap st st1) : PAFresh I B st1 := by
  cases k with
  | rehead h x xs rest hn hps e =>
    subst e
    have hit := hf.items
    rw [hps] at hit
    simp only [itemsOf_cons, List.mem_append, List.mem_cons] at hit
    refine ⟨?_, hf.newp, hf.bump, ?_⟩
    · intro z hz
      simp only [itemsOf_cons, List.mem_append] at hz
      rcases hz with hz | hz
      · exact hit z (Or.inl (Or.inr hz))
      · exact hit z (Or.inr hz)
    · intro _ z hz
      simp only [headPn, List.mem_singleton] at hz
      subst hz
      exact Or.inl (hit z (Or.inl (Or.inl rfl)))
  | pop h x y xs rest hn hps e =>
    subst e
    have hit := hf.items
    have hhd := hf.head hn
    rw [hps] at hit hhd
    simp only [itemsOf_cons, List.mem_append, List.mem_cons] at hit
    refine ⟨?_, ?_, hf.bump, ?_⟩
    · intro z hz
      simp only [itemsOf_cons, List.mem_append, List.mem_cons] at hz
      rcases hz with (hz | hz) | hz
      · exact hit z (Or.inl (Or.inr (Or.inl hz)))
      · exact hit z (Or.inl (Or.inr (Or.inr hz)))
      · exact hit z (Or.inr hz)
    · intro z hz
      rcases List.mem_append.mp hz with hz | hz
      · exact hf.newp z hz
      · simp only [List.mem_singleton] at hz
        subst hz
        exact Or.inl (hit z (Or.inl (Or.inl rfl)))
    · intro _ z hz
      exact hhd z hz
  | release h x rest hn hps e =>
    subst e
    have hit := hf.items
    have hhd := hf.head hn
    rw [hps] at hit hhd
    simp only [itemsOf_cons, List.mem_append, List.mem_cons] at hit
    refine ⟨?_, ?_, hf.bump, (by intro e; cases e)⟩
    · intro z hz
      exact hit z (Or.inr hz)
    · intro z hz
      rcases List.mem_append.mp hz with hz | hz
      · exact hf.newp z hz
      · simp only [List.mem_cons, List.not_mem_nil, or_false] at hz
        rcases hz with rfl | rfl
        · exact Or.inl (hit _ (Or.inl (Or.inl rfl)))
        · exact hhd _ (by simp [headPn])
  | bump hps e =>
    subst e
    refine ⟨hf.items, ?_, by have := hf.bump; simp only; omega, ?_⟩
    · intro z hz
      rcases List.mem_append.mp hz with hz | hz
      · exact hf.newp z hz
      · simp only [List.mem_singleton] at hz
        subst hz
        exact Or.inr hf.bump
    · intro hn z hz
      simp only at hz
      rw [hps] at hz; cases hz

/-- `push_and_encode` hands to `encode_head` only the (touched) head it starts from and the new pages -/
theorem pushEnc_written (cap : Nat) (F : Nat → Prop) : ∀ (toPush newPages : List Nat) (ps : List Portion)
    (written : List Nat) (unt : Bool) (ps' : List Portion) (w' : List Nat),
    pushEnc cap toPush newPages ps written unt = some (ps', w') →
    (∀ x ∈ newPages, F x) → (unt = false → ∀ h ∈ headPn ps, F h) →
    (unt = true → headFull cap ps = true ∧ toPush ≠ []) → (∀ x ∈ written, F x) →
    ∀ x ∈ w', F x := by
  intro toPush
  induction toPush with
  | nil =>
    intro newPages ps written unt ps' w' h hn hh hu hw
    simp only [pushEnc] at h
    split at h
    · injection h with h
      injection h with h1 h2
      subst h2
      have hf : unt = false := by
        cases unt with
        | false => rfl
        | true => exact absurd rfl (hu rfl).2
      intro x hx
      rcases List.mem_append.mp hx with hx | hx
      · exact hw x hx
      · exact hh hf x hx
    · cases h
  | cons pn rest ih =>
    intro newPages ps written unt ps' w' h hn hh hu hw
    simp only [pushEnc] at h
    split at h
    · split at h
      · cases h
      · rename_i np nps
        split at h
        · apply ih _ _ _ _ _ _ h
          · intro x hx; exact hn x (List.mem_cons_of_mem _ hx)
          · intro _ z hz
            simp only [headPn, List.mem_singleton] at hz
            subst hz
            exact hn _ List.mem_cons_self
          · intro e; cases e
          · intro x hx
            cases unt with
            | true => exact hw x hx
            | false =>
              simp only [Bool.false_eq_true, if_false] at hx
              rcases List.mem_append.mp hx with hx | hx
              · exact hw x hx
              · exact hh rfl x hx
        · cases h
    · rename_i hcond
      have hnf : headFull cap ps = false := by
        simp only [Bool.or_eq_true, not_or] at hcond
        simpa using hcond.1
      have hf : unt = false := by
        cases unt with
        | false => rfl
        | true => rw [(hu rfl).1] at hnf; cases hnf
      split at h
      · rename_i hd items r
        split at h
        · apply ih _ _ _ _ _ _ h hn
          · intro _ z hz
            simp only [headPn, List.mem_singleton] at hz
            subst hz
            exact hh hf _ (by simp [headPn])
          · intro e; rw [hf] at e; cases e
          · exact hw
        · cases h
      · cases h

end Nomt.Store.FreeList
