import NomtModel.Store.FrameFresh
import NomtModel.Store.LeafRt
import NomtModel.Store.BranchRt
/-!
# A kernel-checked accepted image WITH a leaf and a branch node

`mk z lp bp`: `ln = z ++ lp`, `bbn = z ++ bp`, frontier 2 in both files, no free lists.  Stated for page variables (`z` all
zero, `lp` decoding to the leaf entries `es`, `bp` decoding to a branch node with the single separator 0 ↦ leaf page 1) so that
the kernel never evaluates a 4096-byte literal; the instances are built with the mirror encoders `encodeLeaf` (`LeafRt`) and
`encodeBranch` (`BranchRt`) through their round-trip theorems.
-/
namespace Nomt.Store.Small

def m : Meta :=
  { magic := MAGIC, version := 1, lnFreelistPn := 0, lnBump := 2, bbnFreelistPn := 0, bbnBump := 2, syncSeqn := 1,
    bitboxNumPages := 1, seed0 := 0, seed1 := 0, rollbackStartLive := 0, rollbackEndLive := 0 }

def mk (z lp bp : ByteArray) : Image :=
  { metaF := encodeMeta m, ln := z ++ lp, bbn := z ++ bp, ht := ByteArray.empty, wal := ByteArray.empty, segs := [] }

theorem hmeta (z lp bp : ByteArray) : imageMeta (mk z lp bp) = .ok m := by
  unfold imageMeta
  have h1 : decodeMeta (mk z lp bp).metaF = some m := meta_rt m (by simp [Meta.WF, m, MAGIC])
  rw [h1]
  rfl

theorem pageOf_app0 (z p : ByteArray) (hz : z.size = PAGE) : pageOf (z ++ p) 0 = some z := by
  rw [pageOf_some (by rw [ByteArray.size_append, hz]; simp)]
  congr 1
  simp only [Nat.zero_mul, Nat.zero_add, Nat.one_mul]
  rw [extract_append_left' (by rw [hz]; exact Nat.le_refl _)]
  have := @ByteArray.extract_zero_size z
  rw [hz] at this
  exact this

theorem pageOf_app1 (z p : ByteArray) (hz : z.size = PAGE) (hp : p.size = PAGE) : pageOf (z ++ p) 1 = some p := by
  have e : (1 + 1) * PAGE = PAGE + PAGE := by rw [succ_mul_page, Nat.one_mul]
  have hs : (1 + 1) * PAGE ≤ (z ++ p).size := by rw [ByteArray.size_append, hz, hp, e]; exact Nat.le_refl _
  have h := pageOf_some (f := z ++ p) (pn := 1) hs
  have hx : (z ++ p).extract (1 * PAGE) ((1 + 1) * PAGE) = p := by
    rw [extract_append_right' (by rw [hz, Nat.one_mul]; exact Nat.le_refl _), hz, Nat.one_mul, Nat.sub_self, e,
      Nat.add_sub_cancel_left]
    have := @ByteArray.extract_zero_size p
    rw [hp] at this
    exact this
  exact h.trans (congrArg some hx)

/-- the decoded branch node: separator 0 ↦ leaf page 1 -/
def br : Branch := { bbnPn := 1, prefixLen := 0, prefixCompressed := 0, seps := [(0, 1)] }

structure Pages (z lp bp : ByteArray) (es : List LeafEntry) : Prop where
  hz : z.size = PAGE
  hza : allZero z 0 PAGE = true
  hlp : lp.size = PAGE
  hbp : bp.size = PAGE
  hbnz : allZero bp 0 PAGE = false
  hdl : decodeLeaf lp = .ok es
  hdb : decodeBranch bp = .ok br
  hinl : ∀ e ∈ es, e.overflow = false
  hsorted : strictlySorted (es.map (fun e => keyNat e.key)) = true

theorem liveBranches_small {z lp bp : ByteArray} {es : List LeafEntry} (H : Pages z lp bp es) :
    liveBranches (z ++ bp) 2 (mkMarks 2 []) = .ok [(1, br)] := by
  unfold liveBranches
  have hr : List.range 2 = [0, 1] := rfl
  have ht : (mkMarks 2 [])[1]! = false := by simp [mkMarks]
  rw [hr]
  simp only [List.foldrM_cons, List.foldrM_nil, pure, Except.pure, bind, Except.bind, pageOf_app0 z bp H.hz,
    pageOf_app1 z bp H.hz H.hbp, H.hza, H.hbnz, if_true, Bool.false_eq_true, if_false, ht, H.hdb]
  simp [br]

theorem allSeps_small : allSeps [(1, br)] = [(0, 1)] := by
  simp [allSeps, br]

theorem keysInRange_none (pn : Nat) : ∀ ks : List Nat, keysInRange pn 0 none ks = .ok () := by
  intro ks
  induction ks with
  | nil => rfl
  | cons k ks ih => simp [keysInRange, ih, bind, Except.bind, pure, Except.pure]

theorem entriesWalk_inline (ln : ByteArray) (bump pn : Nat) (mk : Array UInt8) (ov : Nat) :
    ∀ es : List LeafEntry, (∀ e ∈ es, e.overflow = false) → entriesWalk ln bump pn mk ov es = .ok (mk, ov) := by
  intro es
  induction es with
  | nil => intro _; rfl
  | cons e es ih =>
    intro h
    have he : e.overflow = false := h e List.mem_cons_self
    simp only [entriesWalk, entryWalk, he, Bool.false_eq_true, if_false, bind, Except.bind, pure, Except.pure]
    exact ih (fun x hx => h x (List.mem_cons_of_mem _ hx))

def lnMarks : Array UInt8 := #[0, 1]
def bbnMarks : Array UInt8 := #[0, 1]

theorem hwalk {z lp bp : ByteArray} {es : List LeafEntry} (H : Pages z lp bp es) :
    wfDetailM (mk z lp bp) = .ok (Stats.mk es.length 1 1 0 0 0 0 0, lnMarks, bbnMarks) := by
  unfold wfDetailM
  have c1 : ¬ 2 * PAGE > (z ++ lp).size := by rw [ByteArray.size_append, H.hz, H.hlp]; simp [PAGE]
  have c2 : ¬ 2 * PAGE > (z ++ bp).size := by rw [ByteArray.size_append, H.hz, H.hbp]; simp [PAGE]
  have f1 : ∀ f : ByteArray, freeListAll f 2 2 0 = .ok [] := by intro f; simp [freeListAll, pure, Except.pure]
  have z1 : allZero (z ++ bp) 0 PAGE = true := by rw [allZero_page0 _ z (pageOf_app0 z bp H.hz)]; exact H.hza
  have z2 : allZero (z ++ lp) 0 PAGE = true := by rw [allZero_page0 _ z (pageOf_app0 z lp H.hz)]; exact H.hza
  have e1 : (mk z lp bp).ln = z ++ lp := rfl
  have e2 : (mk z lp bp).bbn = z ++ bp := rfl
  have b1 : m.lnBump = 2 := rfl
  have b2 : m.bbnBump = 2 := rfl
  have b3 : m.lnFreelistPn = 0 := rfl
  have b4 : m.bbnFreelistPn = 0 := rfl
  have hcl : claim (Array.replicate 2 0) 2 1 1 "bbn branch node" = .ok #[0, 1] := by
    simp [claim, pure, Except.pure]; rfl
  have hcl2 : claim (Array.replicate 2 0) 2 1 1 "ln leaf" = .ok #[0, 1] := by
    simp [claim, pure, Except.pure]; rfl
  have hc : countUnclaimed #[0, 1] 2 = 0 := by
    unfold countUnclaimed
    have : List.range 2 = [0, 1] := rfl
    rw [this]
    simp
  simp only [bind, Except.bind, hmeta, e1, e2, b1, b2, b3, b4, c1, c2, if_false, pure, Except.pure, f1,
    claimFreeList, z1, z2, Bool.not_true, Bool.false_eq_true, trackedOf, List.flatMap_nil, liveBranches_small H,
    List.map_cons, List.map_nil, claimAll, hcl, allSeps_small, strictlySorted, leafWalk, hcl2,
    pageOf_app1 z lp H.hz H.hlp, H.hdl, H.hsorted, Bool.not_true, List.head?_nil, Option.map_none, keysInRange_none,
    entriesWalk_inline _ _ _ _ _ es H.hinl, List.length_cons, List.length_nil, List.length_map, hc, lnMarks, bbnMarks]
  simp

theorem hseps {z lp bp : ByteArray} {es : List LeafEntry} (H : Pages z lp bp es) :
    imageSeps (mk z lp bp) m = .ok [(0, 1)] := by
  unfold imageSeps
  have f1 : ∀ f : ByteArray, freeListAll f 2 2 0 = .ok [] := by intro f; simp [freeListAll, pure, Except.pure]
  have e2 : (mk z lp bp).bbn = z ++ bp := rfl
  have b2 : m.bbnBump = 2 := rfl
  have b4 : m.bbnFreelistPn = 0 := rfl
  simp only [bind, Except.bind, e2, b2, b4, f1, trackedOf, List.flatMap_nil, liveBranches_small H, pure, Except.pure, allSeps_small]

theorem hleaves {z lp bp : ByteArray} {es : List LeafEntry} (H : Pages z lp bp es) :
    absLeaves (mk z lp bp) = .ok [es.map (fun e => (e.key, e.cell))] := by
  unfold absLeaves decodeAll
  have e1 : (mk z lp bp).ln = z ++ lp := rfl
  have b1 : m.lnBump = 2 := rfl
  have hk : leafKVs (z ++ lp) 2 1 = .ok (es.map (fun e => (e.key, e.cell))) := by
    unfold leafKVs
    simp only [bind, Except.bind, pageOf_app1 z lp H.hz H.hlp, H.hdl]
    have : ∀ l : List LeafEntry, (∀ e ∈ l, e.overflow = false) →
        l.mapM (fun e => do let (v, _) ← entryValue (z ++ lp) 2 e; pure (e.key, v)) = Except.ok (l.map (fun e => (e.key, e.cell))) := by
      intro l
      induction l with
      | nil => intro _; rfl
      | cons e l ih =>
        intro h
        rw [List.mapM_cons, ih (fun x hx => h x (List.mem_cons_of_mem _ hx))]
        simp [entryValue, h e List.mem_cons_self, bind, Except.bind, pure, Except.pure]
    simpa [bind, Except.bind] using this es H.hinl
  simp only [bind, Except.bind, hmeta, hseps H, e1, b1, List.mapM_cons, List.mapM_nil, hk, pure, Except.pure]

/-! ## the instance: two small keys in one leaf, one branch node -/

def key1 : ByteArray := (List.replicate 31 (0 : UInt8) ++ [1]).toByteArray
def key2 : ByteArray := (List.replicate 31 (0 : UInt8) ++ [2]).toByteArray
def es0 : List LeafEntry :=
  [{ key := key1, overflow := false, cell := [1, 2, 3].toByteArray }, { key := key2, overflow := false, cell := [9].toByteArray }]
def pad0 : List UInt8 := List.replicate (PAGE - 2 - 34 * 2 - 4) 0
def leafPage : ByteArray := encodeLeaf es0 pad0

def bin0 : BranchIn :=
  { bbnPn := 1, pc := 0, pl := 0, items := [{ key := 0, sepLen := 0, pn := 1 }], fill := List.replicate (8 * (PAGE - BRANCH_HEADER - 6)) false }
def branchPage : ByteArray := encodeBranch bin0

theorem leafOK0 : leafOK es0 pad0 = true := by
  have h1 : es0.all leafEntryOK = true := by decide
  have h2 : leafTotal es0 = 4 := by decide
  have h3 : pad0.length = PAGE - 2 - 34 * 2 - 4 := List.length_replicate
  have h4 : es0.length = 2 := rfl
  have hP : PAGE = 4096 := rfl
  have h5 : (2 + 34 * es0.length + pad0.length + leafTotal es0 == PAGE) = true := by
    rw [h2, h3, h4, hP]; decide
  unfold leafOK
  rw [h1, h5]
  rfl

theorem branchOK0 : branchOK bin0 = true := by
  have hP : PAGE = 4096 := rfl
  have hB : BRANCH_HEADER = 10 := rfl
  have hf : bin0.fill.length = 8 * (PAGE - BRANCH_HEADER - 6) := List.length_replicate
  have hi : bin0.items = [{ key := 0, sepLen := 0, pn := 1 }] := rfl
  have h8 : (bin0.pl + sumL (storedLens bin0.pc bin0.pl bin0.items 0) + bin0.fill.length ==
      8 * (PAGE - BRANCH_HEADER - 6 * bin0.items.length)) = true := by
    rw [hf, hi]
    simp only [storedLens, sepStored, sumL, List.length_cons, List.length_nil]
    rw [hP, hB]; decide
  have h5 : bin0.items.all itemOK = true := by rw [hi]; decide
  have h6 : (bin0.items.take bin0.pc).all (fun it => it.key / 2 ^ (256 - bin0.pl) == firstKey bin0.items / 2 ^ (256 - bin0.pl)) = true := by
    rfl
  have h7 : decide (BRANCH_HEADER + 6 * bin0.items.length ≤ PAGE) = true := by rw [hi, hP, hB]; decide
  unfold branchOK
  rw [h8, h5, h6, h7]
  rw [hi]
  rfl

theorem keys_sorted : strictlySorted (es0.map (fun e => keyNat e.key)) = true := by decide

theorem branch_nonzero : allZero branchPage 0 PAGE = false := by
  unfold allZero
  rw [List.all_eq_false]
  refine ⟨0, List.mem_range.2 (by decide), ?_⟩
  have : branchPage.get! (0 + 0) = 1 := by
    show (encodeBranchL bin0).toByteArray.get! 0 = 1
    rw [get!_toByteArray]
    rfl
  rw [this]; decide

theorem pages0 : Pages (zeros PAGE) leafPage branchPage es0 where
  hz := size_zeros _
  hza := allZero_zeros _
  hlp := size_encodeLeaf es0 pad0 leafOK0
  hbp := size_encodeBranch bin0 (branchOK_facts branchOK0)
  hbnz := branch_nonzero
  hdl := leaf_rt es0 pad0 leafOK0
  hdb := branch_rt bin0 branchOK0
  hinl := by intro e he; simp only [es0, List.mem_cons, List.mem_nil_iff, or_false] at he; rcases he with rfl | rfl <;> rfl
  hsorted := keys_sorted

/-- the accepted image: meta, `ln` = page 0 + one leaf with two keys, `bbn` = page 0 + one branch node -/
def img : Image := mk (zeros PAGE) leafPage branchPage

end Nomt.Store.Small

namespace Nomt.Store.Small

/-- one sync on top of `img`: a new leaf at the `ln` frontier, a new branch node at the `bbn` frontier, fsyncs, switch-over -/
def tr : List IoEv :=
  [{ kind := "Write", file := "ln", offset := 8192, len := 4096, site := "io.send" },
   { kind := "Write", file := "bbn", offset := 8192, len := 4096, site := "io.send" },
   { kind := "Fsync", file := "ln", offset := 0, len := 0, site := "fsyncer" },
   { kind := "Fsync", file := "bbn", offset := 0, len := 0, site := "fsyncer" },
   { kind := "Write", file := "meta", offset := 0, len := 4096, site := "meta.write" }]

theorem accepted_gen {z lp bp : ByteArray} {es : List LeafEntry} (H : Pages z lp bp es) :
    ∃ stP, checkPlacement (mk z lp bp) tr = .ok stP := by
  unfold checkPlacement
  simp only [bind, Except.bind, hmeta, hwalk H]
  simp [checkPlacement.go, tr, checkEv, pageCheck, pageCheckBbn, lnMarks, bbnMarks, m, PAGE, Except.map, bind, Except.bind, pure, Except.pure]

theorem accepted : ∃ stP, checkPlacement img tr = .ok stP := accepted_gen pages0

/-- an in-place update of the leaf (a write onto the marked page 1 of `ln`) is rejected -/
theorem inplace_rejected_gen {z lp bp : ByteArray} {es : List LeafEntry} (H : Pages z lp bp es) :
    ∃ msg, checkPlacement (mk z lp bp)
      ({ kind := "Write", file := "ln", offset := 4096, len := 4096, site := "io.send" } :: tr) = .error msg := by
  unfold checkPlacement
  simp only [bind, Except.bind, hmeta, hwalk H]
  simp [checkPlacement.go, tr, checkEv, pageCheck, lnMarks, bbnMarks, m, PAGE, Except.map, bind, Except.bind, pure, Except.pure]

theorem inplace_rejected : ∃ msg, checkPlacement img
    ({ kind := "Write", file := "ln", offset := 4096, len := 4096, site := "io.send" } :: tr) = .error msg :=
  inplace_rejected_gen pages0

end Nomt.Store.Small
