import NomtModel.Store.OvfModel
/-!
# Page arithmetic of overflow values

`chunk` lays out the byte stream `page numbers of the pages that are not named in the cell ‖ value` over
`total_needed_pages(len)` pages of `BODY_SIZE = 4092` bytes each (a page number takes 4 bytes and
`MAX_PNS · 4 = BODY_SIZE`, so a page number never straddles two pages).  `chunk` works — every page receives at least
one byte of the stream and the last one receives the end of it — iff the page count `t` lies in the **window**

  `(t - 1) · 4092  <  len + 4 · (t - min t 15)  ≤  t · 4092`.

`tnp_window` proves that `total_needed_pages` is in the window for every `len > 0` (no bound on `len`),
`tnp_sub_exact` that its three `usize` subtractions never underflow, `tnp_not_always_least` records that it is not
always the least such `t` (one page more than necessary for some lengths ≥ 4 MiB — harmless, reader and writer use
the same function).
-/
namespace Nomt.Ovf

/-- number of page numbers that do not fit the cell and are stored in pages -/
def ptrsOut (t : Nat) : Nat := t - min t MAX_CELL_PNS

/-- length of the stream `chunk` lays out over `t` pages -/
def streamLen (len t : Nat) : Nat := len + 4 * ptrsOut t

/-- the page counts `chunk` can work with -/
def Window (len t : Nat) : Prop := (t - 1) * BODY_SIZE < streamLen len t ∧ streamLen len t ≤ t * BODY_SIZE

instance (len t : Nat) : Decidable (Window len t) := by unfold Window; infer_instance

theorem neededPages_spec (size : Nat) (h : 0 < size) :
    (neededPages size - 1) * BODY_SIZE < size ∧ size ≤ neededPages size * BODY_SIZE ∧ 0 < neededPages size := by
  simp only [neededPages, BODY_SIZE, PAGE_SIZE]
  omega

/-- the three branches of `total_needed_pages` -/
theorem tnp_cases (len : Nat) : ∃ np, np = (len + 4091) / 4092 ∧
    ((np ≤ 15 ∧ totalNeededPages len = np) ∨
     (15 < np ∧ np ≤ 15 + (np * 4092 - len) / 4 ∧ totalNeededPages len = np) ∨
     (15 < np ∧ ¬ np ≤ 15 + (np * 4092 - len) / 4 ∧
        totalNeededPages len = np + (len + (np - 15) * 4 - np * 4092 + 4089) / 4088)) := by
  refine ⟨_, rfl, ?_⟩
  simp only [totalNeededPages, neededPages, BODY_SIZE, PAGE_SIZE, MAX_CELL_PNS, Nat.reduceSub]
  by_cases h1 : (len + 4091) / 4092 ≤ 15
  · left; simp [h1]
  · right
    by_cases h2 : (len + 4091) / 4092 ≤ 15 + ((len + 4091) / 4092 * 4092 - len) / 4
    · left; simp [h1, h2]; omega
    · right; simp [h1, h2]; omega

theorem totalNeededPages_pos (len : Nat) (h : 0 < len) : 0 < totalNeededPages len := by
  obtain ⟨np, hnp, hc⟩ := tnp_cases len
  omega

theorem totalNeededPages_zero : totalNeededPages 0 = 0 := by decide

/-- **`total_needed_pages` is in the window** of every non-empty value -/
theorem tnp_window (len : Nat) (h : 0 < len) : Window len (totalNeededPages len) := by
  obtain ⟨np, hnp, hc⟩ := tnp_cases len
  simp only [Window, streamLen, ptrsOut, BODY_SIZE, PAGE_SIZE, MAX_CELL_PNS, Nat.reduceSub]
  omega

/-- the three `usize` subtractions of `total_needed_pages` are exact (no underflow in the branch they are
evaluated in) -/
theorem tnp_sub_exact (len : Nat) :
    let np := neededPages len
    len ≤ np * BODY_SIZE ∧
    (MAX_CELL_PNS < np → MAX_CELL_PNS ≤ np) ∧
    (MAX_CELL_PNS < np → ¬ np ≤ MAX_CELL_PNS + (np * BODY_SIZE - len) / 4 →
        np * BODY_SIZE ≤ len + (np - MAX_CELL_PNS) * 4) := by
  simp only [neededPages, BODY_SIZE, PAGE_SIZE, MAX_CELL_PNS, Nat.reduceSub]
  omega

/-- pages named in the cell: between 1 and 15 -/
theorem cellPages_bounds (len : Nat) (h : 0 < len) :
    1 ≤ min (totalNeededPages len) MAX_CELL_PNS ∧ min (totalNeededPages len) MAX_CELL_PNS ≤ 15 := by
  have := totalNeededPages_pos len h
  simp only [MAX_CELL_PNS]
  omega

/-- up to 15 pages the count is the plain `⌈len / 4092⌉` -/
theorem totalNeededPages_small (len : Nat) (h : len ≤ 15 * BODY_SIZE) : totalNeededPages len = neededPages len := by
  obtain ⟨np, hnp, hc⟩ := tnp_cases len
  simp only [neededPages, BODY_SIZE, PAGE_SIZE, Nat.reduceSub] at *
  omega

/-- the window has at most two members, and they are neighbours -/
theorem window_adjacent (len t u : Nat) (ht : Window len t) (hu : Window len u) (h : t ≤ u) : u ≤ t + 1 := by
  simp only [Window, streamLen, ptrsOut, BODY_SIZE, PAGE_SIZE, MAX_CELL_PNS, Nat.reduceSub] at *
  omega

/-- `total_needed_pages` is at most one page above the least page count that works -/
theorem tnp_near_least (len t : Nat) (h : 0 < len) (ht : Window len t) : totalNeededPages len ≤ t + 1 := by
  have hw := tnp_window len h
  by_cases hle : t ≤ totalNeededPages len
  · exact window_adjacent len t _ ht hw hle
  · omega

/-- it is not always the least: for this length (4 243 404 bytes ≈ 4.05 MiB; the first such length is 4 243 403)
1038 pages would do, `total_needed_pages` says 1039 -/
theorem tnp_not_always_least :
    Window 4243404 1038 ∧ totalNeededPages 4243404 = 1039 ∧ Window 4243404 1039 := by decide

/-- page counts grow linearly: the sizes `decode_cell` admits (≤ 2²⁹) need fewer than 2¹⁸ pages -/
theorem totalNeededPages_le (len : Nat) : totalNeededPages len ≤ len / 4088 + 2 := by
  obtain ⟨np, hnp, hc⟩ := tnp_cases len
  omega

/-- the on-disk monitor of `Store/ImgFormats.lean` uses the same function -/
theorem totalNeededPages_eq_img (len : Nat) : totalNeededPages len = Nomt.Store.totalNeededPages len := by
  simp only [totalNeededPages, Nomt.Store.totalNeededPages, neededPages, BODY_SIZE, PAGE_SIZE, MAX_CELL_PNS,
    Nomt.Store.OVERFLOW_BODY_SIZE, Nomt.Store.PAGE, Nomt.Store.MAX_OVERFLOW_CELL_NODE_POINTERS, Nat.reduceSub]
  rfl

end Nomt.Ovf
