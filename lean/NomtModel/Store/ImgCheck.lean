import NomtModel.Store.ImgFormats
import NomtModel.Store.ImgTable
import NomtModel.Store.Blake3Tree
/-!
`absImage`: the abstraction function from the files of a nomt directory to the sorted key/value list,
and `wfImage`: the decidable well-formedness check of the beatree part of the image (C16) with the
page accounting of C19.

Which bbn pages are live branch nodes follows the rule of `beatree/ops/reconstruction.rs`: every page
below `bbn_bump` that is not all zero and not tracked by the bbn free list (free-list pages and the
pages they list).  Branch nodes are ordered by their first separator; child pointers are followed
into `ln`; overflow cells are resolved through their page lists.
-/
namespace Nomt.Store

structure Image where
  metaF : ByteArray
  ln : ByteArray
  bbn : ByteArray
  ht : ByteArray
  wal : ByteArray
  segs : List (String × ByteArray)

/-- all pages a free list accounts for: its own pages and the pages they list -/
def trackedOf (fl : List (Nat × List Nat)) : List Nat := fl.flatMap (fun x => x.1 :: x.2)

def mkMarks (bump : Nat) (pns : List Nat) : Array Bool :=
  pns.foldl (fun a pn => if pn < a.size then a.set! pn true else a) (Array.replicate bump false)

/-- the live branch nodes of `bbn` (reconstruction rule), in page order -/
def liveBranches (bbn : ByteArray) (bump : Nat) (tracked : Array Bool) : Except String (List (Nat × Branch)) :=
  (List.range bump).foldrM (fun pn acc =>
    match pageOf bbn pn with
    | none => throw s!"bbn: page {pn} below bump is beyond the end of the file"
    | some pg =>
      if allZero pg 0 PAGE then pure acc
      else if tracked[pn]! then pure acc
      else do
        let b ← decodeBranch pg
        if b.bbnPn != pn then throw s!"bbn: page {pn} carries bbn_pn {b.bbnPn}"
        pure ((pn, b) :: acc)) []

def firstSep (b : Nat × Branch) : Nat := (b.2.seps.headD (0, 0)).1

/-- all `(separator, leaf page)` pairs in key order of the branch nodes -/
def allSeps (branches : List (Nat × Branch)) : List (Nat × Nat) :=
  (branches.mergeSort (fun a b => firstSep a ≤ firstSep b)).flatMap (·.2.seps)

/-- value of a leaf entry: inline bytes or the resolved overflow chain (+ the pages it occupies) -/
def entryValue (ln : ByteArray) (bump : Nat) (e : LeafEntry) : Except String (ByteArray × List Nat) :=
  if e.overflow then readOverflowValue ln bump e.cell else pure (e.cell, [])

def leafKVs (ln : ByteArray) (bump : Nat) (pn : Nat) : Except String (List (ByteArray × ByteArray)) := do
  if pn == 0 || pn ≥ bump then throw s!"ln: leaf page {pn} outside [1,{bump})"
  match pageOf ln pn with
  | none => throw s!"ln: leaf page {pn} beyond the end of the file"
  | some pg =>
    let es ← decodeLeaf pg
    es.mapM (fun e => do let (v, _) ← entryValue ln bump e; pure (e.key, v))

/-- the manifest, decoded and validated -/
def imageMeta (img : Image) : Except String Meta :=
  match decodeMeta img.metaF with
  | none => throw "meta: file shorter than 64 bytes"
  | some m => do validateMeta m; pure m

/-- the `(separator, leaf page)` list of the image -/
def imageSeps (img : Image) (m : Meta) : Except String (List (Nat × Nat)) := do
  let fl ← freeListAll img.bbn m.bbnBump m.bbnBump m.bbnFreelistPn
  let brs ← liveBranches img.bbn m.bbnBump (mkMarks m.bbnBump (trackedOf fl))
  pure (allSeps brs)

/-- everything `absImage` needs, decoded once: manifest, `(separator, leaf page)` list, leaf contents -/
structure Decoded where
  m : Meta
  seps : List (Nat × Nat)
  ls : List (List (ByteArray × ByteArray))

def decodeAll (img : Image) : Except String Decoded := do
  let m ← imageMeta img
  let seps ← imageSeps img m
  let ls ← seps.mapM (fun s => leafKVs img.ln m.lnBump s.2)
  pure { m := m, seps := seps, ls := ls }

/-- the key/value lists of the leaves, in key order of their separators -/
def absLeaves (img : Image) : Except String (List (List (ByteArray × ByteArray))) := do
  let d ← decodeAll img
  pure d.ls

/-- **the abstraction function**: the key/value list stored in the directory -/
def absImage (img : Image) : Except String (List (ByteArray × ByteArray)) := do
  let ls ← absLeaves img
  pure ls.flatten

def strictlySorted : List Nat → Bool
  | a :: b :: t => a < b && strictlySorted (b :: t)
  | _ => true

structure Stats where
  keys : Nat := 0
  leaves : Nat := 0
  branches : Nat := 0
  overflowPages : Nat := 0
  lnFree : Nat := 0
  bbnFree : Nat := 0
  lnLeaked : Nat := 0
  bbnLeaked : Nat := 0
deriving Repr, DecidableEq

/-- claim page `pn` of a file for `what`; fails when out of range or already claimed -/
def claim (marks : Array UInt8) (bump pn : Nat) (tag : UInt8) (what : String) : Except String (Array UInt8) :=
  if pn == 0 || pn ≥ bump then throw s!"{what}: page {pn} outside [1,{bump})"
  else if marks[pn]! != 0 then throw s!"{what}: page {pn} is already in use as kind {marks[pn]!} (1 node, 2 overflow, 3 free-list page, 4 free)"
  else pure (marks.set! pn tag)

/-- claim every page of a list for the same role -/
def claimAll (marks : Array UInt8) (bump : Nat) (tag : UInt8) (what : String) : List Nat → Except String (Array UInt8)
  | [] => pure marks
  | p :: ps => do
    let mk ← claim marks bump p tag what
    claimAll mk bump tag what ps

/-- the pages of a free list: every free-list page (3), then the pages it lists (4), head first -/
def claimFreeList (marks : Array UInt8) (bump : Nat) (fl : List (Nat × List Nat)) (what : String) : Except String (Array UInt8) :=
  match fl with
  | [] => pure marks
  | (pn, items) :: rest => do
    let mk ← claim marks bump pn 3 (what ++ " free-list page")
    let mk ← claimAll mk bump 4 (what ++ " free page") items
    claimFreeList mk bump rest what

def countUnclaimed (marks : Array UInt8) (bump : Nat) : Nat :=
  (List.range bump).foldl (fun acc pn => if pn ≥ 1 && marks[pn]! == 0 then acc + 1 else acc) 0

/-- every key number of leaf `pn` lies in `[lo, hi)` (`hi` = the next separator, if any) -/
def keysInRange (pn lo : Nat) (hi : Option Nat) : List Nat → Except String Unit
  | [] => pure ()
  | k :: ks => do
    if k < lo then throw s!"ln: leaf {pn} holds a key below its separator"
    match hi with
    | some h => if k ≥ h then throw s!"ln: leaf {pn} holds a key not below the next separator"
    | none => pure ()
    keysInRange pn lo hi ks

/-- one leaf entry of the walk: an overflow cell's chain is resolved, its pages are claimed (2), the value hash checked;
state = (marks of `ln`, overflow pages counted so far) -/
def entryWalk (ln : ByteArray) (bump pn : Nat) (mk : Array UInt8) (ov : Nat) (e : LeafEntry) :
    Except String (Array UInt8 × Nat) :=
  if e.overflow then do
    let (v, pages) ← readOverflowValue ln bump e.cell
    let mk ← claimAll mk bump 2 "ln overflow page" pages
    match decodeOverflowCell e.cell with
    | some c =>
      if c.valueHash != Blake3.hashAny v then throw s!"ln: overflow cell in leaf {pn} carries a value hash that is not the Blake3 hash of the chained value"
      else pure (mk, ov + pages.length)
    | none => throw "overflow: malformed cell"
  else pure (mk, ov)

def entriesWalk (ln : ByteArray) (bump pn : Nat) (mk : Array UInt8) (ov : Nat) : List LeafEntry → Except String (Array UInt8 × Nat)
  | [] => pure (mk, ov)
  | e :: es => do
    let (mk, ov) ← entryWalk ln bump pn mk ov e
    entriesWalk ln bump pn mk ov es

/-- the leaves in separator order: claim the leaf page (1), decode it, keys strictly increasing and inside
`[separator, next separator)`, then its entries; state = (marks of `ln`, keys, overflow pages) -/
def leafWalk (ln : ByteArray) (bump : Nat) (mk : Array UInt8) (keys ov : Nat) : List (Nat × Nat) → Except String (Array UInt8 × Nat × Nat)
  | [] => pure (mk, keys, ov)
  | (lo, pn) :: rest => do
    let mk ← claim mk bump pn 1 "ln leaf"
    match pageOf ln pn with
    | none => throw s!"ln: leaf page {pn} beyond the end of the file"
    | some pg =>
      let es ← decodeLeaf pg
      let ks := es.map (fun e => keyNat e.key)
      if !(strictlySorted ks) then throw s!"ln: keys of leaf {pn} are not strictly increasing"
      keysInRange pn lo (rest.head?.map (·.1)) ks
      let (mk, ov) ← entriesWalk ln bump pn mk ov es
      leafWalk ln bump mk (keys + ks.length) ov rest

/-- the detailed walk: page ownership, separator ranges, overflow chains, accounting; also returns the
ownership marks of `ln` and `bbn` (0 unclaimed, 1 node, 2 overflow page, 3 free-list page, 4 free page),
used by the placement monitor of C17.  (Written as structural recursions — `claimAll`, `claimFreeList`, `leafWalk`,
`entriesWalk` — so that the frame property of `Store/Frame*.lean` can follow the walk.) -/
def wfDetailM (img : Image) : Except String (Stats × Array UInt8 × Array UInt8) := do
  let m ← imageMeta img
  if m.lnBump * PAGE > img.ln.size then throw s!"ln: bump {m.lnBump} beyond the end of the file ({img.ln.size} bytes)"
  if m.bbnBump * PAGE > img.bbn.size then throw s!"bbn: bump {m.bbnBump} beyond the end of the file ({img.bbn.size} bytes)"
  -- free lists
  let lnFl ← freeListAll img.ln m.lnBump m.lnBump m.lnFreelistPn
  let bbnFl ← freeListAll img.bbn m.bbnBump m.bbnBump m.bbnFreelistPn
  let lnMarks ← claimFreeList (Array.replicate m.lnBump 0) m.lnBump lnFl "ln"
  let bbnMarks ← claimFreeList (Array.replicate m.bbnBump 0) m.bbnBump bbnFl "bbn"
  -- branch nodes
  if !(allZero img.bbn 0 PAGE) then throw "bbn: reserved page 0 is not empty"
  if !(allZero img.ln 0 PAGE) then throw "ln: reserved page 0 is not empty"
  let brs ← liveBranches img.bbn m.bbnBump (mkMarks m.bbnBump (trackedOf bbnFl))
  let bbnMarks ← claimAll bbnMarks m.bbnBump 1 "bbn branch node" (brs.map (·.1))
  let seps := allSeps brs
  if !(strictlySorted (seps.map (·.1))) then throw "bbn: separators are not strictly increasing (within or across branch nodes)"
  match seps with
  | (s, _) :: _ => if s != 0 then throw "bbn: the first separator is not the zero key"
  | [] => pure ()
  -- leaves
  let (lnMarks, keys, ovPages) ← leafWalk img.ln m.lnBump lnMarks 0 0 seps
  pure (Stats.mk keys seps.length brs.length ovPages (trackedOf lnFl).length (trackedOf bbnFl).length
    (countUnclaimed lnMarks m.lnBump) (countUnclaimed bbnMarks m.bbnBump), lnMarks, bbnMarks)

/-- the detailed walk: page ownership, separator ranges, overflow chains, accounting -/
def wfDetail (img : Image) : Except String Stats := do
  let r ← wfDetailM img
  pure r.1

/-- every key of leaf `i` lies in `[separator i, separator i+1)` -/
def leavesInRange : List (Nat × Nat) → List (List (ByteArray × ByteArray)) → Bool
  | [], [] => true
  | (lo, _) :: ss, l :: ls =>
    l.all (fun kv => decide (lo ≤ keyNat kv.1) &&
      (match ss with | [] => true | (hi, _) :: _ => decide (keyNat kv.1 < hi))) && leavesInRange ss ls
  | _, _ => false

/-- the key numbers of all leaves, concatenated -/
def imageKeys (ls : List (List (ByteArray × ByteArray))) : List Nat := ls.flatten.map (fun kv => keyNat kv.1)

/-- **well-formedness of the beatree image** -/
def wfImage (img : Image) : Except String Stats := do
  let d ← decodeAll img
  if !(strictlySorted (imageKeys d.ls)) then
    throw "image: keys are not strictly increasing across leaves"
  if !(strictlySorted (d.seps.map (·.1))) then
    throw "image: separators are not strictly increasing"
  if !(leavesInRange d.seps d.ls) then
    throw "image: a leaf holds a key outside [its separator, the next separator)"
  let st ← wfDetail img
  if st.keys != d.ls.flatten.length then throw "image: key count mismatch between the walk and absImage"
  pure st

/-! ## the read path (mirror of `beatree::ops::lookup`: `search_branch`, then `LeafNode::get`) -/

/-- the leaf page responsible for key number `k`: the child of the last separator `≤ k` -/
def findLeaf : List (Nat × Nat) → Nat → Option Nat
  | [], _ => none
  | (s, pn) :: rest, k =>
    if k < s then none else
    match findLeaf rest k with
    | some p => some p
    | none => some pn

/-- value stored under key number `k` in a key/value list (first match) -/
def kvGet (l : List (ByteArray × ByteArray)) (k : Nat) : Option ByteArray :=
  (l.find? (fun kv => keyNat kv.1 == k)).map (·.2)

/-- route by separators, then search only the selected leaf -/
def lookup (img : Image) (k : Nat) : Except String (Option ByteArray) := do
  let m ← imageMeta img
  let seps ← imageSeps img m
  match findLeaf seps k with
  | none => pure none
  | some pn => do
    let l ← leafKVs img.ln m.lnBump pn
    pure (kvGet l k)

end Nomt.Store
