import NomtModel.Store.StageGlueErase
/-!
# The tracker after a sequence of calls (`runEvs`)

`NodesTracker::inner` is a `BTreeMap`: mirrored as an ascending association list with `upsert` (`entry().or_insert()`).
For a sequence of `delete` / `insert` calls in which no key is deleted twice: no `assert!` fires, the list stays ascending,
and per key the entry holds the page number of its `delete` call and the node + page number of its LAST `insert` call.
-/
namespace Nomt.StageGlue
open Nomt
open Nomt.ExtRange (Tracker TE Inner Pn upsert lookupE)

variable {N : Type}

def InnerAsc (inner : Inner N) : Prop := inner.Pairwise fun a b => a.1 < b.1

theorem upsert_keys (key : Nat) (f : TE N → TE N) (d : TE N) : ∀ (inner : Inner N) (x : Nat × TE N),
    x ∈ upsert key f d inner → x.1 = key ∨ ∃ y ∈ inner, y.1 = x.1
  | [], x, h => by simp [upsert] at h; subst h; exact Or.inl rfl
  | (k, e) :: t, x, h => by
    unfold upsert at h
    split at h
    · rcases List.mem_cons.1 h with rfl | h
      · exact Or.inl rfl
      · exact Or.inr ⟨x, h, rfl⟩
    · split at h
      · rcases List.mem_cons.1 h with rfl | h
        · exact Or.inr ⟨(k, e), by simp, rfl⟩
        · exact Or.inr ⟨x, by simp [h], rfl⟩
      · rcases List.mem_cons.1 h with rfl | h
        · exact Or.inr ⟨(k, e), by simp, rfl⟩
        · rcases upsert_keys key f d t x h with h | ⟨y, hy, e'⟩
          · exact Or.inl h
          · exact Or.inr ⟨y, by simp [hy], e'⟩

theorem upsert_asc (key : Nat) (f : TE N → TE N) (d : TE N) : ∀ (inner : Inner N), InnerAsc inner →
    InnerAsc (upsert key f d inner)
  | [], _ => by simp [upsert, InnerAsc]
  | (k, e) :: t, h => by
    have h' := List.pairwise_cons.1 h
    unfold upsert
    split
    · rename_i hlt
      refine List.pairwise_cons.2 ⟨?_, h⟩
      intro y hy
      rcases List.mem_cons.1 hy with rfl | hy
      · exact hlt
      · have := h'.1 y hy; show key < y.1; simp only at this; omega
    · split
      · exact List.pairwise_cons.2 ⟨h'.1, h'.2⟩
      · rename_i h1 h2
        refine List.pairwise_cons.2 ⟨?_, upsert_asc key f d t h'.2⟩
        intro y hy
        rcases upsert_keys key f d t y hy with e' | ⟨z, hz, e'⟩
        · show k < y.1; rw [e']; omega
        · show k < y.1; rw [← e']; exact h'.1 z hz

theorem lookupE_none_of_lt {key : Nat} : ∀ {inner : Inner N}, (∀ y ∈ inner, key < y.1) → lookupE key inner = none
  | [], _ => rfl
  | (k, e) :: t, h => by
    have : key ≠ k := by have := h (k, e) (by simp); simp only at this; omega
    simp [lookupE, this, lookupE_none_of_lt (inner := t) (fun y hy => h y (by simp [hy]))]

theorem lookupE_upsert_same (key : Nat) (f : TE N → TE N) (d : TE N) : ∀ (inner : Inner N), InnerAsc inner →
    lookupE key (upsert key f d inner) = some (f ((lookupE key inner).getD d))
  | [], _ => by simp [upsert, lookupE]
  | (k, e) :: t, h => by
    have h' := List.pairwise_cons.1 h
    unfold upsert
    split
    · rename_i hlt
      have : lookupE key ((k, e) :: t) = none := lookupE_none_of_lt (by
        intro y hy
        rcases List.mem_cons.1 hy with rfl | hy
        · exact hlt
        · have := h'.1 y hy; simp only at this; omega)
      rw [this]
      simp [lookupE]
    · split
      · rename_i h1 h2
        subst h2
        simp [lookupE]
      · rename_i h1 h2
        simp only [lookupE, h2, if_false]
        exact lookupE_upsert_same key f d t h'.2

theorem lookupE_upsert_other (key : Nat) (f : TE N → TE N) (d : TE N) (k' : Nat) (hne : k' ≠ key) : ∀ (inner : Inner N),
    lookupE k' (upsert key f d inner) = lookupE k' inner
  | [] => by simp [upsert, lookupE, hne]
  | (k, e) :: t => by
    unfold upsert
    split
    · simp [lookupE, hne]
    · split
      · rename_i h1 h2
        subst h2
        simp [lookupE, hne]
      · simp only [lookupE]
        rw [lookupE_upsert_other key f d k' hne t]

/-- the page number of the `delete` call recorded under `k` -/
def delV (inner : Inner N) (k : Nat) : Option Nat := (lookupE k inner).bind (·.deleted)
/-- the node and page number of the last `insert` call recorded under `k` -/
def insV (inner : Inner N) (k : Nat) : Option (N × Pn) := (lookupE k inner).bind (·.inserted)

theorem delete_spec (t : Tracker N) (k pn : Nat) (nx : Option Nat) (hasc : InnerAsc t.inner) (hfree : delV t.inner k = none) :
    ∃ t', t.delete k pn nx = some t' ∧ InnerAsc t'.inner ∧ t'.extraFreed = t.extraFreed ∧
      (∀ k', delV t'.inner k' = if k' = k then some pn else delV t.inner k') ∧
      (∀ k', insV t'.inner k' = insV t.inner k') := by
  unfold Tracker.delete
  unfold delV at hfree
  rw [hfree]
  refine ⟨_, rfl, upsert_asc _ _ _ _ hasc, rfl, ?_, ?_⟩
  · intro k'
    by_cases hk : k' = k
    · subst hk
      simp only [delV, if_true]
      rw [lookupE_upsert_same _ _ _ _ hasc]
      rfl
    · simp only [delV, hk, if_false]
      rw [lookupE_upsert_other _ _ _ _ hk]
  · intro k'
    by_cases hk : k' = k
    · subst hk
      simp only [insV]
      rw [lookupE_upsert_same _ _ _ _ hasc]
      cases h : lookupE k' t.inner <;> simp
    · simp only [insV]
      rw [lookupE_upsert_other _ _ _ _ hk]

theorem insert_spec (t : Tracker N) (k : Nat) (n : N) (nx : Option Nat) (p : Pn) (hasc : InnerAsc t.inner) :
    InnerAsc (t.insert k n nx p).inner ∧ (t.insert k n nx p).extraFreed = t.extraFreed ∧
      (∀ k', delV (t.insert k n nx p).inner k' = delV t.inner k') ∧
      (∀ k', insV (t.insert k n nx p).inner k' = if k' = k then some (n, p) else insV t.inner k') := by
  unfold Tracker.insert
  refine ⟨upsert_asc _ _ _ _ hasc, rfl, ?_, ?_⟩
  · intro k'
    by_cases hk : k' = k
    · subst hk
      simp only [delV]
      rw [lookupE_upsert_same _ _ _ _ hasc]
      cases h : lookupE k' t.inner <;> simp
    · simp only [delV]
      rw [lookupE_upsert_other _ _ _ _ hk]
  · intro k'
    by_cases hk : k' = k
    · subst hk
      simp only [insV, if_true]
      rw [lookupE_upsert_same _ _ _ _ hasc]
      rfl
    · simp only [insV, hk, if_false]
      rw [lookupE_upsert_other _ _ _ _ hk]

/-- the `delete` call that names `k` (the last one, if there were several) -/
def expDel : List (Ev N) → Nat → Option Nat
  | [], _ => none
  | .del k' pn _ :: r, k => match expDel r k with | some p => some p | none => if k' = k then some pn else none
  | .ins _ _ _ :: r, k => expDel r k

/-- the last `insert` call that names `k`, with the page number it allocated -/
def expIns : Nat → List (Ev N) → Nat → Option (N × Pn)
  | _, [], _ => none
  | a, .del _ _ _ :: r, k => expIns a r k
  | a, .ins k' n _ :: r, k =>
    match expIns (a + 1) r k with | some x => some x | none => if k' = k then some (n, .new 0 a) else none

/-- no key is deleted twice, and none that the tracker already holds as deleted -/
def DelOnce (inner : Inner N) : List (Ev N) → Prop
  | [] => True
  | .del k _ _ :: r => delV inner k = none ∧ expDel r k = none ∧ DelOnce inner r
  | .ins _ _ _ :: r => DelOnce inner r

theorem runEvs_spec : ∀ (evs : List (Ev N)) (t : Tracker N) (a : Nat), InnerAsc t.inner → DelOnce t.inner evs →
    ∃ t', runEvs t a evs = some (t', a + (insOf evs).length) ∧ InnerAsc t'.inner ∧ t'.extraFreed = t.extraFreed ∧
      (∀ k, delV t'.inner k = match expDel evs k with | some p => some p | none => delV t.inner k) ∧
      (∀ k, insV t'.inner k = match expIns a evs k with | some x => some x | none => insV t.inner k)
  | [], t, a, hasc, _ => ⟨t, by simp [runEvs, insOf], hasc, rfl, by simp [expDel], by simp [expIns]⟩
  | .del k pn nx :: r, t, a, hasc, hd => by
    obtain ⟨h1, h2, h3⟩ := hd
    obtain ⟨t1, e1, a1, x1, d1, i1⟩ := delete_spec t k pn nx hasc h1
    have hd1 : DelOnce t1.inner r := by
      -- the keys deleted later differ from `k`
      have key : ∀ (r : List (Ev N)), expDel r k = none → DelOnce t.inner r → DelOnce t1.inner r := by
        intro r
        induction r with
        | nil => intro _ _; trivial
        | cons ev r ih =>
          intro hk hdo
          cases ev with
          | del k2 pn2 nx2 =>
            obtain ⟨g1, g2, g3⟩ := hdo
            simp only [expDel] at hk
            have hk' : expDel r k = none := by cases h : expDel r k <;> simp [h] at hk ⊢
            have hne : k2 ≠ k := by
              intro e; rw [hk'] at hk; simp [e] at hk
            refine ⟨?_, g2, ih hk' g3⟩
            rw [d1 k2]; simp [hne, g1]
          | ins k2 n2 nx2 => exact ih hk hdo
      exact key r h2 h3
    obtain ⟨t', e2, a2, x2, d2, i2⟩ := runEvs_spec r t1 a a1 hd1
    refine ⟨t', ?_, a2, by rw [x2, x1], ?_, ?_⟩
    · simp [runEvs, e1, e2, insOf]
    · intro k'
      rw [d2 k', d1 k']
      simp only [expDel]
      cases h : expDel r k' with
      | some p => rfl
      | none =>
        by_cases hk : k = k'
        · subst hk; simp
        · have : ¬ k' = k := fun e => hk e.symm
          simp [hk, this]
    · intro k'
      rw [i2 k', i1 k']
      rfl
  | .ins k n nx :: r, t, a, hasc, hd => by
    obtain ⟨a1, x1, d1, i1⟩ := insert_spec t k n nx (.new 0 a) hasc
    have hd1 : DelOnce (t.insert k n nx (.new 0 a)).inner r := by
      have key : ∀ (r : List (Ev N)), DelOnce t.inner r → DelOnce (t.insert k n nx (.new 0 a)).inner r := by
        intro r
        induction r with
        | nil => intro _; trivial
        | cons ev r ih =>
          intro hdo
          cases ev with
          | del k2 pn2 nx2 => exact ⟨by rw [d1 k2]; exact hdo.1, hdo.2.1, ih hdo.2.2⟩
          | ins k2 n2 nx2 => exact ih hdo
      exact key r hd
    obtain ⟨t', e2, a2, x2, d2, i2⟩ := runEvs_spec r _ (a + 1) a1 hd1
    refine ⟨t', ?_, a2, by rw [x2, x1], ?_, ?_⟩
    · simp only [runEvs, e2, insOf, List.length_cons]
      congr 2; omega
    · intro k'
      rw [d2 k', d1 k']
      rfl
    · intro k'
      rw [i2 k', i1 k']
      simp only [expIns]
      cases h : expIns (a + 1) r k' with
      | some p => rfl
      | none =>
        by_cases hk : k = k'
        · subst hk; simp
        · have : ¬ k' = k := fun e => hk e.symm
          simp [hk, this]

end Nomt.StageGlue
