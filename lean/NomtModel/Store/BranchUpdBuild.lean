import NomtModel.Store.BranchUpdExtract
/-!
# Branch updater: `build_branch` writes the node the gauge describes

For a consistent tracker (`TrOK`) `build_branch(base, ops, gauge)` reaches no panic site of `BranchNodeBuilder`
(`push` / `push_chunk` asserts, `u16::try_from`, the prefix of compressed separators) and produces the node with
`prefix_len = gauge.prefix_len`, `prefix_compressed = gauge.prefix_compressed_items()` whose items are exactly what the ops
stand for (`den`, with the page numbers of `Update`s applied); every stored separator length is at least the canonical
one the gauge counted (`GoodFrom`), and equal to it when `kf.canon` (finding F22: as the code has it, the first
separator of the base can be stored longer).
-/
namespace Nomt.BranchUpd
open Nomt.LeafUpd (Entry Sorted slice_length slice_append slice_succ slice_cons_of_lt mem_slice slice_self)

/-- the stored length the gauge counts for the key at index `idx` -/
def canonLen (kf : KF) (pl pc idx key : Nat) : Nat := if idx < pc then kf.sl key - pl else kf.sl key

/-- one stored length: at least the canonical one, at most 256 bits more and only for the key `k0` (the first key of
the base), exactly the canonical one with `kf.canon` -/
def GoodLen (kf : KF) (pl pc k0 idx : Nat) (it : Item) : Prop :=
  canonLen kf pl pc idx it.key ≤ it.slen ∧ it.slen ≤ canonLen kf pl pc idx it.key + (if it.key = k0 then 256 else 0) ∧
    (kf.canon = true → it.slen = canonLen kf pl pc idx it.key)

/-- `GoodLen` for items at indices `start, start + 1, …` -/
def GoodFrom (kf : KF) (pl pc k0 : Nat) : Nat → List Item → Prop
  | _, [] => True
  | start, it :: r => GoodLen kf pl pc k0 start it ∧ GoodFrom kf pl pc k0 (start + 1) r

theorem goodFrom_append (kf : KF) (pl pc k0 : Nat) : ∀ (a : List Item) (start : Nat) (b : List Item),
    GoodFrom kf pl pc k0 start (a ++ b) ↔ GoodFrom kf pl pc k0 start a ∧ GoodFrom kf pl pc k0 (start + a.length) b
  | [], start, b => by simp [GoodFrom]
  | x :: a, start, b => by
    simp only [List.cons_append, GoodFrom, goodFrom_append kf pl pc k0 a (start + 1) b, List.length_cons]
    rw [show start + 1 + a.length = start + (a.length + 1) by omega]
    exact and_assoc.symm

/-- `lensOf` by index -/
theorem lensOf_index (kf : KF) (pl : Nat) : ∀ (L : List Nat) (pc idx : Nat),
    lensOf kf pl (pc - idx) L = (L.zipIdx idx).map fun p => canonLen kf pl pc p.2 p.1
  | [], pc, idx => by simp [lensOf]
  | k :: r, pc, idx => by
    by_cases h : idx < pc
    · have e : pc - idx = (pc - (idx + 1)) + 1 := by omega
      rw [e, lensOf_cons_succ, lensOf_index kf pl r pc (idx + 1)]
      simp [List.zipIdx_cons, canonLen, h]
    · have e : pc - idx = 0 := by omega
      have e2 : pc - (idx + 1) = 0 := by omega
      have ih := lensOf_index kf pl r pc (idx + 1)
      rw [e2] at ih
      rw [e]
      simp only [lensOf, List.take_zero, List.map_nil, List.drop_zero, List.nil_append, List.map_cons] at ih ⊢
      rw [ih]
      simp [List.zipIdx_cons, canonLen, h]

/-- with `GoodFrom` the stored lengths sum to at least what the gauge counted, and to exactly that with `kf.canon` -/
theorem goodFrom_sum (kf : KF) (pl pc k0 : Nat) : ∀ (items : List Item) (start : Nat), GoodFrom kf pl pc k0 start items →
    (lensOf kf pl (pc - start) (items.map (·.key))).sum ≤ slenSum items ∧
      slenSum items ≤ (lensOf kf pl (pc - start) (items.map (·.key))).sum +
        256 * (items.filter (fun it => it.key == k0)).length ∧
      (kf.canon = true → items.map (·.slen) = lensOf kf pl (pc - start) (items.map (·.key))) := by
  intro items
  induction items with
  | nil => intro start _; simp [lensOf]
  | cons it r ih =>
    intro start h
    obtain ⟨⟨h1, h1', h2⟩, h3⟩ := h
    obtain ⟨i1, i1', i2⟩ := ih (start + 1) h3
    rw [lensOf_index] at i1 i1' i2 ⊢
    simp only [List.map_cons, List.zipIdx_cons, List.sum_cons, slenSum_cons]
    refine ⟨Nat.add_le_add h1 i1, ?_, ?_⟩
    · by_cases hk : it.key = k0
      · have hf : ((it :: r).filter (fun it => it.key == k0)).length = (r.filter (fun it => it.key == k0)).length + 1 := by
          simp [List.filter_cons, hk]
        rw [hf]
        rw [if_pos hk] at h1'
        generalize (r.filter (fun it => it.key == k0)).length = F at *
        omega
      · have hf : ((it :: r).filter (fun it => it.key == k0)).length = (r.filter (fun it => it.key == k0)).length := by
          simp [List.filter_cons, hk]
        rw [hf]
        rw [if_neg hk] at h1'
        generalize (r.filter (fun it => it.key == k0)).length = F at *
        omega
    · intro hc
      rw [h2 hc, i2 hc]

theorem goodFrom_getElem (kf : KF) (pl pc k0 : Nat) : ∀ (items : List Item) (start : Nat), GoodFrom kf pl pc k0 start items →
    ∀ i (h : i < items.length), GoodLen kf pl pc k0 (start + i) items[i]
  | [], _, _, i, h => by simp at h
  | it :: r, start, hg, 0, _ => by simpa using hg.1
  | it :: r, start, hg, i + 1, h => by
    have := goodFrom_getElem kf pl pc k0 r (start + 1) hg.2 i (by simpa using h)
    rw [show start + (i + 1) = start + 1 + i by omega]
    simpa using this

/-- at most one item of an ascending list has a given key -/
theorem filter_key_le_one (k0 : Nat) : ∀ (items : List Item), SortedK (items.map (·.key)) →
    (items.filter (fun it => it.key == k0)).length ≤ 1 := by
  intro items
  induction items with
  | nil => intro _; simp
  | cons it r ih =>
    intro hs
    have hs' := List.pairwise_cons.1 hs
    simp only [List.filter_cons]
    by_cases hk : it.key = k0
    · have hnone : r.filter (fun it => it.key == k0) = [] := by
        rw [List.filter_eq_nil_iff]
        intro x hx
        have hlt : it.key < x.key := hs'.1 x.key (List.mem_map.2 ⟨x, hx, rfl⟩)
        simp; omega
      simp [hk, hnone]
    · have : (it.key == k0) = false := by simp [hk]
      simp only [this, Bool.false_eq_true, if_false]
      exact ih hs'.2

/-! ## page-number updates of `push_chunk` -/

/-- `set_node_pointer(i, pn)` for every `(i, pn)`, on a list -/
def updPns : List (Nat × Nat) → List Item → List Item
  | [], l => l
  | (i, pn) :: r, l =>
    updPns r (match l[i]? with
              | some it => l.set i { it with pn := pn }
              | none => l)

theorem updPns_length : ∀ (u : List (Nat × Nat)) (l : List Item), (updPns u l).length = l.length
  | [], _ => rfl
  | (i, pn) :: r, l => by
    simp only [updPns]
    rw [updPns_length r]
    split <;> simp

theorem applyUpdated_eq (n : Nat) : ∀ (u : List (Nat × Nat)) (front l : List Item),
    (∀ p ∈ u, front.length + p.1 < n) →
    applyUpdated n front.length u (front ++ l) = some (front ++ updPns u l)
  | [], _, _, _ => rfl
  | (i, pn) :: r, front, l, h => by
    have h1 : ¬ n ≤ front.length + i := by have := h (i, pn) (by simp); simp at this; omega
    simp only [applyUpdated, h1, if_false, updPns]
    have hget : (front ++ l)[front.length + i]? = l[i]? := by
      rw [List.getElem?_append_right (by omega)]; simp
    rw [hget]
    cases hl : l[i]? with
    | none => exact applyUpdated_eq n r front l (fun p hp => h p (by simp [hp]))
    | some it =>
      simp only
      have : (front ++ l).set (front.length + i) { it with pn := pn } = front ++ l.set i { it with pn := pn } := by
        rw [List.set_append_right _ _ (by omega)]; simp
      rw [this]
      exact applyUpdated_eq n r front (l.set i { it with pn := pn }) (fun p hp => h p (by simp [hp]))

/-- updates behind a prefix do not touch it -/
theorem updPns_shift : ∀ (u : List (Nat × Nat)) (a l : List Item), (∀ p ∈ u, a.length ≤ p.1) →
    updPns u (a ++ l) = a ++ updPns (u.map fun p => (p.1 - a.length, p.2)) l
  | [], _, _, _ => rfl
  | (i, pn) :: r, a, l, h => by
    have h1 : a.length ≤ i := h (i, pn) (by simp)
    simp only [updPns, List.map_cons]
    have hget : (a ++ l)[i]? = l[i - a.length]? := List.getElem?_append_right h1
    rw [hget]
    cases hl : l[i - a.length]? with
    | none => exact updPns_shift r a l (fun p hp => h p (by simp [hp]))
    | some it =>
      simp only
      rw [List.set_append_right _ _ h1]
      exact updPns_shift r a (l.set (i - a.length) { it with pn := pn }) (fun p hp => h p (by simp [hp]))

theorem map_set_same {β : Type} (f : Item → β) : ∀ (l : List Item) (i : Nat) (a : Item) (h : i < l.length),
    f a = f l[i] → (l.set i a).map f = l.map f
  | [], _, _, h, _ => by simp at h
  | x :: r, 0, a, _, e => by simp at e; simp [e]
  | x :: r, i + 1, a, h, e => by
    simp only [List.set_cons_succ, List.map_cons]
    rw [map_set_same f r i a (by simpa using h) (by simpa using e)]

theorem updPns_keys : ∀ (u : List (Nat × Nat)) (l : List Item),
    (updPns u l).map (·.key) = l.map (·.key) ∧ (updPns u l).map (·.slen) = l.map (·.slen)
  | [], _ => ⟨rfl, rfl⟩
  | (i, pn) :: r, l => by
    simp only [updPns]
    cases hl : l[i]? with
    | none => exact updPns_keys r l
    | some it =>
      simp only
      obtain ⟨a, b⟩ := updPns_keys r (l.set i { it with pn := pn })
      have hi : i < l.length := by
        rcases Nat.lt_or_ge i l.length with h | h
        · exact h
        · rw [List.getElem?_eq_none h] at hl; cases hl
      have hit : l[i] = it := by rw [List.getElem?_eq_getElem hi] at hl; exact Option.some.inj hl
      refine ⟨by rw [a]; exact map_set_same _ l i _ hi (by rw [hit]), ?_⟩
      rw [b]; exact map_set_same _ l i _ hi (by rw [hit])

/-! ## the builder follows the gauge -/

/-- the builder has the header the gauge asks for, has pushed the keys `pre`, and the stored lengths are good -/
structure BCtx (kf : KF) (g : Gauge) (k0 : Nat) (bld : Bld) (pre : List Nat) : Prop where
  hn : bld.n = g.n
  hpc : bld.pc = g.pcItems
  hpl : bld.pl = g.pl
  keys : bld.items.map (·.key) = pre
  good : GoodFrom kf g.pl g.pcItems k0 0 bld.items

theorem mem_take_of_split {α : Type} (pre : List α) (x : α) (post : List α) (c : Nat) (h : pre.length < c) :
    x ∈ (pre ++ x :: post).take c := by
  rw [List.take_append]
  apply List.mem_append_right
  have : c - pre.length = (c - pre.length - 1) + 1 := by omega
  rw [this, List.take_succ_cons]
  simp

theorem lensOf_prefix_sum (kf : KF) (pl pc : Nat) (A B : List Nat) :
    (lensOf kf pl pc A).sum ≤ (lensOf kf pl pc (A ++ B)).sum := by
  have h1 := lensOf_index kf pl A pc 0
  have h2 := lensOf_index kf pl (A ++ B) pc 0
  simp only [Nat.sub_zero] at h1 h2
  rw [h1, h2, List.zipIdx_append, List.map_append, List.sum_append_nat]
  omega

theorem bodySize_bits {pl S n : Nat} (h : bodySize pl S n ≤ BODY) : S ≤ 8 * BODY := by
  unfold bodySize at h
  have := BODY_eq
  omega

/-- `push` of the next key of the list the gauge describes -/
theorem push_spec {kf : KF} (hkf : KFOK kf) (g : Gauge) (Lall : List Nat) (hg : GOK kf g Lall) (k0 : Nat)
    (bld : Bld) (pre : List Nat) (key pn : Nat) (post : List Nat) (hL : Lall = pre ++ key :: post)
    (hc : BCtx kf g k0 bld pre) :
    ∃ bld', bld.push key (kf.sl key) pn = some bld' ∧
      bld'.items = bld.items ++ [⟨key, pn, canonLen kf g.pl g.pcItems pre.length key⟩] ∧
      BCtx kf g k0 bld' (pre ++ [key]) := by
  have hidx : bld.index = pre.length := by rw [Bld.index, ← hc.keys]; simp
  have hlt : bld.index < bld.n := by
    rw [hidx, hc.hn, hg.n, hL]; simp
  have hgood : GoodFrom kf g.pl g.pcItems k0 0 (bld.items ++ [⟨key, pn, canonLen kf g.pl g.pcItems pre.length key⟩]) := by
    rw [goodFrom_append]
    refine ⟨hc.good, ?_, trivial⟩
    have : bld.items.length = pre.length := by rw [← hc.keys]; simp
    simp only [Nat.zero_add, this]
    refine ⟨Nat.le_refl _, by simp, fun _ => rfl⟩
  have hctx : ∀ sl', sl' = canonLen kf g.pl g.pcItems pre.length key →
      BCtx kf g k0 { bld with items := bld.items ++ [⟨key, pn, sl'⟩] } (pre ++ [key]) := by
    intro sl' e
    subst e
    exact ⟨hc.hn, hc.hpc, hc.hpl, by simp [hc.keys], hgood⟩
  simp only [Bld.push, hlt, not_true_eq_false, if_false]
  by_cases hcmp : bld.index < bld.pc
  · simp only [hcmp, if_true]
    have hcl : canonLen kf g.pl g.pcItems pre.length key = kf.sl key - bld.pl := by
      rw [hidx, hc.hpc] at hcmp
      simp [canonLen, hcmp, hc.hpl]
    have hpre : bld.prefixOK key = true := by
      unfold Bld.prefixOK
      cases hh : bld.items.head? with
      | none => rfl
      | some f =>
        simp only [beq_iff_eq]
        -- `f.key` is the first key of `Lall`
        have hne : bld.items ≠ [] := by intro e; rw [e] at hh; cases hh
        obtain ⟨f', r', hfr⟩ := List.exists_cons_of_ne_nil hne
        rw [hfr] at hh
        simp only [List.head?_cons, Option.some.injEq] at hh
        subst hh
        have hpre0 : pre = f'.key :: r'.map (·.key) := by rw [← hc.keys, hfr]; rfl
        have hhead : Lall.head? = some f'.key := by rw [hL, hpre0]; rfl
        have hmem : key ∈ Lall.take g.pcItems := by
          rw [hL]
          apply mem_take_of_split
          rw [hidx, hc.hpc] at hcmp; exact hcmp
        rw [hc.hpl]
        exact hg.share _ hhead _ hmem
    simp only [hpre, if_true]
    exact ⟨_, rfl, by rw [hcl], hctx _ hcl.symm⟩
  · simp only [hcmp, if_false]
    have hcl : canonLen kf g.pl g.pcItems pre.length key = kf.sl key := by
      rw [hidx, hc.hpc] at hcmp
      simp [canonLen, hcmp]
    exact ⟨_, rfl, by rw [hcl], hctx _ hcl.symm⟩

/-- the stored length `push_chunk` gives a separator that is prefix-compressed in a well-formed base -/
theorem chunkLen_good {kf : KF} (hkf : KFOK kf) (base : Node) (hnode : NodeOK kf base) (plNew pcNew idx : Nat)
    (j : Nat) (hj : j < base.pc) (hjl : j < base.items.length) (hidx : idx < pcNew) (hpl : plNew ≤ 256)
    (h0 : 0 < base.items.length) (hns : kf.canon = true → j = 0 → base.pl ≤ kf.sl base.items[0].key) :
    GoodLen kf plNew pcNew base.items[0].key idx
      ⟨base.items[j].key, base.items[j].pn,
        if plNew < base.pl then base.items[j].slen + (base.pl - plNew)
        else base.items[j].slen - (plNew - base.pl)⟩ := by
  have hcan := hnode.canon j hjl
  simp only [hj, if_true] at hcan
  have hbpl := hnode.pl_le
  unfold GoodLen
  simp only [canonLen, hidx, if_true]
  by_cases hj0 : j = 0
  · subst hj0
    simp only [if_true]
    refine ⟨by split <;> omega, by split <;> omega, ?_⟩
    intro hc
    have := hns hc rfl
    split <;> omega
  · have hgt := hnode.sl_gt hkf j (by omega) hj hjl
    have hne : base.items[j].key ≠ base.items[0].key := by
      have := hnode.key_lt 0 j (by omega) hjl
      omega
    simp only [hne, if_false]
    refine ⟨by split <;> omega, by split <;> omega, ?_⟩
    intro _
    split <;> omega

/-- the items `push_chunk` writes for the items `its` of the base (before the page-number updates) -/
def chunkOut (plNew : Nat) (base : Node) (its : List Item) : List Item :=
  its.map fun it =>
    ⟨it.key, it.pn, if plNew < base.pl then it.slen + (base.pl - plNew) else it.slen - (plNew - base.pl)⟩

theorem chunkItems_eq (b : Bld) (base : Node) (first : Nat) : ∀ (its : List Item),
    (∀ it ∈ its, top it.key b.pl = top first b.pl) → chunkItems b base first its = some (chunkOut b.pl base its)
  | [], _ => rfl
  | it :: r, h => by
    have h1 : (top it.key b.pl == top first b.pl) = true := by simp [h it (by simp)]
    simp only [chunkItems, h1, if_true, chunkItems_eq b base first r (fun x hx => h x (by simp [hx])), Option.map_some]
    rfl

theorem chunkOut_ents (pl : Nat) (base : Node) (its : List Item) : ents (chunkOut pl base its) = ents its := by
  simp [chunkOut, ents, Item.ent]

theorem chunkOut_keys (pl : Nat) (base : Node) (its : List Item) :
    (chunkOut pl base its).map (·.key) = its.map (·.key) := by
  simp [chunkOut]

theorem goodFrom_chunk {kf : KF} (hkf : KFOK kf) (base : Node) (hnode : NodeOK kf base) (plNew pcNew : Nat)
    (hpl : plNew ≤ 256) (h0 : 0 < base.items.length) :
    ∀ d s idx0, s + d ≤ base.pc → idx0 + d ≤ pcNew → (kf.canon = true → s = 0 → base.pl ≤ kf.sl base.items[0].key) →
      GoodFrom kf plNew pcNew base.items[0].key idx0 (chunkOut plNew base (slice base.items s (s + d))) := by
  intro d
  induction d with
  | zero => intro s idx0 _ _ _; simp [slice_self, chunkOut, GoodFrom]
  | succ d ih =>
    intro s idx0 h1 h2 hns
    have hsl : s < base.items.length := by have := hnode.pc_le; omega
    have e : s + (d + 1) = s + 1 + d := by omega
    rw [e, slice_cons_of_lt _ _ _ (by omega) hsl]
    simp only [chunkOut, List.map_cons, GoodFrom]
    exact ⟨chunkLen_good hkf base hnode plNew pcNew idx0 s (by omega) hsl (by omega) hpl h0 hns,
      ih (s + 1) (idx0 + 1) (by omega) (by omega) (fun _ h => absurd h (by omega))⟩

theorem goodFrom_congr (kf : KF) (pl pc k0 : Nat) : ∀ (X Y : List Item) (st : Nat),
    X.map (·.key) = Y.map (·.key) → X.map (·.slen) = Y.map (·.slen) → GoodFrom kf pl pc k0 st X →
    GoodFrom kf pl pc k0 st Y
  | [], [], _, _, _, _ => trivial
  | [], _ :: _, _, h, _, _ => by simp at h
  | _ :: _, [], _, h, _, _ => by simp at h
  | x :: r, y :: r', st, hk, hs, hg => by
    simp only [List.map_cons, List.cons.injEq] at hk hs
    refine ⟨?_, goodFrom_congr kf pl pc k0 r r' (st + 1) hk.2 hs.2 hg.2⟩
    have := hg.1
    unfold GoodLen at this ⊢
    rw [← hk.1, ← hs.1]
    exact this

/-- `push_chunk` of the next keys of the list the gauge describes -/
theorem pushChunk_bspec {kf : KF} (hkf : KFOK kf) (g : Gauge) (Lall : List Nat) (hg : GOK kf g Lall)
    (hsL : SortedK Lall) (hbody : bodyOfKeys kf g.pl g.pcItems Lall ≤ BODY)
    (base : Base) (hnode : NodeOK kf base.node) (bld : Bld) (pre post : List Nat) (s e : Nat) (hse : s < e)
    (hepc : e ≤ base.node.pc) (hL : Lall = pre ++ chunkKeys base s e ++ post)
    (hfit : pre.length + (e - s) ≤ g.pcItems)
    (h0 : 0 < base.node.items.length)
    (hc : BCtx kf g base.node.items[0].key bld pre) (u : List (Nat × Nat)) (hu : ∀ p ∈ u, p.1 < e - s)
    (hns : kf.canon = true → s = 0 → base.node.pl ≤ kf.sl base.node.items[0].key) :
    ∃ bld', bld.pushChunk base.node s e u = some bld' ∧
      bld'.items = bld.items ++ updPns u (chunkOut g.pl base.node (slice base.node.items s e)) ∧
      BCtx kf g base.node.items[0].key bld' (pre ++ chunkKeys base s e) := by
  have hB := BODY_eq
  have hpcn := hnode.pc_le
  have hel : e ≤ base.node.items.length := by omega
  have hidx : bld.index = pre.length := by rw [Bld.index, ← hc.keys]; simp
  have hitl : bld.items.length = pre.length := by rw [← hc.keys]; simp
  have hCl := chunkKeys_length base s e hel
  have hpcle : g.pcItems ≤ g.n := by
    have hne : Lall ≠ [] := by
      intro hnil
      have : (chunkKeys base s e).length = 0 := by
        have := congrArg List.length hL
        rw [hnil] at this
        simp at this
        omega
      omega
    rw [hg.n]; exact (hg.pcItems_bounds hne).2
  simp only [Bld.pushChunk]
  have c1 : ¬ e < s := by omega
  have c2 : bld.index + (e - s) ≤ bld.pc := by rw [hidx, hc.hpc]; exact hfit
  have c3 : ¬ (base.node.n < e ∨ base.node.pc < e) := by simp only [Node.n]; omega
  have c4 : ¬ e = s := by omega
  simp only [c1, if_false, c2, not_true_eq_false, c3, c4, Node.key_of_lt _ _ (by omega : s < base.node.items.length)]
  -- the first key of the node
  have hLhead : ∃ f, Lall.head? = some f ∧ bld.firstKey base.node.items[s].key = f := by
    unfold Bld.firstKey
    cases hh : bld.items.head? with
    | some x =>
      obtain ⟨f', r', hfr⟩ := List.exists_cons_of_ne_nil (show bld.items ≠ [] from by intro hn; rw [hn] at hh; cases hh)
      rw [hfr] at hh
      simp only [List.head?_cons, Option.some.injEq] at hh
      subst hh
      have hpre0 : pre = f'.key :: r'.map (·.key) := by rw [← hc.keys, hfr]; rfl
      exact ⟨f'.key, by rw [hL, hpre0]; rfl, rfl⟩
    | none =>
      have hnil : bld.items = [] := by
        cases hx : bld.items with
        | nil => rfl
        | cons a r => rw [hx] at hh; cases hh
      have hpre0 : pre = [] := by rw [← hc.keys, hnil]; rfl
      refine ⟨base.node.items[s].key, ?_, rfl⟩
      rw [hL, hpre0, chunkKeys_cons base s e hse (by omega)]; rfl
  obtain ⟨f, hf1, hf2⟩ := hLhead
  rw [hf2]
  have htops : ∀ it ∈ slice base.node.items s e, top it.key bld.pl = top f bld.pl := by
    intro it hit
    rw [hc.hpl]
    apply hg.share f hf1
    -- the key sits at an index below `pcItems`
    have hk : it.key ∈ chunkKeys base s e := List.mem_map.2 ⟨it, hit, rfl⟩
    obtain ⟨a, b, hab⟩ := List.append_of_mem hk
    rw [hL, hab]
    have : pre ++ (a ++ it.key :: b) ++ post = (pre ++ a) ++ it.key :: (b ++ post) := by simp
    rw [this]
    apply mem_take_of_split
    have hlen : a.length + 1 + b.length = e - s := by
      have := congrArg List.length hab
      rw [hCl] at this
      simp at this
      omega
    simp only [List.length_append]
    omega
  rw [chunkItems_eq bld base.node f _ htops]
  simp only [hc.hpl, Bld.addChunk]
  -- the stored lengths
  have hgoodC : GoodFrom kf g.pl g.pcItems base.node.items[0].key pre.length
      (chunkOut g.pl base.node (slice base.node.items s e)) := by
    have := goodFrom_chunk hkf base.node hnode g.pl g.pcItems hg.pl_le h0 (e - s) s pre.length (by omega) hfit hns
    rwa [show s + (e - s) = e by omega] at this
  have hgood : GoodFrom kf g.pl g.pcItems base.node.items[0].key 0
      (bld.items ++ chunkOut g.pl base.node (slice base.node.items s e)) := by
    rw [goodFrom_append]
    exact ⟨hc.good, by rw [Nat.zero_add, hitl]; exact hgoodC⟩
  have hkeysC : (bld.items ++ chunkOut g.pl base.node (slice base.node.items s e)).map (·.key) =
      pre ++ chunkKeys base s e := by
    rw [List.map_append, hc.keys, chunkOut_keys]; rfl
  -- `u16::try_from(cell_pointer)`
  have hu16 : ¬ 65535 < slenSum (bld.items ++ chunkOut g.pl base.node (slice base.node.items s e)) := by
    obtain ⟨_, hub, _⟩ := goodFrom_sum kf g.pl g.pcItems _ _ 0 hgood
    rw [hkeysC, Nat.sub_zero] at hub
    have hcnt := filter_key_le_one base.node.items[0].key
      (bld.items ++ chunkOut g.pl base.node (slice base.node.items s e))
      (by rw [hkeysC]; rw [hL] at hsL; exact hsL.append_left)
    have hpre := lensOf_prefix_sum kf g.pl g.pcItems (pre ++ chunkKeys base s e) post
    rw [← hL] at hpre
    have hbits := bodySize_bits hbody
    generalize (List.filter (fun it => it.key == base.node.items[0].key)
      (bld.items ++ chunkOut g.pl base.node (slice base.node.items s e))).length = F at *
    omega
  simp only [hu16, if_false]
  -- the page-number updates
  have hupd := applyUpdated_eq bld.n u bld.items (chunkOut g.pl base.node (slice base.node.items s e))
    (by
      intro p hp
      have := hu p hp
      rw [hitl, hc.hn]
      omega)
  rw [← Bld.index, hidx, ← hitl] at *
  rw [hupd]
  simp only [Option.map_some]
  refine ⟨_, rfl, rfl, ⟨hc.hn, hc.hpc, rfl, ?_, ?_⟩⟩
  · simp only [List.map_append, hc.keys, (updPns_keys _ _).1, chunkOut_keys]; rfl
  · -- only page numbers changed
    rw [goodFrom_append] at hgood ⊢
    refine ⟨hgood.1, ?_⟩
    exact goodFrom_congr kf g.pl g.pcItems _ _ _ _ (updPns_keys u _).1.symm (updPns_keys u _).2.symm hgood.2

/-! ## the pending chunk of `build_branch` -/

/-- `acc` is a run of `KeepChunk` / `Update` ops that covers the items `s … e-1` of the base without a gap -/
def Adj : List Op → Nat → Nat → Prop
  | [], s, e => s = e
  | .keep cs ce _ :: r, s, e => cs = s ∧ s < ce ∧ Adj r ce e
  | .upd pos _ :: r, s, e => pos = s ∧ Adj r (s + 1) e
  | .ins _ _ :: _, _, _ => False

theorem Adj.le : ∀ {acc : List Op} {s e : Nat}, Adj acc s e → s ≤ e
  | [], _, _, h => by simp only [Adj] at h; omega
  | .keep _ _ _ :: r, _, _, h => by have := Adj.le (acc := r) h.2.2; have := h.2.1; omega
  | .upd _ _ :: r, _, _, h => by have := Adj.le (acc := r) h.2; omega
  | .ins _ _ :: _, _, _, h => h.elim

theorem Adj.snoc_keep : ∀ {acc : List Op} {s e : Nat} (ce sum : Nat), Adj acc s e → e < ce →
    Adj (acc ++ [.keep e ce sum]) s ce
  | [], s, e, ce, sum, h, hlt => by simp only [Adj] at h; subst h; exact ⟨rfl, hlt, rfl⟩
  | .keep _ _ _ :: r, _, _, ce, sum, h, hlt => ⟨h.1, h.2.1, Adj.snoc_keep (acc := r) ce sum h.2.2 hlt⟩
  | .upd _ _ :: r, _, _, ce, sum, h, hlt => ⟨h.1, Adj.snoc_keep (acc := r) ce sum h.2 hlt⟩
  | .ins _ _ :: _, _, _, _, _, h, _ => h.elim

theorem Adj.snoc_upd : ∀ {acc : List Op} {s e : Nat} (pn : Nat), Adj acc s e → Adj (acc ++ [.upd e pn]) s (e + 1)
  | [], s, e, pn, h => by simp only [Adj] at h; subst h; exact ⟨rfl, rfl⟩
  | .keep _ _ _ :: r, _, _, pn, h => ⟨h.1, h.2.1, Adj.snoc_upd (acc := r) pn h.2.2⟩
  | .upd _ _ :: r, _, _, pn, h => ⟨h.1, Adj.snoc_upd (acc := r) pn h.2⟩
  | .ins _ _ :: _, _, _, _, h => h.elim

/-- the offsets of the updates of a run that starts at `c` are at least `c - s` and below `e - s` -/
theorem Adj.upds_range : ∀ {acc : List Op} {c e : Nat} (s : Nat), Adj acc c e → s ≤ c →
    ∀ p ∈ updsOf s acc, c - s ≤ p.1 ∧ p.1 < e - s
  | [], _, _, _, _, _, p, hp => by cases hp
  | .keep _ ce _ :: r, c, e, s, h, hs, p, hp => by
    have := Adj.upds_range (acc := r) s h.2.2 (by have := h.2.1; omega) p hp
    have := h.2.1
    omega
  | .upd pos pn :: r, c, e, s, h, hs, p, hp => by
    simp only [updsOf, List.mem_cons] at hp
    have hle := Adj.le h.2
    rcases hp with rfl | hp
    · have := h.1; simp only; omega
    · have := Adj.upds_range (acc := r) s h.2 (by omega) p hp
      omega
  | .ins _ _ :: _, _, _, _, h, _, _, _ => h.elim

theorem updsOf_shift : ∀ {acc : List Op} {c e : Nat} (s : Nat), Adj acc c e → s ≤ c →
    (updsOf s acc).map (fun p => (p.1 - (c - s), p.2)) = updsOf c acc
  | [], _, _, _, _, _ => rfl
  | .keep _ ce _ :: r, c, e, s, h, hs => by
    simp only [updsOf]
    have h1 := updsOf_shift (acc := r) s h.2.2 (by have := h.2.1; omega)
    have h2 := updsOf_shift (acc := r) c h.2.2 (by have := h.2.1; omega)
    -- both are `updsOf ce r` shifted
    have e1 : (updsOf s r).map (fun p => (p.1 - (c - s), p.2)) =
        ((updsOf s r).map (fun p => (p.1 - (ce - s), p.2))).map (fun p => (p.1 + (ce - c), p.2)) := by
      rw [List.map_map]
      apply List.map_congr_left
      intro p hp
      have := Adj.upds_range (acc := r) s h.2.2 (by have := h.2.1; omega) p hp
      have := h.2.1
      simp only [Function.comp, Prod.mk.injEq, and_true]
      omega
    have e2 : updsOf c r = ((updsOf c r).map (fun p => (p.1 - (ce - c), p.2))).map (fun p => (p.1 + (ce - c), p.2)) := by
      rw [List.map_map]
      conv => lhs; rw [← List.map_id (updsOf c r)]
      apply List.map_congr_left
      intro p hp
      have := Adj.upds_range (acc := r) c h.2.2 (by have := h.2.1; omega) p hp
      simp only [Function.comp, id]
      ext
      · simp only; omega
      · rfl
    rw [e1, e2, h1, h2]
  | .upd pos pn :: r, c, e, s, h, hs => by
    simp only [updsOf, List.map_cons]
    have h1 := updsOf_shift (acc := r) s h.2 (by omega)
    have h2 := updsOf_shift (acc := r) c h.2 (by omega)
    have hp : pos = c := h.1
    subst hp
    congr 1
    · ext
      · simp only; omega
      · rfl
    · have e1 : (updsOf s r).map (fun p => (p.1 - (pos - s), p.2)) =
          ((updsOf s r).map (fun p => (p.1 - (pos + 1 - s), p.2))).map (fun p => (p.1 + 1, p.2)) := by
        rw [List.map_map]
        apply List.map_congr_left
        intro p hp
        have := Adj.upds_range (acc := r) s h.2 (by omega) p hp
        simp only [Function.comp, Prod.mk.injEq, and_true]
        omega
      have e2 : updsOf pos r = ((updsOf pos r).map (fun p => (p.1 - (pos + 1 - pos), p.2))).map (fun p => (p.1 + 1, p.2)) := by
        rw [List.map_map]
        conv => lhs; rw [← List.map_id (updsOf pos r)]
        apply List.map_congr_left
        intro p hp
        have := Adj.upds_range (acc := r) pos h.2 (by omega) p hp
        simp only [Function.comp, id]
        ext
        · simp only; omega
        · rfl
      rw [e1, e2, h1, h2]
  | .ins _ _ :: _, _, _, _, h, _ => h.elim

theorem chunkOut_append (pl : Nat) (base : Node) (a b : List Item) :
    chunkOut pl base (a ++ b) = chunkOut pl base a ++ chunkOut pl base b := by
  simp [chunkOut]

theorem chunkOut_length (pl : Nat) (base : Node) (a : List Item) : (chunkOut pl base a).length = a.length := by
  simp [chunkOut]

/-- the items `push_chunk` writes for a pending run, with the page numbers of its `Update`s, are what the run stands for -/
theorem adj_den (pl : Nat) (base : Base) : ∀ (acc : List Op) (c e : Nat), Adj acc c e →
    e ≤ base.node.items.length →
    ents (updPns (updsOf c acc) (chunkOut pl base.node (slice base.node.items c e))) = den (some base) acc
  | [], c, e, h, _ => by
    simp only [Adj] at h; subst h
    simp [slice_self, chunkOut, updsOf, updPns]
  | .keep cs ce sum :: r, c, e, h, hel => by
    obtain ⟨h1, h2, h3⟩ := h
    subst h1
    have hce := Adj.le h3
    have hsplit := slice_append base.node.items cs ce e (by omega) hce
    rw [← hsplit, chunkOut_append]
    simp only [updsOf]
    rw [updPns_shift _ _ _ (by
      intro p hp
      have := Adj.upds_range (acc := r) cs h3 (by omega) p hp
      rw [chunkOut_length, slice_length _ _ _ (by omega)]
      exact this.1)]
    rw [chunkOut_length, slice_length _ _ _ (by omega), updsOf_shift cs h3 (by omega)]
    rw [ents_append, adj_den pl base r ce e h3 hel, chunkOut_ents]
    simp [denOp, baseItems]
  | .upd pos pn :: r, c, e, h, hel => by
    obtain ⟨h1, h3⟩ := h
    subst h1
    have hce := Adj.le h3
    have hpl : pos < base.node.items.length := by omega
    rw [slice_cons_of_lt _ _ _ (by omega) hpl]
    simp only [updsOf, Nat.sub_self, chunkOut, List.map_cons, updPns, List.getElem?_cons_zero, List.set_cons_zero]
    have hsh := updPns_shift (updsOf pos r)
      [(⟨base.node.items[pos].key, pn, if pl < base.node.pl then base.node.items[pos].slen + (base.node.pl - pl)
          else base.node.items[pos].slen - (pl - base.node.pl)⟩ : Item)]
      (chunkOut pl base.node (slice base.node.items (pos + 1) e))
      (by
        intro p hp
        have := Adj.upds_range (acc := r) pos h3 (by omega) p hp
        simp only [List.length_cons, List.length_nil]
        omega)
    simp only [List.cons_append, List.nil_append, List.length_cons, List.length_nil, chunkOut] at hsh
    rw [hsh]
    have hs2 := updsOf_shift (acc := r) pos h3 (by omega)
    simp only [Nat.add_sub_cancel_left] at hs2
    rw [hs2]
    have ih := adj_den pl base r (pos + 1) e h3 hel
    simp only [chunkOut] at ih
    simp only [ents_cons, ih, den_cons, denOp, baseItems, List.getElem?_eq_getElem hpl, Item.ent]
    rfl
  | .ins _ _ :: _, _, _, h, _ => h.elim

/-- `apply_chunk` for a pending run that fits in front of the compression stop -/
theorem applyChunk_spec {kf : KF} (hkf : KFOK kf) (g : Gauge) (Lall : List Nat) (hg : GOK kf g Lall)
    (hsL : SortedK Lall) (hbody : bodyOfKeys kf g.pl g.pcItems Lall ≤ BODY)
    (base : Base) (hnode : NodeOK kf base.node) (bld : Bld) (pre post : List Nat) (s e : Nat) (acc : List Op)
    (hadj : Adj acc s e) (hse : s < e) (hepc : e ≤ base.node.pc) (hL : Lall = pre ++ chunkKeys base s e ++ post)
    (hfit : pre.length + (e - s) ≤ g.pcItems) (h0 : 0 < base.node.items.length)
    (hc : BCtx kf g base.node.items[0].key bld pre)
    (hns : kf.canon = true → s = 0 → base.node.pl ≤ kf.sl base.node.items[0].key) :
    ∃ bld', applyChunk kf base g bld s e acc = some bld' ∧ ents bld'.items = ents bld.items ++ den (some base) acc ∧
      BCtx kf g base.node.items[0].key bld' (pre ++ chunkKeys base s e) := by
  have hidx : bld.index = pre.length := by rw [Bld.index, ← hc.keys]; simp
  have hcend : min (s + (g.pcItems - bld.index)) e = e := by rw [hidx]; omega
  have hel : e ≤ base.node.items.length := by have := hnode.pc_le; omega
  obtain ⟨bld', e1, e2, e3⟩ := pushChunk_bspec hkf g Lall hg hsL hbody base hnode bld pre post s e hse hepc hL hfit h0 hc
    (updsOf s acc) (fun p hp => (Adj.upds_range s hadj (Nat.le_refl _) p hp).2) hns
  simp only [applyChunk, hcend, e1, Nat.sub_self, pushRange]
  refine ⟨bld', rfl, ?_, e3⟩
  rw [e2, ents_append, adj_den g.pl base acc s e hadj hel]

/-- what the loop of `build_branch` knows about its pending chunk and the ops still to come -/
def PendOK (kf : KF) (g : Gauge) (Lall : List Nat) (base : Base) (pre : List Nat) (rest : List Op) :
    Option (Nat × Nat × List Op) → Prop
  | none => Lall = pre ++ ekeys (den (some base) rest) ∧ PCOK (g.pcItems - pre.length) rest
  | some (s, e, acc) =>
    Adj acc s e ∧ s < e ∧ e ≤ base.node.pc ∧ Lall = pre ++ chunkKeys base s e ++ ekeys (den (some base) rest) ∧
      pre.length + (e - s) ≤ g.pcItems ∧ PCOK (g.pcItems - pre.length - (e - s)) rest ∧ NoShort kf base s

def pendDen (base : Base) : Option (Nat × Nat × List Op) → List (Entry Nat)
  | none => []
  | some (_, _, acc) => den (some base) acc

theorem buildLoop_spec {kf : KF} (hkf : KFOK kf) (g : Gauge) (Lall : List Nat) (hg : GOK kf g Lall)
    (hsL : SortedK Lall) (hbody : bodyOfKeys kf g.pl g.pcItems Lall ≤ BODY)
    (base : Base) (hnode : NodeOK kf base.node) (h0 : 0 < base.node.items.length) :
    ∀ (rest : List Op) (bld : Bld) (pend : Option (Nat × Nat × List Op)) (pre : List Nat),
      BCtx kf g base.node.items[0].key bld pre → WF kf (some base) rest → PendOK kf g Lall base pre rest pend →
      ∃ bld', buildLoop kf base g rest bld pend = some bld' ∧ BCtx kf g base.node.items[0].key bld' Lall ∧
        ents bld'.items = ents bld.items ++ pendDen base pend ++ den (some base) rest := by
  have hpcn := hnode.pc_le
  intro rest
  induction rest with
  | nil =>
    intro bld pend pre hc _ hp
    cases pend with
    | none =>
      obtain ⟨h1, _⟩ := hp
      simp only [den_nil, ekeys_nil, List.append_nil] at h1
      subst h1
      exact ⟨bld, rfl, hc, by simp [pendDen]⟩
    | some p =>
      obtain ⟨s, e, acc⟩ := p
      obtain ⟨h1, h2, h3, h4, h5, _, h7⟩ := hp
      obtain ⟨bld', e1, e2, e3⟩ := applyChunk_spec hkf g Lall hg hsL hbody base hnode bld pre [] s e acc h1 h2 h3
        (by simpa using h4) h5 h0 hc (fun hcn hs0 => h7 hcn hs0 _ (Node.key_of_lt _ _ h0))
      simp only [den_nil, ekeys_nil, List.append_nil] at h4
      rw [← h4] at e3
      exact ⟨bld', e1, e3, by simp [pendDen, e2]⟩
  | cons op rest ih =>
    intro bld pend pre hc hwf hp
    have hop : OpOK kf (some base) op := (wf_cons.1 hwf).1
    have hwfr : WF kf (some base) rest := (wf_cons.1 hwf).2
    -- the op processed with no chunk pending
    have fresh : ∀ (bld0 : Bld) (pre0 : List Nat) (front : List (Entry Nat)),
        BCtx kf g base.node.items[0].key bld0 pre0 → ents bld0.items = ents bld.items ++ front →
        Lall = pre0 ++ ekeys (den (some base) (op :: rest)) → PCOK (g.pcItems - pre0.length) (op :: rest) →
        ∃ bld', (match op with
            | .ins key pn => (bld0.push key (kf.sl key) pn).bind fun b' => buildLoop kf base g rest b' none
            | .keep cs ce _ => buildLoop kf base g rest bld0 (some (cs, ce, [op]))
            | .upd pos _ => buildLoop kf base g rest bld0 (some (pos, pos + 1, [op]))) = some bld' ∧
          BCtx kf g base.node.items[0].key bld' Lall ∧
          ents bld'.items = ents bld.items ++ front ++ den (some base) (op :: rest) := by
      intro bld0 pre0 front hc0 hfront hL0 hpc0
      cases op with
      | ins key pn =>
        simp only [den_cons, denOp, ekeys_append, ekeys_cons, ekeys_nil, List.singleton_append] at hL0
        obtain ⟨b1, p1, p2, p3⟩ := push_spec hkf g Lall hg base.node.items[0].key bld0 pre0 key pn _ hL0 hc0
        obtain ⟨bld', q1, q2, q3⟩ := ih b1 none (pre0 ++ [key]) p3 hwfr
          ⟨by rw [hL0]; simp, by
            simp only [PCOK] at hpc0
            simpa [Nat.sub_sub] using hpc0⟩
        refine ⟨bld', by simp only [p1, Option.bind_some]; exact q1, q2, ?_⟩
        rw [q3, p2]
        simp [pendDen, hfront, denOp, Item.ent]
      | keep cs ce sum =>
        obtain ⟨b', eb, k1, k2, k3, k4⟩ := hop
        cases eb
        simp only [PCOK] at hpc0
        have hkk : ekeys (denOp (some base) (.keep cs ce sum)) = chunkKeys base cs ce := denOp_keep_keys base cs ce sum
        obtain ⟨bld', q1, q2, q3⟩ := ih bld0 (some (cs, ce, [.keep cs ce sum])) pre0 hc0 hwfr
          ⟨⟨rfl, k1, rfl⟩, k1, k2, by rw [hL0, den_cons, ekeys_append, hkk, List.append_assoc], by omega, by
            simpa [Nat.sub_sub] using hpc0.2, k4⟩
        refine ⟨bld', q1, q2, ?_⟩
        rw [q3]
        simp [pendDen, hfront]
      | upd pos pn =>
        obtain ⟨b', eb, k1, k4⟩ := hop
        cases eb
        simp only [PCOK] at hpc0
        have hpl : pos < base.node.items.length := by omega
        have hkk : ekeys (denOp (some base) (.upd pos pn)) = chunkKeys base pos (pos + 1) := by
          simp [denOp, baseItems, List.getElem?_eq_getElem hpl, chunkKeys, slice_succ _ _ hpl]
        obtain ⟨bld', q1, q2, q3⟩ := ih bld0 (some (pos, pos + 1, [.upd pos pn])) pre0 hc0 hwfr
          ⟨⟨rfl, rfl⟩, by omega, by omega, by rw [hL0, den_cons, ekeys_append, hkk, List.append_assoc], by omega, by
            simpa [Nat.sub_sub] using hpc0.2, k4⟩
        refine ⟨bld', q1, q2, ?_⟩
        rw [q3]
        simp [pendDen, hfront]
    cases pend with
    | none =>
      obtain ⟨h1, h2⟩ := hp
      obtain ⟨bld', q1, q2, q3⟩ := fresh bld pre [] hc (by simp) h1 h2
      refine ⟨bld', ?_, q2, by simpa [pendDen] using q3⟩
      rw [← q1]
      cases op <;> simp [buildLoop]
    | some p =>
      obtain ⟨s, e, acc⟩ := p
      obtain ⟨a1, a2, a3, a4, a5, a6, a7⟩ := hp
      -- applying the pending chunk, then the op
      have flush : ∃ bld', ((applyChunk kf base g bld s e acc).bind fun b0 =>
            match op with
            | .ins key pn => (b0.push key (kf.sl key) pn).bind fun b' => buildLoop kf base g rest b' none
            | .keep cs ce _ => buildLoop kf base g rest b0 (some (cs, ce, [op]))
            | .upd pos _ => buildLoop kf base g rest b0 (some (pos, pos + 1, [op]))) = some bld' ∧
          BCtx kf g base.node.items[0].key bld' Lall ∧
          ents bld'.items = ents bld.items ++ den (some base) acc ++ den (some base) (op :: rest) := by
        obtain ⟨b0, e1, e2, e3⟩ := applyChunk_spec hkf g Lall hg hsL hbody base hnode bld pre _ s e acc a1 a2 a3 a4 a5 h0 hc
          (fun hcn hs0 => a7 hcn hs0 _ (Node.key_of_lt _ _ h0))
        have hlen : (pre ++ chunkKeys base s e).length = pre.length + (e - s) := by
          rw [List.length_append, chunkKeys_length _ _ _ (by omega)]
        obtain ⟨bld', q1, q2, q3⟩ := fresh b0 (pre ++ chunkKeys base s e) (den (some base) acc) e3 e2
          (by rw [a4]) (by rw [hlen, ← Nat.sub_sub]; exact a6)
        exact ⟨bld', by simp only [e1, Option.bind_some]; exact q1, q2, q3⟩
      cases op with
      | ins key pn =>
        obtain ⟨bld', q1, q2, q3⟩ := flush
        refine ⟨bld', ?_, q2, by simpa [pendDen] using q3⟩
        rw [← q1]; simp [buildLoop]
      | keep cs ce sum =>
        by_cases hadj : e = cs
        · subst hadj
          obtain ⟨b', eb, k1, k2, k3, _⟩ := hop
          cases eb
          simp only [PCOK] at a6
          have hkk : ekeys (denOp (some base) (.keep e ce sum)) = chunkKeys base e ce := denOp_keep_keys base e ce sum
          obtain ⟨bld', q1, q2, q3⟩ := ih bld (some (s, ce, acc ++ [.keep e ce sum])) pre hc hwfr
            ⟨Adj.snoc_keep ce sum a1 k1, by omega, k2, by
              rw [a4, den_cons, ekeys_append, hkk, ← chunkKeys_append base s e ce (by omega) (by omega)]
              simp [List.append_assoc], by omega, by
              have : g.pcItems - pre.length - (ce - s) = g.pcItems - pre.length - (e - s) - (ce - e) := by omega
              rw [this]; exact a6.2, a7⟩
          refine ⟨bld', ?_, q2, ?_⟩
          · rw [← q1]; simp [buildLoop]
          · rw [q3]; simp [pendDen]
        · obtain ⟨bld', q1, q2, q3⟩ := flush
          refine ⟨bld', ?_, q2, by simpa [pendDen] using q3⟩
          rw [← q1]; simp [buildLoop, hadj]
      | upd pos pn =>
        by_cases hadj : e = pos
        · subst hadj
          obtain ⟨b', eb, k1, _⟩ := hop
          cases eb
          simp only [PCOK] at a6
          have hpl : e < base.node.items.length := by omega
          have hkk : ekeys (denOp (some base) (.upd e pn)) = chunkKeys base e (e + 1) := by
            simp [denOp, baseItems, List.getElem?_eq_getElem hpl, chunkKeys, slice_succ _ _ hpl]
          obtain ⟨bld', q1, q2, q3⟩ := ih bld (some (s, e + 1, acc ++ [.upd e pn])) pre hc hwfr
            ⟨Adj.snoc_upd pn a1, by omega, by omega, by
              rw [a4, den_cons, ekeys_append, hkk, ← chunkKeys_append base s e (e + 1) (by omega) (by omega)]
              simp [List.append_assoc], by omega, by
              have : g.pcItems - pre.length - (e + 1 - s) = g.pcItems - pre.length - (e - s) - 1 := by omega
              rw [this]; exact a6.2, a7⟩
          refine ⟨bld', ?_, q2, ?_⟩
          · rw [← q1]; simp [buildLoop]
          · rw [q3]; simp [pendDen]
        · obtain ⟨bld', q1, q2, q3⟩ := flush
          refine ⟨bld', ?_, q2, by simpa [pendDen] using q3⟩
          rw [← q1]; simp [buildLoop, hadj]

theorem buildNoBase_spec {kf : KF} (hkf : KFOK kf) (g : Gauge) (Lall : List Nat) (hg : GOK kf g Lall) (k0 : Nat) :
    ∀ (ops : List Op) (bld : Bld) (pre : List Nat), BCtx kf g k0 bld pre → AllIns ops →
      Lall = pre ++ ekeys (den none ops) →
      ∃ bld', buildNoBase kf ops bld = some bld' ∧ BCtx kf g k0 bld' Lall ∧ ents bld'.items = ents bld.items ++ den none ops
  | [], bld, pre, hc, _, hL => by
    simp only [den_nil, ekeys_nil, List.append_nil] at hL
    subst hL
    exact ⟨bld, rfl, hc, by simp⟩
  | .ins key pn :: rest, bld, pre, hc, hai, hL => by
    simp only [den_cons, denOp, ekeys_append, ekeys_cons, ekeys_nil, List.singleton_append] at hL
    obtain ⟨b1, p1, p2, p3⟩ := push_spec hkf g Lall hg k0 bld pre key pn _ hL hc
    obtain ⟨bld', q1, q2, q3⟩ := buildNoBase_spec hkf g Lall hg k0 rest b1 (pre ++ [key]) p3 hai (by rw [hL]; simp)
    refine ⟨bld', by simp only [buildNoBase, p1, Option.bind_some]; exact q1, q2, ?_⟩
    rw [q3, p2]
    simp [denOp, Item.ent]
  | .upd _ _ :: _, _, _, _, hai, _ => hai.elim
  | .keep _ _ _ :: _, _, _, _, hai, _ => hai.elim

theorem allIns_of_wf_none {kf : KF} : ∀ {ops : List Op}, WF kf none ops → AllIns ops
  | [], _ => trivial
  | .ins _ _ :: r, h => allIns_of_wf_none (ops := r) (wf_cons.1 h).2
  | .upd _ _ :: _, h => by obtain ⟨b, e, _⟩ := (wf_cons.1 h).1; cases e
  | .keep _ _ _ :: _, h => by obtain ⟨b, e, _⟩ := (wf_cons.1 h).1; cases e

/-- `build_branch` for a consistent tracker -/
theorem buildBranch_spec {kf : KF} (hkf : KFOK kf) (b? : Option Base) (hbase : BaseOK kf b?) (ops : List Op) (g : Gauge)
    (htr : TrOK kf b? ops g) (hs : Sorted (den b? ops)) (hbl : ∀ e ∈ den b? ops, e.key < 2 ^ 256)
    (hbody : ∃ bd, g.body = some bd ∧ bd ≤ BODY) :
    ∃ node, buildBranch kf b? ops g = some node ∧ node.pl = g.pl ∧ node.pc = g.pcItems ∧
      ents node.items = den b? ops ∧ ∃ k0, GoodFrom kf g.pl g.pcItems k0 0 node.items := by
  have hsL : SortedK (ekeys (den b? ops)) := (sortedK_ekeys _).2 hs
  have hbL : Below (ekeys (den b? ops)) := by
    intro x hx
    obtain ⟨e, he, rfl⟩ := List.mem_map.1 hx
    exact hbl e he
  have hg := htr.gauge
  have hbodyK : bodyOfKeys kf g.pl g.pcItems (ekeys (den b? ops)) ≤ BODY := by
    obtain ⟨bd, h1, h2⟩ := hbody
    have := hg.body hkf hsL hbL
    rw [h1] at this
    have := Option.some.inj this
    omega
  have fin : ∀ (bld' : Bld) (k0 : Nat), BCtx kf g k0 bld' (ekeys (den b? ops)) → ents bld'.items = den b? ops →
      ∃ node, bld'.finish = some node ∧ node.pl = g.pl ∧ node.pc = g.pcItems ∧
        ents node.items = den b? ops ∧ ∃ k0, GoodFrom kf g.pl g.pcItems k0 0 node.items := by
    intro bld' k0 hc he
    have hlen : bld'.items.length = bld'.n := by
      rw [hc.hn, hg.n, ← hc.keys]; simp
    exact ⟨⟨bld'.pl, bld'.pc, bld'.items⟩, by simp [Bld.finish, hlen], hc.hpl, hc.hpc, he, k0, hc.good⟩
  have hc0 : ∀ k0, BCtx kf g k0 { n := g.n, pc := g.pcItems, pl := g.pl } [] :=
    fun k0 => ⟨rfl, rfl, rfl, rfl, trivial⟩
  cases b? with
  | none =>
    obtain ⟨bld', q1, q2, q3⟩ := buildNoBase_spec hkf g _ hg 0 ops _ [] (hc0 0) (allIns_of_wf_none htr.wf) (by simp)
    obtain ⟨node, r1, r2⟩ := fin bld' 0 q2 (by simpa using q3)
    exact ⟨node, by simp only [buildBranch, q1, Option.bind_some]; exact r1, r2⟩
  | some base =>
    obtain ⟨hnode, _⟩ := hbase base rfl
    obtain ⟨h0, _⟩ := hnode.head
    obtain ⟨bld', q1, q2, q3⟩ := buildLoop_spec hkf g _ hg hsL hbodyK base hnode h0 ops _ none [] (hc0 _) htr.wf
      ⟨by simp, by simpa using htr.pc⟩
    obtain ⟨node, r1, r2⟩ := fin bld' _ q2 (by simpa [pendDen] using q3)
    exact ⟨node, by simp only [buildBranch, q1, Option.bind_some]; exact r1, r2⟩

/-- the size of the node `build_branch` writes: at least what the gauge counted, exactly that with `kf.canon` -/
theorem node_body_of_good (kf : KF) (pl pc k0 : Nat) (items : List Item) (L : List Nat) (hk : items.map (·.key) = L)
    (hgood : GoodFrom kf pl pc k0 0 items) :
    bodyOfKeys kf pl pc L ≤ (⟨pl, pc, items⟩ : Node).body ∧
      (kf.canon = true → (⟨pl, pc, items⟩ : Node).body = bodyOfKeys kf pl pc L) := by
  obtain ⟨h1, _, h3⟩ := goodFrom_sum kf pl pc k0 items 0 hgood
  rw [Nat.sub_zero, hk] at h1 h3
  have hlen : items.length = L.length := by rw [← hk]; simp
  unfold Node.body bodyOfKeys Node.n bodySize
  simp only [hlen]
  constructor
  · have : (pl + (lensOf kf pl pc L).sum + 7) / 8 ≤ (pl + slenSum items + 7) / 8 := Nat.div_le_div_right (by omega)
    omega
  · intro hc
    have := h3 hc
    unfold slenSum
    rw [this]

end Nomt.BranchUpd
