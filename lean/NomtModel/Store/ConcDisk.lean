import NomtModel.Store.Disk
/-!
# A concurrent disk machine (Begin / End of every effect and of every fsync)

`Store/Disk.lean` is a SEQUENTIAL model: an `Ev.fsync f` moves every earlier effect of `f` to the durable part.  The
real code issues writes and fsyncs from several threads; the I/O trace of the cfg(nomt_verif) hook has a Begin and an End
line for every mutating file operation.  This file models exactly the rule the order monitor (`Store/TraceOrder.lean`)
uses for durability:

* an effect is volatile from its Begin on (it may reach the disk at any time after its Begin, ended or not);
* an fsync of file `f`, when it BEGINS, fixes the set of effects it will cover: the volatile effects of `f` that have
  ENDED by then;
* when that fsync ENDS, exactly those effects become durable.

State = durable disk + volatile effects (oldest first, with an `ended` flag) + in-flight fsyncs with the ids they cover.
Images of a state = durable ⊕ ANY sub-list of the volatile effects.
-/
namespace NomtDisk

section
variable (Content MetaRec WalRec LogRec : Type)

/-- one line of a concurrent trace; `id` names an effect (the position of its Begin line), `tid` the thread -/
inductive CEv where
  | effBegin (id : Nat) (e : Eff Content MetaRec WalRec LogRec)
  | effEnd (id : Nat)
  | fsyncBegin (tid : String) (f : File)
  | fsyncEnd (tid : String) (f : File)

/-- an issued effect that no completed fsync covers yet -/
structure VEff where
  id : Nat
  eff : Eff Content MetaRec WalRec LogRec
  ended : Bool

/-- an fsync that was issued and has not completed: it will cover exactly the effects named in `covers` -/
structure CSync where
  tid : String
  file : File
  covers : List Nat

structure CState where
  dur : Disk Content MetaRec WalRec LogRec
  vol : List (VEff Content MetaRec WalRec LogRec)
  syncs : List CSync
end

variable {Content MetaRec WalRec LogRec : Type}

/-- mark the effect `id` as completed -/
def markEnded (id : Nat) (vol : List (VEff Content MetaRec WalRec LogRec)) : List (VEff Content MetaRec WalRec LogRec) :=
  vol.map (fun v => if v.id = id then { v with ended := true } else v)

/-- remove the most recently issued in-flight fsync of this file and thread; returns what it covers
(same recursion as `Nomt.Store.takeSync`) -/
def takeCSync (f : File) (tid : String) : List CSync → Option (List Nat × List CSync)
  | [] => none
  | s :: rest =>
    match takeCSync f tid rest with
    | some (c, rest') => some (c, s :: rest')
    | none => if s.file = f ∧ s.tid = tid then some (s.covers, rest) else none

/-- is the volatile effect `v` made durable by a completed fsync of `f` that covers the ids `cov`? -/
def covered (f : File) (cov : List Nat) (v : VEff Content MetaRec WalRec LogRec) : Bool :=
  decide (v.eff.file = f) && cov.contains v.id

/-- what an fsync of `f` covers when it begins: the effects of `f` that have ended -/
def coverable (f : File) (v : VEff Content MetaRec WalRec LogRec) : Bool :=
  decide (v.eff.file = f) && v.ended

/-- completion of an fsync of `f` covering `cov` -/
def flush (s : CState Content MetaRec WalRec LogRec) (f : File) (cov : List Nat) (rest : List CSync) :
    CState Content MetaRec WalRec LogRec :=
  { dur := applyEffs s.dur ((s.vol.filter (covered f cov)).map (·.eff)),
    vol := s.vol.filter (fun v => !covered f cov v),
    syncs := rest }

def cstep (s : CState Content MetaRec WalRec LogRec) : CEv Content MetaRec WalRec LogRec → CState Content MetaRec WalRec LogRec
  | .effBegin id e => { s with vol := s.vol ++ [⟨id, e, false⟩] }
  | .effEnd id => { s with vol := markEnded id s.vol }
  | .fsyncBegin tid f => { s with syncs := s.syncs ++ [⟨tid, f, (s.vol.filter (coverable f)).map (·.id)⟩] }
  | .fsyncEnd tid f =>
    match takeCSync f tid s.syncs with
    | none => s          -- completion of an fsync issued before the trace started
    | some (cov, rest) => flush s f cov rest

def crun (s : CState Content MetaRec WalRec LogRec) (ct : List (CEv Content MetaRec WalRec LogRec)) :
    CState Content MetaRec WalRec LogRec := ct.foldl cstep s

def cinit (d0 : Disk Content MetaRec WalRec LogRec) : CState Content MetaRec WalRec LogRec := ⟨d0, [], []⟩

/-- the volatile effects, oldest first -/
def CState.volEffs (s : CState Content MetaRec WalRec LogRec) : List (Eff Content MetaRec WalRec LogRec) :=
  s.vol.map (·.eff)

/-- the state of the sequential model with the same durable disk and the same volatile effects -/
def CState.toExec (s : CState Content MetaRec WalRec LogRec) : Exec Content MetaRec WalRec LogRec :=
  ⟨s.dur, s.volEffs⟩

/-- the possible on-disk images if the machine stops in the concurrent state `s`: the durable part plus ANY sub-list of
the volatile effects — ended or not, covered by an in-flight fsync or not -/
def IsCImage (s : CState Content MetaRec WalRec LogRec) (img : Disk Content MetaRec WalRec LogRec) : Prop :=
  ∃ sub, List.Sublist sub s.volEffs ∧ img = applyEffs s.dur sub

theorem isCImage_iff (s : CState Content MetaRec WalRec LogRec) (img : Disk Content MetaRec WalRec LogRec) :
    IsCImage s img ↔ IsImage s.toExec img := Iff.rfl

/-- what the process itself sees (page cache): every issued effect applied -/
def CState.view (s : CState Content MetaRec WalRec LogRec) : Disk Content MetaRec WalRec LogRec :=
  applyEffs s.dur s.volEffs

theorem crun_append (s : CState Content MetaRec WalRec LogRec) (a b : List (CEv Content MetaRec WalRec LogRec)) :
    crun s (a ++ b) = crun (crun s a) b := by
  simp [crun, List.foldl_append]

theorem crun_cons (s : CState Content MetaRec WalRec LogRec) (ev : CEv Content MetaRec WalRec LogRec)
    (ct : List (CEv Content MetaRec WalRec LogRec)) : crun s (ev :: ct) = crun (cstep s ev) ct := rfl

theorem markEnded_effs (id : Nat) (vol : List (VEff Content MetaRec WalRec LogRec)) :
    (markEnded id vol).map (·.eff) = vol.map (·.eff) := by
  simp only [markEnded, List.map_map]
  apply List.map_congr_left
  intro v _
  simp only [Function.comp]
  split <;> rfl

theorem markEnded_ids (id : Nat) (vol : List (VEff Content MetaRec WalRec LogRec)) :
    (markEnded id vol).map (·.id) = vol.map (·.id) := by
  simp only [markEnded, List.map_map]
  apply List.map_congr_left
  intro v _
  simp only [Function.comp]
  split <;> rfl

/-! ## Well-formed concurrent traces

ids are unique and an End names an effect that has begun.  (The End of an fsync that matches no in-flight fsync of the
same thread and file is the completion of an fsync issued before the trace started; it is a no-op, as in the monitor.)
The linearisation theorem of `Store/ConcLin.lean` and the crash theorems need NO well-formedness; it says when the
machine above means what the prose says: with unique ids `markEnded` touches one effect, and `covers` names the same
effects at the End of an fsync as at its Begin.  The abstraction of a trace the monitor accepts has ids = positions of
the Begin lines (`Store/TraceOrderSim.lean`, `MInv`). -/

def CWfStep (seen : List Nat) : CEv Content MetaRec WalRec LogRec → Prop
  | .effBegin id _ => id ∉ seen
  | .effEnd id => id ∈ seen
  | .fsyncBegin _ _ => True
  | .fsyncEnd _ _ => True

def seenStep (seen : List Nat) : CEv Content MetaRec WalRec LogRec → List Nat
  | .effBegin id _ => id :: seen
  | _ => seen

def CWf : List Nat → List (CEv Content MetaRec WalRec LogRec) → Prop
  | _, [] => True
  | seen, ev :: rest => CWfStep seen ev ∧ CWf (seenStep seen ev) rest

end NomtDisk
