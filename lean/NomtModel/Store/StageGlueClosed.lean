import NomtModel.Store.StageGlueLedger
/-!
# The tree `ops::update` leaves behind is a well-formed tree again (`update_closed`)
-/
namespace Nomt.StageGlue
open Nomt
open Nomt.LeafUpd (Entry DbLeaf OutLeaf Leaf CellSize Sorted SizeOK KeysBelow write1 applyAll OutUpTo nextSep)
open Nomt.BranchUpd (DbNode OutNode Produced Node KF kfReal chs)

variable {V : Type} [CellSize V]

def toDbLeaf (o : OutLeaf V) : DbLeaf V := ⟨o.sep, o.ents⟩

/-- the first leaf moved under the zero key -/
def relabelFirst : List (DbLeaf V) → List (DbLeaf V)
  | [] => []
  | l :: t => ⟨0, l.ents⟩ :: t

/-- the leaves of the new tree -/
def newLeaves (out : List (OutLeaf V)) : List (DbLeaf V) := relabelFirst (out.map toDbLeaf)

theorem mem_write1_val {l : List (Entry V)} {k : Nat} {ch : Option (V × Bool)} {e : Entry V} (h : e ∈ write1 l k ch) :
    e ∈ l ∨ ∃ v o, ch = some (v, o) ∧ e = ⟨k, v, o⟩ := by
  unfold write1 at h
  rcases List.mem_append.1 h with h | h
  · exact Or.inl (List.mem_filter.1 h).1
  · rcases List.mem_append.1 h with h | h
    · cases ch with
      | none => cases h
      | some vo => obtain ⟨v, o⟩ := vo; simp at h; subst h; exact Or.inr ⟨v, o, rfl, rfl⟩
    · exact Or.inl (List.mem_filter.1 h).1

theorem mem_applyAll_val : ∀ (cs : List (Nat × Option (V × Bool))) (l : List (Entry V)) (e : Entry V),
    e ∈ applyAll l cs → e ∈ l ∨ ∃ c ∈ cs, ∃ v o, c.2 = some (v, o) ∧ e = ⟨c.1, v, o⟩
  | [], _, _, h => Or.inl h
  | c :: cs, l, e, h => by
    rcases mem_applyAll_val cs (write1 l c.1 c.2) e h with h | ⟨c', hc', v, o, h1, h2⟩
    · rcases mem_write1_val h with h | ⟨v, o, h1, h2⟩
      · exact Or.inl h
      · exact Or.inr ⟨c, by simp, v, o, h1, h2⟩
    · exact Or.inr ⟨c', by simp [hc'], v, o, h1, h2⟩

theorem sorted_part : ∀ (out : List (OutLeaf V)), Sorted (LeafUpd.flatOut out) → ∀ o ∈ out, Sorted o.ents
  | [], _, o, ho => by cases ho
  | a :: t, h, o, ho => by
    have e : LeafUpd.flatOut (a :: t) = a.ents ++ LeafUpd.flatOut t := rfl
    rw [e] at h
    rcases List.mem_cons.1 ho with rfl | ho
    · exact LeafUpd.Sorted.append_left h
    · exact sorted_part t (LeafUpd.Sorted.append_right h) o ho

/-- what every leaf of the new level satisfies on its own -/
def LeafBasics (o : OutLeaf V) : Prop := Sorted o.ents ∧ SizeOK o.ents ∧ KeysBelow (2 ^ 256) o.ents

theorem dbOK_of_out : ∀ (out : List (OutLeaf V)) (s : Nat), OutUpTo out s → OutAsc out → (∀ o ∈ out, LeafBasics o) →
    LeafUpd.DbOK (2 ^ 256) (out.map toDbLeaf)
  | [], _, _, _, _ => trivial
  | [a], s, h, _, hb => by
    obtain ⟨b1, b2, b3⟩ := hb a (by simp)
    exact ⟨b1, b2, b3, h.1, by intro c hc; cases hc⟩
  | a :: b :: t, s, h, ha, hb => by
    obtain ⟨b1, b2, b3⟩ := hb a (by simp)
    have ha' := List.pairwise_cons.1 ha
    refine ⟨⟨b1, b2, b3, h.1, ?_⟩, dbOK_of_out (b :: t) s h.2.2 ha'.2 (fun o ho => hb o (by simp [ho]))⟩
    intro c hc
    simp only [toDbLeaf, Option.some.injEq] at hc
    subst hc
    exact ⟨ha'.1 b (by simp), h.2.1⟩

theorem dbOK_relabelFirst : ∀ (l : List (DbLeaf V)), LeafUpd.DbOK (2 ^ 256) l → LeafUpd.DbOK (2 ^ 256) (relabelFirst l)
  | [], _ => trivial
  | [a], h => by
    obtain ⟨h1, h2, h3, _, _⟩ := h
    exact ⟨h1, h2, h3, fun e _ => Nat.zero_le _, by intro c hc; cases hc⟩
  | a :: b :: t, h => by
    obtain ⟨⟨h1, h2, h3, h4, h5⟩, hr⟩ := h
    refine ⟨⟨h1, h2, h3, fun e _ => Nat.zero_le _, ?_⟩, hr⟩
    intro c hc
    obtain ⟨g1, g2⟩ := h5 c hc
    exact ⟨by show 0 < c; omega, g2⟩

/-- **the new leaf level is well formed**: non-empty leaves, ascending, each leaf sorted / within the size limits / bounded
by its separator and the next one, the first under the zero key -/
theorem newLeaves_ok (db : List (DbLeaf V)) (cs : List (Nat × Option (V × Bool))) (lo : Nat) (out : List (OutLeaf V))
    (ht : LeafTreeOK db) (hcs : LeafUpd.ChOK (2 ^ 256) lo cs)
    (hcontent : LeafUpd.flatOut out = applyAll (LeafUpd.flat db) cs) (hasc : OutAsc out)
    (hnews : ∀ l, OutLeaf.new l ∈ out → LeafUpd.NewGood l) (holds : ∀ l, OutLeaf.old l ∈ out → l ∈ db)
    (hchain : ∃ s, OutUpTo out s) : LeafTreeOK (newLeaves out) := by
  obtain ⟨s, hs⟩ := hchain
  have hsorted : Sorted (LeafUpd.flatOut out) := by rw [hcontent]; exact LeafUpd.applyAll_sorted ht.ok.sorted cs
  have hsz := (LeafUpd.DbOK.sizeOK ht.ok)
  have hbasics : ∀ o ∈ out, LeafBasics o := by
    intro o ho
    refine ⟨sorted_part out hsorted o ho, ?_, ?_⟩
    · intro e he
      have hmem : e ∈ LeafUpd.flatOut out := List.mem_flatMap.2 ⟨o, ho, he⟩
      rw [hcontent] at hmem
      rcases mem_applyAll_val cs _ e hmem with h | ⟨c, hc, v, ov, h1, h2⟩
      · exact hsz.1 e h
      · subst h2
        -- the size bound of the batch
        have key : ∀ (cs : List (Nat × Option (V × Bool))) (lo : Nat), LeafUpd.ChOK (2 ^ 256) lo cs → ∀ c ∈ cs, ∀ v o,
            c.2 = some (v, o) → CellSize.size v ≤ LeafUpd.MAXV := by
          intro cs
          induction cs with
          | nil => intro _ _ c hc; cases hc
          | cons x r ih =>
            intro lo h c hc v o hv
            obtain ⟨k, ch⟩ := x
            rcases List.mem_cons.1 hc with rfl | hc
            · exact h.2.2.1 v o hv
            · exact ih (k + 1) h.2.2.2 c hc v o hv
        exact key cs lo hcs c hc v ov h1
    · intro e he
      have hmem : e ∈ LeafUpd.flatOut out := List.mem_flatMap.2 ⟨o, ho, he⟩
      rw [hcontent] at hmem
      rcases mem_applyAll_key cs _ e hmem with h | ⟨c, hc, hk⟩
      · exact hsz.2 e h
      · rw [← hk]; exact LeafUpd.ChOK.keys_lt hcs c hc
  have hdb := dbOK_relabelFirst _ (dbOK_of_out out s hs hasc hbasics)
  refine ⟨hdb, ?_, ?_⟩
  · intro l hl
    unfold newLeaves relabelFirst at hl
    cases hout : out with
    | nil => rw [hout] at hl; cases hl
    | cons a t =>
      rw [hout] at hl
      simp only [List.map_cons] at hl
      have hne : ∀ o ∈ out, o.ents ≠ [] := by
        intro o ho
        cases o with
        | old l' => exact ht.nonempty l' (holds l' ho)
        | new l' => exact (hnews l' ho).1
      rcases List.mem_cons.1 hl with rfl | hl
      · exact hne a (by rw [hout]; simp)
      · obtain ⟨o, ho, rfl⟩ := List.mem_map.1 hl
        exact hne o (by rw [hout]; simp [ho])
  · intro l hl
    unfold newLeaves relabelFirst at hl
    cases hout : out with
    | nil => rw [hout] at hl; cases hl
    | cons a t =>
      rw [hout] at hl
      simp only [List.map_cons, List.head?_cons, Option.some.injEq] at hl
      rw [← hl]

/-! ## the page numbers of the new tree -/

/-- the page number of the leaf under separator `s` in the new tree -/
def newLpn (lpn fresh : Nat → Nat) (a0 : Nat) (out : List (OutLeaf V)) (s : Nat) : Nat :=
  match getE (relabel0 (lvlEnts (lvlOf lpn fresh a0 out))) s with
  | some (pn, _) => pn
  | none => 0

/-- the tree after the update -/
def newTree (t : Tree V) (lnFresh : Nat → Nat) (a0 : Nat) (o : UpdateOut V) : Tree V where
  index := o.index
  leaves := newLeaves o.leafLevel
  lpn := newLpn t.lpn lnFresh a0 o.leafLevel

theorem lvlEnts_inj : ∀ {a b : Level}, lvlEnts a = lvlEnts b → a = b
  | [], [], _ => rfl
  | [], _ :: _, h => by simp [lvlEnts] at h
  | _ :: _, [], h => by simp [lvlEnts] at h
  | x :: a, y :: b, h => by
    simp only [lvlEnts_cons, List.cons.injEq, Entry.mk.injEq, and_true] at h
    obtain ⟨⟨h1, h2⟩, h3⟩ := h
    rw [Prod.ext h1 h2, lvlEnts_inj h3]

theorem getE_of_mem_sorted : ∀ {l : List (Entry Nat)} {e : Entry Nat}, Sorted l → e ∈ l → getE l e.key = some (e.val, e.ovf)
  | [], _, _, h => by cases h
  | x :: t, e, hs, h => by
    have hs' := List.pairwise_cons.1 hs
    rw [getE_cons]
    rcases List.mem_cons.1 h with rfl | h
    · simp
    · have : x.key ≠ e.key := by have := hs'.1 e h; omega
      rw [if_neg this]
      exact getE_of_mem_sorted hs'.2 h

/-- an ascending list of plain entries is determined by its keys and its lookup -/
theorem map_lookup_self (M : List (Entry Nat)) (hs : Sorted M) (hovf : ∀ e ∈ M, e.ovf = false) :
    M.map (fun e => (⟨e.key, (match getE M e.key with | some (pn, _) => pn | none => 0), false⟩ : Entry Nat)) = M := by
  have : ∀ e ∈ M, (⟨e.key, (match getE M e.key with | some (pn, _) => pn | none => 0), false⟩ : Entry Nat) = e := by
    intro e he
    rw [getE_of_mem_sorted hs he]
    have h0 := hovf _ he
    cases e
    simp only at h0
    subst h0
    rfl
  rw [List.map_congr_left this, List.map_id']

theorem relabel0_sorted {l : List (Entry Nat)} (h : Sorted l) : Sorted (relabel0 l) := by
  cases l with
  | nil => exact h
  | cons x t =>
    have h' := List.pairwise_cons.1 h
    exact List.pairwise_cons.2 ⟨fun e he => by have := h'.1 e he; show 0 < e.key; omega, h'.2⟩

theorem relabel0_keys (out : List (OutLeaf V)) (lpn fresh : Nat → Nat) (a0 : Nat) :
    (relabel0 (lvlEnts (lvlOf lpn fresh a0 out))).map (·.key) = (newLeaves out).map (·.sep) := by
  have h := lvlOf_keys lpn fresh out a0
  cases out with
  | nil => rfl
  | cons a t =>
    cases hl : lvlOf lpn fresh a0 (a :: t) with
    | nil => rw [hl] at h; simp at h
    | cons y r =>
      rw [hl] at h
      simp only [List.map_cons, List.cons.injEq] at h
      simp only [lvlEnts_cons, relabel0, newLeaves, relabelFirst, List.map_cons, toDbLeaf]
      congr 1
      have e1 : (lvlEnts r).map (·.key) = r.map (·.1) := by simp [lvlEnts]
      have e2 : (t.map toDbLeaf).map (·.sep) = t.map (·.sep) := by simp [toDbLeaf]
      rw [e1, e2, h.2]

/-- **`update` maps well-formed trees to well-formed trees** (the empty tree included, on both sides): the tree made of
the new index, the new leaves (the first under the zero key) and the page numbers the update wrote them to is `TreeOK`
again. -/
theorem update_closed (pagesOf : V → List Nat) (lnFresh bbnFresh : Nat → Nat) (a0 : Nat) (t : Tree V)
    (cs : List (Nat × Option (V × Bool))) (lo : Nat) (ht : TreeOK t) (hcs : LeafUpd.ChOK (2 ^ 256) lo cs)
    (o : UpdateOut V) (h : UpdateOK t cs pagesOf lnFresh bbnFresh a0 o) :
    TreeOK (newTree t lnFresh a0 o) := by
  have hleaves := newLeaves_ok t.leaves cs lo o.leafLevel ht.leaves hcs h.content h.asc h.news h.olds h.chain
  refine ⟨hleaves, h.index, ?_⟩
  · apply lvlEnts_inj
    rw [lvlEnts_level]
    show BranchUpd.flat o.index = lvlEnts ((newLeaves o.leafLevel).map fun l => (l.sep, newLpn t.lpn lnFresh a0 o.leafLevel l.sep))
    rw [h.level]
    have hM : Sorted (relabel0 (lvlEnts (lvlOf t.lpn lnFresh a0 o.leafLevel))) :=
      relabel0_sorted (lvlEnts_sorted (lvlOf_asc t.lpn lnFresh _ a0 h.asc))
    have hovf : ∀ e ∈ relabel0 (lvlEnts (lvlOf t.lpn lnFresh a0 o.leafLevel)), e.ovf = false := by
      intro e he
      cases hl : lvlEnts (lvlOf t.lpn lnFresh a0 o.leafLevel) with
      | nil => rw [hl] at he; cases he
      | cons y r =>
        have hall : ∀ z ∈ lvlEnts (lvlOf t.lpn lnFresh a0 o.leafLevel), z.ovf = false := by
          intro z hz
          obtain ⟨w, _, rfl⟩ := List.mem_map.1 hz
          rfl
        rw [hl] at he hall
        rcases List.mem_cons.1 he with rfl | he
        · exact hall y (by simp)
        · exact hall e (by simp [he])
    have e1 := map_lookup_self _ hM hovf
    rw [← e1]
    have e2 := relabel0_keys o.leafLevel t.lpn lnFresh a0
    -- both sides are the key list mapped through the same function
    have l1 : (relabel0 (lvlEnts (lvlOf t.lpn lnFresh a0 o.leafLevel))).map (fun e => (⟨e.key,
        (match getE (relabel0 (lvlEnts (lvlOf t.lpn lnFresh a0 o.leafLevel))) e.key with | some (pn, _) => pn | none => 0),
        false⟩ : Entry Nat)) =
        ((relabel0 (lvlEnts (lvlOf t.lpn lnFresh a0 o.leafLevel))).map (·.key)).map (fun k => (⟨k,
          newLpn t.lpn lnFresh a0 o.leafLevel k, false⟩ : Entry Nat)) := by
      rw [List.map_map]
      rfl
    rw [l1, e2]
    simp [lvlEnts, List.map_map]

theorem flat_newLeaves (out : List (OutLeaf V)) : LeafUpd.flat (newLeaves out) = LeafUpd.flatOut out := by
  cases out with
  | nil => rfl
  | cons a t =>
    simp only [newLeaves, relabelFirst, List.map_cons, LeafUpd.flat_cons, toDbLeaf]
    show a.ents ++ LeafUpd.flat (t.map toDbLeaf) = a.ents ++ LeafUpd.flatOut t
    congr 1
    induction t with
    | nil => rfl
    | cons b r ih => simp only [List.map_cons, LeafUpd.flat_cons, toDbLeaf]; rw [ih]; rfl

/-- a history of updates, each on the tree the previous one left: any batches, any allocators -/
inductive Rounds (pagesOf : V → List Nat) : Tree V → List (List (Nat × Option (V × Bool))) → Tree V → Prop
  | nil (t : Tree V) : Rounds pagesOf t [] t
  | cons (t : Tree V) (cs : List (Nat × Option (V × Bool))) (css : List (List (Nat × Option (V × Bool))))
      (lnFresh bbnFresh : Nat → Nat) (a0 lo : Nat) (o : UpdateOut V) (t' : Tree V) :
      LeafUpd.ChOK (2 ^ 256) lo cs → (cs = [] → a0 = 0) →
      update LeafUpd.sepReal kfReal pagesOf lnFresh bbnFresh false t cs a0 = some o →
      Rounds pagesOf (newTree t lnFresh a0 o) css t' → Rounds pagesOf t (cs :: css) t'

theorem rounds_invariant (pagesOf : V → List Nat) (t t' : Tree V) (css : List (List (Nat × Option (V × Bool))))
    (ht : TreeOK t) (h : Rounds pagesOf t css t') :
    TreeOK t' ∧ LeafUpd.flat t'.leaves = css.foldl (fun l cs => applyAll l cs) (LeafUpd.flat t.leaves) := by
  induction h with
  | nil t => exact ⟨ht, rfl⟩
  | cons t cs css lnFresh bbnFresh a0 lo o t' h1 h2 h3 _ ih =>
    obtain ⟨o', e', hu⟩ := update_spec pagesOf lnFresh bbnFresh a0 t cs lo ht h1 h2
    rw [h3] at e'
    cases e'
    obtain ⟨i1, i2⟩ := ih (update_closed pagesOf lnFresh bbnFresh a0 t cs lo ht h1 o hu)
    refine ⟨i1, ?_⟩
    rw [i2]
    show css.foldl _ (LeafUpd.flat (newLeaves o.leafLevel)) = _
    rw [flat_newLeaves, hu.content]
    rfl

end Nomt.StageGlue
