import NomtModel.Store.WalkerBuildLemmas
import NomtModel.Core.TriePosSpec
/-!
# The page walker without pages ("tree walker")

A proof device: the algorithm of `PageWalker` on ONE flat store `path ↦ node` (the root lives at the empty path).  It has the
same control structure as the mirror `Store/WalkerModel.lean` (same loops, same case analysis) but no stack of pages, no
diffs and no elision; leaving a page only *logs* `(page id, store at that moment)` and entering a fresh page overwrites the
slots of that page by the values `fresh` hands out.  `Store/WalkerSim*.lean` shows that the mirror simulates it; the
algorithmic content (build_trie visitor + compaction = `nodeAt`) is proved on this walker.
-/
namespace Nomt.Walker
open Nomt Nomt.TriePos

abbrev Path := List Bool
abbrev Store (Node : Type) := Path → Node

variable {Node VH : Type}

/-- write one slot -/
def upd (s : Store Node) (q : Path) (n : Node) : Store Node := fun r => if r = q then n else s r

/-- the sibling path (last bit flipped) -/
def sibPath (q : Path) : Path :=
  match q.getLast? with
  | some b => q.dropLast ++ [!b]
  | none => []

/-- depth inside the page (`depth_in_page`): `0` for the root, else `1 … 6` -/
def dip (q : Path) : Nat := if q = [] then 0 else specR q.length

/-- entering a fresh page at `q0` (the first position inside it): every slot of that page takes the value `fresh` hands out -/
def havoc (s : Store Node) (fresh : Path → Node) (q0 : Path) : Store Node :=
  fun r => if r ≠ [] ∧ specPage r = specPage q0 then fresh r else s r

structure TW (Node : Type) where
  pos : Path
  store : Store Node
  /-- pages left so far (`handle_elision_threshold` was called for them), with the store at that moment -/
  log : List (PageId × Store Node)
  /-- `child_page_roots` -/
  cpr : List (Path × Node)
  /-- ghost: the slots written so far (`set_node` / `set_sibling`), in order — what the page diffs must name -/
  wl : List Path := []

/-- the fixed parameters of a walk -/
structure TWCfg (Node : Type) where
  /-- what `PageSet::fresh` hands out, by path -/
  fresh : Path → Node
  /-- the depth at which the page stack is empty: `0` without parent page, `6·(depth of the parent page + 1)` with one -/
  top : Nat
  hasParent : Bool

section
variable (H : Hasher Node VH) [DecidableEq Node] (cfg : TWCfg Node)

def TW.cur (a : TW Node) : Node := a.store a.pos
def TW.sib (a : TW Node) : Node := a.store (sibPath a.pos)
def TW.setNode (a : TW Node) (n : Node) : TW Node := { a with store := upd a.store a.pos n, wl := a.wl ++ [a.pos] }
def TW.setSibling (a : TW Node) (n : Node) : TW Node :=
  { a with store := upd a.store (sibPath a.pos) n, wl := a.wl ++ [sibPath a.pos] }
def TW.stackEmpty (a : TW Node) : Bool := decide (a.pos.length ≤ cfg.top)

/-- `up` -/
def TW.up (a : TW Node) : TW Node :=
  let a1 : TW Node := if dip a.pos = 1 then { a with log := a.log ++ [(specPage a.pos, a.store)] } else a
  { a1 with pos := a.pos.dropLast }

/-- one bit of `down` -/
def TW.downBit (fresh : Bool) (a : TW Node) (b : Bool) : TW Node :=
  let a1 : TW Node :=
    if a.pos.length % 6 = 0 ∧ fresh = true then { a with store := havoc a.store cfg.fresh (a.pos ++ [b]) } else a
  { a1 with pos := a.pos ++ [b] }

def TW.down (a : TW Node) : List Bool → Bool → TW Node
  | [], _ => a
  | b :: bs, fresh => TW.down (a.downBit cfg fresh b) bs fresh

/-- `compact_step` -/
def TW.compactStep (a : TW Node) : Node × TW Node :=
  let node := a.cur
  let sibling := a.sib
  let bit := a.pos.getLast?.getD false
  match H.kind node, H.kind sibling with
  | .terminator, .terminator => (H.term, a)
  | .leaf, .terminator => (node, a.setNode H.term)
  | .terminator, .leaf => (sibling, ({ a with pos := sibPath a.pos } : TW Node).setNode H.term)
  | _, _ => (if bit then H.internal sibling node else H.internal node sibling, a)

/-- the loop of `compact_up` -/
def TW.compactLoop : Nat → TW Node → TW Node
  | 0, a => a
  | n + 1, a =>
    let r := a.compactStep H
    let a := r.2.up
    if a.stackEmpty cfg then
      if cfg.hasParent then { a with cpr := a.cpr ++ [(a.pos, r.1)] } else a.setNode r.1
    else TW.compactLoop n (a.setNode r.1)

/-- `compact_up` -/
def TW.compactUp (a : TW Node) (target : Option Path) : TW Node :=
  if a.stackEmpty cfg then a else
  match target with
  | some t => TW.compactLoop H cfg (a.pos.length - (sharedBits a.pos t + 1)) a
  | none => TW.compactLoop H cfg a.pos.length a

/-- the descent of the visitor: the first bit carries the freshness hint when the walker still is at the start depth -/
def TW.descend (startDepth : Nat) (a : TW Node) (down : List Bool) : TW Node :=
  match decide (a.pos.length > startDepth), down with
  | false, d0 :: drest => (a.down cfg [d0] (decide (dip a.pos = DEPTH) || decide (a.pos = []))).down cfg drest true
  | _, d => a.down cfg d true

/-- the visitor of `replace_terminal` -/
def TW.visit (startDepth : Nat) (a : TW Node) (c : WriteNode Node VH) : TW Node :=
  let a1 : TW Node :=
    match c with
    | .internal l r _ =>
      let bit := a.pos.getLast?.getD false
      let zero := if bit then decide (H.kind l = .terminator) else decide (H.kind r = .terminator)
      if zero then a.setSibling H.term else a
    | _ => a
  let a2 : TW Node × List Bool :=
    match c.up, c.down with
    | true, d0 :: drest =>
      if d0 = !(a1.pos.getLast?.getD false) then ({ a1 with pos := sibPath a1.pos }, drest) else (a1.up, d0 :: drest)
    | true, [] => (a1.up, [])
    | false, d => (a1, d)
  (a2.1.descend cfg startDepth a2.2).setNode (c.node H)

def TW.visitAll (startDepth : Nat) (a : TW Node) : List (WriteNode Node VH) → TW Node
  | [] => a
  | c :: cs => TW.visitAll startDepth (a.visit H cfg startDepth c) cs

/-- `replace_terminal` (the visitor calls of `build_trie`; a panic of `build_trie` leaves the walker alone) -/
def TW.replaceTerminal (a : TW Node) (ops : List (Key × VH)) : TW Node :=
  match buildEvents H a.pos.length ops with
  | some evs => TW.visitAll H cfg a.pos.length a evs
  | none => a

/-- `advance_and_replace`: compact towards the new position, jump there (`build_stack`), replace -/
def TW.advanceAndReplace (a : TW Node) (t : Path) (ops : List (Key × VH)) : TW Node :=
  ({ a.compactUp H cfg (some t) with pos := t } : TW Node).replaceTerminal H cfg ops

/-- `advance` -/
def TW.advance (a : TW Node) (t : Path) : TW Node := a.compactUp H cfg (some t)

/-- `conclude` -/
def TW.conclude (a : TW Node) : TW Node := a.compactUp H cfg none

/-- one step of a script: a terminal position with the new content of its sub-trie (`none`: `advance` only) -/
def TW.step (a : TW Node) (s : Path × Option (List (Key × VH))) : TW Node :=
  match s.2 with
  | some ops => a.advanceAndReplace H cfg s.1 ops
  | none => a.advance H cfg s.1

def TW.run (a : TW Node) : List (Path × Option (List (Key × VH))) → TW Node
  | [] => a
  | s :: ss => TW.run (a.step H cfg s) ss

end

/-! ## paths -/

/-- `q` lies strictly to the left of `c` (they diverge, `q` taking the `0` branch) -/
def LeftOf (q c : Path) : Prop := ∃ p r s, q = p ++ false :: r ∧ c = p ++ true :: s

theorem sibPath_snoc (q : Path) (b : Bool) : sibPath (q ++ [b]) = q ++ [!b] := by
  simp [sibPath]

theorem sibPath_nil : sibPath [] = [] := rfl

theorem sibPath_length (q : Path) : (sibPath q).length = q.length := by
  rcases List.eq_nil_or_concat q with h | ⟨l, b, h⟩
  · subst h; rfl
  · subst h; simp [sibPath]

theorem sibPath_ne (q : Path) (h : q ≠ []) : sibPath q ≠ q := by
  rcases List.eq_nil_or_concat q with h' | ⟨l, b, h'⟩
  · exact absurd h' h
  · subst h'
    rw [List.concat_eq_append, sibPath_snoc]
    intro e
    have := List.append_cancel_left e
    cases b <;> simp at this

theorem sibPath_dropLast (q : Path) : (sibPath q).dropLast = q.dropLast := by
  rcases List.eq_nil_or_concat q with h | ⟨l, b, h⟩
  · subst h; rfl
  · subst h; simp [sibPath]

theorem upd_same (s : Store Node) (q : Path) (n : Node) : upd s q n q = n := by simp [upd]
theorem upd_other (s : Store Node) (q r : Path) (n : Node) (h : r ≠ q) : upd s q n r = s r := by simp [upd, h]

end Nomt.Walker
