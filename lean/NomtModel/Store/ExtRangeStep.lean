import NomtModel.Store.ExtRangeSim
/-!
`step_ok`: under the protocol invariant a step of ANY worker is a move of the skeleton, or the worker is blocked in one of
its two blocking `recv`s (or has returned), or the panic site reached is one of the updater / tracker sites — never a
protocol site (for the code as it is: `cfg.staleHigh = false`).
-/
namespace Nomt.ExtRange

variable {σ N C : Type}

/-- worker `i` cannot move -/
def BlockedP (a : AG) (i : Nat) : Prop :=
  ((a.pv i).kind = .wait ∧ (a.pv i).resp = none) ∨
  ((a.pv i).kind = .frecv ∧ (a.pv i).left = true ∧ a.chans i = [] ∧ AHolder a i) ∨
  (a.pv i).kind = .done

def StepOK (g : G σ N C) (i : Nat) : Res (G σ N C) → Prop
  | .ok g' => ATrans (absG g) (absG g')
  | .blocked => BlockedP (absG g) i
  | .panic s => s ∈ updSites

/-- the protocol fields of `w'` are those of `w` (the program counter aside) -/
def SameQ (w w' : W σ N C) : Prop :=
  w'.left = w.left ∧ w'.right = w.right ∧ w'.pending = w.pending ∧ w'.resp = w.resp ∧ w'.high = w.high

theorem SameP.q {w w' : W σ N C} (h : SameP w w') : SameQ w w' := ⟨h.1, h.2.1, h.2.2.1, h.2.2.2.1, h.2.2.2.2.1⟩

theorem SameQ.trans {a b c : W σ N C} (h1 : SameQ a b) (h2 : SameQ b c) : SameQ a c := by
  obtain ⟨a1, a2, a3, a4, a5⟩ := h1
  obtain ⟨b1, b2, b3, b4, b5⟩ := h2
  exact ⟨b1.trans a1, b2.trans a2, b3.trans a3, b4.trans a4, b5.trans a5⟩

/-- a step that touches no protocol field -/
theorem loc_ok' (g : G σ N C) (i : Nat) (hi : i < g.n) (w' : W σ N C) (hs : SameQ (g.ws i) w')
    (hk : kindOf (g.ws i).pc = .run) (hk' : kindOf w'.pc = .run) (hf : finOf (g.ws i).pc = true → finOf w'.pc = true) :
    ATrans (absG g) (absG (setW g i w')) := by
  obtain ⟨h1, h2, h3, h4, h5⟩ := hs
  have e : view w' = { (absG g).pv i with kind := .run, fin := finOf w'.pc } := by
    simp [view, absG, h1, h2, h3, h4, h5, hk']
  rw [absG_setW, e]
  exact ATrans.loc i (finOf w'.pc) hi (Or.inl hk) hf

theorem handleNew_q (i : Nat) (outs : List (Nat × N × Option Nat)) (w0 w : W σ N C) (h : SameQ w w0) :
    SameQ w (handleNew i w0 outs) := h.trans (handleNew_same i outs w0).q

theorem handleNew_pc (i : Nat) (outs : List (Nat × N × Option Nat)) (w0 : W σ N C) : (handleNew i w0 outs).pc = w0.pc :=
  (handleNew_same i outs w0).2.2.2.2.2

theorem takeResp_frame (w : W σ N C) (r : Resp N) :
    (takeResp w r).left = w.left ∧ (takeResp w r).right = w.right ∧ (takeResp w r).pending = w.pending ∧
      (takeResp w r).resp = none ∧ (takeResp w r).high = r.newHigh ∧ (takeResp w r).pc = w.pc := by
  unfold takeResp
  split
  simp

theorem takeRespC_asis (cfg : Cfg) (hm : cfg.highMax = false) (w : W σ N C) (r : Resp N) :
    takeRespC cfg w r = takeResp w r := by simp [takeRespC, hm]

theorem sendRequest_ok (g : G σ N C) (i : Nat) (w : W σ N C) (k : Nat) (fin : Bool) (j : Nat) (hr : w.right = some j)
    (hl : (g.ws j).left = true) (hd : (g.ws j).pc ≠ .done) (hij : j ≠ i) :
    sendRequest g i w k fin =
      .ok { setW g i { w with pc := .wait k fin } with chans := upd g.chans j (g.chans j ++ [i]) } := by
  unfold sendRequest
  simp [hr, hl, hd, hij]

theorem step_done (U : Upd σ N C) (cfg : Cfg) (db : List (DbN N)) (g : G σ N C) (i : Nat)
    (hpc : (g.ws i).pc = .done) : StepOK g i (step U cfg db g i) := by
  unfold step; simp only [hpc]
  exact Or.inr (Or.inr (by simp [absG, view, hpc, kindOf]))

theorem step_start (U : Upd σ N C) (cfg : Cfg) (db : List (DbN N)) (g : G σ N C) (i : Nat) (hi : i < g.n)
    (hpc : (g.ws i).pc = .start) : StepOK g i (step U cfg db g i) := by
  have hk : kindOf (g.ws i).pc = .run := by simp [hpc, kindOf]
  have hf : finOf (g.ws i).pc = true → False := by simp [hpc, finOf]
  unfold step; simp only [hpc]
  split
  · simp [StepOK, updSites]
  · rename_i k _ _ _
    rcases resetBaseW_cases U cfg db (g.ws i) false k with ⟨w', hw, hs⟩ | ⟨s, hw, hs⟩
    · rw [hw]; exact loc_ok' g i hi _ hs.q hk rfl (fun h => (hf h).elim)
    · rw [hw]; exact hs

theorem step_loop (U : Upd σ N C) (cfg : Cfg) (db : List (DbN N)) (g : G σ N C) (i : Nat) (hi : i < g.n)
    (hpc : (g.ws i).pc = .loop) : StepOK g i (step U cfg db g i) := by
  have hk : kindOf (g.ws i).pc = .run := by simp [hpc, kindOf]
  have hf : finOf (g.ws i).pc = true → False := by simp [hpc, finOf]
  have q0 : SameQ (g.ws i) (g.ws i) := (SameP.refl _).q
  unfold step; simp only [hpc]
  split
  · exact loc_ok' g i hi _ ⟨rfl, rfl, rfl, rfl, rfl⟩ hk rfl (fun h => (hf h).elim)
  · split
    · split
      · simp [StepOK, updSites]
      · exact loc_ok' g i hi _ ⟨rfl, rfl, rfl, rfl, rfl⟩ hk rfl (fun h => (hf h).elim)
    · split
      · simp [StepOK, updSites]
      · split
        · exact loc_ok' g i hi _ (handleNew_q i _ _ _ ⟨rfl, rfl, rfl, rfl, rfl⟩) hk rfl (fun h => (hf h).elim)
        · exact loc_ok' g i hi _ (handleNew_q i _ _ _ ⟨rfl, rfl, rfl, rfl, rfl⟩) hk rfl (fun h => (hf h).elim)

theorem step_poll (U : Upd σ N C) (cfg : Cfg) (db : List (DbN N)) (g : G σ N C) (i : Nat) (hi : i < g.n)
    (hinv : AInv (absG g)) (key : Nat) (hpc : (g.ws i).pc = .poll key) : StepOK g i (step U cfg db g i) := by
  unfold step; simp only [hpc]
  obtain ⟨g', h1, h2, _⟩ := tryAnswer_sim g i false (.ext key false) hi hinv (by simp [hpc, kindOf]) (Or.inl rfl)
    (by simp [hpc, finOf]) (fun e => by cases e)
  rw [h1]; exact h2

theorem step_fin (U : Upd σ N C) (cfg : Cfg) (db : List (DbN N)) (g : G σ N C) (i : Nat) (hi : i < g.n)
    (hpc : (g.ws i).pc = .fin) : StepOK g i (step U cfg db g i) := by
  have hk : kindOf (g.ws i).pc = .run := by simp [hpc, kindOf]
  unfold step; simp only [hpc]
  split
  · simp [StepOK, updSites]
  · split
    · exact loc_ok' g i hi _ (handleNew_q i _ _ _ ⟨rfl, rfl, rfl, rfl, rfl⟩) hk rfl (fun h => by simp [hpc, finOf] at h)
    · exact loc_ok' g i hi _ (handleNew_q i _ _ _ ⟨rfl, rfl, rfl, rfl, rfl⟩) hk rfl (fun _ => rfl)

theorem step_finOnce (U : Upd σ N C) (cfg : Cfg) (db : List (DbN N)) (g : G σ N C) (i : Nat) (hi : i < g.n)
    (hpc : (g.ws i).pc = .finOnce) : StepOK g i (step U cfg db g i) := by
  have hk : kindOf (g.ws i).pc = .run := by simp [hpc, kindOf]
  unfold step; simp only [hpc]
  split
  · simp [StepOK, updSites]
  · exact loc_ok' g i hi _ (handleNew_q i _ _ _ ⟨rfl, rfl, rfl, rfl, rfl⟩) hk rfl (fun _ => rfl)

theorem kindOf_afterReset (cfg : Cfg) (fin : Bool) : kindOf (afterReset cfg fin) = .run := by
  unfold afterReset; cases fin <;> cases cfg.singleMerge <;> rfl

theorem finOf_afterReset (cfg : Cfg) (fin : Bool) : finOf (afterReset cfg fin) = false := by
  unfold afterReset; cases fin <;> cases cfg.singleMerge <;> rfl

theorem finOf_wait (k : Nat) (f : Bool) : finOf (.wait k f) = false := rfl
theorem kindOf_wait' (k : Nat) (f : Bool) : kindOf (.wait k f) = .wait := rfl

/-- the move of a successful `sendRequest` from a running worker -/
theorem send_move (g : G σ N C) (i : Nat) (hi : i < g.n) (hinv : AInv (absG g)) (k : Nat) (fin : Bool)
    (hk : kindOf (g.ws i).pc = .run) (hf : finOf (g.ws i).pc = false) (hh : (g.ws i).high.isSome) :
    ∃ g', sendRequest g i (g.ws i) k fin = .ok g' ∧ ATrans (absG g) (absG g') := by
  have hresp := resp_none_of_run hinv hi (by rw [hk]; decide)
  have hv : ((absG g).pv i).resp = none := by simp [absG, view, hresp]
  have hr := hinv.highRight i hi (by show kindOf _ ≠ _; rw [hk]; decide) (Or.inl hf)
    (by rw [effHigh_of_resp_none hv]; exact hh)
  rw [effRight_of_resp_none hv] at hr
  cases hrr : (g.ws i).right with
  | none => simp [absG, view, hrr] at hr
  | some j =>
    obtain ⟨hij, hjn, hjl, hjd⟩ := hinv.topo i j hi (by rw [effRight_of_resp_none hv]; exact hrr)
    have hjd' : (g.ws j).pc ≠ .done := fun e => hjd ((kindOf_done _).2 e)
    refine ⟨_, sendRequest_ok g i (g.ws i) k fin j hrr hjl hjd' (by omega), ?_⟩
    have e : absG { setW g i { g.ws i with pc := .wait k fin } with chans := upd g.chans j (g.chans j ++ [i]) } =
        { absG g with pv := upd (absG g).pv i { (absG g).pv i with kind := .wait },
                      chans := upd (absG g).chans j ((absG g).chans j ++ [i]) } := by
      apply AG_eq
      · rfl
      · intro x; by_cases hx : x = i
        · subst hx; simp [absG, setW, view, kindOf_wait', finOf_wait, hf]
        · simp [absG, setW, hx]
      · intro x; rfl
    rw [e]
    exact ATrans.send i j hi hk hrr

theorem step_ext (U : Upd σ N C) (cfg : Cfg) (db : List (DbN N)) (g : G σ N C) (i : Nat) (hi : i < g.n)
    (hinv : AInv (absG g)) (hs : cfg.staleHigh = false) (k : Nat) (fin : Bool) (hpc : (g.ws i).pc = .ext k fin) :
    StepOK g i (step U cfg db g i) := by
  have hk : kindOf (g.ws i).pc = .run := by simp [hpc, kindOf]
  have hf : finOf (g.ws i).pc = false := by simp [hpc, finOf]
  have hreset : StepOK g i (match resetBaseW U cfg db (g.ws i) false k with
      | .ok w' => .ok (setW g i { w' with pc := afterReset cfg fin })
      | .panic s => .panic s
      | .blocked => .blocked) := by
    rcases resetBaseW_cases U cfg db (g.ws i) false k with ⟨w', hw, hs'⟩ | ⟨s, hw, hs'⟩
    · rw [hw]
      exact loc_ok' g i hi _ hs'.q hk (kindOf_afterReset cfg fin) (fun h => by rw [hf] at h; cases h)
    · rw [hw]; exact hs'
  unfold step; simp only [hpc, hs, Bool.false_and, Bool.false_eq_true, if_false]
  cases hhi : (g.ws i).high with
  | none => simp only [if_false, Bool.false_eq_true]; exact hreset
  | some h =>
    simp only []
    by_cases hc : k ≥ h
    · rw [if_pos (by simpa using hc)]
      obtain ⟨g', h1, h2⟩ := send_move g i hi hinv k fin hk hf (by rw [hhi]; rfl)
      rw [h1]; exact h2
    · rw [if_neg (by simpa using hc)]; exact hreset

/-- the move of a worker that takes its response and resets its base -/
theorem recv_move (U : Upd σ N C) (cfg : Cfg) (db : List (DbN N)) (g : G σ N C) (i : Nat) (hi : i < g.n) (k : Nat)
    (fin : Bool) (hpc : (g.ws i).pc = .wait k fin) (r : Resp N) (hr : (g.ws i).resp = some r)
    (w'' : W σ N C) (hgo : ∀ x, r.newRight ≠ some (some x))
    (hw : w''.left = (g.ws i).left ∧ w''.pending = (g.ws i).pending ∧ w''.resp = none ∧ w''.high = r.newHigh ∧
      w''.right = rightAfter r.newRight (g.ws i).right) :
    StepOK g i (match resetBaseW U cfg db w'' true k with
      | .ok w3 => .ok (setW g i { w3 with pc := afterReset cfg fin })
      | .panic s => .panic s
      | .blocked => .blocked) := by
  rcases resetBaseW_cases U cfg db w'' true k with ⟨w3, hw3, hs'⟩ | ⟨s, hw3, hs'⟩
  · rw [hw3]
    obtain ⟨a1, a2, a3, a4, a5, _⟩ := hs'
    obtain ⟨b1, b2, b3, b4, b5⟩ := hw
    have e : absG (setW g i { w3 with pc := afterReset cfg fin }) =
        { absG g with
          pv := upd (absG g).pv i
            { (absG g).pv i with resp := none, highSome := r.newHigh.isSome, kind := .run, right := rightAfter r.newRight ((absG g).pv i).right } } := by
      rw [absG_setW]; congr 2
      simp [view, absG, a1, a2, a3, a4, a5, b1, b2, b3, b4, b5, kindOf_afterReset, finOf_afterReset, hpc, finOf_wait]
    show ATrans _ _
    rw [e]
    exact ATrans.recv i r.newHigh.isSome r.newRight hi (by simp [absG, view, hr, respView]) hgo
  · rw [hw3]; exact hs'

theorem step_wait (U : Upd σ N C) (cfg : Cfg) (db : List (DbN N)) (g : G σ N C) (i : Nat) (hi : i < g.n)
    (hinv : AInv (absG g)) (hm : cfg.highMax = false) (k : Nat) (fin : Bool) (hpc : (g.ws i).pc = .wait k fin) :
    StepOK g i (step U cfg db g i) := by
  unfold step; simp only [hpc, takeRespC_asis cfg hm]
  cases hr : (g.ws i).resp with
  | none =>
    simp only []
    exact Or.inl ⟨by simp [absG, view, hpc, kindOf], by simp [absG, view, hr]⟩
  | some r =>
    simp only []
    obtain ⟨t1, t2, t3, t4, t5, t6⟩ := takeResp_frame (g.ws i) r
    cases hnr : r.newRight with
    | none =>
      simp only []
      exact recv_move U cfg db g i hi k fin hpc r hr _ (by simp [hnr]) ⟨t1, t3, t4, t5, by simp [hnr, t2, rightAfter]⟩
    | some nr =>
      cases nr with
      | none =>
        simp only []
        exact recv_move U cfg db g i hi k fin hpc r hr _ (by simp [hnr]) ⟨t1, t3, t4, t5, by simp [hnr, rightAfter]⟩
      | some j =>
        simp only []
        have hv : ((absG g).pv i).resp = some (r.newHigh.isSome, some (some j)) := by simp [absG, view, hr, respView, hnr]
        obtain ⟨hij, hjn, hjl, hjd⟩ := hinv.topo i j hi (by simp [effRight, hv])
        have hjd' : (g.ws j).pc ≠ .done := fun e => hjd ((kindOf_done _).2 e)
        rw [sendRequest_ok g i _ k fin j rfl hjl hjd' (by omega)]
        show ATrans _ _
        have key : ∀ G' : G σ N C, absG G' =
            { absG g with pv := upd (absG g).pv i { (absG g).pv i with resp := none, highSome := r.newHigh.isSome, right := some j },
                          chans := upd (absG g).chans j ((absG g).chans j ++ [i]) } → ATrans (absG g) (absG G') := by
          intro G' e; rw [e]; exact ATrans.resend i j r.newHigh.isSome hi hv
        apply key
        apply AG_eq
        · rfl
        · intro x; by_cases hx : x = i
          · subst hx; simp [absG, setW, view, t1, t3, t4, t5, hpc, kindOf_wait', finOf_wait]
          · simp [absG, setW, hx]
        · intro x; rfl

theorem step_final (U : Upd σ N C) (cfg : Cfg) (db : List (DbN N)) (g : G σ N C) (i : Nat) (hi : i < g.n)
    (hinv : AInv (absG g)) (hpc : (g.ws i).pc = .final) : StepOK g i (step U cfg db g i) := by
  have hk : kindOf (g.ws i).pc = .run := by simp [hpc, kindOf]
  unfold step; simp only [hpc]
  by_cases hl : (g.ws i).left = true
  · rw [if_neg (by simp [hl])]
    obtain ⟨g', h1, h2, h3⟩ := tryAnswer_sim g i true .finalRecv hi hinv hk (Or.inr ⟨rfl, rfl⟩)
      (by simp [hpc, finOf]) (fun _ => by simp [hpc, finOf])
    rw [h1]
    simp only [h3 rfl, Option.isSome_none, Bool.false_eq_true, if_false]
    exact h2
  · have hl' : (g.ws i).left = false := by simpa using hl
    rw [if_pos (by simp [hl'])]
    show ATrans _ _
    have e : absG (setW g i { g.ws i with pc := .done, right := none }) =
        { absG g with pv := upd (absG g).pv i { (absG g).pv i with kind := .done, right := none } } := by
      rw [absG_setW]; congr 2
      simp [view, absG, kindOf, finOf, hpc]
    rw [e]
    exact ATrans.fin i hi hk hl'

theorem step_finalRecv (U : Upd σ N C) (cfg : Cfg) (db : List (DbN N)) (g : G σ N C) (i : Nat) (hi : i < g.n)
    (hinv : AInv (absG g)) (hpc : (g.ws i).pc = .finalRecv) : StepOK g i (step U cfg db g i) := by
  have hk : ((absG g).pv i).kind = .frecv := by simp [absG, view, hpc, kindOf]
  have hp : (g.ws i).pending = none := hinv.frecvPend i hi hk
  unfold step; simp only [hpc]
  by_cases hl : (g.ws i).left = true
  · rw [if_neg (by simp [hl])]
    cases hc : g.chans i with
    | cons r rest =>
      simp only []
      show ATrans _ _
      have key : ∀ G' : G σ N C, absG G' =
          { absG g with pv := upd (absG g).pv i { (absG g).pv i with pending := some r, kind := .run },
                        chans := upd (absG g).chans i rest } → ATrans (absG g) (absG G') := by
        intro G' e; rw [e]
        exact ATrans.pend i r rest hi (Or.inr hk) hl (Or.inr ⟨hp, hc⟩)
      apply key
      apply AG_eq
      · rfl
      · intro x; by_cases hx : x = i
        · subst hx; simp [absG, setW, view, kindOf, finOf, hpc]
        · simp [absG, setW, hx]
      · intro x; rfl
    | nil =>
      simp only []
      by_cases hd : disconnected g i = true
      · rw [if_pos hd]
        show ATrans _ _
        have e : absG (setW g i { g.ws i with left := false, pc := .final }) =
            { absG g with pv := upd (absG g).pv i { (absG g).pv i with left := false, kind := .run } } := by
          rw [absG_setW]; congr 2
          simp [view, absG, kindOf, finOf, hpc]
        rw [e]
        exact ATrans.disc i .run hi (Or.inr hk) (Or.inl rfl) hp hc ((disconnected_iff g i).1 hd)
      · rw [if_neg hd]
        refine Or.inr (Or.inl ⟨hk, hl, hc, ?_⟩)
        exact Classical.byContradiction fun hn => hd ((disconnected_iff g i).2 hn)
  · have hl' : (g.ws i).left = false := by simpa using hl
    rw [if_pos (by simp [hl'])]
    show ATrans _ _
    have e : absG (setW g i { g.ws i with pc := .final }) =
        { absG g with pv := upd (absG g).pv i { (absG g).pv i with kind := .run, fin := true } } := by
      rw [absG_setW]; congr 2
    rw [e]
    exact ATrans.loc i true hi (Or.inr ⟨hk, hl'⟩) (fun _ => rfl)

/-- under the protocol invariant, a step of any worker is a move of the skeleton, or the worker is blocked, or the panic
site is an updater / tracker site (for the code as it is: none of the seeded flags `staleHigh`, `highMax`) -/
theorem step_ok (U : Upd σ N C) (cfg : Cfg) (db : List (DbN N)) (g : G σ N C) (i : Nat) (hi : i < g.n)
    (hinv : AInv (absG g)) (hs : cfg.staleHigh = false) (hm : cfg.highMax = false) :
    StepOK g i (step U cfg db g i) := by
  cases hpc : (g.ws i).pc with
  | start => exact step_start U cfg db g i hi hpc
  | loop => exact step_loop U cfg db g i hi hpc
  | poll key => exact step_poll U cfg db g i hi hinv key hpc
  | ext k fin => exact step_ext U cfg db g i hi hinv hs k fin hpc
  | wait k fin => exact step_wait U cfg db g i hi hinv hm k fin hpc
  | fin => exact step_fin U cfg db g i hi hpc
  | finOnce => exact step_finOnce U cfg db g i hi hpc
  | final => exact step_final U cfg db g i hi hinv hpc
  | finalRecv => exact step_finalRecv U cfg db g i hi hinv hpc
  | done => exact step_done U cfg db g i hpc

end Nomt.ExtRange
