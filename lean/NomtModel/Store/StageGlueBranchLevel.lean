import NomtModel.Store.StageGlueBranchErase
import NomtModel.Store.StageGlueLeafStage
/-!
# From the branch tracker to the new index (the branch twin of `leaf_level_change`)

`apply_changes_to_index` with the (filtered) branch changeset turns the old index into `idxOf`: the untouched nodes, and
the produced nodes under the page numbers `handle_new_branch` allocated, in order.
-/
namespace Nomt.StageGlue
open Nomt
open Nomt.LeafUpd (Entry Sorted write1 applyAll CellSize)
open Nomt.ExtRange (Tracker TE Inner Pn upsert lookupE)
open Nomt.BranchUpd (DbNode OutNode Produced Node KF)

/-- the values of the index read as cells (only to reuse the list vocabulary; the size is never looked at) -/
instance : CellSize (Node × Nat) := ⟨fun _ => 0⟩

/-- the index as an ascending entry list: separator ↦ (node, page number) -/
def idxEnts (idx : BIndex) : List (Entry (Node × Nat)) := idx.map fun n => ⟨n.sep, (n.node, n.bbn), false⟩

def IdxAsc (idx : BIndex) : Prop := idx.Pairwise fun a b => a.sep < b.sep

theorem idxEnts_sorted {idx : BIndex} (h : IdxAsc idx) : Sorted (idxEnts idx) := by
  unfold Sorted idxEnts; rw [List.pairwise_map]; exact h

theorem idxEnts_inj : ∀ {a b : BIndex}, idxEnts a = idxEnts b → a = b
  | [], [], _ => rfl
  | [], _ :: _, h => by simp [idxEnts] at h
  | _ :: _, [], h => by simp [idxEnts] at h
  | x :: a, y :: b, h => by
    simp only [idxEnts, List.map_cons, List.cons.injEq, Entry.mk.injEq, Prod.mk.injEq, and_true] at h
    obtain ⟨⟨h1, h2, h3⟩, h4⟩ := h
    have : x = y := by cases x; cases y; simp_all
    rw [this, idxEnts_inj (a := a) (b := b) h4]

theorem idxEnts_insert (n : DbNode) : ∀ (l : BIndex), IdxAsc l →
    idxEnts (idxInsert n l) = write1 (idxEnts l) n.sep (some ((n.node, n.bbn), false))
  | [], _ => by simp [idxInsert, idxEnts, write1]
  | a :: t, h => by
    have h' := List.pairwise_cons.1 h
    unfold idxInsert
    by_cases h1 : n.sep < a.sep
    · simp only [h1, if_true]
      rw [LeafUpd.write1_some_all_above]
      · rfl
      · intro e he
        obtain ⟨y, hy, rfl⟩ := List.mem_map.1 he
        rcases List.mem_cons.1 hy with rfl | hy
        · exact h1
        · have := h'.1 y hy; show n.sep < y.sep; omega
    · simp only [h1, if_false]
      by_cases h2 : n.sep = a.sep
      · simp only [h2, if_true]
        have : idxEnts (a :: t) = ⟨a.sep, (a.node, a.bbn), false⟩ :: idxEnts t := rfl
        rw [this, LeafUpd.write1_some_head_eq rfl]
        · simp [idxEnts, h2]
        · intro e he
          obtain ⟨y, hy, rfl⟩ := List.mem_map.1 he
          exact h'.1 y hy
      · simp only [h2, if_false]
        have : idxEnts (a :: t) = ⟨a.sep, (a.node, a.bbn), false⟩ :: idxEnts t := rfl
        rw [this, LeafUpd.write1_cons_below (by show a.sep < n.sep; omega), ← idxEnts_insert n t h'.2]
        rfl

theorem idxRemove_of_notin (key : Nat) : ∀ (l : BIndex), (∀ y ∈ l, y.sep ≠ key) → idxRemove key l = l
  | [], _ => rfl
  | a :: t, h => by
    simp [idxRemove, h a (by simp), idxRemove_of_notin key t (fun y hy => h y (by simp [hy]))]

theorem idxEnts_remove (key : Nat) : ∀ (l : BIndex), IdxAsc l →
    idxEnts (idxRemove key l) = write1 (idxEnts l) key none
  | [], _ => by simp [idxRemove, idxEnts, write1]
  | a :: t, h => by
    have h' := List.pairwise_cons.1 h
    have e0 : idxEnts (a :: t) = ⟨a.sep, (a.node, a.bbn), false⟩ :: idxEnts t := rfl
    by_cases h1 : a.sep = key
    · simp only [idxRemove, h1, if_true]
      rw [e0, LeafUpd.write1_none_head_eq h1]
      intro e he
      obtain ⟨y, hy, rfl⟩ := List.mem_map.1 he
      have := h'.1 y hy
      show key < y.sep
      omega
    · by_cases h2 : a.sep < key
      · simp only [idxRemove, h1, if_false]
        rw [e0, LeafUpd.write1_cons_below h2, ← idxEnts_remove key t h'.2]
        rfl
      · rw [idxRemove_of_notin key (a :: t) (by
          intro y hy
          rcases List.mem_cons.1 hy with rfl | hy
          · exact h1
          · have := h'.1 y hy; omega)]
        rw [LeafUpd.write1_none_all_above]
        intro e he
        obtain ⟨y, hy, rfl⟩ := List.mem_map.1 he
        rcases List.mem_cons.1 hy with rfl | hy
        · show key < y.sep; omega
        · have := h'.1 y hy; show key < y.sep; omega

theorem idxAsc_of_ents {idx : BIndex} (h : Sorted (idxEnts idx)) : IdxAsc idx := by
  unfold Sorted idxEnts at h; rw [List.pairwise_map] at h; exact h

/-- the branch changeset in the list vocabulary -/
def chsN (cs : List (Nat × Option (Node × Nat))) : List (Nat × Option ((Node × Nat) × Bool)) :=
  cs.map fun c => (c.1, c.2.map fun w => (w, false))

/-- **`apply_changes_to_index` is the list update** -/
theorem applyToIndex_ents : ∀ (cs : List (Nat × Option (Node × Nat))) (idx : BIndex), IdxAsc idx →
    idxEnts (applyToIndex idx cs) = applyAll (idxEnts idx) (chsN cs)
  | [], _, _ => rfl
  | (k, some (node, pn)) :: cs, idx, h => by
    have e := idxEnts_insert ⟨k, pn, node⟩ idx h
    have h2 : IdxAsc (idxInsert ⟨k, pn, node⟩ idx) :=
      idxAsc_of_ents (by rw [e]; exact LeafUpd.write1_sorted (idxEnts_sorted h) _ _)
    show idxEnts (applyToIndex (idxInsert ⟨k, pn, node⟩ idx) cs) = applyAll (write1 (idxEnts idx) k (some ((node, pn), false))) (chsN cs)
    rw [applyToIndex_ents cs _ h2, e]
  | (k, none) :: cs, idx, h => by
    have e := idxEnts_remove k idx h
    have h2 : IdxAsc (idxRemove k idx) :=
      idxAsc_of_ents (by rw [e]; exact LeafUpd.write1_sorted (idxEnts_sorted h) _ _)
    show idxEnts (applyToIndex (idxRemove k idx) cs) = applyAll (write1 (idxEnts idx) k none) (chsN cs)
    rw [applyToIndex_ents cs _ h2, e]

/-! ## the new index -/

/-- untouched nodes stay, the `i`-th produced node gets the `i`-th page allocated in the bbn store -/
def idxOf (fresh : Nat → Nat) : Nat → List OutNode → BIndex
  | _, [] => []
  | a, .old l :: t => l :: idxOf fresh a t
  | a, .new p :: t => ⟨p.sep, fresh a, p.node⟩ :: idxOf fresh (a + 1) t

def OutAscB (out : List OutNode) : Prop := out.Pairwise fun a b => a.sep < b.sep

theorem idxOf_seps (fresh : Nat → Nat) : ∀ (out : List OutNode) (a : Nat), (idxOf fresh a out).map (·.sep) = out.map (·.sep)
  | [], _ => rfl
  | .old l :: t, a => by simp [idxOf, idxOf_seps fresh t a, OutNode.sep]
  | .new p :: t, a => by simp [idxOf, idxOf_seps fresh t (a + 1), OutNode.sep]

theorem idxOf_asc (fresh : Nat → Nat) (out : List OutNode) (a : Nat) (h : OutAscB out) : IdxAsc (idxOf fresh a out) := by
  have : ((idxOf fresh a out).map (·.sep)).Pairwise (· < ·) := by
    rw [idxOf_seps]; exact (List.pairwise_map).2 h
  exact (List.pairwise_map).1 this

def newAtB (fresh : Nat → Nat) : Nat → List Produced → Nat → Option (Node × Nat)
  | _, [], _ => none
  | a, p :: t, k => if p.sep = k then some (p.node, fresh a) else newAtB fresh (a + 1) t k

theorem newAtB_none {fresh : Nat → Nat} {k : Nat} : ∀ {news : List Produced} {a : Nat}, (∀ l ∈ news, l.sep ≠ k) →
    newAtB fresh a news k = none
  | [], _, _ => rfl
  | l :: t, a, h => by
    simp [newAtB, h l (by simp), newAtB_none (news := t) (a := a + 1) (fun x hx => h x (by simp [hx]))]

theorem expInsL_newsB (fresh : Nat → Nat) (k : Nat) : ∀ (news : List Produced) (a : Nat),
    news.Pairwise (fun x y => x.sep < y.sep) →
    (expInsL a (news.map fun p => (p.sep, p.node)) k).map (fun x => (x.1, resolve fresh x.2)) = newAtB fresh a news k
  | [], _, _ => rfl
  | l :: t, a, h => by
    have h' := List.pairwise_cons.1 h
    simp only [List.map_cons, expInsL, newAtB]
    by_cases hk : l.sep = k
    · subst hk
      rw [expInsL_none (by
        intro x hx e
        obtain ⟨y, hy, rfl⟩ := List.mem_map.1 hx
        have := h'.1 y hy
        simp only at e
        omega)]
      simp [resolve]
    · rw [if_neg hk, ← expInsL_newsB fresh k t (a + 1) h'.2]
      cases expInsL (a + 1) (t.map fun p => (p.sep, p.node)) k <;> simp [hk]

theorem mem_newsOfB {l : Produced} : ∀ {out : List OutNode}, l ∈ newsOfB out → OutNode.new l ∈ out
  | .old _ :: t, h => List.mem_cons_of_mem _ (mem_newsOfB (out := t) h)
  | .new l' :: t, h => by
    rcases List.mem_cons.1 h with rfl | h
    · simp
    · exact List.mem_cons_of_mem _ (mem_newsOfB (out := t) h)

theorem mem_oldsOfB {l : DbNode} : ∀ {out : List OutNode}, l ∈ oldsOfB out → OutNode.old l ∈ out
  | .new _ :: t, h => List.mem_cons_of_mem _ (mem_oldsOfB (out := t) h)
  | .old l' :: t, h => by
    rcases List.mem_cons.1 h with rfl | h
    · simp
    · exact List.mem_cons_of_mem _ (mem_oldsOfB (out := t) h)

theorem newsOfB_asc : ∀ {out : List OutNode}, OutAscB out → (newsOfB out).Pairwise (fun x y => x.sep < y.sep)
  | [], _ => List.Pairwise.nil
  | .old l :: t, h => newsOfB_asc (out := t) (List.pairwise_cons.1 h).2
  | .new l :: t, h => by
    have h' := List.pairwise_cons.1 h
    refine List.pairwise_cons.2 ⟨?_, newsOfB_asc (out := t) h'.2⟩
    intro y hy
    exact h'.1 _ (mem_newsOfB hy)

/-- the old node stored under `k` -/
def oldAt (l : List DbNode) (k : Nat) : Option ((Node × Nat) × Bool) :=
  (l.find? fun n => n.sep == k).map fun n => ((n.node, n.bbn), false)

theorem oldAt_cons (n : DbNode) (l : List DbNode) (k : Nat) :
    oldAt (n :: l) k = if n.sep = k then some ((n.node, n.bbn), false) else oldAt l k := by
  unfold oldAt
  by_cases h : n.sep = k
  · simp [List.find?_cons, h]
  · have : (n.sep == k) = false := by simp [h]
    simp [List.find?_cons, this, h]

theorem oldAt_none {l : List DbNode} {k : Nat} (h : ∀ n ∈ l, n.sep ≠ k) : oldAt l k = none := by
  induction l with
  | nil => rfl
  | cons x t ih => rw [oldAt_cons, if_neg (h x (by simp))]; exact ih (fun n hn => h n (by simp [hn]))

theorem getE_idxEnts (k : Nat) : ∀ (l : BIndex), getE (idxEnts l) k = oldAt l k
  | [] => rfl
  | n :: l => by
    have : idxEnts (n :: l) = ⟨n.sep, (n.node, n.bbn), false⟩ :: idxEnts l := rfl
    rw [this, getE_cons, oldAt_cons, getE_idxEnts k l]

theorem getE_idxOf (fresh : Nat → Nat) (k : Nat) : ∀ (out : List OutNode) (a : Nat), OutAscB out →
    getE (idxEnts (idxOf fresh a out)) k =
      match newAtB fresh a (newsOfB out) k with
      | some w => some (w, false)
      | none => oldAt (oldsOfB out) k
  | [], _, _ => rfl
  | .old l :: t, a, h => by
    have h' := List.pairwise_cons.1 h
    have e0 : idxEnts (idxOf fresh a (.old l :: t)) = ⟨l.sep, (l.node, l.bbn), false⟩ :: idxEnts (idxOf fresh a t) := rfl
    rw [e0, getE_cons]
    simp only [newsOfB, oldsOfB, oldAt_cons]
    by_cases hk : l.sep = k
    · subst hk
      rw [newAtB_none (by
        intro n hn e
        have := h'.1 _ (mem_newsOfB hn)
        simp only [OutNode.sep] at this
        omega)]
      simp
    · simp only [hk, if_false]
      exact getE_idxOf fresh k t a h'.2
  | .new p :: t, a, h => by
    have h' := List.pairwise_cons.1 h
    have e0 : idxEnts (idxOf fresh a (.new p :: t)) = ⟨p.sep, (p.node, fresh a), false⟩ :: idxEnts (idxOf fresh (a + 1) t) := rfl
    rw [e0, getE_cons]
    simp only [newsOfB, oldsOfB, newAtB]
    by_cases hk : p.sep = k
    · simp [hk]
    · simp only [hk, if_false]
      exact getE_idxOf fresh k t (a + 1) h'.2

/-! ## the changeset of the branch tracker -/

theorem trackerNodes_asc (fresh : Nat → Nat) (inner : Inner Node) (h : InnerAsc inner) :
    (trackerNodes fresh inner).Pairwise (fun a b => a.1 < b.1) := by
  unfold trackerNodes
  rw [List.pairwise_map]
  exact List.Pairwise.filter _ h

theorem chsN_cons (c : Nat × Option (Node × Nat)) (cs : List (Nat × Option (Node × Nat))) :
    chsN (c :: cs) = (c.1, c.2.map fun w => (w, false)) :: chsN cs := rfl

theorem getC_trackerNodes (fresh : Nat → Nat) (k : Nat) : ∀ (inner : Inner Node), InnerAsc inner →
    getC (chsN (trackerNodes fresh inner)) k =
      if (insV inner k).isSome || (delV inner k).isSome then
        some ((insV inner k).map fun x => ((x.1, resolve fresh x.2), false))
      else none
  | [], _ => rfl
  | (k0, e) :: t, h => by
    have h' := List.pairwise_cons.1 h
    have ih := getC_trackerNodes fresh k t h'.2
    by_cases hk : k0 = k
    · subst hk
      have hn : lookupE k0 t = none := lookupE_none_of_lt (fun y hy => h'.1 y hy)
      have i0 : insV t k0 = none := by simp [insV, hn]
      have d0 : delV t k0 = none := by simp [delV, hn]
      rw [i0, d0] at ih
      simp only [Option.isSome_none, Bool.or_self, Bool.false_eq_true, if_false] at ih
      have iv : insV ((k0, e) :: t) k0 = e.inserted := by simp [insV, lookupE]
      have dv : delV ((k0, e) :: t) k0 = e.deleted := by simp [delV, lookupE]
      rw [iv, dv]
      unfold trackerNodes at ih ⊢
      by_cases hp : (e.inserted.isSome || e.deleted.isSome) = true
      · simp only [List.filter_cons, hp, if_true, List.map_cons, chsN_cons, getC_cons]
        cases hi : e.inserted with
        | none => simp
        | some x => obtain ⟨n, p⟩ := x; simp
      · simp only [List.filter_cons, hp, Bool.false_eq_true, if_false]
        exact ih
    · have iv : insV ((k0, e) :: t) k = insV t k := by
        have : ¬ k = k0 := fun e' => hk e'.symm
        simp [insV, lookupE, this]
      have dv : delV ((k0, e) :: t) k = delV t k := by
        have : ¬ k = k0 := fun e' => hk e'.symm
        simp [delV, lookupE, this]
      rw [iv, dv, ← ih]
      unfold trackerNodes
      by_cases hp : (e.inserted.isSome || e.deleted.isSome) = true
      · simp only [List.filter_cons, hp, if_true, List.map_cons, chsN_cons, getC_cons, hk, if_false]
      · simp only [List.filter_cons, hp, Bool.false_eq_true, if_false]

/-- with pairwise different separators a permutation holds the same node under every separator -/
theorem oldAt_perm {a b : List DbNode} (hp : a.Perm b) (hnd : (a.map (·.sep)).Nodup) (k : Nat) : oldAt a k = oldAt b k := by
  have hndb : (b.map (·.sep)).Nodup := (hp.map _).nodup_iff.1 hnd
  have key : ∀ (l : List DbNode), (l.map (·.sep)).Nodup → ∀ n ∈ l, n.sep = k → oldAt l k = some ((n.node, n.bbn), false) := by
    intro l
    induction l with
    | nil => intro _ n hn; cases hn
    | cons x t ih =>
      intro hnd n hn hk
      simp only [List.map_cons, List.nodup_cons] at hnd
      rw [oldAt_cons]
      rcases List.mem_cons.1 hn with rfl | hn
      · simp [hk]
      · have : x.sep ≠ k := by
          intro e
          exact hnd.1 (List.mem_map.2 ⟨n, hn, by rw [hk, e]⟩)
        rw [if_neg this]
        exact ih hnd.2 n hn hk
  by_cases h : ∃ n ∈ a, n.sep = k
  · obtain ⟨n, hn, hk⟩ := h
    rw [key a hnd n hn hk, key b hndb n (hp.mem_iff.1 hn) hk]
  · have h1 : ∀ n ∈ a, n.sep ≠ k := fun n hn e => h ⟨n, hn, e⟩
    have h2 : ∀ n ∈ b, n.sep ≠ k := fun n hn e => h ⟨n, hp.mem_iff.2 hn, e⟩
    rw [oldAt_none h1, oldAt_none h2]

theorem oldAt_append (a b : List DbNode) (k : Nat) :
    oldAt (a ++ b) k = match oldAt a k with | some w => some w | none => oldAt b k := by
  induction a with
  | nil => rfl
  | cons x t ih =>
    simp only [List.cons_append, oldAt_cons]
    by_cases h : x.sep = k
    · simp [h]
    · simp [h, ih]

end Nomt.StageGlue
