import NomtModel.Store.OvfChain
/-!
# `read_blocking` and `delete` on a well-formed chain

* `readLoop_chain` / `readBlocking_chain`: on a chain the blocking reader indexes only page numbers it already knows,
  passes both final assertions and returns the bytes of the chain;
* `deleteLoop_chain` / `delete_chain`: `delete` appends exactly the page numbers of the chain, in chain order, and its
  early `break` loses nothing.
-/
namespace Nomt.Ovf
open Nomt.Wal (Bytes)

theorem Chain.getElem_known {σ : Store} {cell : List Nat} {pre post : List Part} {p : Part}
    (h : Chain σ cell (pre ++ p :: post)) : (cell ++ flatP pre)[pre.length]? = some p.pn := by
  have hk := h.known pre.length (by simp)
  rw [List.take_left' rfl] at hk
  have hl := h.links
  have h1 : (cell ++ flatP (pre ++ p :: post))[pre.length]? = some p.pn := by
    rw [hl]; simp
  rw [flatP_append, ← List.append_assoc] at h1
  rwa [List.getElem?_append_left (by simp; omega)] at h1

theorem readLoop_chain {σ : Store} {cell : List Nat} : ∀ (post pre : List Part), Chain σ cell (pre ++ post) →
    readLoop σ post.length pre.length (cell ++ flatP pre) (flatB pre) =
      some (cell ++ flatP (pre ++ post), flatB (pre ++ post))
  | [], pre, _ => by simp [readLoop]
  | p :: post, pre, h => by
    obtain ⟨pg, hpg, hparse⟩ := h.pages p (by simp)
    have ih := readLoop_chain post (pre ++ [p]) (by simpa using h)
    simp only [List.length_cons, readLoop, h.getElem_known, hpg, hparse]
    simp only [List.length_append, List.length_cons, List.length_nil, flatP_append, flatP_cons, flatP_nil,
      flatB_append, flatB_cons, flatB_nil, List.append_nil, List.append_assoc] at ih
    simp only [flatP_append, flatP_cons, flatB_append, flatB_cons, List.append_assoc]
    exact ih

/-- **`read_blocking` on a chain**: no panic, the value of the chain -/
theorem readBlocking_chain {σ : Store} {cellPages : List Nat} {parts : List Part} (h : Chain σ cellPages parts)
    (cell hash : Bytes) (vs : Nat) (hd : decodeCell cell = some (vs, hash, cellPages))
    (ht : parts.length = totalNeededPages vs) (hv : (flatB parts).length = vs) :
    readBlocking cell σ = some (flatB parts) := by
  have := readLoop_chain (σ := σ) (cell := cellPages) parts [] (by simpa using h)
  simp only [List.length_nil, flatP_nil, flatB_nil, List.append_nil, List.nil_append] at this
  unfold readBlocking
  simp only [hd, ← ht, this, h.links, List.length_map, hv]
  simp

theorem deleteLoop_chain {σ : Store} {cell : List Nat} : ∀ (post pre : List Part), Chain σ cell (pre ++ post) →
    deleteLoop σ post.length pre.length (cell ++ flatP pre) = some (cell ++ flatP (pre ++ post))
  | [], pre, _ => by simp [deleteLoop]
  | p :: post, pre, h => by
    obtain ⟨pg, hpg, hparse⟩ := h.pages p (by simp)
    have ih := deleteLoop_chain post (pre ++ [p]) (by simpa using h)
    simp only [List.length_cons, deleteLoop, h.getElem_known, hpg, hparse]
    by_cases hb : p.bytes.length > 0
    · have htail := h.tail pre p post rfl (List.length_pos_iff.1 hb)
      simp only [hb, if_true, flatP_append, flatP_cons, htail, List.append_nil, List.append_assoc]
    · simp only [hb, if_false]
      simp only [List.length_append, List.length_cons, List.length_nil, flatP_append, flatP_cons, flatP_nil,
        List.append_nil, List.append_assoc] at ih
      simp only [flatP_append, flatP_cons, List.append_assoc]
      exact ih

/-- **`delete` on a chain**: no panic, exactly the pages of the chain are appended to `freed`, in chain order -/
theorem delete_chain {σ : Store} {cellPages : List Nat} {parts : List Part} (h : Chain σ cellPages parts)
    (cell hash : Bytes) (vs : Nat) (hd : decodeCell cell = some (vs, hash, cellPages))
    (ht : parts.length = totalNeededPages vs) (freed : List Nat) :
    delete cell σ freed = some (freed ++ parts.map (·.pn)) := by
  have := deleteLoop_chain (σ := σ) (cell := cellPages) parts [] (by simpa using h)
  simp only [List.length_nil, flatP_nil, List.append_nil, List.nil_append] at this
  unfold delete
  simp only [hd, ← ht, this, h.links, List.length_map]
  simp

end Nomt.Ovf
