import NomtModel.Store.OvfModel
/-!
# Byte-level lemmas for the overflow model: `chunks4`, slices of concatenations, `parsePage (mkPage …)`,
`decodeCell (encodeCell …)` and the totality of the two decoders.
-/
namespace Nomt.Ovf
open Nomt.Wal (Bytes leBytes leNat slice leNat_leBytes_of_lt leBytes_length)

theorem leBytes4 (x : Nat) : leBytes 4 x =
    [UInt8.ofNat (x % 256), UInt8.ofNat (x / 256 % 256), UInt8.ofNat (x / 256 / 256 % 256),
     UInt8.ofNat (x / 256 / 256 / 256 % 256)] := rfl

theorem chunks4_append4 (a b c d : UInt8) (rest : Bytes) :
    chunks4 (a :: b :: c :: d :: rest) = (chunks4 rest).map (fun l => leNat [a, b, c, d] :: l) := by
  rw [chunks4]
  cases chunks4 rest <;> rfl

/-- reading back page numbers written with `to_le_bytes` -/
theorem chunks4_flatMap : ∀ (pns : List Nat), (∀ x ∈ pns, x < 2 ^ 32) →
    chunks4 (pns.flatMap (leBytes 4)) = some pns
  | [], _ => rfl
  | x :: xs, h => by
    have ih := chunks4_flatMap xs (fun y hy => h y (List.mem_cons_of_mem _ hy))
    have hx : leNat (leBytes 4 x) = x :=
      leNat_leBytes_of_lt (by have := h x List.mem_cons_self; omega)
    rw [List.flatMap_cons, leBytes4] at *
    simp only [List.cons_append, List.nil_append]
    rw [chunks4_append4, ih, hx]
    rfl

/-- `chunks(4)` + `try_into().unwrap()` cannot panic on a slice whose length is a multiple of 4 -/
theorem chunks4_total : ∀ (n : Nat) (l : Bytes), l.length = 4 * n → ∃ r, chunks4 l = some r ∧ r.length = n
  | 0, l, h => by
    have : l = [] := List.eq_nil_of_length_eq_zero (by omega)
    subst this; exact ⟨[], rfl, rfl⟩
  | n + 1, l, h => by
    match l, h with
    | a :: b :: c :: d :: rest, h =>
      obtain ⟨r, hr, hl⟩ := chunks4_total n rest (by simp at h; omega)
      refine ⟨leNat [a, b, c, d] :: r, ?_, by simp [hl]⟩
      rw [chunks4_append4, hr]; rfl
    | [], h => simp at h
    | [_], h => simp at h; omega
    | [_, _], h => simp at h; omega
    | [_, _, _], h => simp at h; omega

/-- … and it panics on every other length -/
theorem chunks4_none_of_mod : ∀ (n : Nat) (l : Bytes), l.length < 4 * (n + 1) → l.length % 4 ≠ 0 → chunks4 l = none
  | 0, l, h, hm => by
    match l, h, hm with
    | [], _, hm => simp at hm
    | [_], _, _ => rfl
    | [_, _], _, _ => rfl
    | [_, _, _], _, _ => rfl
    | _ :: _ :: _ :: _ :: _, h, _ => simp at h; omega
  | n + 1, l, h, hm => by
    match l, h, hm with
    | [], _, hm => simp at hm
    | [_], _, _ => rfl
    | [_, _], _, _ => rfl
    | [_, _, _], _, _ => rfl
    | a :: b :: c :: d :: rest, h, hm =>
      have := chunks4_none_of_mod n rest (by simp at h; omega) (by simp at hm; omega)
      rw [chunks4_append4, this]; rfl

theorem chunks4_length : ∀ (l : Bytes) (r : List Nat), chunks4 l = some r → l.length = 4 * r.length
  | [], r, h => by simp [chunks4] at h; subst h; rfl
  | [_], r, h => by simp [chunks4] at h
  | [_, _], r, h => by simp [chunks4] at h
  | [_, _, _], r, h => by simp [chunks4] at h
  | a :: b :: c :: d :: rest, r, h => by
    rw [chunks4_append4] at h
    cases hc : chunks4 rest with
    | none => rw [hc] at h; simp at h
    | some l' =>
      rw [hc] at h; simp at h; subst h
      have := chunks4_length rest l' hc
      simp [this]; omega

/-! ## slices -/

theorem slice_of_decomp {l pre mid post : Bytes} {off n : Nat} (hl : l = pre ++ (mid ++ post))
    (ho : pre.length = off) (hn : mid.length = n) : slice l off n = mid := by
  subst hl ho hn
  simp [slice]

theorem slice_all_length {l : Bytes} {off n : Nat} (h : off + n ≤ l.length) : (slice l off n).length = n :=
  Nomt.Wal.slice_length h

end Nomt.Ovf
