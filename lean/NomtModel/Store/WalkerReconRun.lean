import NomtModel.Store.WalkerReconTW
import NomtModel.Store.WalkerSimTop
/-!
# The mirror's `reconstruct` simulates the tree walker's run and reaches no panic site
-/
namespace Nomt.Walker
open Nomt Nomt.TriePos
open Nomt.Wal (PageDiff)

variable {Node VH : Type} [DecidableEq Node] [DecidableEq VH] (H : Hasher Node VH)

/-! ## splitting sorted leaves at a bit -/

theorem takeWhile_append_split {α : Type} (pred : α → Bool) : ∀ (A B : List α), (∀ a ∈ A, pred a = true) →
    (∀ b ∈ B, pred b = false) → (A ++ B).takeWhile pred = A ∧ (A ++ B).dropWhile pred = B := by
  intro A
  induction A with
  | nil =>
    intro B _ hB
    cases B with
    | nil => exact ⟨rfl, rfl⟩
    | cons b bs =>
      have := hB b (by simp)
      simp [List.takeWhile, List.dropWhile, this]
  | cons a as ih =>
    intro B hA hB
    have ha := hA a (by simp)
    obtain ⟨h1, h2⟩ := ih B (fun x hx => hA x (List.mem_cons_of_mem _ hx)) hB
    simp only [List.cons_append, List.takeWhile, List.dropWhile, ha]
    exact ⟨by rw [h1], h2⟩

/-- the split of `reconstruct`: sorted leaves below `p`, cut at bit `|p|` -/
theorem leaves_split {O : List (Key × VH)} (hk : KeysOK O) (p : Path) (hpl : p.length ≤ 256) (hunder : sub O p = O)
    (h2 : 2 ≤ O.length) :
    O.takeWhile (fun kv => !(kv.1.getD p.length false)) = sub O (p ++ [false]) ∧
    O.dropWhile (fun kv => !(kv.1.getD p.length false)) = sub O (p ++ [true]) := by
  have hplt : p.length < 256 := lt_of_two_le_sub hk p hpl (by rw [hunder]; exact h2)
  have hc := canon_sub hk p hpl
  rw [hunder] at hc
  have hs0 : sub O (p ++ [false]) = side p.length false O := by rw [sub_snoc, hunder]
  have hs1 : sub O (p ++ [true]) = side p.length true O := by rw [sub_snoc, hunder]
  have hO : O = side p.length false O ++ side p.length true O := by
    obtain ⟨f, hf⟩ : ∃ f, 256 - p.length = f + 1 := ⟨255 - p.length, by omega⟩
    rw [hf] at hc
    match hB : O, h2, hc with
    | a :: b :: rest, _, hc => exact hc.1
  rw [hs0, hs1]
  have := takeWhile_append_split (fun kv : Key × VH => !(kv.1.getD p.length false))
    (side p.length false O) (side p.length true O)
    (by
      intro a ha
      unfold side at ha
      have := (List.mem_filter.mp ha).2
      simp at this
      simp [this])
    (by
      intro a ha
      unfold side at ha
      have := (List.mem_filter.mp ha).2
      simp at this
      simp [this])
  rw [← hO] at this
  exact this

/-! ## the first elided page -/

/-- the first elided page as `reconstruct` inserts it: a pool page with the two top slots cleared -/
def firstPage (ps : PageSet Node) (first : PageId) : Page Node :=
  { ps.freshPage first with nodes := ((ps.freshPage first).nodes.set 0 H.term).set 1 H.term }

/-- the page set `reconstruct` works on -/
def psR (ps : PageSet Node) (first : PageId) : PageSet Node :=
  ps.insert first (firstPage H ps first) (.reconstructed 0 0 ⟨3, 0⟩)

theorem psR_get_first (ps : PageSet Node) (first : PageId) :
    (psR H ps first).get first = some (firstPage H ps first, .reconstructed 0 0 ⟨3, 0⟩) := by
  simp [psR, PageSet.insert]

theorem psR_fresh (ps : PageSet Node) (first : PageId) : (psR H ps first).fresh = ps.fresh := rfl

section
variable (ps : PageSet Node) (pos : Pos) (sr : Node) (O : List (Key × VH))

/-- the hypotheses under which `reconstruct_pages` is called by `seek`: the leaves are the sorted 256-bit keys below the
position (the bottom layer of a page), at least two and fewer than the elision threshold, the child page below the position is
not in the page set yet, and the pool hands out whole pages -/
structure ReconPre : Prop where
  sound : H.Sound
  keys : KeysOK O
  wf : pos.WF
  ne : pos.path ≠ []
  d6 : pos.depth % 6 = 0
  under : sub O pos.path = O
  two : 2 ≤ O.length
  small : O.length < PAGE_ELISION_THRESHOLD
  fresh : ∀ P, (ps.fresh P).length = 126
  absent : ps.contains (sextetsOf pos.path) = false

variable {H ps pos O}

theorem ReconPre.plen (h : ReconPre H ps pos O) : pos.path.length = pos.depth := pos.path_length h.wf

theorem ReconPre.p6 (h : ReconPre H ps pos O) : pos.path.length % 6 = 0 := by rw [h.plen]; exact h.d6

theorem ReconPre.pge (h : ReconPre H ps pos O) : 6 ≤ pos.path.length := by
  have := h.p6
  have : 1 ≤ pos.path.length := List.length_pos_iff.mpr h.ne
  omega

theorem ReconPre.ple (h : ReconPre H ps pos O) : pos.path.length ≤ 256 := by rw [h.plen]; exact h.wf.depthLe

theorem ReconPre.plt (h : ReconPre H ps pos O) : pos.path.length < 256 :=
  lt_of_two_le_sub h.keys pos.path h.ple (by rw [h.under]; exact h.two)

theorem ReconPre.parentLen (h : ReconPre H ps pos O) : 6 * ((specPage pos.path).length + 1) = pos.path.length := by
  rw [specPage_length]
  have := h.p6
  have := h.pge
  omega

theorem ReconPre.firstEq (h : ReconPre H ps pos O) (b : Bool) : specPage (pos.path ++ [b]) = sextetsOf pos.path :=
  specPage_snoc_boundary pos.path b h.p6

theorem ReconPre.firstChild (h : ReconPre H ps pos O) :
    sextetsOf pos.path = specPage pos.path ++ [loadBE (lp pos.path)] :=
  sextetsOf_bottom pos.path h.p6 h.ne

end

/-! ## the run -/

section
variable {ps : PageSet Node} {pos : Pos} {O : List (Key × VH)}

theorem reconFirst_eq (h : ReconPre H ps pos O) :
    reconFirst H ps (some (specPage pos.path)) pos =
      .ok (some (sextetsOf pos.path, firstPage H ps (sextetsOf pos.path), .reconstructed 0 0 ⟨3, 0⟩)) := by
  have h1 : 1 ≤ pos.depth := by rw [← h.plen]; exact List.length_pos_iff.mpr h.ne
  have hchild : childPageId (specPage pos.path) (loadBE (lp pos.path)) = .ok (sextetsOf pos.path) := by
    unfold childPageId MAX_PAGE_DEPTH
    rw [if_neg (by rw [specPage_length]; have := h.plt; have := h.p6; omega), ← h.firstChild]
  unfold reconFirst
  simp only
  rw [childPageIndex_eq pos h.wf h1 h.d6]
  simp only
  rw [hchild]
  simp only
  rw [if_neg (by rw [h.absent]; simp)]
  rfl

/-- the store the walk starts from -/
def rstore (ps : PageSet Node) (pos : Pos) (sr : Node) : Store Node :=
  flatStore H (psR H ps (sextetsOf pos.path)) sr

/-- the tree walker's configuration of the walk -/
def rcfg (ps : PageSet Node) (pos : Pos) : TWCfg Node :=
  cfgOf H (psR H ps (sextetsOf pos.path)) (some (specPage pos.path))

theorem rcfg_top (h : ReconPre H ps pos O) : (rcfg H ps pos).top = pos.path.length := by
  show 6 * k0 (some (specPage pos.path)) = _
  simp only [k0]
  exact h.parentLen

theorem firstPage_loadable (h : ReconPre H ps pos O) (sr : Node) (Z : Prop) :
    Loadable H (psR H ps (sextetsOf pos.path)) Z (rstore H ps pos sr) (sextetsOf pos.path) := by
  refine ⟨firstPage H ps (sextetsOf pos.path), _, psR_get_first H ps _, Or.inr ⟨_, rfl⟩, ?_, ?_⟩
  · simp [firstPage, PageSet.freshPage, h.fresh]
  · intro q hq _ hqp
    unfold rstore flatStore
    rw [if_neg hq, hqp, psR_get_first]

/-- **the mirror's `reconstruct` reaches no panic site and simulates the tree walker** -/
theorem reconstruct_sim (h : ReconPre H ps pos O) (sr : Node) :
    ∃ w3, (Walker.newReconstructor sr (specPage pos.path)).reconstruct H ps pos O =
        .ok (psR H ps (sextetsOf pos.path), some (specNode H O pos.path, w3.outputPages)) ∧
      Sim H (psR H ps (sextetsOf pos.path)) w3 (twRecon3 H (rcfg H ps pos) (rstore H ps pos sr) pos.path O) ∧
      w3.reconstruction = true := by
  have hs := h.sound
  have hk := h.keys
  have hp6 := h.p6
  have hplt := h.plt
  have hple := h.ple
  have htop := rcfg_top H h
  have hfresh' : ∀ Q, ((psR H ps (sextetsOf pos.path)).fresh Q).length = 126 := h.fresh
  have hf := twRecon_facts H hs hk (rcfg H ps pos) (rstore H ps pos sr) pos.path hp6 h.ne
    (by rw [h.under]; exact h.two) hple htop rfl
  obtain ⟨Lc, hLc, hB⟩ := hf.ids
  have hsb : SmallBy H (psR H ps (sextetsOf pos.path))
      (twRecon3 H (rcfg H ps pos) (rstore H ps pos sr) pos.path O).log :=
    smallBy_of_final H hs hk _ pos.path h.ne hp6 hple _ Lc hLc hB.1 (fun c hc => (hB.2 c).mp hc) hf.logok
      (by rw [h.under]; exact h.small)
  have hk0 : 6 * k0 (some (specPage pos.path)) = pos.path.length := by simp only [k0]; exact h.parentLen
  -- the two positions
  obtain ⟨lp', hlp, hlpwf, hlppath, _, _⟩ := wf_down pos false h.wf (by rw [← h.plen]; exact hplt)
  obtain ⟨rp', hrp, hrpwf, hrppath, _, _⟩ := wf_down pos true h.wf (by rw [← h.plen]; exact hplt)
  -- the leaves
  obtain ⟨hleft, hright⟩ := leaves_split hk pos.path hple h.under h.two
  -- the initial simulation
  have hsim0 : Sim H (psR H ps (sextetsOf pos.path)) (Walker.newReconstructor sr (specPage pos.path))
      ({ pos := [], store := rstore H ps pos sr, log := [], cpr := [] } : TW Node) := by
    have hrecon : ReconInv H (Walker.newReconstructor sr (specPage pos.path))
        ({ pos := [], store := rstore H ps pos sr, log := [], cpr := [] } : TW Node) := by
      refine ⟨?_, ?_, ?_, ?_⟩
      · intro o ho; cases ho
      · intro _; exact ⟨rfl, fun sp hsp => by cases hsp⟩
      · intro _; exact Nat.le_refl _
      · intro _; rfl
    refine ⟨Pos.wf_new, rfl, ?_, ?_, ?_, trivial, ?_, ?_, hrecon, rfl, ?_, rfl, ?_⟩
    · simp [Walker.newReconstructor, Walker.newInner, rstore, flatStore]
    · simp [Walker.newReconstructor, Walker.newInner]
    · intro sp rest e; cases e
    · intro sp hsp; cases hsp
    · intro sp hsp; cases hsp
    · intro o ho; cases ho
    · intro sp hsp; cases hsp
  -- call 1: `build_stack` pushes the first elided page
  have hb1 := sim_buildStack H (psR H ps (sextetsOf pos.path))
    (sim_other_fields H _ hsim0 [] none (some lp')) lp' hlpwf (by rw [hlppath]; simp)
    (by
      intro pp hpp
      have : pp = specPage pos.path := by
        have : some (specPage pos.path) = some pp := hpp
        injection this with e; exact e.symm
      rw [this, hlppath, h.firstEq false, h.firstChild]
      exact ⟨List.prefix_append _ _, by intro e; have := congrArg List.length e; simp at this⟩)
    (by intro top rest e; cases e)
    (by
      intro Q hQ _ hpp
      rw [hlppath, h.firstEq false] at hQ
      have hlen := hpp (specPage pos.path) rfl
      have hQF : Q = sextetsOf pos.path := by
        apply hQ.eq_of_length
        have := hQ.length_le
        rw [h.firstChild] at this ⊢
        simp at this ⊢
        omega
      rw [hQF]
      exact firstPage_loadable H h sr _)
  obtain ⟨w1, hw1, hs1, hsame1, _⟩ := hb1
  have hpar1 : w1.parentPage = some (specPage pos.path) := hsame1.1
  have hrec1 : w1.reconstruction = true := hsame1.2.2.2.2
  -- call 1: `replace_terminal`
  have hr1 := sim_replaceTerminal H (psR H ps (sextetsOf pos.path)) hs hfresh' hk hs1
    (by
      right
      show 6 * k0 w1.parentPage < lp'.path.length
      rw [hpar1, hk0, hlppath]; simp)
    (by intro hh; rw [hrec1] at hh; cases hh)
    (twRecon3 H (rcfg H ps pos) (rstore H ps pos sr) pos.path O).log
    (by
      intro _
      refine ⟨hsb, ?_⟩
      show (TW.replaceTerminal H (cfgOf H _ w1.parentPage) _ (sub O lp'.path)).log <+: _
      rw [hpar1, hlppath]
      exact List.IsPrefix.trans hf.pre12 hf.pre23)
  obtain ⟨w2, hw2, hs2, hsame2, _⟩ := hr1
  have hs2' : Sim H (psR H ps (sextetsOf pos.path)) w2 (twRecon1 H (rcfg H ps pos) (rstore H ps pos sr) pos.path O) := by
    have := hs2
    rw [hpar1, hlppath] at this
    exact this
  have hpar2 : w2.parentPage = some (specPage pos.path) := hsame2.1.trans hpar1
  have hrec2 : w2.reconstruction = true := hsame2.2.2.2.2.trans hrec1
  have hlast2 : w2.lastPosition = some lp' := hsame2.2.1.trans hsame1.2.1
  -- call 2: the prologue (nothing to compact)
  have hc2 := sim_compactUp H (psR H ps (sextetsOf pos.path)) hs2' (some rp')
    (by
      intro t ht _
      injection ht with ht
      rw [← ht, hf.pos1, hrppath]
      have : sharedBits (pos.path ++ [false]) (pos.path ++ [true]) = pos.path.length := by
        have := sharedBits_leftOf pos.path [] []
        simpa using this
      rw [this]; simp)
    (twRecon3 H (rcfg H ps pos) (rstore H ps pos sr) pos.path O).log
    (by
      intro _
      refine ⟨hsb, ?_⟩
      rw [hpar2]
      simp only [Option.map_some, hrppath]
      rw [tw_compactUp_zero H _ _ _ (by
        rw [hf.pos1]
        have : sharedBits (pos.path ++ [false]) (pos.path ++ [true]) = pos.path.length := by
          have := sharedBits_leftOf pos.path [] []
          simpa using this
        rw [this]; simp)]
      exact List.IsPrefix.trans hf.pre12 hf.pre23)
  obtain ⟨w3, hw3, hs3, hsame3⟩ := hc2
  have hs3' : Sim H (psR H ps (sextetsOf pos.path)) w3 (twRecon1 H (rcfg H ps pos) (rstore H ps pos sr) pos.path O) := by
    have := hs3
    rw [hpar2] at this
    simp only [Option.map_some, hrppath] at this
    rw [tw_compactUp_zero H _ _ _ (by
      rw [hf.pos1]
      have : sharedBits (pos.path ++ [false]) (pos.path ++ [true]) = pos.path.length := by
        have := sharedBits_leftOf pos.path [] []
        simpa using this
      rw [this]; simp)] at this
    exact this
  have hpar3 : w3.parentPage = some (specPage pos.path) := hsame3.1.trans hpar2
  have hrec3 : w3.reconstruction = true := hsame3.2.2.2.2.trans hrec2
  -- call 2: `build_stack` pushes nothing
  have hb2 := sim_buildStack H (psR H ps (sextetsOf pos.path))
    (sim_other_fields H _ hs3' w3.siblingStack w3.prevNode (some rp')) rp' hrpwf (by rw [hrppath]; simp)
    (by
      intro pp hpp
      have : pp = specPage pos.path := by
        have : w3.parentPage = some pp := hpp
        rw [hpar3] at this
        injection this with e; exact e.symm
      rw [this, hrppath, h.firstEq true, h.firstChild]
      exact ⟨List.prefix_append _ _, by intro e; have := congrArg List.length e; simp at this⟩)
    (by
      intro top rest e
      have := hs3'.stackT top rest e
      rw [hf.pos1, h.firstEq false] at this
      rw [this, hrppath, h.firstEq true]
      exact List.prefix_refl _)
    (by
      intro Q hQ htopc _
      exfalso
      -- the stack holds the first elided page already
      obtain ⟨top, rest, hst, htopid⟩ := sim_stack_cons H _ hs3' (by
        show 6 * k0 w3.parentPage < _
        rw [hpar3, hk0, hf.pos1]; simp)
      have := htopc top rest hst
      rw [htopid, hf.pos1, h.firstEq false] at this
      rw [hrppath, h.firstEq true] at hQ
      have := hQ.length_le
      omega)
  obtain ⟨w4, hw4, hs4, hsame4, _⟩ := hb2
  have hpar4 : w4.parentPage = some (specPage pos.path) := hsame4.1.trans hpar3
  have hrec4 : w4.reconstruction = true := hsame4.2.2.2.2.trans hrec3
  -- call 2: `replace_terminal`
  have hr2 := sim_replaceTerminal H (psR H ps (sextetsOf pos.path)) hs hfresh' hk hs4
    (by
      right
      show 6 * k0 w4.parentPage < rp'.path.length
      rw [hpar4, hk0, hrppath]; simp)
    (by intro hh; rw [hrec4] at hh; cases hh)
    (twRecon3 H (rcfg H ps pos) (rstore H ps pos sr) pos.path O).log
    (by
      intro _
      refine ⟨hsb, ?_⟩
      show (TW.replaceTerminal H (cfgOf H _ w4.parentPage) _ (sub O rp'.path)).log <+: _
      rw [hpar4, hrppath]
      exact hf.pre23)
  obtain ⟨w5, hw5, hs5, hsame5, _⟩ := hr2
  have hs5' : Sim H (psR H ps (sextetsOf pos.path)) w5 (twRecon2 H (rcfg H ps pos) (rstore H ps pos sr) pos.path O) := by
    have := hs5
    rw [hpar4, hrppath] at this
    exact this
  have hpar5 : w5.parentPage = some (specPage pos.path) := hsame5.1.trans hpar4
  have hrec5 : w5.reconstruction = true := hsame5.2.2.2.2.trans hrec4
  -- the final compaction
  have hc3 := sim_compactUp H (psR H ps (sextetsOf pos.path)) hs5' none (by intro t ht; cases ht)
    (twRecon3 H (rcfg H ps pos) (rstore H ps pos sr) pos.path O).log
    (by
      intro _
      refine ⟨hsb, ?_⟩
      rw [hpar5]
      exact List.prefix_refl _)
  obtain ⟨w6, hw6, hs6, hsame6⟩ := hc3
  have hs6' : Sim H (psR H ps (sextetsOf pos.path)) w6 (twRecon3 H (rcfg H ps pos) (rstore H ps pos sr) pos.path O) := by
    have := hs6
    rw [hpar5] at this
    exact this
  have hrec6 : w6.reconstruction = true := hsame6.2.2.2.2.trans hrec5
  refine ⟨w6, ?_, hs6', hrec6⟩
  -- the mirror's `reconstruct`, step by step
  have hdiv : ((Walker.newReconstructor sr (specPage pos.path)).parentPage.getD []).length * DEPTH + DEPTH =
      pos.path.length := by
    show (specPage pos.path).length * 6 + 6 = _
    have := h.parentLen
    omega
  -- the first call
  have hcall1 : (Walker.newReconstructor sr (specPage pos.path)).advanceAndReplace H (psR H ps (sextetsOf pos.path)) lp'
      (sub O (pos.path ++ [false])) = .ok w2 := by
    unfold Walker.advanceAndReplace Walker.advancePrologue
    have hl0 : (Walker.newReconstructor sr (specPage pos.path)).lastPosition = none := rfl
    rw [hl0]
    simp only
    have e1 : ({ Walker.newReconstructor sr (specPage pos.path) with lastPosition := some lp' } : Walker Node).buildStack H
          (psR H ps (sextetsOf pos.path)) lp' = .ok w1 := hw1
    rw [e1]
    simp only
    rw [← hlppath]
    exact hw2
  have hbits : Nomt.bitsLt lp'.path rp'.path = true := by
    rw [hlppath, hrppath]
    exact leftOf_bitsLt ⟨pos.path, [], [], rfl, rfl⟩
  have hcall2 : w2.advanceAndReplace H (psR H ps (sextetsOf pos.path)) rp' (sub O (pos.path ++ [true])) = .ok w5 := by
    unfold Walker.advanceAndReplace Walker.advancePrologue
    rw [hlast2]
    simp only
    rw [if_neg (by rw [hbits]; simp), hw3]
    simp only
    have e1 : ({ w3 with lastPosition := some rp' } : Walker Node).buildStack H (psR H ps (sextetsOf pos.path)) rp' =
        .ok w4 := hw4
    rw [e1]
    simp only
    rw [← hrppath]
    exact hw5
  unfold Walker.reconstruct
  rw [if_neg (by simp [Walker.newReconstructor, Walker.newInner])]
  have hpp : (Walker.newReconstructor sr (specPage pos.path)).parentPage = some (specPage pos.path) := rfl
  rw [hpp, reconFirst_eq H h]
  simp only
  rw [hlp]
  simp only
  have hdiv' : (specPage pos.path).length * DEPTH + DEPTH = pos.path.length := hdiv
  simp only [Option.getD_some, hdiv', hleft, hright]
  have hps : ps.insert (sextetsOf pos.path) (firstPage H ps (sextetsOf pos.path)) (.reconstructed 0 0 ⟨3, 0⟩) =
      psR H ps (sextetsOf pos.path) := rfl
  rw [hps, hcall1]
  simp only
  rw [hrp]
  simp only
  rw [hcall2]
  simp only
  rw [hw6]
  simp only
  -- the outputs are reconstructed pages, and there is exactly one child-page root
  have hany : w6.outputPages.any PageOut.isUpdated = false := by
    rw [List.any_eq_false]
    intro o ho
    have := hs6'.recon.kinds o ho
    rw [hrec6] at this
    cases o with
    | updated => simp [PageOut.isReconstructed] at this
    | reconstructed => simp [PageOut.isUpdated]
  rw [if_neg (by rw [hany]; simp)]
  have hcpr := hs6'.cpr
  rw [hf.cpr3] at hcpr
  cases hc : w6.childPageRoots with
  | nil => rw [hc] at hcpr; simp at hcpr
  | cons e rest =>
    obtain ⟨q, n⟩ := e
    rw [hc] at hcpr
    simp only [List.map_cons, List.cons.injEq, Prod.mk.injEq] at hcpr
    simp only
    rw [hcpr.1.2]

end

/-! ## `reconstruct_pages` -/

section
variable {ps : PageSet Node} {pos : Pos} {O : List (Key × VH)}

/-- a reconstructed output page as `reconstruct_pages` yields it -/
def recOf (o : PageOut Node) : Reconstructed Node :=
  ⟨o.pageId, o.page, o.diff, countLeaves H o.page, o.childrenLeaves⟩

theorem reconMap_ok : ∀ (pages : List (PageOut Node)), (∀ o ∈ pages, o.isReconstructed = true) →
    reconMap H pages = .ok (pages.map (recOf H))
  | [], _ => rfl
  | o :: rest, h => by
    have ho := h o (by simp)
    cases o with
    | updated => simp [PageOut.isReconstructed] at ho
    | reconstructed pid pg cl d =>
      simp only [reconMap, List.map_cons]
      rw [reconMap_ok rest (fun x hx => h x (List.mem_cons_of_mem _ hx))]
      rfl

/-- **`reconstruct_pages` is correct** (the mirror of `page_walker::reconstruct_pages`): for the sorted leaves below an elided
child — at least two, fewer than `PAGE_ELISION_THRESHOLD`, the child page not yet in the page set, the parent page holding the
node of the sub-trie at the position — no panic site is reached; the first elided page is inserted into the page set; the pages
yielded are exactly the pages at / below the position whose prefix holds an internal node of the trie of the leaves, each once;
each has 126 slots, every slot whose parent is an internal node holds `nodeAt` of the leaves below it, its `page_leaves_counter`
is the number of leaves of the trie that lie in the page, and its diff names every slot that differs from the pool page (the
first page: from the pool page with the two top slots cleared) it was built on. -/
theorem reconstructPages_correct (h : ReconPre H ps pos O) (page : Page Node)
    (hpage : page.getNode H pos.nodeIndex = .ok (specNode H O pos.path)) :
    ∃ l Lc, reconstructPages H page (specPage pos.path) pos ps O = .ok (psR H ps (sextetsOf pos.path), some l) ∧
      l.map (·.pageId) = Lc.map sextetsOf ∧ BlockIds O pos.path Lc ∧
      ∀ r ∈ l, ∃ c ∈ Lc, r.pageId = sextetsOf c ∧ r.page.nodes.length = 126 ∧
        (∀ q, q ≠ [] → q.length ≤ 256 → specPage q = r.pageId → Mean O q →
          r.page.nodes.getD (specIndex q) H.term = specNode H O q) ∧
        r.pageLeaves = pageCount O c ∧
        ∃ base, BaseOf (psR H ps (sextetsOf pos.path)) r.pageId base ∧ DiffNames H r.page.nodes base r.diff := by
  obtain ⟨w3, hrun, hsim, hrec⟩ := reconstruct_sim H h (specNode H O pos.path)
  have hf := twRecon_facts H h.sound h.keys (rcfg H ps pos) (rstore H ps pos (specNode H O pos.path)) pos.path h.p6 h.ne
    (by rw [h.under]; exact h.two) h.ple (rcfg_top H h) rfl
  obtain ⟨Lc, hLc, hB⟩ := hf.ids
  have hkinds : ∀ o ∈ w3.outputPages, o.isReconstructed = true := by
    intro o ho
    have := hsim.recon.kinds o ho
    rw [hrec] at this; exact this
  refine ⟨w3.outputPages.map (recOf H), Lc, ?_, ?_, hB, ?_⟩
  · unfold reconstructPages
    rw [hpage]
    simp only
    rw [hrun]
    simp only [ne_eq, not_true_eq_false, if_false]
    rw [reconMap_ok H _ hkinds]
  · rw [List.map_map]
    have : (fun r : Reconstructed Node => r.pageId) ∘ recOf H = PageOut.pageId := rfl
    rw [this, hsim.recon.outIds hrec, hLc]
  · intro r hr
    obtain ⟨o, ho, rfl⟩ := List.mem_map.mp hr
    obtain ⟨st, hmem, hlen, hm, hdiff⟩ := hsim.outs o ho
    have hidm : o.pageId ∈ Lc.map sextetsOf := by
      rw [← hLc]
      exact List.mem_map_of_mem (f := fun e : PageId × Store Node => e.1) hmem
    obtain ⟨c, hc, hce⟩ := List.mem_map.mp hidm
    obtain ⟨_, h6, hcl, h2⟩ := (hB.2 c).mp hc
    have hlogok := hf.logok _ hmem
    refine ⟨c, hc, hce.symm, hlen, ?_, ?_, hdiff⟩
    · intro q hq hql hqp hmean
      show o.page.nodes.getD (specIndex q) H.term = _
      rw [hm q hq hql hqp]
      exact hlogok q hq hqp hql trivial hmean
    · show countLeaves H o.page = _
      apply countLeaves_of_logOK H h.sound h.keys o.page c st h6 hcl h2
      · intro q hq hql hqp
        exact hm q hq hql (by rw [hqp, hce])
      · rw [hce]; exact hlogok

end

end Nomt.Walker
