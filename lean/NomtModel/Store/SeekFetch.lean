import NomtModel.Store.SeekLoops
/-!
# The two fetches of the seek against the view (helper lemmas for `Props/C05_Seek.lean` / `C11_Seek.lean`)

* `view_range`: the view below a bit path = the b-tree's content of the key range with the overlay's changes of the
  range applied (`range_bounds` denotes the prefix range, filtering commutes with the sorted-map union);
* `startLeafFetch_ok`: at a leaf node of the view's trie, `begin_leaf_fetch` + `continue_leaf_fetch(None)` either
  complete with that leaf or rest blocked on a b-tree leaf with the invariant of the fetch;
* `leafFetch_supply_ok` / `leavesFetch_supply_ok`: the answer to a leaf request keeps the invariant; the leaves fetch
  ends by handing exactly the view's leaves of the range to `reconstruct_pages`.
-/
namespace Nomt.Seek
open Nomt Nomt.Ovl Nomt.TriePos

variable {Node VH V : Type} [DecidableEq Node] [DecidableEq VH]

/-! ### filtering a sorted-map union by a key predicate -/

theorem kvApply_filter {A : Type} {B : KVL A} (hB : KSorted B) {O : List (Key × Option A)} (hO : OvSorted O) (q : Key → Bool) :
    (kvApply B O).filter (fun e => q e.1) = kvApply (B.filter (fun e => q e.1)) (O.filter (fun e => q e.1)) := by
  have hOf : OvSorted (O.filter (fun e => q e.1)) := List.Pairwise.filter _ hO
  apply kv_ext (ksorted_filter (kvApply_sorted hB _) _) (kvApply_sorted (ksorted_filter hB _) _)
  intro k
  rw [kvGet_filter (kvApply_sorted hB _), kvGet_kvApply_distinct hB (ovSorted_distinct hO),
    kvGet_kvApply_distinct (ksorted_filter hB _) (ovSorted_distinct hOf), wsLookup_filter_key O q k, kvGet_filter hB]
  by_cases hq : q k = true
  · simp only [hq, if_true]
    cases wsLookup O k with
    | some c => cases c <;> simp [Option.filter, hq]
    | none => rfl
  · have hq' : q k = false := by simpa using hq
    simp only [hq', Bool.false_eq_true, if_false]
    have hF : ∀ o : Option A, Option.filter (fun _ => false) o = none := by intro o; cases o <;> rfl
    rw [hF, hF]

theorem baseOf_sorted (W : World Node VH V) (hOK : W.OK) : KSorted (baseOf W.env.primary W.env.secondary W.env.leaves) :=
  kvApply_sorted (flat_sorted hOK.leaves) _

theorem view_sorted (W : World Node VH V) (hOK : W.OK) : KSorted W.view := by
  rw [hOK.viewEq]
  exact kvApply_sorted (ksorted_vhMap _ (baseOf_sorted W hOK)) _

theorem view_canon (W : World Node VH V) (hOK : W.OK) : Canon KEY_BITS 0 W.view := by
  apply canon_of_sorted KEY_BITS 0 W.view []
  · have hs := view_sorted W hOK
    unfold SortedKV
    unfold KSorted at hs
    refine List.Pairwise.imp_of_mem ?_ hs
    intro a b ha hb hab
    exact bl_lexLt a.1 b.1 (by rw [hOK.viewLen a ha, hOK.viewLen b hb]) hab
  · intro kv hkv; rw [hOK.viewLen kv hkv]; simp
  · intro kv _; rfl

/-- **the view below a bit path** is the b-tree's content of the position's key range with the overlay's changes of
that range applied -/
theorem view_range (W : World Node VH V) (hOK : W.OK) (bs : List Bool) (hb : bs.length ≤ KEY_BITS) (start : Key)
    (stop : Option Key)
    (hr : ∀ k : Key, k.length = KEY_BITS → (inRange start stop k = true ↔ bs.isPrefixOf k = true)) :
    under bs W.view =
      kvApply (vhMap W.env.vh ((baseOf W.env.primary W.env.secondary W.env.leaves).filter (fun e => inRange start stop e.1)))
        (ovRange W.env start stop) := by
  rw [under_eq_filter bs W.view (by intro kv hkv; rw [hOK.viewLen kv hkv]; exact hb)]
  have h1 : W.view.filter (fun kv => bs.isPrefixOf kv.1) = W.view.filter (fun e => inRange start stop e.1) := by
    apply List.filter_congr
    intro kv hkv
    have := hr kv.1 (hOK.viewLen kv hkv)
    cases h : inRange start stop kv.1 <;> cases h' : bs.isPrefixOf kv.1 <;> simp_all
  rw [h1]
  conv => lhs; rw [hOK.viewEq]
  rw [kvApply_filter (ksorted_vhMap _ (baseOf_sorted W hOK)) hOK.ov (inRange start stop), vhMap_filter]
  rfl

/-! ### `needed_leaves` of a fresh iterator -/

theorem neededOf_new (W : World Node VH V) (start : Key) (stop : Option Key) :
    let it := BtIt.new W.env.primary W.env.secondary W.env.leaves start stop
    neededOf W.env it = needList (W.env.leaves.length - it.leaf.pending.length) (tw it).length := by
  intro it
  unfold neededOf
  cases hst : it.leaf.st with
  | done =>
    have hp : it.leaf.pending = [] := by
      have : it.leaf = LeafIt.new W.env.leaves start stop := rfl
      rw [this] at hst ⊢
      unfold LeafIt.new at hst ⊢
      cases hl : W.env.leaves with
      | nil => rfl
      | cons a as =>
        rw [hl] at hst
        simp only at hst ⊢
        split
        · rfl
        · rename_i h; rw [if_neg h] at hst; cases hst
    simp only [tw, hp, List.takeWhile_nil, List.length_nil]
    rfl
  | blocked => rfl
  | proceeding cur => rfl

/-- the leaf the iterator is blocked on is the one `needed_leaves` names first -/
theorem pending_head_index {leaves : List (Leaf V)} {lf : LeafIt V} (h : Shape leaves lf) {l : Leaf V} {rest : List (Leaf V)}
    (hp : lf.pending = l :: rest) : leaves[leaves.length - lf.pending.length]? = some l := by
  obtain ⟨pre, hpre⟩ := h.suffix
  rw [hpre, hp, List.length_append, List.length_cons]
  have : pre.length + (rest.length + 1) - (rest.length + 1) = pre.length := by omega
  rw [this, List.getElem?_append_right (Nat.le_refl _)]
  simp

theorem tw_cons {it : BtIt V} {l : Leaf V} {rest : List (Leaf V)} (hp : it.leaf.pending = l :: rest)
    (hb : beforeStop it.leaf.stop l.sep = true) :
    (tw it).length = (rest.takeWhile (fun l => beforeStop it.leaf.stop l.sep)).length + 1 := by
  unfold tw
  rw [hp, List.takeWhile_cons, if_pos hb, List.length_cons]

/-! ### the fetch of the single leaf -/

/-- what `continue_leaf_fetch` leaves behind: the request at rest in the fetch, or completed with the leaf -/
theorem leafLoop_finish (W : World Node VH V) (ps : PageSet Node) (r : Req Node VH V) (k0 : Key) (v0 : VH)
    (ht : Trail W r) (hu : under (r.key.take r.pos.depth) W.view = [(k0, v0)])
    {it : BtIt V} {needed : List Nat} {res : Outcome Unit (LeafLoop VH V)} (hres : LeafLoopOK W it (k0, v0) res)
    (hneed : needed = needList (W.env.leaves.length - it.leaf.pending.length) (tw it).length) :
    ∃ r', (match res with
        | .panic m => Outcome.panic m
        | .err e => .err e
        | .ok (.blocked it' dels') => .ok { r with st := .fetchingLeaf dels' it' needed }
        | .ok (.found kv) => .ok { r with st := .completed (some kv) }) = Outcome.ok r' ∧
      r'.key = r.key ∧ r'.pos = r.pos ∧ r'.pageId = r.pageId ∧ r'.sibs = r.sibs ∧ r'.ios = r.ios ∧ StOK W ps r' none ∧
      (r'.isCompleted = true ∨ fetchPend r'.st = some it.leaf.pending.length) := by
  cases hres with
  | @blocked it' dels' i1 s1 hst hpend hstop hf hm =>
    refine ⟨_, rfl, rfl, rfl, rfl, rfl, rfl, ?_, .inr (by simp only [fetchPend]; rw [hpend])⟩
    unfold StOK
    simp only
    refine ⟨k0, v0, hu, hf, i1, s1, hst, ?_⟩
    simp only
    rw [hneed]
    unfold tw
    rw [hpend, hstop]
  | found =>
    refine ⟨_, rfl, rfl, rfl, rfl, rfl, rfl, ?_, .inl rfl⟩
    unfold StOK
    simp only
    refine ⟨trivial, ?_⟩
    have hd : r.pos.depth ≤ KEY_BITS := ht.wf.depthLe
    have hthr : ∀ j, j < r.pos.depth → 2 ≤ (under (r.key.take j) W.view).length := by
      intro j hj
      have := ht.through j (Nat.zero_le _) (by rw [List.length_take, ht.klen]; omega)
      rw [List.take_take] at this
      have e : min j r.pos.depth = j := by omega
      rw [e] at this
      exact this
    have hspec := proveSpec_at_leaf W.H W.view r.key ht.klen r.pos.depth hd hthr k0 v0 hu
    unfold resultProof
    rw [ht.sibs, hspec]
    cases W.env.record <;> rfl

/-! ### facts about a request's trail -/

theorem Trail.thr {W : World Node VH V} {r : Req Node VH V} (ht : Trail W r) :
    ∀ j, j < r.pos.depth → 2 ≤ (under (r.key.take j) W.view).length := by
  intro j hj
  have hd : r.pos.depth ≤ KEY_BITS := ht.wf.depthLe
  have := ht.through j (Nat.zero_le _) (by rw [List.length_take, ht.klen]; omega)
  rw [List.take_take] at this
  have e : min j r.pos.depth = j := by omega
  rw [e] at this
  exact this

theorem Trail.takeLen {W : World Node VH V} {r : Req Node VH V} (ht : Trail W r) :
    (r.key.take r.pos.depth).length = r.pos.depth := by
  have hd : r.pos.depth ≤ KEY_BITS := ht.wf.depthLe
  rw [List.length_take, ht.klen]; omega

theorem Trail.path {W : World Node VH V} {r : Req Node VH V} (ht : Trail W r) : r.pos.path = r.key.take r.pos.depth := by
  unfold Pos.path
  rw [ht.raw, List.take_append_of_le_length (by rw [ht.takeLen]; exact Nat.le_refl _)]
  rw [List.take_of_length_le (by rw [ht.takeLen]; exact Nat.le_refl _)]

theorem Trail.range {W : World Node VH V} {r : Req Node VH V} (ht : Trail W r) :
    ∃ stop, rangeBounds r.pos.raw r.pos.depth = .ok (r.pos.raw, stop) ∧
      (∀ k : Key, k.length = KEY_BITS → (inRange r.pos.raw stop k = true ↔ (r.key.take r.pos.depth).isPrefixOf k = true)) ∧
      beforeStop stop r.pos.raw = true := by
  have hd : r.pos.depth ≤ KEY_BITS := ht.wf.depthLe
  have hl := ht.takeLen
  obtain ⟨stop, h1, h2⟩ := rangeBounds_spec (r.key.take r.pos.depth) (by rw [hl]; exact hd)
  rw [hl] at h1 h2
  have h3 := rangeBounds_start_lt (r.key.take r.pos.depth) (by rw [hl]; exact hd) stop (by rw [hl]; exact h2)
  rw [hl] at h3
  rw [← ht.raw] at h1 h2 h3
  exact ⟨stop, h1, h2, h3⟩

/-- a request completed with the leaf below its position holds the specified proof -/
theorem completed_leaf_ok (W : World Node VH V) (ps : PageSet Node) (r : Req Node VH V) (k0 : Key) (v0 : VH)
    (ht : Trail W r) (hu : under (r.key.take r.pos.depth) W.view = [(k0, v0)]) :
    StOK W ps { r with st := .completed (some (k0, v0)) } none := by
  unfold StOK
  simp only
  refine ⟨trivial, ?_⟩
  have hspec := proveSpec_at_leaf W.H W.view r.key ht.klen r.pos.depth ht.wf.depthLe ht.thr k0 v0 hu
  unfold resultProof
  rw [ht.sibs, hspec]
  cases W.env.record <;> rfl

/-- a request completed at a terminator holds the specified proof -/
theorem completed_term_ok (W : World Node VH V) (ps : PageSet Node) (r : Req Node VH V)
    (ht : Trail W r) (hu : under (r.key.take r.pos.depth) W.view = []) :
    StOK W ps { r with st := .completed none } none := by
  unfold StOK
  simp only
  refine ⟨trivial, ?_⟩
  have hspec := proveSpec_at_term W.H W.view r.key ht.klen r.pos.depth ht.wf.depthLe ht.thr hu
  unfold resultProof
  rw [ht.sibs, hspec, ht.path]
  cases W.env.record <;> rfl

/-- **`begin_leaf_fetch` + `continue_leaf_fetch(None)` at a leaf node of the view's trie** -/
theorem startLeafFetch_ok (W : World Node VH V) (hOK : W.OK) (ps : PageSet Node) (r : Req Node VH V) (k0 : Key) (v0 : VH)
    (ht : Trail W r) (hu : under (r.key.take r.pos.depth) W.view = [(k0, v0)]) :
    ∃ r', startLeafFetch W.env r = .ok r' ∧ r'.key = r.key ∧ r'.pos = r.pos ∧ r'.pageId = r.pageId ∧ r'.sibs = r.sibs ∧
      r'.ios = r.ios ∧ StOK W ps r' none := by
  obtain ⟨stop, hrb, hrange, hss⟩ := ht.range
  have hd : r.pos.depth ≤ KEY_BITS := ht.wf.depthLe
  have hview := view_range W hOK (r.key.take r.pos.depth) (by rw [ht.takeLen]; exact hd) r.pos.raw stop hrange
  rw [hu] at hview
  have hsd : KSorted (vhMap W.env.vh ((baseOf W.env.primary W.env.secondary W.env.leaves).filter
      (fun e => inRange r.pos.raw stop e.1))) := ksorted_vhMap _ (ksorted_filter (baseOf_sorted W hOK) _)
  have hso : OvSorted (ovRange W.env r.pos.raw stop) := List.Pairwise.filter _ hOK.ov
  have hlf := leafFetch_single hsd hso hview.symm
  have h0 : ∀ l ∈ W.env.leaves.head?, bitsLt r.pos.raw l.sep = false := fun l hl => hOK.firstSep l hl _ ht.wf.rawLen
  unfold startLeafFetch beginLeafFetch
  rw [hrb]
  simp only
  cases hfi : firstInsert (ovRange W.env r.pos.raw stop) with
  | some kv =>
    simp only
    unfold leafFetch at hlf
    rw [hfi] at hlf
    simp only at hlf
    cases hlf
    exact ⟨_, rfl, rfl, rfl, rfl, rfl, rfl, completed_leaf_ok W ps r k0 v0 ht hu⟩
  | none =>
    simp only
    unfold leafFetch at hlf
    rw [hfi] at hlf
    simp only at hlf
    rw [← btNew_spec W.env.primary W.env.secondary W.env.leaves r.pos.raw stop hOK.prim hOK.sec hOK.leaves h0] at hlf
    obtain ⟨binv, _⟩ := btNew_inv W.env.primary W.env.secondary W.env.leaves r.pos.raw stop hOK.prim hOK.sec hOK.leaves h0
    have bsh := btNew_shape W.env.primary W.env.secondary W.env.leaves r.pos.raw stop hOK.leaves h0 hss
    unfold continueLeafFetch
    simp only
    have hloop := leafLoop_ok W (k0, v0) (itFuel (BtIt.new W.env.primary W.env.secondary W.env.leaves r.pos.raw stop))
      _ _ binv bsh (by rw [itFuel_eq]; omega) hlf
    obtain ⟨r', h1, h2, h3, h4, h5, h6, h7, _⟩ := leafLoop_finish W ps r k0 v0 ht hu hloop (neededOf_new W r.pos.raw stop)
    refine ⟨r', ?_, h2, h3, h4, h5, h6, h7⟩
    rw [← h1]
    generalize leafLoop W.env.vh _ _ _ = res
    cases res with
    | panic m => rfl
    | err e => rfl
    | ok x => cases x <;> rfl

/-- what providing the leaf an iterator at rest is blocked on gives -/
theorem rest_provide (W : World Node VH V) {it : BtIt V} {needed : List Nat} {l : Nat}
    (hr : ItRest W it needed (some (.leaf l))) :
    ∃ leaf lf, W.env.leaves[l]? = some leaf ∧ provideLeaf it.leaf leaf = .ok lf ∧ BtInv { it with leaf := lf } ∧
      Shape W.env.leaves lf ∧ ({ it with leaf := lf } : BtIt V).spec = it.spec ∧
      needed = needList (W.env.leaves.length - lf.pending.length) (tw { it with leaf := lf }).length ∧
      lf.pending.length + 1 = it.leaf.pending.length := by
  obtain ⟨inv, sh, hb, hn⟩ := hr
  simp only at hn
  obtain ⟨hl, hneed⟩ := hn
  obtain ⟨leaf, rest, hp, hbs⟩ := sh.blk hb
  obtain ⟨hpe, hpr⟩ := provideLeaf_head sh hb hp
  obtain ⟨lf, hprov, binv, hspec, _⟩ := btinv_provide inv hb
  obtain ⟨sh', hpend', hstop'⟩ := hpr lf hprov
  refine ⟨leaf, lf, ?_, by rw [hpe]; exact hprov, binv, sh', hspec, ?_, by rw [hpend', hp]; simp⟩
  · rw [hl]; exact pending_head_index sh hp
  · rw [hneed, tw_cons hp hbs]
    obtain ⟨pre, hpre⟩ := sh.suffix
    have hN : W.env.leaves.length = pre.length + (rest.length + 1) := by rw [hpre, hp]; simp
    have e1 : W.env.leaves.length - it.leaf.pending.length + 1 = W.env.leaves.length - lf.pending.length := by
      rw [hpend', hp, List.length_cons]; omega
    rw [e1]
    unfold tw
    simp only
    rw [hpend', hstop']
    simp

/-- **the answer to the leaf request of a single-leaf fetch** -/
theorem leafFetch_supply_ok (W : World Node VH V) (ps : PageSet Node) (r : Req Node VH V) (ht : Trail W r)
    {dels : List Key} {it : BtIt V} {needed : List Nat} (hst : r.st = .fetchingLeaf dels it needed) {l : Nat}
    (hok : StOK W ps r (some (.leaf l))) :
    ∃ leaf, W.env.leaves[l]? = some leaf ∧ ∃ r', continueLeafFetch W.env r (some leaf) = .ok r' ∧ r'.key = r.key ∧
      r'.pos = r.pos ∧ r'.pageId = r.pageId ∧ r'.sibs = r.sibs ∧ r'.ios = r.ios ∧ StOK W ps r' none ∧
      (r'.isCompleted = true ∨ ∃ n, fetchPend r'.st = some n ∧ fetchPend r.st = some (n + 1)) := by
  unfold StOK at hok
  rw [hst] at hok
  obtain ⟨k0, v0, hu, hf, hrest⟩ := hok
  obtain ⟨leaf, lf, hleaf, hprov, binv, sh, hspec, hneed, hplen⟩ := rest_provide W hrest
  refine ⟨leaf, hleaf, ?_⟩
  unfold continueLeafFetch
  rw [hst]
  simp only [hprov]
  have hloop := leafLoop_ok W (k0, v0) (itFuel { it with leaf := lf }) { it with leaf := lf } dels binv sh
    (by rw [itFuel_eq]; omega) (by rw [hspec]; exact hf)
  obtain ⟨r', h1, h2, h3, h4, h5, h6, h7, h8⟩ := leafLoop_finish W ps r k0 v0 ht hu hloop hneed
  refine ⟨r', ?_, h2, h3, h4, h5, h6, h7, ?_⟩
  rotate_left
  · rcases h8 with h8 | h8
    · exact .inl h8
    · exact .inr ⟨lf.pending.length, h8, by first | (rw [hst]; simp only [fetchPend]; rw [← hplen]) | (simp only [fetchPend]; rw [← hplen])⟩
  rw [← h1]
  generalize leafLoop W.env.vh _ _ _ = res
  cases res with
  | panic m => rfl
  | err e => rfl
  | ok x => cases x <;> rfl

/-! ### the fetch of the leaves of an elided subtree -/

/-- the facts a leaves fetch carries (`StOK` without the at-rest part) -/
structure LeavesFacts (W : World Node VH V) (r : Req Node VH V) (page : MPage Node) (range : Key × Option Key)
    (it : BtIt V) (coll : KVL VH) : Prop where
  pos : 0 < r.pos.depth
  six : r.pos.depth % 6 = 0
  two : 2 ≤ (under (r.key.take r.pos.depth) W.view).length
  small : (under (r.key.take r.pos.depth) W.view).length < THRESHOLD
  node : page.node r.pos.nodeIndex = some (specNode W.H W.view (r.key.take r.pos.depth))
  rng : ∀ k : Key, k.length = KEY_BITS → (inRange range.1 range.2 k = true ↔ (r.key.take r.pos.depth).isPrefixOf k = true)
  coll : coll ++ vhMap W.env.vh it.spec =
      vhMap W.env.vh ((baseOf W.env.primary W.env.secondary W.env.leaves).filter (fun e => inRange range.1 range.2 e.1))

/-- **`continue_leaves_fetch` from the collecting loop on**: blocked again with the invariant kept, or the view's leaves of
the range go to `reconstruct_pages` and the request seeks on with the child page in the page set -/
theorem leavesCore_ok (W : World Node VH V) (hOK : W.OK) (ps : PageSet Node) (hps : PSInv W ps) (r : Req Node VH V)
    (ht : Trail W r) (hpid : PidOK r) {page : MPage Node} {range : Key × Option Key} {it : BtIt V} {needed : List Nat}
    {coll : KVL VH} (hst : r.st = .fetchingLeaves page range it needed coll) (hf : LeavesFacts W r page range it coll)
    (inv : BtInv it) (sh : Shape W.env.leaves it.leaf)
    (hneed : needed = needList (W.env.leaves.length - it.leaf.pending.length) (tw it).length) :
    ∃ ps' r', continueLeavesFetch W.env ps r none = .ok (ps', r') ∧ r'.key = r.key ∧ r'.pos = r.pos ∧
      r'.pageId = r.pageId ∧ r'.sibs = r.sibs ∧ r'.ios = r.ios ∧ PSInv W ps' ∧ Ext ps ps' ∧ StOK W ps' r' none ∧
      (r'.st = .seeking ∨ fetchPend r'.st = some it.leaf.pending.length) := by
  unfold continueLeavesFetch
  rw [hst]
  simp only
  have hloop := collLoop_ok W _ (itFuel it) it coll inv sh (by rw [itFuel_eq]; omega) hf.coll
  generalize collLoop W.env.vh (itFuel it) it coll = res at hloop ⊢
  cases hloop with
  | @blocked it' coll' i1 s1 hb hpend hstop hc hm =>
    refine ⟨ps, _, rfl, rfl, rfl, rfl, rfl, rfl, hps, ext_refl ps, ?_, .inr (by simp only [fetchPend]; rw [hpend])⟩
    unfold StOK
    simp only
    refine ⟨hf.pos, hf.six, hf.two, hf.small, hf.node, hf.rng, hc, i1, s1, hb, ?_⟩
    simp only
    rw [hneed]
    unfold tw
    rw [hpend, hstop]
  | finished =>
    simp only
    have hd : r.pos.depth ≤ KEY_BITS := ht.wf.depthLe
    have hsd : KSorted (vhMap W.env.vh ((baseOf W.env.primary W.env.secondary W.env.leaves).filter
        (fun e => inRange range.1 range.2 e.1))) := ksorted_vhMap _ (ksorted_filter (baseOf_sorted W hOK) _)
    have hso : OvSorted (ovRange W.env range.1 range.2) := List.Pairwise.filter _ hOK.ov
    have hview := view_range W hOK (r.key.take r.pos.depth) (by rw [ht.takeLen]; exact hd) range.1 range.2 hf.rng
    rw [leavesMerge_eq_kvApply hsd hso, ← hview]
    have hne : r.pos.depth ≠ 0 := by have := hf.pos; omega
    unfold PidOK at hpid
    rw [if_neg hne] at hpid
    rw [hpid]
    simp only
    have hpath := ht.path
    have hpne : r.pos.path ≠ [] := by
      rw [hpath]; intro e
      have := ht.takeLen
      rw [e] at this; simp at this; omega
    obtain ⟨rc1, rc2⟩ := hOK.recon page (specPage (r.key.take r.pos.depth)) r.pos ps ht.wf hpne hf.six (by rw [hpath])
    rw [hpath] at rc1 rc2
    cases hc : ps.contains (sextetsOf (r.key.take r.pos.depth)) with
    | true =>
      rw [rc1 hc]
      refine ⟨ps, _, rfl, rfl, rfl, rfl, rfl, rfl, hps, ext_refl ps, ?_, .inl rfl⟩
      unfold StOK
      simp only
      exact ⟨hf.six, hf.two, .inl (contains_get hc), .inl trivial⟩
    | false =>
      obtain ⟨ps', e1, e2, e3, e4⟩ := rc2 hc hf.two hf.small hf.node hps
      rw [e1]
      refine ⟨ps', _, rfl, rfl, rfl, rfl, rfl, rfl, e2, e3, ?_, .inl rfl⟩
      unfold StOK
      simp only
      exact ⟨hf.six, hf.two, .inl e4, .inl trivial⟩

/-- **the answer to a leaf request of a leaves fetch** -/
theorem leavesFetch_supply_ok (W : World Node VH V) (hOK : W.OK) (ps : PageSet Node) (hps : PSInv W ps) (r : Req Node VH V)
    (ht : Trail W r) (hpid : PidOK r) {page : MPage Node} {range : Key × Option Key} {it : BtIt V} {needed : List Nat}
    {coll : KVL VH} (hst : r.st = .fetchingLeaves page range it needed coll) {l : Nat}
    (hok : StOK W ps r (some (.leaf l))) :
    ∃ leaf, W.env.leaves[l]? = some leaf ∧ ∃ ps' r', continueLeavesFetch W.env ps r (some leaf) = .ok (ps', r') ∧
      r'.key = r.key ∧ r'.pos = r.pos ∧ r'.pageId = r.pageId ∧ r'.sibs = r.sibs ∧ r'.ios = r.ios ∧ PSInv W ps' ∧
      Ext ps ps' ∧ StOK W ps' r' none ∧
      (r'.st = .seeking ∨ ∃ n, fetchPend r'.st = some n ∧ fetchPend r.st = some (n + 1)) := by
  unfold StOK at hok
  rw [hst] at hok
  obtain ⟨f1, f2, f3, f4, f5, f6, f7, hrest⟩ := hok
  obtain ⟨leaf, lf, hleaf, hprov, binv, sh, hspec, hneed, hplen⟩ := rest_provide W hrest
  refine ⟨leaf, hleaf, ?_⟩
  have hstep : continueLeavesFetch W.env ps r (some leaf) =
      continueLeavesFetch W.env ps { r with st := .fetchingLeaves page range { it with leaf := lf } needed coll } none := by
    unfold continueLeavesFetch
    rw [hst]
    simp only [hprov]
  rw [hstep]
  have ht' : Trail W { r with st := .fetchingLeaves page range { it with leaf := lf } needed coll } :=
    ⟨ht.klen, ht.wf, ht.raw, ht.through, ht.sibs⟩
  obtain ⟨ps', r', g1, g2, g3, g4, g5, g6, g7, g8, g9, g10⟩ := leavesCore_ok W hOK ps hps _ ht' hpid rfl
    ⟨f1, f2, f3, f4, f5, f6, by rw [hspec]; exact f7⟩ binv sh hneed
  refine ⟨ps', r', g1, g2, g3, g4, g5, g6, g7, g8, g9, ?_⟩
  rcases g10 with h | h
  · exact .inl h
  · exact .inr ⟨lf.pending.length, h, by first | (rw [hst]; simp only [fetchPend]; rw [← hplen]) | (simp only [fetchPend]; rw [← hplen])⟩

end Nomt.Seek
