import NomtModel.Store.SegInv
/-!
# Recovery whose cut is durable while unlinks of dead segments are lost

`open` issues no directory fsync.  After a power loss the cut of the head (fsynced) can be durable while a suffix of
the unlinks is not: the directory is `P' ++ D ++ [y cut after e] ++ T'` with `P'` a suffix of the dead files below the
live range and `T'` a prefix of the dead files above it — no longer consecutive over the whole directory (the records
of `T'` do not continue the cut head).  `open_ok_tail`: `open` on a recoverable directory followed by arbitrary
*scannable* dead files with records beyond `e` behaves as on the recoverable part and unlinks the extra files;
`lost_unlinks_recover`: so every such image recovers to the same records.
-/
namespace Nomt.Seg

/-- the computation of `open` once the scan has found the live segments -/
theorem open_compute (maxSeg s e i0 ny : Nat) (d P D T : Dir) (y : Nat × SegFile) (σ' : RState)
    (hs : 0 < s) (he : 0 < e) (hi : 0 < i0) (hseg : SegIdsFrom i0 d) (hd : d = P ++ (D ++ [y]) ++ T)
    (hsc : scanAll s e 0 d {} = .ok (σ', d.map metaOf)) (hls' : σ'.ls = some P.length)
    (hle' : σ'.le = some (P ++ D).length) (hyids : IdsFrom ny y.2.recs) (hny : ny ≤ e)
    (hey : e < ny + y.2.recs.length) :
    (openM maxSeg s e d).effs =
        P.map (fun x => FsEff.unlink x.1) ++ T.reverse.map (fun x => FsEff.unlink x.1) ++
          [.setLen y.1 (recsSize (y.2.recs.take (e - ny + 1))), .fsync y.1] ∧
      (openM maxSeg s e d).dir = liveDir D y (e - ny + 1) ∧
      (openM maxSeg s e d).out =
        .ok (⟨maxSeg, s, e, setLast (fun m => { m with max := e }) ((D ++ [y]).map metaOf),
              some (recsSize (y.2.recs.take (e - ny + 1)))⟩, σ'.out) := by
  have hs0 : s ≠ 0 := by omega
  have he0 : e ≠ 0 := by omega
  have hsort : sortById d = d := sortById_of_from d i0 hseg
  have hchk : checkIds none (d.map (·.1)) = .ok () := checkIds_from d i0 none hi hseg (Or.inl rfl)
  have hmetas : d.map metaOf = (P.map metaOf ++ (D ++ [y]).map metaOf) ++ T.map metaOf := by
    rw [hd]; simp
  have hsplit : splitLive σ'.ls σ'.le (d.map metaOf) =
      .ok (P.map metaOf ++ (T.map metaOf).reverse, (D ++ [y]).map metaOf) := by
    rw [hls', hle', hmetas]
    have hlen : (P.map metaOf ++ (D ++ [y]).map metaOf).length = (P ++ D).length + 1 := by
      simp only [List.length_append, List.length_map, List.length_cons, List.length_nil]; omega
    simp only [splitLive]
    rw [List.drop_left' hlen, List.take_left' hlen, List.take_left' (by simp), List.drop_left' (by simp)]
  have heffs1 : (P.map metaOf ++ (T.map metaOf).reverse).map (fun m => FsEff.unlink m.id) =
      (P.map (·.1)).map FsEff.unlink ++ (T.reverse.map (·.1)).map FsEff.unlink := by
    simp [metaOf, List.map_reverse, Function.comp_def]
  have hsegLT : SegIdsFrom (i0 + P.length) ((D ++ [y]) ++ T) := by
    have := (segIdsFrom_append P ((D ++ [y]) ++ T) i0).mp (by rw [hd] at hseg; simpa using hseg)
    exact this.2
  have hsegL : SegIdsFrom (i0 + P.length) (D ++ [y]) := ((segIdsFrom_append _ T _).mp hsegLT).1
  have hd1 : applyEffs d ((P.map (·.1)).map FsEff.unlink ++ (T.reverse.map (·.1)).map FsEff.unlink) = D ++ [y] := by
    rw [applyEffs_append, applyEffs_unlinks, applyEffs_unlinks]
    have h1 : d.filter (fun x => decide (x.1 ∉ P.map (·.1))) = (D ++ [y]) ++ T := by
      have := filter_drop_left i0 P ((D ++ [y]) ++ T) (by rw [hd] at hseg; simpa using hseg)
      rw [hd]; simpa using this
    rw [h1]
    exact filter_drop_right (i0 + P.length) (D ++ [y]) T _ (by intro j; simp) hsegLT
  have hlast' : ((D ++ [y]).map metaOf).getLast? = some (metaOf y) := by simp
  have hlook : lookup (D ++ [y]) (metaOf y).id = some y.2 := lookup_last _ D y hsegL
  have hm : e - ny + 1 ≤ y.2.recs.length := by omega
  have htr : truncateHead y.2 e = .ok (recsSize (y.2.recs.take (e - ny + 1))) := by
    have := findEnd_idsFrom y.2.recs ny e 0 hyids hny (by omega)
    simp [truncateHead, scanRecordEnd, this]
  have hfinal : applyEffs (D ++ [y]) [FsEff.setLen (metaOf y).id (recsSize (y.2.recs.take (e - ny + 1))), .fsync (metaOf y).id]
      = liveDir D y (e - ny + 1) := by
    simp only [applyEffs, List.foldl_cons, List.foldl_nil, applyEff]
    have : (metaOf y).id = y.1 := rfl
    rw [this, updFile_last _ D y _ hsegL, setLen_at_boundary y.2 _ hm]
    rfl
  have hrange : ¬ ((s = 0) ≠ (e = 0)) := by simp [hs0, he0]
  unfold openM openWith
  rw [if_neg hrange]
  simp only [hsort, hchk, hs0, if_false, hsc, hls', hle', Option.isNone_some,
    Bool.false_eq_true, and_false, ne_eq, not_false_eq_true, true_and]
  rw [← hls', ← hle', hsplit]
  simp only [heffs1, hd1, hlast', hlook, htr, hfinal]
  simp [metaOf, Function.comp_def]

/-- the shape `open` finds in a recoverable directory, with the values of `live_segment_start / _end` -/
theorem open_shape (s e i0 a : Nat) (d : Dir) (R : Recoverable s e i0 a d) :
    ∃ P D T y ny, d = P ++ (D ++ [y]) ++ T ∧
      (∀ r ∈ flatRecs P, r.id < s) ∧ (∀ r ∈ flatRecs T, e < r.id) ∧
      ny = a + (flatRecs (P ++ D)).length ∧ ny ≤ e ∧ e < ny + y.2.recs.length ∧ IdsFrom ny y.2.recs ∧
      firstIdx (hasGe s) 0 d = some P.length ∧ firstIdx (hasGe e) 0 d = some (P ++ D).length := by
  have hrec := R.hrec
  have hse := R.hse
  have hflat := recsFrom_flat e d a hrec
  obtain ⟨re, hre, hree⟩ := idsFrom_get _ a e hflat R.hae R.heb
  have hex : ∃ x ∈ d, hasGe e x.2 = true := by
    simp only [flatRecs, List.mem_flatMap] at hre
    obtain ⟨x, hx, hrx⟩ := hre
    exact ⟨x, hx, by simp only [hasGe, List.any_eq_true, decide_eq_true_eq]; exact ⟨re, hrx, by omega⟩⟩
  obtain ⟨P, Lv, T, x, Lv', y, hd, hLv, hlast, hP, hx, hD1, hy⟩ := decomp s e hse d hex
  obtain ⟨D, hD⟩ := List.getLast?_eq_some_iff.mp hlast
  subst hD
  have hdl : (D ++ [y]).dropLast = D := by simp
  rw [hdl] at hD1
  have hd' : d = (P ++ D) ++ (y :: T) := by rw [hd]; simp
  obtain ⟨hAt, hAr, hBr⟩ := recsFrom_append e (P ++ D) (y :: T) a (hd' ▸ hrec) (by simp)
  obtain ⟨hyids, _, _, hTr⟩ := hBr
  have hAflat := recsFrom_flat e _ a hAr
  have hAlt : ∀ r ∈ flatRecs (P ++ D), r.id < e := hasGe_false_flat e _ hD1
  have hny : a + (flatRecs (P ++ D)).length ≤ e := by
    by_cases h0 : (flatRecs (P ++ D)).length = 0
    · have := R.hae; omega
    · obtain ⟨r, hr, hrid⟩ := idsFrom_get _ a (a + (flatRecs (P ++ D)).length - 1) hAflat (by omega) (by omega)
      have := hAlt r hr
      omega
  have hey : e < a + (flatRecs (P ++ D)).length + y.2.recs.length := by
    simp only [hasGe, List.any_eq_true, decide_eq_true_eq] at hy
    obtain ⟨r, hr, hle⟩ := hy
    have := idsFrom_mem _ _ hyids r hr
    omega
  have hTdead : ∀ r ∈ flatRecs T, e < r.id := by
    intro r hr
    have := idsFrom_mem _ _ (recsFrom_flat e T _ hTr) r hr
    omega
  refine ⟨P, D, T, y, _, hd, hasGe_false_flat s P hP, hTdead, rfl, hny, hey, hyids, ?_, ?_⟩
  · rw [hd, hLv]
    have : P ++ x :: Lv' ++ T = P ++ x :: (Lv' ++ T) := by simp
    rw [this, firstIdx_at (hasGe s) P x _ 0 hP hx]; simp
  · rw [hd', firstIdx_at (hasGe e) (P ++ D) y T 0 hD1 hy]; simp

theorem scanAll_append (s e : Nat) : ∀ (A B : Dir) (idx : Nat) (σ σ1 σ2 : RState) (m1 m2 : List SegMeta),
    scanAll s e idx A σ = .ok (σ1, m1) → scanAll s e (idx + A.length) B σ1 = .ok (σ2, m2) →
    scanAll s e idx (A ++ B) σ = .ok (σ2, m1 ++ m2)
  | [], B, idx, σ, σ1, σ2, m1, m2, h1, h2 => by
    simp only [scanAll, Except.ok.injEq, Prod.mk.injEq] at h1
    obtain ⟨rfl, rfl⟩ := h1
    simpa using h2
  | (id, f) :: A, B, idx, σ, σ1, σ2, m1, m2, h1, h2 => by
    simp only [scanAll] at h1
    cases hseg : scanSegment s e idx f σ with
    | error x => rw [hseg] at h1; simp at h1
    | ok r =>
      obtain ⟨σa, mn, mx⟩ := r
      rw [hseg] at h1
      simp only at h1
      cases hrest : scanAll s e (idx + 1) A σa with
      | error x => rw [hrest] at h1; simp at h1
      | ok r2 =>
        obtain ⟨σb, ms⟩ := r2
        rw [hrest] at h1
        simp only [Except.ok.injEq, Prod.mk.injEq] at h1
        obtain ⟨rfl, rfl⟩ := h1
        have h2' : scanAll s e (idx + 1 + A.length) B σb = .ok (σ2, m2) := by
          rw [show idx + 1 + A.length = idx + (A.length + 1) by omega]; simpa using h2
        have ih := scanAll_append s e A B (idx + 1) σa σb σ2 ms m2 hrest h2'
        simp only [List.cons_append, scanAll, hseg, ih, List.cons_append]

/-- dead files above the live range: every file holds consecutive records beyond `e`, a torn tail keeps the header -/
def TailOK (e : Nat) (X : Dir) : Prop :=
  ∀ x ∈ X, ∃ nx, e < nx ∧ IdsFrom nx x.2.recs ∧ TornOK e (nx + x.2.recs.length) x.2.torn

/-- once the live end has been found, scannable files beyond `e` change nothing -/
theorem scanAll_tail (s e : Nat) (hs : 0 < s) (hse : s ≤ e) : ∀ (X : Dir) (idx i j : Nat) (out : List Rec), TailOK e X →
    scanAll s e idx X ⟨some i, some j, out⟩ = .ok (⟨some i, some j, out⟩, X.map metaOf)
  | [], _, _, _, _, _ => rfl
  | (id, f) :: X, idx, i, j, out, h => by
    obtain ⟨nx, hnx, hids, htorn⟩ := h (id, f) (by simp)
    obtain ⟨σ1, h1, _, hout, hls, hle⟩ := scanSegment_ok s e idx hs hse id f nx ⟨some i, some j, out⟩ hids htorn
      (Or.inr (Or.inr ⟨rfl, rfl, hnx⟩))
    have hdead : f.recs.filter (live s e) = [] := filter_live_nil_gt s e _ (by
      intro r hr
      have := idsFrom_mem _ _ hids r hr
      omega)
    have hσ1 : σ1 = ⟨some i, some j, out⟩ := by
      cases σ1 with
      | mk l1 l2 o1 =>
        simp only [orIdx, Option.isSome_some, if_true] at hls hle
        simp only [hdead, List.append_nil] at hout
        rw [hls, hle, hout]
    rw [hσ1] at h1
    have ih := scanAll_tail s e hs hse X (idx + 1) i j out (fun x hx => h x (by simp [hx]))
    simp only [scanAll, h1, ih, List.map_cons]
    rfl

theorem open_ok_tail (maxSeg s e i0 a : Nat) (G X : Dir) (R : Recoverable s e i0 a G)
    (hseg : SegIdsFrom i0 (G ++ X)) (hX : TailOK e X) :
    ∃ G', (openM maxSeg s e G).dir = G' ∧ (openM maxSeg s e (G ++ X)).dir = G' ∧
      ∃ L, (openM maxSeg s e (G ++ X)).out = .ok (L, liveOf s e G) := by
  obtain ⟨P, D, T, y, ny, hd, _, _, hny, hnye, hey, hyids, hfs, hfe⟩ := open_shape s e i0 a G R
  obtain ⟨σ1, hsc1, hst1, hout1, hls1, hle1⟩ := scanAll_ok s e R.hs R.hse G 0 a {} R.hrec (Or.inl ⟨rfl, rfl, R.hae⟩)
  have hls1' : σ1.ls = some P.length := by rw [hls1, hfs]; rfl
  have hle1' : σ1.le = some (P ++ D).length := by rw [hle1, hfe]; rfl
  have hσ1 : σ1 = ⟨some P.length, some (P ++ D).length, σ1.out⟩ := by
    cases σ1; simp only at hls1' hle1'; rw [hls1', hle1']
  have hsc2 : scanAll s e (0 + G.length) X σ1 = .ok (σ1, X.map metaOf) := by
    rw [hσ1]; exact scanAll_tail s e R.hs R.hse X _ _ _ _ hX
  have hsc : scanAll s e 0 (G ++ X) {} = .ok (σ1, (G ++ X).map metaOf) := by
    rw [List.map_append]; exact scanAll_append s e G X 0 {} σ1 σ1 _ _ hsc1 hsc2
  have he0 : 0 < e := by have := R.hs; have := R.hse; omega
  have hdX : G ++ X = P ++ (D ++ [y]) ++ (T ++ X) := by rw [hd]; simp
  obtain ⟨_, hdir2, hout2⟩ := open_compute maxSeg s e i0 ny (G ++ X) P D (T ++ X) y σ1 R.hs he0 R.hi hseg hdX hsc
    hls1' hle1' hyids hnye hey
  obtain ⟨_, hdir1, _⟩ := open_compute maxSeg s e i0 ny G P D T y σ1 R.hs he0 R.hi R.hseg hd hsc1
    hls1' hle1' hyids hnye hey
  refine ⟨liveDir D y (e - ny + 1), hdir1, hdir2, ⟨maxSeg, s, e, setLast (fun m => { m with max := e }) ((D ++ [y]).map metaOf),
    some (recsSize (y.2.recs.take (e - ny + 1)))⟩, ?_⟩
  rw [hout2, hout1]
  rfl

theorem tailOK_of_recsFrom (e : Nat) : ∀ (T : Dir) (nx : Nat), RecsFrom e nx T → e < nx → TailOK e T
  | [], _, _, _ => by intro x hx; cases hx
  | x :: T, nx, h, hnx => by
    obtain ⟨h1, _, h3, h4⟩ := h
    intro z hz
    rcases List.mem_cons.mp hz with rfl | hz
    · exact ⟨nx, hnx, h1, h3⟩
    · exact tailOK_of_recsFrom e T _ h4 (by omega) z hz

theorem tailOK_take (e : Nat) (T : Dir) (t : Nat) (h : TailOK e T) : TailOK e (T.take t) :=
  fun x hx => h x (List.mem_of_mem_take hx)

/-- **power loss after (or inside) a recovery**: the cut of the head is durable, a suffix of the unlinks is not — some
dead files below the live range (`P.drop j`) and / or above it (`T.take t`) are back next to the cut head.  `open(s, e)`
still succeeds and returns the live records of the original directory. -/
theorem lost_unlinks_recover (maxSeg s e i0 a : Nat) (d : Dir) (R : Recoverable s e i0 a d) :
    ∃ P D T y m, d = P ++ (D ++ [y]) ++ T ∧ (openM maxSeg s e d).dir = liveDir D y m ∧
      (openM maxSeg s e d).effs = P.map (fun x => FsEff.unlink x.1) ++ T.reverse.map (fun x => FsEff.unlink x.1) ++
        [.setLen y.1 (recsSize (y.2.recs.take m)), .fsync y.1] ∧
      ∀ j t, ∃ L, (openM maxSeg s e ((P.drop j ++ liveDir D y m) ++ T.take t)).out = .ok (L, liveOf s e d) := by
  obtain ⟨P, D, T, y, ny, hd, hPdead, hTdead, hny, hnye, hey, heffs, hdir, _⟩ :=
    open_ok maxSeg s e i0 a d R.hs R.hse R.hi R.hseg R.hrec R.hae R.heb
  refine ⟨P, D, T, y, e - ny + 1, hd, hdir, heffs, ?_⟩
  intro j t
  have hflatPD : (flatRecs (P ++ D)).length = (flatRecs P).length + (flatRecs D).length := by
    rw [flatRecs_append, List.length_append]
  have hP : P = P.take j ++ P.drop j := (List.take_append_drop j P).symm
  have hle := flatRecs_take_le P j
  have hflatP : (flatRecs P).length = (flatRecs (P.take j)).length + (flatRecs (P.drop j)).length := by
    conv => lhs; rw [hP, flatRecs_append, List.length_append]
  -- the part that is still consecutive: `P.drop j ++ D ++ [y]`, then cut
  have hd2 : d = P.take j ++ ((P.drop j ++ D) ++ [y]) ++ T := by
    calc d = P ++ (D ++ [y]) ++ T := hd
      _ = (P.take j ++ P.drop j) ++ (D ++ [y]) ++ T := by rw [← hP]
      _ = _ := by simp only [List.append_assoc]
  have hflatB : (flatRecs ((P.drop j ++ D) ++ [y])).length = (flatRecs (P.drop j)).length + (flatRecs D).length + y.2.recs.length := by
    rw [flatRecs_append, List.length_append, flatRecs_single, flatRecs_append, List.length_append]
  obtain ⟨R1, hl1⟩ := trim s e i0 a d (P.take j) ((P.drop j ++ D) ++ [y]) T R hd2
    (fun r hr => hPdead r (mem_flatRecs_take P j r hr)) hTdead (by omega) (by rw [hflatB]; omega)
  have hflatM : (flatRecs (P.drop j ++ D)).length = (flatRecs (P.drop j)).length + (flatRecs D).length := by
    rw [flatRecs_append, List.length_append]
  obtain ⟨R2, hl2⟩ := cutLast s e (i0 + (P.take j).length) (a + (flatRecs (P.take j)).length) (P.drop j ++ D) y R1
    (by rw [hflatM]; omega)
  have hmeq : e - (a + (flatRecs (P.take j)).length + (flatRecs (P.drop j ++ D)).length) + 1 = e - ny + 1 := by
    rw [hflatM]; omega
  rw [hmeq] at R2 hl2
  have hG : liveDir (P.drop j ++ D) y (e - ny + 1) = P.drop j ++ liveDir D y (e - ny + 1) := by
    simp [liveDir]
  rw [hG] at R2 hl2
  -- the files that came back above the head
  have hrecT : RecsFrom e (ny + y.2.recs.length) T := by
    have hd' : d = (P ++ D) ++ (y :: T) := by rw [hd]; simp
    have := (recsFrom_append e (P ++ D) (y :: T) a (hd' ▸ R.hrec) (by simp)).2.2
    rw [← hny] at this
    exact this.2.2.2
  have hTail : TailOK e (T.take t) := tailOK_take e T t (tailOK_of_recsFrom e T _ hrecT (by omega))
  have hsegAll : SegIdsFrom (i0 + (P.take j).length) ((P.drop j ++ liveDir D y (e - ny + 1)) ++ T.take t) := by
    have h0 := R.hseg
    rw [hd2] at h0
    have hT : T = T.take t ++ T.drop t := (List.take_append_drop t T).symm
    rw [hT, List.append_assoc (P.take j), segIdsFrom_append] at h0
    have h1 := h0.2
    rw [← List.append_assoc, segIdsFrom_append] at h1
    have h2 := h1.1
    -- the cut file keeps its id
    rw [segIdsFrom_append] at h2 ⊢
    refine ⟨?_, ?_⟩
    · have := h2.1
      rw [← hG]
      unfold liveDir
      rw [segIdsFrom_append] at this ⊢
      exact ⟨this.1, this.2.1, trivial⟩
    · have hlen : (P.drop j ++ liveDir D y (e - ny + 1)).length = ((P.drop j ++ D) ++ [y]).length := by
        simp [liveDir]
      rw [hlen]; exact h2.2
  obtain ⟨G', _, _, L, hout⟩ := open_ok_tail maxSeg s e _ _ (P.drop j ++ liveDir D y (e - ny + 1)) (T.take t) R2 hsegAll hTail
  exact ⟨L, by rw [hout, hl2, hl1]⟩

end Nomt.Seg
