import NomtModel.Generated.Constants
import NomtModel.Store.LeafUpdModel
/-!
# The branch stage of the B-tree update: mirror of `BranchUpdater`, `BranchOpsTracker`, `BranchGauge`, `build_branch`
(`nomt/src/beatree/ops/update/branch_updater.rs`, `branch_ops.rs`) and of the loop of `branch_stage.rs::run_worker`
that drives them (one worker over the whole level).

A branch node is its decoded content (`Node`): the header fields `prefix_len`, `prefix_compressed` and per item the
separator key, the node pointer and the STORED bit length of the separator (the difference of two cells: the updater
reads it through `separator_range_len`, and `push_chunk` derives the new cells from the old ones, so it is part of the
state).  Keys are natural numbers (the big-endian value of the 32 key bytes).  `prefix_len` / `separator_len` of
`bit_ops.rs` are parameters (`KF`; the real ones, mirrored in `Store/BitOps.lean`, are plugged in by the driver and by
`Store/BranchUpdKeys.lean`); `top k n` = the first `n` bits of a key.

Conventions of the mirror
* `Vec<BranchOp>` + a position index is a zipper (`done`, `todo`): `ops[pos]` is the head of `todo`.
* `none` = the Rust code panics (debug build: arithmetic underflow, index out of bounds, `unwrap` on `None`, `assert!`,
  `u16::try_from(..).unwrap()`, the explicit `panic!`s) — or a loop mirror ran out of fuel (proved impossible), or the
  builder was handed something it silently mis-encodes: a number of pushes different from `n`, a `push` / `push_chunk` of
  a prefix-compressed separator whose first `prefix_len` bits are not the node's prefix, a `push_chunk` of a separator that
  is not prefix-compressed in the base.  An OVER-FULL node (`Node.body > BODY`: separators and node pointers overlap in
  the page) is NOT `none`: the builder does not notice, and neither does the mirror — `T1_branch_sizes_bounded` is the
  statement that it does not happen.
* `find_key_pos` is a binary search; on ascending distinct keys its answer is determined (`(true, i)` for the match,
  `(false, partition point)` otherwise) and that is what `findKeyPos` computes (after the two prefix shortcuts).
-/
namespace Nomt.BranchUpd

/-! ## constants (`beatree/branch/node.rs`, `beatree/ops/update/mod.rs`) -/

/-- `BRANCH_NODE_BODY_SIZE` -/
def BODY : Nat := Nomt.Gen.BRANCH_NODE_BODY_SIZE
/-- `BRANCH_MERGE_THRESHOLD = BRANCH_NODE_BODY_SIZE / 2` -/
def MERGE : Nat := BODY / 2
/-- `BRANCH_BULK_SPLIT_THRESHOLD = (BRANCH_NODE_BODY_SIZE * 9) / 5` -/
def BULK_THRESHOLD : Nat := (BODY * 9) / 5
/-- `BRANCH_BULK_SPLIT_TARGET = (BRANCH_NODE_BODY_SIZE * 3) / 4` -/
def BULK_TARGET : Nat := (BODY * 3) / 4

theorem BODY_eq : BODY = 4086 := by decide
theorem MERGE_eq : MERGE = 2043 := by decide
theorem BULK_THRESHOLD_eq : BULK_THRESHOLD = 7354 := by decide
theorem BULK_TARGET_eq : BULK_TARGET = 3064 := by decide

/-! ## data -/

/-- `bit_ops::prefix_len`, `bit_ops::separator_len` -/
structure KF where
  pl : Nat → Nat → Nat
  sl : Nat → Nat
  /-- `true`: the code (`short_first_separator` of `branch_ops.rs`, the repair of finding F22, commit `d4be933`): the
  first separator of the base, when it is shorter than the base's prefix (stored with 0 bits), never becomes part of a
  `KeepChunk` or an `Update`.  `false`: the code before that repair — `push_chunk` of the builder stored such a separator
  with `0 + (old prefix_len - new prefix_len)` bits under a shorter prefix although the gauge counted
  `separator_len - new prefix_len` (kept for the kernel-checked counterexample `T1_F22_overfull_counterexample`) -/
  canon : Bool := false
  /-- `0`: the code.  Two one-line changes of the code that the theorems must exclude (kernel-checked counterexamples in
  `Props/C01_BranchUpdater.lean`): `1` — `run_worker` merges once (`if let NeedsMerge` + one more `digest`) instead of
  `while let NeedsMerge`; `2` — `extract_ops_until` turns an `Update` that would overflow the node into an `Insert` carrying
  the page number stored in the base instead of the new one -/
  seeded : Nat := 0

/-- the first `n` bits of a 256-bit key -/
def top (k n : Nat) : Nat := k / 2 ^ (256 - n)

structure Item where
  key : Nat
  pn : Nat
  /-- stored bit length of the separator (`cell(i) - cell(i-1)`) -/
  slen : Nat
deriving DecidableEq, Repr

structure Node where
  /-- `prefix_len` -/
  pl : Nat
  /-- `prefix_compressed` -/
  pc : Nat
  items : List Item
deriving DecidableEq, Repr

def Node.n (nd : Node) : Nat := nd.items.length

/-- `branch_node::body_size(prefix_len, total_separator_lengths, n)` -/
def bodySize (pl total n : Nat) : Nat := n * 2 + (pl + total + 7) / 8 + n * 4

def slenSum (l : List Item) : Nat := (l.map (·.slen)).sum

/-- the bytes the encoding of a node occupies behind the header -/
def Node.body (nd : Node) : Nat := bodySize nd.pl (slenSum nd.items) nd.n

/-- `node::uncompressed_separator_range_size(prefix_len, compressed_lengths, n, first_len)` -/
def uncompressedRange (pl comp n firstLen : Nat) : Option Nat :=
  if comp + pl * n < pl - firstLen then none else some (comp + pl * n - (pl - firstLen))

/-- `node::compressed_separator_range_size(first_separator_length, prefix_compressed_items, pre_compression_size_sum, prefix_len)` -/
def compressedRange (firstLen pcItems sum pl : Nat) : Option Nat :=
  if pcItems = 0 then none                                   -- `prefix_compressed_items - 1`
  else if (firstLen - pl) + sum < (pcItems - 1) * pl then none
  else some ((firstLen - pl) + sum - (pcItems - 1) * pl)

/-- `get_key(node, i)` (`BaseBranch::key`) -/
def Node.key (nd : Node) (i : Nat) : Option Nat := (nd.items[i]?).map (·.key)

/-- `BaseBranch::key_value(i)` -/
def Node.keyValue (nd : Node) (i : Nat) : Option (Nat × Nat) := (nd.items[i]?).map fun it => (it.key, it.pn)

export Nomt.LeafUpd (slice)

/-- `separator_range_len(from, to)` = `cell(to - 1) - cell(from - 1)` -/
def Node.rangeLen (nd : Node) (f t : Nat) : Option Nat :=
  if t = 0 ∨ t < f ∨ nd.items.length < t then none else some (slenSum (slice nd.items f t))

/-- `BaseBranch` -/
structure Base where
  node : Node
  low : Nat := 0
deriving DecidableEq, Repr

/-- `BranchOp` (`KeepChunk { start, end, sum_separator_lengths }`) -/
inductive Op where
  | ins (key pn : Nat)
  | upd (pos pn : Nat)
  | keep (s e sum : Nat)
deriving DecidableEq, Repr

/-- `BranchGauge` -/
structure Gauge where
  first : Option (Nat × Nat) := none
  pl : Nat := 0
  sum : Nat := 0
  pc : Option Nat := none
  n : Nat := 0
deriving DecidableEq, Repr

/-- the fields of `BranchUpdater` (without the page pool) with the fields of its `BranchOpsTracker` inlined -/
structure St where
  base : Option Base := none
  cutoff : Option Nat := none
  ops : List Op := []
  gauge : Gauge := {}
  valid : Bool := true
deriving DecidableEq, Repr

/-- what `handle_new_branch(separator, node, cutoff)` receives -/
structure Produced where
  sep : Nat
  node : Node
  cutoff : Option Nat
deriving DecidableEq, Repr

inductive DigestResult where
  | needsMerge (cutoff : Nat)
  | finished
deriving DecidableEq, Repr

/-! ## `BranchGauge` -/

/-- `ingest_key(key, len)` -/
def Gauge.ingestKey (kf : KF) (g : Gauge) (key len : Nat) : Gauge :=
  match g.first with
  | none => { g with first := some (key, len), pl := len, n := 1 }
  | some (first, _) =>
    { g with pl := if g.pc.isNone then kf.pl first key else g.pl, sum := g.sum + len, n := g.n + 1 }

/-- `ingest_chunk(base, chunk)` -/
def Gauge.ingestChunk (kf : KF) (g : Gauge) (b : Base) (s e sum : Nat) : Option Gauge :=
  if e < s then none else                                   -- `chunk.len()`
  match g.first with
  | some (first, _) =>
    if g.pc.isNone then
      if e = 0 then none else                               -- `chunk.end - 1`
      match b.node.key (e - 1) with
      | none => none
      | some last => some { g with pl := kf.pl first last, sum := g.sum + sum, n := g.n + (e - s) }
    else some { g with sum := g.sum + sum, n := g.n + (e - s) }
  | none =>
    if e = 0 then none else
    match b.node.key s, b.node.key (e - 1) with
    | some fk, some lk =>
      if sum < kf.sl fk then none                           -- `chunk.sum_separator_lengths - first_separator_len`
      else some { g with pl := kf.pl fk lk, first := some (fk, kf.sl fk), sum := sum - kf.sl fk, n := e - s }
    | _, _ => none

/-- `ingest_branch_op(base, op)` -/
def Gauge.ingestOp (kf : KF) (g : Gauge) (b? : Option Base) : Op → Option Gauge
  | .ins key _ => some (g.ingestKey kf key (kf.sl key))
  | .upd pos _ =>
    match b? with
    | none => none                                          -- `base.as_ref().unwrap()`
    | some b => (b.node.key pos).map fun key => g.ingestKey kf key (kf.sl key)
  | .keep s e sum =>
    match b? with
    | none => none
    | some b => g.ingestChunk kf b s e sum

/-- `stop_prefix_compression()` -/
def Gauge.stop (g : Gauge) : Option Gauge :=
  if g.pc.isSome then none else some { g with pc := some g.n }   -- `assert!(self.prefix_compressed.is_none())`

/-- `prefix_compressed_items()` -/
def Gauge.pcItems (g : Gauge) : Nat := g.pc.getD g.n

/-- `body_size()` -/
def Gauge.body (g : Gauge) : Option Nat :=
  match g.first with
  | some (_, fl) => (compressedRange fl (g.pc.getD g.n) g.sum g.pl).map fun t => bodySize g.pl t g.n
  | none => some (bodySize g.pl 0 g.n)

/-- `body_size_after(key, len)` -/
def Gauge.bodyAfter (kf : KF) (g : Gauge) (key len : Nat) : Option Nat :=
  match g.first with
  | some (first, fl) =>
    let p := if g.pc.isNone then kf.pl first key else g.pl
    (compressedRange fl (g.pc.getD (g.n + 1)) (g.sum + len) p).map fun t => bodySize p t (g.n + 1)
  | none => some (bodySize len 0 (g.n + 1))

/-- `body_size_after_chunk(base, chunk)` -/
def Gauge.bodyAfterChunk (kf : KF) (g : Gauge) (b : Base) (s e sum : Nat) : Option Nat :=
  if e < s then none else
  match g.first with
  | some (first, fl) =>
    let p? : Option Nat :=
      if g.pc.isNone then
        (if e = 0 then none else (b.node.key (e - 1)).map fun last => kf.pl first last)
      else some g.pl
    match p? with
    | none => none
    | some p =>
      (compressedRange fl (g.pc.getD (g.n + (e - s))) (g.sum + sum) p).map fun t => bodySize p t (g.n + (e - s))
  | none =>
    if e = 0 then none else
    match b.node.key s, b.node.key (e - 1) with
    | some fk, some lk =>
      if sum < kf.sl fk then none
      else
        (compressedRange (kf.sl fk) (g.n + (e - s)) (sum - kf.sl fk) (kf.pl fk lk)).map fun t =>
          bodySize (kf.pl fk lk) t (g.n + (e - s))
    | _, _ => none

/-! ## `BranchUpdater::new`, `is_in_scope`, `reset_base`, `remove_cutoff` -/

def St.new (base : Option Base) (cutoff : Option Nat) : St := { base := base, cutoff := cutoff }

def inScope (st : St) (key : Nat) : Bool :=
  match st.cutoff with
  | none => true
  | some k => decide (key < k)

def resetBase (st : St) (base : Option Base) (cutoff : Option Nat) : St := { st with base := base, cutoff := cutoff }

def removeCutoff (st : St) : St := { st with cutoff := none }

/-! ## `find_key_pos`, `BaseBranch::find_key` -/

/-- `find_key_pos(node, key, Some(low))` -/
def findKeyPos (nd : Node) (key low : Nat) : Bool × Nat :=
  let pfx := match nd.items.head? with | some f => top f.key nd.pl | none => 0
  if top key nd.pl < pfx then (false, 0)
  else if pfx < top key nd.pl ∧ nd.n = nd.pc then (false, nd.n)
  else if nd.n ≤ low then (false, nd.n)
  else
    let rest := nd.items.drop low
    let pos := rest.findIdx (fun e => decide (key ≤ e.key))
    match rest[pos]? with
    | some e => if e.key == key then (true, low + pos) else (false, low + pos)
    | none => (false, low + pos)

/-- `BaseBranch::find_key(key)`: `(answer, base with the new low)` -/
def findKey (b : Base) (key : Nat) : Option (Bool × Nat) × Base :=
  if b.low == b.node.n then (none, b) else
  let (found, pos) := findKeyPos b.node key b.low
  if found then (some (true, pos), { b with low := pos + 1 })
  else if pos == b.low then (none, b)
  else (some (false, pos), { b with low := pos })

/-! ## `BranchOpsTracker`: `push_insert`, `replace_with_insert`, `push_update`, `push_chunk` -/

/-- the `Insert`s `key_value(pos)` for `pos` in `s .. s + cnt` -/
def keyValues (b : Base) : (cnt pos : Nat) → Option (List Op)
  | 0, _ => some []
  | cnt + 1, pos =>
    match b.node.keyValue pos, keyValues b cnt (pos + 1) with
    | some (k, pn), some r => some (.ins k pn :: r)
    | _, _ => none

/-- `replace_with_insert(base, op_index)`: what `ops[op_index]` is replaced by (the returned count is its length) -/
def replaceOp (b? : Option Base) : Op → Option (List Op)
  | .ins k pn => some [.ins k pn]
  | .upd pos pn =>
    match b? with
    | none => none                                          -- `base.unwrap()`
    | some b => (b.node.key pos).map fun k => [.ins k pn]
  | .keep s e _ =>
    if e < s then none                                      -- `chunk.end - chunk.start`
    else if e = s then some []
    else
      match b? with
      | none => none
      | some b => keyValues b (e - s) s

def pushInsert (kf : KF) (st : St) (key pn : Nat) : Option St :=
  if !st.valid then none                                    -- `assert!(self.valid_gauge)`
  else some { st with gauge := st.gauge.ingestKey kf key (kf.sl key), ops := st.ops ++ [.ins key pn] }

/-- `short_first_separator(base, pos)` (`false` before the repair of F22) -/
def shortFirst (kf : KF) (b : Base) (pos : Nat) : Option Bool :=
  if kf.canon && pos == 0 then (b.node.key 0).map fun k => decide (kf.sl k < b.node.pl) else some false

def pushUpdate (kf : KF) (st : St) (b : Base) (pos pn : Nat) : Option St :=
  if !st.valid then none else
  match st.gauge.ingestOp kf (some b) (.upd pos pn) with
  | none => none
  | some g =>
    if b.node.pc ≤ pos ∨ g.pc.isSome then
      (replaceOp (some b) (.upd pos pn)).map fun r => { st with gauge := g, ops := st.ops ++ r }
    else
      match shortFirst kf b pos with
      | none => none
      | some true => (replaceOp (some b) (.upd pos pn)).map fun r => { st with gauge := g, ops := st.ops ++ r }
      | some false => some { st with gauge := g, ops := st.ops ++ [.upd pos pn] }

/-- the `for i in base_compressed_end..end { push_insert(key_value(i)) }` loop of `push_chunk` -/
def pushTail (kf : KF) (b : Base) : (cnt pos : Nat) → St → Option St
  | 0, _, st => some st
  | cnt + 1, pos, st =>
    match b.node.keyValue pos with
    | none => none
    | some (k, pn) =>
      match pushInsert kf st k pn with
      | none => none
      | some st' => pushTail kf b cnt (pos + 1) st'

/-- the compressed part of `push_chunk`: the `KeepChunk` for `start .. base_compressed_end` (if it is not empty) -/
def pushChunkHead (kf : KF) (st : St) (b : Base) (s bce : Nat) : Option St :=
  if s ≠ bce then
    match b.node.key s, b.node.rangeLen s bce with
    | some fk, some rl =>
      match uncompressedRange b.node.pl rl (bce - s) (kf.sl fk) with
      | none => none
      | some sum =>
        match st.gauge.ingestOp kf (some b) (.keep s bce sum) with
        | none => none
        | some g =>
          if g.pc.isSome then
            (replaceOp (some b) (.keep s bce sum)).map fun r => { st with gauge := g, ops := st.ops ++ r }
          else some { st with gauge := g, ops := st.ops ++ [.keep s bce sum] }
    | _, _ => none
  else some st

/-- the first lines of `push_chunk`: a short first separator is pushed as an `Insert` and the chunk starts behind it
(repair of F22) -/
def pushChunkShort (kf : KF) (st : St) (b : Base) (s e : Nat) : Option (St × Nat) :=
  if s < e then
    match shortFirst kf b s with
    | none => none
    | some false => some (st, s)
    | some true =>
      match b.node.keyValue s with
      | none => none
      | some (k, pn) => (pushInsert kf st k pn).map fun st' => (st', s + 1)
  else some (st, s)

/-- `push_chunk` from the computation of `base_compressed_end` on -/
def pushChunkFrom (kf : KF) (st : St) (b : Base) (s e : Nat) : Option St :=
  let bce := max (min e b.node.pc) s
  match pushChunkHead kf st b s bce with
  | none => none
  | some st1 => pushTail kf b (e - bce) bce st1

def pushChunk (kf : KF) (st : St) (b : Base) (s e : Nat) : Option St :=
  if !st.valid then none else
  match pushChunkShort kf st b s e with
  | none => none
  | some (st0, s0) => pushChunkFrom kf st0 b s0 e

/-! ## `keep_up_to`, `ingest` -/

/-- `keep_up_to(up_to)`: the new state and the position at which `up_to` was found -/
def keepUpTo (kf : KF) (st : St) (upTo : Option Nat) : Option (St × Option Nat) :=
  match st.base with
  | none => some (st, none)
  | some b =>
    let f := b.low
    let r : Option (Bool × Nat × Base) :=
      match upTo with
      | none => if f == b.node.n then none else some (false, b.node.n, { b with low := b.node.n })
      | some k =>
        match findKey b k with
        | (some (found, to), b') => some (found, to, b')
        | (none, _) => none
    match r with
    | none => some (st, none)
    | some (found, to, b') =>
      let st1 : St := { st with base := some b' }
      let st2? := if f != to then pushChunk kf st1 b' f to else some st1
      st2?.map fun st2 => (st2, if found then some to else none)

/-- `ingest(key, pn)` -/
def ingest (kf : KF) (st : St) (key : Nat) (pn : Option Nat) : Option St :=
  match keepUpTo kf st (some key) with
  | none => none
  | some (st1, res) =>
    match pn with
    | none => some st1
    | some pn =>
      match res with
      | some pos =>
        match st1.base with
        | none => none                                      -- `self.base.as_ref().unwrap()`
        | some b => pushUpdate kf st1 b pos pn
      | none => pushInsert kf st1 key pn

/-! ## `try_split_keep_chunk`, `extract_insert_from_keep_chunk`, `extract_ops_until` -/

/-- the `for i in chunk.start..chunk.end` loop of `try_split_keep_chunk`:
`(left_chunk_n_items, left_chunk_sum_separator_lengths)` -/
def splitLoop (kf : KF) (b : Base) (target limit : Nat) : (cnt pos : Nat) → Gauge → (n sum : Nat) → Option (Nat × Nat)
  | 0, _, _, n, sum => some (n, sum)
  | cnt + 1, pos, g, n, sum =>
    match b.node.key pos with
    | none => none                                          -- `get_key(&base.node, i)`
    | some key =>
      match g.bodyAfter kf key (kf.sl key) with
      | none => none
      | some after =>
        if after ≥ target then
          (if after > limit then some (n, sum) else some (n + 1, sum + kf.sl key))
        else splitLoop kf b target limit cnt (pos + 1) (g.ingestKey kf key (kf.sl key)) (n + 1) (sum + kf.sl key)

/-- `try_split_keep_chunk(base, gauge, index, target, limit)` with `ops[index..] = todo`: `(left_n_items, todo')` -/
def trySplitKeep (kf : KF) (b : Base) (g : Gauge) (todo : List Op) (target limit : Nat) : Option (Nat × List Op) :=
  match todo with
  | .keep s e sum :: rest =>
    match splitLoop kf b target limit (e - s) s g 0 0 with
    | none => none
    | some (ln, lsum) =>
      if ln != 0 && e - s != ln then
        if sum < lsum then none                             -- `chunk.sum_separator_lengths - left_chunk_sum_separator_lengths`
        else some (ln, .keep s (s + ln) lsum :: .keep (s + ln) e (sum - lsum) :: rest)
      else some (ln, todo)
  | _ => none                                               -- "Attempted to split non `BranchOp::KeepChunk` operation"

/-- `extract_insert_from_keep_chunk(base, index)` with `ops[index..] = todo` -/
def extractInsert (kf : KF) (b : Base) (todo : List Op) : Option (List Op) :=
  match todo with
  | .keep s e sum :: rest =>
    match b.node.keyValue s with
    | none => none
    | some (k, pn) =>
      if e = 0 then none                                    -- `chunk.end - 1`
      else if s == e - 1 then some (.ins k pn :: rest)
      else if sum < kf.sl k then none
      else some (.ins k pn :: .keep (s + 1) e (sum - kf.sl k) :: rest)
  | _ => none

/-- the last part of the loop body of `extract_ops_until`: `gauge.ingest_branch_op(base, &ops[pos])`, then replace the
op by `Insert`s if prefix compression has been stopped: `(gauge, what moves to done)` -/
def takeOp (kf : KF) (b? : Option Base) (g : Gauge) (op : Op) : Option (Gauge × List Op) :=
  match g.ingestOp kf b? op with
  | none => none
  | some g' =>
    if g'.pc.isSome then (replaceOp b? op).map fun r => (g', r) else some (g', [op])

/-- the `while pos < self.ops.len() && gauge.body_size() < target` loop of `extract_ops_until`:
`(gauge, done, todo, target)` -/
def extractLoop (kf : KF) (b? : Option Base) :
    (fuel : Nat) → Gauge → (done todo : List Op) → (target : Nat) → Option (Gauge × List Op × List Op × Nat)
  | 0, _, _, _, _ => none
  | fuel + 1, g, done, todo, target =>
    match todo with
    | [] => some (g, done, [], target)
    | op :: rest =>
      match g.body with
      | none => none
      | some body =>
        if ¬ body < target then some (g, done, todo, target) else
        match op with
        | .ins key _ =>
          match g.bodyAfter kf key (kf.sl key) with
          | none => none
          | some after =>
            if after > BODY then
              if body < MERGE then
                match g.stop with
                | none => none
                | some g1 =>
                  match takeOp kf b? g1 op with
                  | none => none
                  | some (g2, r) => extractLoop kf b? fuel g2 (done ++ r) rest MERGE
              else some (g, done, todo, MERGE)
            else
              match takeOp kf b? g op with
              | none => none
              | some (g2, r) => extractLoop kf b? fuel g2 (done ++ r) rest target
        | .upd pos _ =>
          match b? with
          | none => none                                    -- `base.unwrap()`
          | some b =>
            match b.node.key pos with
            | none => none
            | some key =>
              match g.bodyAfter kf key (kf.sl key) with
              | none => none
              | some after =>
                if after > BODY then
                  if body < MERGE then
                    match (if kf.seeded = 2 then (b.node.keyValue pos).map fun (k, old) => [Op.ins k old]
                           else replaceOp b? op) with
                    | none => none
                    | some r => extractLoop kf b? fuel g done (r ++ rest) target
                  else some (g, done, todo, MERGE)
                else
                  match takeOp kf b? g op with
                  | none => none
                  | some (g2, r) => extractLoop kf b? fuel g2 (done ++ r) rest target
        | .keep s e sum =>
          match b? with
          | none => none
          | some b =>
            match g.bodyAfterChunk kf b s e sum with
            | none => none
            | some after =>
              if after > target then
                match trySplitKeep kf b g todo target BODY with
                | none => none
                | some (ln, todo') =>
                  if ln == 0 then
                    match extractInsert kf b todo' with
                    | none => none
                    | some todo'' => extractLoop kf b? fuel g done todo'' target
                  else
                    match todo' with
                    | op' :: rest' =>
                      match takeOp kf b? g op' with
                      | none => none
                      | some (g2, r) => extractLoop kf b? fuel g2 (done ++ r) rest' target
                    | [] => none
              else
                match takeOp kf b? g op with
                | none => none
                | some (g2, r) => extractLoop kf b? fuel g2 (done ++ r) rest target

/-- number of items an op stands for -/
def Op.count : Op → Nat
  | .ins _ _ => 1
  | .upd _ _ => 1
  | .keep s e _ => e - s

def opsCount (ops : List Op) : Nat := (ops.map Op.count).sum

/-- `extract_ops_until(base, target)`.
`some (done, todo, g, true)`: `Some((ops[..pos], gauge))`, afterwards `self.ops = todo`, `valid_gauge = false`;
`some (done, todo, g, false)`: `None`, `self.gauge = g`, `valid_gauge = true`, `self.ops = done ++ todo`. -/
def extractOpsUntil (kf : KF) (b? : Option Base) (ops : List Op) (target : Nat) :
    Option (List Op × List Op × Gauge × Bool) :=
  match extractLoop kf b? (2 * opsCount ops + ops.length + 2) {} [] ops target with
  | none => none
  | some (g, done, todo, target') =>
    match g.body with
    | none => none
    | some body => some (done, todo, g, decide (body ≥ target'))

/-! ## `BranchNodeBuilder` on decoded nodes, `build_branch`, `op_first_key` -/

/-- `BranchNodeBuilder`: the header fields and the items pushed so far (`index` = their number,
`separator_bit_offset` = the sum of their stored lengths) -/
structure Bld where
  n : Nat
  pc : Nat
  pl : Nat
  items : List Item := []
deriving DecidableEq, Repr

def Bld.index (b : Bld) : Nat := b.items.length

/-- the prefix of the node under construction: the first `prefix_len` bits of the first key pushed -/
def Bld.prefixOK (b : Bld) (key : Nat) : Bool :=
  match b.items.head? with
  | none => true
  | some f => top key b.pl == top f.key b.pl

/-- `push(key, separator_len, pn)` -/
def Bld.push (b : Bld) (key len pn : Nat) : Option Bld :=
  if ¬ b.index < b.n then none                              -- `assert!(self.index < self.branch.n())`
  else if b.index < b.pc then
    if b.prefixOK key then some { b with items := b.items ++ [⟨key, pn, len - b.pl⟩] } else none
  else some { b with items := b.items ++ [⟨key, pn, len⟩] }

/-- the items `from .. to` of the base as `push_chunk` stores them in the new node -/
def chunkItems (b : Bld) (base : Node) (first : Nat) : List Item → Option (List Item)
  | [] => some []
  | it :: r =>
    if top it.key b.pl == top first b.pl then
      (chunkItems b base first r).map fun r' =>
        ⟨it.key, it.pn, if b.pl < base.pl then it.slen + (base.pl - b.pl) else it.slen - (b.pl - base.pl)⟩ :: r'
    else none

/-- `set_node_pointer(self.index + i, new_pn)` for every `(i, new_pn)` of `updated` -/
def applyUpdated (n index : Nat) : List (Nat × Nat) → List Item → Option (List Item)
  | [], items => some items
  | (i, pn) :: r, items =>
    if n ≤ index + i then none                              -- `BRANCH_NODE_SIZE - (n - i) * 4 ..+ 4` out of the page
    else
      applyUpdated n index r
        (match items[index + i]? with
         | some it => items.set (index + i) { it with pn := pn }
         | none => items)                                   -- the slot of an item pushed later: overwritten by its push

/-- the prefix of the node under construction comes from the first key pushed (`fk`: the first key of the chunk, if
nothing has been pushed yet) -/
def Bld.firstKey (b : Bld) (fk : Nat) : Nat :=
  match b.items.head? with
  | some x => x.key
  | none => fk

/-- the cells, node pointers and page-number updates of `push_chunk` for the already converted items `its` -/
def Bld.addChunk (b : Bld) (its : List Item) (updated : List (Nat × Nat)) : Option Bld :=
  if 65535 < slenSum (b.items ++ its) then none            -- `u16::try_from(cell_pointer).unwrap()`
  else (applyUpdated b.n b.index updated (b.items ++ its)).map fun items' => { b with items := items' }

/-- `push_chunk(base, from, to, updated)` -/
def Bld.pushChunk (b : Bld) (base : Node) (f t : Nat) (updated : List (Nat × Nat)) : Option Bld :=
  if t < f then none                                        -- `to - from`
  else if ¬ b.index + (t - f) ≤ b.pc then none               -- `assert!`
  else if base.n < t ∨ base.pc < t then none                 -- `cells()[from..to]` / an uncompressed separator of the base
  else if t = f then
    (if b.pl = base.pl ∧ (b.index = 0 ∨ f = 0) then none else some b)   -- `cell(to - 1)` of the fast path
  else
    match base.key f with
    | none => none
    | some fk =>
      match chunkItems b base (b.firstKey fk) (slice base.items f t) with
      | none => none
      | some its => b.addChunk its updated

/-- `finish()`; `none`: fewer / more pushes than `n` -/
def Bld.finish (b : Bld) : Option Node :=
  if b.items.length = b.n then some ⟨b.pl, b.pc, b.items⟩ else none

/-- the `for pos in compressed_end..base_range.end { builder.push(base.key_value(pos)) }` loop of `apply_chunk` -/
def pushRange (kf : KF) (base : Base) : (cnt pos : Nat) → Bld → Option Bld
  | 0, _, b => some b
  | cnt + 1, pos, b =>
    match base.node.keyValue pos with
    | none => none
    | some (k, pn) =>
      match b.push k (kf.sl k) pn with
      | none => none
      | some b' => pushRange kf base cnt (pos + 1) b'

/-- `ops[ops_range].iter().filter_map(..)`: the `(pos - base_range.start, pn)` of the `Update`s -/
def updsOf (s : Nat) : List Op → List (Nat × Nat)
  | [] => []
  | .upd pos pn :: r => (pos - s, pn) :: updsOf s r
  | _ :: r => updsOf s r

/-- the closure `apply_chunk(builder, base_range, ops_range)` of `build_branch` -/
def applyChunk (kf : KF) (base : Base) (g : Gauge) (b : Bld) (s e : Nat) (acc : List Op) : Option Bld :=
  let nLeft := g.pcItems - b.index
  let cEnd := min (s + nLeft) e
  match b.pushChunk base.node s cEnd (updsOf s acc) with
  | none => none
  | some b1 => pushRange kf base (e - cEnd) cEnd b1

/-- the `while i < ops.len()` loop of `build_branch` (with a base); `pend` = `(pending_keep_chunk, ops[pending_ops_range])` -/
def buildLoop (kf : KF) (base : Base) (g : Gauge) : List Op → Bld → Option (Nat × Nat × List Op) → Option Bld
  | [], b, none => some b
  | [], b, some (s, e, acc) => applyChunk kf base g b s e acc
  | op :: rest, b, pend =>
    let fresh (b : Bld) : Option Bld :=
      match op with
      | .ins key pn => (b.push key (kf.sl key) pn).bind fun b' => buildLoop kf base g rest b' none
      | .keep cs ce _ => buildLoop kf base g rest b (some (cs, ce, [op]))
      | .upd pos _ => buildLoop kf base g rest b (some (pos, pos + 1, [op]))
    match pend with
    | none => fresh b
    | some (s, e, acc) =>
      match op with
      | .ins _ _ => (applyChunk kf base g b s e acc).bind fresh
      | .keep cs ce _ =>
        if e = cs then buildLoop kf base g rest b (some (s, ce, acc ++ [op]))
        else (applyChunk kf base g b s e acc).bind fresh
      | .upd pos _ =>
        if e = pos then buildLoop kf base g rest b (some (s, e + 1, acc ++ [op]))
        else (applyChunk kf base g b s e acc).bind fresh

/-- `build_branch` without a base: every op must be an `Insert` -/
def buildNoBase (kf : KF) : List Op → Bld → Option Bld
  | [], b => some b
  | .ins key pn :: rest, b => (b.push key (kf.sl key) pn).bind (buildNoBase kf rest)
  | _ :: _, _ => none                                       -- "Unextected BranchOp creating a BranchNode without BaseBranch"

/-- `build_branch(base, page_pool, ops, gauge)` -/
def buildBranch (kf : KF) (b? : Option Base) (ops : List Op) (g : Gauge) : Option Node :=
  let bld : Bld := { n := g.n, pc := g.pcItems, pl := g.pl }
  match b? with
  | none => (buildNoBase kf ops bld).bind Bld.finish
  | some base => (buildLoop kf base g ops bld none).bind Bld.finish

/-- `op_first_key(base, &ops[0])` -/
def opFirstKey (b? : Option Base) : List Op → Option Nat
  | [] => none                                              -- `ops[0]`
  | .ins k _ :: _ => some k
  | .upd pos _ :: _ => match b? with | none => none | some b => b.node.key pos
  | .keep s _ _ :: _ => match b? with | none => none | some b => b.node.key s

/-! ## `try_split`, `prepare_merge_ops`, `digest` -/

/-- the `while let Some((ops, gauge)) = extract_ops_until(..)` loop of `try_split` -/
def splitLoopNodes (kf : KF) (target : Nat) : (fuel : Nat) → St → List Produced → Option (St × List Produced)
  | 0, _, _ => none
  | fuel + 1, st, acc =>
    match extractOpsUntil kf st.base st.ops target with
    | none => none
    | some (done, todo, g, false) => some ({ st with ops := done ++ todo, gauge := g, valid := true }, acc)
    | some (done, todo, g, true) =>
      match buildBranch kf st.base done g, opFirstKey st.base done with
      | some node, some sep =>
        splitLoopNodes kf target fuel { st with ops := todo, valid := false } (acc ++ [⟨sep, node, st.cutoff⟩])
      | _, _ => none

/-- `try_split(new_branches, target)` -/
def trySplit (kf : KF) (st : St) (target : Nat) : Option (St × List Produced) :=
  splitLoopNodes kf target (opsCount st.ops + st.ops.length + 2) st []

/-- `ops_tracker.body_size()` -/
def St.body (st : St) : Option Nat := if st.valid then st.gauge.body else none

/-- `prepare_merge_ops(base)`: every op replaced in place by `Insert`s -/
def mergeOps (b? : Option Base) : List Op → Option (List Op)
  | [] => some []
  | op :: rest =>
    match replaceOp b? op, mergeOps b? rest with
    | some a, some r => some (a ++ r)
    | _, _ => none

/-- the two `try_split` calls of `digest` (bulk split, split) -/
def digestSplit (kf : KF) (st : St) : Option (St × List Produced) :=
  match st.body with
  | none => none
  | some b1 =>
    let r1 := if b1 > BULK_THRESHOLD then trySplit kf st BULK_TARGET else some (st, [])
    match r1 with
    | none => none
    | some (st, l1) =>
      match st.body with
      | none => none
      | some b2 =>
        let r2 := if b2 > BODY then trySplit kf st (b2 / 2) else some (st, [])
        match r2 with
        | none => none
        | some (st, l2) => some (st, l1 ++ l2)

/-- `digest(new_branches)`: the new state, the nodes handed to `handle_new_branch` in order, the result -/
def digest (kf : KF) (st : St) : Option (St × List Produced × DigestResult) :=
  match keepUpTo kf st none with
  | none => none
  | some (st0, _) =>
    match digestSplit kf st0 with
    | none => none
    | some (st, ls) =>
      match st.body with
      | none => none
      | some body =>
        if body == 0 then some (st, ls, .finished)
        else if body ≥ MERGE || st.cutoff.isNone then
          match buildBranch kf st.base st.ops st.gauge, opFirstKey st.base st.ops with
          | some node, some sep =>
            some ({ st with ops := [], gauge := {} }, ls ++ [⟨sep, node, st.cutoff⟩], .finished)
          | _, _ => none
        else
          match mergeOps st.base st.ops, st.cutoff with
          | some ops, some c => some ({ st with ops := ops }, ls, .needsMerge c)
          | _, _ => none

/-! ## the loop of `branch_stage.rs::run_worker` (one worker over the whole level, no range extension) -/

/-- a node of the level before the update: its separator in the index, its page number and its content -/
structure DbNode where
  sep : Nat
  bbn : Nat
  node : Node
deriving DecidableEq, Repr

/-- the nodes of the level after the update, left to right -/
inductive OutNode where
  | old (l : DbNode)
  | new (l : Produced)
deriving DecidableEq, Repr

def OutNode.items : OutNode → List Item
  | .old l => l.node.items
  | .new l => l.node.items

def OutNode.sep : OutNode → Nat
  | .old l => l.sep
  | .new l => l.sep

structure Run where
  st : St := {}
  /-- the nodes right of the current base -/
  rest : List DbNode
  out : List OutNode := []
  /-- `branches_tracker.delete(separator, bbn_pn, cutoff)`: the page numbers reported as released, in order -/
  released : List Nat := []
deriving Repr

/-- `bbn_index.lookup(key)` among the nodes right of the current one: the nodes in front of the one covering `key` are
not touched -/
def skipTo (key : Nat) : List DbNode → List DbNode × List DbNode
  | a :: b :: rest =>
    if b.sep ≤ key then
      let r := skipTo key (b :: rest)
      (a :: r.1, r.2)
    else ([], a :: b :: rest)
  | l => ([], l)

/-- `reset_branch_base_fresh(.., key)`: point the updater at the node covering `key` and report its page as released
(nothing happens when no node covers the key) -/
def resetTo (key : Nat) (r : Run) : Run :=
  match skipTo key r.rest with
  | (skipped, l :: rest') =>
    if l.sep ≤ key then
      { r with st := resetBase r.st (some { node := l.node }) (rest'.head?.map (·.sep)),
               rest := rest', out := r.out ++ skipped.map .old, released := r.released ++ [l.bbn] }
    else r
  | (_, []) => r

/-- the key `reset_branch_base` is called with after a `digest`: the cutoff on `NeedsMerge`, else the next changed key -/
def keyOf (res : DigestResult) (k : Nat) : Nat :=
  match res with
  | .needsMerge c => c
  | .finished => k

/-- `while !branch_updater.is_in_scope(&key) { digest; reset_branch_base }` -/
def scopeLoop (kf : KF) (key : Nat) : (fuel : Nat) → Run → Option Run
  | 0, _ => none
  | fuel + 1, r =>
    if inScope r.st key then some r else
    match digest kf r.st with
    | none => none
    | some (st', nodes, res) =>
      scopeLoop kf key fuel (resetTo (keyOf res key) { r with st := st', out := r.out ++ nodes.map .new })

def runChanges (kf : KF) : List (Nat × Option Nat) → Run → Option Run
  | [], r => some r
  | (key, pn) :: cs, r =>
    match scopeLoop kf key (r.rest.length + 1) r with
    | none => none
    | some r =>
      match ingest kf r.st key pn with
      | none => none
      | some st => runChanges kf cs { r with st := st }

/-- `while let NeedsMerge(cutoff) = digest { reset_branch_base(cutoff) }` -/
def finishLoop (kf : KF) : (fuel : Nat) → Run → Option Run
  | 0, _ => none
  | fuel + 1, r =>
    match digest kf r.st with
    | none => none
    | some (st', nodes, res) =>
      let r' := { r with st := st', out := r.out ++ nodes.map .new }
      match res with
      | .finished => some r'
      | .needsMerge c =>
        if kf.seeded = 1 then
          match digest kf (resetTo c r').st with
          | none => none
          | some (st'', nodes', _) => some { resetTo c r' with st := st'', out := (resetTo c r').out ++ nodes'.map .new }
        else finishLoop kf fuel (resetTo c r')

/-- the whole branch stage: the nodes of the new level left to right and the page numbers reported as released -/
def runWorker (kf : KF) (db : List DbNode) (cs : List (Nat × Option Nat)) : Option (List OutNode × List Nat) :=
  match cs with
  | [] => some (db.map .old, [])
  | (k, _) :: _ =>
    match runChanges kf cs (resetTo k { rest := db }) with
    | none => none
    | some r =>
      match finishLoop kf (r.rest.length + 1) r with
      | none => none
      | some r => some (r.out ++ r.rest.map .old, r.released)

end Nomt.BranchUpd
