import NomtModel.Store.WalBytes
import NomtModel.Store.ImgFormats
/-!
# Overflow values (`nomt/src/beatree/ops/overflow.rs`): mirror of the code

A value longer than `MAX_LEAF_VALUE_SIZE` is not stored in its leaf: `chunk` spreads it over freshly allocated
pages of the leaf store and the leaf holds an *overflow cell* `value_size u64 ‖ value_hash [32] ‖ page numbers u32…`
with at most `MAX_OVERFLOW_CELL_NODE_POINTERS = 15` page numbers; the numbers of the remaining pages are stored at
the beginning of the overflow pages themselves.  An overflow page is `n_pointers u16 ‖ n_bytes u16 ‖ pointers ‖ bytes`.

Everything here is a total function; `none` stands for a Rust panic (`assert!`, slice index out of range,
`unwrap` on an I/O error, `try_into().unwrap()`), the site is named in a comment.  Bytes are `List UInt8`
(`Wal.Bytes`), a page store is a function `page number → Option (4096 bytes)` (`none` = the read fails).

* `neededPages`, `totalNeededPages`            — `needed_pages`, `total_needed_pages`
* `chunks4`                                    — `.chunks(4).map(|s| u32::from_le_bytes(s.try_into().unwrap()))`
* `encodeCell`, `decodeCell`                   — `encode_cell`, `decode_cell`
* `mkPage`, `chunkLoop`, `chunk`               — `chunk`
* `parsePage`                                  — `parse_page`
* `readLoop`, `readBlocking`                   — `read_blocking`
* `deleteLoop`, `delete`                       — `delete`
* `AR` (`new`, `submit`, `continueParse`, `complete`) — `AsyncReader`; `submit false` is the code before the repair of F12
* `isOverflow`                                 — `ValueChange::insert` (`beatree/mod.rs`): inline or overflow
-/
namespace Nomt.Ovf
open Nomt.Wal (Bytes leBytes leNat slice)

def PAGE_SIZE : Nat := 4096
/-- `BODY_SIZE = PAGE_SIZE - 4` -/
def BODY_SIZE : Nat := PAGE_SIZE - 4
/-- `MAX_PNS = BODY_SIZE / 4` -/
def MAX_PNS : Nat := BODY_SIZE / 4
def HEADER_SIZE : Nat := 4
/-- `leaf::node::MAX_OVERFLOW_CELL_NODE_POINTERS` -/
def MAX_CELL_PNS : Nat := 15
/-- `leaf::node::MAX_OVERFLOW_VALUE_SIZE` -/
def MAX_VALUE_SIZE : Nat := 2 ^ 29
/-- `leaf::node::LEAF_NODE_BODY_SIZE` -/
def LEAF_NODE_BODY_SIZE : Nat := PAGE_SIZE - 2
/-- `leaf::node::MAX_LEAF_VALUE_SIZE` -/
def MAX_LEAF_VALUE_SIZE : Nat := LEAF_NODE_BODY_SIZE / 3 - 32

/-! ## page arithmetic -/

/-- `needed_pages` -/
def neededPages (size : Nat) : Nat := (size + BODY_SIZE - 1) / BODY_SIZE

/-- `total_needed_pages` (the subtractions are `usize` subtractions in the Rust; `tnp_sub_exact` in
`Store/OvfArith.lean` shows that none of them underflows) -/
def totalNeededPages (valueSize : Nat) : Nat :=
  let np := neededPages valueSize
  if np ≤ MAX_CELL_PNS then np
  else
    let bytesLeft := np * BODY_SIZE - valueSize
    let available := bytesLeft / 4
    if np ≤ MAX_CELL_PNS + available then np
    else
      let n := valueSize + (np - MAX_CELL_PNS) * 4 - np * BODY_SIZE
      let additional := (n + BODY_SIZE - 3) / (BODY_SIZE - 4)
      np + additional

/-! ## cells -/

/-- `slice.chunks(4).map(|s| u32::from_le_bytes(s.try_into().unwrap()))`, consumed: a trailing chunk of fewer than
4 bytes makes `try_into().unwrap()` panic -/
def chunks4 : Bytes → Option (List Nat)
  | [] => some []
  | a :: b :: c :: d :: rest =>
    match chunks4 rest with
    | none => none
    | some l => some (leNat [a, b, c, d] :: l)
  | _ => none

/-- `encode_cell(value_size, value_hash, pages)`; `hash` stands for a `[u8; 32]` -/
def encodeCell (valueSize : Nat) (hash : Bytes) (pages : List Nat) : Option Bytes :=
  if valueSize > MAX_VALUE_SIZE then none   -- panic!("Value size exceeded MAX_OVERFLOW_VALUE_SIZE")
  else some (leBytes 8 valueSize ++ hash ++ pages.flatMap (leBytes 4))

/-- `decode_cell(raw)` with the page-number iterator consumed: (value size, value hash, page numbers) -/
def decodeCell (raw : Bytes) : Option (Nat × Bytes × List Nat) :=
  if raw.length < 8 + 4 + 32 then none        -- assert!(raw.len() >= 8 + 4 + 32)
  else if raw.length % 4 ≠ 0 then none         -- assert_eq!(raw.len() % 4, 0)
  else
    let valueSize := leNat (slice raw 0 8)
    if valueSize > MAX_VALUE_SIZE then none    -- assert!(value_size <= MAX_OVERFLOW_VALUE_SIZE)
    else
      match chunks4 (raw.drop 40) with
      | none => none                           -- try_into().unwrap() on a short chunk
      | some pns => some (valueSize, slice raw 8 32, pns)

/-! ## pages -/

/-- a page store: `none` = the read fails (`read_page(..).unwrap()` panics) -/
abbrev Store := Nat → Option Bytes

def Store.write (σ : Store) (pn : Nat) (pg : Bytes) : Store := fun q => if q = pn then some pg else σ q

/-- the writes of `chunk` applied in the order they were issued -/
def applyWrites (σ : Store) : List (Nat × Bytes) → Store
  | [] => σ
  | (pn, pg) :: ws => applyWrites (σ.write pn pg) ws

/-- one iteration of the `for pn in all_pages` loop of `chunk`: a pool page (contents `junk`, undefined) whose
first bytes are overwritten by the header, the page numbers and the value bytes -/
def mkPage (junk : Bytes) (pns : List Nat) (bytes : Bytes) : Bytes :=
  leBytes 2 pns.length ++ leBytes 2 bytes.length ++ pns.flatMap (leBytes 4) ++ bytes ++
    junk.drop (HEADER_SIZE + 4 * pns.length + bytes.length)

/-- the `for pn in all_pages` loop of `chunk`: `i` = iteration number, `toWrite` = the iterator over
`other_pages`, `value` = the rest of the value.  Result: the page writes in the order they are sent. -/
def chunkLoop (junk : Nat → Bytes) : Nat → List Nat → List Nat → Bytes → Option (List (Nat × Bytes))
  | _, [], _, value => if value.isEmpty then some [] else none      -- assert!(value.is_empty()) after the loop
  | i, pn :: rest, toWrite, value =>
    if value.isEmpty then none                                       -- assert!(!value.is_empty())
    else
      let pns := toWrite.take MAX_PNS                                -- while pns_written < MAX_PNS { to_write.next() … }
      let bytes := min (BODY_SIZE - pns.length * 4) value.length
      match chunkLoop junk (i + 1) rest (toWrite.drop MAX_PNS) (value.drop bytes) with
      | none => none
      | some ws => some ((pn, mkPage (junk i) pns (value.take bytes)) :: ws)

structure ChunkOut where
  /-- the page numbers for the cell -/
  cell : List Nat
  /-- "the total number of page writes submitted" -/
  total : Nat
  writes : List (Nat × Bytes)

/-- `chunk(value, leaf_writer, page_pool, io_handle)`; `alloc i` = the page number the `i`-th call of
`leaf_writer.allocate()` returns, `junk i` = the contents of the `i`-th page handed out by the pool -/
def chunk (value : Bytes) (alloc : Nat → Nat) (junk : Nat → Bytes) : Option ChunkOut :=
  if value.isEmpty then none                                         -- assert!(!value.is_empty())
  else
    let total := totalNeededPages value.length
    let cellPages := min total MAX_CELL_PNS
    let cell := (List.range cellPages).map alloc
    let other := (List.range (total - cellPages)).map (fun i => alloc (cellPages + i))
    match chunkLoop junk 0 (cell ++ other) other value with
    | none => none
    | some ws => some ⟨cell, total, ws⟩

/-- `parse_page(page)` with the iterator consumed: (page numbers, value bytes) -/
def parsePage (page : Bytes) : Option (List Nat × Bytes) :=
  let nPages := leNat (slice page 0 2)
  let nBytes := leNat (slice page 2 2)
  if page.length < HEADER_SIZE then none                             -- page[HEADER_SIZE..]
  else if nPages * 4 > page.length - HEADER_SIZE then none          -- page[HEADER_SIZE..][..n_pages * 4]
  else if nBytes > page.length - (HEADER_SIZE + nPages * 4) then none  -- page[HEADER_SIZE + n_pages * 4..][..n_bytes]
  else
    match chunks4 (slice page HEADER_SIZE (nPages * 4)) with
    | none => none
    | some pns => some (pns, slice page (HEADER_SIZE + nPages * 4) nBytes)

/-! ## `read_blocking` -/

/-- the `for i in 0..total_pages` loop: `n` iterations left, `i` the loop variable -/
def readLoop (σ : Store) : Nat → Nat → List Nat → Bytes → Option (List Nat × Bytes)
  | 0, _, pageNumbers, value => some (pageNumbers, value)
  | n + 1, i, pageNumbers, value =>
    match pageNumbers[i]? with
    | none => none                                                   -- page_numbers[i]
    | some pn =>
      match σ pn with
      | none => none                                                 -- leaf_reader.query(..) unwraps the read
      | some page =>
        match parsePage page with
        | none => none
        | some (pp, bytes) => readLoop σ n (i + 1) (pageNumbers ++ pp) (value ++ bytes)

def readBlocking (cell : Bytes) (σ : Store) : Option Bytes :=
  match decodeCell cell with
  | none => none
  | some (valueSize, _, cellPages) =>
    let total := totalNeededPages valueSize
    match readLoop σ total 0 cellPages [] with
    | none => none
    | some (pageNumbers, value) =>
      if pageNumbers.length ≠ total then none                        -- assert_eq!(page_numbers.len(), total_pages)
      else if value.length ≠ valueSize then none                     -- assert_eq!(value.len(), value_size)
      else some value

/-! ## `delete` -/

/-- the loop of `delete`; `fr` = `freed[start..]` -/
def deleteLoop (σ : Store) : Nat → Nat → List Nat → Option (List Nat)
  | 0, _, fr => some fr
  | n + 1, i, fr =>
    match fr[i]? with
    | none => none                                                   -- freed[start + i]
    | some pn =>
      match σ pn with
      | none => none
      | some page =>
        match parsePage page with
        | none => none
        | some (pp, bytes) =>
          if bytes.length > 0 then some (fr ++ pp)                   -- break
          else deleteLoop σ n (i + 1) (fr ++ pp)

/-- `delete(cell, leaf_reader, freed)`: the new `freed` -/
def delete (cell : Bytes) (σ : Store) (freed : List Nat) : Option (List Nat) :=
  match decodeCell cell with
  | none => none
  | some (valueSize, _, cellPages) =>
    let total := totalNeededPages valueSize
    match deleteLoop σ total 0 cellPages with
    | none => none
    | some fr =>
      if fr.length ≠ total then none                                 -- assert_eq!(freed.len() - start, total_pages)
      else some (freed ++ fr)

/-! ## `AsyncReader` -/

structure AR where
  value : Bytes
  pages : List (Nat × Option Bytes)
  /-- `request_index` -/
  req : Nat
  /-- `process_index` -/
  proc : Nat
  valueSize : Nat
  total : Nat

namespace AR

/-- `AsyncReader::new` -/
def new (cell : Bytes) : Option AR :=
  match decodeCell cell with
  | none => none
  | some (valueSize, _, cellPages) =>
    some { value := [], pages := cellPages.map (fun pn => (pn, none)), req := 0, proc := 0,
           valueSize := valueSize, total := totalNeededPages valueSize }

/-- `AsyncReader::submit`: `some (index, page number requested)` or `none`.  `fixed = false` is the code before
the repair of F12 (only `is_done_requesting()` was checked). -/
def submit (fixed : Bool) (r : AR) : Option (Option (Nat × Nat) × AR) :=
  if r.req = r.total ∨ (fixed = true ∧ r.req ≥ r.pages.length) then some (none, r)
  else
    match r.pages[r.req]? with
    | none => none                                                   -- self.pages[page_index]
    | some (pn, _) => some (some (r.req, pn), { r with req := r.req + 1 })

/-- `continue_parse`; `fuel` ≥ `total - proc` iterations are enough -/
def continueParse : Nat → AR → Option AR
  | 0, r => some r
  | fuel + 1, r =>
    if r.proc < r.total then
      match r.pages[r.proc]? with
      | none => none                                                 -- self.pages[self.process_index]
      | some (_, none) => some r                                     -- break
      | some (pn, some page) =>
        match parsePage page with
        | none => none
        | some (pp, bytes) =>
          continueParse fuel { r with pages := r.pages.set r.proc (pn, none) ++ pp.map (fun q => (q, none)),
                                      value := r.value ++ bytes, proc := r.proc + 1 }
    else some r

/-- `AsyncReader::complete(index, page)` -/
def complete (r : AR) (index : Nat) (page : Bytes) : Option (Option Bytes × AR) :=
  match r.pages[index]? with
  | none => none                                                     -- self.pages[index]
  | some (pn, _) =>
    let r1 := { r with pages := r.pages.set index (pn, some page) }
    match (if index = r1.proc then continueParse (r1.total - r1.proc) r1 else some r1) with
    | none => none
    | some r2 =>
      if r2.proc = r2.total then
        if r2.pages.length ≠ r2.total then none                      -- assert_eq!(self.pages.len(), self.total_pages)
        else if r2.value.length ≠ r2.valueSize then none             -- assert_eq!(self.value.len(), self.value_size)
        else some (some r2.value, { r2 with value := [] })           -- std::mem::take(&mut self.value)
      else some (none, r2)

end AR

/-- a caller of the `AsyncReader`: `submit`, or deliver the completion of the `j`-th outstanding request -/
inductive Act where
  | submit
  | complete (j : Nat)
deriving Repr, DecidableEq

/-- what a step of the caller observes -/
inductive Ev where
  | submitted (index pn : Nat)
  | nothing                   -- `submit` returned `None`
  | idle                      -- no outstanding request to complete
  | pending (index : Nat)     -- `complete` returned `None`
  | value (index : Nat) (v : Bytes)
  | ioError (pn : Nat)        -- the page cannot be read
deriving Repr, DecidableEq

structure Run where
  ar : AR
  /-- requests submitted and not yet completed: (index, page number); indices are unique (`submit` hands out
  `request_index`, which only grows) -/
  out : List (Nat × Nat)

/-- one step of a caller: `none` = the reader panicked -/
def Run.step (fixed : Bool) (σ : Store) (s : Run) : Act → Option (Ev × Run)
  | .submit =>
    match s.ar.submit fixed with
    | none => none
    | some (none, ar) => some (.nothing, { s with ar := ar })
    | some (some (i, pn), ar) => some (.submitted i pn, { ar := ar, out := s.out ++ [(i, pn)] })
  | .complete j =>
    match s.out[j % s.out.length]? with
    | none => some (.idle, s)
    | some (i, pn) =>
      match σ pn with
      | none => some (.ioError pn, { s with out := s.out.filter (fun e => e.1 != i) })
      | some page =>
        match s.ar.complete i page with
        | none => none
        | some (none, ar) => some (.pending i, { ar := ar, out := s.out.filter (fun e => e.1 != i) })
        | some (some v, ar) => some (.value i v, { ar := ar, out := s.out.filter (fun e => e.1 != i) })

/-- a whole schedule: the events, or `none` as soon as the reader panics -/
def Run.run (fixed : Bool) (σ : Store) : Run → List Act → Option (List Ev × Run)
  | s, [] => some ([], s)
  | s, a :: as =>
    match s.step fixed σ a with
    | none => none
    | some (e, s') =>
      match Run.run fixed σ s' as with
      | none => none
      | some (es, s'') => some (e :: es, s'')

/-! ## inline or overflow -/

/-- `ValueChange::insert`: `InsertOverflow` iff `v.len() > MAX_LEAF_VALUE_SIZE` -/
def isOverflow (len : Nat) : Bool := decide (len > MAX_LEAF_VALUE_SIZE)

/-- `leaf::node::body_size(n, value_size_sum)` -/
def bodySize (n valueSizeSum : Nat) : Nat := n * 34 + valueSizeSum

/-- what `leaf_stage::run` puts into the leaf for an inserted value (cell bytes, overflow flag) together with the
overflow pages it writes -/
def storeValue (value hash : Bytes) (alloc : Nat → Nat) (junk : Nat → Bytes) :
    Option (Bytes × Bool × List (Nat × Bytes)) :=
  if isOverflow value.length then
    match chunk value alloc junk with
    | none => none
    | some out =>
      match encodeCell value.length hash out.cell with
      | none => none
      | some cell => some (cell, true, out.writes)
  else some (value, false, [])

/-- `ops::finish_lookup_blocking` on the cell found in the leaf -/
def loadValue (cell : Bytes) (overflow : Bool) (σ : Store) : Option Bytes :=
  if overflow then readBlocking cell σ else some cell

end Nomt.Ovf
