import NomtModel.Store.SyncGenInv3
/-!
# The invariant, part 4: the rollback post-meta task (pruning), every step, every run; the seglog append that precedes
the sync; acceptance of every word of the generated language by `checkOrder`
-/
namespace Nomt.Store.SyncGen
open Nomt.Store

/-! ## Pruning of the rollback log -/

def dirTab (P : Params) (m pr : Nat) : FS :=
  if m < 4 then .clean else if pr ≤ u2 P then .opn zeroN else if pr = u2 P + 1 then .syncing P.tPrune else .clean

def headTab (P : Params) (pr : Nat) : FS :=
  if pr ≤ u2 P + 2 then .clean else if pr = u2 P + 3 then .opn (oneN ("SetLen", 0))
  else if pr = u2 P + 4 then .opn zeroN else if pr = u2 P + 5 then .syncing P.tPrune else .clean

theorem dirFS_eq (P : Params) (s : PSt) : dirFS P s = dirTab P s.m s.pr := rfl
theorem headFS_eq (P : Params) (s : PSt) : headFS P s = headTab P s.pr := rfl

theorem dirTab_le (P : Params) (m pr : Nat) (hm : 4 ≤ m) (h : pr ≤ u2 P) : dirTab P m pr = .opn zeroN := by
  unfold dirTab; rw [if_neg (by omega), if_pos h]
theorem dirTab_1 (P : Params) (m pr : Nat) (hm : 4 ≤ m) (h : pr = u2 P + 1) : dirTab P m pr = .syncing P.tPrune := by
  unfold dirTab; rw [if_neg (by omega), if_neg (by omega), if_pos h]
theorem dirTab_ge (P : Params) (m pr : Nat) (hm : 4 ≤ m) (h : u2 P + 2 ≤ pr) : dirTab P m pr = .clean := by
  unfold dirTab; rw [if_neg (by omega), if_neg (by omega), if_neg (by omega)]
theorem headTab_le (P : Params) (pr : Nat) (h : pr ≤ u2 P + 2) : headTab P pr = .clean := by
  unfold headTab; rw [if_pos h]
theorem headTab_3 (P : Params) (pr : Nat) (h : pr = u2 P + 3) : headTab P pr = .opn (oneN ("SetLen", 0)) := by
  unfold headTab; rw [if_neg (by omega), if_pos h]
theorem headTab_4 (P : Params) (pr : Nat) (h : pr = u2 P + 4) : headTab P pr = .opn zeroN := by
  unfold headTab; rw [if_neg (by omega), if_neg (by omega), if_pos h]
theorem headTab_5 (P : Params) (pr : Nat) (h : pr = u2 P + 5) : headTab P pr = .syncing P.tPrune := by
  unfold headTab; rw [if_neg (by omega), if_neg (by omega), if_neg (by omega), if_pos h]
theorem headTab_6 (P : Params) (pr : Nat) (h : u2 P + 6 ≤ pr) : headTab P pr = .clean := by
  unfold headTab; rw [if_neg (by omega), if_neg (by omega), if_neg (by omega), if_neg (by omega)]

/-- a step of the prune chain whose line belongs to the directory: the other table entries -/
theorem htab_prune (P : Params) (hwf : P.WF) (s : PSt) (own : String)
    (hdir : own ≠ "dir" → ∀ st0, Holds "dir" st0 (dirFS P s) → Holds "dir" st0 (dirFS P { s with pr := s.pr + 1 }))
    (hhead : own ≠ headName P → ∀ st0, Holds (headName P) st0 (headFS P s) →
      Holds (headName P) st0 (headFS P { s with pr := s.pr + 1 })) :
    ∀ f ∈ fileList P, f ≠ own → ∀ st0, Holds f st0 (fsOf P s f) → Holds f st0 (fsOf P { s with pr := s.pr + 1 } f) := by
  intro f hf hne st0 h0
  simp only [fileList, List.mem_cons, List.not_mem_nil, or_false] at hf
  rcases hf with rfl | rfl | rfl | rfl | rfl | rfl | rfl
  · exact h0
  · exact h0
  · exact h0
  · exact h0
  · exact h0
  · rw [fsOf_dir] at h0 ⊢; exact hdir (Ne.symm hne) st0 h0
  · rw [fsOf_head P hwf] at h0 ⊢; exact hhead (Ne.symm hne) st0 h0

theorem inv_step_prune (P : Params) (hwf : P.WF) (s : PSt) (st : OrderSt) (id : Nat) (l : IoEv2)
    (h : Inv P s st id) (hl : (pruneLines P)[s.pr]? = some l) (hm : s.m = (metaLines P).length) :
    ∃ st', orderStep st id l = .ok st' ∧ Inv P { s with pr := s.pr + 1 } st' (id + 1) := by
  have hpc' := pcinv_step P s _ l h.pc (.prune s l hl hm)
  rw [metaLines_length] at hm
  have hm4 : 4 ≤ s.m := by omega
  have hph : st.phase = 2 := by rw [h.phase, hm]; rfl
  have hmeta : ∀ st' : OrderSt, 0 < s.m → s.m < 4 → ∃ p ∈ st'.pend, p.file = "meta" ∧ p.id = st'.metaId := by
    intro st' _ h4; omega
  obtain ⟨hn1, hn2, hn3, hn4, hn5, hn6⟩ := head_ne P hwf
  have hdir := h.tab "dir" (mem_fileList_dir P)
  rw [fsOf_dir, dirFS_eq] at hdir
  have hhead := h.tab (headName P) (mem_fileList_head P)
  rw [fsOf_head P hwf, headFS_eq] at hhead
  have hlen : (unlinkLines P.tPrune P.prune.unlinks).length = u2 P := unlinkLines_length _ _
  unfold pruneLines at hl
  rcases Nat.lt_or_ge s.pr (u2 P) with hlt | hge
  · -- an unlink
    rw [List.getElem?_append_left (by rw [hlen]; exact hlt)] at hl
    obtain ⟨b, n, site, rfl⟩ := unlinkLines_mem _ _ l (List.mem_of_getElem? hl)
    have htab := htab_prune P hwf s "dir" (fun hne => absurd rfl hne) (fun _ st0 h0 => by
      rw [headFS_eq] at h0 ⊢
      rw [headTab_le P _ (by omega)] at h0
      rw [headTab_le P _ (by show s.pr + 1 ≤ u2 P + 2; omega)]
      exact h0)
    rw [dirTab_le P _ _ hm4 (by omega)] at hdir
    cases b with
    | true =>
      obtain ⟨st', hs, hpend, hsy, hph', hmid, hww⟩ := step_beginDir st id (ev "Unlink" n 0 0 site) P.tPrune rfl rfl
        (by omega) (fun _ => by omega)
      refine ⟨st', hs, h.next hs (mem_fileList_dir P) (by rw [hph', h.phase]) (by rw [hww, h.walW]) (hmeta st') hpc' htab ?_⟩
      show Holds "dir" st' (fsOf P _ "dir")
      rw [fsOf_dir, dirFS_eq, dirTab_le P _ _ hm4 (by show s.pr + 1 ≤ u2 P; omega)]
      exact hdir.beginDir id _ hpend hsy
    | false =>
      have hs := step_endDir st id (ev "Unlink" n 0 0 site) P.tPrune rfl (by simp [ev]) (by simp [ev])
      refine ⟨st, hs, h.next hs (mem_fileList_dir P) h.phase h.walW (hmeta st) hpc' htab ?_⟩
      show Holds "dir" st (fsOf P _ "dir")
      rw [fsOf_dir, dirFS_eq, dirTab_le P _ _ hm4 (by show s.pr + 1 ≤ u2 P; omega)]
      exact hdir
  · -- the tail of `prune_recent`
    rw [List.getElem?_append_right (by rw [hlen]; exact hge), hlen] at hl
    cases htail : P.prune.tail with
    | none => rw [htail] at hl; simp [pruneTailLines] at hl
    | some x =>
      obtain ⟨hd, n⟩ := x
      rw [htail] at hl
      have hhn : headName P = hd := by simp [headName, htail]
      rcases pruneTail_cases P.tPrune hd n (s.pr - u2 P) l hl with ⟨hk, rfl⟩ | ⟨hk, rfl⟩ | ⟨hk, rfl⟩ | ⟨hk, rfl⟩ | ⟨hk, rfl⟩ | ⟨hk, rfl⟩
      · -- Begin DirSync
        have hpr : s.pr = u2 P := by omega
        have htab := htab_prune P hwf s "dir" (fun hne => absurd rfl hne) (fun _ st0 h0 => by
          rw [headFS_eq] at h0 ⊢
          rw [headTab_le P _ (by omega)] at h0
          rw [headTab_le P _ (by show s.pr + 1 ≤ u2 P + 2; omega)]
          exact h0)
        rw [dirTab_le P _ _ hm4 (by omega)] at hdir
        obtain ⟨st', hs, hpend, hsy, hph', hmid, hww⟩ := step_beginDirSync st id "dir" 0 0 "seglog.prune_recent.dirsync" P.tPrune
        refine ⟨st', hs, h.next hs (mem_fileList_dir P) (by rw [hph', h.phase]) (by rw [hww, h.walW]) (hmeta st') hpc' htab ?_⟩
        show Holds "dir" st' (fsOf P _ "dir")
        rw [fsOf_dir, dirFS_eq, dirTab_1 P _ _ hm4 (by show s.pr + 1 = u2 P + 1; omega)]
        exact hdir.beginDirSync P.tPrune hpend hsy
      · -- End DirSync
        have hpr : s.pr = u2 P + 1 := by omega
        have htab := htab_prune P hwf s "dir" (fun hne => absurd rfl hne) (fun _ st0 h0 => by
          rw [headFS_eq] at h0 ⊢
          rw [headTab_le P _ (by omega)] at h0
          rw [headTab_le P _ (by show s.pr + 1 ≤ u2 P + 2; omega)]
          exact h0)
        rw [dirTab_1 P _ _ hm4 hpr] at hdir
        obtain ⟨cov, rest, htk, hrest, hcov⟩ := hdir.endSync
        obtain ⟨st', hs, hpend, hsy, hph', hmid, hww⟩ := step_endSync st id
          (ev "DirSync" "dir" 0 0 "seglog.prune_recent.dirsync") P.tPrune "dir" (Or.inr ⟨rfl, rfl⟩) cov rest htk
        refine ⟨st', hs, h.next hs (mem_fileList_dir P) ?_ (by rw [hww, h.walW]) (hmeta st') hpc' htab ?_⟩
        · rw [hph', hph, h.phase.symm.trans hph]; simp
        · show Holds "dir" st' (fsOf P _ "dir")
          rw [fsOf_dir, dirFS_eq, dirTab_ge P _ _ hm4 (by show u2 P + 2 ≤ s.pr + 1; omega)]
          exact Holds.clean_of_endSync cov rest hrest hcov hpend hsy
      · -- Begin SetLen head
        have hpr : s.pr = u2 P + 2 := by omega
        have hlf : lineFile ⟨true, ev "SetLen" hd n 0 "seglog.truncate_head", P.tPrune⟩ = headName P := by rw [hhn]; rfl
        have htab := htab_prune P hwf s (headName P) (fun _ st0 h0 => by
          rw [dirFS_eq] at h0 ⊢
          rw [dirTab_ge P _ _ hm4 (by omega)] at h0
          rw [dirTab_ge P _ _ hm4 (by show u2 P + 2 ≤ s.pr + 1; omega)]
          exact h0) (fun hne => absurd rfl hne)
        rw [headTab_le P _ (by omega)] at hhead
        obtain ⟨st', hs, hpend, hsy, hph', hmid, hww⟩ := step_beginData st id (ev "SetLen" hd n 0 "seglog.truncate_head") P.tPrune
          rfl (by show hd ≠ "meta"; rw [← hhn]; exact hn1) (by omega) (fun hf => absurd (hhn.trans hf) hn5)
          (fun hf => absurd (hhn.trans hf) hn2)
          (fun hf _ => by rcases hf with hf | hf; exact absurd (hhn.trans hf) hn3; exact absurd (hhn.trans hf) hn4)
        refine ⟨st', hs, h.next hs (by rw [hlf]; exact mem_fileList_head P) (by rw [hph', h.phase]) ?_ (hmeta st') hpc'
          (by rw [hlf]; exact htab) ?_⟩
        · rw [hww, h.walW]
          have : ((ev "SetLen" hd n 0 "seglog.truncate_head").file == "wal") = false := by
            show (hd == "wal") = false
            simpa [← hhn] using hn2
          simp [this]
        · rw [hlf, fsOf_head P hwf, headFS_eq, headTab_3 P _ (by show s.pr + 1 = u2 P + 3; omega)]
          exact (hhead.clean_opn.begin id _ hhn.symm hpend hsy).opn_congr (oneN_bump _)
      · -- End SetLen head
        have hpr : s.pr = u2 P + 3 := by omega
        have hlf : lineFile ⟨false, ev "SetLen" hd n 0 "seglog.truncate_head", P.tPrune⟩ = headName P := by rw [hhn]; rfl
        have htab := htab_prune P hwf s (headName P) (fun _ st0 h0 => by
          rw [dirFS_eq] at h0 ⊢
          rw [dirTab_ge P _ _ hm4 (by omega)] at h0
          rw [dirTab_ge P _ _ hm4 (by show u2 P + 2 ≤ s.pr + 1; omega)]
          exact h0) (fun hne => absurd rfl hne)
        rw [headTab_3 P _ hpr] at hhead
        obtain ⟨st', hs, hpend, hsy, hph', hmid, hww⟩ := step_endData st id (ev "SetLen" hd n 0 "seglog.truncate_head") P.tPrune rfl
        refine ⟨st', hs, h.next hs (by rw [hlf]; exact mem_fileList_head P) (by rw [hph', h.phase]) (by rw [hww, h.walW])
          (hmeta st') hpc' (by rw [hlf]; exact htab) ?_⟩
        rw [hlf, fsOf_head P hwf, headFS_eq, headTab_4 P _ (by show s.pr + 1 = u2 P + 4; omega)]
        exact (hhead.endData h.g _ rfl hhn.symm hpend hsy).opn_congr (oneN_drop _)
      · -- Begin Fsync head
        have hpr : s.pr = u2 P + 4 := by omega
        have hlf : lineFile ⟨true, ev "Fsync" hd 0 0 "seglog.truncate_head.fsync", P.tPrune⟩ = headName P := by rw [hhn]; rfl
        have htab := htab_prune P hwf s (headName P) (fun _ st0 h0 => by
          rw [dirFS_eq] at h0 ⊢
          rw [dirTab_ge P _ _ hm4 (by omega)] at h0
          rw [dirTab_ge P _ _ hm4 (by show u2 P + 2 ≤ s.pr + 1; omega)]
          exact h0) (fun hne => absurd rfl hne)
        rw [headTab_4 P _ hpr] at hhead
        obtain ⟨st', hs, hpend, hsy, hph', hmid, hww⟩ := step_beginFsync st id hd 0 0 "seglog.truncate_head.fsync" P.tPrune
        refine ⟨st', hs, h.next hs (by rw [hlf]; exact mem_fileList_head P) (by rw [hph', h.phase]) (by rw [hww, h.walW])
          (hmeta st') hpc' (by rw [hlf]; exact htab) ?_⟩
        rw [hlf, fsOf_head P hwf, headFS_eq, headTab_5 P _ (by show s.pr + 1 = u2 P + 5; omega)]
        rw [hhn] at hhead ⊢
        exact hhead.beginFsync P.tPrune (fun _ => rfl) hpend hsy
      · -- End Fsync head
        have hpr : s.pr = u2 P + 5 := by omega
        have hlf : lineFile ⟨false, ev "Fsync" hd 0 0 "seglog.truncate_head.fsync", P.tPrune⟩ = headName P := by rw [hhn]; rfl
        have htab := htab_prune P hwf s (headName P) (fun _ st0 h0 => by
          rw [dirFS_eq] at h0 ⊢
          rw [dirTab_ge P _ _ hm4 (by omega)] at h0
          rw [dirTab_ge P _ _ hm4 (by show u2 P + 2 ≤ s.pr + 1; omega)]
          exact h0) (fun hne => absurd rfl hne)
        rw [headTab_5 P _ hpr] at hhead
        obtain ⟨cov, rest, htk, hrest, hcov⟩ := hhead.endSync
        rw [hhn] at htk hrest hcov
        obtain ⟨st', hs, hpend, hsy, hph', hmid, hww⟩ := step_endSync st id
          (ev "Fsync" hd 0 0 "seglog.truncate_head.fsync") P.tPrune hd (Or.inl ⟨rfl, rfl⟩) cov rest htk
        refine ⟨st', hs, h.next hs (by rw [hlf]; exact mem_fileList_head P) ?_ (by rw [hww, h.walW])
          (hmeta st') hpc' (by rw [hlf]; exact htab) ?_⟩
        · rw [hph', hph, h.phase.symm.trans hph]; simp
        · rw [hlf, fsOf_head P hwf, headFS_eq, headTab_6 P _ (by show u2 P + 6 ≤ s.pr + 1; omega), hhn]
          exact Holds.clean_of_endSync cov rest hrest hcov hpend hsy

/-! ## Every step, every run -/

theorem inv_step (P : Params) (hwf : P.WF) (s s' : PSt) (st : OrderSt) (id : Nat) (l : IoEv2)
    (h : Inv P s st id) (hs : Step real P s l s') : ∃ st', orderStep st id l = .ok st' ∧ Inv P s' st' (id + 1) := by
  cases hs with
  | wal l hl => exact inv_step_wal P hwf s st id l h hl
  | btBegin i o th ho hx => exact inv_step_btBegin P hwf s st id i o th h ho hx
  | btEnd i o th ho hx => exact inv_step_btEnd P hwf s st id i o th h ho hx
  | fsLn l hl hg => exact inv_step_fsLn P hwf s st id l h hl (hg rfl)
  | fsBbn l hl hg => exact inv_step_fsBbn P hwf s st id l h hl (hg rfl)
  | metaW l hl hg => exact inv_step_meta P hwf s st id l h hl hg
  | htBegin i o ho hx hm => exact inv_step_htBegin P hwf s st id i o h ho hx hm
  | htEnd i o th ho hx => exact inv_step_htEnd P hwf s st id i o th h ho hx
  | tail l hl hm hg => exact inv_step_tail P hwf s st id l h hl hm (hg rfl)
  | prune l hl hm => exact inv_step_prune P hwf s st id l h hl hm

theorem inv_steps (P : Params) (hwf : P.WF) : ∀ (tr : List IoEv2) (s s' : PSt) (st : OrderSt) (id : Nat),
    Inv P s st id → Steps real P s tr s' → ∃ st', orderRun st id tr = .ok st' ∧ Inv P s' st' (id + tr.length) := by
  intro tr
  induction tr with
  | nil =>
    intro s s' st id h hs
    cases hs
    exact ⟨st, rfl, h⟩
  | cons l rest ih =>
    intro s s' st id h hs
    cases hs with
    | cons _ s1 _ _ _ h1 r =>
      obtain ⟨st1, hs1, hinv1⟩ := inv_step P hwf s s1 st id l h h1
      obtain ⟨st2, hs2, hinv2⟩ := ih s1 s' st1 (id + 1) hinv1 r
      refine ⟨st2, ?_, ?_⟩
      · simp only [orderRun, hs1]; exact hs2
      · have : id + (l :: rest).length = id + 1 + rest.length := by simp; omega
        rw [this]; exact hinv2

/-! ## The seglog append before the sync, and the whole operation -/

theorem orderRun_append (a b : List IoEv2) : ∀ (st : OrderSt) (id : Nat),
    orderRun st id (a ++ b) = match orderRun st id a with
      | .error e => .error e
      | .ok st1 => orderRun st1 (id + a.length) b := by
  induction a with
  | nil => intro st id; rfl
  | cons l rest ih =>
    intro st id
    simp only [List.cons_append, orderRun]
    cases orderStep st id l with
    | error e => rfl
    | ok st1 =>
      simp only
      rw [ih]
      have : id + 1 + rest.length = id + (l :: rest).length := by simp; omega
      rw [this]

theorem orderRun_ginv : ∀ (tr : List IoEv2) (st st' : OrderSt) (id : Nat),
    GInv st id → orderRun st id tr = .ok st' → GInv st' (id + tr.length) := by
  intro tr
  induction tr with
  | nil => intro st st' id h hr; simp only [orderRun] at hr; injection hr with hr; subst hr; exact h
  | cons l rest ih =>
    intro st st' id h hr
    simp only [orderRun] at hr
    cases hs : orderStep st id l with
    | error e => rw [hs] at hr; cases hr
    | ok st1 =>
      rw [hs] at hr
      have := ih st1 st' (id + 1) (orderStep_generic h l hs).1 hr
      have he : id + (l :: rest).length = id + 1 + rest.length := by simp; omega
      rw [he]; exact this

/-- the seglog append (with or without roll-over) is accepted and leaves nothing pending: the record and — after a
roll-over — the new directory entry are durable before the sync starts -/
theorem append_accepted (P : Params) (hwf : P.WF) :
    ∃ stA, orderRun {} 0 (appendLines real P) = .ok stA ∧ stA.pend = [] ∧ stA.syncs = [] ∧ stA.phase = 0 ∧
      stA.walWritten = false := by
  unfold appendLines
  cases hseg : P.seg with
  | none => exact ⟨{}, rfl, rfl, rfl, rfl, rfl⟩
  | some a =>
    have hn := hwf.seg a hseg
    simp only [reserved, List.mem_cons, List.not_mem_nil, or_false, not_or] at hn
    obtain ⟨h1, h2, h3, h4, h5, h6⟩ := hn
    have e1 : (a.name == "meta") = false := by simpa using h1
    have e2 : (a.name == "wal") = false := by simpa using h2
    have e3 : (a.name == "ln") = false := by simpa using h3
    have e4 : (a.name == "bbn") = false := by simpa using h4
    have e5 : (a.name == "ht") = false := by simpa using h5
    have e6 : (a.name == "dir") = false := by simpa using h6
    have e7 : ("dir" == a.name) = false := by simpa using (Ne.symm h6)
    cases hc : a.create with
    | true =>
      simp (config := { decide := true }) [real, call, ev, orderRun, orderStep, isDataKind, isDirKind, beginData,
        beginDirOp, bind, Except.bind, pure, Except.pure, e1, e2, e3, e4, e5, e6, e7, endEffect, takeSync, hc]
    | false =>
      simp (config := { decide := true }) [real, call, ev, orderRun, orderStep, isDataKind, isDirKind, beginData,
        beginDirOp, bind, Except.bind, pure, Except.pure, e1, e2, e3, e4, e5, e6, e7, endEffect, takeSync, hc]

theorem holds_clean_of_empty (f : String) (st : OrderSt) (hp : st.pend = []) (hs : st.syncs = []) : Holds f st .clean := by
  refine ⟨?_, by rw [hs]; rfl⟩
  intro p h
  rw [hp] at h
  cases h

/-- the invariant holds when the sync starts -/
theorem inv_init (P : Params) (hwf : P.WF) (stA : OrderSt) (n : Nat) (hg : GInv stA n) (hp : stA.pend = [])
    (hs : stA.syncs = []) (hph : stA.phase = 0) (hw : stA.walWritten = false) : Inv P (init P) stA n := by
  refine ⟨hg, ?_, by rw [hph]; rfl, by rw [hw]; rfl, ?_, ?_, pcinv_init P⟩
  · intro p h
    rw [hp] at h
    cases h
  · intro h
    simp [init] at h
  intro f hf
  have hc := holds_clean_of_empty f stA hp hs
  simp only [fileList, List.mem_cons, List.not_mem_nil, or_false] at hf
  rcases hf with rfl | rfl | rfl | rfl | rfl | rfl | rfl
  · exact hc
  · rw [fsOf_ln]
    simp only [lnFS, init, if_true]
    refine hc.clean_opn.opn_congr (fun k => ?_)
    exact (openBt_zero false k P.bt _ (fun x hx => by simp at hx; omega)).symm
  · rw [fsOf_bbn]
    simp only [bbnFS, init, if_true]
    refine hc.clean_opn.opn_congr (fun k => ?_)
    exact (openBt_zero true k P.bt _ (fun x hx => by simp at hx; omega)).symm
  · exact hc
  · exact hc
  · exact hc
  · rw [fsOf_head P hwf]; exact hc

/-- **every execution of the sync choreography is accepted by the order monitor** — cut anywhere (`orderRun` raises no
objection on any prefix), and when it is complete the switch-over is durable (`checkOrder`'s closing clause) -/
theorem sync_prefix_accepted (P : Params) (hwf : P.WF) (tr' : List IoEv2) (s : PSt)
    (hs : Steps real P (init P) tr' s) :
    ∃ st, orderRun {} 0 (appendLines real P ++ tr') = .ok st ∧
      Inv P s st ((appendLines real P).length + tr'.length) := by
  obtain ⟨stA, hrA, hp, hsy, hph, hw⟩ := append_accepted P hwf
  have hgA := orderRun_ginv _ _ _ 0 (ginv_init {} rfl rfl) hrA
  have hinvA := inv_init P hwf stA _ hgA hp hsy hph hw
  obtain ⟨st, hr, hinv⟩ := inv_steps P hwf tr' (init P) s stA _ hinvA hs
  rw [Nat.zero_add] at hinv
  refine ⟨st, ?_, hinv⟩
  rw [orderRun_append, hrA]
  exact hr

theorem sync_accepted (P : Params) (hwf : P.WF) (tr : List IoEv2) (h : OpLang real P tr) :
    ∃ st, checkOrder tr = .ok st ∧ st.phase = 2 := by
  obtain ⟨tr', s, rfl, hs, hfin⟩ := h
  obtain ⟨st, hr, hinv⟩ := sync_prefix_accepted P hwf tr' s hs
  have hm : s.m = 4 := hfin.2.2.2.2.1
  have hph : st.phase = 2 := by rw [hinv.phase, hm]; rfl
  refine ⟨st, ?_, hph⟩
  unfold checkOrder
  rw [hr]
  simp [hph]

end Nomt.Store.SyncGen
