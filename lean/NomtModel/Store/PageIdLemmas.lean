import NomtModel.Store.ImgTable
/-!
# `PageId::encode` (as implemented: add, then shift) and the Lean decoder are inverse

`encodePageId p = 64 · U(p) mod 2^256` with `U([]) = 0`, `U(p ++ [c]) = 64 · U(p) + c + 1` (the
documented representation).  `decodePageId` undoes it for every path of child indices `< 64` of
length `≤ MAX_PAGE_DEPTH = 42` whose encoding fits 256 bits — always the case up to depth 41; a
depth-42 path overflows the 256-bit word of the code unless `U(p) < 2^250` (such pages are never
stored: `ConstantsCheck.last_level_elided`).
-/
namespace Nomt.Store

/-- the documented representation: `parent * 64 + child + 1` -/
def pageIdNum (p : List Nat) : Nat := p.foldl (fun u c => u * 64 + c + 1) 0

theorem foldl_encode_eq (p : List Nat) : ∀ u, p.foldl (fun w c => (w + c + 1) * 64) (64 * u) =
    64 * p.foldl (fun u c => u * 64 + c + 1) u := by
  induction p with
  | nil => intro u; rfl
  | cons c p ih =>
    intro u
    simp only [List.foldl]
    have : (64 * u + c + 1) * 64 = 64 * (u * 64 + c + 1) := by omega
    rw [this, ih]

theorem encodePageId_eq (p : List Nat) : encodePageId p = 64 * pageIdNum p % 2 ^ 256 := by
  unfold encodePageId pageIdNum
  have := foldl_encode_eq p 0
  rw [Nat.mul_zero] at this
  rw [this]

theorem decodePageIdLoop_succ (fuel n : Nat) (acc : List Nat) :
    decodePageIdLoop (fuel + 1) (n + 1) acc = decodePageIdLoop fuel (n / 64) (n % 64 :: acc) := by
  simp [decodePageIdLoop]

/-- the loop peels the path off the number, last child first -/
theorem decodePageIdLoop_foldr (u0 : Nat) : ∀ (r : List Nat) (fuel : Nat) (acc : List Nat),
    (∀ c ∈ r, c < 64) → r.length ≤ fuel →
    decodePageIdLoop fuel (r.foldr (fun c u => u * 64 + c + 1) u0) acc =
      decodePageIdLoop (fuel - r.length) u0 (r.reverse ++ acc) := by
  intro r
  induction r with
  | nil => intro fuel acc _ _; rfl
  | cons c r ih =>
    intro fuel acc hc hf
    cases fuel with
    | zero => simp at hf
    | succ f =>
      have hc0 : c < 64 := hc c (List.mem_cons_self ..)
      simp only [List.foldr]
      rw [show List.foldr (fun c u => u * 64 + c + 1) u0 r * 64 + c + 1 =
        (List.foldr (fun c u => u * 64 + c + 1) u0 r * 64 + c) + 1 by omega, decodePageIdLoop_succ]
      have e1 : (List.foldr (fun c u => u * 64 + c + 1) u0 r * 64 + c) / 64 = List.foldr (fun c u => u * 64 + c + 1) u0 r := by omega
      have e2 : (List.foldr (fun c u => u * 64 + c + 1) u0 r * 64 + c) % 64 = c := by omega
      rw [e1, e2, ih f (c :: acc) (fun x hx => hc x (List.mem_cons_of_mem _ hx)) (by simpa using hf)]
      simp

theorem decodePageIdLoop_pageIdNum (p : List Nat) (hc : ∀ c ∈ p, c < 64) (hl : p.length ≤ MAX_PAGE_DEPTH) :
    decodePageIdLoop MAX_PAGE_DEPTH (pageIdNum p) [] = some p := by
  have := decodePageIdLoop_foldr 0 p.reverse MAX_PAGE_DEPTH [] (by simpa using hc) (by simpa using hl)
  rw [List.foldr_reverse] at this
  unfold pageIdNum
  rw [this]
  simp [decodePageIdLoop]

/-- the documented number of a path of depth `d` is below `64^d · 64/63`; in particular `64 · U(p)`
fits 256 bits for `d ≤ 41` -/
theorem pageIdNum_bound : ∀ (r : List Nat), (∀ c ∈ r, c < 64) →
    63 * r.foldr (fun c u => u * 64 + c + 1) 0 + 64 ≤ 64 ^ (r.length + 1) := by
  intro r
  induction r with
  | nil => intro _; decide
  | cons c r ih =>
    intro hc
    have := ih (fun x hx => hc x (List.mem_cons_of_mem _ hx))
    have hc0 : c < 64 := hc c (List.mem_cons_self ..)
    simp only [List.foldr, List.length_cons]
    rw [Nat.pow_succ]
    omega

theorem encode_fits_of_depth_le_41 (p : List Nat) (hc : ∀ c ∈ p, c < 64) (hl : p.length ≤ 41) :
    64 * pageIdNum p < 2 ^ 256 := by
  have h := pageIdNum_bound p.reverse (by simpa using hc)
  rw [List.foldr_reverse, List.length_reverse] at h
  have hp : 64 ^ (p.length + 1) ≤ 64 ^ 42 := Nat.pow_le_pow_right (by decide) (by omega)
  unfold pageIdNum
  have e : (64 : Nat) ^ 42 = 2 ^ 252 := by decide
  have e2 : (2 : Nat) ^ 256 = 16 * 2 ^ 252 := by decide
  rw [e] at hp
  rw [e2]
  omega

/-- **round trip**: paths of child indices `< 64`, depth `≤ 42`, whose encoding does not overflow -/
theorem decode_encode_pageId (p : List Nat) (hc : ∀ c ∈ p, c < 64) (hl : p.length ≤ MAX_PAGE_DEPTH)
    (hfit : 64 * pageIdNum p < 2 ^ 256) : decodePageId (encodePageId p) = some p := by
  have he : encodePageId p = 64 * pageIdNum p := by rw [encodePageId_eq, Nat.mod_eq_of_lt hfit]
  unfold decodePageId
  rw [he]
  have h1 : ¬ (64 * pageIdNum p % 64 ≠ 0) := by omega
  have h2 : 64 * pageIdNum p / 64 = pageIdNum p := by omega
  rw [if_neg h1, h2, decodePageIdLoop_pageIdNum p hc hl]
  simp [he]

/-- whatever `decodePageIdLoop` returns consists of child indices `< 64` (given that `acc` does) and
is at most `fuel` longer than `acc` -/
theorem decodePageIdLoop_sound : ∀ (fuel w : Nat) (acc p : List Nat),
    decodePageIdLoop fuel w acc = some p → (∀ c ∈ acc, c < 64) →
    (∀ c ∈ p, c < 64) ∧ p.length ≤ acc.length + fuel := by
  intro fuel
  induction fuel with
  | zero =>
    intro w acc p h ha
    cases w with
    | zero => simp [decodePageIdLoop] at h; subst h; exact ⟨ha, by omega⟩
    | succ n => simp [decodePageIdLoop] at h
  | succ f ih =>
    intro w acc p h ha
    cases w with
    | zero => simp [decodePageIdLoop] at h; subst h; exact ⟨ha, by omega⟩
    | succ n =>
      rw [decodePageIdLoop_succ] at h
      have := ih _ _ _ h (by
        intro c hc
        rw [List.mem_cons] at hc
        rcases hc with e | hc
        · rw [e]; exact Nat.mod_lt _ (by decide)
        · exact ha c hc)
      refine ⟨this.1, ?_⟩
      have := this.2
      simp only [List.length_cons] at this
      omega

/-- **soundness of the decoder**: an accepted label is the encoding of the returned path, which has
depth `≤ 42` and child indices `< 64` -/
theorem decodePageId_sound (label : Nat) (p : List Nat) (h : decodePageId label = some p) :
    encodePageId p = label ∧ p.length ≤ MAX_PAGE_DEPTH ∧ ∀ c ∈ p, c < 64 := by
  unfold decodePageId at h
  split at h
  · cases h
  · cases hl : decodePageIdLoop MAX_PAGE_DEPTH (label / 64) [] with
    | none => rw [hl] at h; cases h
    | some q =>
      rw [hl] at h
      simp only at h
      split at h
      · rename_i he
        injection h with h
        subst h
        have := decodePageIdLoop_sound _ _ _ _ hl (by simp)
        exact ⟨by simpa using he, by simpa using this.2, this.1⟩
      · cases h

end Nomt.Store
