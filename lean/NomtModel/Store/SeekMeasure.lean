import NomtModel.Store.SeekSys
/-!
# The termination measure of the seek (helper lemmas for `T5_seek_total`)

A request's measure: `(257 − depth) · (2N + 6)` plus a rank inside the depth — `N` = number of b-tree leaves.  A seeking
request has rank 1 (0 while it waits for its page); a fetching request has rank `2 + 2·(leaves it may still ask for)`
plus 1 while it waits for nothing; a completed request has measure 0.  Every operation that does something lowers the
measure of the request it touches and leaves the others alone.
-/
namespace Nomt.Seek
open Nomt Nomt.Ovl Nomt.TriePos

variable {Node VH V : Type} [DecidableEq Node] [DecidableEq VH]

def waitRank (aw : Option Query) : Nat := if aw.isSome then 0 else 1

def reqMeasure (N : Nat) (r : Req Node VH V) (aw : Option Query) : Nat :=
  match r.st with
  | .completed _ => 0
  | .seeking => (257 - r.pos.depth) * (2 * N + 6) + waitRank aw
  | st => (257 - r.pos.depth) * (2 * N + 6) + 2 + 2 * (fetchPend st).getD 0 + waitRank aw

def sysMeasure (N : Nat) (s : Sys Node VH V) : Nat := (s.reqs.map (fun x => reqMeasure N x.1 x.2)).sum

theorem waitRank_le (aw : Option Query) : waitRank aw ≤ 1 := by unfold waitRank; split <;> omega

/-- a fetching request of a good system may ask for at most all the leaves -/
theorem pend_le {W : World Node VH V} {ps : PageSet Node} {r : Req Node VH V} {aw : Option Query} (h : ReqOK W ps r aw) :
    (fetchPend r.st).getD 0 ≤ W.env.leaves.length := by
  obtain ⟨_, _, hst⟩ := h
  unfold StOK at hst
  cases hs : r.st with
  | seeking => simp [fetchPend]
  | completed t => simp [fetchPend]
  | fetchingLeaf dels it needed =>
    rw [hs] at hst
    obtain ⟨_, _, _, _, hr⟩ := hst
    obtain ⟨pre, hpre⟩ := hr.shape.suffix
    simp only [fetchPend, Option.getD_some]
    rw [hpre, List.length_append]; omega
  | fetchingLeaves page range it needed coll =>
    rw [hs] at hst
    obtain ⟨_, _, _, _, _, _, _, hr⟩ := hst
    obtain ⟨pre, hpre⟩ := hr.shape.suffix
    simp only [fetchPend, Option.getD_some]
    rw [hpre, List.length_append]; omega

theorem reqMeasure_le {W : World Node VH V} {ps : PageSet Node} {r : Req Node VH V} {aw : Option Query} (h : ReqOK W ps r aw) :
    reqMeasure W.env.leaves.length r aw ≤ (257 - r.pos.depth) * (2 * W.env.leaves.length + 6) + 2 * W.env.leaves.length + 3 := by
  have hp := pend_le h
  have hw := waitRank_le aw
  unfold reqMeasure
  cases hs : r.st with
  | seeking => simp only; omega
  | completed t => simp only; omega
  | fetchingLeaf dels it needed => rw [hs] at hp; simp only; omega
  | fetchingLeaves page range it needed coll => rw [hs] at hp; simp only; omega

/-- moving down strictly lowers the measure, whatever the new state is -/
theorem measure_deeper {W : World Node VH V} {ps' : PageSet Node} {r r' : Req Node VH V} {aw : Option Query}
    (hst : r.st = .seeking) (h' : ReqOK W ps' r' none) (hd : r.pos.depth < r'.pos.depth) :
    reqMeasure W.env.leaves.length r' none < reqMeasure W.env.leaves.length r aw := by
  have hle := reqMeasure_le h'
  have hd' : r'.pos.depth ≤ 256 := h'.1.wf.depthLe
  have hr : (257 - r.pos.depth) * (2 * W.env.leaves.length + 6) ≤ reqMeasure W.env.leaves.length r aw := by
    unfold reqMeasure; rw [hst]; simp only; omega
  have e : 257 - r.pos.depth = (257 - r'.pos.depth) + (r'.pos.depth - r.pos.depth) := by omega
  have hk : (257 - r'.pos.depth) * (2 * W.env.leaves.length + 6) + (2 * W.env.leaves.length + 6) ≤
      (257 - r.pos.depth) * (2 * W.env.leaves.length + 6) := by
    rw [e, Nat.add_mul]
    apply Nat.add_le_add_left
    have : 1 ≤ r'.pos.depth - r.pos.depth := by omega
    calc 2 * W.env.leaves.length + 6 = 1 * (2 * W.env.leaves.length + 6) := by omega
      _ ≤ (r'.pos.depth - r.pos.depth) * (2 * W.env.leaves.length + 6) := Nat.mul_le_mul_right _ this
  omega

/-! ### sums over the request list -/

theorem sum_set_lt {α : Type} (f : α → Nat) : ∀ (l : List α) (i : Nat) (x y : α), l[i]? = some x → f y < f x →
    ((l.set i y).map f).sum < (l.map f).sum
  | [], i, x, y, h, _ => by simp at h
  | a :: as, 0, x, y, h, hlt => by
    simp only [List.getElem?_cons_zero, Option.some.injEq] at h
    subst h
    simp only [List.set_cons_zero, List.map_cons, List.sum_cons]
    omega
  | a :: as, i + 1, x, y, h, hlt => by
    simp only [List.getElem?_cons_succ] at h
    have := sum_set_lt f as i x y h hlt
    simp only [List.set_cons_succ, List.map_cons, List.sum_cons]
    omega

theorem sysMeasure_set (N : Nat) {s : Sys Node VH V} {i : Nat} {x y : Req Node VH V × Option Query} (hi : s.reqs[i]? = some x)
    (h : reqMeasure N y.1 y.2 < reqMeasure N x.1 x.2) (ps' : PageSet Node) (cache' : List (PageId × MPage Node)) :
    sysMeasure N { ps := ps', cache := cache', reqs := s.reqs.set i y } < sysMeasure N s := by
  unfold sysMeasure
  exact sum_set_lt (fun x => reqMeasure N x.1 x.2) s.reqs i x y hi h

theorem sysMeasure_bound {W : World Node VH V} {s : Sys Node VH V} (hs : SysInv W s) :
    sysMeasure W.env.leaves.length s ≤ s.reqs.length * (257 * (2 * W.env.leaves.length + 6) + 2 * W.env.leaves.length + 3) := by
  unfold sysMeasure
  have : ∀ l : List (Req Node VH V × Option Query), (∀ x ∈ l, ReqOK W s.ps x.1 x.2) →
      (l.map (fun x => reqMeasure W.env.leaves.length x.1 x.2)).sum ≤
        l.length * (257 * (2 * W.env.leaves.length + 6) + 2 * W.env.leaves.length + 3) := by
    intro l
    induction l with
    | nil => intro _; simp
    | cons a as ih =>
      intro h
      have h1 := reqMeasure_le (h a (List.mem_cons_self ..))
      have h2 := ih (fun x hx => h x (List.mem_cons_of_mem _ hx))
      have h3 : (257 - a.1.pos.depth) * (2 * W.env.leaves.length + 6) ≤ 257 * (2 * W.env.leaves.length + 6) :=
        Nat.mul_le_mul_right _ (by omega)
      simp only [List.map_cons, List.sum_cons, List.length_cons]
      rw [Nat.succ_mul]
      omega
  exact this s.reqs hs.reqs

theorem reqMeasure_fetch (N : Nat) {r : Req Node VH V} {n : Nat} (h : fetchPend r.st = some n) (aw : Option Query) :
    reqMeasure N r aw = (257 - r.pos.depth) * (2 * N + 6) + 2 + 2 * n + waitRank aw := by
  unfold reqMeasure
  cases hs : r.st with
  | seeking => rw [hs] at h; simp [fetchPend] at h
  | completed t => rw [hs] at h; simp [fetchPend] at h
  | fetchingLeaf dels it needed => rw [hs] at h; simp only [h, Option.getD_some]
  | fetchingLeaves page range it needed coll => rw [hs] at h; simp only [h, Option.getD_some]

theorem reqMeasure_completed (N : Nat) {r : Req Node VH V} (h : r.isCompleted = true) (aw : Option Query) :
    reqMeasure N r aw = 0 := by
  unfold reqMeasure
  unfold Req.isCompleted at h
  cases hs : r.st with
  | completed t => rfl
  | seeking => rw [hs] at h; cases h
  | fetchingLeaf dels it needed => rw [hs] at h; cases h
  | fetchingLeaves page range it needed coll => rw [hs] at h; cases h

theorem reqMeasure_seeking (N : Nat) {r : Req Node VH V} (h : r.st = .seeking) (aw : Option Query) :
    reqMeasure N r aw = (257 - r.pos.depth) * (2 * N + 6) + waitRank aw := by
  unfold reqMeasure; rw [h]

end Nomt.Seek
