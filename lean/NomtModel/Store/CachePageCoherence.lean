import NomtModel.Store.CachePageLemmas
/-!
# The page cache is transparent: coherence invariant, cached read = store read, for every operation sequence
-/
namespace Nomt.Cache
open Nomt

variable {P : Type}

/-- coherence: every cached entry is the store's latest value -/
def Coh (pc : PageCache P) (store : PStore P) : Prop := ∀ id x, pc.view id = some x → store id = some x

theorem entry_eta (e : Entry P) : (⟨e.page, e.bucket⟩ : Entry P) = e := by cases e; rfl

theorem coh_of_sub {pc pc' : PageCache P} {store : PStore P} (h : Coh pc store) (hs : Sub pc'.view pc.view) :
    Coh pc' store := fun id x hx => h id x (hs id x hx)

theorem coh_of_upd {pc pc' : PageCache P} {store : PStore P} (id : PageId) (mp : Option (Entry P))
    (h : Coh pc store) (hu : Upd pc.view pc'.view id mp) : Coh pc' (storeSet store id mp) := by
  intro k x hx
  by_cases hk : k = id
  · subst hk; simp only [storeSet, if_true]; rw [← hu.1]; exact hx
  · simp only [storeSet, hk, if_false]; exact h k x (hu.2 k hk x hx)

/-- the cached read returns what the store holds and keeps the cache coherent -/
theorem pageRead_ok (pc : PageCache P) (store : PStore P) (w : pc.WF) (h : Coh pc store) (id : PageId)
    (hv : ValidId id) :
    ∃ pc', pageRead pc store id = .ok (store id, pc') ∧ Coh pc' store ∧ Same pc pc' := by
  obtain ⟨pc1, hg, hview, hsame⟩ := pc.get_ok w id hv
  have h1 : Coh pc1 store := fun k x hx => h k x (by rw [← hview]; exact hx)
  cases hc : pc.view id with
  | some e =>
    refine ⟨pc1, ?_, h1, hsame⟩
    simp only [pageRead, hg, hc, h id e hc]
  | none =>
    cases hst : store id with
    | none => exact ⟨pc1, by simp only [pageRead, hg, hc, hst], h1, hsame⟩
    | some e =>
      obtain ⟨pc2, hi, hu, hsame2⟩ := pc1.insert_ok (hsame.wf w) id hv e
      have hc1 : pc1.view id = none := by rw [hview]; exact hc
      simp only [hc1, Option.getD_none] at hi hu
      refine ⟨pc2, by simp only [pageRead, hg, hc, hst, hi, entry_eta], ?_, hsame.trans hsame2⟩
      have := coh_of_upd id (some e) h1 hu
      intro k x hx
      have h2 := this k x hx
      by_cases hk : k = id
      · subst hk; simpa [storeSet, hst] using h2
      · simpa [storeSet, hk] using h2

theorem batchUpdate_ok (pc : PageCache P) (store : PStore P) (w : pc.WF) (h : Coh pc store)
    (ups : List (PageId × Option (Entry P))) (hv : ∀ u ∈ ups, ValidId u.1) :
    ∃ pc', pc.batchUpdate {} ups = .ok pc' ∧ Coh pc' (storeApply store ups) ∧ Same pc pc' := by
  induction ups generalizing pc store with
  | nil => exact ⟨pc, rfl, h, Same.refl pc⟩
  | cons u rest ih =>
    obtain ⟨id, mp⟩ := u
    obtain ⟨pc1, h1, hu, hs1⟩ := pc.update1_ok w id (hv (id, mp) (by simp)) mp
    obtain ⟨pc2, h2, hc2, hs2⟩ := ih pc1 (storeSet store id mp) (hs1.wf w) (coh_of_upd id mp h hu)
      (fun u hu => hv u (List.mem_cons_of_mem _ hu))
    exact ⟨pc2, by simp only [PageCache.batchUpdate, h1, h2], hc2, hs1.trans hs2⟩

theorem pageFill_ok (pc : PageCache P) (store : PStore P) (w : pc.WF) (h : Coh pc store)
    (ids : List PageId) (hv : ∀ id ∈ ids, ValidId id) :
    ∃ pc', pageFill pc store ids = .ok pc' ∧ Coh pc' store ∧ Same pc pc' := by
  induction ids generalizing pc with
  | nil => exact ⟨pc, rfl, h, Same.refl pc⟩
  | cons id rest ih =>
    have hrest : ∀ id ∈ rest, ValidId id := fun i hi => hv i (List.mem_cons_of_mem _ hi)
    cases hst : store id with
    | none =>
      obtain ⟨pc2, h2, hc2, hs2⟩ := ih pc w h hrest
      exact ⟨pc2, by simp only [pageFill, hst, h2], hc2, hs2⟩
    | some e =>
      obtain ⟨pc1, hi, hu, hs1⟩ := pc.insert_ok w id (hv id (by simp)) e
      have hc1 : Coh pc1 store := by
        intro k x hx
        by_cases hk : k = id
        · subst hk
          rw [hu.1] at hx
          cases hc : pc.view k with
          | none => simp only [hc, Option.getD_none] at hx; rw [hst]; exact hx
          | some y => simp only [hc, Option.getD_some] at hx; rw [← hx]; exact h k y hc
        · exact h k x (hu.2 k hk x hx)
      obtain ⟨pc2, h2, hc2, hs2⟩ := ih pc1 (hs1.wf w) hc1 hrest
      exact ⟨pc2, by simp only [pageFill, hst, hi, h2], hc2, hs1.trans hs2⟩

/-- shape preservation without the coherence hypothesis -/
theorem batchUpdate_same (pc : PageCache P) (w : pc.WF) (ups : List (PageId × Option (Entry P)))
    (hv : ∀ u ∈ ups, ValidId u.1) : ∃ pc', pc.batchUpdate {} ups = .ok pc' ∧ Same pc pc' := by
  induction ups generalizing pc with
  | nil => exact ⟨pc, rfl, Same.refl pc⟩
  | cons u rest ih =>
    obtain ⟨id, mp⟩ := u
    obtain ⟨pc1, h1, _, hs1⟩ := pc.update1_ok w id (hv (id, mp) (by simp)) mp
    obtain ⟨pc2, h2, hs2⟩ := ih pc1 (hs1.wf w) (fun u hu => hv u (List.mem_cons_of_mem _ hu))
    exact ⟨pc2, by simp only [PageCache.batchUpdate, h1, h2], hs1.trans hs2⟩

theorem pageFill_same (pc : PageCache P) (store : PStore P) (w : pc.WF) (ids : List PageId)
    (hv : ∀ id ∈ ids, ValidId id) : ∃ pc', pageFill pc store ids = .ok pc' ∧ Same pc pc' := by
  induction ids generalizing pc with
  | nil => exact ⟨pc, rfl, Same.refl pc⟩
  | cons id rest ih =>
    have hrest : ∀ id ∈ rest, ValidId id := fun i hi => hv i (List.mem_cons_of_mem _ hi)
    cases hst : store id with
    | none =>
      obtain ⟨pc2, h2, hs2⟩ := ih pc w hrest
      exact ⟨pc2, by simp only [pageFill, hst, h2], hs2⟩
    | some e =>
      obtain ⟨pc1, hi, _, hs1⟩ := pc.insert_ok w id (hv id (by simp)) e
      obtain ⟨pc2, h2, hs2⟩ := ih pc1 (hs1.wf w) hrest
      exact ⟨pc2, by simp only [pageFill, hst, hi, h2], hs1.trans hs2⟩

/-- a cached read never panics and keeps the shape, coherent or not -/
theorem pageRead_ok' (s : PState P) (w : s.pc.WF) (id : PageId) (hv : ValidId id) :
    ∃ pc' r, pageRead s.pc s.store id = .ok (r, pc') ∧ Same s.pc pc' := by
  obtain ⟨pc1, hg, _, hs1⟩ := s.pc.get_ok w id hv
  cases hc : s.pc.view id with
  | some e => exact ⟨pc1, some e, by simp only [pageRead, hg, hc], hs1⟩
  | none =>
    cases hst : s.store id with
    | none => exact ⟨pc1, none, by simp only [pageRead, hg, hc, hst], hs1⟩
    | some e =>
      obtain ⟨pc2, hi, _, hs2⟩ := pc1.insert_ok (hs1.wf w) id hv e
      exact ⟨pc2, some ⟨((pc1.view id).getD e).page, e.bucket⟩, by simp only [pageRead, hg, hc, hst, hi], hs1.trans hs2⟩

/-- the ids an operation names are representable page ids -/
def POp.Valid : POp P → Prop
  | .read id => ValidId id
  | .commit ups => ∀ u ∈ ups, ValidId u.1
  | .evict => True
  | .fill ids => ∀ id ∈ ids, ValidId id

theorem pstep_ok (s : PState P) (w : s.pc.WF) (h : Coh s.pc s.store) (op : POp P) (hv : op.Valid) :
    ∃ s', pstep {} s op = .ok (s', (prefStep s.store op).2) ∧ s'.store = (prefStep s.store op).1 ∧
      Coh s'.pc s'.store ∧ Same s.pc s'.pc := by
  cases op with
  | read id =>
    obtain ⟨pc', h1, h2, h3⟩ := pageRead_ok s.pc s.store w h id hv
    exact ⟨{ s with pc := pc' }, by simp only [pstep, h1, prefStep], rfl, h2, h3⟩
  | commit ups =>
    obtain ⟨pc', h1, h2, h3⟩ := batchUpdate_ok s.pc s.store w h ups hv
    exact ⟨{ pc := pc', store := storeApply s.store ups }, by simp only [pstep, h1, prefStep], rfl, h2, h3⟩
  | evict =>
    exact ⟨{ s with pc := s.pc.evict }, rfl, rfl, coh_of_sub h s.pc.evict_sub, s.pc.evict_same⟩
  | fill ids =>
    obtain ⟨pc', h1, h2, h3⟩ := pageFill_ok s.pc s.store w h ids hv
    exact ⟨{ s with pc := pc' }, by simp only [pstep, h1, prefStep], rfl, h2, h3⟩

theorem prun_ok (s : PState P) (w : s.pc.WF) (h : Coh s.pc s.store) (ops : List (POp P))
    (hv : ∀ op ∈ ops, op.Valid) :
    ∃ s', prun {} s ops = .ok (s', (prefRun s.store ops).2) ∧ s'.store = (prefRun s.store ops).1 ∧
      Coh s'.pc s'.store ∧ Same s.pc s'.pc := by
  induction ops generalizing s with
  | nil => exact ⟨s, rfl, rfl, h, Same.refl _⟩
  | cons op rest ih =>
    obtain ⟨s1, h1, hst1, hc1, hs1⟩ := pstep_ok s w h op (hv op (by simp))
    obtain ⟨s2, h2, hst2, hc2, hs2⟩ := ih s1 (hs1.wf w) hc1 (fun o ho => hv o (List.mem_cons_of_mem _ ho))
    refine ⟨s2, ?_, ?_, hc2, hs1.trans hs2⟩
    · simp only [prun, h1, h2, prefRun, hst1]
    · simp only [prefRun, hst2, hst1]

/-- the reference run does not see cache-only operations -/
def POp.cacheOnly : POp P → Bool
  | .evict => true
  | .fill _ => true
  | _ => false

theorem prefRun_filter (st : PStore P) (ops : List (POp P)) :
    prefRun st (ops.filter fun o => !o.cacheOnly) = prefRun st ops := by
  induction ops generalizing st with
  | nil => rfl
  | cons op rest ih =>
    cases op with
    | read id => rw [List.filter_cons_of_pos (by rfl)]; simp only [prefRun]; rw [ih]
    | commit ups => rw [List.filter_cons_of_pos (by rfl)]; simp only [prefRun]; rw [ih]
    | evict =>
      rw [List.filter_cons_of_neg (by simp [POp.cacheOnly])]
      simp only [prefRun, prefStep, List.nil_append]
      exact ih st
    | fill ids =>
      rw [List.filter_cons_of_neg (by simp [POp.cacheOnly])]
      simp only [prefRun, prefStep, List.nil_append]
      exact ih st

/-! ## a pinned page stays where `insert` wrote it -/

/-- the operation does not write page `id` (reads, evictions, fills of other pages are fine) -/
def POp.Leaves (id : PageId) : POp P → Prop
  | .commit ups => ∀ u ∈ ups, u.1 ≠ id
  | _ => True

theorem Shard.getOrInsert_pin (fl : Nat) (s : Shard P) (id k : PageId) (e : Entry P) (hne : k ≠ id)
    (hk : k.length ≤ fl) : (s.getOrInsert fl id e).2.view fl k = s.view fl k := by
  have hne' : id ≠ k := fun h => hne h.symm
  by_cases h : id.length ≤ fl
  · cases ho : Lru.find? s.fixed id with
    | some old => rw [Shard.getOrInsert_fixed_some _ _ _ _ _ h ho]
    | none =>
      rw [Shard.getOrInsert_fixed_none _ _ _ _ h ho, Shard.view_fixed _ _ _ hk, Shard.view_fixed _ _ _ hk]
      exact Lru.find?_cons_ne hne' _ _
  · rw [Shard.getOrInsert_cached _ _ _ _ h, Shard.view_fixed _ _ _ hk, Shard.view_fixed _ _ _ hk]

theorem Shard.insert_pin (fl : Nat) (s : Shard P) (id k : PageId) (e : Entry P) (hne : k ≠ id)
    (hk : k.length ≤ fl) : (s.insert {} fl id e).view fl k = s.view fl k := by
  have hne' : id ≠ k := fun h => hne h.symm
  by_cases h : id.length ≤ fl
  · rw [Shard.insert_fixed _ _ _ _ h, Shard.view_fixed _ _ _ hk, Shard.view_fixed _ _ _ hk]
    simp only [Lru.find?_cons_ne hne', Lru.find?_erase_ne _ hne]
  · rw [Shard.insert_cached _ _ _ _ h, Shard.view_fixed _ _ _ hk, Shard.view_fixed _ _ _ hk]

theorem Shard.remove_pin (fl : Nat) (s : Shard P) (id k : PageId) (hne : k ≠ id)
    (hk : k.length ≤ fl) : (s.remove fl id).view fl k = s.view fl k := by
  by_cases h : id.length ≤ fl
  · rw [Shard.remove_fixed _ _ _ h, Shard.view_fixed _ _ _ hk, Shard.view_fixed _ _ _ hk]
    exact Lru.find?_erase_ne _ hne
  · rw [Shard.remove_cached _ _ _ h, Shard.view_fixed _ _ _ hk, Shard.view_fixed _ _ _ hk]

theorem keep_lift (pc : PageCache P) (a : Nat) (s s' : Shard P)
    (hlt : Shards.indexFor pc.shards.length a < pc.shards.length)
    (hs : pc.shards[Shards.indexFor pc.shards.length a]? = some s) (k : PageId)
    (hkeep : s'.view pc.fixedLevels k = s.view pc.fixedLevels k) :
    ({ pc with shards := pc.shards.set (Shards.indexFor pc.shards.length a) s' } : PageCache P).view k = pc.view k := by
  cases k with
  | nil => rfl
  | cons b u =>
    by_cases hb : Shards.indexFor pc.shards.length a = Shards.indexFor pc.shards.length b
    · rw [view_set_same pc _ s' b u hb hlt, hkeep]
      simp only [PageCache.view, ← hb, hs]
    · rw [view_set_other pc _ s' b u hb]

/-- `PageCache::insert` of another page leaves a pinned page alone -/
theorem PageCache.insert_pin (pc : PageCache P) (w : pc.WF) (id : PageId) (hv : ValidId id) (e : Entry P)
    (k : PageId) (hne : k ≠ id) (hk : k.length ≤ pc.fixedLevels) (r : Entry P) (pc' : PageCache P)
    (h : pc.insert id e = .ok (r, pc')) : pc'.view k = pc.view k := by
  cases id with
  | nil =>
    cases hr : pc.root with
    | some r0 => simp [PageCache.insert, PageCache.shardIndexFor, hr] at h; rw [← h.2]
    | none =>
      simp [PageCache.insert, PageCache.shardIndexFor, hr] at h
      rw [← h.2]
      cases k with
      | nil => exact absurd rfl hne
      | cons b u => rfl
  | cons a t =>
    have ha : a < 64 := hv a (by simp)
    obtain ⟨s, h1, h2, hs, _⟩ := pc.shard_of w a t ha
    simp only [PageCache.insert, h1, hs, Outcome.ok.injEq, Prod.mk.injEq] at h
    rw [← h.2]
    exact keep_lift pc a s _ h2 hs k (Shard.getOrInsert_pin _ _ _ _ _ hne hk)

theorem PageCache.update1_pin (pc : PageCache P) (w : pc.WF) (id : PageId) (hv : ValidId id) (mp : Option (Entry P))
    (k : PageId) (hne : k ≠ id) (hk : k.length ≤ pc.fixedLevels) (pc' : PageCache P)
    (h : pc.update1 {} id mp = .ok pc') : pc'.view k = pc.view k := by
  cases id with
  | nil =>
    simp [PageCache.update1] at h
    rw [← h]
    cases k with
    | nil => exact absurd rfl hne
    | cons b u => rfl
  | cons a t =>
    have ha : a < 64 := hv a (by simp)
    obtain ⟨s, h1, h2, hs, _⟩ := pc.shard_of w a t ha
    cases mp with
    | some e =>
      simp [PageCache.update1, h1, hs] at h
      rw [← h]
      exact keep_lift pc a s _ h2 hs k (Shard.insert_pin _ _ _ _ _ hne hk)
    | none =>
      simp [PageCache.update1, h1, hs] at h
      rw [← h]
      exact keep_lift pc a s _ h2 hs k (Shard.remove_pin _ _ _ _ hne hk)

/-- one operation that does not write `k` leaves the pinned entry of `k` where it is -/
theorem pstep_pin (s : PState P) (w : s.pc.WF) (op : POp P) (hv : op.Valid) (k : PageId) (e : Entry P)
    (hl : op.Leaves k) (hk : k.length ≤ s.pc.fixedLevels) (hview : s.pc.view k = some e)
    (s' : PState P) (o : List (Option (Entry P))) (h : pstep {} s op = .ok (s', o)) :
    s'.pc.view k = some e := by
  cases op with
  | read id =>
    obtain ⟨pc1, hg, hv1, hs1⟩ := s.pc.get_ok w id hv
    simp only [pstep, pageRead, hg] at h
    cases hc : s.pc.view id with
    | some x =>
      simp only [hc] at h
      cases h; simp only [hv1]; exact hview
    | none =>
      simp only [hc] at h
      cases hst : s.store id with
      | none => simp only [hst] at h; cases h; simp only [hv1]; exact hview
      | some y =>
        simp only [hst] at h
        obtain ⟨pc2, hi, hu, hs2⟩ := pc1.insert_ok (hs1.wf w) id hv y
        simp only [hi] at h
        cases h
        have hne : k ≠ id := by intro he; subst he; rw [hc] at hview; cases hview
        have := PageCache.insert_pin pc1 (hs1.wf w) id hv y k hne (by rw [hs1.2.1]; exact hk) _ pc2 hi
        simp only [this, hv1]; exact hview
  | commit ups =>
    simp only [pstep] at h
    cases hb : s.pc.batchUpdate {} ups with
    | ok pc' =>
      simp only [hb] at h; cases h
      -- induction over the list
      have key : ∀ (ups : List (PageId × Option (Entry P))) (pc pc' : PageCache P), pc.WF →
          (∀ u ∈ ups, ValidId u.1) → (∀ u ∈ ups, u.1 ≠ k) → k.length ≤ pc.fixedLevels →
          pc.batchUpdate {} ups = .ok pc' → pc'.view k = pc.view k := by
        intro ups
        induction ups with
        | nil => intro pc pc' _ _ _ _ h; simp [PageCache.batchUpdate] at h; rw [h]
        | cons u rest ih =>
          intro pc pc' w hv hl hk h
          obtain ⟨id, mp⟩ := u
          obtain ⟨pc1, h1, _, hs1⟩ := pc.update1_ok w id (hv (id, mp) (by simp)) mp
          simp only [PageCache.batchUpdate, h1] at h
          have hne : k ≠ id := fun he => hl (id, mp) (by simp) he.symm
          rw [ih pc1 pc' (hs1.wf w) (fun u hu => hv u (List.mem_cons_of_mem _ hu))
            (fun u hu => hl u (List.mem_cons_of_mem _ hu)) (by rw [hs1.2.1]; exact hk) h]
          exact PageCache.update1_pin pc w id (hv (id, mp) (by simp)) mp k hne hk pc1 h1
      simp only [key ups s.pc pc' w hv hl hk hb]; exact hview
    | panic m => simp [hb] at h
    | err x => simp [hb] at h
  | evict =>
    simp only [pstep] at h; cases h
    simp only [PageCache.evict_pinned s.pc k hk]; exact hview
  | fill ids =>
    simp only [pstep] at h
    cases hb : pageFill s.pc s.store ids with
    | ok pc' =>
      simp only [hb] at h; cases h
      have key : ∀ (ids : List PageId) (pc pc' : PageCache P), pc.WF → (∀ id ∈ ids, ValidId id) →
          k.length ≤ pc.fixedLevels → pc.view k = some e → pageFill pc s.store ids = .ok pc' →
          pc'.view k = some e := by
        intro ids
        induction ids with
        | nil => intro pc pc' _ _ _ hview h; simp [pageFill] at h; rw [← h]; exact hview
        | cons id rest ih =>
          intro pc pc' w hv hk hview h
          have hrest : ∀ id ∈ rest, ValidId id := fun i hi => hv i (List.mem_cons_of_mem _ hi)
          cases hst : s.store id with
          | none => simp only [pageFill, hst] at h; exact ih pc pc' w hrest hk hview h
          | some y =>
            obtain ⟨pc1, hi, hu, hs1⟩ := pc.insert_ok w id (hv id (by simp)) y
            simp only [pageFill, hst, hi] at h
            refine ih pc1 pc' (hs1.wf w) hrest (by rw [hs1.2.1]; exact hk) ?_ h
            by_cases hne : k = id
            · subst hne; rw [hu.1, hview]; rfl
            · rw [PageCache.insert_pin pc w id (hv id (by simp)) y k hne hk _ pc1 hi]; exact hview
      exact key ids s.pc pc' w hv hk hview hb
    | panic m => simp [hb] at h
    | err x => simp [hb] at h

theorem prun_pin (s : PState P) (w : s.pc.WF) (ops : List (POp P)) (hv : ∀ op ∈ ops, op.Valid) (k : PageId)
    (e : Entry P) (hl : ∀ op ∈ ops, op.Leaves k) (hk : k.length ≤ s.pc.fixedLevels) (hview : s.pc.view k = some e)
    (s' : PState P) (o : List (Option (Entry P))) (h : prun {} s ops = .ok (s', o)) :
    s'.pc.view k = some e := by
  induction ops generalizing s o with
  | nil => simp [prun] at h; rw [← h.1]; exact hview
  | cons op rest ih =>
    simp only [prun] at h
    cases h1 : pstep {} s op with
    | ok r =>
      obtain ⟨s1, o1⟩ := r
      simp only [h1] at h
      cases h2 : prun {} s1 rest with
      | ok r2 =>
        obtain ⟨s2, o2⟩ := r2
        simp only [h2] at h
        cases h
        have hv0 := hv op (by simp)
        have hview1 := pstep_pin s w op hv0 k e (hl op (by simp)) hk hview s1 o1 h1
        -- the shape is kept
        have hsame : Same s.pc s1.pc := by
          cases op with
          | read id =>
            obtain ⟨pc', r, hh, hs⟩ := pageRead_ok' s w id hv0
            simp only [pstep, hh] at h1; cases h1; exact hs
          | commit ups =>
            obtain ⟨pc', hh, hs⟩ := batchUpdate_same s.pc w ups hv0
            simp only [pstep, hh] at h1; cases h1; exact hs
          | evict => simp only [pstep] at h1; cases h1; exact s.pc.evict_same
          | fill ids =>
            obtain ⟨pc', hh, hs⟩ := pageFill_same s.pc s.store w ids hv0
            simp only [pstep, hh] at h1; cases h1; exact hs
        exact ih s1 (hsame.wf w) (fun o ho => hv o (List.mem_cons_of_mem _ ho))
          (fun o ho => hl o (List.mem_cons_of_mem _ ho)) (by rw [hsame.2.1]; exact hk) hview1 o2 h2
      | panic m => simp [h2] at h
      | err x => simp [h2] at h
    | panic m => simp [h1] at h
    | err x => simp [h1] at h

/-- no panic site on any valid operation sequence, coherent cache or not (also outside the callers' protocol) -/
theorem prun_total (ops : List (POp P)) (s : PState P) (w : s.pc.WF) (hv : ∀ op ∈ ops, op.Valid) :
    ∃ s' o, prun {} s ops = .ok (s', o) ∧ Same s.pc s'.pc := by
  induction ops generalizing s with
  | nil => exact ⟨s, [], rfl, Same.refl _⟩
  | cons op rest ih =>
    have hv0 := hv op (by simp)
    have h1 : ∃ s1 o1, pstep {} s op = .ok (s1, o1) ∧ Same s.pc s1.pc := by
      cases op with
      | read id =>
        obtain ⟨pc', r, hh, hs⟩ := pageRead_ok' s w id hv0
        exact ⟨{ s with pc := pc' }, [r], by simp only [pstep, hh], hs⟩
      | commit ups =>
        obtain ⟨pc', hh, hs⟩ := batchUpdate_same s.pc w ups hv0
        exact ⟨{ pc := pc', store := storeApply s.store ups }, [], by simp only [pstep, hh], hs⟩
      | evict => exact ⟨{ s with pc := s.pc.evict }, [], rfl, s.pc.evict_same⟩
      | fill ids =>
        obtain ⟨pc', hh, hs⟩ := pageFill_same s.pc s.store w ids hv0
        exact ⟨{ s with pc := pc' }, [], by simp only [pstep, hh], hs⟩
    obtain ⟨s1, o1, e1, sm1⟩ := h1
    obtain ⟨s2, o2, e2, sm2⟩ := ih s1 (sm1.wf w) (fun o ho => hv o (List.mem_cons_of_mem _ ho))
    exact ⟨s2, o1 ++ o2, by simp only [prun, e1, e2], sm1.trans sm2⟩

end Nomt.Cache
