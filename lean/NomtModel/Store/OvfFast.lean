import NomtModel.Store.OvfModel
/-!
`chunk` for the driver: the same loop carrying the length of the rest of the value instead of recomputing it on
every page (`List.length` is linear), so that values of several MiB (more than 1038 pages: pages that hold nothing
but page numbers) can be run.  `chunkFast_eq`: it is the model's `chunk`.
-/
namespace Nomt.Ovf
open Nomt.Wal (Bytes)

def chunkLoopFast (junk : Nat → Bytes) : Nat → List Nat → List Nat → Bytes → Nat → Option (List (Nat × Bytes))
  | _, [], _, value, _ => if value.isEmpty then some [] else none
  | i, pn :: rest, toWrite, value, len =>
    if value.isEmpty then none
    else
      let pns := toWrite.take MAX_PNS
      let bytes := min (BODY_SIZE - pns.length * 4) len
      match chunkLoopFast junk (i + 1) rest (toWrite.drop MAX_PNS) (value.drop bytes) (len - bytes) with
      | none => none
      | some ws => some ((pn, mkPage (junk i) pns (value.take bytes)) :: ws)

theorem chunkLoopFast_eq (junk : Nat → Bytes) : ∀ (all : List Nat) (i : Nat) (tw : List Nat) (val : Bytes),
    chunkLoopFast junk i all tw val val.length = chunkLoop junk i all tw val
  | [], _, _, _ => rfl
  | pn :: rest, i, tw, val => by
    have ih := chunkLoopFast_eq junk rest (i + 1) (tw.drop MAX_PNS)
      (val.drop (min (BODY_SIZE - (tw.take MAX_PNS).length * 4) val.length))
    rw [List.length_drop] at ih
    simp only [chunkLoopFast, chunkLoop, ih]
    rfl

def chunkFast (value : Bytes) (alloc : Nat → Nat) (junk : Nat → Bytes) : Option ChunkOut :=
  if value.isEmpty then none
  else
    let total := totalNeededPages value.length
    let cellPages := min total MAX_CELL_PNS
    let cell := (List.range cellPages).map alloc
    let other := (List.range (total - cellPages)).map (fun i => alloc (cellPages + i))
    match chunkLoopFast junk 0 (cell ++ other) other value value.length with
    | none => none
    | some ws => some ⟨cell, total, ws⟩

theorem chunkFast_eq (value : Bytes) (alloc : Nat → Nat) (junk : Nat → Bytes) :
    chunkFast value alloc junk = chunk value alloc junk := by
  simp only [chunkFast, chunk, chunkLoopFast_eq]
  rfl

end Nomt.Ovf
