import NomtModel.Store.LeafUpdConsume
/-!
# `consume_and_update_until` as a whole, `try_build_leaves`

`SepOK sepf KB`: what the proofs need of `separate` on keys below `KB` (`= 2^256` for the real one):
for `a < b` it does not panic and returns a key in `(a, b]`.

`try_build_leaves(target)` on a well-formed, ascending op list with cells of at most `MAX_LEAF_VALUE_SIZE` bytes and
`LEAF_MERGE_THRESHOLD ≤ target ≤ LEAF_NODE_BODY_SIZE`: no panic; the produced leaves followed by what the remaining
ops stand for are exactly what the ops stood for; every leaf holds at most `LEAF_NODE_BODY_SIZE` and at least
`min(target, LEAF_NODE_BODY_SIZE - 34 - MAX_LEAF_VALUE_SIZE + 1)` bytes; the remaining ops are below the target and the
gauge is theirs; the separators form a chain (`SepChain`).
-/
namespace Nomt.LeafUpd
variable {V : Type} [CellSize V]

/-- ascending keys -/
def Sorted (l : List (Entry V)) : Prop := l.Pairwise (fun a b => a.key < b.key)

def KeysBelow (KB : Nat) (l : List (Entry V)) : Prop := ∀ e ∈ l, e.key < KB

def SepOK (sepf : Nat → Nat → Option Nat) (KB : Nat) : Prop :=
  ∀ a b, a < b → b < KB → ∃ s, sepf a b = some s ∧ a < s ∧ s ≤ b

theorem Sorted.append_left {a b : List (Entry V)} (h : Sorted (a ++ b)) : Sorted a := (List.pairwise_append.1 h).1
theorem Sorted.append_right {a b : List (Entry V)} (h : Sorted (a ++ b)) : Sorted b := (List.pairwise_append.1 h).2.1
theorem Sorted.lt_of_append {a b : List (Entry V)} (h : Sorted (a ++ b)) :
    ∀ x ∈ a, ∀ y ∈ b, x.key < y.key := (List.pairwise_append.1 h).2.2

theorem getLast?_some_of_ne_nil : ∀ {l : List α}, l ≠ [] → ∃ x, l.getLast? = some x
  | [], h => absurd rfl h
  | [x], _ => ⟨x, rfl⟩
  | _ :: y :: r, _ => by
    obtain ⟨x, hx⟩ := getLast?_some_of_ne_nil (l := y :: r) (by simp)
    exact ⟨x, by rw [List.getLast?_cons_cons]; exact hx⟩

theorem Sorted.le_getLast {l : List (Entry V)} (h : Sorted l) {x : Entry V} (hx : l.getLast? = some x) :
    ∀ e ∈ l, e.key ≤ x.key := by
  induction l with
  | nil => intro e he; simp at he
  | cons a r ih =>
    cases r with
    | nil =>
      simp at hx; subst hx
      intro e he; simp at he; subst he; exact Nat.le_refl _
    | cons b r' =>
      rw [List.getLast?_cons_cons] at hx
      have hs := List.pairwise_cons.1 h
      intro e he
      rcases List.mem_cons.1 he with rfl | he
      · exact Nat.le_of_lt (hs.1 x (List.mem_of_getLast? hx))
      · exact ih hs.2 hx e he

/-! ## `consume_and_update_until` -/

theorem consume_spec (b? : Option (Base V)) (todo : List (Op V)) (target : Nat)
    (hwf : WF b? todo) (hsz : SizeOK (den b? todo)) (h1 : MERGE ≤ target) (h2 : target ≤ BODY) :
    ∃ done todo' g ok, consume b? todo target = some (done, todo', g, ok) ∧
      den b? done ++ den b? todo' = den b? todo ∧ WF b? done ∧ WF b? todo' ∧ g = gaugeOf (den b? done) ∧
      bodyOf (den b? done) ≤ BODY ∧
      (ok = true → done ≠ [] ∧ (target ≤ bodyOf (den b? done) ∨ BODY < bodyOf (den b? done) + 34 + MAXV)) ∧
      (ok = false → todo' = [] ∧ bodyOf (den b? done) < target) := by
  have hfuel : mu b? todo < 2 * opsCount todo + 2 := by
    have := mu_le b? todo
    rw [opsCount_eq_of_wf hwf]; omega
  obtain ⟨r, e, o⟩ := consumeLoop_spec b? target h2 _ {} [] todo (by simpa using hwf) hsz (by simp)
    (by simp [Gauge.body, bodySize]) hfuel
  obtain ⟨g, done, todo', flag⟩ := r
  have hden := o.den_eq
  have hw := wf_append.1 o.wf
  have hg : g = gaugeOf (den b? done) := o.gauge
  have hb : g.body = bodyOf (den b? done) := by rw [hg]; rfl
  have hle := o.le_body
  simp only at hden hw hle
  simp only [den_nil, List.nil_append] at hden
  have hmerge := MERGE_eq
  have hbody := BODY_eq
  have hmaxv := MAXV_eq
  refine ⟨done, todo', g, decide (g.body ≥ target) || flag, ?_, hden, hw.1, hw.2, hg, by omega, ?_, ?_⟩
  · simp [consume, Nat.not_lt.mpr h1, e]
  · intro hok
    have hcase : target ≤ bodyOf (den b? done) ∨ BODY < bodyOf (den b? done) + 34 + MAXV := by
      simp only [Bool.or_eq_true, decide_eq_true_eq] at hok
      rcases hok with h | h
      · left; omega
      · right; have := (o.flag h).2.1; simp only at this; omega
    refine ⟨?_, hcase⟩
    intro hd
    subst hd
    simp at hcase
    omega
  · intro hok
    simp only [Bool.or_eq_false_iff, decide_eq_false_iff_not] at hok
    have := o.noflag hok.2 (by simp only; omega)
    simp only at this
    exact ⟨this, by omega⟩

/-! ## separators -/

/-- the separators of consecutive leaves, when more content follows behind them: the first leaf gets `lo`, every
leaf's keys are at least its separator and below the separator of the next one (`lo'` behind the last leaf), and the
cutoff handed to `handle_new_leaf` is that next separator -/
def SepChain : Nat → List (Leaf V) → Nat → Prop
  | lo, [], lo' => lo' = lo
  | lo, l :: ls, lo' =>
    l.sep = lo ∧ (∀ e ∈ l.ents, lo ≤ e.key) ∧
      ∃ s, (∀ e ∈ l.ents, e.key < s) ∧ l.cutoff = some s ∧ SepChain s ls lo'

/-- the same when nothing follows: the last leaf is handed the updater's own cutoff `fin` -/
def SepChainEnd (fin : Option Nat) : Nat → List (Leaf V) → Prop
  | _, [] => True
  | lo, [l] => l.sep = lo ∧ (∀ e ∈ l.ents, lo ≤ e.key) ∧ l.cutoff = fin
  | lo, l :: l2 :: ls =>
    l.sep = lo ∧ (∀ e ∈ l.ents, lo ≤ e.key) ∧
      ∃ s, (∀ e ∈ l.ents, e.key < s) ∧ l.cutoff = some s ∧ SepChainEnd fin s (l2 :: ls)

theorem SepChain.append {lo lo1 lo2 : Nat} : ∀ {l1 l2 : List (Leaf V)},
    SepChain lo l1 lo1 → SepChain lo1 l2 lo2 → SepChain lo (l1 ++ l2) lo2
  | [], _, h1, h2 => by simp only [SepChain] at h1; subst h1; simpa using h2
  | l :: ls, l2, h1, h2 => by
    obtain ⟨a, b, s, c, d, e⟩ := h1
    exact ⟨a, b, s, c, d, SepChain.append e h2⟩

theorem SepChain.append_end {fin : Option Nat} {lo1 : Nat} {l2 : List (Leaf V)} (hne : l2 ≠ []) :
    ∀ {l1 : List (Leaf V)} {lo : Nat}, SepChain lo l1 lo1 → SepChainEnd fin lo1 l2 → SepChainEnd fin lo (l1 ++ l2) := by
  intro l1
  induction l1 with
  | nil => intro lo h1 h2; simp only [SepChain] at h1; subst h1; simpa using h2
  | cons l ls ih =>
    intro lo h1 h2
    obtain ⟨a, b, s, c, d, e⟩ := h1
    have := ih e h2
    cases hh : ls ++ l2 with
    | nil => simp at hh; exact absurd hh.2 hne
    | cons y ys =>
      rw [hh] at this
      show SepChainEnd fin lo (l :: (ls ++ l2))
      rw [hh]
      exact ⟨a, b, s, c, d, this⟩

theorem opFirstKey_of_wf {b? : Option (Base V)} {op : Op V} (h : OpOK b? op) :
    ∃ e, (denOp b? op).head? = some e ∧ opFirstKey b? op = some e.key := by
  cases op with
  | ins e => exact ⟨e, rfl, rfl⟩
  | keep f t vs =>
    obtain ⟨h0, h1, h2, _⟩ := h
    cases b? with
    | none => simp at h0
    | some b =>
      simp only [baseEnts] at h2
      have hf : f < b.ents.length := by omega
      refine ⟨b.ents[f], ?_, ?_⟩
      · simp only [denOp, baseEnts]; rw [slice_cons_of_lt _ _ _ h1 hf]; rfl
      · simp [opFirstKey, List.getElem?_eq_getElem hf]

/-! ## `try_build_leaves` -/

structure BuildOut (target : Nat) (fin : Option Nat) (lo : Nat) (st st' : St V) (leaves : List (Leaf V)) : Prop where
  base : st'.base = st.base
  cutoff : st'.cutoff = st.cutoff
  den_eq : leaves.flatMap (·.ents) ++ den st.base st'.ops = den st.base st.ops
  wf : WF st.base st'.ops
  gauge : st'.gauge = gaugeOf (den st.base st'.ops)
  below : bodyOf (den st.base st'.ops) < target
  sizes : ∀ l ∈ leaves, l.ents ≠ [] ∧ bodyOf l.ents ≤ BODY ∧ (target ≤ bodyOf l.ents ∨ BODY < bodyOf l.ents + 34 + MAXV)
  nil_sep : leaves = [] → st'.sepOv = st.sepOv
  chain_more : den st.base st'.ops ≠ [] →
    ∃ lo', SepChain lo leaves lo' ∧ separator st' = lo' ∧ ∀ e ∈ den st.base st'.ops, lo' ≤ e.key
  chain_end : den st.base st'.ops = [] → SepChainEnd fin lo leaves
  done_sep : leaves ≠ [] → den st.base st'.ops = [] → st'.sepOv = none

theorem buildLoop_spec (sepf : Nat → Nat → Option Nat) (KB : Nat) (hsep : SepOK sepf KB) (target : Nat)
    (h1 : MERGE ≤ target) (h2 : target ≤ BODY) :
    ∀ fuel (st : St V) (first : Bool) (acc : List (Leaf V)) (lo : Nat),
      WF st.base st.ops → SizeOK (den st.base st.ops) → Sorted (den st.base st.ops) → KeysBelow KB (den st.base st.ops) →
      (den st.base st.ops).length + 1 < fuel →
      (first = true → BODY < bodyOf (den st.base st.ops) ∧ lo = separator st) →
      (first = false → den st.base st.ops ≠ [] → st.sepOv = some lo) →
      (first = false → den st.base st.ops = [] → st.sepOv = none) →
      (∀ e ∈ den st.base st.ops, lo ≤ e.key) →
      ∃ st' leaves, buildLoop sepf target fuel st first acc = some (st', acc ++ leaves) ∧
        BuildOut target st.cutoff lo st st' leaves := by
  intro fuel
  induction fuel with
  | zero => intro st first acc lo _ _ _ _ h; omega
  | succ fuel ih =>
    intro st first acc lo hwf hsz hsort hkb hfuel hfirst hnf hnf0 hlo
    obtain ⟨done, todo, g, ok, ec, hden, hwd, hwt, hg, hbd, hok, hnok⟩ := consume_spec st.base st.ops target hwf hsz h1 h2
    simp only [buildLoop, ec]
    cases ok with
    | false =>
      obtain ⟨ht, hlt⟩ := hnok rfl
      subst ht
      simp only [den_nil, List.append_nil] at hden
      refine ⟨{ st with ops := done ++ [], gauge := g }, [], by simp, ?_⟩
      refine ⟨rfl, rfl, by simp [hden], by simpa using hwd, by simp [hg], by simpa using hlt, by simp, fun _ => rfl,
        ?_, fun _ => trivial, by simp⟩
      intro hne
      refine ⟨lo, rfl, ?_⟩
      simp only [List.append_nil, hden] at hne ⊢
      refine ⟨?_, hlo⟩
      cases first with
      | true => simp only [separator]; exact (hfirst rfl).2.symm
      | false => simp only [separator, hnf rfl hne]
    | true =>
      obtain ⟨hdne, hsize⟩ := hok rfl
      have hents_ne : den st.base done ≠ [] := by
        intro h; rw [h] at hsize; simp at hsize
        have := MERGE_eq; have := BODY_eq; have := MAXV_eq; omega
      have hbl : buildLeaf st.base done = some (den st.base done) := buildLeaf_of_wf hwd hbd
      have hsort' : Sorted (den st.base done ++ den st.base todo) := by rw [hden]; exact hsort
      -- the separator of this leaf
      have hsepr : (if first = true then some (separator st) else st.sepOv) = some lo := by
        cases first with
        | true => simp [(hfirst rfl).2]
        | false =>
          simp only [Bool.false_eq_true, if_false]
          exact hnf rfl (by rw [← hden]; simp [hents_ne])
      simp only [hsepr, hbl]
      have hlo_done : ∀ e ∈ den st.base done, lo ≤ e.key := fun e he => hlo e (by rw [← hden]; simp [he])
      obtain ⟨last, hlast⟩ := getLast?_some_of_ne_nil hents_ne
      have hlast_max := hsort'.append_left.le_getLast hlast
      have hlast_mem : last ∈ den st.base done := List.mem_of_getLast? hlast
      cases todo with
      | nil =>
        -- everything was consumed: impossible for the first leaf, the end of the loop otherwise
        simp only [den_nil, List.append_nil] at hden
        cases first with
        | true =>
          exfalso
          have := (hfirst rfl).1
          rw [← hden] at this; omega
        | false =>
          simp only [List.head?_nil, Bool.false_eq_true, if_false]
          -- the next iteration finds nothing
          have hnext : ∀ (acc' : List (Leaf V)),
              buildLoop sepf target fuel ({ st with sepOv := none, ops := [] } : St V) false acc' =
                some ({ st with sepOv := none, ops := [], gauge := {} }, acc') := by
            intro acc'
            cases fuel with
            | zero =>
              exfalso
              have : 0 < (den st.base st.ops).length := by
                rw [← hden]; exact List.length_pos_iff.2 hents_ne
              omega
            | succ fuel =>
              have hm := MERGE_eq
              have : ¬ target < MERGE := by omega
              have hb0 : ¬ ((({} : Gauge).body) ≥ target) := by simp [Gauge.body, bodySize]; omega
              simp [buildLoop, consume, this, opsCount, consumeLoop, hb0]
          rw [hnext]
          refine ⟨_, [⟨lo, den st.base done, st.cutoff⟩], rfl, ?_⟩
          refine ⟨rfl, rfl, by simp [hden], WF.nil _, by simp, ?_, ?_, by simp, by simp, ?_, fun _ _ => rfl⟩
          · simp only [den_nil, bodyOf_nil]; have := MERGE_eq; omega
          · intro l hl; simp at hl; subst hl; exact ⟨hents_ne, hbd, hsize⟩
          · intro _; exact ⟨rfl, hlo_done, rfl⟩
      | cons op rest =>
        have hop := (wf_cons.1 hwt).1
        obtain ⟨nx, hnx, hfk⟩ := opFirstKey_of_wf hop
        have hnx_mem : nx ∈ den st.base (op :: rest) := by
          simp only [den_cons]; exact List.mem_append_left _ (List.mem_of_mem_head? hnx)
        have hlt : last.key < nx.key := hsort'.lt_of_append last hlast_mem nx hnx_mem
        have hnxkb : nx.key < KB := hkb nx (by rw [← hden]; exact List.mem_append_right _ hnx_mem)
        obtain ⟨s, hs, hs1, hs2⟩ := hsep last.key nx.key hlt hnxkb
        simp only [List.head?_cons, hfk, hlast, hs, Option.map_some]
        -- the remaining ops
        have hsort_t : Sorted (den st.base (op :: rest)) := hsort'.append_right
        have hnx_min : ∀ e ∈ den st.base (op :: rest), nx.key ≤ e.key := by
          intro e he
          have hh : (den st.base (op :: rest)).head? = some nx := by
            simp only [den_cons]; rw [List.head?_append, hnx]; rfl
          cases hd : den st.base (op :: rest) with
          | nil => rw [hd] at he; simp at he
          | cons a r =>
            rw [hd] at hh he hsort_t
            simp at hh; subst hh
            rcases List.mem_cons.1 he with rfl | he
            · exact Nat.le_refl _
            · exact Nat.le_of_lt ((List.pairwise_cons.1 hsort_t).1 e he)
        have hlen : (den st.base (op :: rest)).length < (den st.base st.ops).length := by
          rw [← hden, List.length_append]
          have := List.length_pos_iff.2 hents_ne; omega
        let st1 : St V := if first = true then st else { st with sepOv := none }
        have hst1 : ({ st1 with sepOv := some s, ops := op :: rest } : St V) =
            { st with sepOv := some s, ops := op :: rest } := by
          simp only [st1]; cases first <;> rfl
        obtain ⟨st', leaves, er, o⟩ := ih ({ st with sepOv := some s, ops := op :: rest } : St V) false
          (acc ++ [⟨lo, den st.base done, some s⟩]) s hwt
          (fun e he => hsz e (by rw [← hden]; exact List.mem_append_right _ he)) hsort_t
          (fun e he => hkb e (by rw [← hden]; exact List.mem_append_right _ he))
          (by simp only; omega) (by simp) (fun _ _ => rfl)
          (fun _ hn => absurd (List.ne_nil_of_mem hnx_mem) (by simpa using hn))
          (fun e he => Nat.le_trans hs2 (hnx_min e he))
        refine ⟨st', ⟨lo, den st.base done, some s⟩ :: leaves, ?_, ?_⟩
        · show buildLoop sepf target fuel ({ st1 with sepOv := some s, ops := op :: rest } : St V) false _ = _
          rw [hst1, er]; simp
        · have hleaf_lt : ∀ e ∈ den st.base done, e.key < s :=
            fun e he => Nat.lt_of_le_of_lt (hlast_max e he) hs1
          have hrem_ne : leaves = [] → den st.base st'.ops ≠ [] := by
            intro hl hn
            have := o.den_eq
            rw [hl, hn] at this
            simp only [List.flatMap_nil, List.nil_append] at this
            exact List.ne_nil_of_mem hnx_mem this.symm
          refine ⟨o.base, o.cutoff, ?_, o.wf, o.gauge, o.below, ?_, by simp, ?_, ?_, ?_⟩
          · simp only [List.flatMap_cons, List.append_assoc]
            rw [o.den_eq, hden]
          · intro l hl
            rcases List.mem_cons.1 hl with rfl | hl
            · exact ⟨hents_ne, hbd, hsize⟩
            · exact o.sizes l hl
          · intro hn
            obtain ⟨lo', hch, hrem⟩ := o.chain_more hn
            exact ⟨lo', ⟨rfl, hlo_done, s, hleaf_lt, rfl, hch⟩, hrem⟩
          · intro hn
            have hce := o.chain_end hn
            cases leaves with
            | nil => exact absurd hn (hrem_ne rfl)
            | cons l ls => exact ⟨rfl, hlo_done, s, hleaf_lt, rfl, hce⟩
          · intro _ hn
            cases leaves with
            | nil => exact absurd hn (hrem_ne rfl)
            | cons l ls => exact o.done_sep (by simp) hn

theorem tryBuildLeaves_spec (sepf : Nat → Nat → Option Nat) (KB : Nat) (hsep : SepOK sepf KB) (target : Nat)
    (h1 : MERGE ≤ target) (h2 : target ≤ BODY) (st : St V)
    (hwf : WF st.base st.ops) (hsz : SizeOK (den st.base st.ops)) (hsort : Sorted (den st.base st.ops))
    (hkb : KeysBelow KB (den st.base st.ops)) (hbig : BODY < bodyOf (den st.base st.ops))
    (hlo : ∀ e ∈ den st.base st.ops, separator st ≤ e.key) :
    ∃ st' leaves, tryBuildLeaves sepf st target = some (st', leaves) ∧
      BuildOut target st.cutoff (separator st) st st' leaves := by
  obtain ⟨st', leaves, e, o⟩ := buildLoop_spec sepf KB hsep target h1 h2 (opsCount st.ops + 2) st true [] (separator st)
    hwf hsz hsort hkb (by rw [opsCount_eq_of_wf hwf]; omega) (fun _ => ⟨hbig, rfl⟩) (by simp) (by simp) hlo
  exact ⟨st', leaves, by simpa [tryBuildLeaves] using e, o⟩

end Nomt.LeafUpd
