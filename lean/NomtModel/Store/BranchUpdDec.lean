import NomtModel.Store.BranchUpdRun
/-!
# Branch stage: the guards of the theorems are decidable (for the non-vacuity examples and the counterexamples)
-/
namespace Nomt.BranchUpd

instance (L : List Nat) : Decidable (SortedK L) := inferInstanceAs (Decidable (L.Pairwise (· < ·)))
instance (L : List Nat) : Decidable (Below L) := inferInstanceAs (Decidable (∀ k ∈ L, k < 2 ^ 256))

/-- `NodeOK` as a conjunction of decidable statements -/
def NodeOK' (kf : KF) (nd : Node) : Prop :=
  nd.items ≠ [] ∧ SortedK nd.keys ∧ Below nd.keys ∧ 1 ≤ nd.pc ∧ nd.pc ≤ nd.items.length ∧ nd.pl ≤ 256 ∧
    (∀ it ∈ nd.items.take nd.pc, top it.key nd.pl = top ((nd.items.head?.map (·.key)).getD 0) nd.pl) ∧
    (∀ i (h : i < nd.items.length),
      nd.items[i].slen = if i < nd.pc then kf.sl nd.items[i].key - nd.pl else kf.sl nd.items[i].key)

instance (kf : KF) (nd : Node) : Decidable (NodeOK' kf nd) := by unfold NodeOK'; infer_instance

theorem nodeOK_iff (kf : KF) (nd : Node) : NodeOK kf nd ↔ NodeOK' kf nd := by
  constructor
  · intro h
    refine ⟨h.ne, h.sorted, h.below, h.pc_pos, h.pc_le, h.pl_le, ?_, h.canon⟩
    intro it hit
    obtain ⟨f, r, hfr⟩ := List.exists_cons_of_ne_nil h.ne
    have hh : nd.items.head? = some f := by rw [hfr]; rfl
    rw [h.share f hh it hit, hh]; rfl
  · intro ⟨a, b, c, d, e, f, g, h⟩
    refine ⟨a, b, c, d, e, f, ?_, h⟩
    intro f0 hf it hit
    rw [g it hit, hf]; rfl

instance (kf : KF) (nd : Node) : Decidable (NodeOK kf nd) := decidable_of_iff _ (nodeOK_iff kf nd).symm

instance (kf : KF) (n : DbNode) (hi : Option Nat) : Decidable (NodeIn kf n hi) := by
  unfold NodeIn
  cases hi with
  | none =>
    exact decidable_of_iff (NodeOK kf n.node ∧ (∀ it ∈ n.node.items, n.sep ≤ it.key))
      ⟨fun ⟨a, b⟩ => ⟨a, b, by intro c hc; cases hc⟩, fun ⟨a, b, _⟩ => ⟨a, b⟩⟩
  | some c =>
    exact decidable_of_iff
      (NodeOK kf n.node ∧ (∀ it ∈ n.node.items, n.sep ≤ it.key) ∧ (n.sep < c ∧ ∀ it ∈ n.node.items, it.key < c))
      ⟨fun ⟨a, b, d⟩ => ⟨a, b, by intro c' hc; cases hc; exact d⟩, fun ⟨a, b, d⟩ => ⟨a, b, d c rfl⟩⟩

instance dbOKDec (kf : KF) : ∀ db : List DbNode, Decidable (DbOK kf db)
  | [] => isTrue trivial
  | [l] => inferInstanceAs (Decidable (NodeIn kf l none))
  | l :: l2 :: r =>
    have := dbOKDec kf (l2 :: r)
    inferInstanceAs (Decidable (NodeIn kf l (some l2.sep) ∧ DbOK kf (l2 :: r)))

instance chOKDec : ∀ (lo : Nat) (cs : List (Nat × Option Nat)), Decidable (ChOK lo cs)
  | _, [] => isTrue trivial
  | lo, (k, _) :: cs =>
    have := chOKDec (k + 1) cs
    inferInstanceAs (Decidable (lo ≤ k ∧ k < 2 ^ 256 ∧ ChOK (k + 1) cs))

end Nomt.BranchUpd
