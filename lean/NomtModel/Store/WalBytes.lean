/-!
Little-endian integers over `List UInt8` (the byte strings of the bitbox WAL model) and slices.

`leBytes k n` = `n.to_le_bytes()` for a `k`-byte integer type, `leNat` = `uN::from_le_bytes`.
-/
namespace Nomt.Wal

abbrev Bytes := List UInt8

/-- `n.to_le_bytes()` of a `k`-byte unsigned integer (value taken modulo `256^k`) -/
def leBytes : (k : Nat) → Nat → Bytes
  | 0, _ => []
  | k + 1, n => UInt8.ofNat (n % 256) :: leBytes k (n / 256)

/-- `uN::from_le_bytes` -/
def leNat : Bytes → Nat
  | [] => 0
  | b :: bs => b.toNat + 256 * leNat bs

@[simp] theorem leBytes_length (k n : Nat) : (leBytes k n).length = k := by
  induction k generalizing n with
  | zero => rfl
  | succ k ih => simp [leBytes, ih]

theorem leNat_leBytes (k n : Nat) : leNat (leBytes k n) = n % 256 ^ k := by
  induction k generalizing n with
  | zero => simp [leBytes, leNat, Nat.mod_one]
  | succ k ih =>
    simp only [leBytes, leNat, ih]
    have h : (UInt8.ofNat (n % 256)).toNat = n % 256 := by simp
    rw [h, Nat.pow_succ, Nat.mul_comm (256 ^ k) 256, Nat.mod_mul]

theorem leNat_leBytes_of_lt {k n : Nat} (h : n < 256 ^ k) : leNat (leBytes k n) = n := by
  rw [leNat_leBytes, Nat.mod_eq_of_lt h]

theorem leNat_lt (bs : Bytes) : leNat bs < 256 ^ bs.length := by
  induction bs with
  | nil => simp [leNat]
  | cons b bs ih =>
    simp only [leNat, List.length_cons, Nat.pow_succ]
    have := UInt8.toNat_lt b
    omega

theorem leBytes_leNat (bs : Bytes) : leBytes bs.length (leNat bs) = bs := by
  induction bs with
  | nil => rfl
  | cons b bs ih =>
    have hb := UInt8.toNat_lt b
    simp only [List.length_cons, leBytes, leNat]
    have h1 : (b.toNat + 256 * leNat bs) % 256 = b.toNat := by omega
    have h2 : (b.toNat + 256 * leNat bs) / 256 = leNat bs := by omega
    rw [h1, h2, ih, UInt8.ofNat_toNat]

/-- `bytes[start .. start + n]` (the caller checks the bounds) -/
def slice (bs : Bytes) (start n : Nat) : Bytes := (bs.drop start).take n

theorem slice_length {bs : Bytes} {start n : Nat} (h : start + n ≤ bs.length) :
    (slice bs start n).length = n := by
  simp [slice]; omega

/-- `bytes[start .. start + data.len()].copy_from_slice(data)` (the caller checks the bounds) -/
def writeAt (bs : Bytes) (start : Nat) (data : Bytes) : Bytes :=
  bs.take start ++ data ++ bs.drop (start + data.length)

theorem writeAt_length {bs : Bytes} {start : Nat} {data : Bytes} (h : start + data.length ≤ bs.length) :
    (writeAt bs start data).length = bs.length := by
  simp [writeAt]; omega

theorem getElem?_writeAt {bs : Bytes} {start : Nat} {data : Bytes} (h : start + data.length ≤ bs.length) (i : Nat) :
    (writeAt bs start data)[i]? =
      if i < start then bs[i]? else if i < start + data.length then data[i - start]? else bs[i]? := by
  unfold writeAt
  by_cases h1 : i < start
  · rw [List.append_assoc, List.getElem?_append_left (by simp; omega)]
    simp [h1, List.getElem?_take]
  · simp only [h1, if_false]
    rw [List.append_assoc, List.getElem?_append_right (by simp; omega)]
    have ht : (List.take start bs).length = start := by simp; omega
    rw [ht]
    by_cases h2 : i < start + data.length
    · simp only [h2, if_true]
      rw [List.getElem?_append_left (by omega)]
    · simp only [h2, if_false]
      rw [List.getElem?_append_right (by omega), List.getElem?_drop]
      congr 1; omega

theorem getElem?_slice {bs : Bytes} {start n i : Nat} :
    (slice bs start n)[i]? = if i < n then bs[start + i]? else none := by
  unfold slice
  rw [List.getElem?_take]
  split
  · rw [List.getElem?_drop]
  · rfl

end Nomt.Wal
