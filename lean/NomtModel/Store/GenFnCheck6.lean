import NomtModel.Store.GenFnCheck5
import NomtModel.Store.BitOps

/-!
# `prefix_len` (`beatree/ops/bit_ops.rs`): a nested loop

The outer `'byte_loop: for byte in 0..32` is translated as an auxiliary recursion on the number of remaining iterations, the inner
`for bit in 0..8` (a literal range) is unrolled, `break 'byte_loop` leaves both.  The translated function carries `bit_len` as loop
state; the mirror `BitOps.prefixLen` adds up the results of its two recursions.
-/

namespace Nomt.GenFnCheck
open Nomt
set_option maxRecDepth 8192

theorem prefix_len_loop_eq (a b : List Nat) (ha : 32 ≤ a.length) (hb : 32 ≤ b.length) :
    ∀ (rem acc : Nat), rem ≤ 32 → acc + 8 * rem ≤ 4294967296 →
      GenFn.prefix_len_loop1 rem a b acc 0 32 = some (acc + BitOps.plBytes a b rem (32 - rem)) := by
  intro rem
  induction rem with
  | zero => intro acc _ _; rfl
  | succ rem ih =>
    intro acc hr hacc
    have hlt : 32 - (rem + 1) < a.length := by omega
    have hlt' : 32 - (rem + 1) < b.length := by omega
    rw [GenFn.prefix_len_loop1, BitOps.plBytes]
    simp only [List.getElem?_eq_getElem hlt, List.getElem?_eq_getElem hlt', List.getD_eq_getElem?_getD, Option.getD_some]
    have hnext : 32 - (rem + 1) + 1 = 32 - rem := by omega
    rw [hnext]
    generalize a[32 - (rem + 1)] = x
    generalize b[32 - (rem + 1)] = y
    have ih8 := ih (acc + 8) (by omega) (by omega)
    have g1 : acc + 1 < 18446744073709551616 := by omega
    have g2 : acc + 2 < 18446744073709551616 := by omega
    have g3 : acc + 3 < 18446744073709551616 := by omega
    have g4 : acc + 4 < 18446744073709551616 := by omega
    have g5 : acc + 5 < 18446744073709551616 := by omega
    have g6 : acc + 6 < 18446744073709551616 := by omega
    have g7 : acc + 7 < 18446744073709551616 := by omega
    have g8 : acc + 8 < 18446744073709551616 := by omega
    by_cases h0 : x &&& 128 = y &&& 128
    case neg => simp [BitOps.plBits, h0]
    by_cases h1 : x &&& 64 = y &&& 64
    case neg => simp [BitOps.plBits, h0, h1, g1]
    by_cases h2 : x &&& 32 = y &&& 32
    case neg => simp [BitOps.plBits, h0, h1, h2, g1, g2, Nat.add_assoc]
    by_cases h3 : x &&& 16 = y &&& 16
    case neg => simp [BitOps.plBits, h0, h1, h2, h3, g1, g2, g3, Nat.add_assoc]
    by_cases h4 : x &&& 8 = y &&& 8
    case neg => simp [BitOps.plBits, h0, h1, h2, h3, h4, g1, g2, g3, g4, Nat.add_assoc]
    by_cases h5 : x &&& 4 = y &&& 4
    case neg => simp [BitOps.plBits, h0, h1, h2, h3, h4, h5, g1, g2, g3, g4, g5, Nat.add_assoc]
    by_cases h6 : x &&& 2 = y &&& 2
    case neg => simp [BitOps.plBits, h0, h1, h2, h3, h4, h5, h6, g1, g2, g3, g4, g5, g6, Nat.add_assoc]
    by_cases h7 : x % 2 = y % 2
    case neg => simp [BitOps.plBits, h0, h1, h2, h3, h4, h5, h6, h7, g1, g2, g3, g4, g5, g6, g7, Nat.add_assoc]
    simp [BitOps.plBits, h0, h1, h2, h3, h4, h5, h6, h7, g1, g2, g3, g4, g5, g6, g7, g8, Nat.add_assoc, ih8]
    try omega

/-- `prefix_len(key_a, key_b)` of the CURRENT source on two 32-byte keys is the mirror `BitOps.prefixLen` (which `BitOpsKeys.lean` proves
to be the length of the longest common bit prefix); it does not panic -/
theorem prefix_len_eq (a b : List Nat) (ha : a.length = 32) (hb : b.length = 32) :
    GenFn.prefix_len a b = some (BitOps.prefixLen a b) := by
  unfold GenFn.prefix_len BitOps.prefixLen
  have := prefix_len_loop_eq a b (by omega) (by omega) 32 0 (by omega) (by omega)
  simpa using this

end Nomt.GenFnCheck
