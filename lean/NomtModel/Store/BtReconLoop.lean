import NomtModel.Store.BtReconLemmas
/-!
The loop of `reconstruct`: on a file whose pages below the bump all classify (`cls`), whose live nodes have a
prefix-compressed first separator and pairwise different first separators, it ends without error or panic with the
ascending index of exactly the live nodes.
-/
namespace Nomt.BtRecon
open Nomt Nomt.Store Nomt.BtLookup

theorem rinsert_mem : ∀ (idx : RIndex) (k pn : Nat) (x : Nat × Nat), Asc idx →
    (x ∈ (rinsert idx k pn).1 ↔ x = (k, pn) ∨ (x ∈ idx ∧ x.1 ≠ k))
  | [], k, pn, x, _ => by simp [rinsert]
  | (s, q) :: rest, k, pn, x, ha => by
    obtain ⟨hs, hr⟩ := List.pairwise_cons.1 ha
    have ih := rinsert_mem rest k pn x hr
    simp only [rinsert]
    by_cases h1 : k = s
    · subst h1
      simp only [if_true, List.mem_cons]
      constructor
      · rintro (e | e)
        · exact .inl e
        · exact .inr ⟨.inr e, by have := hs x e; simp only at this; omega⟩
      · rintro (e | ⟨e | e, hne⟩)
        · exact .inl e
        · subst e; exact absurd rfl hne
        · exact .inr e
    · simp only [h1, if_false]
      by_cases h2 : k < s
      · simp only [h2, if_true, List.mem_cons]
        constructor
        · rintro (e | e | e)
          · exact .inl e
          · subst e; exact .inr ⟨.inl rfl, fun e => h1 e.symm⟩
          · exact .inr ⟨.inr e, by have := hs x e; simp only at this; omega⟩
        · rintro (e | ⟨e | e, _⟩)
          · exact .inl e
          · exact .inr (.inl e)
          · exact .inr (.inr e)
      · simp only [h2, if_false, List.mem_cons, ih]
        constructor
        · rintro (e | e | ⟨e, hne⟩)
          · subst e; exact .inr ⟨.inl rfl, fun e => h1 e.symm⟩
          · exact .inl e
          · exact .inr ⟨.inr e, hne⟩
        · rintro (e | ⟨e | e, hne⟩)
          · exact .inr (.inl e)
          · exact .inl e
          · exact .inr (.inr ⟨e, hne⟩)

theorem rinsert_asc : ∀ (idx : RIndex) (k pn : Nat), Asc idx → Asc (rinsert idx k pn).1
  | [], k, pn, _ => by simp [rinsert]
  | (s, q) :: rest, k, pn, ha => by
    obtain ⟨hs, hr⟩ := List.pairwise_cons.1 ha
    simp only [rinsert]
    by_cases h1 : k = s
    · subst h1
      simp only [if_true]
      exact List.pairwise_cons.2 ⟨hs, hr⟩
    · simp only [h1, if_false]
      by_cases h2 : k < s
      · simp only [h2, if_true]
        refine List.pairwise_cons.2 ⟨?_, ha⟩
        intro x hx
        rcases List.mem_cons.1 hx with e | e
        · subst e; exact h2
        · have := hs x e; simp only at this ⊢; omega
      · simp only [h2, if_false]
        refine List.pairwise_cons.2 ⟨?_, rinsert_asc rest k pn hr⟩
        intro x hx
        rcases (rinsert_mem rest k pn x hr).1 hx with e | ⟨e, _⟩
        · subst e; simp only; omega
        · exact hs x e

theorem rinsert_dup : ∀ (idx : RIndex) (k pn : Nat), (rinsert idx k pn).2 = true → ∃ q, (k, q) ∈ idx
  | [], _, _, h => by simp [rinsert] at h
  | (s, q) :: rest, k, pn, h => by
    simp only [rinsert] at h
    by_cases h1 : k = s
    · subst h1; exact ⟨q, List.mem_cons_self ..⟩
    · simp only [h1, if_false] at h
      by_cases h2 : k < s
      · simp [h2] at h
      · simp only [h2, if_false] at h
        obtain ⟨q', hq'⟩ := rinsert_dup rest k pn h
        exact ⟨q', List.mem_cons_of_mem _ hq'⟩

theorem allZero_n {pg : ByteArray} (h : allZero pg 0 PAGE = true) : u16le pg 4 = 0 := by
  unfold allZero at h
  rw [List.all_eq_true] at h
  have h4 := h 4 (by simp [PAGE])
  have h5 := h 5 (by simp [PAGE])
  simp only [Nat.zero_add, beq_iff_eq] at h4 h5
  simp [u16le, u8, h4, h5]

/-- the index built from the pages below `pn`: ascending, and holding exactly the live nodes below `pn`, each under
its first separator -/
structure Built (bbn : ByteArray) (marks : Array Bool) (pn : Nat) (idx : RIndex) : Prop where
  asc : Asc idx
  mem : ∀ k q, (k, q) ∈ idx ↔ q < pn ∧ ∃ b, live bbn marks q = some (q, b) ∧ firstSep (q, b) = k

theorem live_of_cls {bbn : ByteArray} {marks : Array Bool} {pn : Nat} {o : Option (Nat × Branch)}
    (h : cls bbn marks pn = .ok o) : live bbn marks pn = o := by simp [live, h]

theorem cls_fst {bbn : ByteArray} {marks : Array Bool} {pn : Nat} {x : Nat × Branch}
    (h : cls bbn marks pn = .ok (some x)) : x.1 = pn := by
  unfold cls at h
  cases hp : pageOf bbn pn with
  | none => simp [hp] at h
  | some pg =>
    simp only [hp] at h
    by_cases hz : allZero pg 0 PAGE = true
    · simp [hz] at h
    · simp only [hz, if_false, Bool.false_eq_true] at h
      by_cases hm : marks[pn]! = true
      · simp [hm] at h
      · simp only [hm, if_false, Bool.false_eq_true] at h
        cases hd : decodeBranch pg with
        | error e => simp [hd] at h
        | ok b =>
          simp only [hd] at h
          by_cases hb : (b.bbnPn != pn) = true
          · simp [hb] at h
          · simp only [hb, if_false, Bool.false_eq_true] at h
            injection h with h
            injection h with h
            rw [← h]

theorem reconLoop_spec (bbn : ByteArray) (marks : Array Bool) (bump : Nat)
    (hcls : ∀ pn, pn < bump → ∃ o, cls bbn marks pn = .ok o)
    (hpc : ∀ pn b, pn < bump → live bbn marks pn = some (pn, b) → 1 ≤ b.prefixCompressed ∨ b.prefixLen = 0)
    (hdist : ∀ p q b c, p < bump → q < bump → live bbn marks p = some (p, b) → live bbn marks q = some (q, c) →
      firstSep (p, b) = firstSep (q, c) → p = q) :
    ∀ (fuel pn : Nat) (idx : RIndex), pn + fuel = bump → Built bbn marks pn idx →
      ∃ idx', reconLoop bbn (fun pn => marks[pn]!) bump fuel pn idx = .ok idx' ∧ Built bbn marks bump idx'
  | 0, pn, idx, hf, hb => by
    have : pn = bump := by omega
    subst this
    exact ⟨idx, rfl, hb⟩
  | fuel + 1, pn, idx, hf, hb => by
    have hpn : pn < bump := by omega
    have hnot : ¬ pn ≥ bump := by omega
    obtain ⟨o, ho⟩ := hcls pn hpn
    have hlive := live_of_cls ho
    -- a skipped page leaves the index as it is
    have hskip : live bbn marks pn = none → Built bbn marks (pn + 1) idx := by
      intro hn
      refine ⟨hb.asc, fun k q => ?_⟩
      rw [hb.mem k q]
      constructor
      · rintro ⟨h1, h2⟩; exact ⟨by omega, h2⟩
      · rintro ⟨h1, b, h2, h3⟩
        by_cases hq : q = pn
        · subst hq; rw [hn] at h2; cases h2
        · exact ⟨by omega, b, h2, h3⟩
    unfold reconLoop
    simp only [hnot, if_false]
    unfold cls at ho
    cases hp : pageOf bbn pn with
    | none => simp [hp] at ho
    | some pg =>
      simp only [hp] at ho ⊢
      by_cases hz : allZero pg 0 PAGE = true
      · simp only [hz, if_true] at ho
        injection ho with ho
        have : (u16le pg 4 == 0 && allZero pg 0 PAGE) = true := by simp [hz, allZero_n hz]
        simp only [this, if_true]
        exact reconLoop_spec bbn marks bump hcls hpc hdist fuel (pn + 1) idx (by omega)
          (hskip (by rw [hlive, ← ho]))
      · have hz' : (u16le pg 4 == 0 && allZero pg 0 PAGE) = false := by simp [hz]
        simp only [hz, hz', if_false, Bool.false_eq_true, Bool.and_false] at ho ⊢
        by_cases hm : marks[pn]! = true
        · simp only [hm, if_true] at ho ⊢
          injection ho with ho
          exact reconLoop_spec bbn marks bump hcls hpc hdist fuel (pn + 1) idx (by omega)
            (hskip (by rw [hlive, ← ho]))
        · simp only [hm, if_false, Bool.false_eq_true] at ho ⊢
          cases hd : decodeBranch pg with
          | error e => simp [hd] at ho
          | ok b =>
            simp only [hd] at ho
            by_cases hbp : (b.bbnPn != pn) = true
            · simp [hbp] at ho
            · simp only [hbp, if_false, Bool.false_eq_true] at ho
              injection ho with ho
              have hl : live bbn marks pn = some (pn, b) := by rw [hlive, ← ho]
              have hbpn : u32le pg 0 = pn := by
                have := (decodeBranch_inv hd).2.2.2.2.1
                rw [← this]; simpa using hbp
              have hne : ¬ u32le pg 0 ≠ pn := by simp [hbpn]
              simp only [hne, if_false]
              rw [reconKey_eq pn hd (hpc pn b hpn hl)]
              simp only
              -- no other node is filed under this key
              have hnodup : (rinsert idx (firstSep (pn, b)) pn).2 = false := by
                cases hx : (rinsert idx (firstSep (pn, b)) pn).2 with
                | false => rfl
                | true =>
                  obtain ⟨q, hq⟩ := rinsert_dup idx _ pn hx
                  obtain ⟨hqlt, c, hc, hck⟩ := (hb.mem _ q).1 hq
                  have := hdist q pn c b (by omega) hpn hc hl hck
                  omega
              simp only [hnodup, Bool.false_eq_true, if_false]
              refine reconLoop_spec bbn marks bump hcls hpc hdist fuel (pn + 1) _ (by omega) ⟨?_, ?_⟩
              · exact rinsert_asc idx _ pn hb.asc
              · intro k q
                rw [rinsert_mem idx _ pn (k, q) hb.asc, hb.mem k q]
                constructor
                · rintro (e | ⟨⟨h1, h2⟩, _⟩)
                  · injection e with e1 e2
                    subst e2
                    exact ⟨by omega, b, hl, e1.symm⟩
                  · exact ⟨by omega, h2⟩
                · rintro ⟨h1, c, h2, h3⟩
                  by_cases hq : q = pn
                  · subst hq
                    rw [hl] at h2
                    injection h2 with h2
                    injection h2 with _ h2
                    subst h2
                    exact .inl (by rw [h3])
                  · refine .inr ⟨⟨by omega, c, h2, h3⟩, ?_⟩
                    intro hk
                    simp only at hk
                    exact hq (hdist q pn c b (by omega) hpn h2 hl (by rw [h3, hk]))

end Nomt.BtRecon
