import NomtModel.Store.ImgTable
/-!
# The bitbox hash table at the level of its meta bytes (`nomt/src/bitbox/mod.rs`, `meta_map.rs`)

State: the meta byte of every bucket (`Slot`: `empty | tombstone | full tag`, the decoded form of
`EMPTY = 0`, `TOMBSTONE = 0x7f`, `0x80 | (hash >> 57)`, the same type the image monitor `wfTable`
decodes real `ht` files into) and, per bucket, the page id written into the last 32 bytes of the
bucket's data page (`label`).  The label of a bucket is only ever *read* after the meta byte said
"possible hit"; a freed bucket keeps its stale data page (the code never erases it), so `label` is a
total function and `free` does not touch it.

Mirrored one to one, with explicit fuel (`none` = out of fuel; it is a theorem that this never is
the answer):

* `ProbeSequence::new / next` (the repaired, bounded version: `step > 2 * len ⇒ Exhausted`) — `PS.new`, `PS.next`;
* the lookup loop `PageLoader::probe` + `PageLoad::try_complete` (tombstone ⇒ continue, empty /
  exhausted ⇒ absent, possible hit ⇒ read the bucket and compare the label, mismatch ⇒ continue) — `lookupLoop`;
* `allocate_bucket` (first tombstone-or-empty on the sequence, at most 9999 calls of `next`) — `allocLoop`;
* `MetaMap::set_full` / `set_tombstone` — `allocate`, `free`.

`lookupF` / `allocF` are the same searches as ONE loop over the index `k` of the probe sequence
(`pos h n k = (h + T(k)) % n`, `T` the triangular numbers); `lookupLoop_eq` / `allocLoop_eq` show the
mirrored nested loops compute exactly these.  All property lemmas are then about the flat form.
-/
namespace Nomt.Store.Probe
open Nomt.Store

/-! ## triangular numbers and their period modulo `n` -/

/-- `T(k) = 0 + 1 + … + k` -/
def tri : Nat → Nat
  | 0 => 0
  | k + 1 => tri k + (k + 1)

theorem two_tri (k : Nat) : 2 * tri k = k * (k + 1) := by
  induction k with
  | zero => rfl
  | succ k ih => simp only [tri]; grind

/-- `T(k + 2n) − T(k) = n (2k + 2n + 1)` — the identity quoted in `ProbeSequence::next` -/
theorem tri_add_two_mul (n k : Nat) : tri (k + 2 * n) = tri k + n * (2 * k + 2 * n + 1) := by
  induction n with
  | zero => simp
  | succ n ih =>
    have e : k + 2 * (n + 1) = (k + 2 * n) + 1 + 1 := by omega
    rw [e]; simp only [tri]; rw [ih]; grind

/-- the `k`-th bucket visited by the probe sequence of hash `h` in a table of `n` buckets -/
def pos (h n k : Nat) : Nat := (h + tri k) % n

theorem pos_lt {h n k : Nat} (hn : 0 < n) : pos h n k < n := Nat.mod_lt _ hn

theorem pos_add_period (h n k : Nat) : pos h n (k + 2 * n) = pos h n k := by
  unfold pos
  rw [tri_add_two_mul, ← Nat.add_assoc, Nat.add_mul_mod_self_left]

theorem pos_add_periods (h n k q : Nat) : pos h n (k + 2 * n * q) = pos h n k := by
  induction q with
  | zero => simp
  | succ q ih =>
    have e : k + 2 * n * (q + 1) = (k + 2 * n * q) + 2 * n := by
      rw [Nat.mul_succ]; omega
    rw [e, pos_add_period, ih]

/-- every bucket the sequence ever reaches is reached within the first `2n` steps -/
theorem pos_reached_early (h n k : Nat) (hn : 0 < n) : ∃ j, j < 2 * n ∧ pos h n j = pos h n k := by
  refine ⟨k % (2 * n), Nat.mod_lt _ (by omega), ?_⟩
  have := pos_add_periods h n (k % (2 * n)) (k / (2 * n))
  rw [Nat.mod_add_div] at this
  exact this.symm

/-- a property of buckets that holds along the first `2n + 1` steps holds along the whole sequence -/
theorem forall_pos_of_bound {h n : Nat} (hn : 0 < n) {P : Nat → Prop}
    (hP : ∀ i, i ≤ 2 * n → P (pos h n i)) : ∀ k, P (pos h n k) := by
  intro k
  obtain ⟨j, hj, e⟩ := pos_reached_early h n k hn
  rw [← e]; exact hP j (by omega)

/-! ## state -/

/-- `full_entry(hash) ^ FULL_MASK`: the top 7 bits of the 64-bit hash -/
def tagOf (hash : Nat) : Nat := hash / 2 ^ 57 % 128

structure Table where
  /-- the meta bytes (`MetaMap::bitvec[0 .. buckets]`) -/
  slots : List Slot
  /-- page id stored in the data page of a bucket (stale for non-full buckets) -/
  label : Nat → Nat

abbrev Table.n (T : Table) : Nat := T.slots.length

/-- `bitvec[bucket]`; reads beyond the table do not occur (`pos < n`) -/
def slotAt (m : List Slot) (b : Nat) : Slot := (m[b]?).getD .empty

def emptyTable (n : Nat) : Table := { slots := List.replicate n .empty, label := fun _ => 0 }

theorem slotAt_set (m : List Slot) (b b' : Nat) (s : Slot) :
    slotAt (m.set b s) b' = if b = b' ∧ b < m.length then s else slotAt m b' := by
  unfold slotAt
  rw [List.getElem?_set]
  by_cases h : b = b'
  · subst h
    by_cases h2 : b < m.length
    · simp [h2]
    · simp [h2, List.getElem?_eq_none (Nat.le_of_not_lt h2)]
  · simp [h]

theorem slotAt_replicate_empty (n b : Nat) : slotAt (List.replicate n .empty) b = .empty := by
  unfold slotAt
  by_cases h : b < n
  · simp [List.getElem?_replicate, h]
  · simp [List.getElem?_replicate, h]

theorem lt_of_slotAt_ne_empty {m : List Slot} {b : Nat} (h : slotAt m b ≠ .empty) : b < m.length := by
  apply Nat.lt_of_not_le
  intro hle
  apply h
  unfold slotAt
  rw [List.getElem?_eq_none hle]; rfl

/-! ## the mirror -/

/-- `struct ProbeSequence { hash, bucket, step }` -/
structure PS where
  hash : Nat
  bucket : Nat
  step : Nat

/-- `ProbeSequence::new` -/
def PS.new (hash n : Nat) : PS := { hash := hash, bucket := hash % n, step := 0 }

/-- `enum ProbeResult` -/
inductive PR where
  | possibleHit (b : Nat)
  | empty (b : Nat)
  | tombstone (b : Nat)
  | exhausted
deriving DecidableEq, Repr

/-- `ProbeSequence::next`; outer `none` = fuel ran out -/
def PS.next (m : List Slot) : Nat → PS → Option (PR × PS)
  | 0, _ => none
  | fuel + 1, s =>
    if s.step > 2 * m.length then some (.exhausted, s) else
    let s' : PS := { hash := s.hash, bucket := (s.bucket + s.step) % m.length, step := s.step + 1 }
    match slotAt m s'.bucket with
    | .empty => some (.empty s'.bucket, s')
    | .tombstone => some (.tombstone s'.bucket, s')
    | .full tg => if tg ≠ tagOf s.hash then PS.next m fuel s' else some (.possibleHit s'.bucket, s')

/-- enough fuel for any call of `next` -/
def nextFuel (m : List Slot) : Nat := 2 * m.length + 2

/-- the loop of `PageLoader::probe`, with the label comparison of `PageLoad::try_complete` and the
caller's retry; outer `none` = fuel ran out, `some none` = "the page is not stored" -/
def lookupLoop (T : Table) (p : Nat) : Nat → PS → Option (Option Nat)
  | 0, _ => none
  | fuel + 1, s =>
    match s.next T.slots (nextFuel T.slots) with
    | none => none
    | some (.tombstone _, s') => lookupLoop T p fuel s'
    | some (.empty _, _) => some none
    | some (.exhausted, _) => some none
    | some (.possibleHit b, s') => if T.label b = p then some (some b) else lookupLoop T p fuel s'

def lookup (hash : Nat → Nat) (T : Table) (p : Nat) (fuel : Nat) : Option (Option Nat) :=
  lookupLoop T p fuel (PS.new (hash p) T.slots.length)

/-- `allocate_bucket` gives up when its counter of `next` calls reaches this value -/
def ALLOC_ATTEMPTS : Nat := 10000

/-- the loop of `allocate_bucket` (`lim` = 10000 in the code); `some none` = gave up / exhausted -/
def allocLoop (m : List Slot) (lim : Nat) : Nat → Nat → PS → Option (Option Nat)
  | 0, _, _ => none
  | fuel + 1, i, s =>
    if i + 1 ≥ lim then some none else
    match s.next m (nextFuel m) with
    | none => none
    | some (.possibleHit _, s') => allocLoop m lim fuel (i + 1) s'
    | some (.tombstone b, _) => some (some b)
    | some (.empty b, _) => some (some b)
    | some (.exhausted, _) => some none

/-- `meta_map.set_full(bucket, hash)` + the bucket's data page (with the label) is written -/
def Table.setFull (T : Table) (b hash p : Nat) : Table :=
  { slots := T.slots.set b (.full (tagOf hash)), label := fun x => if x = b then p else T.label x }

/-- `allocate_bucket` + `set_full`: `some (some (b, T'))` on success, `some none` when the allocator
gives up (`BucketExhaustion`), outer `none` = fuel -/
def allocate (hash : Nat → Nat) (lim : Nat) (T : Table) (p : Nat) (fuel : Nat) : Option (Option (Nat × Table)) :=
  match allocLoop T.slots lim fuel 0 (PS.new (hash p) T.slots.length) with
  | none => none
  | some none => some none
  | some (some b) => some (some (b, T.setFull b (hash p) p))

/-- `meta_map.set_tombstone(bucket)`; the data page is left as it is -/
def free (T : Table) (b : Nat) : Table := { T with slots := T.slots.set b .tombstone }

/-! ## the same searches as one loop over the sequence index -/

/-- `fuel` = number of sequence positions still allowed (`k + fuel = 2n + 1`: running out IS the
`Exhausted` answer) -/
def lookupF (T : Table) (h p : Nat) : Nat → Nat → Option Nat
  | 0, _ => none
  | fuel + 1, k =>
    match slotAt T.slots (pos h T.slots.length k) with
    | .empty => none
    | .tombstone => lookupF T h p fuel (k + 1)
    | .full tg =>
      if tg ≠ tagOf h then lookupF T h p fuel (k + 1)
      else if T.label (pos h T.slots.length k) = p then some (pos h T.slots.length k)
      else lookupF T h p fuel (k + 1)

def allocF (m : List Slot) (lim h : Nat) : Nat → Nat → Nat → Option Nat
  | 0, _, _ => none
  | fuel + 1, k, i =>
    match slotAt m (pos h m.length k) with
    | .empty => some (pos h m.length k)
    | .tombstone => some (pos h m.length k)
    | .full tg =>
      if tg ≠ tagOf h then allocF m lim h fuel (k + 1) i
      else if i + 1 ≥ lim then none
      else allocF m lim h fuel (k + 1) (i + 1)

/-! ## `next` -/

/-- the state of a probe sequence of hash `h` before its `step`-th look -/
def PS.Ok (h n : Nat) (s : PS) : Prop := s.hash = h ∧ (s.bucket + s.step) % n = pos h n s.step

theorem PS.new_ok (h n : Nat) : PS.Ok h n (PS.new h n) := by
  refine ⟨rfl, ?_⟩
  simp [PS.new, pos, tri]

/-- `next` keeps walking over this bucket: full, tag of another hash -/
def skipB (m : List Slot) (h b : Nat) : Bool :=
  match slotAt m b with
  | .full tg => tg != tagOf h
  | _ => false

def classify (m : List Slot) (b : Nat) : PR :=
  match slotAt m b with
  | .empty => .empty b
  | .tombstone => .tombstone b
  | .full _ => .possibleHit b

theorem PS.ok_step {h n : Nat} {s : PS} (hs : PS.Ok h n s) :
    PS.Ok h n { hash := s.hash, bucket := (s.bucket + s.step) % n, step := s.step + 1 } := by
  obtain ⟨h1, h2⟩ := hs
  refine ⟨h1, ?_⟩
  show ((s.bucket + s.step) % n + (s.step + 1)) % n = pos h n (s.step + 1)
  rw [h2]; unfold pos
  simp only [tri]
  rw [Nat.add_mod, Nat.mod_mod, ← Nat.add_mod]; congr 1; omega

/-- what one call of `next` does: either every remaining position (up to the bound `2n`) is skipped
and the answer is `Exhausted`, or it stops at the first position `j` that is not skipped and reports
that bucket's class.  Fuel `> 2n + 1 - step` is never used up. -/
theorem next_spec (m : List Slot) (h : Nat) : ∀ (fuel : Nat) (s : PS), PS.Ok h m.length s →
    2 * m.length + 1 - s.step < fuel →
    (∃ s', PS.next m fuel s = some (.exhausted, s') ∧
        ∀ i, s.step ≤ i → i ≤ 2 * m.length → skipB m h (pos h m.length i) = true) ∨
    (∃ j s', s.step ≤ j ∧ j ≤ 2 * m.length ∧
        (∀ i, s.step ≤ i → i < j → skipB m h (pos h m.length i) = true) ∧
        skipB m h (pos h m.length j) = false ∧ PS.Ok h m.length s' ∧ s'.step = j + 1 ∧
        PS.next m fuel s = some (classify m (pos h m.length j), s')) := by
  intro fuel
  induction fuel with
  | zero => intro s _ hf; omega
  | succ fuel ih =>
    intro s hs hf
    by_cases hst : s.step > 2 * m.length
    · left; refine ⟨s, ?_, ?_⟩
      · simp [PS.next, hst]
      · intro i h1 h2; omega
    · have hok := PS.ok_step hs
      have hb : (s.bucket + s.step) % m.length = pos h m.length s.step := hs.2
      have hh : s.hash = h := hs.1
      simp only [PS.next, hst, if_false]
      rw [hb, hh]
      rw [hb] at hok
      cases hsl : slotAt m (pos h m.length s.step) with
      | empty =>
        right
        refine ⟨s.step, _, Nat.le_refl _, by omega, by intro i a b; omega, ?_, hok, rfl, ?_⟩
        · simp [skipB, hsl]
        · simp [classify, hsl, hh]
      | tombstone =>
        right
        refine ⟨s.step, _, Nat.le_refl _, by omega, by intro i a b; omega, ?_, hok, rfl, ?_⟩
        · simp [skipB, hsl]
        · simp [classify, hsl, hh]
      | full tg =>
        by_cases htg : tg = tagOf h
        · right
          refine ⟨s.step, _, Nat.le_refl _, by omega, by intro i a b; omega, ?_, hok, rfl, ?_⟩
          · simp [skipB, hsl, htg]
          · simp [classify, hsl, hh, htg]
        · have hskip : skipB m h (pos h m.length s.step) = true := by simp [skipB, hsl, htg]
          simp only [htg, ne_eq, not_false_eq_true, if_true]
          rw [hh] at hok
          rcases ih _ hok (by show 2 * m.length + 1 - (s.step + 1) < fuel; omega) with ⟨s', e, hall⟩ | ⟨j, s', h1, h2, h3, h4, h5, h6, h7⟩
          · left; refine ⟨s', by rw [← e], ?_⟩
            intro i hi1 hi2
            by_cases hi : i = s.step
            · rw [hi]; exact hskip
            · exact hall i (by show s.step + 1 ≤ i; omega) hi2
          · right
            refine ⟨j, s', by show s.step ≤ j; exact Nat.le_of_succ_le h1, h2, ?_, h4, h5, h6, by rw [← h7]⟩
            intro i hi1 hi2
            by_cases hi : i = s.step
            · rw [hi]; exact hskip
            · exact h3 i (by show s.step + 1 ≤ i; omega) hi2

theorem skipB_true {m : List Slot} {h b : Nat} (hs : skipB m h b = true) :
    ∃ tg, slotAt m b = .full tg ∧ tg ≠ tagOf h := by
  unfold skipB at hs
  cases e : slotAt m b with
  | empty => rw [e] at hs; simp at hs
  | tombstone => rw [e] at hs; simp at hs
  | full tg => rw [e] at hs; exact ⟨tg, rfl, by simpa using hs⟩

/-! ## the lookup loop is the flat search -/

theorem lookupF_skip (T : Table) (h p : Nat) : ∀ (d f k : Nat),
    (∀ i, k ≤ i → i < k + d → skipB T.slots h (pos h T.slots.length i) = true) →
    lookupF T h p (f + d) k = lookupF T h p f (k + d) := by
  intro d
  induction d with
  | zero => intro f k _; rfl
  | succ d ih =>
    intro f k hall
    obtain ⟨tg, e1, e2⟩ := skipB_true (hall k (Nat.le_refl _) (by omega))
    have : f + (d + 1) = (f + d) + 1 := by omega
    rw [this]
    simp only [lookupF, e1, e2, ne_eq, not_false_eq_true, if_true]
    rw [ih f (k + 1) (fun i a b => hall i (by omega) (by omega))]
    congr 1; omega

theorem lookupLoop_eq (T : Table) (h p : Nat) : ∀ (fuel : Nat) (s : PS), PS.Ok h T.slots.length s →
    2 * T.slots.length + 1 - s.step < fuel →
    lookupLoop T p fuel s = some (lookupF T h p (2 * T.slots.length + 1 - s.step) s.step) := by
  intro fuel
  induction fuel with
  | zero => intro s _ hf; omega
  | succ fuel ih =>
    intro s hs hf
    rcases next_spec T.slots h (nextFuel T.slots) s hs (by unfold nextFuel; omega) with
      ⟨s', e, hall⟩ | ⟨j, s', h1, h2, h3, h4, h5, h6, h7⟩
    · simp only [lookupLoop, e]
      have := lookupF_skip T h p (2 * T.slots.length + 1 - s.step) 0 s.step
        (fun i a b => hall i a (by omega))
      rw [Nat.zero_add] at this
      rw [this]; rfl
    · have e0 : 2 * T.slots.length + 1 - s.step = ((2 * T.slots.length - j) + 1) + (j - s.step) := by omega
      have := lookupF_skip T h p (j - s.step) ((2 * T.slots.length - j) + 1) s.step
        (fun i a b => h3 i a (by omega))
      rw [e0, this]
      have e1 : s.step + (j - s.step) = j := by omega
      rw [e1]
      have ihs := ih s' h5 (by rw [h6]; omega)
      have e2 : 2 * T.slots.length + 1 - s'.step = 2 * T.slots.length - j := by rw [h6]; omega
      rw [e2, h6] at ihs
      simp only [lookupLoop, h7]
      cases hsl : slotAt T.slots (pos h T.slots.length j) with
      | empty => simp [classify, lookupF, hsl]
      | tombstone => simp [classify, lookupF, hsl, ihs]
      | full tg =>
        have htg : tg = tagOf h := by
          simp [skipB, hsl] at h4; exact h4
        by_cases hl : T.label (pos h T.slots.length j) = p
        · simp [classify, lookupF, hsl, htg, hl]
        · simp [classify, lookupF, hsl, htg, hl, ihs]

/-- **the fuel is never the reason**: for every table with at least one bucket and every fuel
`≥ 2n + 2` the mirrored lookup answers, and its answer is the flat search over the `2n + 1` positions
the bound of `next` admits. -/
theorem lookup_eq (hash : Nat → Nat) (T : Table) (p fuel : Nat) (hf : 2 * T.slots.length + 2 ≤ fuel) :
    lookup hash T p fuel = some (lookupF T (hash p) p (2 * T.slots.length + 1) 0) := by
  have := lookupLoop_eq T (hash p) p fuel (PS.new (hash p) T.slots.length) (PS.new_ok _ _)
    (by show 2 * T.slots.length + 1 - 0 < fuel; omega)
  exact this

/-! ## the allocation loop is the flat search -/

theorem allocF_skip (m : List Slot) (lim h : Nat) : ∀ (d f k i : Nat),
    (∀ x, k ≤ x → x < k + d → skipB m h (pos h m.length x) = true) →
    allocF m lim h (f + d) k i = allocF m lim h f (k + d) i := by
  intro d
  induction d with
  | zero => intro f k i _; rfl
  | succ d ih =>
    intro f k i hall
    obtain ⟨tg, e1, e2⟩ := skipB_true (hall k (Nat.le_refl _) (by omega))
    have : f + (d + 1) = (f + d) + 1 := by omega
    rw [this]
    simp only [allocF, e1, e2, ne_eq, not_false_eq_true, if_true]
    rw [ih f (k + 1) i (fun x a b => hall x (by omega) (by omega))]
    congr 1; omega

/-- flat form of `allocate_bucket` from the top of its loop (`i` = value of the counter) -/
def allocTop (m : List Slot) (lim h : Nat) (fuel k i : Nat) : Option Nat :=
  if i + 1 ≥ lim then none else allocF m lim h fuel k (i + 1)

theorem allocLoop_eq (m : List Slot) (lim h : Nat) : ∀ (fuel i : Nat) (s : PS), PS.Ok h m.length s →
    2 * m.length + 1 - s.step < fuel →
    allocLoop m lim fuel i s = some (allocTop m lim h (2 * m.length + 1 - s.step) s.step i) := by
  intro fuel
  induction fuel with
  | zero => intro i s _ hf; omega
  | succ fuel ih =>
    intro i s hs hf
    by_cases hlim : i + 1 ≥ lim
    · simp [allocLoop, allocTop, hlim]
    · rcases next_spec m h (nextFuel m) s hs (by unfold nextFuel; omega) with
        ⟨s', e, hall⟩ | ⟨j, s', h1, h2, h3, h4, h5, h6, h7⟩
      · simp only [allocLoop, allocTop, hlim, if_false, e]
        have := allocF_skip m lim h (2 * m.length + 1 - s.step) 0 s.step (i + 1)
          (fun x a b => hall x a (by omega))
        rw [Nat.zero_add] at this
        rw [this]; rfl
      · have e0 : 2 * m.length + 1 - s.step = ((2 * m.length - j) + 1) + (j - s.step) := by omega
        have := allocF_skip m lim h (j - s.step) ((2 * m.length - j) + 1) s.step (i + 1)
          (fun x a b => h3 x a (by omega))
        have e1 : s.step + (j - s.step) = j := by omega
        have ihs := ih (i + 1) s' h5 (by rw [h6]; omega)
        have e2 : 2 * m.length + 1 - s'.step = 2 * m.length - j := by rw [h6]; omega
        rw [e2, h6] at ihs
        simp only [allocLoop, allocTop, hlim, if_false, h7]
        rw [e0, this, e1]
        cases hsl : slotAt m (pos h m.length j) with
        | empty => simp [classify, allocF, hsl]
        | tombstone => simp [classify, allocF, hsl]
        | full tg =>
          have htg : tg = tagOf h := by
            simp [skipB, hsl] at h4; exact h4
          simp only [classify, allocF, hsl, htg, ihs, allocTop, ne_eq, not_true_eq_false, if_false]

/-- the mirrored `allocate_bucket` never runs out of fuel `≥ 2n + 2` and is the flat search -/
theorem allocLoop_new_eq (m : List Slot) (lim h fuel : Nat) (hf : 2 * m.length + 2 ≤ fuel) :
    allocLoop m lim fuel 0 (PS.new h m.length) = some (allocTop m lim h (2 * m.length + 1) 0 0) := by
  have := allocLoop_eq m lim h fuel 0 (PS.new h m.length) (PS.new_ok _ _)
    (by show 2 * m.length + 1 - 0 < fuel; omega)
  exact this

end Nomt.Store.Probe
