import NomtModel.Store.SyncGenPc
/-!
# The invariant that ties the sync program to the order monitor

`Inv P s st id`: the program is in state `s` (program counters), the monitor in state `st` having read `id` lines.  The
monitor's per-file reading (`Holds`) is a TABLE of the program counters (`fsOf`): the happens-before edges of the program
are exactly what makes the table well defined — e.g. `ln` is `syncing` while `fl = 1`, and `fl > 0` is only reachable when
every beatree operation has completed, so no `ln` write can begin under the fsync.
-/
namespace Nomt.Store.SyncGen
open Nomt.Store

def reserved : List String := ["meta", "wal", "ln", "bbn", "ht", "dir"]

/-- the head segment `prune_recent` truncates (a name that is no file of the store when there is none) -/
def headName (P : Params) : String := match P.prune.tail with | some (h, _) => h | none => "rollback:-"

/-- the names of rollback segments are not names of the five store files / the directory -/
structure Params.WF (P : Params) : Prop where
  seg : ∀ a, P.seg = some a → a.name ∉ reserved
  head : headName P ∉ reserved

def Params.wfB (P : Params) : Bool :=
  (match P.seg with | some a => !reserved.contains a.name | none => true) && !reserved.contains (headName P)

theorem Params.wfB_sound (P : Params) (h : P.wfB = true) : P.WF := by
  simp only [Params.wfB, Bool.and_eq_true, Bool.not_eq_true', List.contains_eq_mem, decide_eq_false_iff_not] at h
  refine ⟨fun a ha => ?_, h.2⟩
  have := h.1
  rw [ha] at this
  simpa using this

def u2 (P : Params) : Nat := 2 * P.prune.unlinks.length

def fileList (P : Params) : List String := ["wal", "ln", "bbn", "meta", "ht", "dir", headName P]

/-! ## The table -/

def walFS (P : Params) (s : PSt) : FS :=
  if s.w = 0 then .clean else if s.w = 1 then .opn (oneN ("SetLen", 0)) else if s.w = 2 then .opn zeroN
  else if s.w = 3 then .opn (oneN ("Append", 0)) else if s.w = 4 then .opn zeroN else if s.w = 5 then .syncing P.tWal
  else if s.tl ≤ 2 then .clean else if s.tl = 3 then .opn (oneN ("SetLen", 0)) else .opn zeroN

def lnFS (P : Params) (s : PSt) : FS :=
  if s.fl = 0 then .opn (fun k => openBt false k P.bt s.bt) else if s.fl = 1 then .syncing P.tLn else .clean

def bbnFS (P : Params) (s : PSt) : FS :=
  if s.fb = 0 then .opn (fun k => openBt true k P.bt s.bt) else if s.fb = 1 then .syncing P.tBbn else .clean

def metaFS (P : Params) (s : PSt) : FS :=
  if s.m = 0 then .clean else if s.m = 1 then .opn (oneN ("Write", 0)) else if s.m = 2 then .opn zeroN
  else if s.m = 3 then .syncing P.tMain else .clean

def htFS (P : Params) (s : PSt) : FS :=
  if s.m < 4 then .clean else if s.tl = 0 then .opn (fun k => openHt k P.ht s.ht)
  else if s.tl = 1 then .syncing P.tMain else .clean

def dirFS (P : Params) (s : PSt) : FS :=
  if s.m < 4 then .clean else if s.pr ≤ u2 P then .opn zeroN else if s.pr = u2 P + 1 then .syncing P.tPrune else .clean

def headFS (P : Params) (s : PSt) : FS :=
  if s.pr ≤ u2 P + 2 then .clean else if s.pr = u2 P + 3 then .opn (oneN ("SetLen", 0))
  else if s.pr = u2 P + 4 then .opn zeroN else if s.pr = u2 P + 5 then .syncing P.tPrune else .clean

def fsOf (P : Params) (s : PSt) (f : String) : FS :=
  if f = "wal" then walFS P s else if f = "ln" then lnFS P s else if f = "bbn" then bbnFS P s
  else if f = "meta" then metaFS P s else if f = "ht" then htFS P s else if f = "dir" then dirFS P s
  else headFS P s

theorem fsOf_wal (P : Params) (s : PSt) : fsOf P s "wal" = walFS P s := rfl
theorem fsOf_ln (P : Params) (s : PSt) : fsOf P s "ln" = lnFS P s := rfl
theorem fsOf_bbn (P : Params) (s : PSt) : fsOf P s "bbn" = bbnFS P s := rfl
theorem fsOf_meta (P : Params) (s : PSt) : fsOf P s "meta" = metaFS P s := rfl
theorem fsOf_ht (P : Params) (s : PSt) : fsOf P s "ht" = htFS P s := rfl
theorem fsOf_dir (P : Params) (s : PSt) : fsOf P s "dir" = dirFS P s := rfl

theorem head_ne (P : Params) (hwf : P.WF) :
    headName P ≠ "meta" ∧ headName P ≠ "wal" ∧ headName P ≠ "ln" ∧ headName P ≠ "bbn" ∧ headName P ≠ "ht" ∧
    headName P ≠ "dir" := by
  have := hwf.head
  simp only [reserved, List.mem_cons, List.not_mem_nil, or_false, not_or] at this
  exact this

theorem fsOf_head (P : Params) (hwf : P.WF) (s : PSt) : fsOf P s (headName P) = headFS P s := by
  obtain ⟨h1, h2, h3, h4, h5, h6⟩ := head_ne P hwf
  simp only [fsOf, h1, h2, h3, h4, h5, h6, if_false]

def phaseOf (m : Nat) : Nat := if m = 0 then 0 else if m < 4 then 1 else 2

/-! ## The invariant -/

structure Inv (P : Params) (s : PSt) (st : OrderSt) (id : Nat) : Prop where
  g : GInv st id
  files : ∀ p ∈ st.pend, p.file ∈ fileList P
  phase : st.phase = phaseOf s.m
  walW : st.walWritten = decide (3 ≤ s.w)
  metaId : 0 < s.m → s.m < 4 → ∃ p ∈ st.pend, p.file = "meta" ∧ p.id = st.metaId
  tab : ∀ f ∈ fileList P, Holds f st (fsOf P s f)
  pc : PcInv P s

/-- the common part of every case: the monitor accepted line `l` (`hs`), the line's file reads as the table says for the
new program counters (`hown`), and the table entries of the other files are implied by the old ones (`htab`) -/
theorem Inv.next {P : Params} {s s' : PSt} {st st' : OrderSt} {id : Nat} {l : IoEv2}
    (h : Inv P s st id) (hs : orderStep st id l = .ok st') (hlf : lineFile l ∈ fileList P)
    (hphase : st'.phase = phaseOf s'.m) (hwalW : st'.walWritten = decide (3 ≤ s'.w))
    (hmeta : 0 < s'.m → s'.m < 4 → ∃ p ∈ st'.pend, p.file = "meta" ∧ p.id = st'.metaId)
    (hpc : PcInv P s')
    (htab : ∀ f ∈ fileList P, f ≠ lineFile l → ∀ st0, Holds f st0 (fsOf P s f) → Holds f st0 (fsOf P s' f))
    (hown : Holds (lineFile l) st' (fsOf P s' (lineFile l))) : Inv P s' st' (id + 1) := by
  obtain ⟨hg', hsame, hfl⟩ := orderStep_generic h.g l hs
  refine ⟨hg', ?_, hphase, hwalW, hmeta, ?_, hpc⟩
  · intro p hp
    rcases hfl p hp with hpf | ⟨q, hq, hqf⟩
    · rw [hpf]; exact hlf
    · rw [← hqf]; exact h.files q hq
  · intro f hf
    by_cases hfe : f = lineFile l
    · rw [hfe]; exact hown
    · exact htab f hf hfe st' ((h.tab f hf).same (hsame f hfe))

theorem mem_fileList_wal (P : Params) : "wal" ∈ fileList P := by simp [fileList]
theorem mem_fileList_ln (P : Params) : "ln" ∈ fileList P := by simp [fileList]
theorem mem_fileList_bbn (P : Params) : "bbn" ∈ fileList P := by simp [fileList]
theorem mem_fileList_meta (P : Params) : "meta" ∈ fileList P := by simp [fileList]
theorem mem_fileList_ht (P : Params) : "ht" ∈ fileList P := by simp [fileList]
theorem mem_fileList_dir (P : Params) : "dir" ∈ fileList P := by simp [fileList]
theorem mem_fileList_head (P : Params) : headName P ∈ fileList P := by simp [fileList]

theorem phaseOf_zero : phaseOf 0 = 0 := rfl

theorem oneN_bump (k0 : Key) : ∀ k, bump zeroN k0 k = oneN k0 k := by
  intro k; simp [bump, zeroN, oneN]

theorem oneN_drop (k0 : Key) : ∀ k, drop1 (oneN k0) k0 k = zeroN k := by
  intro k; simp only [drop1, oneN, zeroN]; split <;> rfl

/-! ## The WAL task -/

theorem inv_step_wal (P : Params) (hwf : P.WF) (s : PSt) (st : OrderSt) (id : Nat) (l : IoEv2)
    (h : Inv P s st id) (hl : (walLines P)[s.w]? = some l) :
    ∃ st', orderStep st id l = .ok st' ∧ Inv P { s with w := s.w + 1 } st' (id + 1) := by
  have hpc' := pcinv_step P s _ l h.pc (.wal s l hl)
  have hm0 : s.m = 0 := by
    rcases Nat.eq_zero_or_pos s.m with h0 | h0
    · exact h0
    · have := (h.pc.pre h0).1
      have hlt := (List.getElem?_eq_some_iff.mp hl).1
      rw [walLines_length] at hlt; omega
  have hph : st.phase = 0 := by rw [h.phase, hm0]; rfl
  have htl : s.tl = 0 := (h.pc.post (by omega)).1
  have hwal := h.tab "wal" (mem_fileList_wal P)
  rw [fsOf_wal] at hwal
  -- the table entries of the other files do not mention `w`
  have htab : ∀ f ∈ fileList P, f ≠ "wal" → ∀ st0, Holds f st0 (fsOf P s f) →
      Holds f st0 (fsOf P { s with w := s.w + 1 } f) := by
    intro f _ hne st0 h0
    simp only [fsOf, if_neg hne] at h0 ⊢
    exact h0
  have hmeta : ∀ st' : OrderSt, 0 < s.m → s.m < 4 → ∃ p ∈ st'.pend, p.file = "meta" ∧ p.id = st'.metaId := by
    intro st' h0; omega
  rcases wal_cases P s.w l hl with ⟨hw, rfl⟩ | ⟨hw, rfl⟩ | ⟨hw, rfl⟩ | ⟨hw, rfl⟩ | ⟨hw, rfl⟩ | ⟨hw, rfl⟩
  · -- Begin SetLen wal
    obtain ⟨st', hs, hpend, hsy, hph', hmid, hww⟩ := step_beginData st id (ev "SetLen" "wal" 0 0 "wal.write.set_len") P.tWal
      rfl (by simp [ev]) (by omega) (fun h => by simp [ev] at h) (fun _ h2 => by omega) (fun h => by simp [ev] at h)
    refine ⟨st', hs, h.next hs (mem_fileList_wal P) (by rw [hph', h.phase]) ?_ (hmeta st') hpc' htab ?_⟩
    · rw [hww, h.walW, hw]; simp [ev]
    · show Holds "wal" st' (fsOf P _ "wal")
      rw [fsOf_wal]
      simp only [walFS, hw] at hwal ⊢
      simp only [if_true] at hwal
      exact (hwal.clean_opn.begin id _ rfl hpend hsy).opn_congr (oneN_bump _)
  · -- End SetLen wal
    obtain ⟨st', hs, hpend, hsy, hph', hmid, hww⟩ := step_endData st id (ev "SetLen" "wal" 0 0 "wal.write.set_len") P.tWal rfl
    refine ⟨st', hs, h.next hs (mem_fileList_wal P) (by rw [hph', h.phase]) ?_ (hmeta st') hpc' htab ?_⟩
    · rw [hww, h.walW, hw]; simp
    · show Holds "wal" st' (fsOf P _ "wal")
      rw [fsOf_wal]
      simp only [walFS, hw] at hwal ⊢
      simp at hwal ⊢
      exact (hwal.endData h.g _ rfl rfl hpend hsy).opn_congr (oneN_drop _)
  · -- Begin Append wal
    obtain ⟨st', hs, hpend, hsy, hph', hmid, hww⟩ := step_beginData st id (ev "Append" "wal" 0 P.walLen "wal.write") P.tWal
      rfl (by simp [ev]) (by omega) (fun h => by simp [ev] at h) (fun _ h2 => by omega) (fun h => by simp [ev] at h)
    refine ⟨st', hs, h.next hs (mem_fileList_wal P) (by rw [hph', h.phase]) ?_ (hmeta st') hpc' htab ?_⟩
    · rw [hww, h.walW, hw, hph]; simp [ev]
    · show Holds "wal" st' (fsOf P _ "wal")
      rw [fsOf_wal]
      simp only [walFS, hw] at hwal ⊢
      simp at hwal ⊢
      exact (hwal.begin id _ rfl hpend hsy).opn_congr (oneN_bump _)
  · -- End Append wal
    obtain ⟨st', hs, hpend, hsy, hph', hmid, hww⟩ := step_endData st id (ev "Append" "wal" 0 P.walLen "wal.write") P.tWal rfl
    refine ⟨st', hs, h.next hs (mem_fileList_wal P) (by rw [hph', h.phase]) ?_ (hmeta st') hpc' htab ?_⟩
    · rw [hww, h.walW, hw]; simp
    · show Holds "wal" st' (fsOf P _ "wal")
      rw [fsOf_wal]
      simp only [walFS, hw] at hwal ⊢
      simp at hwal ⊢
      exact (hwal.endData h.g _ rfl rfl hpend hsy).opn_congr (oneN_drop _)
  · -- Begin Fsync wal
    obtain ⟨st', hs, hpend, hsy, hph', hmid, hww⟩ := step_beginFsync st id "wal" 0 0 "wal.write.fsync" P.tWal
    refine ⟨st', hs, h.next hs (mem_fileList_wal P) (by rw [hph', h.phase]) ?_ (hmeta st') hpc' htab ?_⟩
    · rw [hww, h.walW, hw]; simp
    · show Holds "wal" st' (fsOf P _ "wal")
      rw [fsOf_wal]
      simp only [walFS, hw] at hwal ⊢
      simp at hwal ⊢
      exact hwal.beginFsync P.tWal (fun _ => rfl) hpend hsy
  · -- End Fsync wal
    simp only [walFS, hw] at hwal
    simp at hwal
    obtain ⟨cov, rest, htk, hrest, hcov⟩ := hwal.endSync
    obtain ⟨st', hs, hpend, hsy, hph', hmid, hww⟩ := step_endSync st id (ev "Fsync" "wal" 0 0 "wal.write.fsync") P.tWal "wal"
      (Or.inl ⟨rfl, rfl⟩) cov rest htk
    refine ⟨st', hs, h.next hs (mem_fileList_wal P) ?_ ?_ (hmeta st') hpc' htab ?_⟩
    · rw [hph', hph, h.phase.symm.trans hph]; simp
    · rw [hww, h.walW, hw]; simp
    · show Holds "wal" st' (fsOf P _ "wal")
      rw [fsOf_wal]
      simp only [walFS, hw, htl]
      simp
      exact Holds.clean_of_endSync cov rest hrest hcov hpend hsy

end Nomt.Store.SyncGen
