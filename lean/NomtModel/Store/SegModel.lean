import NomtModel.Core.Outcome
/-!
# The segmented log on disk (`nomt/src/seglog/mod.rs`, `segment_rw.rs`) — executable model

The rollback log of the store is a **directory of segment files** `rollback.<10-digit id>.log`.  Every file is a
sequence of *records*; a record is a 12-byte header (payload length `u32` LE, record id `u64` LE), the payload and
zero padding up to the next multiple of 4096 (`RECORD_ALIGNMENT`).  The byte-level framing is in
`Store/SegFrame.lean`; here a file is what the reader (`SegmentFileReader`) makes of it:

* `recs`  — the complete records, in file order;
* `torn`  — `some (r, k)`: after them the file holds the first `k` bytes (`0 < k < r.size`) of the encoding of one
  more record `r` (an append the process / the power did not finish).  `k < 12`: not even a header (`read_exact`
  fails); `12 ≤ k < 12 + len`: header complete, payload short (`skip_payload` works, `read_payload` fails);
  `12 + len ≤ k`: only padding is missing (the reader cannot tell the difference from a complete record).
  An all-zero page is the record `⟨0, []⟩`.

The functions below mirror the Rust: `append` (+ `create_segment`, `gen_segment_id`, the writer's position
arithmetic), `prune_oldest`, `prune_recent`, `remove_all_segments`, `truncate_head_segment` / `scan_record_end`,
and `open` with `Recovery::{scan_root_dir, scan_segment, on_next_record, enter_live, exit_live, is_live,
remove_nonlive_segments}`.  Every function returns the ordered list of file-system effects it issues
(`FsEff`, in the order of the `verif_hook` events) next to the new directory, so that crash images are prefixes
of that list.  Every Rust `panic!` is `Outcome.panic`, every `Err` an `Err` value.

Not modelled: a header declaring more than `MAX_RECORD_PAYLOAD_SIZE` bytes on the *read* side (needs a 1 GiB list),
file names that start with the prefix but do not parse, I/O errors of the operating system.
-/
namespace Nomt.Seg

def ALIGN : Nat := 4096
def HDR : Nat := 12
def MAXPAY : Nat := 1073741824
def U32 : Nat := 4294967296

structure Rec where
  id : Nat
  payload : List UInt8
deriving DecidableEq, Repr, Inhabited

/-- `((n + 4095) / 4096) * 4096` -/
def roundUp (n : Nat) : Nat := (n + (ALIGN - 1)) / ALIGN * ALIGN

/-- bytes a record occupies in a segment file -/
def Rec.size (r : Rec) : Nat := roundUp (HDR + r.payload.length)

structure SegFile where
  recs : List Rec := []
  torn : Option (Rec × Nat) := none
deriving DecidableEq, Repr, Inhabited

def recsSize : List Rec → Nat
  | [] => 0
  | r :: rs => r.size + recsSize rs

def tornLen : Option (Rec × Nat) → Nat
  | none => 0
  | some (_, k) => k

def SegFile.size (f : SegFile) : Nat := recsSize f.recs + tornLen f.torn

/-- the directory: segment id ↦ file, in `read_dir` order (any order; `open` sorts) -/
abbrev Dir := List (Nat × SegFile)

inductive Err where
  | rangeNil                       -- "Start live and end live must both be nil or both be non-nil"
  | segIdNil                       -- "Segment ID is nil"
  | gap (this last : Nat)          -- "Gap in segment IDs: this {}, last {}"
  | shortRead                      -- `read_exact`: "failed to fill whole buffer"
  | unordered (this expected : Nat) -- "IDs are not ordered: this {}, expected {}"
  | noFirstLive                    -- "Failed to find the first live segment"
  | noLastLive                     -- "Failed to find the last live segment"
  | invalidLive                    -- "Invalid live segment indices"
  | noLastRecord                   -- "Failed to find the last live record in the head segment"
  | tooLarge                       -- "Record payload size is too large"
  | exists                         -- `create_new` on an existing file
deriving DecidableEq, Repr

/-! ## File-system effects -/

inductive FsEff where
  | create (id : Nat)
  /-- the bytes of record `r` appended to file `id` so far are its first `k` (after the header: 12, after the
  payload: 12 + len; the padding is a `setLen`) -/
  | write (id : Nat) (r : Rec) (k : Nat)
  | setLen (id : Nat) (n : Nat)
  | fsync (id : Nat)
  | dirsync
  | unlink (id : Nat)
deriving DecidableEq, Repr

def SegFile.writeTail (f : SegFile) (r : Rec) (k : Nat) : SegFile :=
  if k = 0 then { f with torn := none }
  else if k < r.size then { f with torn := some (r, k) }
  else { recs := f.recs ++ [r], torn := none }

/-- what `set_len` to the full extent of a record makes of its first `k ≥ 12` bytes: the missing payload is zero -/
def zeroFill (r : Rec) (k : Nat) : Rec :=
  ⟨r.id, r.payload.take (k - HDR) ++ List.replicate (r.payload.length - (k - HDR)) 0⟩

/-- the records below offset `n`; `.inl t`: the cut ends inside / at the end of the records (tail `t`),
`.inr m`: `n` exceeds them by `m > 0` -/
def cutRecs : List Rec → Nat → List Rec × (Option (Rec × Nat) ⊕ Nat)
  | [], n => ([], if n = 0 then .inl none else .inr n)
  | r :: rs, n =>
    if n = 0 then ([], .inl none)
    else if n < r.size then ([], .inl (some (r, n)))
    else
      let p := cutRecs rs (n - r.size)
      (r :: p.1, p.2)

/-- `File::set_len(n)`.  Modelled: every `n ≤ size` (truncation anywhere, also inside a record) and the one
extension the code performs (`truncate_head_segment` on a head whose last record lacks padding: `n` = the end of
the torn record).  Other extensions (zero pages) leave the file unchanged here and are never issued. -/
def SegFile.setLen (f : SegFile) (n : Nat) : SegFile :=
  match cutRecs f.recs n with
  | (rs, .inl t) => { recs := rs, torn := t }
  | (rs, .inr m) =>
    match f.torn with
    | none => f
    | some (r, k) =>
      if m ≤ k then { recs := rs, torn := some (r, m) }
      else if HDR ≤ k ∧ m = r.size then { recs := rs ++ [zeroFill r k], torn := none }
      else f

def updFile (d : Dir) (id : Nat) (g : SegFile → SegFile) : Dir :=
  d.map (fun x => if x.1 = id then (x.1, g x.2) else x)

def applyEff (d : Dir) : FsEff → Dir
  | .create id => d ++ [(id, {})]
  | .write id r k => updFile d id (·.writeTail r k)
  | .setLen id n => updFile d id (·.setLen n)
  | .fsync _ => d
  | .dirsync => d
  | .unlink id => d.filter (fun x => x.1 ≠ id)

def applyEffs (d : Dir) (es : List FsEff) : Dir := es.foldl applyEff d

def lookup (d : Dir) (id : Nat) : Option SegFile := (d.find? (fun x => x.1 = id)).map (·.2)

/-! ## In-memory state of `SegmentedLog` -/

structure SegMeta where
  id : Nat
  min : Nat
  max : Nat
deriving DecidableEq, Repr, Inhabited

structure Log where
  maxSeg : Nat
  startLive : Nat := 0
  endLive : Nat := 0
  /-- oldest first; the last one is the head -/
  segs : List SegMeta := []
  /-- `head_segment_writer`: `some file_size` -/
  head : Option Nat := none
deriving DecidableEq, Repr, Inhabited

/-- result of an operation on an open log: directory and state afterwards (also after a failure), the effects
issued in order, the value returned -/
structure Res where
  dir : Dir
  log : Log
  effs : List FsEff
  out : Outcome Err Nat
deriving Repr

/-! ## `append` -/

/-- `SegmentFileWriter::write_payload`: the position after the padding, computed from the writer's `file_size`
after the header -/
def nextPos (fileSizeAfterHeader len : Nat) : Nat :=
  let cur := fileSizeAfterHeader + len
  if cur % ALIGN = 0 then cur else (cur / ALIGN + 1) * ALIGN

def genSegmentId (segs : List SegMeta) : Nat :=
  match segs.getLast? with
  | none => (0 + 1) % U32
  | some s => (s.id + 1) % U32

def setLast (f : SegMeta → SegMeta) : List SegMeta → List SegMeta
  | [] => []
  | [x] => [f x]
  | x :: y :: r => x :: setLast f (y :: r)

/-- the part of `append` after the head segment exists -/
def appendWrite (L : Log) (d : Dir) (pre : List FsEff) (created : Bool) (hid sz : Nat) (p : List UInt8) : Res :=
  let rid := L.endLive + 1
  let r : Rec := ⟨rid, p⟩
  let next := nextPos (sz + HDR) p.length
  let effs := [FsEff.write hid r HDR, .write hid r (HDR + p.length), .setLen hid next, .fsync hid]
    ++ (if created then [FsEff.dirsync] else [])
  let L' : Log :=
    { L with
      endLive := rid
      startLive := if L.startLive = 0 then rid else L.startLive
      segs := setLast (fun s => { s with min := if s.min = 0 then rid else s.min, max := rid }) L.segs
      head := some next }
  ⟨applyEffs d effs, L', pre ++ effs, .ok rid⟩

def append (L : Log) (d : Dir) (p : List UInt8) : Res :=
  if p.length > MAXPAY then ⟨d, L, [], .err .tooLarge⟩
  else
    let needNew := match L.head with
      | none => true
      | some sz => decide (L.maxSeg ≤ sz)
    if needNew then
      let nid := genSegmentId L.segs
      if (lookup d nid).isSome then ⟨d, L, [], .err .exists⟩
      else
        let L1 : Log := { L with segs := L.segs ++ [⟨nid, L.endLive + 1, L.endLive + 1⟩], head := some 0 }
        appendWrite L1 (applyEff d (.create nid)) [.create nid] true nid 0 p
    else
      match L.segs.getLast?, L.head with
      | some s, some sz => appendWrite L d [] false s.id sz p
      | _, _ => ⟨d, L, [], .panic "append: head writer without segment"⟩

/-! ## `prune_oldest`, `prune_recent`, `remove_all_segments` -/

def removeAll (L : Log) (d : Dir) : Res :=
  let effs := L.segs.map (fun s => FsEff.unlink s.id)
  ⟨applyEffs d effs, { L with startLive := 0, endLive := 0, segs := [], head := none }, effs, .ok 0⟩

/-- `while self.segments.len() > 1 { if oldest.max >= new_start_live { break } … remove(0) }` -/
def pruneOldestLoop (n : Nat) : List SegMeta → List SegMeta × List Nat
  | [] => ([], [])
  | [x] => ([x], [])
  | x :: y :: rest =>
    if n ≤ x.max then (x :: y :: rest, [])
    else
      let p := pruneOldestLoop n (y :: rest)
      (p.1, x.id :: p.2)

def pruneOldest (L : Log) (d : Dir) (n : Nat) : Res :=
  if n = 0 then removeAll L d
  else if L.segs.isEmpty then ⟨d, L, [], .ok 0⟩
  else if L.endLive < n then ⟨d, L, [], .panic "New live start is greater than the live end"⟩
  else if n < L.startLive then ⟨d, L, [], .panic "The new start of the live range is less than the existing live start"⟩
  else
    let p := pruneOldestLoop n L.segs
    let effs := p.2.map FsEff.unlink
    ⟨applyEffs d effs, { L with startLive := n, segs := p.1 }, effs, .ok 0⟩

/-- on the segments newest first: `while seg_index > 0 { if segment.min <= new_end_live { break } seg_index -= 1 }` -/
def pruneRecentLoop (n : Nat) : List SegMeta → List SegMeta × List Nat
  | [] => ([], [])
  | [x] => ([x], [])
  | x :: y :: rest =>
    if x.min ≤ n then (x :: y :: rest, [])
    else
      let p := pruneRecentLoop n (y :: rest)
      (p.1, x.id :: p.2)

def findEnd (e : Nat) : List Rec → Nat → Option Nat
  | [], _ => none
  | r :: rs, off => if r.id = e then some (off + r.size) else findEnd e rs (off + r.size)

/-- `scan_record_end`: the offset of the end of the first record with id `e` -/
def scanRecordEnd (f : SegFile) (e : Nat) : Except Err (Option Nat) :=
  match findEnd e f.recs 0 with
  | some p => .ok (some p)
  | none =>
    match f.torn with
    | none => .ok none
    | some (r, k) =>
      if k = 0 then .ok none
      else if k < HDR then .error .shortRead
      else if r.id = e then .ok (some (recsSize f.recs + r.size))
      else .ok none

/-- `truncate_head_segment`: the new length of the head file -/
def truncateHead (f : SegFile) (e : Nat) : Except Err Nat :=
  match scanRecordEnd f e with
  | .error x => .error x
  | .ok none => .error .noLastRecord
  | .ok (some p) => .ok p

def pruneRecent (L : Log) (d : Dir) (n : Nat) : Res :=
  if n = 0 then removeAll L d
  else if L.segs.isEmpty then ⟨d, L, [], .ok 0⟩
  else
    let p := pruneRecentLoop n L.segs.reverse
    let segs := p.1.reverse
    let effs1 := p.2.map FsEff.unlink ++ [FsEff.dirsync]
    let d1 := applyEffs d effs1
    let L1 : Log := { L with segs := segs, head := none }
    match segs.getLast? with
    | none => ⟨d1, L1, effs1, .panic "prune_recent: no segment"⟩
    | some h =>
      match lookup d1 h.id with
      | none => ⟨d1, L1, effs1, .err .noLastRecord⟩   -- `File::open` fails (not reachable from a consistent state)
      | some f =>
        match truncateHead f n with
        | .error x => ⟨d1, L1, effs1, .err x⟩
        | .ok pos =>
          let effs2 := [FsEff.setLen h.id pos, .fsync h.id]
          ⟨applyEffs d1 effs2,
           { L1 with segs := setLast (fun s => { s with max := n }) segs, head := some pos, endLive := n },
           effs1 ++ effs2, .ok 0⟩

/-! ## `open` (recovery) -/

structure RState where
  ls : Option Nat := none
  le : Option Nat := none
  /-- the records handed to the callback, in order -/
  out : List Rec := []
deriving DecidableEq, Repr, Inhabited

def RState.isLive (σ : RState) (s : Nat) : Bool := s != 0 && σ.ls.isSome && σ.le.isNone

/-- `on_next_record` = `is_live`, `enter_live`, `exit_live` in this order -/
def onNext (s e idx id : Nat) (σ : RState) : RState × Bool :=
  let was := σ.isLive s
  let became := s != 0 && σ.ls.isNone && decide (s ≤ id)
  let σ1 := if became then { σ with ls := some idx } else σ
  let exited := s != 0 && σ1.isLive s && σ1.le.isNone && decide (e ≤ id)
  let σ2 := if exited then { σ1 with le := some idx } else σ1
  (σ2, was || became || exited)

structure SegScan where
  σ : RState
  min : Option Nat := none
  max : Option Nat := none
  last : Option Nat := none
deriving Repr

/-- `ensure!(record_id == last.next())` fails -/
def unorderedAfter (last : Option Nat) (id : Nat) : Bool :=
  match last with
  | some l => decide (id ≠ l + 1)
  | none => false

def newMin (mn : Option Nat) (id : Nat) : Option Nat :=
  match mn with
  | none => some id
  | some m => some m

def newMax (mx : Option Nat) (id : Nat) : Option Nat :=
  match mx with
  | none => some id
  | some m => if m < id then some id else some m

/-- one iteration of the loop of `scan_segment`; `avail`: the payload is in the file -/
def scanFrame (s e idx : Nat) (r : Rec) (avail : Bool) (c : SegScan) : Except Err SegScan :=
  if unorderedAfter c.last r.id then
    .error (.unordered r.id ((c.last.getD 0) + 1))
  else
    let p := onNext s e idx r.id c.σ
    if p.2 && !avail then .error .shortRead
    else .ok
      { σ := if p.2 then { p.1 with out := p.1.out ++ [r] } else p.1
        min := newMin c.min r.id
        max := newMax c.max r.id
        last := some r.id }

def scanRecs (s e idx : Nat) : List Rec → SegScan → Except Err SegScan
  | [], c => .ok c
  | r :: rs, c =>
    match scanFrame s e idx r true c with
    | .error x => .error x
    | .ok c' => scanRecs s e idx rs c'

/-- `scan_segment`: the new recovery state and the candidate's `(min, max)` -/
def scanSegment (s e idx : Nat) (f : SegFile) (σ : RState) : Except Err (RState × Nat × Nat) :=
  match scanRecs s e idx f.recs { σ := σ } with
  | .error x => .error x
  | .ok c =>
    match f.torn with
    | none => .ok (c.σ, c.min.getD 0, c.max.getD 0)
    | some (r, k) =>
      if k = 0 then .ok (c.σ, c.min.getD 0, c.max.getD 0)
      else if k < HDR then .error .shortRead
      else
        match scanFrame s e idx r (decide (HDR + r.payload.length ≤ k)) c with
        | .error x => .error x
        | .ok c' => .ok (c'.σ, c'.min.getD 0, c'.max.getD 0)

def insertById (x : Nat × SegFile) : Dir → Dir
  | [] => [x]
  | y :: ys => if x.1 ≤ y.1 then x :: y :: ys else y :: insertById x ys

/-- `candidates.sort_by_key(|c| c.id)` -/
def sortById : Dir → Dir
  | [] => []
  | x :: xs => insertById x (sortById xs)

/-- the checks of `scan_root_dir` -/
def checkIds : Option Nat → List Nat → Except Err Unit
  | _, [] => .ok ()
  | prev, i :: is =>
    if i = 0 then .error .segIdNil
    else
      match prev with
      | some p => if p ≠ i - 1 then .error (.gap i p) else checkIds (some i) is
      | none => checkIds (some i) is

def scanAll (s e : Nat) : Nat → Dir → RState → Except Err (RState × List SegMeta)
  | _, [], σ => .ok (σ, [])
  | idx, (id, f) :: rest, σ =>
    match scanSegment s e idx f σ with
    | .error x => .error x
    | .ok (σ', mn, mx) =>
      match scanAll s e (idx + 1) rest σ' with
      | .error x => .error x
      | .ok (σ'', ms) => .ok (σ'', ⟨id, mn, mx⟩ :: ms)

/-- `remove_nonlive_segments`: (segments to unlink in this order, live segments) -/
def splitLive (ls le : Option Nat) (cands : List SegMeta) : Except Err (List SegMeta × List SegMeta) :=
  match ls, le with
  | none, none => .ok (cands, [])
  | some a, some b =>
    let after := cands.drop (b + 1)
    let upto := cands.take (b + 1)
    .ok (upto.take a ++ after.reverse, upto.drop a)
  | _, _ => .error .invalidLive

/-- the order before the repair of F16: `before ++ after`, both ascending -/
def splitLiveOld (ls le : Option Nat) (cands : List SegMeta) : Except Err (List SegMeta × List SegMeta) :=
  match ls, le with
  | none, none => .ok (cands, [])
  | some a, some b =>
    let after := cands.drop (b + 1)
    let upto := cands.take (b + 1)
    .ok (upto.take a ++ after, upto.drop a)
  | _, _ => .error .invalidLive

structure ORes where
  dir : Dir
  effs : List FsEff
  out : Outcome Err (Log × List Rec)
deriving Repr

def openWith (split : Option Nat → Option Nat → List SegMeta → Except Err (List SegMeta × List SegMeta))
    (maxSeg s e : Nat) (d : Dir) : ORes :=
  if (s = 0) ≠ (e = 0) then ⟨d, [], .err .rangeNil⟩
  else
    let cands := sortById d
    match checkIds none (cands.map (·.1)) with
    | .error x => ⟨d, [], .err x⟩
    | .ok _ =>
      match (if s = 0 then .ok (({} : RState), cands.map (fun c => (⟨c.1, 0, 0⟩ : SegMeta)))
             else scanAll s e 0 cands {}) with
      | .error x => ⟨d, [], .err x⟩
      | .ok (σ, metas) =>
        if s ≠ 0 ∧ σ.ls.isNone then ⟨d, [], .err .noFirstLive⟩
        else if s ≠ 0 ∧ σ.le.isNone then ⟨d, [], .err .noLastLive⟩
        else
          match split σ.ls σ.le metas with
          | .error x => ⟨d, [], .err x⟩
          | .ok (nonlive, live) =>
            let effs1 := nonlive.map (fun m => FsEff.unlink m.id)
            let d1 := applyEffs d effs1
            match live.getLast? with
            | none => ⟨d1, effs1, .ok (⟨maxSeg, s, e, [], none⟩, σ.out)⟩
            | some h =>
              match lookup d1 h.id with
              | none => ⟨d1, effs1, .err .noLastRecord⟩
              | some f =>
                match truncateHead f e with
                | .error x => ⟨d1, effs1, .err x⟩
                | .ok pos =>
                  let effs2 := [FsEff.setLen h.id pos, .fsync h.id]
                  ⟨applyEffs d1 effs2, effs1 ++ effs2,
                   .ok (⟨maxSeg, s, e, setLast (fun m => { m with max := e }) live, some pos⟩, σ.out)⟩

/-- `seglog::open` as the repaired code has it -/
def openM := openWith splitLive
/-- `seglog::open` with the removal order before the repair of F16 -/
def openOld := openWith splitLiveOld

/-! ## Abstraction: the log as a list of records -/

/-- all complete records of the directory in segment-id order -/
def allRecs (d : Dir) : List Rec := (sortById d).flatMap (·.2.recs)

end Nomt.Seg
