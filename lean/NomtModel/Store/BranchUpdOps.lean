import NomtModel.Store.BranchUpdGauge
/-!
# Branch updater: what an op list stands for, well-formed nodes and ops

`den b? ops`: the list of (separator, page number) an op list stands for (as entries of the sorted-list vocabulary of
`Store/LeafUpd*.lean`, `ovf = false`); `NodeOK kf nd`: a node as `BranchNodeBuilder` writes it for ascending keys
(compressed keys share the prefix, stored lengths are the canonical ones); `OpOK` / `WF`: `Update` / `KeepChunk` refer to
prefix-compressed items of the base and a chunk's `sum_separator_lengths` is the real sum.
-/
namespace Nomt.BranchUpd
open Nomt.LeafUpd (Entry slice_length slice_append slice_succ slice_cons_of_lt mem_slice slice_self)

def Item.ent (it : Item) : Entry Nat := ⟨it.key, it.pn, false⟩
def ents (l : List Item) : List (Entry Nat) := l.map Item.ent

@[simp] theorem ents_nil : ents [] = [] := rfl
@[simp] theorem ents_cons (a : Item) (l : List Item) : ents (a :: l) = a.ent :: ents l := rfl
@[simp] theorem ents_append (a b : List Item) : ents (a ++ b) = ents a ++ ents b := by simp [ents]
@[simp] theorem ents_length (l : List Item) : (ents l).length = l.length := by simp [ents]

def baseItems (b? : Option Base) : List Item :=
  match b? with
  | some b => b.node.items
  | none => []

def denOp (b? : Option Base) : Op → List (Entry Nat)
  | .ins k pn => [⟨k, pn, false⟩]
  | .upd pos pn =>
    match (baseItems b?)[pos]? with
    | some it => [⟨it.key, pn, false⟩]
    | none => []
  | .keep s e _ => ents (slice (baseItems b?) s e)

def den (b? : Option Base) : List Op → List (Entry Nat)
  | [] => []
  | op :: r => denOp b? op ++ den b? r

@[simp] theorem den_nil (b? : Option Base) : den b? [] = [] := rfl
@[simp] theorem den_cons (b? : Option Base) (op : Op) (r : List Op) : den b? (op :: r) = denOp b? op ++ den b? r := rfl
@[simp] theorem den_append (b? : Option Base) (a c : List Op) : den b? (a ++ c) = den b? a ++ den b? c := by
  induction a with
  | nil => rfl
  | cons op r ih => simp [ih]

/-- the keys of a list of entries -/
def ekeys (l : List (Entry Nat)) : List Nat := l.map (·.key)

@[simp] theorem ekeys_nil : ekeys [] = [] := rfl
@[simp] theorem ekeys_cons (a : Entry Nat) (l : List (Entry Nat)) : ekeys (a :: l) = a.key :: ekeys l := rfl
@[simp] theorem ekeys_append (a b : List (Entry Nat)) : ekeys (a ++ b) = ekeys a ++ ekeys b := by simp [ekeys]
@[simp] theorem ekeys_length (l : List (Entry Nat)) : (ekeys l).length = l.length := by simp [ekeys]

theorem ekeys_ents (l : List Item) : ekeys (ents l) = l.map (·.key) := by
  simp [ekeys, ents, Item.ent]

def AllIns : List Op → Prop
  | [] => True
  | .ins _ _ :: r => AllIns r
  | _ :: _ => False

theorem AllIns.append : ∀ {a b : List Op}, AllIns a → AllIns b → AllIns (a ++ b)
  | [], _, _, hb => hb
  | .ins _ _ :: r, _, ha, hb => AllIns.append (a := r) ha hb
  | .upd _ _ :: _, _, ha, _ => ha.elim
  | .keep _ _ _ :: _, _, ha, _ => ha.elim

theorem AllIns.right : ∀ {a b : List Op}, AllIns (a ++ b) → AllIns b
  | [], _, h => h
  | .ins _ _ :: r, _, h => AllIns.right (a := r) h
  | .upd _ _ :: _, _, h => h.elim
  | .keep _ _ _ :: _, _, h => h.elim

theorem AllIns.left : ∀ {a b : List Op}, AllIns (a ++ b) → AllIns a
  | [], _, _ => trivial
  | .ins _ _ :: r, _, h => AllIns.left (a := r) h
  | .upd _ _ :: _, _, h => h.elim
  | .keep _ _ _ :: _, _, h => h.elim

/-- an all-`Insert` list stands for the same entries whatever the base -/
theorem den_allIns : ∀ {ops : List Op}, AllIns ops → ∀ b1 b2, den b1 ops = den b2 ops
  | [], _, _, _ => rfl
  | .ins _ _ :: r, h, b1, b2 => by simp [denOp, den_allIns (ops := r) h b1 b2]
  | .upd _ _ :: _, h, _, _ => h.elim
  | .keep _ _ _ :: _, h, _, _ => h.elim

theorem opsCount_allIns : ∀ {ops : List Op}, AllIns ops → opsCount ops = ops.length
  | [], _ => rfl
  | .ins _ _ :: r, h => by
    have := opsCount_allIns (ops := r) h
    simp only [opsCount, List.map_cons, List.sum_cons, Op.count, List.length_cons] at this ⊢
    omega
  | .upd _ _ :: _, h => h.elim
  | .keep _ _ _ :: _, h => h.elim

@[simp] theorem opsCount_nil : opsCount [] = 0 := rfl
@[simp] theorem opsCount_cons (op : Op) (r : List Op) : opsCount (op :: r) = op.count + opsCount r := by
  simp [opsCount]
@[simp] theorem opsCount_append (a b : List Op) : opsCount (a ++ b) = opsCount a + opsCount b := by
  simp [opsCount, List.sum_append_nat]

/-! ## well-formed nodes -/

def Node.keys (nd : Node) : List Nat := nd.items.map (·.key)

structure NodeOK (kf : KF) (nd : Node) : Prop where
  ne : nd.items ≠ []
  sorted : SortedK nd.keys
  below : Below nd.keys
  pc_pos : 1 ≤ nd.pc
  pc_le : nd.pc ≤ nd.items.length
  pl_le : nd.pl ≤ 256
  /-- the compressed keys share the first `prefix_len` bits -/
  share : ∀ f, nd.items.head? = some f → ∀ it ∈ nd.items.take nd.pc, top it.key nd.pl = top f.key nd.pl
  /-- stored lengths as `push` writes them -/
  canon : ∀ i (h : i < nd.items.length),
    nd.items[i].slen = if i < nd.pc then kf.sl nd.items[i].key - nd.pl else kf.sl nd.items[i].key

theorem chunkKeys_eq (b : Base) (s e : Nat) : chunkKeys b s e = ekeys (ents (slice b.node.items s e)) := by
  simp [chunkKeys, ekeys_ents]

theorem NodeOK.key_lt {kf : KF} {nd : Node} (h : NodeOK kf nd) (i j : Nat) (hij : i < j) (hj : j < nd.items.length) :
    nd.items[i].key < nd.items[j].key := by
  have := (List.pairwise_iff_getElem.1 h.sorted) i j (by simp [Node.keys]; omega) (by simp [Node.keys]; omega) hij
  simpa [Node.keys] using this

/-- a compressed separator behind the first one is longer than the prefix -/
theorem NodeOK.sl_gt {kf : KF} (hkf : KFOK kf) {nd : Node} (h : NodeOK kf nd) (i : Nat) (h0 : 0 < i) (hi : i < nd.pc)
    (hil : i < nd.items.length) : nd.pl < kf.sl nd.items[i].key := by
  have h0l : 0 < nd.items.length := by omega
  have hlt := h.key_lt 0 i h0 hil
  have hhead : nd.items.head? = some nd.items[0] := by
    rw [List.head?_eq_getElem?, List.getElem?_eq_getElem h0l]
  have hmem : nd.items[i] ∈ nd.items.take nd.pc := by
    rw [List.mem_take_iff_getElem]
    exact ⟨i, by rw [Nat.lt_min]; exact ⟨hi, hil⟩, rfl⟩
  have hsh := h.share _ hhead _ hmem
  have hb : nd.items[i].key < 2 ^ 256 := h.below _ (List.mem_map.2 ⟨nd.items[i], List.getElem_mem _, rfl⟩)
  exact hkf.sl_gt _ _ nd.pl hlt hb h.pl_le hsh.symm

theorem slenSum_cons (a : Item) (l : List Item) : slenSum (a :: l) = a.slen + slenSum l := by simp [slenSum]
@[simp] theorem slenSum_nil : slenSum [] = 0 := rfl
theorem slenSum_append (a b : List Item) : slenSum (a ++ b) = slenSum a + slenSum b := by
  simp [slenSum, List.sum_append_nat]

/-- behind the first item the stored lengths of compressed items are the separator lengths minus the prefix -/
theorem NodeOK.tail_sum {kf : KF} (hkf : KFOK kf) (b : Base) (h : NodeOK kf b.node) :
    ∀ d a, 1 ≤ a → a + d ≤ b.node.pc →
      slenSum (slice b.node.items a (a + d)) + b.node.pl * d = slSum kf (chunkKeys b a (a + d)) := by
  intro d
  induction d with
  | zero => intro a _ _; simp [slice_self, chunkKeys]
  | succ d ih =>
    intro a ha had
    have hal : a < b.node.items.length := by have := h.pc_le; omega
    have hgt := h.sl_gt hkf a (by omega) (by omega) hal
    have hc := h.canon a hal
    have hapc : a < b.node.pc := by omega
    simp only [hapc, if_true] at hc
    have hih := ih (a + 1) (by omega) (by omega)
    have e : a + (d + 1) = a + 1 + d := by omega
    rw [e]
    rw [slice_cons_of_lt _ _ _ (by omega) hal, chunkKeys_cons b a (a + 1 + d) (by omega) hal]
    simp only [slenSum_cons, slSum_cons, hc]
    rw [Nat.mul_add, Nat.mul_one]
    omega

/-- the `sum_separator_lengths` `push_chunk` computes from the cells of the base is the real sum -/
theorem NodeOK.chunk_sum {kf : KF} (hkf : KFOK kf) (b : Base) (h : NodeOK kf b.node) (s e : Nat) (hse : s < e)
    (he : e ≤ b.node.pc) :
    ∃ rl fk, b.node.rangeLen s e = some rl ∧ b.node.key s = some fk ∧
      uncompressedRange b.node.pl rl (e - s) (kf.sl fk) = some (slSum kf (chunkKeys b s e)) := by
  have hpl := h.pc_le
  have hel : e ≤ b.node.items.length := by omega
  have hsl : s < b.node.items.length := by omega
  refine ⟨slenSum (slice b.node.items s e), b.node.items[s].key, ?_, Node.key_of_lt _ _ hsl, ?_⟩
  · have : ¬ (e = 0 ∨ e < s ∨ b.node.items.length < e) := by omega
    simp [Node.rangeLen, this]
  · unfold uncompressedRange
    by_cases hs0 : s = 0
    · subst hs0
      have hc := h.canon 0 hsl
      have h0pc : 0 < b.node.pc := by omega
      simp only [h0pc, if_true] at hc
      have ht := h.tail_sum hkf b (e - 1) 1 (by omega) (by omega)
      have e1 : 1 + (e - 1) = e := by omega
      rw [e1] at ht
      rw [slice_cons_of_lt _ _ _ hse hsl, chunkKeys_cons b 0 e hse hsl]
      simp only [slenSum_cons, slSum_cons, hc, Nat.sub_zero, Nat.zero_add]
      have hmul : b.node.pl * e = b.node.pl * (e - 1) + b.node.pl := by
        have : e = (e - 1) + 1 := by omega
        conv => lhs; rw [this]
        rw [Nat.mul_add, Nat.mul_one]
      rw [hmul]
      generalize b.node.pl * (e - 1) = P at *
      split
      · omega
      · congr 1; omega
    · have ht := h.tail_sum hkf b (e - s) s (by omega) (by omega)
      have e1 : s + (e - s) = e := by omega
      rw [e1] at ht
      have hgt := h.sl_gt hkf s (by omega) (by omega) hsl
      have hz : b.node.pl - kf.sl b.node.items[s].key = 0 := by omega
      rw [hz]
      simp only [Nat.sub_zero, Nat.not_lt_zero, if_false]
      rw [ht]

/-! ## well-formed ops -/

/-- with the repair of F22 (`kf.canon`) an op refers to the first separator of the base only if that separator is at
least as long as the base's prefix -/
def NoShort (kf : KF) (b : Base) (pos : Nat) : Prop :=
  kf.canon = true → pos = 0 → ∀ k, b.node.key 0 = some k → b.node.pl ≤ kf.sl k

def OpOK (kf : KF) (b? : Option Base) : Op → Prop
  | .ins _ _ => True
  | .upd pos _ => ∃ b, b? = some b ∧ pos < b.node.pc ∧ NoShort kf b pos
  | .keep s e sum => ∃ b, b? = some b ∧ s < e ∧ e ≤ b.node.pc ∧ sum = slSum kf (chunkKeys b s e) ∧ NoShort kf b s

def WF (kf : KF) (b? : Option Base) (ops : List Op) : Prop := ∀ op ∈ ops, OpOK kf b? op

theorem wf_nil (kf : KF) (b? : Option Base) : WF kf b? [] := by intro op h; cases h

theorem wf_cons {kf : KF} {b? : Option Base} {op : Op} {r : List Op} : WF kf b? (op :: r) ↔ OpOK kf b? op ∧ WF kf b? r := by
  constructor
  · intro h; exact ⟨h op (by simp), fun o ho => h o (by simp [ho])⟩
  · intro ⟨h1, h2⟩ o ho
    rcases List.mem_cons.1 ho with e | e
    · rw [e]; exact h1
    · exact h2 o e

theorem wf_append {kf : KF} {b? : Option Base} {a c : List Op} : WF kf b? (a ++ c) ↔ WF kf b? a ∧ WF kf b? c := by
  constructor
  · intro h; exact ⟨fun o ho => h o (by simp [ho]), fun o ho => h o (by simp [ho])⟩
  · intro ⟨h1, h2⟩ o ho
    rcases List.mem_append.1 ho with e | e
    · exact h1 o e
    · exact h2 o e

theorem wf_allIns {kf : KF} {b? : Option Base} : ∀ {ops : List Op}, AllIns ops → WF kf b? ops
  | [], _ => wf_nil kf b?
  | .ins _ _ :: r, h => wf_cons.2 ⟨trivial, wf_allIns (ops := r) h⟩
  | .upd _ _ :: _, h => h.elim
  | .keep _ _ _ :: _, h => h.elim

/-! ## `key_value` runs, `replace_with_insert`, `prepare_merge_ops` -/

theorem keyValues_spec (b : Base) : ∀ cnt pos, pos + cnt ≤ b.node.items.length →
    ∃ r, keyValues b cnt pos = some r ∧ den (some b) r = ents (slice b.node.items pos (pos + cnt)) ∧ AllIns r ∧
      r.length = cnt := by
  intro cnt
  induction cnt with
  | zero => intro pos _; exact ⟨[], rfl, by simp [slice_self], trivial, rfl⟩
  | succ cnt ih =>
    intro pos h
    have hp : pos < b.node.items.length := by omega
    obtain ⟨r, e1, e2, e3, e4⟩ := ih (pos + 1) (by omega)
    refine ⟨.ins b.node.items[pos].key b.node.items[pos].pn :: r, ?_, ?_, e3, by simp [e4]⟩
    · simp [keyValues, Node.keyValue, List.getElem?_eq_getElem hp, e1]
    · have e : pos + (cnt + 1) = pos + 1 + cnt := by omega
      rw [e, slice_cons_of_lt _ _ _ (by omega) hp]
      simp [denOp, e2, Item.ent]

theorem count_pos_of_ok {kf : KF} {b? : Option Base} {op : Op} (h : OpOK kf b? op) : 1 ≤ op.count := by
  cases op with
  | ins k pn => simp [Op.count]
  | upd pos pn => simp [Op.count]
  | keep s e sum =>
    obtain ⟨b, _, h1, _, _⟩ := h
    simp only [Op.count]; omega

theorem denOp_length {kf : KF} {b? : Option Base} {op : Op} (hb : ∀ b, b? = some b → b.node.pc ≤ b.node.items.length)
    (h : OpOK kf b? op) : (denOp b? op).length = op.count := by
  cases op with
  | ins k pn => rfl
  | upd pos pn =>
    obtain ⟨b, e, h1, _⟩ := h
    subst e
    have := hb b rfl
    have hp : pos < b.node.items.length := by omega
    simp [denOp, baseItems, List.getElem?_eq_getElem hp, Op.count]
  | keep s e sum =>
    obtain ⟨b, eb, h1, h2, _⟩ := h
    subst eb
    have := hb b rfl
    simp [denOp, baseItems, Op.count, slice_length _ _ _ (by omega : e ≤ b.node.items.length)]

theorem den_length {kf : KF} {b? : Option Base} (hb : ∀ b, b? = some b → b.node.pc ≤ b.node.items.length) :
    ∀ {ops : List Op}, WF kf b? ops → (den b? ops).length = opsCount ops
  | [], _ => rfl
  | op :: r, h => by
    have h' := wf_cons.1 h
    simp [denOp_length hb h'.1, den_length hb h'.2]

theorem replaceOp_spec {kf : KF} {b? : Option Base} (hb : ∀ b, b? = some b → b.node.pc ≤ b.node.items.length)
    {op : Op} (h : OpOK kf b? op) :
    ∃ r, replaceOp b? op = some r ∧ den b? r = denOp b? op ∧ AllIns r ∧ r.length = op.count := by
  cases op with
  | ins k pn => exact ⟨[.ins k pn], rfl, by simp, trivial, rfl⟩
  | upd pos pn =>
    obtain ⟨b, e, h1, _⟩ := h
    subst e
    have := hb b rfl
    have hp : pos < b.node.items.length := by omega
    refine ⟨[.ins b.node.items[pos].key pn], ?_, ?_, trivial, rfl⟩
    · simp [replaceOp, Node.key, List.getElem?_eq_getElem hp]
    · simp [denOp, baseItems, List.getElem?_eq_getElem hp]
  | keep s e sum =>
    obtain ⟨b, eb, h1, h2, _⟩ := h
    subst eb
    have := hb b rfl
    obtain ⟨r, e1, e2, e3, e4⟩ := keyValues_spec b (e - s) s (by omega)
    have e5 : s + (e - s) = e := by omega
    rw [e5] at e2
    refine ⟨r, ?_, by simp [denOp, baseItems, e2], e3, by simp [e4, Op.count]⟩
    have hn1 : ¬ e < s := by omega
    have hn2 : ¬ e = s := by omega
    simp [replaceOp, hn1, hn2, e1]

theorem mergeOps_spec {kf : KF} {b? : Option Base} (hb : ∀ b, b? = some b → b.node.pc ≤ b.node.items.length) :
    ∀ {ops : List Op}, WF kf b? ops →
      ∃ r, mergeOps b? ops = some r ∧ den b? r = den b? ops ∧ AllIns r ∧ r.length = opsCount ops
  | [], _ => ⟨[], rfl, rfl, trivial, rfl⟩
  | op :: rest, h => by
    have h' := wf_cons.1 h
    obtain ⟨a, a1, a2, a3, a4⟩ := replaceOp_spec hb h'.1
    obtain ⟨r, r1, r2, r3, r4⟩ := mergeOps_spec hb (ops := rest) h'.2
    refine ⟨a ++ r, by simp [mergeOps, a1, r1], by simp [a2, r2], a3.append r3, by simp [a4, r4]⟩

end Nomt.BranchUpd
