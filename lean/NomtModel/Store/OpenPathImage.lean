import NomtModel.Store.OpenPathLemmas
import NomtModel.Api.HasherKinds
/-!
# `RootInv` from acceptance by the image monitor

`checkMerkle ht t kvs = ok` (`Store/ImgMerkle.lean`, evaluated by the C16 run on every real directory) is unfolded far
enough to read off the invariant `compute_root_node` relies on: with two or more keys the root page is among the stored
pages and its slots 0 / 1 are `nodeAt` of the two halves; with fewer, NO page is stored at all.
-/
namespace Nomt.OpenPath
open Nomt Nomt.Store

/-- the stored pages by page id, as `checkMerkle` indexes them -/
def storedOf (t : TableStats) : Std.HashMap (List Nat) MerklePage :=
  t.pages.foldl (fun m pg => m.insert pg.pageId pg) {}

/-- the key set the monitor checks the pages against -/
def allOf (kvs : List (ByteArray × ByteArray)) : List KVH := kvs.map (fun x => (bitsOfBytes x.1, x.2))

/-- the two top slots of the stored root page — what `page_cache.get(ROOT_PAGE_ID)` followed by `page.node(0)`,
`page.node(1)` delivers at open (the cache is empty, the page comes from the table: `T13_page_cache_transparent`) -/
def rootPageOf (ht : ByteArray) (t : TableStats) : Option (ByteArray × ByteArray) :=
  ((storedOf t).get? []).map (fun pg => (pg.node ht 0, pg.node ht 1))

/-- a `for x in l do if c x then throw …` that comes back with `ok` saw `c x = false` for every element -/
theorem forIn_except_all {α ε : Type} (l : List α) (f : α → PUnit → Except ε (ForInStep PUnit)) (P : α → Prop)
    (hf : ∀ x, (∃ e, f x PUnit.unit = .error e) ∨ (P x ∧ f x PUnit.unit = .ok (.yield PUnit.unit)))
    (h : ∃ u, forIn l PUnit.unit f = Except.ok u) : ∀ x ∈ l, P x := by
  induction l with
  | nil => intro x hx; cases hx
  | cons a as ih =>
    obtain ⟨u, hu⟩ := h
    rw [List.forIn_cons] at hu
    rcases hf a with ⟨e, he⟩ | ⟨hp, hok⟩
    · rw [he] at hu; cases hu
    · rw [hok] at hu
      intro x hx
      rcases List.mem_cons.1 hx with rfl | hx
      · exact hp
      · exact ih ⟨u, hu⟩ x hx

theorem except_bind_ok {ε α β : Type} {x : Except ε α} {f : α → Except ε β} {b : β} (h : x >>= f = .ok b) :
    ∃ a, x = .ok a ∧ f a = .ok b := by
  cases x with
  | error e => cases h
  | ok a => exact ⟨a, rfl, h⟩

theorem throw_bind {ε α β : Type} (e : ε) (f : α → Except ε β) : ((throw e : Except ε α) >>= f) = .error e := rfl

/-- `checkPage = ok` ⇒ every expectation of the page holds -/
theorem checkPage_ok (ht : ByteArray) (stored : Std.HashMap (List Nat) MerklePage) (pg : MerklePage) (s : List KVH)
    (gs : Array (List KVH)) (h : checkPage ht stored pg s gs = .ok ()) :
    ∀ x ∈ pageChecks pg.pageId s, pg.node ht x.1 = x.2 := by
  unfold checkPage at h
  simp only [] at h
  obtain ⟨u, hu, _⟩ := except_bind_ok h
  have key := forIn_except_all _ _ (fun x => pg.node ht x.1 = x.2) ?_ ⟨u, hu⟩
  · exact key
  intro x
  by_cases hc : (MerklePage.node ht pg x.fst != x.snd) = true
  · left; rw [if_pos hc, throw_bind]; exact ⟨_, rfl⟩
  · right
    rw [if_neg hc]
    refine ⟨?_, rfl⟩
    have : (MerklePage.node ht pg x.fst == x.snd) = true := by simpa [bne] using hc
    exact ByteArray.eq_of_beq' this

theorem storedOf_key (t : TableStats) : ∀ k pg, (storedOf t).get? k = some pg → pg.pageId = k := by
  unfold storedOf
  refine Array.foldl_induction (motive := fun _ (m : Std.HashMap (List Nat) MerklePage) => ∀ k pg, m.get? k = some pg → pg.pageId = k)
    ?_ ?_
  · intro k pg h; simp at h
  · intro i m ih k pg h
    rw [Std.HashMap.get?_insert] at h
    by_cases hk : (t.pages[i].pageId == k) = true
    · simp only [hk, if_true, Option.some.injEq] at h
      rw [← h]; simpa using hk
    · simp only [hk] at h
      exact ih k pg (by simpa using h)

theorem storedOf_empty (t : TableStats) (h : t.pages.size = 0) (k : List Nat) : (storedOf t).get? k = none := by
  have : t.pages = #[] := Array.eq_empty_of_size_eq_zero h
  unfold storedOf
  rw [this]
  simp

/-- **acceptance by `checkMerkle` ⇒ `RootInv`** (hasher Blake3, the key set the monitor was given) -/
theorem rootInv_of_checkMerkle (ht : ByteArray) (t : TableStats) (kvs : List (ByteArray × ByteArray)) (n : Nat)
    (h : checkMerkle ht t kvs = .ok n) : RootInv blakeHasher (allOf kvs) (rootPageOf ht t) := by
  unfold checkMerkle at h
  simp only [] at h
  obtain ⟨n', hw, hrest⟩ := except_bind_ok h
  have hsize : (n' != t.pages.size) = false := by
    by_cases hc : (n' != t.pages.size) = true
    · rw [if_pos hc] at hrest
      obtain ⟨_, _, h2⟩ := except_bind_ok hrest
      cases h2
    · simpa using hc
  change walkPages ht (storedOf t) 44 [] (allOf kvs) = .ok n' at hw
  constructor
  · intro h2
    have hlt : ¬ (allOf kvs).length < 2 := by omega
    unfold walkPages at hw
    simp only [hlt, if_false] at hw
    cases hg : (storedOf t).get? [] with
    | none => rw [hg] at hw; simp at hw
    | some pg =>
      rw [hg] at hw
      simp only [] at hw
      obtain ⟨_, hcp, _⟩ := except_bind_ok hw
      have hid := storedOf_key t [] pg hg
      have hall := checkPage_ok ht _ pg _ _ hcp
      rw [hid] at hall
      obtain ⟨m0, m1⟩ := rootInv_is_monitor_clause (allOf kvs)
      have e0 := hall _ m0
      have e1 := hall _ m1
      simp only at e0 e1
      unfold rootPageOf
      rw [hg, Option.map_some, e0, e1]
  · intro h1
    left
    have hlt : (allOf kvs).length < 2 := by omega
    unfold walkPages at hw
    simp only [hlt, if_true] at hw
    have : n' = 0 := by cases hw; rfl
    subst this
    have hz : t.pages.size = 0 := by
      have : (0 : Nat) = t.pages.size := by simpa using hsize
      omega
    unfold rootPageOf
    rw [storedOf_empty t hz]
    rfl

end Nomt.OpenPath
