import NomtModel.Store.ExtRangeKeys
/-!
What does hold on the lower side: every worker's tracker is a map — its keys are strictly ascending in every reachable state
of every interleaving (`SInv`), so a worker hands every separator to `apply_*_changes` at most once.
-/
namespace Nomt.ExtRange

variable {σ N C : Type}

def KeysSorted (l : Inner N) : Prop := (l.map (·.1)).Pairwise (· < ·)

theorem upsert_keys_lb (key : Nat) (f : TE N → TE N) (dflt : TE N) (b : Nat) : ∀ (l : Inner N), b < key →
    (∀ x ∈ l, b < x.1) → ∀ x ∈ upsert key f dflt l, b < x.1
  | [], hk, _, x, hx => by simp only [upsert, List.mem_singleton] at hx; subst hx; exact hk
  | (k0, e0) :: t, hk, hl, x, hx => by
    simp only [upsert] at hx
    split at hx
    · rcases List.mem_cons.1 hx with h | h
      · subst h; exact hk
      · exact hl x h
    · split at hx
      · rcases List.mem_cons.1 hx with h | h
        · subst h; exact hl (k0, e0) (by simp)
        · exact hl x (List.mem_cons_of_mem _ h)
      · rcases List.mem_cons.1 hx with h | h
        · subst h; exact hl (k0, e0) (by simp)
        · exact upsert_keys_lb key f dflt b t hk (fun y hy => hl y (List.mem_cons_of_mem _ hy)) x h

theorem upsert_sorted (key : Nat) (f : TE N → TE N) (dflt : TE N) : ∀ (l : Inner N), KeysSorted l →
    KeysSorted (upsert key f dflt l)
  | [], _ => by simp [upsert, KeysSorted]
  | (k0, e0) :: t, h => by
    simp only [KeysSorted, List.map_cons, List.pairwise_cons] at h
    obtain ⟨h1, h2⟩ := h
    simp only [upsert]
    split
    · rename_i hlt
      simp only [KeysSorted, List.map_cons, List.pairwise_cons]
      refine ⟨?_, h1, h2⟩
      intro y hy
      rcases List.mem_cons.1 hy with hy | hy
      · subst hy; exact hlt
      · have := h1 y hy; omega
    · split
      · simp only [KeysSorted, List.map_cons, List.pairwise_cons]; exact ⟨h1, h2⟩
      · rename_i hnlt hne
        simp only [KeysSorted, List.map_cons, List.pairwise_cons]
        refine ⟨?_, upsert_sorted key f dflt t h2⟩
        intro y hy
        obtain ⟨x, hx, rfl⟩ := List.mem_map.1 hy
        exact upsert_keys_lb key f dflt k0 t (by omega)
          (fun z hz => h1 z.1 (List.mem_map.2 ⟨z, hz, rfl⟩)) x hx

theorem extend_sorted : ∀ (changed inner : Inner N), KeysSorted inner → KeysSorted (extend inner changed)
  | [], _, h => h
  | (k, e) :: t, inner, h => by
    simp only [extend]
    exact extend_sorted t _ (upsert_sorted k _ e inner h)

theorem sorted_drop (l : Inner N) (n : Nat) (h : KeysSorted l) : KeysSorted (l.drop n) := by
  unfold KeysSorted at *
  rw [List.map_drop]
  exact List.Pairwise.sublist (List.drop_sublist n _) h

def SW (w : W σ N C) : Prop := KeysSorted w.tr.inner
def SInv (g : G σ N C) : Prop := ∀ i, SW (g.ws i)
def SOK : Res (G σ N C) → Prop
  | .ok g' => SInv g'
  | _ => True

theorem sinv_set (g : G σ N C) (h : SInv g) (i : Nat) (w' : W σ N C) (hw : SW w') (chans : Nat → List Nat) :
    SInv { setW g i w' with chans := chans } := by
  intro j
  simp only [setW, upd]
  by_cases hj : j = i
  · simp only [hj, if_true]; exact hw
  · simp only [hj, if_false]; exact h j

theorem sinv_fields (g : G σ N C) (h : SInv g) (i : Nat) (w' : W σ N C) (hw : SW w') : SInv (setW g i w') :=
  sinv_set g h i w' hw g.chans

theorem sw_delete (t t' : Tracker N) (key pn : Nat) (next : Option Nat) (h : KeysSorted t.inner)
    (hd : t.delete key pn next = some t') : KeysSorted t'.inner := by
  unfold Tracker.delete at hd
  split at hd
  · cases hd
  · cases hd; exact upsert_sorted _ _ _ _ h

theorem sw_handleNew (i : Nat) : ∀ (outs : List (Nat × N × Option Nat)) (w : W σ N C), SW w → SW (handleNew i w outs)
  | [], _, h => h
  | (key, nd, c) :: rest, w, h => by
    simp only [handleNew]
    exact sw_handleNew i rest _ (upsert_sorted _ _ _ _ h)

theorem sw_resetFresh (U : Upd σ N C) (cfg : Cfg) (db : List (DbN N)) (w w' : W σ N C) (key : Nat) (h : SW w)
    (hr : resetFresh U cfg db w key = some w') : SW w' := by
  unfold resetFresh at hr
  split at hr
  · split at hr
    · split at hr
      · cases hr
      · rename_i tr hd; cases hr; exact sw_delete _ tr _ _ _ h hd
    · split at hr
      · cases hr; exact h
      · split at hr
        · cases hr
        · rename_i tr hd; cases hr; exact sw_delete _ tr _ _ _ h hd
  · split at hr
    · cases hr; exact h
    · split at hr
      · cases hr
      · rename_i tr hd; cases hr; exact sw_delete _ tr _ _ _ h hd

theorem sw_resetBaseW (U : Upd σ N C) (cfg : Cfg) (db : List (DbN N)) (w w' : W σ N C) (b : Bool) (key : Nat) (h : SW w)
    (hr : resetBaseW U cfg db w b key = .ok w') : SW w' := by
  unfold resetBaseW at hr
  split at hr
  · split at hr
    · cases hr
    · rename_i hw; cases hr; exact sw_resetFresh U cfg db w _ key h hw
  · split at hr
    · cases hr
    · split at hr
      · cases hr; exact h
      · split at hr
        · split at hr
          · cases hr
          · rename_i hw; cases hr; exact sw_resetFresh U cfg db w _ _ h hw
        · cases hr; exact h

theorem sw_takeResp (w : W σ N C) (r : Resp N) (h : SW w) : SW (takeResp w r) := by
  unfold takeResp SW
  split
  rename_i changed tr heq
  simp only []
  have htr : KeysSorted tr.inner := by
    split at heq
    · split at heq
      · cases heq; exact h
      · cases heq; exact h
    · cases heq; exact h
  exact extend_sorted _ _ htr

theorem sinv_reset (U : Upd σ N C) (cfg : Cfg) (db : List (DbN N)) (g : G σ N C) (h : SInv g) (i : Nat) (w : W σ N C)
    (b : Bool) (k : Nat) (pc : Pc) (hw : SW w) :
    SOK (match resetBaseW U cfg db w b k with
      | .ok w' => .ok (setW g i { w' with pc := pc })
      | .panic s => .panic s
      | .blocked => .blocked) := by
  rcases resetBaseW_cases U cfg db w b k with ⟨w', hw', _⟩ | ⟨s, hw', _⟩
  · rw [hw']; exact sinv_fields g h i { w' with pc := pc } (sw_resetBaseW U cfg db w w' b k hw hw')
  · rw [hw']; trivial

theorem sinv_sendRequest (g : G σ N C) (h : SInv g) (i : Nat) (w : W σ N C) (k : Nat) (fin : Bool) (hw : SW w) :
    SOK (sendRequest g i w k fin) := by
  unfold sendRequest
  split
  · trivial
  · split
    · trivial
    · exact sinv_set g h i { w with pc := .wait k fin } hw _

theorem sinv_answerWith (g : G σ N C) (h : SInv g) (i r : Nat) (chan : List Nat) (finished : Bool) (next : Pc)
    (hri : r ≠ i) : SOK (answerWith g i finished next r chan) := by
  unfold answerWith
  simp only []
  cases ha : answer (g.ws i).tr.inner (g.ws i).low (g.ws i).high (g.ws i).right finished with
  | none => exact sinv_set g h i { g.ws i with pending := some r, pc := next } (h i) _
  | some x =>
    obtain ⟨resp, inner', relink⟩ := x
    have hcons := Nomt.ExtRange.C19sub ha
    have hdrop : KeysSorted inner' := by
      unfold answer at ha
      cases hs : scan (g.ws i).low 0 (g.ws i).tr.inner with
      | unch c k => rw [hs] at ha; simp only [Option.some.injEq, Prod.mk.injEq] at ha; rw [← ha.2.1]; exact sorted_drop _ _ (h i)
      | next c nh => rw [hs] at ha; simp only [Option.some.injEq, Prod.mk.injEq] at ha; rw [← ha.2.1]; exact sorted_drop _ _ (h i)
      | fin c sp =>
        rw [hs] at ha
        simp only at ha
        cases finished with
        | false => simp at ha
        | true =>
          simp only [if_true] at ha
          cases hu : unchAtEnd sp (g.ws i).high with
          | true => rw [hu] at ha; simp only [if_true, Option.some.injEq, Prod.mk.injEq] at ha; rw [← ha.2.1]; exact sorted_drop _ _ (h i)
          | false =>
            rw [hu] at ha
            simp only [Bool.false_eq_true, if_false, Option.some.injEq, Prod.mk.injEq] at ha
            rw [← ha.2.1]; exact sorted_drop _ _ (h i)
    simp only []
    repeat' split
    all_goals first
      | trivial
      | (show SInv _
         intro j
         simp only [upd]
         by_cases hjr : j = r
         · subst hjr; simp only [if_true]; exact h j
         · by_cases hji : j = i
           · subst hji; simp only [hjr, if_false, if_true]; exact hdrop
           · simp only [hjr, hji, if_false]; exact h j)

theorem sinv_tryAnswer (g : G σ N C) (h : SInv g) (i : Nat) (finished : Bool) (next : Pc) (hi : i < g.n)
    (hinv : AInv (absG g)) (hk : kindOf (g.ws i).pc = .run) : SOK (tryAnswer g i finished next) := by
  unfold tryAnswer
  simp only []
  split
  · exact sinv_fields g h i { g.ws i with pc := next } (h i)
  · cases hreq : takeReq g i with
    | none =>
      simp only []
      split
      · exact sinv_fields g h i { g.ws i with left := false, pc := next } (h i)
      · exact sinv_fields g h i { g.ws i with pc := next } (h i)
    | some x =>
      obtain ⟨r, chan⟩ := x
      have hrj := (hinv.requester i r chan hi hk (takeReq_some hreq)).2.2.2.2.2.1
      exact sinv_answerWith g h i r chan finished next hrj

/-- every step keeps every tracker a map with ascending keys -/
theorem sinv_step (U : Upd σ N C) (cfg : Cfg) (db : List (DbN N)) (g : G σ N C) (i : Nat) (hi : i < g.n)
    (hinv : AInv (absG g)) (h : SInv g) : SOK (step U cfg db g i) := by
  have h0 : SW (g.ws i) := h i
  cases hpc : (g.ws i).pc with
  | done => unfold step; simp only [hpc]; trivial
  | start =>
    unfold step; simp only [hpc]
    split
    · trivial
    · exact sinv_reset U cfg db g h i (g.ws i) false _ _ h0
  | loop =>
    unfold step; simp only [hpc]
    split
    · show SInv _; apply sinv_fields g h i; exact h0
    · split
      · split
        · trivial
        · show SInv _; apply sinv_fields g h i; exact h0
      · split
        · trivial
        · split
          all_goals (show SInv _; apply sinv_fields g h i; exact sw_handleNew i _ _ h0)
  | poll key =>
    unfold step; simp only [hpc]
    exact sinv_tryAnswer g h i false _ hi hinv (by simp [hpc, kindOf])
  | ext k fin =>
    unfold step; simp only [hpc]
    split
    all_goals first
      | exact sinv_reset U cfg db g h i (g.ws i) false k _ h0
      | (split <;> first | exact sinv_sendRequest g h i (g.ws i) k fin h0 | exact sinv_reset U cfg db g h i (g.ws i) false k _ h0)
  | fin =>
    unfold step; simp only [hpc]
    split
    · trivial
    · split
      all_goals (show SInv _; apply sinv_fields g h i; exact sw_handleNew i _ _ h0)
  | finOnce =>
    unfold step; simp only [hpc]
    split
    · trivial
    · show SInv _; apply sinv_fields g h i; exact sw_handleNew i _ _ h0
  | final =>
    have hk : kindOf (g.ws i).pc = .run := by simp [hpc, kindOf]
    unfold step; simp only [hpc]
    split
    · show SInv _; apply sinv_fields g h i; exact h0
    · have := sinv_tryAnswer g h i true .finalRecv hi hinv hk
      cases hta : tryAnswer g i true .finalRecv with
      | ok g' => rw [hta] at this; simp only []; split <;> first | trivial | exact this
      | blocked => trivial
      | panic s => trivial
  | finalRecv =>
    unfold step; simp only [hpc]
    split
    · show SInv _; apply sinv_fields g h i; exact h0
    · split
      · show SInv _; apply sinv_set g h i; exact h0
      · split
        · show SInv _; apply sinv_fields g h i; exact h0
        · trivial
  | wait k fin =>
    unfold step; simp only [hpc]
    cases hr : (g.ws i).resp with
    | none => trivial
    | some r =>
      simp only []
      have hT : SW (takeRespC cfg (g.ws i) r) := by
        have t1 := sw_takeResp (g.ws i) r h0
        unfold takeRespC
        split
        · exact t1
        · exact t1
      cases hnr : r.newRight with
      | none => simp only []; exact sinv_reset U cfg db g h i _ true k _ hT
      | some nr =>
        cases nr with
        | none => simp only []; exact sinv_reset U cfg db g h i _ true k _ hT
        | some j => simp only []; exact sinv_sendRequest g h i _ k fin hT

/-- ascending tracker keys along every schedule -/
theorem sinv_runSched (U : Upd σ N C) (cfg : Cfg) (db : List (DbN N)) (hs : cfg.staleHigh = false) (hm : cfg.highMax = false) :
    ∀ (s : List Nat) (g : G σ N C), AInv (absG g) → SInv g →
      match runSched U cfg db s g with
      | .inr g' => SInv g'
      | .inl _ => True
  | [], g, _, h => h
  | i :: s, g, hinv, h => by
    unfold runSched
    by_cases hi : i < g.n
    · rw [if_pos hi]
      have h1 := step_ok U cfg db g i hi hinv hs hm
      have h2 := sinv_step U cfg db g i hi hinv h
      cases hst : step U cfg db g i with
      | ok g' =>
        rw [hst] at h1 h2
        exact sinv_runSched U cfg db hs hm s g' (ATrans.inv hinv h1) h2
      | blocked => exact sinv_runSched U cfg db hs hm s g hinv h
      | panic site => trivial
    · rw [if_neg hi]; exact sinv_runSched U cfg db hs hm s g hinv h

theorem sinv_init (U : Upd σ N C) (cfg : Cfg) (db : List (DbN N)) (cs : List (Nat × C)) (wps : List WP) :
    SInv (initG U cfg db cs wps) := by
  intro i
  simp only [initG]
  split <;> simp [SW, KeysSorted, mkWorker, dummyW]

/-- a worker's changeset entries are in key order when its tracker is -/
theorem workerChanges_sorted (w : W σ N C) (h : SW w) : (workerChanges w).1.Pairwise (fun a b => a.1 < b.1) := by
  unfold workerChanges
  simp only []
  have h1 : ((w.tr.inner.filter fun x => x.2.inserted.isSome || x.2.deleted.isSome).map (·.1)).Pairwise (· < ·) := by
    exact List.Pairwise.sublist ((List.filter_sublist).map _) h
  rw [List.pairwise_map] at h1 ⊢
  exact h1

end Nomt.ExtRange
