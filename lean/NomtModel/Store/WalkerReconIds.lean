import NomtModel.Store.WalkerSimSafe
import NomtModel.Store.WalkerTreeLog
/-!
# Which pages the tree walker leaves while it builds a block

While `replace_terminal` builds the sub-trie of the keys `O` below a position `P`, the walker leaves (logs) exactly the pages
whose prefix `c` (a page boundary: the position above the two top slots of the page) lies at or below `P` and holds an internal
node (`2 ≤ |sub O c|`) — each of them once (`tw_visit_tree_ids`, `tw_replace_ids`).
-/
namespace Nomt.Walker
open Nomt Nomt.TriePos

variable {Node VH : Type} [DecidableEq Node] [DecidableEq VH] (H : Hasher Node VH)

/-- the prefixes of the pages of the block below `P` -/
def BlockIds (O : List (Key × VH)) (P : Path) (Lc : List Path) : Prop :=
  Lc.Nodup ∧ ∀ c, c ∈ Lc ↔ (P <+: c ∧ c.length % 6 = 0 ∧ c.length ≤ 256 ∧ 2 ≤ (sub O c).length)

theorem blockIds_nil {O : List (Key × VH)} (hk : KeysOK O) (P : Path) (hP : (sub O P).length ≤ 1) : BlockIds O P [] := by
  refine ⟨List.nodup_nil, ?_⟩
  intro c
  constructor
  · intro h; cases h
  · intro ⟨hpre, _, hl, h2⟩
    exfalso
    obtain ⟨r, rfl⟩ := hpre
    have := sub_length_mono_prefix hk P r hl
    omega

/-- a proper extension of `P` extends `P ++ [false]` or `P ++ [true]` -/
theorem prefix_child_cases {P c : Path} (h : P <+: c) (hne : c ≠ P) : (P ++ [false]) <+: c ∨ (P ++ [true]) <+: c := by
  obtain ⟨b, rest, rfl⟩ := prefix_strict_cases h hne
  cases b
  · exact Or.inl (snoc_prefix_of_cons P false rest)
  · exact Or.inr (snoc_prefix_of_cons P true rest)

/-- the blocks of the two children and the page of `P` itself make up the block of `P` -/
theorem blockIds_join {O : List (Key × VH)} (P : Path) (L0 L1 : List Path) (hPl : P.length ≤ 256) (h2 : 2 ≤ (sub O P).length)
    (h0 : BlockIds O (P ++ [false]) L0) (h1 : BlockIds O (P ++ [true]) L1) :
    BlockIds O P (L0 ++ L1 ++ (if P.length % 6 = 0 then [P] else [])) := by
  have hdis : ∀ c, c ∈ L0 → c ∈ L1 → False := by
    intro c hc0 hc1
    have p0 := ((h0.2 c).mp hc0).1
    have p1 := ((h1.2 c).mp hc1).1
    exact not_prefix_flip P false c p0 (by simpa using p1)
  have hPnot : ∀ (b : Bool) (L : List Path), BlockIds O (P ++ [b]) L → P ∉ L := by
    intro b L hL hmem
    have := ((hL.2 P).mp hmem).1.length_le
    simp at this
    omega
  refine ⟨?_, ?_⟩
  · rw [List.nodup_append]
    refine ⟨?_, ?_, ?_⟩
    · rw [List.nodup_append]
      exact ⟨h0.1, h1.1, fun a ha b hb e => hdis a ha (by rw [e]; exact hb)⟩
    · split
      · simp
      · exact List.nodup_nil
    · intro a ha b hb e
      split at hb
      · rw [List.mem_singleton] at hb
        rw [e, hb] at ha
        rcases List.mem_append.mp ha with h | h
        · exact hPnot false L0 h0 h
        · exact hPnot true L1 h1 h
      · cases hb
  · intro c
    constructor
    · intro hc
      rcases List.mem_append.mp hc with h | h
      · rcases List.mem_append.mp h with h | h
        · obtain ⟨p, a, b, d⟩ := (h0.2 c).mp h
          exact ⟨List.IsPrefix.trans (List.prefix_append _ _) p, a, b, d⟩
        · obtain ⟨p, a, b, d⟩ := (h1.2 c).mp h
          exact ⟨List.IsPrefix.trans (List.prefix_append _ _) p, a, b, d⟩
      · split at h
        · rename_i h6
          rw [List.mem_singleton] at h
          rw [h]
          exact ⟨List.prefix_refl _, h6, hPl, h2⟩
        · cases h
    · intro ⟨hpre, h6, hcl, hc2⟩
      by_cases hcP : c = P
      · apply List.mem_append_right
        rw [hcP] at h6
        rw [if_pos h6, hcP]; simp
      · apply List.mem_append_left
        rcases prefix_child_cases hpre hcP with h | h
        · exact List.mem_append_left _ ((h0.2 c).mpr ⟨h, h6, hcl, hc2⟩)
        · exact List.mem_append_right _ ((h1.2 c).mpr ⟨h, h6, hcl, hc2⟩)

/-- the log after the `Internal` call that closes `P`, made at `P ++ [b]` -/
theorem tw_visit_internal_ids (cfg : TWCfg Node) (sd : Nat) (a : TW Node) (P : Path) (b : Bool) (l r n : Node)
    (hp : a.pos = P ++ [b]) :
    (a.visit H cfg sd (.internal l r n : WriteNode Node VH)).log.map (·.1) =
      a.log.map (·.1) ++ (if P.length % 6 = 0 then [P] else []).map sextetsOf := by
  rw [tw_visit_internal_log, tw_up_log, tw_zeroed_pos, tw_zeroed_log, hp, dip_snoc]
  by_cases h6 : P.length % 6 = 0
  · rw [if_pos (by omega), if_pos h6]
    simp only [List.map_append, List.map_cons, List.map_nil]
    rw [specPage_snoc_boundary P b h6]
  · rw [if_neg (by omega), if_neg h6]
    simp

/-- **the pages left while the block below `P` is built** -/
theorem tw_visit_tree_ids (hs : H.Sound) {O : List (Key × VH)} (hk : KeysOK O) (cfg : TWCfg Node) (t : Path) :
    ∀ (f : Nat) (P : Path) (prev : Option Key) (J : Path) (a : TW Node),
      256 - P.length = f → t <+: P → P.length ≤ 256 → sub O P ≠ [] → J <+: P →
      PreJ t.length t prev (sub O P) J a.pos →
      ∃ Lc, (TW.visitAll H cfg t.length a
          (treeEv H t.length (256 - P.length) (P.length - t.length) (sub O P) prev)).log.map (·.1) =
        a.log.map (·.1) ++ Lc.map sextetsOf ∧ BlockIds O P Lc := by
  have hleaf : ∀ (P : Path) (prev : Option Key) (J : Path) (a : TW Node) (k : Key) (v : VH),
      t <+: P → P.length ≤ 256 → sub O P = [(k, v)] → J <+: P → PreJ t.length t prev [(k, v)] J a.pos →
      ∃ Lc, (TW.visit H cfg t.length a (leafEv H t.length (P.length - t.length) prev k v)).log.map (·.1) =
        a.log.map (·.1) ++ Lc.map sextetsOf ∧ BlockIds O P Lc := by
    intro P prev J a k v htP hP hB hJ hpre
    obtain ⟨_, _, _, _, r5, _⟩ := tw_leaf_step H (fun _ => True) hs hk cfg t P prev J a k v htP hP hB hJ hpre
    exact ⟨[], by rw [r5]; simp, blockIds_nil hk P (by rw [hB]; simp)⟩
  intro f
  induction f with
  | zero =>
    intro P prev J a hf htP hP hne hJ hpre
    have hP256 : P.length = 256 := by omega
    have h1 := sub_length_le_one_of_full hk P hP256
    match hB : sub O P, hne, h1 with
    | [(k, v)], _, _ =>
      rw [hB] at hpre
      simp only [treeEv_single, TW.visitAll]
      exact hleaf P prev J a k v htP hP hB hJ hpre
  | succ f ih =>
    intro P prev J a hf htP hP hne hJ hpre
    match hB : sub O P, hne with
    | [(k, v)], _ =>
      rw [hB] at hpre
      simp only [treeEv_single, TW.visitAll]
      exact hleaf P prev J a k v htP hP hB hJ hpre
    | x :: y :: rest, _ =>
      have h2 : 2 ≤ (sub O P).length := by rw [hB]; simp
      have hPlt : P.length < 256 := lt_of_two_le_sub hk P hP h2
      rw [← hB, treeEv_sub_two H t P htP hPlt h2 prev, tw_visitAll_append, tw_visitAll_append]
      simp only [TW.visitAll]
      have hf' : ∀ b : Bool, 256 - (P ++ [b]).length = f := by intro b; simp; omega
      have htP' : ∀ b : Bool, t <+: (P ++ [b]) := fun b => List.IsPrefix.trans htP (List.prefix_append _ _)
      have hP' : ∀ b : Bool, (P ++ [b]).length ≤ 256 := by intro b; simp; omega
      have hJ' : ∀ b : Bool, J <+: (P ++ [b]) := fun b => List.IsPrefix.trans hJ (List.prefix_append _ _)
      have hmono : ∀ b : Bool, ∀ kv ∈ sub O (P ++ [b]), kv ∈ sub O P :=
        fun b => sub_mono hk P (P ++ [b]) (List.prefix_append _ _) (hP' b)
      have hsplit := sub_length_split (S := O) P
      by_cases h0 : sub O (P ++ [false]) = []
      · have h1 : sub O (P ++ [true]) ≠ [] := by
          intro h1; rw [h0, h1] at hsplit; simp at hsplit; rw [hsplit] at h2; simp at h2
        rw [h0, treeEv_nil]
        simp only [TW.visitAll]
        have hpo : prevOf ([] : List (Key × VH)) prev = prev := rfl
        rw [hpo]
        have hpre1 := preJ_mono _ _ _ _ _ _ _ hpre (hmono true)
        obtain ⟨L1, hl1, hb1⟩ := ih (P ++ [true]) prev J a (hf' true) (htP' true) (hP' true) h1 (hJ' true) hpre1
        obtain ⟨p1, _⟩ := tw_visit_tree H (fun _ => True) hs hk cfg t f (P ++ [true]) prev J a (hf' true) (htP' true)
          (hP' true) h1 (hJ' true) hpre1
        refine ⟨[] ++ L1 ++ (if P.length % 6 = 0 then [P] else []), ?_,
          blockIds_join P [] L1 hP h2 (blockIds_nil hk _ (by rw [h0]; simp)) hb1⟩
        rw [tw_visit_internal_ids H cfg t.length _ P true _ _ _ p1, hl1]
        simp
      · by_cases h1 : sub O (P ++ [true]) = []
        · rw [h1, treeEv_nil]
          simp only [TW.visitAll]
          have hpre0 := preJ_mono _ _ _ _ _ _ _ hpre (hmono false)
          obtain ⟨L0, hl0, hb0⟩ := ih (P ++ [false]) prev J a (hf' false) (htP' false) (hP' false) h0 (hJ' false) hpre0
          obtain ⟨p1, _⟩ := tw_visit_tree H (fun _ => True) hs hk cfg t f (P ++ [false]) prev J a (hf' false)
            (htP' false) (hP' false) h0 (hJ' false) hpre0
          refine ⟨L0 ++ [] ++ (if P.length % 6 = 0 then [P] else []), ?_,
            blockIds_join P L0 [] hP h2 hb0 (blockIds_nil hk _ (by rw [h1]; simp))⟩
          rw [tw_visit_internal_ids H cfg t.length _ P false _ _ _ p1, hl0]
          simp
        · have hpre0 := preJ_mono _ _ _ _ _ _ _ hpre (hmono false)
          obtain ⟨L0, hl0, hb0⟩ := ih (P ++ [false]) prev J a (hf' false) (htP' false) (hP' false) h0 (hJ' false) hpre0
          obtain ⟨p1, _⟩ := tw_visit_tree H (fun _ => True) hs hk cfg t f (P ++ [false]) prev J a (hf' false)
            (htP' false) (hP' false) h0 (hJ' false) hpre0
          obtain ⟨init0, l0, hinit⟩ : ∃ init l, sub O (P ++ [false]) = init ++ [l] :=
            ⟨(sub O (P ++ [false])).dropLast, (sub O (P ++ [false])).getLast h0,
              (List.dropLast_concat_getLast h0).symm⟩
          have hl0m : l0 ∈ sub O (P ++ [false]) := by rw [hinit]; simp
          have hpo : prevOf (sub O (P ++ [false])) prev = some l0.1 := by
            rw [hinit]; exact prevOf_append_singleton _ _ _
          rw [hpo]
          have hle : t.length ≤ P.length := htP.length_le
          have hpre1 : PreJ t.length t (some l0.1) (sub O (P ++ [true])) (P ++ [true])
              (TW.visitAll H cfg t.length a (treeEv H t.length (256 - (P ++ [false]).length)
                ((P ++ [false]).length - t.length) (sub O (P ++ [false])) prev)).pos := by
            refine ⟨P, p1, rfl, hle, ?_⟩
            intro kv hkv
            have m0 := (mem_sub hk (P ++ [false]) (hP' false) l0).mp hl0m
            have m1 := (mem_sub hk (P ++ [true]) (hP' true) kv).mp hkv
            have hlen0 := hk.len l0 m0.1
            have hlen1 := hk.len kv m1.1
            have ht0 : l0.1.take (P ++ [false]).length = P ++ [false] := (bl_prefix_iff_take _ _).mp m0.2
            have ht1 : kv.1.take (P ++ [true]).length = P ++ [true] := (bl_prefix_iff_take _ _).mp m1.2
            have hPP0 : l0.1.take P.length = P := by
              have := congrArg (List.take P.length) ht0
              simpa [List.take_take] using this
            have hPP1 : kv.1.take P.length = P := by
              have := congrArg (List.take P.length) ht1
              simpa [List.take_take] using this
            have hb0' : l0.1.getD P.length false = false := by
              have := bl_getD_of_prefix _ _ m0.2 P.length (by simp)
              simpa using this
            have hb1' : kv.1.getD P.length false = true := by
              have := bl_getD_of_prefix _ _ m1.2 P.length (by simp)
              simpa using this
            have e : t.length + (P.length - t.length) = P.length := by omega
            apply sharedRel_split t.length (P.length - t.length) l0.1 kv.1
            · rw [e, hPP0, hPP1]
            · rw [e, hlen0]; exact hPlt
            · rw [e, hlen1]; exact hPlt
            · rw [e, hb0', hb1']; simp
          obtain ⟨L1, hl1, hb1⟩ := ih (P ++ [true]) (some l0.1) (P ++ [true]) _ (hf' true) (htP' true) (hP' true) h1
            (List.prefix_refl _) hpre1
          obtain ⟨r1, _⟩ := tw_visit_tree H (fun _ => True) hs hk cfg t f (P ++ [true]) (some l0.1) (P ++ [true]) _
            (hf' true) (htP' true) (hP' true) h1 (List.prefix_refl _) hpre1
          refine ⟨L0 ++ L1 ++ (if P.length % 6 = 0 then [P] else []), ?_, blockIds_join P L0 L1 hP h2 hb0 hb1⟩
          rw [tw_visit_internal_ids H cfg t.length _ P true _ _ _ r1, hl1, hl0]
          simp

/-- **the pages `replace_terminal` leaves**: exactly the pages at or below the position whose prefix holds an internal node -/
theorem tw_replace_ids (hs : H.Sound) {O : List (Key × VH)} (hk : KeysOK O) (cfg : TWCfg Node) (a : TW Node)
    (ht : a.pos.length ≤ 256) :
    ∃ Lc, (a.replaceTerminal H cfg (sub O a.pos)).log.map (·.1) = a.log.map (·.1) ++ Lc.map sextetsOf ∧
      BlockIds O a.pos Lc := by
  unfold TW.replaceTerminal
  rw [buildEvents_sub H hk a.pos ht]
  simp only
  by_cases he : sub O a.pos = []
  · rw [if_pos he]
    simp only [TW.visitAll, tw_visit_terminator]
    exact ⟨[], by simp [TW.setNode], blockIds_nil hk a.pos (by rw [he]; simp)⟩
  · rw [if_neg he]
    have := tw_visit_tree_ids H hs hk cfg a.pos (256 - a.pos.length) a.pos none a.pos a rfl (List.prefix_refl _) ht he
      (List.prefix_refl _) ⟨rfl, rfl⟩
    simpa using this

end Nomt.Walker
