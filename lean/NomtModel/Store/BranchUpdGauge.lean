import NomtModel.Store.BranchUpdTop
import NomtModel.Store.LeafUpdBasic
/-!
# Branch updater: the gauge is exact

`GOK kf g L`: the gauge `g` describes the ascending key list `L` (first separator, count, sum of separator lengths, a
prefix length that the compressed keys share).  Then `body_size()` is the size of the node `build_branch` writes for `L`
(`bodyOfKeys`: the first `prefix_compressed` separators stored without the prefix, the others in full), none of the
subtractions of `compressed_separator_range_size` underflows, `body_size_after(key)` is the `body_size()` after
`ingest_key(key)`, and `ingest_key` / `ingest_chunk` / `stop_prefix_compression` keep `GOK`.
-/
namespace Nomt.BranchUpd
open Nomt.LeafUpd (slice_length slice_append slice_succ slice_cons_of_lt mem_slice slice_self)

def SortedK (L : List Nat) : Prop := L.Pairwise (· < ·)
def Below (L : List Nat) : Prop := ∀ k ∈ L, k < 2 ^ 256

def slSum (kf : KF) (L : List Nat) : Nat := (L.map kf.sl).sum

@[simp] theorem slSum_nil (kf : KF) : slSum kf [] = 0 := rfl
@[simp] theorem slSum_cons (kf : KF) (k : Nat) (L : List Nat) : slSum kf (k :: L) = kf.sl k + slSum kf L := by
  simp [slSum]
@[simp] theorem slSum_append (kf : KF) (a b : List Nat) : slSum kf (a ++ b) = slSum kf a + slSum kf b := by
  simp [slSum, List.sum_append_nat]

/-- the stored separator lengths of the node built for `L` with prefix length `pl` and `c` compressed separators -/
def lensOf (kf : KF) (pl c : Nat) (L : List Nat) : List Nat :=
  (L.take c).map (fun k => kf.sl k - pl) ++ (L.drop c).map kf.sl

/-- the bytes its encoding occupies -/
def bodyOfKeys (kf : KF) (pl c : Nat) (L : List Nat) : Nat := bodySize pl (lensOf kf pl c L).sum L.length

theorem SortedK.append_left {a b : List Nat} (h : SortedK (a ++ b)) : SortedK a := (List.pairwise_append.1 h).1
theorem SortedK.append_right {a b : List Nat} (h : SortedK (a ++ b)) : SortedK b := (List.pairwise_append.1 h).2.1
theorem SortedK.lt_of_append {a b : List Nat} (h : SortedK (a ++ b)) : ∀ x ∈ a, ∀ y ∈ b, x < y :=
  (List.pairwise_append.1 h).2.2
theorem Below.append_left {a b : List Nat} (h : Below (a ++ b)) : Below a := fun k hk => h k (List.mem_append_left _ hk)
theorem Below.append_right {a b : List Nat} (h : Below (a ++ b)) : Below b := fun k hk => h k (List.mem_append_right _ hk)

theorem SortedK.head_le {k0 : Nat} {r : List Nat} (h : SortedK (k0 :: r)) : ∀ k ∈ k0 :: r, k0 ≤ k := by
  intro k hk
  rcases List.mem_cons.1 hk with h1 | h1
  · omega
  · exact Nat.le_of_lt ((List.pairwise_cons.1 h).1 k h1)

theorem sum_sub_const (f : Nat → Nat) (p : Nat) : ∀ l : List Nat, (∀ k ∈ l, p ≤ f k) →
    (l.map (fun k => f k - p)).sum + l.length * p = (l.map f).sum := by
  intro l
  induction l with
  | nil => intro _; simp
  | cons a r ih =>
    intro h
    have h1 := h a (by simp)
    have h2 := ih (fun k hk => h k (by simp [hk]))
    simp only [List.map_cons, List.sum_cons, List.length_cons, Nat.add_mul, Nat.one_mul]
    omega

structure GOK (kf : KF) (g : Gauge) (L : List Nat) : Prop where
  first : g.first = L.head?.map (fun k => (k, kf.sl k))
  n : g.n = L.length
  sum : g.sum = slSum kf (L.drop 1)
  empty : L = [] → g = {}
  pl_le : g.pl ≤ 256
  pc_ok : ∀ c, g.pc = some c → 1 ≤ c ∧ c ≤ L.length
  share : ∀ k0, L.head? = some k0 → ∀ k ∈ L.take g.pcItems, top k g.pl = top k0 g.pl

theorem GOK.nil (kf : KF) : GOK kf {} [] where
  first := rfl
  n := rfl
  sum := rfl
  empty := fun _ => rfl
  pl_le := by decide
  pc_ok := by intro c h; cases h
  share := by intro k0 h; cases h

theorem GOK.pcItems_bounds {kf : KF} {g : Gauge} {L : List Nat} (h : GOK kf g L) (hne : L ≠ []) :
    1 ≤ g.pcItems ∧ g.pcItems ≤ L.length := by
  unfold Gauge.pcItems
  cases hpc : g.pc with
  | none =>
    simp only [Option.getD_none, h.n]
    cases L with
    | nil => exact absurd rfl hne
    | cons a r => simp
  | some c => simpa using h.pc_ok c hpc

/-- the compressed separators behind the first one are longer than the prefix -/
theorem GOK.sl_gt {kf : KF} (hkf : KFOK kf) {g : Gauge} {k0 : Nat} {r : List Nat} (h : GOK kf g (k0 :: r))
    (hs : SortedK (k0 :: r)) (hb : Below (k0 :: r)) : ∀ k ∈ r.take (g.pcItems - 1), g.pl < kf.sl k := by
  intro k hk
  have hk0 : k0 < k := (List.pairwise_cons.1 hs).1 k (List.mem_of_mem_take hk)
  have hmem : k ∈ (k0 :: r).take g.pcItems := by
    have hb := (h.pcItems_bounds (by simp)).1
    have e : g.pcItems = (g.pcItems - 1) + 1 := by omega
    rw [e, List.take_succ_cons]
    exact List.mem_cons_of_mem _ hk
  have hshare := h.share k0 rfl k hmem
  exact hkf.sl_gt k0 k g.pl hk0 (hb k (List.mem_cons_of_mem _ (List.mem_of_mem_take hk))) h.pl_le hshare.symm

theorem lensOf_cons_succ (kf : KF) (pl c k0 : Nat) (r : List Nat) :
    lensOf kf pl (c + 1) (k0 :: r) = (kf.sl k0 - pl) :: lensOf kf pl c r := by
  simp [lensOf]

/-- `body_size()` is the size of the node that will be built, and nothing underflows -/
theorem GOK.body {kf : KF} (hkf : KFOK kf) {g : Gauge} {L : List Nat} (h : GOK kf g L) (hs : SortedK L) (hb : Below L) :
    g.body = some (bodyOfKeys kf g.pl g.pcItems L) := by
  cases L with
  | nil =>
    rw [h.empty rfl]
    rfl
  | cons k0 r =>
    have hfirst : g.first = some (k0, kf.sl k0) := by rw [h.first]; rfl
    obtain ⟨hc1, hc2⟩ := h.pcItems_bounds (by simp)
    have hgt := h.sl_gt hkf hs hb
    obtain ⟨c', hc'⟩ : ∃ c', g.pcItems = c' + 1 := ⟨g.pcItems - 1, by omega⟩
    have hc'r : c' ≤ r.length := by simp at hc2; omega
    rw [hc'] at hgt
    simp only [Nat.add_sub_cancel] at hgt
    have hsum : g.sum = slSum kf (r.take c') + slSum kf (r.drop c') := by
      rw [h.sum]; simp only [List.drop_succ_cons, List.drop_zero]
      rw [← slSum_append, List.take_append_drop]
    have hsub := sum_sub_const kf.sl g.pl (r.take c') (fun k hk => Nat.le_of_lt (hgt k hk))
    rw [List.length_take, Nat.min_eq_left hc'r] at hsub
    have hpcI : g.pc.getD g.n = c' + 1 := hc'
    simp only [Gauge.body, hfirst, compressedRange, hpcI, Nat.add_sub_cancel]
    have hne : ¬ (c' + 1 = 0) := by omega
    simp only [hne, if_false]
    unfold bodyOfKeys
    rw [hc', lensOf_cons_succ]
    simp only [lensOf, List.sum_cons, List.sum_append_nat, h.n]
    unfold slSum at hsum
    generalize ((r.take c').map (fun k => kf.sl k - g.pl)).sum = A at *
    generalize ((r.take c').map kf.sl).sum = B at *
    generalize ((r.drop c').map kf.sl).sum = C at *
    generalize c' * g.pl = P at *
    have hlt : ¬ (kf.sl k0 - g.pl + g.sum < P) := by omega
    simp only [hlt, if_false, Option.map_some]
    congr 2
    omega

/-! ## `ingest_key`, `body_size_after`, `stop_prefix_compression` -/

theorem ingestKey_pc (kf : KF) (g : Gauge) (key len : Nat) : (g.ingestKey kf key len).pc = g.pc := by
  unfold Gauge.ingestKey
  split <;> rfl

theorem ingestKey_first_some (kf : KF) (g : Gauge) (key len f fl : Nat) (h : g.first = some (f, fl)) :
    g.ingestKey kf key len =
      { g with pl := if g.pc.isNone then kf.pl f key else g.pl, sum := g.sum + len, n := g.n + 1 } := by
  unfold Gauge.ingestKey
  rw [h]

theorem ingestKey_first_none (kf : KF) (g : Gauge) (key len : Nat) (h : g.first = none) :
    g.ingestKey kf key len = { g with first := some (key, len), pl := len, n := 1 } := by
  unfold Gauge.ingestKey
  rw [h]

theorem GOK.ingestKey {kf : KF} (hkf : KFOK kf) {g : Gauge} {L : List Nat} (h : GOK kf g L) (key : Nat)
    (hs : SortedK (L ++ [key])) (hb : Below (L ++ [key])) : GOK kf (g.ingestKey kf key (kf.sl key)) (L ++ [key]) := by
  cases L with
  | nil =>
    rw [h.empty rfl, ingestKey_first_none _ _ _ _ rfl]
    refine ⟨rfl, rfl, rfl, by simp, hkf.sl_le key, (by intro c hc; cases hc), ?_⟩
    intro k0 hk0 k hk
    simp at hk0
    subst hk0
    simp [Gauge.pcItems] at hk
    rw [hk]
  | cons k0 r =>
    have hfirst : g.first = some (k0, kf.sl k0) := by rw [h.first]; rfl
    rw [ingestKey_first_some _ _ _ _ _ _ hfirst]
    refine ⟨by simpa using hfirst, by simp [h.n], ?_, by simp, ?_, ?_, ?_⟩
    · simp only [List.cons_append, List.drop_succ_cons, List.drop_zero, slSum_append, slSum_cons, slSum_nil, h.sum]
      omega
    · simp only
      split
      · exact hkf.pl_le _ _
      · exact h.pl_le
    · intro c hc
      have := h.pc_ok c hc
      simp only [List.length_append, List.length_cons, List.length_nil] at this ⊢
      omega
    · intro k0' hk0' k hk
      simp only [List.cons_append, List.head?_cons, Option.some.injEq] at hk0'
      subst hk0'
      have hk0b : k0 < 2 ^ 256 := hb k0 (by simp)
      have hkeyb : key < 2 ^ 256 := hb key (by simp)
      cases hpc : g.pc with
      | none =>
        simp only [hpc, Option.isNone_none, if_true]
        have hkm : k ∈ k0 :: (r ++ [key]) := List.mem_of_mem_take hk
        have h1 : k0 ≤ k := SortedK.head_le hs k hkm
        have h2 : k ≤ key := by
          rcases List.mem_cons.1 hkm with e | e
          · rw [e]
            exact Nat.le_of_lt ((List.pairwise_cons.1 hs).1 key (by simp))
          · rcases List.mem_append.1 e with e | e
            · have := SortedK.lt_of_append (a := k0 :: r) (b := [key]) hs k (by simp [e]) key (by simp)
              omega
            · simp at e; omega
        exact top_squeeze h1 h2 (hkf.pl_top k0 key hk0b hkeyb)
      | some c =>
        simp only [hpc, Option.isNone_some, Bool.false_eq_true, if_false]
        have hc := h.pc_ok c hpc
        simp only [Gauge.pcItems, hpc, Option.getD_some] at hk
        have : (k0 :: r ++ [key]).take c = (k0 :: r).take c := List.take_append_of_le_length hc.2
        rw [this] at hk
        exact h.share k0 rfl k (by simpa [Gauge.pcItems, hpc] using hk)

/-- `body_size_after(key, len)` is `body_size()` after `ingest_key(key, len)` -/
theorem GOK.bodyAfter_eq {kf : KF} {g : Gauge} {L : List Nat} (h : GOK kf g L) (key len : Nat) :
    g.bodyAfter kf key len = (g.ingestKey kf key len).body := by
  cases hf : g.first with
  | none =>
    have hL : L = [] := by
      cases L with
      | nil => rfl
      | cons a r => rw [h.first] at hf; simp at hf
    have hg := h.empty hL
    rw [ingestKey_first_none _ _ _ _ hf]
    subst hg
    simp [Gauge.bodyAfter, Gauge.body, compressedRange]
  | some p =>
    obtain ⟨f, fl⟩ := p
    rw [ingestKey_first_some _ _ _ _ _ _ hf]
    simp only [Gauge.bodyAfter, Gauge.body, hf]

theorem GOK.stop {kf : KF} {g : Gauge} {L : List Nat} (h : GOK kf g L) (hne : L ≠ []) (hpc : g.pc = none) :
    g.stop = some { g with pc := some g.n } ∧ GOK kf { g with pc := some g.n } L := by
  refine ⟨by simp [Gauge.stop, hpc], h.first, h.n, h.sum, fun e => absurd e hne, h.pl_le, ?_, ?_⟩
  · intro c hc
    simp only [Option.some.injEq] at hc
    subst hc
    rw [h.n]
    cases L with
    | nil => exact absurd rfl hne
    | cons a r => simp
  · intro k0 hk0 k hk
    apply h.share k0 hk0 k
    simpa [Gauge.pcItems, hpc] using hk

/-- appending a key to a node whose compression is stopped costs its full separator -/
theorem bodyOfKeys_snoc_stopped (kf : KF) (pl c : Nat) (L : List Nat) (key : Nat) (hc : c ≤ L.length) :
    bodyOfKeys kf pl c (L ++ [key]) = bodySize pl ((lensOf kf pl c L).sum + kf.sl key) (L.length + 1) := by
  unfold bodyOfKeys lensOf
  rw [List.take_append_of_le_length hc, List.drop_append_of_le_length hc]
  simp [List.sum_append_nat, Nat.add_assoc]

/-! ## several keys, `ingest_chunk`, `body_size_after_chunk` -/

def Gauge.ingestKeys (kf : KF) (g : Gauge) : List Nat → Gauge
  | [] => g
  | k :: r => (g.ingestKey kf k (kf.sl k)).ingestKeys kf r

theorem GOK.ingestKeys {kf : KF} (hkf : KFOK kf) : ∀ (C : List Nat) {g : Gauge} {L : List Nat}, GOK kf g L →
    SortedK (L ++ C) → Below (L ++ C) → GOK kf (g.ingestKeys kf C) (L ++ C) := by
  intro C
  induction C with
  | nil => intro g L h _ _; simpa [Gauge.ingestKeys] using h
  | cons k r ih =>
    intro g L h hs hb
    have e : L ++ k :: r = (L ++ [k]) ++ r := by simp
    rw [e] at hs hb ⊢
    exact ih (h.ingestKey hkf k hs.append_left hb.append_left) hs hb

theorem ingestKeys_pc (kf : KF) : ∀ (C : List Nat) (g : Gauge), (g.ingestKeys kf C).pc = g.pc := by
  intro C
  induction C with
  | nil => intro g; rfl
  | cons k r ih => intro g; simp only [Gauge.ingestKeys]; rw [ih, ingestKey_pc]

theorem ingestKeys_first_some (kf : KF) (f fl : Nat) : ∀ (C : List Nat) (g : Gauge), g.first = some (f, fl) →
    g.ingestKeys kf C =
      { g with pl := (match C.getLast? with | some l => if g.pc.isNone then kf.pl f l else g.pl | none => g.pl),
               sum := g.sum + slSum kf C, n := g.n + C.length } := by
  intro C
  induction C with
  | nil => intro g _; simp [Gauge.ingestKeys]
  | cons k r ih =>
    intro g hf
    simp only [Gauge.ingestKeys]
    rw [ingestKey_first_some _ _ _ _ _ _ hf]
    rw [ih (Gauge.mk g.first (if g.pc.isNone = true then kf.pl f k else g.pl) (g.sum + kf.sl k) g.pc (g.n + 1)) hf]
    cases r with
    | nil => simp
    | cons k2 r2 =>
      simp only [List.getLast?_cons_cons, slSum_cons, List.length_cons]
      cases hl : (k2 :: r2).getLast? with
      | none => simp at hl
      | some l =>
        simp only
        congr 1
        · split <;> rfl
        · omega
        · omega

theorem Node.key_of_lt (nd : Node) (i : Nat) (h : i < nd.items.length) : nd.key i = some nd.items[i].key := by
  simp [Node.key, List.getElem?_eq_getElem h]

/-- the keys of the items `s … e-1` of the base -/
def chunkKeys (b : Base) (s e : Nat) : List Nat := (slice b.node.items s e).map (·.key)

theorem chunkKeys_length (b : Base) (s e : Nat) (h : e ≤ b.node.items.length) : (chunkKeys b s e).length = e - s := by
  simp [chunkKeys, slice_length _ _ _ h]

theorem chunkKeys_cons (b : Base) (s e : Nat) (h1 : s < e) (h2 : s < b.node.items.length) :
    chunkKeys b s e = b.node.items[s].key :: chunkKeys b (s + 1) e := by
  simp [chunkKeys, slice_cons_of_lt _ _ _ h1 h2]

theorem chunkKeys_snoc (b : Base) (s e : Nat) (h1 : s < e) (h2 : e ≤ b.node.items.length) :
    chunkKeys b s e = chunkKeys b s (e - 1) ++ [b.node.items[e - 1].key] := by
  unfold chunkKeys
  rw [← slice_append _ s (e - 1) e (by omega) (by omega), List.map_append]
  congr 1
  have h3 : slice b.node.items (e - 1) e = [b.node.items[e - 1]] := by
    have := slice_succ b.node.items (e - 1) (by omega)
    rwa [show e - 1 + 1 = e by omega] at this
  rw [h3]; rfl

theorem chunkKeys_append (b : Base) (s m e : Nat) (h1 : s ≤ m) (h2 : m ≤ e) :
    chunkKeys b s m ++ chunkKeys b m e = chunkKeys b s e := by
  unfold chunkKeys
  rw [← List.map_append, slice_append _ _ _ _ h1 h2]

theorem chunkKeys_getLast (b : Base) (s e : Nat) (h1 : s < e) (h2 : e ≤ b.node.items.length) :
    (chunkKeys b s e).getLast? = some b.node.items[e - 1].key := by
  rw [chunkKeys_snoc b s e h1 h2]; simp

theorem bodyOfKeys_single_le (kf : KF) (hkf : KFOK kf) (pl c k : Nat) (hp : pl ≤ 256) (hc : 1 ≤ c) :
    bodyOfKeys kf pl c [k] ≤ 38 := by
  obtain ⟨c', rfl⟩ : ∃ c', c = c' + 1 := ⟨c - 1, by omega⟩
  have := hkf.sl_le k
  simp only [bodyOfKeys, lensOf, List.take_succ_cons, List.take_nil, List.drop_succ_cons, List.drop_nil, List.map_cons,
    List.map_nil, List.append_nil, List.sum_cons, List.sum_nil, List.length_cons, List.length_nil, bodySize]
  omega

/-- `ingest_chunk` of a well-formed chunk: the gauge of the longer key list; except for a single-item chunk into an
empty gauge (where `prefix_len(k, k)` is used instead of `separator_len(k)`) it is the gauge reached by `ingest_key`
key by key -/
theorem GOK.ingestChunk {kf : KF} (hkf : KFOK kf) {g : Gauge} {L : List Nat} (h : GOK kf g L) (b : Base) (s e : Nat)
    (hse : s < e) (hen : e ≤ b.node.items.length)
    (hs : SortedK (L ++ chunkKeys b s e)) (hb : Below (L ++ chunkKeys b s e)) :
    ∃ g', g.ingestChunk kf b s e (slSum kf (chunkKeys b s e)) = some g' ∧ GOK kf g' (L ++ chunkKeys b s e) ∧
      g'.pc = g.pc ∧ ((L ≠ [] ∨ 2 ≤ e - s) → g' = g.ingestKeys kf (chunkKeys b s e)) := by
  have hsn : s < b.node.items.length := by omega
  have hkey_s := Node.key_of_lt b.node s hsn
  have hkey_e := Node.key_of_lt b.node (e - 1) (by omega)
  have hlast := chunkKeys_getLast b s e hse hen
  have hlen := chunkKeys_length b s e hen
  have hnse : ¬ e < s := by omega
  have he0 : ¬ e = 0 := by omega
  cases L with
  | cons k0 r =>
    have hfirst : g.first = some (k0, kf.sl k0) := by rw [h.first]; rfl
    have hK := ingestKeys_first_some kf k0 (kf.sl k0) (chunkKeys b s e) g hfirst
    have hok := h.ingestKeys hkf (chunkKeys b s e) hs hb
    refine ⟨g.ingestKeys kf (chunkKeys b s e), ?_, hok, ingestKeys_pc _ _ _, fun _ => rfl⟩
    rw [hK, hlast, hlen]
    simp only [Gauge.ingestChunk, hnse, if_false, hfirst]
    cases hpc : g.pc with
    | none => simp [he0, hkey_e]
    | some c => simp
  | nil =>
    have hg := h.empty rfl
    subst hg
    simp only [List.nil_append] at hs hb ⊢
    have hc := chunkKeys_cons b s e hse hsn
    have hsl : ¬ slSum kf (chunkKeys b s e) < kf.sl b.node.items[s].key := by rw [hc]; simp
    simp only [Gauge.ingestChunk, hnse, if_false, he0, hkey_s, hkey_e, hsl]
    refine ⟨_, rfl, ?_, rfl, ?_⟩
    · refine ⟨by rw [hc]; rfl, by simp [hlen], by rw [hc]; simp, by rw [hc]; simp, hkf.pl_le _ _, (by intro c hc'; cases hc'), ?_⟩
      intro k0 hk0 k hk
      rw [hc] at hk0
      simp only [List.head?_cons, Option.some.injEq] at hk0
      subst hk0
      have hkm : k ∈ chunkKeys b s e := List.mem_of_mem_take hk
      have hb1 : b.node.items[s].key < 2 ^ 256 := hb _ (by rw [hc]; simp)
      have hb2 : b.node.items[e - 1].key < 2 ^ 256 := hb _ (by rw [chunkKeys_snoc b s e hse hen]; simp)
      have h1 : b.node.items[s].key ≤ k := by
        rw [hc] at hs hkm
        exact SortedK.head_le hs k hkm
      have h2 : k ≤ b.node.items[e - 1].key := by
        rw [chunkKeys_snoc b s e hse hen] at hs hkm
        rcases List.mem_append.1 hkm with e1 | e1
        · exact Nat.le_of_lt (SortedK.lt_of_append hs k e1 _ (by simp))
        · simp at e1; omega
      exact top_squeeze h1 h2 (hkf.pl_top _ _ hb1 hb2)
    · intro h2
      rcases h2 with h2 | h2
      · exact absurd rfl h2
      · have hc2 := chunkKeys_cons b (s + 1) e (by omega) (by omega)
        rw [hc, hc2]
        simp only [Gauge.ingestKeys]
        rw [ingestKey_first_none kf {} b.node.items[s].key _ rfl]
        rw [ingestKey_first_some kf _ _ _ b.node.items[s].key (kf.sl b.node.items[s].key) rfl]
        rw [ingestKeys_first_some kf b.node.items[s].key (kf.sl b.node.items[s].key) _ _ rfl]
        have hl2 : (chunkKeys b (s + 1 + 1) e).getLast? =
            if s + 2 < e then some b.node.items[e - 1].key else none := by
          split
          · exact chunkKeys_getLast b (s + 2) e (by omega) hen
          · have : chunkKeys b (s + 1 + 1) e = [] := by
              apply List.eq_nil_of_length_eq_zero
              rw [chunkKeys_length _ _ _ hen]; omega
            rw [this]; rfl
        rw [hl2]
        have hl3 := chunkKeys_length b (s + 1 + 1) e hen
        by_cases h3 : s + 2 < e
        · simp only [h3, if_true, hl3]
          simp only [slSum_cons, Option.isNone_none, if_true]
          congr 1
          · omega
          · omega
        · have he : e = s + 2 := by omega
          subst he
          have e1 : s + 2 - 1 = s + 1 := by omega
          simp only [e1]
          simp only [Nat.lt_irrefl, if_false, hl3]
          simp only [slSum_cons, Option.isNone_none, if_true]
          have : chunkKeys b (s + 1 + 1) (s + 2) = [] := by
            apply List.eq_nil_of_length_eq_zero
            rw [chunkKeys_length _ _ _ hen]; omega
          rw [this]
          simp only [slSum_nil, Nat.add_zero, Nat.add_sub_cancel]
          congr 1 <;> omega

theorem GOK.bodyAfterChunk_eq {kf : KF} {g : Gauge} {L : List Nat} (h : GOK kf g L) (b : Base) (s e sum : Nat)
    (g' : Gauge) (hi : g.ingestChunk kf b s e sum = some g') : g.bodyAfterChunk kf b s e sum = g'.body := by
  unfold Gauge.ingestChunk at hi
  unfold Gauge.bodyAfterChunk
  by_cases hes : e < s
  · simp [hes] at hi
  · simp only [hes, if_false] at hi ⊢
    cases hf : g.first with
    | none =>
      have hL : L = [] := by
        cases L with
        | nil => rfl
        | cons a r => rw [h.first] at hf; simp at hf
      have hg := h.empty hL
      subst hg
      simp only [hf] at hi ⊢
      by_cases he0 : e = 0
      · simp [he0] at hi
      · simp only [he0, if_false] at hi ⊢
        cases hk1 : b.node.key s <;> cases hk2 : b.node.key (e - 1) <;> simp only [hk1, hk2] at hi ⊢ <;> try (simp at hi)
        rename_i fk lk
        by_cases hlt : sum < kf.sl fk
        · exact absurd hi.1 (by omega)
        · obtain ⟨_, rfl⟩ := hi
          simp [Gauge.body, hlt]
    | some p =>
      obtain ⟨f, fl⟩ := p
      simp only [hf] at hi ⊢
      cases hpc : g.pc with
      | none =>
        simp only [hpc, Option.isNone_none, if_true] at hi ⊢
        by_cases he0 : e = 0
        · simp [he0] at hi
        · simp only [he0, if_false] at hi ⊢
          cases hk2 : b.node.key (e - 1) with
          | none => simp [hk2] at hi
          | some lk =>
            simp only [hk2, Option.some.injEq, Option.map_some] at hi ⊢
            subst hi
            simp [Gauge.body, hf, hpc]
      | some c =>
        simp only [hpc, Option.isNone_some, Bool.false_eq_true, if_false, Option.some.injEq] at hi ⊢
        subst hi
        simp [Gauge.body, hf, hpc]

end Nomt.BranchUpd
