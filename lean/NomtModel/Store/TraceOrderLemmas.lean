import NomtModel.Store.TraceOrder
import NomtModel.Store.ConcOrder
/-!
# From the order monitor on the real trace to the order discipline of the concurrent disk machine

`checkOrder` (`Store/TraceOrder.lean`) runs on the REAL Begin / End trace of an operation.  This file abstracts the lines
of that trace to events of the concurrent disk machine (`Store/ConcDisk.lean`) and proves that the monitor simulates the
machine: the abstraction of the monitor's pending list IS the machine's list of volatile effects, the monitor's in-flight
fsyncs cover the same volatile effects as the machine's, the monitor's phase IS the phase of `Store/ConcOrder.lean`.
Consequently acceptance by the monitor implies the order discipline `ordChk` for the abstracted concurrent trace
(`orderRun_ok_ordChk`, `checkOrder_ok_ordChk`).

Abstraction (`absEff`; the trace carries no contents, so contents are parameters indexed by the id = position of the
Begin line, as in `absEv` of `Store/PlacementAbs.lean`):

* `Write` of `ln` / `bbn` / `ht` at offset `o` ↦ `Eff.page f (o / PAGE) _`
* a data operation on `meta` ↦ `Eff.setMeta _`
* `Append` to `wal` ↦ `Eff.walSet (some _)`, `SetLen` of `wal` ↦ `Eff.walSet none`
* `Fsync` of these five files ↦ `fsyncBegin` / `fsyncEnd` of the reporting thread
* an End line of a data operation ↦ `effEnd id` of the effect the monitor pairs it with (the oldest un-ended effect of
  the same kind, file and offset)
* everything else (rollback segments, `SetLen` of `ln` / `bbn` (growth), creates / unlinks, directory fsyncs) has no
  abstraction: the disk model has no such effects.  The monitor still demands that they are covered when the meta page
  is written; that part of its verdict is not used here.
-/
namespace Nomt.Store
open NomtDisk

/-- the contents the trace does not carry, by effect id -/
structure Contents (Content MetaRec WalRec : Type) where
  page : Nat → Content
  mt : Nat → MetaRec
  wal : Nat → WalRec

def fileOf (s : String) : Option File :=
  if s = "ln" then some .fLn else if s = "bbn" then some .fBbn else if s = "ht" then some .fHt
  else if s = "wal" then some .fWal else if s = "meta" then some .fMeta else none

def nameOf : File → String
  | .fLn => "ln" | .fBbn => "bbn" | .fHt => "ht" | .fWal => "wal" | .fMeta => "meta" | .fLog => "log"

theorem fileOf_name (a : String) (f : File) (h : fileOf a = some f) : a = nameOf f := by
  unfold fileOf at h
  repeat' split at h
  all_goals first | (injection h with h; subst h; simpa [nameOf]) | cases h

theorem fileOf_inj (a b : String) (f : File) (ha : fileOf a = some f) (hb : fileOf b = some f) : a = b := by
  rw [fileOf_name a f ha, fileOf_name b f hb]

section abs
variable {Content MetaRec WalRec LogRec : Type} (C : Contents Content MetaRec WalRec)

/-- abstraction of a data operation (kind, file, offset) with id `id` -/
def absEff (id : Nat) (kind file : String) (offset : Nat) : Option (Eff Content MetaRec WalRec LogRec) :=
  if isDataKind kind = true then
    if file = "meta" then some (.setMeta (C.mt id))
    else if file = "wal" then
      (if kind = "Append" then some (.walSet (some (C.wal id))) else if kind = "SetLen" then some (.walSet none) else none)
    else if kind = "Write" then
      (if file = "ln" then some (.page .fLn (offset / PAGE) (C.page id))
       else if file = "bbn" then some (.page .fBbn (offset / PAGE) (C.page id))
       else if file = "ht" then some (.page .fHt (offset / PAGE) (C.page id))
       else none)
    else none
  else none

theorem absEff_file (id : Nat) (kind file : String) (offset : Nat) (eff : Eff Content MetaRec WalRec LogRec)
    (h : absEff (LogRec := LogRec) C id kind file offset = some eff) : fileOf file = some eff.file := by
  unfold absEff at h
  repeat' split at h
  all_goals first | cases h | skip
  all_goals simp_all [fileOf, Eff.file]

theorem absEff_isMeta (id : Nat) (kind file : String) (offset : Nat) (eff : Eff Content MetaRec WalRec LogRec)
    (h : absEff (LogRec := LogRec) C id kind file offset = some eff) : eff.isMeta = true ↔ file = "meta" := by
  unfold absEff at h
  repeat' split at h
  all_goals first | cases h | skip
  all_goals simp_all [Eff.isMeta]

theorem absEff_data (id : Nat) (kind file : String) (offset : Nat) (eff : Eff Content MetaRec WalRec LogRec)
    (h : absEff (LogRec := LogRec) C id kind file offset = some eff) : isDataKind kind = true := by
  unfold absEff at h
  split at h
  · assumption
  · cases h

theorem absEff_tree_write (id : Nat) (kind file : String) (offset : Nat) (eff : Eff Content MetaRec WalRec LogRec)
    (h : absEff (LogRec := LogRec) C id kind file offset = some eff) (hf : eff.file = File.fLn ∨ eff.file = File.fBbn) :
    kind = "Write" ∧ (file = "ln" ∨ file = "bbn") := by
  unfold absEff at h
  repeat' split at h
  all_goals first | cases h | skip
  all_goals simp_all [Eff.file]

theorem absEff_meta_some (id : Nat) (kind : String) (offset : Nat) (hk : isDataKind kind = true) :
    absEff (LogRec := LogRec) C id kind "meta" offset = some (.setMeta (C.mt id)) := by
  simp [absEff, hk]

/-- abstraction of an entry of the monitor's pending list -/
def absP (p : Pend) : Option (VEff Content MetaRec WalRec LogRec) :=
  (absEff C p.id p.kind p.file p.offset).map (fun e => ⟨p.id, e, p.ended⟩)

theorem absP_some (p : Pend) (v : VEff Content MetaRec WalRec LogRec) (h : absP C p = some v) :
    v.id = p.id ∧ v.ended = p.ended ∧ absEff C p.id p.kind p.file p.offset = some v.eff := by
  unfold absP at h
  cases he : absEff (LogRec := LogRec) C p.id p.kind p.file p.offset with
  | none => rw [he] at h; cases h
  | some e =>
    rw [he] at h
    simp only [Option.map_some, Option.some.injEq] at h
    subst h
    exact ⟨rfl, rfl, rfl⟩

theorem absP_file (p : Pend) (v : VEff Content MetaRec WalRec LogRec) (h : absP C p = some v) :
    fileOf p.file = some v.eff.file :=
  absEff_file C _ _ _ _ _ (absP_some C p v h).2.2

theorem absP_none_of_file (p : Pend) (h : fileOf p.file = none) : absP (LogRec := LogRec) C p = none := by
  cases hp : absP (LogRec := LogRec) C p with
  | none => rfl
  | some v => have := absP_file C p v hp; rw [h] at this; cases this

end abs

/-! ## The monitor's steps, characterised -/

def mkPend (id : Nat) (e : IoEv) : Pend :=
  { id := id, kind := e.kind, file := e.file, name := e.file, offset := e.offset, site := e.site, ended := false }

def mkDirPend (id : Nat) (e : IoEv) : Pend :=
  { id := id, kind := e.kind, file := "dir", name := e.file, offset := 0, site := e.site, ended := true }

theorem beginData_ok (st st' : OrderSt) (id : Nat) (e : IoEv) (h : beginData st id e = .ok st') :
    st'.syncs = st.syncs ∧
    ((e.file = "meta" ∧ st.phase = 0 ∧ st.pend = [] ∧ st'.pend = [mkPend id e] ∧ st'.phase = 1 ∧ st'.metaId = id) ∨
     (e.file ≠ "meta" ∧ st.phase ≠ 1 ∧ st'.pend = st.pend ++ [mkPend id e] ∧ st'.phase = st.phase ∧
       st'.metaId = st.metaId ∧
       (e.file = "ht" → st.phase = 2) ∧
       (e.file = "wal" → st.phase = 2 → ∀ q ∈ st.pend, q.file ≠ "ht") ∧
       ((e.file = "ln" ∨ e.file = "bbn") → e.kind = "Write" → st.phase ≠ 2))) := by
  unfold beginData at h
  simp only [bind, Except.bind, pure, Except.pure, throw, throwThe, MonadExceptOf.throw] at h
  repeat' split at h
  all_goals cases h
  all_goals refine ⟨rfl, ?_⟩
  all_goals simp_all [mkPend]
  intro hk hp; simp_all

theorem beginDirOp_ok (st st' : OrderSt) (id : Nat) (e : IoEv) (h : beginDirOp st id e = .ok st') :
    st'.syncs = st.syncs ∧ st.phase ≠ 1 ∧ st'.phase = st.phase ∧ st'.metaId = st.metaId ∧
    st'.pend = st.pend ++ [mkDirPend id e] := by
  unfold beginDirOp at h
  simp only [bind, Except.bind, pure, Except.pure, throw, throwThe, MonadExceptOf.throw] at h
  repeat' split at h
  all_goals cases h
  all_goals simp_all [mkDirPend]

/-- the condition under which `endEffect` pairs an End line with a pending effect -/
def endCond (e : IoEv) (p : Pend) : Bool :=
  !p.ended && p.kind == e.kind && p.name == e.file && (p.offset == e.offset || e.kind == "SetLen")

/-- the pending effect an End line is paired with -/
def firstMatch (e : IoEv) (pend : List Pend) : Option Pend := pend.find? (endCond e)

theorem endEffect_cons (e : IoEv) (p : Pend) (rest : List Pend) :
    endEffect e (p :: rest) = if endCond e p = true then { p with ended := true } :: rest else p :: endEffect e rest := by
  simp only [endEffect, endCond]
  rfl

theorem endEffect_ids (e : IoEv) (pend : List Pend) : (endEffect e pend).map (·.id) = pend.map (·.id) := by
  induction pend with
  | nil => rfl
  | cons p rest ih =>
    rw [endEffect_cons]
    split
    · rfl
    · simp only [List.map_cons, ih]

/-- `endEffect` only changes an `ended` flag -/
theorem endEffect_mem (e : IoEv) (pend : List Pend) (q : Pend) (h : q ∈ endEffect e pend) :
    ∃ p ∈ pend, q.id = p.id ∧ q.file = p.file ∧ q.kind = p.kind ∧ q.offset = p.offset := by
  induction pend with
  | nil => cases h
  | cons p rest ih =>
    rw [endEffect_cons] at h
    split at h
    · rcases List.mem_cons.mp h with rfl | h
      · exact ⟨p, by simp, rfl, rfl, rfl, rfl⟩
      · exact ⟨q, by simp [h], rfl, rfl, rfl, rfl⟩
    · rcases List.mem_cons.mp h with rfl | h
      · exact ⟨q, by simp, rfl, rfl, rfl, rfl⟩
      · obtain ⟨p', hp', h'⟩ := ih h
        exact ⟨p', by simp [hp'], h'⟩

theorem nodup_id_eq (l : List Pend) (h : (l.map (·.id)).Nodup) (p q : Pend) (hp : p ∈ l) (hq : q ∈ l)
    (hid : p.id = q.id) : p = q := by
  induction l with
  | nil => cases hp
  | cons a l ih =>
    simp only [List.map_cons, List.nodup_cons, List.mem_map, not_exists, not_and] at h
    rcases List.mem_cons.mp hp with rfl | hp' <;> rcases List.mem_cons.mp hq with rfl | hq'
    · rfl
    · exact absurd hid.symm (h.1 q hq')
    · exact absurd hid (h.1 p hp')
    · exact ih h.2 hp' hq'

/-! ## `takeSync` -/

theorem takeSync_cons (f t : String) (s : InFlight) (rest : List InFlight) :
    takeSync f t (s :: rest) =
      match takeSync f t rest with
      | some (c, rest') => some (c, s :: rest')
      | none => if (s.file == f && s.thread == t) = true then some (s.covers, rest) else none := rfl

theorem takeSync_mem (f t : String) : ∀ (ss : List InFlight) (cov : List Nat) (rest : List InFlight),
    takeSync f t ss = some (cov, rest) →
      (∃ s ∈ ss, s.file = f ∧ s.covers = cov) ∧ ∀ s' ∈ rest, s' ∈ ss := by
  intro ss
  induction ss with
  | nil => intro cov rest h; cases h
  | cons s ss ih =>
    intro cov rest h
    rw [takeSync_cons] at h
    cases hr : takeSync f t ss with
    | some x =>
      obtain ⟨c, rest'⟩ := x
      rw [hr] at h
      simp only [Option.some.injEq, Prod.mk.injEq] at h
      obtain ⟨rfl, rfl⟩ := h
      obtain ⟨⟨s0, hs0, h0⟩, hsub⟩ := ih c rest' hr
      refine ⟨⟨s0, by simp [hs0], h0⟩, ?_⟩
      intro s' hs'
      rcases List.mem_cons.mp hs' with rfl | hs'
      · simp
      · simp [hsub s' hs']
    | none =>
      rw [hr] at h
      simp only at h
      split at h
      · rename_i hc
        simp only [Option.some.injEq, Prod.mk.injEq] at h
        obtain ⟨rfl, rfl⟩ := h
        simp only [Bool.and_eq_true, beq_iff_eq] at hc
        exact ⟨⟨s, by simp, hc.1, rfl⟩, fun s' hs' => by simp [hs']⟩
      · cases h

/-! ## The in-flight fsyncs of the monitor and of the machine

The machine's in-flight fsyncs are those of the monitor on the five abstracted files, in the same order, reported by the
same threads; the ids the machine's fsync covers are among those the monitor's covers, and every currently volatile
effect (`ids`) the monitor's fsync covers the machine's covers too.  (The monitor's list may hold more ids: effects that
have no abstraction, such as the growth of `ln`.) -/

inductive SyncsRel (ids : List Nat) : List InFlight → List CSync → Prop
  | nil : SyncsRel ids [] []
  | skip (s : InFlight) (ss : List InFlight) (cs : List CSync) (h : fileOf s.file = none) (r : SyncsRel ids ss cs) :
      SyncsRel ids (s :: ss) cs
  | cons (s : InFlight) (c : CSync) (ss : List InFlight) (cs : List CSync)
      (hf : fileOf s.file = some c.file) (ht : c.tid = s.thread)
      (h1 : ∀ i ∈ c.covers, i ∈ s.covers) (h2 : ∀ i ∈ ids, i ∈ s.covers → i ∈ c.covers) (r : SyncsRel ids ss cs) :
      SyncsRel ids (s :: ss) (c :: cs)

theorem SyncsRel.change {ids ids' : List Nat} {ss : List InFlight} {cs : List CSync} (r : SyncsRel ids ss cs)
    (h : ∀ i ∈ ids', ∀ s ∈ ss, i ∈ s.covers → i ∈ ids) : SyncsRel ids' ss cs := by
  induction r with
  | nil => exact .nil
  | skip s ss cs hn r ih => exact .skip s ss cs hn (ih (fun i hi s' hs' => h i hi s' (by simp [hs'])))
  | cons s c ss cs hf ht h1 h2 r ih =>
    exact .cons s c ss cs hf ht h1 (fun i hi hic => h2 i (h i hi s (by simp) hic) hic)
      (ih (fun i hi s' hs' => h i hi s' (by simp [hs'])))

theorem SyncsRel.append_skip {ids : List Nat} {ss : List InFlight} {cs : List CSync} (r : SyncsRel ids ss cs)
    (s : InFlight) (h : fileOf s.file = none) : SyncsRel ids (ss ++ [s]) cs := by
  induction r with
  | nil => exact .skip s [] [] h .nil
  | skip s0 ss cs hn r ih => exact .skip s0 _ cs hn ih
  | cons s0 c ss cs hf ht h1 h2 r ih => exact .cons s0 c _ cs hf ht h1 h2 ih

theorem SyncsRel.append_cons {ids : List Nat} {ss : List InFlight} {cs : List CSync} (r : SyncsRel ids ss cs)
    (s : InFlight) (c : CSync) (hf : fileOf s.file = some c.file) (ht : c.tid = s.thread)
    (h1 : ∀ i ∈ c.covers, i ∈ s.covers) (h2 : ∀ i ∈ ids, i ∈ s.covers → i ∈ c.covers) :
    SyncsRel ids (ss ++ [s]) (cs ++ [c]) := by
  induction r with
  | nil => exact .cons s c [] [] hf ht h1 h2 .nil
  | skip s0 ss cs hn r ih => exact .skip s0 _ _ hn ih
  | cons s0 c0 ss cs hf0 ht0 h10 h20 r ih => exact .cons s0 c0 _ _ hf0 ht0 h10 h20 ih

/-- completion of an fsync of an abstracted file: the monitor and the machine take corresponding in-flight fsyncs -/
theorem takeSync_rel (ids : List Nat) (f t : String) (ff : File) (hf : fileOf f = some ff)
    (ss : List InFlight) (cs : List CSync) (r : SyncsRel ids ss cs) :
    (takeSync f t ss = none → takeCSync ff t cs = none) ∧
    (∀ cov rest, takeSync f t ss = some (cov, rest) →
      ∃ ccov crest, takeCSync ff t cs = some (ccov, crest) ∧ SyncsRel ids rest crest ∧
        (∀ i ∈ ccov, i ∈ cov) ∧ (∀ i ∈ ids, i ∈ cov → i ∈ ccov)) := by
  induction r with
  | nil => exact ⟨fun _ => rfl, fun cov rest h => by cases h⟩
  | skip s ss cs hn r ih =>
    have hne : ¬ (s.file == f && s.thread == t) = true := by
      simp only [Bool.and_eq_true, beq_iff_eq, not_and]
      intro h; rw [h, hf] at hn; cases hn
    rw [takeSync_cons]
    cases hr : takeSync f t ss with
    | some x =>
      obtain ⟨c, rest'⟩ := x
      refine ⟨fun h => (by cases h), ?_⟩
      intro cov rest h
      simp only [Option.some.injEq, Prod.mk.injEq] at h
      obtain ⟨rfl, rfl⟩ := h
      obtain ⟨ccov, crest, h1, h2, h3⟩ := ih.2 c rest' hr
      exact ⟨ccov, crest, h1, .skip s _ _ hn h2, h3⟩
    | none =>
      simp only [hne, if_false]
      exact ⟨fun _ => ih.1 hr, fun cov rest h => by cases h⟩
  | cons s c ss cs hfs ht h1 h2 r ih =>
    rw [takeSync_cons]
    cases hr : takeSync f t ss with
    | some x =>
      obtain ⟨c0, rest'⟩ := x
      refine ⟨fun h => (by cases h), ?_⟩
      intro cov rest h
      simp only [Option.some.injEq, Prod.mk.injEq] at h
      obtain ⟨rfl, rfl⟩ := h
      obtain ⟨ccov, crest, h1', h2', h3'⟩ := ih.2 c0 rest' hr
      refine ⟨ccov, c :: crest, ?_, .cons s c _ _ hfs ht h1 h2 h2', h3'⟩
      simp only [takeCSync, h1']
    | none =>
      have hcn := ih.1 hr
      have hiff : ((s.file == f && s.thread == t) = true) ↔ (c.file = ff ∧ c.tid = t) := by
        simp only [Bool.and_eq_true, beq_iff_eq, ht]
        constructor
        · rintro ⟨rfl, rfl⟩
          rw [hfs] at hf
          exact ⟨by injection hf, rfl⟩
        · rintro ⟨rfl, rfl⟩
          exact ⟨fileOf_inj _ _ _ hfs hf, rfl⟩
      by_cases hc : (s.file == f && s.thread == t) = true
      · simp only [hc, if_true]
        refine ⟨fun h => (by cases h), ?_⟩
        intro cov rest h
        simp only [Option.some.injEq, Prod.mk.injEq] at h
        obtain ⟨rfl, rfl⟩ := h
        refine ⟨c.covers, cs, ?_, r, h1, h2⟩
        simp only [takeCSync, hcn, hiff.mp hc, and_self, if_true]
      · simp only [hc, if_false]
        refine ⟨fun _ => ?_, fun cov rest h => by cases h⟩
        have : ¬ (c.file = ff ∧ c.tid = t) := fun h => hc (hiff.mpr h)
        simp only [takeCSync, hcn, this, if_false]

/-- completion of an fsync of a file without abstraction: the machine's in-flight fsyncs are not affected -/
theorem takeSync_rel_none (ids : List Nat) (f t : String) (hf : fileOf f = none)
    (ss : List InFlight) (cs : List CSync) (r : SyncsRel ids ss cs) :
    ∀ cov rest, takeSync f t ss = some (cov, rest) → SyncsRel ids rest cs := by
  induction r with
  | nil => intro cov rest h; cases h
  | skip s ss cs hn r ih =>
    intro cov rest h
    rw [takeSync_cons] at h
    cases hr : takeSync f t ss with
    | some x =>
      obtain ⟨c, rest'⟩ := x
      rw [hr] at h
      simp only [Option.some.injEq, Prod.mk.injEq] at h
      obtain ⟨rfl, rfl⟩ := h
      exact .skip s _ _ hn (ih c rest' hr)
    | none =>
      rw [hr] at h
      simp only at h
      split at h
      · simp only [Option.some.injEq, Prod.mk.injEq] at h
        obtain ⟨rfl, rfl⟩ := h
        exact r
      · cases h
  | cons s c ss cs hfs ht h1 h2 r ih =>
    intro cov rest h
    rw [takeSync_cons] at h
    cases hr : takeSync f t ss with
    | some x =>
      obtain ⟨c0, rest'⟩ := x
      rw [hr] at h
      simp only [Option.some.injEq, Prod.mk.injEq] at h
      obtain ⟨rfl, rfl⟩ := h
      exact .cons s c _ _ hfs ht h1 h2 (ih c0 rest' hr)
    | none =>
      rw [hr] at h
      simp only at h
      split at h
      · rename_i hc
        simp only [Bool.and_eq_true, beq_iff_eq] at hc
        rw [hc.1, hf] at hfs; cases hfs
      · cases h

/-! ## The pending list of the monitor and the volatile effects of the machine -/

section pend
variable {Content MetaRec WalRec LogRec : Type} (C : Contents Content MetaRec WalRec)

theorem markEnded_of_not_mem (id : Nat) (l : List (VEff Content MetaRec WalRec LogRec))
    (h : ∀ v ∈ l, v.id ≠ id) : markEnded id l = l := by
  unfold markEnded
  conv => rhs; rw [← List.map_id l]
  apply List.map_congr_left
  intro v hv
  simp [h v hv]

theorem absP_setEnded (p : Pend) :
    absP (LogRec := LogRec) C { p with ended := true } = (absP C p).map (fun v => { v with ended := true }) := by
  unfold absP
  cases absEff (LogRec := LogRec) C p.id p.kind p.file p.offset <;> rfl

theorem mem_filterMap_absP_id (l : List Pend) (v : VEff Content MetaRec WalRec LogRec)
    (h : v ∈ l.filterMap (absP C)) : ∃ p ∈ l, absP C p = some v ∧ v.id = p.id := by
  obtain ⟨p, hp, hv⟩ := List.mem_filterMap.mp h
  exact ⟨p, hp, hv, (absP_some C p v hv).1⟩

/-- an End line: the monitor marks the effect it pairs the line with; the machine marks the effect with that id -/
theorem endEffect_abs (e : IoEv) (pend : List Pend) (hnd : (pend.map (·.id)).Nodup) :
    (endEffect e pend).filterMap (absP (LogRec := LogRec) C) =
      match firstMatch e pend with
      | some p => if (absP (LogRec := LogRec) C p).isSome = true then markEnded p.id (pend.filterMap (absP C))
                  else pend.filterMap (absP C)
      | none => pend.filterMap (absP C) := by
  induction pend with
  | nil => rfl
  | cons p rest ih =>
    simp only [List.map_cons, List.nodup_cons, List.mem_map, not_exists, not_and] at hnd
    rw [endEffect_cons]
    simp only [firstMatch, List.find?_cons]
    by_cases hc : endCond e p = true
    · simp only [hc, if_true]
      have hrest : markEnded p.id (rest.filterMap (absP (LogRec := LogRec) C)) = rest.filterMap (absP C) := by
        apply markEnded_of_not_mem
        intro v hv hid
        obtain ⟨q, hq, _, hvq⟩ := mem_filterMap_absP_id C rest v hv
        exact hnd.1 q hq (by rw [← hvq, hid])
      cases hp : absP (LogRec := LogRec) C p with
      | none =>
        simp only [List.filterMap_cons, absP_setEnded, hp, Option.map_none, Option.isSome_none, Bool.false_eq_true,
          if_false]
      | some v =>
        have hvid := (absP_some C p v hp).1
        simp only [List.filterMap_cons, absP_setEnded, hp, Option.map_some, Option.isSome_some, if_true]
        simp only [markEnded, List.map_cons, hvid, if_true]
        simp only [markEnded] at hrest
        rw [hrest]
    · have hc' : endCond e p = false := by simpa using hc
      simp only [hc', Bool.false_eq_true, if_false]
      have ih' := ih hnd.2
      simp only [firstMatch] at ih'
      rw [List.filterMap_cons, ih']
      cases hm : rest.find? (endCond e) with
      | none => simp only [List.filterMap_cons]
      | some q =>
        have hq : q ∈ rest := List.mem_of_find?_eq_some hm
        have hne : q.id ≠ p.id := fun h => hnd.1 q hq h
        simp only
        by_cases hs : (absP (LogRec := LogRec) C q).isSome = true
        · simp only [hs, if_true]
          cases hp : absP (LogRec := LogRec) C p with
          | none => simp only [List.filterMap_cons, hp]
          | some v =>
            have hvid := (absP_some C p v hp).1
            simp only [List.filterMap_cons, hp, markEnded, List.map_cons]
            have : ¬ v.id = q.id := by rw [hvid]; exact fun h => hne h.symm
            simp only [this, if_false]
        · simp only [hs, Bool.false_eq_true, if_false, List.filterMap_cons]

/-- completion of an fsync of an abstracted file -/
theorem flush_abs (pend : List Pend) (cov ccov : List Nat) (ff : File)
    (h : ∀ p ∈ pend, ∀ v, absP (LogRec := LogRec) C p = some v → (cov.contains p.id = true ↔ covered ff ccov v = true)) :
    (pend.filter (fun p => !cov.contains p.id)).filterMap (absP (LogRec := LogRec) C) =
      (pend.filterMap (absP C)).filter (fun v => !covered ff ccov v) := by
  induction pend with
  | nil => rfl
  | cons p rest ih =>
    have ih' := ih (fun q hq => h q (by simp [hq]))
    cases hp : absP (LogRec := LogRec) C p with
    | none =>
      by_cases hc : cov.contains p.id = true
      · simp only [List.filter_cons, hc, Bool.not_true, Bool.false_eq_true, if_false, List.filterMap_cons, hp, ih']
      · simp only [List.filter_cons, hc, Bool.not_false, if_true, List.filterMap_cons, hp, ih']
    | some v =>
      have hiff := h p (by simp) v hp
      by_cases hc : cov.contains p.id = true
      · have hcv := hiff.mp hc
        simp only [List.filter_cons, hc, Bool.not_true, Bool.false_eq_true, if_false, List.filterMap_cons, hp, ih', hcv]
      · have hcv : covered ff ccov v = false := by
          cases hcv : covered ff ccov v with
          | false => rfl
          | true => exact absurd (hiff.mpr hcv) hc
        simp only [List.filter_cons, hc, Bool.not_false, if_true, List.filterMap_cons, hp, ih', hcv]

/-- completion of an fsync of a file without abstraction -/
theorem flush_abs_none (pend : List Pend) (cov : List Nat)
    (h : ∀ p ∈ pend, cov.contains p.id = true → absP (LogRec := LogRec) C p = none) :
    (pend.filter (fun p => !cov.contains p.id)).filterMap (absP (LogRec := LogRec) C) = pend.filterMap (absP C) := by
  induction pend with
  | nil => rfl
  | cons p rest ih =>
    have ih' := ih (fun q hq => h q (by simp [hq]))
    by_cases hc : cov.contains p.id = true
    · simp only [List.filter_cons, hc, Bool.not_true, Bool.false_eq_true, if_false, List.filterMap_cons, h p (by simp) hc,
        ih']
    · simp only [List.filter_cons, hc, Bool.not_false, if_true, List.filterMap_cons, ih']

end pend

end Nomt.Store
