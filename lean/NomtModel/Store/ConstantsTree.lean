import NomtModel.Generated.Constants
import NomtModel.Api.Shards
/-!
# Constants of the page tree and of commit parallelism — used by C13

`Nomt.Gen.*` (`Generated/Constants.lean`) is produced by `tools/gen_constants.py` from the current Rust
sources on every run of `tools/check.py` / `tools/setup.py`.  Every fact is closed arithmetic checked by the
kernel (`decide` / `rfl` / `omega`): either a **tie** (a constant carried by hand in the Lean model equals the
generated value) or a **layout law** (a relation between generated values a property relies on).  A changed
constant in the Rust source changes the generated file and makes the fact — and the property theorem of
`Props/` that re-exports it — fail to build.
-/
namespace Nomt.Store.ConstantsCheck
open Nomt Nomt.Store

theorem shards_num_children : Shards.numChildren = Gen.NUM_CHILDREN := by decide

/-- `NUM_CHILDREN = 2^DEPTH = 64` (the shard table of `Api/Shards.lean` is the table for 64) and a
commit uses at most one worker per child of the root page -/
theorem num_children :
    Gen.NUM_CHILDREN = 2 ^ Gen.DEPTH ∧ Gen.NUM_CHILDREN = 64 ∧ Gen.MAX_CHILD_INDEX + 1 = Gen.NUM_CHILDREN ∧
    Gen.MAX_COMMIT_CONCURRENCY = 64 ∧ Gen.MAX_COMMIT_CONCURRENCY = Gen.NUM_CHILDREN := by decide

end Nomt.Store.ConstantsCheck
