import NomtModel.Store.SegOpen
/-!
# `seglog::open` on a well-formed directory

`open_ok`: segment ids contiguous, record ids consecutive over the whole directory, a torn tail only in the last file
and beyond `e`, `1 ≤ s ≤ e` and the record `e` present ⇒ `open(s, e)` succeeds, hands out exactly the complete records
with `s ≤ id ≤ e`, unlinks the files below the live range oldest first and those above it newest first, cuts the head
after `e`.
-/
namespace Nomt.Seg

theorem idsFrom_get : ∀ (l : List Rec) (nx e : Nat), IdsFrom nx l → nx ≤ e → e < nx + l.length → ∃ r ∈ l, r.id = e
  | [], _, _, _, h1, h2 => by simp at h2; omega
  | x :: l, nx, e, h, h1, h2 => by
    obtain ⟨hx, hl⟩ := h
    by_cases he : e = nx
    · exact ⟨x, by simp, by omega⟩
    · obtain ⟨r, hr, hre⟩ := idsFrom_get l (nx + 1) e hl (by omega) (by simp at h2; omega)
      exact ⟨r, by simp [hr], hre⟩

theorem setLast_map_getLast (g : SegMeta → SegMeta) : ∀ (l : List SegMeta), l ≠ [] →
    setLast g l = l.dropLast ++ [g (l.getLast?.getD default)]
  | [], h => absurd rfl h
  | [x], _ => by simp [setLast]
  | x :: y :: l, _ => by
    have := setLast_map_getLast g (y :: l) (by simp)
    simp only [setLast, this, List.dropLast_cons_cons, List.getLast?_cons_cons, List.cons_append]

theorem lookup_last (i : Nat) (D : Dir) (y : Nat × SegFile) (h : SegIdsFrom i (D ++ [y])) :
    lookup (D ++ [y]) y.1 = some y.2 := by
  obtain ⟨hD, hy⟩ := (segIdsFrom_append D [y] i).mp h
  have hyid : y.1 = i + D.length := hy.1
  have : D.find? (fun x => decide (x.1 = y.1)) = none := by
    rw [List.find?_eq_none]
    intro x hx
    have := segIdsFrom_mem D i hD x hx
    simp; omega
  simp [lookup, List.find?_append, this]

theorem updFile_last (i : Nat) (D : Dir) (y : Nat × SegFile) (g : SegFile → SegFile) (h : SegIdsFrom i (D ++ [y])) :
    updFile (D ++ [y]) y.1 g = D ++ [(y.1, g y.2)] := by
  obtain ⟨hD, hy⟩ := (segIdsFrom_append D [y] i).mp h
  have hyid : y.1 = i + D.length := hy.1
  have : D.map (fun x => if x.1 = y.1 then (x.1, g x.2) else x) = D.map id := by
    apply List.map_congr_left
    intro x hx
    have := segIdsFrom_mem D i hD x hx
    have hne : x.1 ≠ y.1 := by omega
    simp [hne]
  simp only [List.map_id] at this
  simp [updFile, this]

/-- the directory `open` leaves behind: the live files, the last one cut after `e` -/
def liveDir (D : Dir) (y : Nat × SegFile) (m : Nat) : Dir :=
  D ++ [(y.1, { recs := y.2.recs.take m, torn := none })]

theorem open_ok (maxSeg s e i0 a : Nat) (d : Dir) (hs : 0 < s) (hse : s ≤ e) (hi : 0 < i0)
    (hseg : SegIdsFrom i0 d) (hrec : RecsFrom e a d) (hae : a ≤ e) (heb : e < a + (flatRecs d).length) :
    ∃ P D T y ny, d = P ++ (D ++ [y]) ++ T ∧
      (∀ r ∈ flatRecs P, r.id < s) ∧ (∀ r ∈ flatRecs T, e < r.id) ∧
      ny = a + (flatRecs (P ++ D)).length ∧ ny ≤ e ∧ e < ny + y.2.recs.length ∧
      (openM maxSeg s e d).effs =
        P.map (fun x => FsEff.unlink x.1) ++ T.reverse.map (fun x => FsEff.unlink x.1) ++
          [.setLen y.1 (recsSize (y.2.recs.take (e - ny + 1))), .fsync y.1] ∧
      (openM maxSeg s e d).dir = liveDir D y (e - ny + 1) ∧
      (openM maxSeg s e d).out =
        .ok (⟨maxSeg, s, e, setLast (fun m => { m with max := e }) ((D ++ [y]).map metaOf),
              some (recsSize (y.2.recs.take (e - ny + 1)))⟩, (flatRecs d).filter (live s e)) := by
  -- the record `e` is in some file
  have hflat := recsFrom_flat e d a hrec
  obtain ⟨re, hre, hree⟩ := idsFrom_get _ a e hflat hae heb
  have hex : ∃ x ∈ d, hasGe e x.2 = true := by
    simp only [flatRecs, List.mem_flatMap] at hre
    obtain ⟨x, hx, hrx⟩ := hre
    exact ⟨x, hx, by simp only [hasGe, List.any_eq_true, decide_eq_true_eq]; exact ⟨re, hrx, by omega⟩⟩
  obtain ⟨P, Lv, T, x, Lv', y, hd, hLv, hlast, hP, hx, hD1, hy⟩ := decomp s e hse d hex
  obtain ⟨D, hD⟩ := List.getLast?_eq_some_iff.mp hlast
  subst hD
  have hdl : (D ++ [y]).dropLast = D := by simp
  rw [hdl] at hD1
  -- record-id facts
  have hd' : d = (P ++ D) ++ (y :: T) := by rw [hd]; simp
  obtain ⟨hAt, hAr, hBr⟩ := recsFrom_append e (P ++ D) (y :: T) a (hd' ▸ hrec) (by simp)
  obtain ⟨hyids, _, _, hTr⟩ := hBr
  have hAflat := recsFrom_flat e _ a hAr
  have hAlt : ∀ r ∈ flatRecs (P ++ D), r.id < e := hasGe_false_flat e _ hD1
  have hny : a + (flatRecs (P ++ D)).length ≤ e := by
    by_cases h0 : (flatRecs (P ++ D)).length = 0
    · omega
    · obtain ⟨r, hr, hrid⟩ := idsFrom_get _ a (a + (flatRecs (P ++ D)).length - 1) hAflat (by omega) (by omega)
      have := hAlt r hr
      omega
  have hey : e < a + (flatRecs (P ++ D)).length + y.2.recs.length := by
    simp only [hasGe, List.any_eq_true, decide_eq_true_eq] at hy
    obtain ⟨r, hr, hle⟩ := hy
    have := idsFrom_mem _ _ hyids r hr
    omega
  have hTdead : ∀ r ∈ flatRecs T, e < r.id := by
    intro r hr
    have := idsFrom_mem _ _ (recsFrom_flat e T _ hTr) r hr
    omega
  refine ⟨P, D, T, y, _, hd, hasGe_false_flat s P hP, hTdead, rfl, hny, hey, ?_⟩
  -- the computation
  generalize hnyd : a + (flatRecs (P ++ D)).length = ny at *
  have hs0 : s ≠ 0 := by omega
  have he0 : e ≠ 0 := by omega
  have hsort : sortById d = d := sortById_of_from d i0 hseg
  have hchk : checkIds none (d.map (·.1)) = .ok () := checkIds_from d i0 none hi hseg (Or.inl rfl)
  obtain ⟨σ', hsc, _, hout, hls, hle⟩ := scanAll_ok s e hs hse d 0 a {} hrec (Or.inl ⟨rfl, rfl, hae⟩)
  have hls' : σ'.ls = some P.length := by
    rw [hls, hd, hLv]
    have : P ++ x :: Lv' ++ T = P ++ x :: (Lv' ++ T) := by simp
    rw [this, firstIdx_at (hasGe s) P x _ 0 hP hx]; simp
  have hle' : σ'.le = some (P ++ D).length := by
    rw [hle, hd']
    rw [firstIdx_at (hasGe e) (P ++ D) y T 0 hD1 hy]; simp
  have hout' : σ'.out = (flatRecs d).filter (live s e) := by rw [hout]; rfl
  -- the split of the candidates
  have hmetas : d.map metaOf = (P.map metaOf ++ (D ++ [y]).map metaOf) ++ T.map metaOf := by
    rw [hd]; simp
  have hsplit : splitLive σ'.ls σ'.le (d.map metaOf) =
      .ok (P.map metaOf ++ (T.map metaOf).reverse, (D ++ [y]).map metaOf) := by
    rw [hls', hle', hmetas]
    have hlen : (P.map metaOf ++ (D ++ [y]).map metaOf).length = (P ++ D).length + 1 := by
      simp only [List.length_append, List.length_map, List.length_cons, List.length_nil]; omega
    simp only [splitLive]
    rw [List.drop_left' hlen, List.take_left' hlen, List.take_left' (by simp), List.drop_left' (by simp)]
  -- the unlinks
  have heffs1 : (P.map metaOf ++ (T.map metaOf).reverse).map (fun m => FsEff.unlink m.id) =
      (P.map (·.1)).map FsEff.unlink ++ (T.reverse.map (·.1)).map FsEff.unlink := by
    simp [metaOf, List.map_reverse, Function.comp_def]
  have hsegLT : SegIdsFrom (i0 + P.length) ((D ++ [y]) ++ T) := by
    have := (segIdsFrom_append P ((D ++ [y]) ++ T) i0).mp (by rw [hd] at hseg; simpa using hseg)
    exact this.2
  have hsegL : SegIdsFrom (i0 + P.length) (D ++ [y]) := ((segIdsFrom_append _ T _).mp hsegLT).1
  have hd1 : applyEffs d ((P.map (·.1)).map FsEff.unlink ++ (T.reverse.map (·.1)).map FsEff.unlink) = D ++ [y] := by
    rw [applyEffs_append, applyEffs_unlinks, applyEffs_unlinks]
    have h1 : d.filter (fun x => decide (x.1 ∉ P.map (·.1))) = (D ++ [y]) ++ T := by
      have := filter_drop_left i0 P ((D ++ [y]) ++ T) (by rw [hd] at hseg; simpa using hseg)
      rw [hd]; simpa using this
    rw [h1]
    exact filter_drop_right (i0 + P.length) (D ++ [y]) T _ (by intro j; simp) hsegLT
  have hlast' : ((D ++ [y]).map metaOf).getLast? = some (metaOf y) := by simp
  have hlook : lookup (D ++ [y]) (metaOf y).id = some y.2 := lookup_last _ D y hsegL
  have hm : e - ny + 1 ≤ y.2.recs.length := by omega
  have htr : truncateHead y.2 e = .ok (recsSize (y.2.recs.take (e - ny + 1))) := by
    have := findEnd_idsFrom y.2.recs ny e 0 hyids hny (by omega)
    simp [truncateHead, scanRecordEnd, this]
  have hfinal : applyEffs (D ++ [y]) [FsEff.setLen (metaOf y).id (recsSize (y.2.recs.take (e - ny + 1))), .fsync (metaOf y).id]
      = liveDir D y (e - ny + 1) := by
    simp only [applyEffs, List.foldl_cons, List.foldl_nil, applyEff]
    have : (metaOf y).id = y.1 := rfl
    rw [this, updFile_last _ D y _ hsegL, setLen_at_boundary y.2 _ hm]
    rfl
  have hrange : ¬ ((s = 0) ≠ (e = 0)) := by simp [hs0, he0]
  unfold openM openWith
  rw [if_neg hrange]
  simp only [hsort, hchk, hs0, if_false, hsc, hls', hle', Option.isNone_some,
    Bool.false_eq_true, and_false, ne_eq, not_false_eq_true, true_and]
  rw [← hls', ← hle', hsplit]
  simp only [heffs1, hd1, hlast', hlook, htr, hfinal, hout']
  simp [metaOf, Function.comp_def]

end Nomt.Seg
