import NomtModel.Store.StageGlueBranchSpec
/-!
# `ops::update` as a whole (`update_spec`)
-/
namespace Nomt.StageGlue
open Nomt
open Nomt.LeafUpd (Entry DbLeaf OutLeaf Leaf CellSize Sorted write1 applyAll OutUpTo)
open Nomt.BranchUpd (DbNode OutNode Produced Node KF kfReal chs)

variable {V : Type} [CellSize V]

/-- a well-formed beatree (the EMPTY tree — no leaf, no branch node — included): well-formed leaves (none empty, the first
under the zero key), a well-formed branch level, and the branch level lists exactly the leaves: (separator, page number),
left to right -/
structure TreeOK (t : Tree V) : Prop where
  leaves : LeafTreeOK t.leaves
  index : BranchUpd.DbOK kfReal t.index
  level : t.level = t.leaves.map fun l => (l.sep, t.lpn l.sep)

theorem lvlEnts_level (t : Tree V) : lvlEnts t.level = BranchUpd.flat t.index := by
  unfold Tree.level lvlEnts BranchUpd.flat
  induction t.index with
  | nil => rfl
  | cons n r ih =>
    simp only [List.flatMap_cons, List.map_append, ih]
    congr 1
    simp [BranchUpd.ents, BranchUpd.Item.ent]

theorem TreeOK.index_ne {t : Tree V} (h : TreeOK t) (hne : t.leaves ≠ []) : t.index ≠ [] := by
  intro e
  have := h.level
  unfold Tree.level at this
  rw [e] at this
  obtain ⟨l, r, hl⟩ := List.exists_cons_of_ne_nil hne
  rw [hl] at this
  simp at this

theorem TreeOK.index_zero {t : Tree V} (h : TreeOK t) : ∀ n, t.index.head? = some n → n.sep = 0 := by
  intro n hn
  cases hi : t.index with
  | nil => rw [hi] at hn; cases hn
  | cons n0 r0 =>
    rw [hi] at hn
    simp only [List.head?_cons, Option.some.injEq] at hn
    subst hn
    have hin := BranchUpd.DbOK.head (by rw [← hi]; exact h.index : BranchUpd.DbOK kfReal (n0 :: r0))
    obtain ⟨it, its, hit⟩ := List.exists_cons_of_ne_nil hin.1.ne
    have hle := hin.2.1 it (by rw [hit]; simp)
    have hlev := h.level
    unfold Tree.level at hlev
    obtain ⟨l, r, hl⟩ : ∃ l r, t.leaves = l :: r := by
      cases hl : t.leaves with
      | nil => rw [hi, hl] at hlev; simp [hit] at hlev
      | cons l r => exact ⟨l, r, rfl⟩
    have hl0 : l.sep = 0 := h.leaves.zero l (by rw [hl]; rfl)
    rw [hi, hl] at hlev
    simp only [List.flatMap_cons, hit, List.map_cons, List.cons_append, List.cons.injEq, Prod.mk.injEq] at hlev
    omega

/-- what `update` guarantees -/
structure UpdateOK (t : Tree V) (cs : List (Nat × Option (V × Bool))) (pagesOf : V → List Nat) (lnFresh bbnFresh : Nat → Nat)
    (a0 : Nat) (o : UpdateOut V) : Prop where
  /-- the leaf level: `LeafUpd.runWorker`'s, holding the old content with the batch applied -/
  run : LeafUpd.runWorker LeafUpd.sepReal t.leaves cs = some (o.leafLevel, LeafUpd.ovfLog (LeafUpd.flat t.leaves) (cs.map (·.1)))
  content : LeafUpd.flatOut o.leafLevel = applyAll (LeafUpd.flat t.leaves) cs
  asc : OutAsc o.leafLevel
  news : ∀ l, OutLeaf.new l ∈ o.leafLevel → LeafUpd.NewGood l
  olds : ∀ l, OutLeaf.old l ∈ o.leafLevel → l ∈ t.leaves
  chain : ∃ s, OutUpTo o.leafLevel s
  /-- the new branch level is well formed … -/
  index : BranchUpd.DbOK kfReal o.index
  /-- … and lists exactly the leaves of the new leaf level, left to right, under their separators — the first one under
  the zero key —, with the page numbers the leaf stage wrote them to -/
  level : BranchUpd.flat o.index = relabel0 (lvlEnts (lvlOf t.lpn lnFresh a0 o.leafLevel))
  /-- the index consists of the untouched nodes and the produced nodes of the branch level -/
  index_level : o.index = idxOf bbnFresh 0 o.branchLevel
  branch_asc : OutAscB o.branchLevel
  branch_olds : ∀ n ∈ oldsOfB o.branchLevel, n ∈ t.index
  /-- released leaf-store pages: the pages of the overflow cells whose key is in the batch, then (a permutation of) the
  pages of the old leaves that are not part of the new level -/
  ln_freed : ∃ fl, o.lnFreed = (LeafUpd.ovfLog (LeafUpd.flat t.leaves) (cs.map (·.1))).flatMap pagesOf ++ fl ∧
    fl.Perm ((t.leaves.filter fun l => decide (l.sep ∉ (oldsOf o.leafLevel).map (·.sep))).map fun l => t.lpn l.sep)
  /-- released bbn-store pages: (a permutation of) the pages of the old branch nodes that are not part of the new index -/
  bbn_freed : o.bbnFreed.Perm ((t.index.filter fun n => decide (n.sep ∉ (oldsOfB o.branchLevel).map (·.sep))).map (·.bbn))
  ln_allocs : o.lnAllocs = a0 + (newsOf o.leafLevel).length
  /-- `PostIoWork::run` inserts exactly the produced leaves into the leaf cache, each under the page number it was written to -/
  postio : ∀ pn l, (pn, l) ∈ o.postIo ↔ ∃ i, (newsOf o.leafLevel)[i]? = some l ∧ pn = lnFresh (a0 + i)
  bbn_allocs : o.bbnAllocs = (newsOfB o.branchLevel).length

theorem lvlOf_old (lpn fresh : Nat → Nat) (a : Nat) : ∀ (db : List (DbLeaf V)),
    lvlOf lpn fresh a (db.map OutLeaf.old) = db.map fun l => (l.sep, lpn l.sep)
  | [] => rfl
  | l :: r => by simp [lvlOf, lvlOf_old lpn fresh a r]

theorem idxOf_old (fresh : Nat → Nat) (a : Nat) : ∀ (db : List DbNode), idxOf fresh a (db.map OutNode.old) = db
  | [] => rfl
  | l :: r => by simp [idxOf, idxOf_old fresh a r]

/-- **`ops::update`, both stages, one worker, the code as it is**: on a well-formed tree (possibly empty) and an ascending
batch (possibly empty) it reaches no panic site, and `UpdateOK` holds. -/
theorem update_spec (pagesOf : V → List Nat) (lnFresh bbnFresh : Nat → Nat) (a0 : Nat) (t : Tree V)
    (cs : List (Nat × Option (V × Bool))) (lo : Nat) (ht : TreeOK t) (hcs : LeafUpd.ChOK (2 ^ 256) lo cs)
    (ha0 : cs = [] → a0 = 0) :
    ∃ o, update LeafUpd.sepReal kfReal pagesOf lnFresh bbnFresh false t cs a0 = some o ∧
      UpdateOK t cs pagesOf lnFresh bbnFresh a0 o := by
  have hidxasc : IdxAsc t.index := by
    have hp := BranchUpd.DbOK.pairwise ht.index
    have hall := BranchUpd.DbOK.oldOK ht.index
    refine hp.imp_of_mem ?_
    intro a b ha _ hab
    obtain ⟨it, tl, hit⟩ := List.exists_cons_of_ne_nil (hall a ha).1.ne
    have h1 := (hall a ha).2 it (by rw [hit]; simp)
    have h2 := hab it (by rw [hit]; simp)
    omega
  have hlvl0 : BranchUpd.flat t.index = lvlEnts (t.leaves.map fun l => (l.sep, t.lpn l.sep)) := by
    rw [← lvlEnts_level, ht.level]
  obtain ⟨hsasc, _⟩ := dbOK_seps_asc t.leaves ht.leaves.ok
  by_cases hcse : cs = []
  · -- the empty batch: both stages return their defaults
    subst hcse
    have ha := ha0 rfl
    subst ha
    have hres : update LeafUpd.sepReal kfReal pagesOf lnFresh bbnFresh false t ([] : List (Nat × Option (V × Bool))) 0 =
        some { index := t.index, leafChangeset := [], lnFreed := [], bbnFreed := [], lnAllocs := 0, bbnAllocs := 0,
               submittedIo := 0, postIo := [], leafLevel := t.leaves.map .old, branchLevel := t.index.map .old } := by
      simp [update]
    refine ⟨_, hres, ?_⟩
    obtain ⟨out, log, erun, hcontent, hlog, hnews, hchain⟩ :=
      LeafUpd.runWorker_spec LeafUpd.sepReal (2 ^ 256) LeafUpd.sepReal_ok t.leaves [] lo ht.leaves.ok hcs
        (fun l hl => by rw [ht.leaves.zero l hl]; exact Nat.zero_le _)
    have e0 : LeafUpd.runWorker LeafUpd.sepReal t.leaves ([] : List (Nat × Option (V × Bool))) =
        some (t.leaves.map .old, []) := rfl
    rw [e0] at erun
    simp only [Option.some.injEq, Prod.mk.injEq] at erun
    obtain ⟨rfl, rfl⟩ := erun
    have hoasc : OutAsc (t.leaves.map OutLeaf.old) := by
      unfold OutAsc; rw [List.pairwise_map]; exact (List.pairwise_map).1 hsasc
    refine ⟨by simp [LeafUpd.ovfLog_nil_keys]; rfl, hcontent, hoasc, hnews, ?_, hchain, ht.index, ?_, ?_, ?_,
      (by intro n hn; simpa [oldsOfB_old] using hn),
      ⟨[], by simp [LeafUpd.ovfLog_nil_keys], ?_⟩, ?_, by simp [newsOf_old], (by simp [newsOf_old]), by simp [newsOfB_old]⟩
    · intro l hl
      obtain ⟨y, hy, e⟩ := List.mem_map.1 hl
      cases e; exact hy
    · rw [lvlOf_old, hlvl0]
      symm
      by_cases hle : t.leaves = []
      · rw [hle]; rfl
      apply relabel0_of_head_zero (lvlEnts_sorted (by unfold LvlAsc; rw [List.pairwise_map]; exact (List.pairwise_map).1 hsasc))
      obtain ⟨l, r, hl⟩ := List.exists_cons_of_ne_nil hle
      rw [getE_lvlEnts_db]
      have : (0 : Nat) ∈ t.leaves.map (·.sep) := by rw [hl]; simp [ht.leaves.zero l (by rw [hl]; rfl)]
      simp [this]
    · show t.index = idxOf bbnFresh 0 (t.index.map OutNode.old)
      rw [idxOf_old]
    · show OutAscB (t.index.map OutNode.old)
      unfold OutAscB; rw [List.pairwise_map]; exact hidxasc
    · rw [oldsOf_old]
      have : (t.leaves.filter fun l => decide (l.sep ∉ t.leaves.map (·.sep))) = [] := by
        rw [List.filter_eq_nil_iff]
        intro l hl
        simp only [decide_eq_true_eq, Decidable.not_not]
        exact List.mem_map.2 ⟨l, hl, rfl⟩
      rw [this]; exact List.Perm.refl _
    · show ([] : List Nat).Perm _
      rw [oldsOfB_old]
      have : (t.index.filter fun n => decide (n.sep ∉ t.index.map (·.sep))) = [] := by
        rw [List.filter_eq_nil_iff]
        intro l hl
        simp only [decide_eq_true_eq, Decidable.not_not]
        exact List.mem_map.2 ⟨l, hl, rfl⟩
      rw [this]; exact List.Perm.refl _
  · obtain ⟨lo', hleaf, hl⟩ := leafStage_spec pagesOf t.lpn lnFresh a0 t.leaves cs lo ht.leaves hcs hcse
    rw [← ht.level] at hleaf
    have hcsne : cs.isEmpty = false := by cases cs with | nil => exact absurd rfl hcse | cons _ _ => rfl
    by_cases hlcs : lo'.changeset = []
    · -- no leaf changed: the branch stage returns its default
      have hres : update LeafUpd.sepReal kfReal pagesOf lnFresh bbnFresh false t cs a0 =
          some { index := t.index, leafChangeset := lo'.changeset, lnFreed := lo'.freed, bbnFreed := [],
                 lnAllocs := lo'.allocs, bbnAllocs := 0, submittedIo := lo'.submittedIo + 0, postIo := lo'.postIo,
                 leafLevel := lo'.level, branchLevel := t.index.map .old } := by
        simp only [update, hcsne, Bool.false_eq_true, if_false, hleaf, branchStage, hlcs, List.isEmpty_nil, if_true]
      refine ⟨_, hres, ?_⟩
      have hlevel := hl.level
      rw [hlcs] at hlevel
      refine ⟨hl.run, hl.content, hl.asc, hl.news, hl.olds, hl.chain, ht.index, ?_, ?_, ?_,
        (by intro n hn; simpa [oldsOfB_old] using hn), hl.freed, ?_,
        hl.allocs, hl.postio, by simp [newsOfB_old]⟩
      · rw [hlvl0, ← hlevel]; rfl
      · show t.index = idxOf bbnFresh 0 (t.index.map OutNode.old)
        rw [idxOf_old]
      · show OutAscB (t.index.map OutNode.old)
        unfold OutAscB; rw [List.pairwise_map]; exact hidxasc
      · show ([] : List Nat).Perm _
        rw [oldsOfB_old]
        have : (t.index.filter fun n => decide (n.sep ∉ t.index.map (·.sep))) = [] := by
          rw [List.filter_eq_nil_iff]
          intro l hl'
          simp only [decide_eq_true_eq, Decidable.not_not]
          exact List.mem_map.2 ⟨l, hl', rfl⟩
        rw [this]; exact List.Perm.refl _
    · obtain ⟨bo, rel, hbranch, hbrun, hbok, hbflat, hbidx, hbasc, hbfreed, hballoc, hbolds⟩ :=
        branchStage_spec bbnFresh t.index lo'.changeset ht.index (by
          by_cases hle : t.leaves = []
          · right
            obtain ⟨c, r, hc⟩ := List.exists_cons_of_ne_nil hlcs
            exact ⟨c, by rw [hc]; simp, hl.nones hle c (by rw [hc]; simp)⟩
          · exact Or.inl (ht.index_ne hle)) ht.index_zero hl.cs_asc hl.keys_lt hlcs
      have hres : update LeafUpd.sepReal kfReal pagesOf lnFresh bbnFresh false t cs a0 =
          some { index := bo.index, leafChangeset := lo'.changeset, lnFreed := lo'.freed, bbnFreed := bo.freed,
                 lnAllocs := lo'.allocs, bbnAllocs := bo.allocs, submittedIo := lo'.submittedIo + bo.submittedIo,
                 postIo := lo'.postIo, leafLevel := lo'.level, branchLevel := bo.level } := by
        simp only [update, hcsne, Bool.false_eq_true, if_false, hleaf, hbranch]
      refine ⟨_, hres, ?_⟩
      refine ⟨hl.run, hl.content, hl.asc, hl.news, hl.olds, hl.chain, hbok, ?_, hbidx, hbasc, hbolds, hl.freed,
        hbfreed, hl.allocs, hl.postio, hballoc⟩
      rw [hbflat, hlvl0, hl.level]

end Nomt.StageGlue
