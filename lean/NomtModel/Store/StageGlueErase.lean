import NomtModel.Store.StageGlueModel
/-!
# The instrumented leaf worker: erasure and bookkeeping

* erasing the record of tracker calls from `leafWorker` gives `LeafUpd.runWorker` (same loops, same states);
* bookkeeping (`Book`): the `delete` calls name exactly the leaves that became a base — together with the untouched leaves
  of `out` and the leaves not yet reached they are a permutation of the old level —, and the `insert` calls are exactly
  the produced leaves of `out`, in order.
-/
namespace Nomt.StageGlue
open Nomt
open Nomt.LeafUpd (Entry DbLeaf OutLeaf Leaf CellSize Run)

variable {V : Type} [CellSize V]

/-! ## erasure -/

theorem resetToT_r (lpn : Nat → Nat) (key : Nat) (x : LRun V) : (resetToT lpn key x).r = LeafUpd.resetTo key x.r := by
  unfold resetToT
  split <;> rfl

theorem afterDigest_r (x : LRun V) (st' : LeafUpd.St V) (leaves : List (Leaf V)) :
    (afterDigest x st' leaves).r = { x.r with st := st', out := x.r.out ++ leaves.map .new } := rfl

theorem scopeLoopT_erase (sepf : Nat → Nat → Option Nat) (lpn : Nat → Nat) (key : Nat) : ∀ (fuel : Nat) (x : LRun V),
    (scopeLoopT sepf lpn key fuel x).map (·.r) = LeafUpd.scopeLoop sepf key fuel x.r
  | 0, _ => rfl
  | fuel + 1, x => by
    unfold scopeLoopT LeafUpd.scopeLoop
    by_cases hs : LeafUpd.inScope x.r.st key
    · simp [hs]
    · simp only [hs, Bool.false_eq_true, if_false]
      cases hd : LeafUpd.digest sepf x.r.st with
      | none => rfl
      | some t =>
        obtain ⟨st', leaves, res⟩ := t
        simp only []
        rw [scopeLoopT_erase sepf lpn key fuel, resetToT_r, afterDigest_r]
        rfl

theorem runChangesT_erase (sepf : Nat → Nat → Option Nat) (lpn : Nat → Nat) :
    ∀ (cs : List (Nat × Option (V × Bool))) (x : LRun V),
    (runChangesT sepf lpn cs x).map (·.r) = LeafUpd.runChanges sepf cs x.r
  | [], _ => rfl
  | (key, ch) :: cs, x => by
    unfold runChangesT LeafUpd.runChanges
    have h := scopeLoopT_erase sepf lpn key (x.r.rest.length + 1) x
    cases h1 : scopeLoopT sepf lpn key (x.r.rest.length + 1) x with
    | none => rw [h1] at h; simp only [Option.map_none] at h; rw [← h]; rfl
    | some x1 =>
      rw [h1] at h; simp only [Option.map_some] at h; rw [← h]
      simp only []
      exact runChangesT_erase sepf lpn cs _

theorem finishLoopT_erase (sepf : Nat → Nat → Option Nat) (lpn : Nat → Nat) : ∀ (fuel : Nat) (x : LRun V),
    (finishLoopT sepf lpn fuel x).map (·.r) = LeafUpd.finishLoop sepf fuel x.r
  | 0, _ => rfl
  | fuel + 1, x => by
    unfold finishLoopT LeafUpd.finishLoop
    cases hd : LeafUpd.digest sepf x.r.st with
    | none => rfl
    | some t =>
      obtain ⟨st', leaves, res⟩ := t
      simp only []
      cases res with
      | finished => rfl
      | needsMerge c =>
        simp only []
        rw [finishLoopT_erase sepf lpn fuel, resetToT_r, afterDigest_r]

/-- **erasure**: the instrumented worker ends iff `LeafUpd.runWorker` does, in the same run state -/
theorem leafWorker_erase (sepf : Nat → Nat → Option Nat) (lpn : Nat → Nat) (db : List (DbLeaf V))
    (k : Nat) (ch : Option (V × Bool)) (cs : List (Nat × Option (V × Bool))) :
    (leafWorker sepf lpn db ((k, ch) :: cs)).map (fun x => (x.r.out ++ x.r.rest.map .old, x.r.log)) =
      LeafUpd.runWorker sepf db ((k, ch) :: cs) := by
  unfold leafWorker LeafUpd.runWorker
  simp only []
  have h := runChangesT_erase sepf lpn ((k, ch) :: cs) (resetToT lpn k { r := { rest := db } })
  rw [resetToT_r] at h
  cases h1 : runChangesT sepf lpn ((k, ch) :: cs) (resetToT lpn k { r := { rest := db } }) with
  | none => rw [h1] at h; simp only [Option.map_none] at h; rw [← h]; rfl
  | some x1 =>
    rw [h1] at h; simp only [Option.map_some] at h; rw [← h]
    simp only []
    have h2 := finishLoopT_erase sepf lpn (x1.r.rest.length + 1) x1
    cases h3 : finishLoopT sepf lpn (x1.r.rest.length + 1) x1 with
    | none => rw [h3] at h2; simp only [Option.map_none] at h2; rw [← h2]; rfl
    | some x2 => rw [h3] at h2; simp only [Option.map_some] at h2; rw [← h2]; rfl

/-! ## bookkeeping -/

def oldsOf : List (OutLeaf V) → List (DbLeaf V)
  | [] => []
  | .old l :: t => l :: oldsOf t
  | .new _ :: t => oldsOf t

def newsOf : List (OutLeaf V) → List (Leaf V)
  | [] => []
  | .old _ :: t => newsOf t
  | .new l :: t => l :: newsOf t

theorem oldsOf_append (a b : List (OutLeaf V)) : oldsOf (a ++ b) = oldsOf a ++ oldsOf b := by
  induction a with
  | nil => rfl
  | cons x t ih => cases x <;> simp [oldsOf, ih]
theorem newsOf_append (a b : List (OutLeaf V)) : newsOf (a ++ b) = newsOf a ++ newsOf b := by
  induction a with
  | nil => rfl
  | cons x t ih => cases x <;> simp [newsOf, ih]
theorem oldsOf_old (l : List (DbLeaf V)) : oldsOf (l.map OutLeaf.old) = l := by
  induction l with
  | nil => rfl
  | cons x t ih => simp [oldsOf, ih]
theorem newsOf_old (l : List (DbLeaf V)) : newsOf (l.map OutLeaf.old) = [] := by
  induction l with
  | nil => rfl
  | cons x t ih => simp [newsOf, ih]
theorem oldsOf_new (l : List (Leaf V)) : oldsOf (l.map OutLeaf.new) = [] := by
  induction l with
  | nil => rfl
  | cons x t ih => simp [oldsOf, ih]
theorem newsOf_new (l : List (Leaf V)) : newsOf (l.map OutLeaf.new) = l := by
  induction l with
  | nil => rfl
  | cons x t ih => simp [newsOf, ih]

/-- the `delete` calls: (key, page number) -/
def delsOf {N : Type} : List (Ev N) → List (Nat × Nat)
  | [] => []
  | .del k pn _ :: t => (k, pn) :: delsOf t
  | .ins _ _ _ :: t => delsOf t

/-- the `insert` calls: (key, node) -/
def insOf {N : Type} : List (Ev N) → List (Nat × N)
  | [] => []
  | .del _ _ _ :: t => insOf t
  | .ins k n _ :: t => (k, n) :: insOf t

theorem delsOf_append {N : Type} (a b : List (Ev N)) : delsOf (a ++ b) = delsOf a ++ delsOf b := by
  induction a with
  | nil => rfl
  | cons x t ih => cases x <;> simp [delsOf, ih]
theorem insOf_append {N : Type} (a b : List (Ev N)) : insOf (a ++ b) = insOf a ++ insOf b := by
  induction a with
  | nil => rfl
  | cons x t ih => cases x <;> simp [insOf, ih]
theorem delsOf_ins (l : List (Leaf V)) : delsOf (l.map fun l => Ev.ins l.sep l l.cutoff) = [] := by
  induction l with
  | nil => rfl
  | cons x t ih => simp [delsOf, ih]
theorem insOf_ins (l : List (Leaf V)) : insOf (l.map fun l => Ev.ins l.sep l l.cutoff) = l.map fun l => (l.sep, l) := by
  induction l with
  | nil => rfl
  | cons x t ih => simp [insOf, ih]

theorem skipTo_append (key : Nat) : ∀ l : List (DbLeaf V), (LeafUpd.skipTo key l).1 ++ (LeafUpd.skipTo key l).2 = l
  | [] => rfl
  | [a] => rfl
  | a :: b :: rest => by
    unfold LeafUpd.skipTo
    by_cases h : b.sep ≤ key
    · simp only [h, if_true, List.cons_append]
      rw [skipTo_append key (b :: rest)]
    · simp [h]

/-- bookkeeping invariant of the instrumented run relative to the old level `db` -/
structure Book (lpn : Nat → Nat) (db : List (DbLeaf V)) (x : LRun V) : Prop where
  dels : ∃ consumed : List (DbLeaf V), delsOf x.evs = consumed.map (fun l => (l.sep, lpn l.sep)) ∧
    (consumed ++ (oldsOf x.r.out ++ x.r.rest)).Perm db
  ins : insOf x.evs = (newsOf x.r.out).map fun l => (l.sep, l)

theorem Book.resetToT {lpn : Nat → Nat} {db : List (DbLeaf V)} {x : LRun V} (h : Book lpn db x) (key : Nat) :
    Book lpn db (resetToT lpn key x) := by
  obtain ⟨⟨consumed, h1, h2⟩, h3⟩ := h
  have happ := skipTo_append key x.r.rest
  unfold StageGlue.resetToT LeafUpd.resetTo
  cases hsk : LeafUpd.skipTo key x.r.rest with
  | mk skipped tl =>
    rw [hsk] at happ
    simp only at happ
    cases tl with
    | nil => exact ⟨⟨consumed, h1, h2⟩, h3⟩
    | cons l rest' =>
      simp only []
      refine ⟨⟨consumed ++ [l], ?_, ?_⟩, ?_⟩
      · simp [delsOf_append, delsOf, h1]
      · simp only [oldsOf_append, oldsOf_old]
        refine List.Perm.trans ?_ h2
        rw [← happ]
        simp only [List.append_assoc]
        refine List.Perm.append_left _ ?_
        -- [l] ++ (olds ++ (skipped ++ rest'))  ~  olds ++ (skipped ++ l :: rest')
        refine List.Perm.trans (List.perm_append_comm_assoc _ _ _) ?_
        refine List.Perm.append_left _ ?_
        simpa using (List.perm_middle (a := l) (l₁ := skipped) (l₂ := rest')).symm
      · simp [insOf_append, insOf, h3, newsOf_append, newsOf_old]

theorem Book.afterDigest {lpn : Nat → Nat} {db : List (DbLeaf V)} {x : LRun V} (h : Book lpn db x)
    (st' : LeafUpd.St V) (leaves : List (Leaf V)) : Book lpn db (afterDigest x st' leaves) := by
  obtain ⟨⟨consumed, h1, h2⟩, h3⟩ := h
  refine ⟨⟨consumed, ?_, ?_⟩, ?_⟩
  · simp [StageGlue.afterDigest, delsOf_append, delsOf_ins, h1]
  · simpa [StageGlue.afterDigest, oldsOf_append, oldsOf_new] using h2
  · simp [StageGlue.afterDigest, insOf_append, insOf_ins, h3, newsOf_append, newsOf_new]

theorem scopeLoopT_book {lpn : Nat → Nat} {db : List (DbLeaf V)} (sepf : Nat → Nat → Option Nat) (key : Nat) :
    ∀ (fuel : Nat) (x x' : LRun V), Book lpn db x → scopeLoopT sepf lpn key fuel x = some x' → Book lpn db x'
  | 0, _, _, _, h => by simp [scopeLoopT] at h
  | fuel + 1, x, x', hb, h => by
    unfold scopeLoopT at h
    by_cases hs : LeafUpd.inScope x.r.st key
    · simp only [hs, if_true, Option.some.injEq] at h; subst h; exact hb
    · simp only [hs, Bool.false_eq_true, if_false] at h
      cases hd : LeafUpd.digest sepf x.r.st with
      | none => rw [hd] at h; cases h
      | some t =>
        obtain ⟨st', leaves, res⟩ := t
        rw [hd] at h
        exact scopeLoopT_book sepf key fuel _ x' ((hb.afterDigest st' leaves).resetToT _) h

theorem runChangesT_book {lpn : Nat → Nat} {db : List (DbLeaf V)} (sepf : Nat → Nat → Option Nat) :
    ∀ (cs : List (Nat × Option (V × Bool))) (x x' : LRun V), Book lpn db x → runChangesT sepf lpn cs x = some x' →
      Book lpn db x'
  | [], x, x', hb, h => by simp only [runChangesT, Option.some.injEq] at h; subst h; exact hb
  | (key, ch) :: cs, x, x', hb, h => by
    unfold runChangesT at h
    cases h1 : scopeLoopT sepf lpn key (x.r.rest.length + 1) x with
    | none => rw [h1] at h; cases h
    | some x1 =>
      rw [h1] at h
      have hb1 := scopeLoopT_book sepf key _ x x1 hb h1
      refine runChangesT_book sepf cs _ x' ?_ h
      exact ⟨hb1.dels, hb1.ins⟩

theorem finishLoopT_book {lpn : Nat → Nat} {db : List (DbLeaf V)} (sepf : Nat → Nat → Option Nat) :
    ∀ (fuel : Nat) (x x' : LRun V), Book lpn db x → finishLoopT sepf lpn fuel x = some x' → Book lpn db x'
  | 0, _, _, _, h => by simp [finishLoopT] at h
  | fuel + 1, x, x', hb, h => by
    unfold finishLoopT at h
    cases hd : LeafUpd.digest sepf x.r.st with
    | none => rw [hd] at h; cases h
    | some t =>
      obtain ⟨st', leaves, res⟩ := t
      rw [hd] at h
      cases res with
      | finished => simp only [Option.some.injEq] at h; subst h; exact hb.afterDigest st' leaves
      | needsMerge c => exact finishLoopT_book sepf fuel _ x' ((hb.afterDigest st' leaves).resetToT _) h

/-- **bookkeeping of the whole worker** -/
theorem leafWorker_book (sepf : Nat → Nat → Option Nat) (lpn : Nat → Nat) (db : List (DbLeaf V))
    (cs : List (Nat × Option (V × Bool))) (x : LRun V) (h : leafWorker sepf lpn db cs = some x) : Book lpn db x := by
  unfold leafWorker at h
  cases cs with
  | nil => cases h
  | cons c cs' =>
    obtain ⟨k, ch⟩ := c
    simp only [] at h
    have h0 : Book lpn db ({ r := { rest := db } } : LRun V) :=
      ⟨⟨[], rfl, by simp [oldsOf]⟩, rfl⟩
    cases h1 : runChangesT sepf lpn ((k, ch) :: cs') (resetToT lpn k { r := { rest := db } }) with
    | none => rw [h1] at h; cases h
    | some x1 =>
      rw [h1] at h
      exact finishLoopT_book sepf _ x1 x (runChangesT_book sepf _ _ x1 (h0.resetToT k) h1) h

end Nomt.StageGlue
