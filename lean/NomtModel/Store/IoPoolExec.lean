import NomtModel.Store.IoPoolModel
/-!
# `IoKind::get_result` and `unix.rs::execute`: verdict table, totality, the bound on the number of syscalls
-/
namespace Nomt.IoPool

theorem getResult_ok_iff (isRead : Bool) (res : Int) (errno : Nat) :
    getResult isRead res errno = .ok ↔ (res = 4096 ∨ (isRead = true ∧ res = 0)) := by
  by_cases h1 : isRead = true <;> by_cases h0 : res = 0 <;> by_cases h2 : res = 4096 <;> by_cases h3 : res = -1 <;>
    by_cases h4 : errno = EINTR <;> simp [getResult, PAGE_SIZE, h1, h0, h2, h3, h4] <;> omega

theorem getResult_err_iff (isRead : Bool) (res : Int) (errno : Nat) :
    getResult isRead res errno = .err ↔ (res = -1 ∧ errno ≠ EINTR) := by
  by_cases h1 : isRead = true <;> by_cases h0 : res = 0 <;> by_cases h2 : res = 4096 <;> by_cases h3 : res = -1 <;>
    by_cases h4 : errno = EINTR <;> simp [getResult, PAGE_SIZE, h1, h0, h2, h3, h4] <;> omega

theorem getResult_retry_iff (isRead : Bool) (res : Int) (errno : Nat) :
    getResult isRead res errno = .retry ↔
      ((res = -1 ∧ errno = EINTR) ∨ (res ≠ -1 ∧ res ≠ 4096 ∧ ¬ (isRead = true ∧ res = 0))) := by
  by_cases h1 : isRead = true <;> by_cases h0 : res = 0 <;> by_cases h2 : res = 4096 <;> by_cases h3 : res = -1 <;>
    by_cases h4 : errno = EINTR <;> simp [getResult, PAGE_SIZE, h1, h0, h2, h3, h4] <;> omega

/-- verdict of the `i`-th syscall of `execute` -/
def verd (isRead : Bool) (k : Nat → Int × Nat) (i : Nat) : Verdict := getResult isRead (k i).1 (k i).2

/-- what `execute` returns when its `n`-th syscall is the last one -/
def ExecFinal (isRead : Bool) (k : Nat → Int × Nat) (r : IoRes) (n : Nat) : Prop :=
  match verd isRead k (n - 1) with
  | .ok => r = .ok
  | .err => r = .os (k (n - 1)).2
  | .retry => n = MAX_IO_ATTEMPTS ∧ r = .short

theorem executeLoop_spec (isRead : Bool) (k : Nat → Int × Nat) :
    ∀ fuel a, a < MAX_IO_ATTEMPTS → MAX_IO_ATTEMPTS ≤ fuel + a →
      ∃ r n, executeLoop true isRead k fuel a = some (r, n) ∧ a < n ∧ n ≤ MAX_IO_ATTEMPTS ∧
        (∀ i, a ≤ i → i + 1 < n → verd isRead k i = .retry) ∧ ExecFinal isRead k r n := by
  intro fuel
  induction fuel with
  | zero => intro a h1 h2; omega
  | succ fuel ih =>
    intro a h1 h2
    unfold executeLoop
    cases hv : getResult isRead (k a).1 (k a).2 with
    | ok =>
      refine ⟨.ok, a + 1, rfl, by omega, by omega, ?_, ?_⟩
      · intro i h3 h4; omega
      · simp [ExecFinal, verd, hv]
    | err =>
      refine ⟨.os (k a).2, a + 1, rfl, by omega, by omega, ?_, ?_⟩
      · intro i h3 h4; omega
      · simp [ExecFinal, verd, hv]
    | retry =>
      by_cases hb : a + 1 ≥ MAX_IO_ATTEMPTS
      · refine ⟨.short, a + 1, by simp [hb], by omega, by omega, ?_, ?_⟩
        · intro i h3 h4; omega
        · simp [ExecFinal, verd, hv]; omega
      · obtain ⟨r, n, e, h3, h4, h5, h6⟩ := ih (a + 1) (by omega) (by omega)
        refine ⟨r, n, by simp [hb, e], by omega, h4, ?_, h6⟩
        intro i h7 h8
        by_cases hi : i = a
        · subst hi; exact hv
        · exact h5 i (by omega) h8

/-- the loop before the F24 repair on a transfer that stays short never returns, whatever the fuel -/
theorem executeLoop_unbounded_short (isRead : Bool) :
    ∀ fuel a, executeLoop false isRead (fun _ => (1000, 0)) fuel a = none := by
  intro fuel
  induction fuel with
  | zero => intro a; rfl
  | succ fuel ih =>
    intro a
    unfold executeLoop
    have : getResult isRead (1000 : Int) 0 = .retry := by
      simp [getResult, PAGE_SIZE]
    simp [this, ih]

end Nomt.IoPool
