import NomtModel.Store.LeafRt
import NomtModel.Core.Outcome
/-!
# `LeafBuilder::{new, push_cell, push_chunk, finish}` on a page given as a byte list

Byte-level mirror of `nomt/src/beatree/leaf/node.rs` (same order of checks; every `assert!`, slice bound,
`usize` / `u16` underflow or overflow is an `Outcome.panic`; arithmetic is the checked (debug) one).
The page is a `List UInt8` of length `PAGE`; `splice` is `dst[o..][..xs.len()].copy_from_slice(xs)`.
`PcMut` switches on one of the one-line mistakes used for the kernel-checked counterexamples
(`PcMut.none` = the code as it is).
-/
namespace Nomt.Store
open Nomt (Outcome)

/-- `u16::from_le_bytes(l[o..o+2])` -/
def rd16 (l : List UInt8) (o : Nat) : Nat := (l.getD o 0).toNat + 256 * (l.getD (o + 1) 0).toNat
/-- `l[a..b]` -/
def bslice (l : List UInt8) (a b : Nat) : List UInt8 := (l.drop a).take (b - a)
/-- `l[o..][..xs.len()].copy_from_slice(xs)` -/
def splice (l : List UInt8) (o : Nat) (xs : List UInt8) : List UInt8 := l.take o ++ (xs ++ l.drop (o + xs.length))

structure LeafB where
  page : List UInt8
  index : Nat
  rem : Nat

inductive PcMut where
  | none | wrongSign | dropOverflow | headerOff
deriving DecidableEq

/-- `LeafBuilder::new(pool, n, total_value_size)`; `pool` = what the allocated page held -/
def lbNew (pool : List UInt8) (n total : Nat) : LeafB :=
  ⟨splice pool 0 (le16 (n % 65536)), 0, total⟩

/-- `LeafBuilder::push_cell(key, value, overflow)` -/
def lbPush (b : LeafB) (key value : List UInt8) (ov : Bool) : Outcome Unit LeafB :=
  if ¬ (b.index < rd16 b.page 0) then .panic "assert index < n" else
  if b.rem > PAGE then .panic "PAGE_SIZE - remaining_value_size underflow" else
  if ¬ (rd16 b.page 0 * 34 < LEAF_NODE_BODY_SIZE) then .panic "cell_pointers_mut assert" else
  if ¬ (PAGE - b.rem < 65536) then .panic "u16::try_from(offset)" else
  if ¬ (PAGE - b.rem < 32768) then .panic "assert val < OVERFLOW_BIT" else
  if PAGE - b.rem + value.length > b.page.length then .panic "inner[offset..][..value.len()]" else
  if b.rem < value.length then .panic "remaining_value_size underflow" else
  .ok ⟨splice (splice b.page (2 + 34 * b.index) (key ++ le16 (PAGE - b.rem + (if ov then 32768 else 0))))
        (PAGE - b.rem) value, b.index + 1, b.rem - value.length⟩

/-- the loop `for cell in &mut cell_pointers_mut()[index..index + n_items]` of `push_chunk`, on the copied
block of `k` cell pointers: `cell_pointer_offset ± difference` on the raw u16 (overflow bit included) -/
def lbRebase (m : PcMut) (pos : Bool) (d : Nat) : Nat → List UInt8 → Outcome Unit (List UInt8)
  | 0, _ => .ok []
  | k + 1, l =>
    let v := if m = .dropOverflow then rd16 l 32 % 32768 else rd16 l 32
    if (if m = .wrongSign then !pos else pos) then
      if v + d ≥ 65536 then .panic "cell_pointer_offset += difference overflow" else
      match lbRebase m pos d k (l.drop 34) with
      | .ok r => .ok (l.take 32 ++ (le16 (v + d) ++ r))
      | .err e => .err e
      | .panic s => .panic s
    else
      if v < d then .panic "cell_pointer_offset -= difference underflow" else
      match lbRebase m pos d k (l.drop 34) with
      | .ok r => .ok (l.take 32 ++ (le16 (v - d) ++ r))
      | .err e => .err e
      | .panic s => .panic s

/-- `base_node.value_range(cps, from).0.start` -/
def lbVStart (base : List UInt8) (from_ : Nat) : Nat := rd16 base (2 + 34 * from_ + 32) % 32768
/-- `base_node.value_range(cps, to - 1).0.end` (`to - 1 == len - 1` ⇒ `PAGE_SIZE`) -/
def lbVEnd (base : List UInt8) (to : Nat) : Nat :=
  if to = rd16 base 0 then PAGE else rd16 base (2 + 34 * to + 32) % 32768
/-- the subtrahend of `difference = offset - value_range_start` (`headerOff`: two bytes less) -/
def lbDiffBase (m : PcMut) (base : List UInt8) (from_ : Nat) : Nat :=
  if m = .headerOff then lbVStart base from_ - 2 else lbVStart base from_
/-- the copied and rebased cell pointers: `if difference != 0 { for cell … }` -/
def lbCps (m : PcMut) (b : LeafB) (base : List UInt8) (from_ to : Nat) : Outcome Unit (List UInt8) :=
  if PAGE - b.rem = lbDiffBase m base from_ then .ok (bslice base (2 + 34 * from_) (2 + 34 * to))
  else lbRebase m (decide (PAGE - b.rem > lbDiffBase m base from_))
    (if PAGE - b.rem > lbDiffBase m base from_ then PAGE - b.rem - lbDiffBase m base from_
     else lbDiffBase m base from_ - (PAGE - b.rem))
    (to - from_) (bslice base (2 + 34 * from_) (2 + 34 * to))

/-- `LeafBuilder::push_chunk(base_node, from, to)`.  The copy of the cell pointers followed by the in-place
rebase loop is one `splice` of the rebased block (a panic in the loop discards the page anyway).
`difference.abs()` always fits a u16 (`offset ≤ 4096`, `value_range_start < 32768`), so that `unwrap` has no
panic value here. -/
def lbPushChunk (m : PcMut) (b : LeafB) (base : List UInt8) (from_ to : Nat) : Outcome Unit LeafB :=
  if ¬ (b.index < rd16 b.page 0) then .panic "assert index < n" else
  if to < from_ then .panic "to - from underflow" else
  if ¬ (rd16 base 0 * 34 < LEAF_NODE_BODY_SIZE) then .panic "base cell_pointers assert" else
  if ¬ (rd16 b.page 0 * 34 < LEAF_NODE_BODY_SIZE) then .panic "cell_pointers_mut assert" else
  if b.index + (to - from_) > rd16 b.page 0 then .panic "cell_pointers_mut()[index..index + n_items]" else
  if to > rd16 base 0 then .panic "base_node_cell_pointers[from..to]" else
  if b.rem > PAGE then .panic "PAGE_SIZE - remaining_value_size underflow" else
  if ¬ (from_ < rd16 base 0) then .panic "cell_offset: cell_pointers[from]" else
  if to = 0 then .panic "to - 1 underflow" else
  match lbCps m b base from_ to with
  | .err e => .err e
  | .panic s => .panic s
  | .ok cps =>
    if lbVStart base from_ > lbVEnd base to then .panic "base_node.inner[start..end]: start > end" else
    if lbVEnd base to > base.length then .panic "base_node.inner[start..end]: end > len" else
    if PAGE - b.rem + (bslice base (lbVStart base from_) (lbVEnd base to)).length > b.page.length then
      .panic "inner[offset..][..values.len()]" else
    if b.rem < (bslice base (lbVStart base from_) (lbVEnd base to)).length then
      .panic "remaining_value_size underflow" else
    .ok ⟨splice (splice b.page (2 + 34 * b.index) cps) (PAGE - b.rem)
           (bslice base (lbVStart base from_) (lbVEnd base to)),
         b.index + (to - from_), b.rem - (bslice base (lbVStart base from_) (lbVEnd base to)).length⟩

/-- `LeafBuilder::finish` -/
def lbFinish (b : LeafB) : Outcome Unit (List UInt8) :=
  if b.rem ≠ 0 then .panic "assert remaining_value_size == 0" else .ok b.page

/-- `for e in ch { push_cell(e.key, e.cell, e.overflow) }` -/
def lbPushMany (b : LeafB) : List LeafEntry → Outcome Unit LeafB
  | [] => .ok b
  | e :: r =>
    match lbPush b e.key.data.toList e.cell.data.toList e.overflow with
    | .ok b' => lbPushMany b' r
    | .err x => .err x
    | .panic s => .panic s

/-! ## bytes -/

theorem rd16_eq (l : List UInt8) (o : Nat) : rd16 l o = u16le l.toByteArray o := by
  simp [rd16, u16le, u8_toByteArray]

theorem rd16_append_right (a b : List UInt8) (i : Nat) : rd16 (a ++ b) (a.length + i) = rd16 b i := by
  rw [rd16_eq, rd16_eq, u16le_append_right]

theorem rd16_le16 (n : Nat) (r : List UInt8) (h : n < 65536) : rd16 (le16 n ++ r) 0 = n := by
  rw [rd16_eq, u16le_le16 _ _ h]

theorem splice_append (A R xs : List UInt8) (o : Nat) (ho : o = A.length) :
    splice (A ++ R) o xs = A ++ (xs ++ R.drop xs.length) := by
  subst ho
  simp [splice, List.drop_append]

theorem bslice_mid (X Y Z : List UInt8) (a b : Nat) (ha : a = X.length) (hb : b = X.length + Y.length) :
    bslice (X ++ (Y ++ Z)) a b = Y := by
  subst ha; subst hb
  simp [bslice]

/-! ## pieces of an encoded leaf -/

theorem leafPtrsL_append : ∀ (a c : List LeafEntry) (off : Nat),
    leafPtrsL (a ++ c) off = leafPtrsL a off ++ leafPtrsL c (off + leafTotal a) := by
  intro a
  induction a with
  | nil => intro c off; simp [leafPtrsL, leafTotal]
  | cons e r ih =>
    intro c off
    simp only [List.cons_append, leafPtrsL, leafTotal, ih, List.append_assoc, Nat.add_assoc]

theorem leafCellsL_append : ∀ (a c : List LeafEntry), leafCellsL (a ++ c) = leafCellsL a ++ leafCellsL c := by
  intro a
  induction a with
  | nil => intro c; rfl
  | cons e r ih => intro c; simp only [List.cons_append, leafCellsL, ih, List.append_assoc]

theorem leafTotal_append : ∀ (a c : List LeafEntry), leafTotal (a ++ c) = leafTotal a + leafTotal c := by
  intro a
  induction a with
  | nil => intro c; simp [leafTotal]
  | cons e r ih => intro c; simp only [List.cons_append, leafTotal, ih]; omega

end Nomt.Store
