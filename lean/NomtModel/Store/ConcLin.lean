import NomtModel.Store.ConcDisk
import NomtModel.Store.RecoverReal
/-!
# Linearisation of the concurrent disk machine

For every concurrent trace `ct` there is a SEQUENTIAL trace `lin d0 ct` of the model of `Store/Disk.lean`, made of the
effects begun in `ct` (each once) and of `Ev.fsync` events, such that `run ⟨d0, []⟩ (lin d0 ct)` has the same durable
disk and the same list of volatile effects — hence the same set of crash images — as the concurrent state
`crun (cinit d0) ct`.

Construction (`linDRun`): every completed fsync that makes a non-empty set `F` of effects durable contributes the block
`F ++ [fsync f]`, in order of completion; the still-volatile effects follow at the end in Begin order.  So an fsync
that does NOT cover an effect overlapping it is placed BEFORE that effect.  The theorem needs no well-formedness of `ct`.

The linearisation is per prefix: `lin d0 cp` of a prefix `cp` of `ct` is in general NOT a prefix of `lin d0 ct`
(with `x` covered and `a` overlapping, the concurrent state `(d, [x, a])` has the image `d ⊕ a`, which no prefix of
`x, fsync, a` has) — this is why the crash theorem for concurrent traces (`Props/C04_Order.lean`) quantifies over the
prefixes of the CONCURRENT trace.  The durable part `linDRun` only grows (`linDRun_append`).
-/
namespace NomtDisk
variable {Content MetaRec WalRec LogRec : Type}

/-- the effects an event makes durable (`none`: it makes nothing durable) -/
def flushedBy (s : CState Content MetaRec WalRec LogRec) :
    CEv Content MetaRec WalRec LogRec → Option (File × List (Eff Content MetaRec WalRec LogRec))
  | .fsyncEnd tid f =>
    match takeCSync f tid s.syncs with
    | none => none
    | some (cov, _) => some (f, (s.vol.filter (covered f cov)).map (·.eff))
  | _ => none

/-- the block a completed fsync contributes to the durable part of the linearisation -/
def block (f : File) (F : List (Eff Content MetaRec WalRec LogRec)) : List (Ev Content MetaRec WalRec LogRec) :=
  if F.isEmpty then [] else F.map Ev.eff ++ [Ev.fsync f]

def linDStep (s : CState Content MetaRec WalRec LogRec) (ev : CEv Content MetaRec WalRec LogRec) :
    List (Ev Content MetaRec WalRec LogRec) :=
  match flushedBy s ev with
  | some (f, F) => block f F
  | none => []

/-- the durable part of the linearisation: what is appended to it along `ct`, started in state `s` -/
def linDRun : CState Content MetaRec WalRec LogRec → List (CEv Content MetaRec WalRec LogRec) →
    List (Ev Content MetaRec WalRec LogRec)
  | _, [] => []
  | s, ev :: rest => linDStep s ev ++ linDRun (cstep s ev) rest

/-- **the linearisation** of a concurrent trace started on the flushed disk `d0` -/
def lin (d0 : Disk Content MetaRec WalRec LogRec) (ct : List (CEv Content MetaRec WalRec LogRec)) :
    List (Ev Content MetaRec WalRec LogRec) :=
  linDRun (cinit d0) ct ++ (crun (cinit d0) ct).volEffs.map Ev.eff

theorem linDRun_append (s : CState Content MetaRec WalRec LogRec) (a b : List (CEv Content MetaRec WalRec LogRec)) :
    linDRun s (a ++ b) = linDRun s a ++ linDRun (crun s a) b := by
  induction a generalizing s with
  | nil => rfl
  | cons ev a ih => simp only [List.cons_append, linDRun, ih, List.append_assoc, crun_cons]

/-! ## Sequential runs of pure effect lists and of blocks -/

theorem step_fsync_all (d : Disk Content MetaRec WalRec LogRec) (F : List (Eff Content MetaRec WalRec LogRec)) (f : File)
    (h : ∀ e ∈ F, e.file = f) : step ⟨d, F⟩ (Ev.fsync f) = ⟨applyEffs d F, []⟩ := by
  have h1 : F.filter (fun e => decide (e.file = f)) = F := by
    rw [List.filter_eq_self]; intro e he; simp [h e he]
  have h2 : F.filter (fun e => decide (e.file ≠ f)) = [] := by
    rw [List.filter_eq_nil_iff]; intro e he; simp [h e he]
  simp only [step, h1, h2]

theorem run_block (d : Disk Content MetaRec WalRec LogRec) (F : List (Eff Content MetaRec WalRec LogRec)) (f : File)
    (h : ∀ e ∈ F, e.file = f) : run ⟨d, []⟩ (block f F) = ⟨applyEffs d F, []⟩ := by
  unfold block
  cases F with
  | nil => rfl
  | cons e F =>
    simp only [List.isEmpty_cons, Bool.false_eq_true, if_false]
    rw [run_append, run_effs]
    simp only [List.nil_append, run, List.foldl_cons, List.foldl_nil]
    exact step_fsync_all d (e :: F) f h

theorem flushedBy_file (s : CState Content MetaRec WalRec LogRec) (ev : CEv Content MetaRec WalRec LogRec)
    (f : File) (F : List (Eff Content MetaRec WalRec LogRec)) (h : flushedBy s ev = some (f, F)) :
    ∀ e ∈ F, e.file = f := by
  cases ev with
  | fsyncEnd tid f' =>
    simp only [flushedBy] at h
    cases ht : takeCSync f' tid s.syncs with
    | none => rw [ht] at h; cases h
    | some x =>
      obtain ⟨cov, rest⟩ := x
      rw [ht] at h
      simp only [Option.some.injEq, Prod.mk.injEq] at h
      obtain ⟨rfl, rfl⟩ := h
      intro e he
      obtain ⟨v, hv, rfl⟩ := List.mem_map.mp he
      have := (List.mem_filter.mp hv).2
      simp only [covered, Bool.and_eq_true, decide_eq_true_eq] at this
      exact this.1
  | effBegin _ _ => cases h
  | effEnd _ => cases h
  | fsyncBegin _ _ => cases h

/-- the durable disk after a step -/
theorem cstep_dur (s : CState Content MetaRec WalRec LogRec) (ev : CEv Content MetaRec WalRec LogRec) :
    (cstep s ev).dur = match flushedBy s ev with
      | some (_, F) => applyEffs s.dur F
      | none => s.dur := by
  cases ev with
  | fsyncEnd tid f =>
    simp only [cstep, flushedBy]
    cases takeCSync f tid s.syncs with
    | none => rfl
    | some x => rfl
  | effBegin _ _ => rfl
  | effEnd _ => rfl
  | fsyncBegin _ _ => rfl

theorem run_linDStep (s : CState Content MetaRec WalRec LogRec) (ev : CEv Content MetaRec WalRec LogRec) :
    run ⟨s.dur, []⟩ (linDStep s ev) = ⟨(cstep s ev).dur, []⟩ := by
  rw [cstep_dur]
  unfold linDStep
  cases h : flushedBy s ev with
  | none => rfl
  | some x =>
    obtain ⟨f, F⟩ := x
    exact run_block s.dur F f (flushedBy_file s ev f F h)

/-- the durable part of the linearisation reaches the durable disk of the concurrent state, everything flushed -/
theorem run_linDRun (s : CState Content MetaRec WalRec LogRec) (ct : List (CEv Content MetaRec WalRec LogRec)) :
    run ⟨s.dur, []⟩ (linDRun s ct) = ⟨(crun s ct).dur, []⟩ := by
  induction ct generalizing s with
  | nil => rfl
  | cons ev ct ih =>
    simp only [linDRun, crun_cons]
    rw [run_append, run_linDStep, ih]

/-- **Linearisation theorem**: the sequential run of `lin d0 ct` has the same durable disk and the same volatile
effect list as the concurrent run of `ct`. -/
theorem run_lin (d0 : Disk Content MetaRec WalRec LogRec) (ct : List (CEv Content MetaRec WalRec LogRec)) :
    run ⟨d0, []⟩ (lin d0 ct) = (crun (cinit d0) ct).toExec := by
  unfold lin
  rw [run_append]
  have := run_linDRun (cinit d0) ct
  simp only [cinit] at this ⊢
  rw [this, run_effs]
  simp [CState.toExec]

/-- … hence the same set of crash images -/
theorem isCImage_lin (d0 : Disk Content MetaRec WalRec LogRec) (ct : List (CEv Content MetaRec WalRec LogRec))
    (img : Disk Content MetaRec WalRec LogRec) :
    IsCImage (crun (cinit d0) ct) img ↔ IsImage (run ⟨d0, []⟩ (lin d0 ct)) img := by
  rw [run_lin]; exact Iff.rfl

/-! ## The linearisation is made of the effects begun in the concurrent trace, each once -/

def begun (ct : List (CEv Content MetaRec WalRec LogRec)) : List (Eff Content MetaRec WalRec LogRec) :=
  ct.filterMap (fun ev => match ev with | .effBegin _ e => some e | _ => none)

theorem effsOf_append (a b : List (Ev Content MetaRec WalRec LogRec)) : effsOf (a ++ b) = effsOf a ++ effsOf b := by
  simp [effsOf, List.filterMap_append]

theorem effsOf_effs (es : List (Eff Content MetaRec WalRec LogRec)) :
    effsOf (es.map (Ev.eff (Content := Content) (MetaRec := MetaRec) (WalRec := WalRec) (LogRec := LogRec))) = es := by
  induction es with
  | nil => rfl
  | cons e es ih => simp only [effsOf, List.map_cons, List.filterMap_cons] at ih ⊢; rw [ih]

theorem effsOf_block (f : File) (F : List (Eff Content MetaRec WalRec LogRec)) : effsOf (block f F) = F := by
  unfold block
  cases F with
  | nil => rfl
  | cons e F =>
    simp only [List.isEmpty_cons, Bool.false_eq_true, if_false]
    rw [effsOf_append, effsOf_effs]
    simp [effsOf]

/-- one step: what becomes durable plus what stays volatile is what was volatile plus what begins -/
theorem step_perm (s : CState Content MetaRec WalRec LogRec) (ev : CEv Content MetaRec WalRec LogRec) :
    List.Perm (effsOf (linDStep s ev) ++ (cstep s ev).volEffs) (s.volEffs ++ begun [ev]) := by
  cases ev with
  | effBegin id e => simp [linDStep, flushedBy, effsOf, cstep, CState.volEffs, begun]
  | effEnd id => simp [linDStep, flushedBy, effsOf, cstep, CState.volEffs, begun, markEnded_effs]
  | fsyncBegin tid f => simp [linDStep, flushedBy, effsOf, cstep, CState.volEffs, begun]
  | fsyncEnd tid f =>
    simp only [linDStep, flushedBy, cstep, begun, List.filterMap_cons, List.filterMap_nil, List.append_nil]
    cases takeCSync f tid s.syncs with
    | none => simp [effsOf]
    | some x =>
      obtain ⟨cov, rest⟩ := x
      simp only [effsOf_block, flush, CState.volEffs]
      rw [← List.map_append]
      exact (List.filter_append_perm (covered f cov) s.vol).map _

theorem linDRun_perm (s : CState Content MetaRec WalRec LogRec) (ct : List (CEv Content MetaRec WalRec LogRec)) :
    List.Perm (effsOf (linDRun s ct) ++ (crun s ct).volEffs) (s.volEffs ++ begun ct) := by
  induction ct generalizing s with
  | nil => simp [linDRun, effsOf, begun, crun]
  | cons ev ct ih =>
    simp only [linDRun, crun_cons, effsOf_append, List.append_assoc]
    have h1 := ih (cstep s ev)
    have h2 := step_perm s ev
    have hb : begun (ev :: ct) = begun [ev] ++ begun ct := by
      simp [begun, List.filterMap_cons]
      cases ev <;> simp
    rw [hb]
    calc effsOf (linDStep s ev) ++ (effsOf (linDRun (cstep s ev) ct) ++ (crun (cstep s ev) ct).volEffs)
        _ |>.Perm (effsOf (linDStep s ev) ++ ((cstep s ev).volEffs ++ begun ct)) := List.Perm.append_left _ h1
        _ |>.Perm ((effsOf (linDStep s ev) ++ (cstep s ev).volEffs) ++ begun ct) := by rw [List.append_assoc]
        _ |>.Perm ((s.volEffs ++ begun [ev]) ++ begun ct) := List.Perm.append_right _ h2
        _ |>.Perm (s.volEffs ++ (begun [ev] ++ begun ct)) := by rw [List.append_assoc]

/-- **the effects of the linearisation are the effects begun in the concurrent trace, each once** -/
theorem lin_perm (d0 : Disk Content MetaRec WalRec LogRec) (ct : List (CEv Content MetaRec WalRec LogRec)) :
    List.Perm (effsOf (lin d0 ct)) (begun ct) := by
  have := linDRun_perm (cinit d0) ct
  simp only [lin, effsOf_append, effsOf_effs]
  simpa [cinit, CState.volEffs] using this

/-- consequently every per-effect predicate that holds for all effects begun in `ct` holds for all events of the
linearisation (in the form `EvA A` of `Store/CrashLog.lean`: fsyncs are unconstrained) -/
theorem lin_all (A : Eff Content MetaRec WalRec LogRec → Prop) (d0 : Disk Content MetaRec WalRec LogRec)
    (ct : List (CEv Content MetaRec WalRec LogRec)) (h : ∀ e ∈ begun ct, A e) : ∀ ev ∈ lin d0 ct, EvA A ev := by
  intro ev hev
  cases ev with
  | fsync f => trivial
  | eff e =>
    apply h
    apply (lin_perm d0 ct).subset
    simp only [effsOf, List.mem_filterMap]
    exact ⟨_, hev, rfl⟩

/-! ## Started in a state with pending effects

An operation does not start on a flushed disk: the previous sync leaves the truncation of the WAL un-synced.  The
linearisation from an arbitrary concurrent state `s` is a sequential trace run from the FLUSHED state `⟨s.dur, []⟩`: the
effects pending in `s` appear in it where they become durable, or in the tail. -/

def linFrom (s : CState Content MetaRec WalRec LogRec) (ct : List (CEv Content MetaRec WalRec LogRec)) :
    List (Ev Content MetaRec WalRec LogRec) :=
  linDRun s ct ++ (crun s ct).volEffs.map Ev.eff

theorem lin_eq_linFrom (d0 : Disk Content MetaRec WalRec LogRec) (ct : List (CEv Content MetaRec WalRec LogRec)) :
    lin d0 ct = linFrom (cinit d0) ct := rfl

theorem run_linFrom (s : CState Content MetaRec WalRec LogRec) (ct : List (CEv Content MetaRec WalRec LogRec)) :
    run ⟨s.dur, []⟩ (linFrom s ct) = (crun s ct).toExec := by
  unfold linFrom
  rw [run_append, run_linDRun, run_effs]
  simp [CState.toExec]

theorem isCImage_linFrom (s : CState Content MetaRec WalRec LogRec) (ct : List (CEv Content MetaRec WalRec LogRec))
    (img : Disk Content MetaRec WalRec LogRec) :
    IsCImage (crun s ct) img ↔ IsImage (run ⟨s.dur, []⟩ (linFrom s ct)) img := by
  rw [run_linFrom]; exact Iff.rfl

theorem linFrom_perm (s : CState Content MetaRec WalRec LogRec) (ct : List (CEv Content MetaRec WalRec LogRec)) :
    List.Perm (effsOf (linFrom s ct)) (s.volEffs ++ begun ct) := by
  have := linDRun_perm s ct
  simpa only [linFrom, effsOf_append, effsOf_effs] using this

theorem linFrom_all (A : Eff Content MetaRec WalRec LogRec → Prop) (s : CState Content MetaRec WalRec LogRec)
    (ct : List (CEv Content MetaRec WalRec LogRec)) (h0 : ∀ e ∈ s.volEffs, A e) (h : ∀ e ∈ begun ct, A e) :
    ∀ ev ∈ linFrom s ct, EvA A ev := by
  intro ev hev
  cases ev with
  | fsync f => trivial
  | eff e =>
    have : e ∈ s.volEffs ++ begun ct := by
      apply (linFrom_perm s ct).subset
      simp only [effsOf, List.mem_filterMap]
      exact ⟨_, hev, rfl⟩
    rcases List.mem_append.mp this with h1 | h1
    · exact h0 e h1
    · exact h e h1

/-! ## Order: the volatile effects are always in Begin order

Every block of the linearisation is a sub-list of the volatile list at the time of the flush and the tail is the
volatile list itself, so inside a block and inside the tail the effects appear in Begin order.  Two effects of one file
appear in `lin` against their Begin order only if an fsync made the LATER one durable while the EARLIER one, still in
flight when that fsync began, stayed volatile — two overlapping writes, whose relative order on the medium is not
determined by the trace anyway when they touch the same page, and which commute otherwise (`applyEff_comm`). -/

theorem cstep_volEffs_sublist (s : CState Content MetaRec WalRec LogRec) (ev : CEv Content MetaRec WalRec LogRec) :
    List.Sublist (cstep s ev).volEffs (s.volEffs ++ begun [ev]) := by
  cases ev with
  | effBegin id e => simp [cstep, CState.volEffs, begun]
  | effEnd id => simp [cstep, CState.volEffs, begun, markEnded_effs]
  | fsyncBegin tid f => simp [cstep, CState.volEffs, begun]
  | fsyncEnd tid f =>
    simp only [cstep, begun, List.filterMap_cons, List.filterMap_nil, List.append_nil]
    cases takeCSync f tid s.syncs with
    | none => exact List.Sublist.refl _
    | some x => exact (List.filter_sublist).map _

/-- the volatile effects of the concurrent state are a sub-list, in Begin order, of the effects begun -/
theorem volEffs_sublist_begun (s : CState Content MetaRec WalRec LogRec) (ct : List (CEv Content MetaRec WalRec LogRec)) :
    List.Sublist (crun s ct).volEffs (s.volEffs ++ begun ct) := by
  induction ct generalizing s with
  | nil => simp [crun, begun]
  | cons ev ct ih =>
    have hb : begun (ev :: ct) = begun [ev] ++ begun ct := by
      simp [begun, List.filterMap_cons]
      cases ev <;> simp
    rw [crun_cons, hb, ← List.append_assoc]
    exact (ih (cstep s ev)).trans ((cstep_volEffs_sublist s ev).append_right _)

end NomtDisk
