import NomtModel.Store.WalkerTreeRun2
/-!
# A whole script on the tree walker: the result

`tw_run_invB`: every step keeps the invariant.  `tw_conclude_spec`: `conclude` compacts up to the top; without a parent
page the store then represents `S'` at every meaningful slot (root included), with one the child-page roots are the
specified nodes.
-/
namespace Nomt.Walker
open Nomt Nomt.TriePos

variable {Node VH : Type} [DecidableEq Node] [DecidableEq VH] (H : Hasher Node VH) (D : Path → Prop)

theorem invB_weaken_todo {S S' : List (Key × VH)} {store0 : Store Node} {cfg : TWCfg Node}
    {done todo : List (Step VH)} {s : Step VH} {a : TW Node} (hnone : s.2.isSome = false)
    (h : InvB H D S S' store0 cfg done (s :: todo) a) : InvB H D S S' store0 cfg (done ++ [s]) todo a := by
  refine ⟨h.len, h.good, h.below, h.left, h.right, ?_, fun s' hs' => h.todoP s' (List.mem_cons_of_mem _ hs'),
    h.anc, h.logok, h.cprok, h.cprnil, h.onpath⟩
  intro s' hs' hsome
  rcases List.mem_append.mp hs' with h' | h'
  · exact h.doneP s' h' hsome
  · rw [List.mem_singleton] at h'; subst h'; rw [hnone] at hsome; cases hsome

/-- one step keeps the invariant -/
theorem invB_step (hs : H.Sound) {S S' : List (Key × VH)} (hS : KeysOK S) (hS' : KeysOK S')
    {done todo : List (Step VH)} {s : Step VH} (hso : ScriptOK S S' (done ++ s :: todo))
    (hDp : PathsIn D (done ++ s :: todo))
    {store0 : Store Node} (hrep : Rep0 H D S store0) (cfg : TWCfg Node) (a : TW Node)
    (hinv : InvB H D S S' store0 cfg done (s :: todo) a) :
    InvB H D S S' store0 cfg (done ++ [s]) todo (a.step H cfg s) := by
  obtain ⟨hc1, hc2⟩ := invB_compact H D hs hS' hso hrep cfg a hinv
  unfold TW.step
  cases hop : s.2 with
  | none =>
    simp only
    exact invB_weaken_todo H D (by rw [hop]; rfl) hc1
  | some ops =>
    simp only
    have hops := hso.repl s (by simp) ops hop
    unfold TW.advanceAndReplace
    rw [hops]
    exact invB_replace H D hs hS hS' hso cfg _ (preRep_of_invB H D hS hso hDp hrep cfg _ hc1 hc2)

theorem tw_run_invB (hs : H.Sound) {S S' : List (Key × VH)} (hS : KeysOK S) (hS' : KeysOK S')
    {store0 : Store Node} (hrep : Rep0 H D S store0) (cfg : TWCfg Node) :
    ∀ (todo done : List (Step VH)) (a : TW Node), ScriptOK S S' (done ++ todo) → PathsIn D (done ++ todo) →
      InvB H D S S' store0 cfg done todo a →
      InvB H D S S' store0 cfg (done ++ todo) [] (a.run H cfg todo) := by
  intro todo
  induction todo with
  | nil => intro done a _ _ h; simpa [TW.run] using h
  | cons s todo ih =>
    intro done a hso hDp h
    have := invB_step H D hs hS hS' hso hDp hrep cfg a h
    have hso' : ScriptOK S S' ((done ++ [s]) ++ todo) := by simpa using hso
    have hDp' : PathsIn D ((done ++ [s]) ++ todo) := by simpa using hDp
    have := ih (done ++ [s]) _ hso' hDp' this
    simpa [TW.run] using this

/-- the idle walker: nothing happened yet -/
structure Idle (store0 : Store Node) (cfg : TWCfg Node) (a : TW Node) : Prop where
  pos : a.pos.length ≤ cfg.top
  store : a.store = store0
  log : a.log = []
  cpr : a.cpr = []

theorem tw_compactUp_idle (cfg : TWCfg Node) (a : TW Node) (t : Option Path) (h : a.pos.length ≤ cfg.top) :
    a.compactUp H cfg t = a := by
  unfold TW.compactUp
  rw [if_pos (by unfold TW.stackEmpty; exact decide_eq_true h)]

/-- a run from the idle walker: it stays idle while the steps only `advance`, and the first replaced terminal
establishes the invariant -/
theorem tw_run_idle (hs : H.Sound) {S S' : List (Key × VH)} (hS : KeysOK S) (hS' : KeysOK S')
    {store0 : Store Node} (hrep : Rep0 H D S store0) (cfg : TWCfg Node) :
    ∀ (todo done : List (Step VH)) (a : TW Node), ScriptOK S S' (done ++ todo) → PathsIn D (done ++ todo) →
      Idle store0 cfg a → (∀ s ∈ done, s.2.isSome = false) →
      (Idle store0 cfg (a.run H cfg todo) ∧ ∀ s ∈ done ++ todo, s.2.isSome = false) ∨
      InvB H D S S' store0 cfg (done ++ todo) [] (a.run H cfg todo) := by
  intro todo
  induction todo with
  | nil =>
    intro done a _ _ hidle hdone
    left
    exact ⟨by simpa [TW.run] using hidle, by simpa using hdone⟩
  | cons s todo ih =>
    intro done a hso hDp hidle hdone
    have hso' : ScriptOK S S' ((done ++ [s]) ++ todo) := by simpa using hso
    have hDp' : PathsIn D ((done ++ [s]) ++ todo) := by simpa using hDp
    cases hop : s.2 with
    | none =>
      have hstep : a.step H cfg s = a := by
        unfold TW.step; rw [hop]; simp only
        unfold TW.advance
        exact tw_compactUp_idle H cfg a _ hidle.pos
      have := ih (done ++ [s]) a hso' hDp' hidle (by
        intro s' hs'
        rcases List.mem_append.mp hs' with h | h
        · exact hdone s' h
        · rw [List.mem_singleton] at h; subst h; rw [hop]; rfl)
      simp only [TW.run, hstep]
      simpa using this
    | some ops =>
      right
      have hops := hso.repl s (by simp) ops hop
      have hstep : a.step H cfg s = ({ a with pos := s.1 } : TW Node).replaceTerminal H cfg (sub S' s.1) := by
        unfold TW.step; rw [hop]; simp only
        unfold TW.advanceAndReplace
        rw [tw_compactUp_idle H cfg a _ hidle.pos, hops]
      have hpre := preRep_init H D hS hso hDp hrep cfg a hidle.store hidle.log hidle.cpr hdone
      have hinv := invB_replace H D hs hS hS' hso cfg a hpre
      rw [← hstep] at hinv
      have := tw_run_invB H D hs hS hS' hrep cfg todo (done ++ [s]) _ hso' hDp' hinv
      simpa [TW.run] using this

/-- the first replaced terminal, from the idle walker -/
theorem idle_step_replace (hs : H.Sound) {S S' : List (Key × VH)} (hS : KeysOK S) (hS' : KeysOK S')
    {done todo : List (Step VH)} {s : Step VH} (hso : ScriptOK S S' (done ++ s :: todo))
    (hDp : PathsIn D (done ++ s :: todo)) {store0 : Store Node} (hrep : Rep0 H D S store0) (cfg : TWCfg Node)
    (a : TW Node) (hidle : Idle store0 cfg a) (hdone : ∀ s' ∈ done, s'.2.isSome = false)
    (ops : List (Key × VH)) (hop : s.2 = some ops) :
    a.step H cfg s = ({ a with pos := s.1 } : TW Node).replaceTerminal H cfg (sub S' s.1) ∧
    InvB H D S S' store0 cfg (done ++ [s]) todo (a.step H cfg s) := by
  have hops := hso.repl s (by simp) ops hop
  have hstep : a.step H cfg s = ({ a with pos := s.1 } : TW Node).replaceTerminal H cfg (sub S' s.1) := by
    unfold TW.step; rw [hop]; simp only
    unfold TW.advanceAndReplace
    rw [tw_compactUp_idle H cfg a _ hidle.pos, hops]
  have hpre := preRep_init H D hS hso hDp hrep cfg a hidle.store hidle.log hidle.cpr hdone
  have hinv := invB_replace H D hs hS hS' hso cfg a hpre
  rw [← hstep] at hinv
  exact ⟨hstep, hinv⟩

theorem idle_step_advance (cfg : TWCfg Node) {store0 : Store Node} (a : TW Node) (hidle : Idle store0 cfg a)
    (s : Step VH) (hop : s.2 = none) : a.step H cfg s = a := by
  unfold TW.step; rw [hop]; simp only
  unfold TW.advance
  exact tw_compactUp_idle H cfg a _ hidle.pos

/-! ## `conclude` -/

theorem tw_conclude_spec (hs : H.Sound) {S S' : List (Key × VH)} (hS' : KeysOK S')
    {all : List (Step VH)} (hso : ScriptOK S S' all) {store0 : Store Node} (hrep : Rep0 H D S store0)
    (cfg : TWCfg Node) (a : TW Node) (hinv : InvB H D S S' store0 cfg all [] a) :
    ∀ a', a' = a.conclude H cfg →
    a'.pos = a.pos.take cfg.top ∧ SubOK H D S' a'.store a'.pos ∧
    (cfg.hasParent = false → Good H S' a'.store a'.pos ∧ a'.cpr = []) ∧
    (∀ e ∈ a'.log, LogOK H D S' e) ∧ (∀ e ∈ a'.cpr, e.2 = specNode H S' e.1 ∧ e.1.length = cfg.top) ∧
    (∀ q, ¬ (a.pos.take cfg.top) <+: q → a'.store q = a.store q) := by
  intro a' ha'
  unfold TW.conclude TW.compactUp at ha'
  by_cases hse : a.stackEmpty cfg = true
  · rw [if_pos hse] at ha'
    subst ha'
    unfold TW.stackEmpty at hse
    simp only [decide_eq_true_eq] at hse
    have : a'.pos.take cfg.top = a'.pos := List.take_of_length_le hse
    rw [this]
    exact ⟨rfl, hinv.below, fun h => ⟨hinv.good (Or.inr h), hinv.cprnil h⟩, hinv.logok, hinv.cprok, fun _ _ => rfl⟩
  · rw [if_neg hse] at ha'
    have htop : cfg.top < a.pos.length := by
      unfold TW.stackEmpty at hse
      simp only [decide_eq_true_eq] at hse
      omega
    simp only at ha'
    rw [tw_compactLoop_min H cfg _ a htop] at ha'
    have hn : min a.pos.length (a.pos.length - cfg.top) = a.pos.length - cfg.top := by omega
    rw [hn] at ha'
    have hsplit : a.pos = a.pos.take cfg.top ++ a.pos.drop cfg.top := (List.take_append_drop _ a.pos).symm
    have hpl : (a.pos.take cfg.top).length = cfg.top := by rw [List.length_take]; omega
    have h256 : a.pos.length ≤ 256 := hinv.len
    have hspec := tw_compactLoop_spec H D hs hS' cfg (a.pos.length - cfg.top) a (a.pos.take cfg.top)
      (a.pos.drop cfg.top) hsplit (by rw [List.length_drop]) (by rw [hpl]; omega) (by rw [← hsplit]; exact h256)
      (by rw [← hsplit]; exact hinv.good (Or.inl htop)) (by rw [← hsplit]; exact hinv.below)
      (by
        intro s1 b1 hs1
        have hxc : (a.pos.take cfg.top ++ s1 ++ [b1]) <+: a.pos := by
          obtain ⟨u, hu⟩ := hs1
          refine ⟨u, ?_⟩
          conv => rhs; rw [hsplit, ← hu]
          simp
        have hxl : cfg.top ≤ (a.pos.take cfg.top ++ s1).length := by simp [hpl]
        cases b1 with
        | true => exact hinv.left _ hxc hxl
        | false =>
          simp only [Bool.not_false]
          have hxlen : (a.pos.take cfg.top ++ s1 ++ [true]).length ≤ 256 := by
            have := hxc.length_le
            simp at this ⊢; omega
          apply clean_good H D hso hrep a.store _ hxlen
          · intro s' hs' hsome
            rcases hinv.doneP s' hs' hsome with h | h
            · exact Or.inl (leftOf_rightSib_of_under hxc h)
            · exact diverge_rightSib_of_left hxc h
          · right
            rw [List.dropLast_concat]
            apply hinv.anc
            · exact List.IsPrefix.trans (List.prefix_append _ _) hxc
            · intro e
              have h1 := hxc.length_le
              have h2 := congrArg List.length e
              simp only [List.length_append, List.length_singleton] at h1 h2
              omega
          · have := (hinv.onpath _ hxc (by simp)).2
            rwa [sibPath_snoc] at this
          · intro q hq
            exact hinv.right q (leftOf_of_branch hxc hq))
    rw [← ha'] at hspec
    obtain ⟨hP, hSub, hFr, hLog, hLogMono, hZero, hPos⟩ := hspec
    have hpos := hPos (by omega)
    refine ⟨hP, by rw [hP]; exact hSub, ?_, ?_, ?_, hFr⟩
    · intro hpar
      rw [if_neg (by intro h; rw [hpar] at h; exact absurd h.2 (by simp))] at hpos
      rw [hP]; exact ⟨hpos.2, by rw [hpos.1]; exact hinv.cprnil hpar⟩
    · intro e he
      rcases hLog e he with h | h
      · exact hinv.logok e h
      · exact h
    · intro e he
      split at hpos
      · rw [hpos.1, List.mem_append, List.mem_singleton] at he
        rcases he with he | he
        · exact hinv.cprok e he
        · subst he; exact ⟨rfl, hpl⟩
      · rw [hpos.1] at he; exact hinv.cprok e he

/-! ## the walk without parent page -/

/-- **The algorithm is right** (tree walker, no parent page): an ascending prefix-free script of terminals of `S`, each
replaced by the keys of `S'` below it, over a store that represents `S`, ends after `conclude` at the root with a store
that represents `S'` — the root and every meaningful slot — and every page left on the way was logged with its meaningful
slots right. -/
theorem tw_walk_root (hs : H.Sound) {S S' : List (Key × VH)} (hS : KeysOK S) (hS' : KeysOK S')
    {steps : List (Step VH)} (hso : ScriptOK S S' steps) (hDp : PathsIn D steps)
    {store0 : Store Node} (hrep : Rep0 H D S store0)
    (cfg : TWCfg Node) (htop : cfg.top = 0) (hpar : cfg.hasParent = false) :
    let a' := (({ pos := [], store := store0, log := [], cpr := [] } : TW Node).run H cfg steps).conclude H cfg
    a'.pos = [] ∧ Rep0 H D S' a'.store ∧ (∀ e ∈ a'.log, LogOK H D S' e) ∧ a'.cpr = [] := by
  intro a'
  have hidle : Idle store0 cfg ({ pos := [], store := store0, log := [], cpr := [] } : TW Node) := ⟨by simp, rfl, rfl, rfl⟩
  rcases tw_run_idle H D hs hS hS' hrep cfg steps [] _ (by simpa using hso) (by simpa using hDp) hidle (by simp) with ⟨hi, hall⟩ | hinv
  · -- nothing was replaced: nothing changes, and `S' = S`
    have hconc : a' = ({ pos := [], store := store0, log := [], cpr := [] } : TW Node).run H cfg steps := by
      show TW.conclude H cfg _ = _
      unfold TW.conclude
      exact tw_compactUp_idle H cfg _ _ hi.pos
    have hsub : ∀ q, q.length ≤ 256 → sub S' q = sub S q := by
      intro q hq
      apply hso.out q hq
      intro s hs' hsome
      rw [hall s (by simpa using hs')] at hsome; cases hsome
    rw [hconc]
    refine ⟨?_, ?_, ?_, hi.cpr⟩
    · have := hi.pos; rw [htop] at this
      exact List.eq_nil_of_length_eq_zero (by omega)
    · intro q hq hD hm
      rw [hi.store]
      have hspec : specNode H S' q = specNode H S q := by unfold specNode; rw [hsub q hq]
      rw [hspec]
      apply hrep q hq hD
      rcases hm with h | h
      · exact Or.inl h
      · right; rw [← hsub _ (by rw [List.length_dropLast]; omega)]; exact h
    · intro e he; rw [hi.log] at he; cases he
  · simp only [List.nil_append] at hinv
    obtain ⟨c1, c2, c3, c4, c5, _⟩ := tw_conclude_spec H D hs hS' hso hrep cfg _ hinv a' rfl
    have hp : a'.pos = [] := by rw [c1, htop]; simp
    refine ⟨hp, ?_, c4, (c3 hpar).2⟩
    intro q hq hD hm
    by_cases hq0 : q = []
    · subst hq0
      have := (c3 hpar).1
      rw [hp] at this
      exact this
    · have := c2
      rw [hp] at this
      exact this q (List.nil_prefix) hq0 hq hD hm

/-- **The sub-trie walk** (tree walker with a parent page): every child-page root delivered is the specified node of `S'`
at a position of the bottom layer of the parent page, and every page left was logged with its meaningful slots right. -/
theorem tw_walk_children (hs : H.Sound) {S S' : List (Key × VH)} (hS : KeysOK S) (hS' : KeysOK S')
    {steps : List (Step VH)} (hso : ScriptOK S S' steps) (hDp : PathsIn D steps)
    {store0 : Store Node} (hrep : Rep0 H D S store0) (cfg : TWCfg Node) :
    let a' := (({ pos := [], store := store0, log := [], cpr := [] } : TW Node).run H cfg steps).conclude H cfg
    (∀ e ∈ a'.cpr, e.2 = specNode H S' e.1 ∧ e.1.length = cfg.top) ∧ (∀ e ∈ a'.log, LogOK H D S' e) := by
  intro a'
  have hidle : Idle store0 cfg ({ pos := [], store := store0, log := [], cpr := [] } : TW Node) := ⟨by simp, rfl, rfl, rfl⟩
  rcases tw_run_idle H D hs hS hS' hrep cfg steps [] _ (by simpa using hso) (by simpa using hDp) hidle (by simp)
    with ⟨hi, _⟩ | hinv
  · have hconc : a' = ({ pos := [], store := store0, log := [], cpr := [] } : TW Node).run H cfg steps := by
      show TW.conclude H cfg _ = _
      unfold TW.conclude
      exact tw_compactUp_idle H cfg _ _ hi.pos
    rw [hconc]
    refine ⟨?_, ?_⟩
    · intro e he; rw [hi.cpr] at he; cases he
    · intro e he; rw [hi.log] at he; cases he
  · simp only [List.nil_append] at hinv
    obtain ⟨_, _, _, c4, c5, _⟩ := tw_conclude_spec H D hs hS' hso hrep cfg _ hinv a' rfl
    exact ⟨c5, c4⟩

end Nomt.Walker
