import NomtModel.Store.SyncGenRecProof
/-!
# Concrete instances of the sync / recovery choreography (non-vacuity and negative examples)

`exP` / `exRun`: an operation with every optional part (rollback delta appended with roll-over, page writes of `ln` and
`bbn`, growth of `ln`, two table pages, pruning with a truncated head) and one of its interleavings, in the format of the
real trace.  `P0` / `P1`: minimal parameters; for each `Variant` that drops ONE edge / action of the code an interleaving
that the variant program generates and `checkOrder` rejects.
-/
namespace Nomt.Store.SyncGen.Toy
open Nomt.Store Nomt.Store.SyncGen

def B (th : String) (e : IoEv) : IoEv2 := ⟨true, e, th⟩
def E (th : String) (e : IoEv) : IoEv2 := ⟨false, e, th⟩

def exP : Params :=
  { seg := some { name := "rollback:rollback.0000000002.log", create := true, off := 0, hdrLen := 12, payLen := 486, padTo := 4096 },
    walLen := 4096,
    bt := [⟨false, false, 8192, 4096⟩, ⟨false, true, 33554432, 0⟩, ⟨true, false, 8192, 4096⟩, ⟨false, false, 24576, 4096⟩],
    ht := [⟨0, 4096⟩, ⟨5713920, 4096⟩],
    prune := { unlinks := [("rollback:rollback.0000000001.log", "seglog.prune_oldest")],
               tail := some ("rollback:rollback.0000000002.log", 4096) },
    tMain := "t1", tWal := "t50", tLn := "t49", tBbn := "t48", tPrune := "t54" }

def lnW (off : Nat) : BtOp := ⟨false, false, off, 4096⟩

/-- an interleaving of `exP`: the WAL task overlaps the page writes, completions arrive out of order, the `ln` file grows
while a write is in flight, the two fsyncer threads overlap, the prune task overlaps the table writes -/
def exRun : List IoEv2 :=
  appendLines real exP ++
  [B "t45" (lnW 8192).evB,
   B "t50" (ev "SetLen" "wal" 0 0 "wal.write.set_len"), E "t50" (ev "SetLen" "wal" 0 0 "wal.write.set_len"),
   B "t45" (ev "SetLen" "ln" 33554432 0 "allocator.grow"),
   B "t50" (ev "Append" "wal" 0 4096 "wal.write"),
   E "t45" (ev "SetLen" "ln" 33554432 0 "allocator.grow"),
   B "t43" (ev "Write" "bbn" 8192 4096 "io.send"),
   B "t45" (lnW 24576).evB,
   E "t41" (lnW 24576).evE,
   E "t50" (ev "Append" "wal" 0 4096 "wal.write"),
   E "t40" (lnW 8192).evE,
   B "t50" (ev "Fsync" "wal" 0 0 "wal.write.fsync"),
   E "t42" (ev "Write" "bbn" 8192 4096 "io.complete"),
   B "t49" (ev "Fsync" "ln" 0 0 "fsyncer"),
   B "t48" (ev "Fsync" "bbn" 0 0 "fsyncer"),
   E "t50" (ev "Fsync" "wal" 0 0 "wal.write.fsync"),
   E "t48" (ev "Fsync" "bbn" 0 0 "fsyncer"),
   E "t49" (ev "Fsync" "ln" 0 0 "fsyncer")] ++
  metaLines exP ++
  [B "t1" (ev "Write" "ht" 0 4096 "io.send"),
   B "t54" (ev "Unlink" "rollback:rollback.0000000001.log" 0 0 "seglog.prune_oldest"),
   B "t1" (ev "Write" "ht" 5713920 4096 "io.send"),
   E "t54" (ev "Unlink" "rollback:rollback.0000000001.log" 0 0 "seglog.prune_oldest"),
   E "t41" (ev "Write" "ht" 5713920 4096 "io.complete"),
   B "t54" (ev "DirSync" "dir" 0 0 "seglog.prune_recent.dirsync"),
   E "t40" (ev "Write" "ht" 0 4096 "io.complete"),
   B "t1" (ev "Fsync" "ht" 0 0 "ht.fsync"),
   E "t54" (ev "DirSync" "dir" 0 0 "seglog.prune_recent.dirsync"),
   B "t54" (ev "SetLen" "rollback:rollback.0000000002.log" 4096 0 "seglog.truncate_head"),
   E "t1" (ev "Fsync" "ht" 0 0 "ht.fsync"),
   B "t1" (ev "SetLen" "wal" 0 0 "wal.truncate"),
   E "t54" (ev "SetLen" "rollback:rollback.0000000002.log" 4096 0 "seglog.truncate_head"),
   B "t54" (ev "Fsync" "rollback:rollback.0000000002.log" 0 0 "seglog.truncate_head.fsync"),
   E "t1" (ev "SetLen" "wal" 0 0 "wal.truncate"),
   E "t54" (ev "Fsync" "rollback:rollback.0000000002.log" 0 0 "seglog.truncate_head.fsync")]

theorem exP_wf : exP.WF := Params.wfB_sound exP (by decide)
theorem exRun_member : memberOf real exP exRun = true := by decide
theorem exRun_params : (paramsOf exRun).bt = exP.bt ∧ (paramsOf exRun).ht = exP.ht ∧ (paramsOf exRun).seg = exP.seg ∧
    (paramsOf exRun).prune = exP.prune := by decide

/-! ## Negative examples: one edge / action of the code dropped -/

/-- one page write of `ln`, one table page, no rollback -/
def P0 : Params := { walLen := 4096, bt := [lnW 8192], ht := [⟨0, 4096⟩] }

/-- … with a rollback delta appended after a roll-over -/
def P1 : Params :=
  { P0 with seg := some { name := "rollback:rollback.0000000002.log", create := true, off := 0, hdrLen := 12, payLen := 8, padTo := 4096 } }

def htPart : List IoEv2 :=
  [B "t1" (ev "Write" "ht" 0 4096 "io.send"), E "t9" (ev "Write" "ht" 0 4096 "io.complete")] ++ tailLines real P0

/-- `beatree_sync.wait_pre_meta()` does not wait for the fsyncers: the meta page is written while the fsync of `ln` is
in flight -/
def noWaitBeatree : Variant := { waitBeatree := false }
def runNoWaitBeatree : List IoEv2 :=
  walLines P0 ++ [B "t7" (lnW 8192).evB, E "t9" (lnW 8192).evE, B "t3" (ev "Fsync" "ln" 0 0 "fsyncer")] ++ fsBbnLines P0 ++
  [B "t1" (ev "Write" "meta" 0 4096 "meta.write"), E "t3" (ev "Fsync" "ln" 0 0 "fsyncer"),
   E "t1" (ev "Write" "meta" 0 4096 "meta.write")] ++ call "t1" (ev "Fsync" "meta" 0 0 "meta.fsync") ++ htPart

theorem noWaitBeatree_generated : memberOf noWaitBeatree P0 runNoWaitBeatree = true := by decide
theorem noWaitBeatree_rejected : (checkOrder runNoWaitBeatree).toBool = false := by decide

/-- `update` requests the fsync before it has received every completion: the fsync of `ln` begins while the page write
is in flight and does not cover it -/
def noWaitWrites : Variant := { waitWrites := false }
def runNoWaitWrites : List IoEv2 :=
  walLines P0 ++ [B "t7" (lnW 8192).evB, B "t3" (ev "Fsync" "ln" 0 0 "fsyncer"), E "t9" (lnW 8192).evE,
    E "t3" (ev "Fsync" "ln" 0 0 "fsyncer")] ++ fsBbnLines P0 ++ metaLines P0 ++ htPart

theorem noWaitWrites_generated : memberOf noWaitWrites P0 runNoWaitWrites = true := by decide
theorem noWaitWrites_rejected : (checkOrder runNoWaitWrites).toBool = false := by decide

/-- `SegmentedLog::append` does not fsync the directory after a roll-over (seeded change `C04-segment-rollover-dirsync`):
the new segment's directory entry is volatile when the meta page names its record -/
def noDirsync : Variant := { rolloverDirsync := false }
def runNoDirsync : List IoEv2 :=
  appendLines noDirsync P1 ++ walLines P1 ++ [B "t7" (lnW 8192).evB, E "t9" (lnW 8192).evE] ++ fsLnLines P1 ++ fsBbnLines P1 ++
  metaLines P1 ++ htPart

theorem noDirsync_generated : memberOf noDirsync P1 runNoDirsync = true := by decide
theorem noDirsync_rejected : (checkOrder runNoDirsync).toBool = false := by decide

/-- `write_ht` does not fsync the table before `truncate_wal` -/
def noHtFsync : Variant := { htFsync := false }
def runNoHtFsync : List IoEv2 :=
  walLines P0 ++ [B "t7" (lnW 8192).evB, E "t9" (lnW 8192).evE] ++ fsLnLines P0 ++ fsBbnLines P0 ++ metaLines P0 ++
  [B "t1" (ev "Write" "ht" 0 4096 "io.send"), E "t9" (ev "Write" "ht" 0 4096 "io.complete")] ++ tailLines noHtFsync P0

theorem noHtFsync_generated : memberOf noHtFsync P0 runNoHtFsync = true := by decide
theorem noHtFsync_rejected : (checkOrder runNoHtFsync).toBool = false := by decide

/-- `write_ht` does not wait for the completions before the table fsync (the shape of defect F2) -/
def noWaitHt : Variant := { waitHtWrites := false }
def runNoWaitHt : List IoEv2 :=
  walLines P0 ++ [B "t7" (lnW 8192).evB, E "t9" (lnW 8192).evE] ++ fsLnLines P0 ++ fsBbnLines P0 ++ metaLines P0 ++
  [B "t1" (ev "Write" "ht" 0 4096 "io.send"), B "t1" (ev "Fsync" "ht" 0 0 "ht.fsync"), E "t9" (ev "Write" "ht" 0 4096 "io.complete"),
   E "t1" (ev "Fsync" "ht" 0 0 "ht.fsync")] ++ call "t1" (ev "SetLen" "wal" 0 0 "wal.truncate")

theorem noWaitHt_generated : memberOf noWaitHt P0 runNoWaitHt = true := by decide
theorem noWaitHt_rejected : (checkOrder runNoWaitHt).toBool = false := by decide

/-- the code as it is generates none of these five traces -/
theorem negatives_not_real :
    memberOf real P0 runNoWaitBeatree = false ∧ memberOf real P0 runNoWaitWrites = false ∧
    memberOf real P1 runNoDirsync = false ∧ memberOf real P0 runNoHtFsync = false ∧ memberOf real P0 runNoWaitHt = false := by
  decide

/-! ## Recovery -/

def exR : RecParams :=
  { wal := .redo [(0, 4096, "ht.recover.write"), (5713920, 4096, "ht.recover.write"), (4096, 4096, "ht.recover.write_meta")],
    unlinks := [("rollback:rollback.0000000003.log", "seglog.open.remove_nonlive")],
    head := some ("rollback:rollback.0000000002.log", 4096), th := "t1" }

theorem exR_wf : exR.WF := RecParams.wfB_sound exR (by decide)

/-- the order before F17 was repaired: no table fsync in `bitbox::recover` -/
def noRecFsync : RVariant := { htFsync := false }
theorem noRecFsync_rejected : (checkRecoveryOrder (recLines noRecFsync exR)).toBool = false := by decide
theorem exR_accepted : (checkRecoveryOrder (recLines {} exR)).toBool = true := by decide
theorem exR_roundtrip : recMemberOf {} (recParamsOf (recLines {} exR)) (recLines {} exR) = true := by decide

end Nomt.Store.SyncGen.Toy
