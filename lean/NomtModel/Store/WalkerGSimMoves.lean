import NomtModel.Store.WalkerSimMoves
import NomtModel.Store.WalkerSim
import NomtModel.Store.WalkerGSim
import NomtModel.Store.WalkerTreeWrites
/-!
# `handle_elision_threshold`, `up`, `down` of the mirror against the tree walker
-/
namespace Nomt.Walker.G
open Nomt Nomt.TriePos
open Nomt.Wal (PageDiff)

variable {Node VH : Type} [DecidableEq Node] [DecidableEq VH] (H : Hasher Node VH)

/-! ## `handle_elision_threshold` never fails on a well-formed stack -/

theorem pushUpdated_outs (w0 w1 : Walker Node) (sp sp2 : StackPage Node) (hout : w1.outputPages = w0.outputPages)
    (hid : sp2.pageId = sp.pageId) (hn : sp2.page.nodes = sp.page.nodes)
    (hdf : ∀ i, sp.diff.changed i = true → sp2.diff.changed i = true) :
    ∀ o ∈ (pushUpdated w1 sp2).outputPages, o ∈ w0.outputPages ∨
      ∃ pg d b, pg.nodes = sp.page.nodes ∧ o = .updated sp.pageId pg d b ∧
        ∀ i, sp.diff.changed i = true → d.changed i = true := by
  intro o ho
  unfold pushUpdated at ho
  simp only [List.mem_append, List.mem_singleton] at ho
  rcases ho with h | h
  · left; rw [← hout]; exact h
  · right
    refine ⟨sp2.page, _, _, hn, by rw [h, hid], fun i hi => ?_⟩
    split
    · exact hdf i hi
    · exact totalDiff_changed sp2 i (hdf i hi)

/-- the parent's counter update: the guard `new_parent_children_leaves_counter ≥ 0` holds when the parent's counter covers
the weight the page had when it was loaded -/
theorem elideParentCounter_ok (sp parent : StackPage Node) (plc clc : Nat)
    (hsp : sp.prevChildrenLeaves.isSome = true) (hcp : CountersOK parent)
    (hg : ∀ pclc pc, parent.childrenLeaves.or parent.prevChildrenLeaves = some pclc → sp.prevChildrenLeaves = some pc →
      sp.pageLeaves.getD 0 + pc ≤ pclc) :
    ∃ parent2, elideParentCounter sp parent plc clc = .ok parent2 ∧ parent2.pageId = parent.pageId ∧
      parent2.page = parent.page ∧ CountersOK parent2 ∧ parent2.diff = parent.diff ∧
      parent2.prevChildrenLeaves = parent.prevChildrenLeaves ∧ parent2.pageLeaves = parent.pageLeaves ∧
      (parent.childrenLeaves.or parent.prevChildrenLeaves = none → parent2.childrenLeaves = parent.childrenLeaves) ∧
      (∀ pclc pc, parent.childrenLeaves.or parent.prevChildrenLeaves = some pclc → sp.prevChildrenLeaves = some pc →
        parent2.childrenLeaves = some (pclc - (sp.pageLeaves.getD 0 + pc) + plc + clc)) := by
  unfold elideParentCounter
  cases hpo : parent.childrenLeaves.or parent.prevChildrenLeaves with
  | none => exact ⟨parent, rfl, rfl, rfl, hcp, rfl, rfl, rfl, fun _ => rfl, fun _ _ h => by cases h⟩
  | some pclc =>
    simp only
    cases hpv : sp.prevChildrenLeaves with
    | none => rw [hpv] at hsp; cases hsp
    | some prevClc =>
      simp only
      have hgu := hg pclc prevClc hpo hpv
      generalize sp.pageLeaves.getD 0 = prevPlc at hgu ⊢
      rw [if_neg (by omega)]
      refine ⟨_, rfl, rfl, rfl, ?_, rfl, rfl, rfl, (fun h => by cases h), ?_⟩
      · intro _
        show parent.prevChildrenLeaves.isSome = true
        cases hpp : parent.prevChildrenLeaves with
        | some x => rfl
        | none =>
          rw [hpp] at hpo
          have : parent.childrenLeaves.isSome = true := by
            cases hcl : parent.childrenLeaves with
            | none => rw [hcl] at hpo; cases hpo
            | some y => rfl
          have := hcp this
          rw [hpp] at this; cases this
      · intro pclc' pc' h1 h2
        injection h1 with h1
        injection h2 with h2
        subst h1; subst h2
        show some (Int.toNat _) = some _
        congr 1
        omega

/-- the effect of `handle_elision_threshold` on the stack: the top page is popped; of the pages below only the counters and
the bitfield of the next one may change.  The guard of the counter arithmetic holds by the accounting (`Acct`). -/
theorem handleElision_spec (ps : PageSet Node) (ids : List PageId)
    (w : Walker Node) (sp : StackPage Node) (below : List (StackPage Node))
    (hst : w.stack = sp :: below) (hrec : w.reconstruction = false)
    (hc : ∀ x ∈ w.stack, CountersOK x) (hne : below ≠ [] → sp.pageId ≠ [])
    (hac : ∀ x ∈ w.stack, Acct ps ids x)
    (hchild : ∀ parent rest, below = parent :: rest → ∃ ci, ci < 64 ∧ sp.pageId = parent.pageId ++ [ci])
    (hnew : sp.pageId ∉ ids) :
    ∃ w', w.handleElision H = .ok w' ∧ Same w w' ∧ w'.position = w.position ∧ w'.root = w.root ∧
      w'.childPageRoots = w.childPageRoots ∧
      (∀ o ∈ w'.outputPages, o ∈ w.outputPages ∨
        ∃ pg d b, pg.nodes = sp.page.nodes ∧ o = .updated sp.pageId pg d b ∧
          ∀ i, sp.diff.changed i = true → d.changed i = true) ∧
      (w'.outputPages = w.outputPages ∨ ∃ o, w'.outputPages = w.outputPages ++ [o] ∧ o.pageId = sp.pageId) ∧
      ((below = [] ∧ w'.stack = []) ∨
       (∃ parent rest parent', below = parent :: rest ∧ w'.stack = parent' :: rest ∧
          parent'.pageId = parent.pageId ∧ parent'.page = parent.page ∧ CountersOK parent' ∧
          parent'.diff = parent.diff ∧ Acct ps (ids ++ [sp.pageId]) parent')) := by
  unfold Walker.handleElision
  rw [hst]
  simp only
  obtain ⟨hid, hcl, hpcl, hpl⟩ := storeElided_fields sp
  have hcsp : CountersOK sp := hc sp (by rw [hst]; simp)
  have hacsp : Acct ps ids sp := hac sp (by rw [hst]; simp)
  have hsub : ∀ i ∈ ids, i ∈ ids ++ [sp.pageId] := fun i hi => List.mem_append_left _ hi
  cases below with
  | nil =>
    simp only
    rw [pushOut_ok _ _ (by exact hrec)]
    exact ⟨_, rfl, Same.rfl' _, rfl, rfl, rfl,
      pushUpdated_outs w _ sp _ rfl hid (storeElided_nodes sp) (by intro i hi; rw [storeElided_diff]; exact hi), Or.inr ⟨_, rfl, hid⟩, Or.inl ⟨trivial, rfl⟩⟩
  | cons parent rest =>
    simp only
    have hcp : CountersOK parent := hc parent (by rw [hst]; simp)
    have hacp : Acct ps ids parent := hac parent (by rw [hst]; simp)
    have hspne : (storeElided sp).pageId ≠ [] := by rw [hid]; exact hne (by simp)
    obtain ⟨ci, hci⟩ := childIndexAtLevel_last (storeElided sp).pageId hspne
    have hkeep : ∃ w', keepPage ({ w with stack := parent :: rest } : Walker Node) (storeElided sp) parent rest = .ok w' ∧
        Same w w' ∧ w'.position = w.position ∧ w'.root = w.root ∧ w'.childPageRoots = w.childPageRoots ∧
        (∀ o ∈ w'.outputPages, o ∈ w.outputPages ∨
          ∃ pg d b, pg.nodes = sp.page.nodes ∧ o = .updated sp.pageId pg d b ∧
            ∀ i, sp.diff.changed i = true → d.changed i = true) ∧
        (w'.outputPages = w.outputPages ∨ ∃ o, w'.outputPages = w.outputPages ++ [o] ∧ o.pageId = sp.pageId) ∧
        ∃ parent', w'.stack = parent' :: rest ∧ parent'.pageId = parent.pageId ∧ parent'.page = parent.page ∧
          CountersOK parent' ∧ parent'.diff = parent.diff ∧ Acct ps (ids ++ [sp.pageId]) parent' := by
      unfold keepPage
      rw [hci]
      simp only
      rw [pushOut_ok _ _ (by exact hrec)]
      refine ⟨_, rfl, Same.rfl' _, rfl, rfl, rfl, pushUpdated_outs w _ sp _ rfl hid (storeElided_nodes sp) (by intro i hi; rw [storeElided_diff]; exact hi),
        Or.inr ⟨_, rfl, hid⟩, _, rfl, rfl, rfl, ?_, rfl, ?_⟩
      · intro h; cases h
      · refine acct_kept (hacp.mono hsub) rfl ?_ rfl rfl
        show (if w.mutStalePrev = true then parent.prevChildrenLeaves else none) = parent.prevChildrenLeaves ∨
          (if w.mutStalePrev = true then parent.prevChildrenLeaves else none) = none
        split
        · exact Or.inl rfl
        · exact Or.inr rfl
    by_cases hroot : parentPageId (storeElided sp).pageId = []
    · rw [if_pos hroot, pushOut_ok _ _ (by exact hrec)]
      exact ⟨_, rfl, Same.rfl' _, rfl, rfl, rfl, pushUpdated_outs w _ sp _ rfl hid (storeElided_nodes sp) (by intro i hi; rw [storeElided_diff]; exact hi),
        Or.inr ⟨_, rfl, hid⟩, Or.inr ⟨parent, rest, parent, rfl, rfl, rfl, rfl, hcp, rfl, hacp.mono hsub⟩⟩
    · rw [if_neg hroot]
      cases hor : (storeElided sp).childrenLeaves.or (storeElided sp).prevChildrenLeaves with
      | none =>
        simp only
        obtain ⟨w', h1, h2, h3, h4, h5, ho, hsh, p', h6, h7, h8, h9, h10, h11⟩ := hkeep
        exact ⟨w', h1, h2, h3, h4, h5, ho, hsh, Or.inr ⟨parent, rest, p', rfl, h6, h7, h8, h9, h10, h11⟩⟩
      | some clc =>
        simp only
        split
        · -- the page is elided
          have hsp2 : (storeElided sp).prevChildrenLeaves.isSome = true := by
            rw [hpcl]
            cases hpv : sp.prevChildrenLeaves with
            | some x => rfl
            | none =>
              rw [hcl, hpcl, hpv] at hor
              have : sp.childrenLeaves.isSome = true := by
                cases hcl' : sp.childrenLeaves with
                | none => rw [hcl'] at hor; cases hor
                | some y => rfl
              have := hcsp this
              rw [hpv] at this; cases this
          obtain ⟨cix, hcix, hspid⟩ := hchild parent rest rfl
          have hnot : parent.pageId ++ [cix] ∉ ids := by rw [← hspid]; exact hnew
          have hle1 := oldTot_le_restSum ps ids parent.pageId cix hcix hnot
          have hleave := restSum_leave ps ids parent.pageId cix hcix hnot
          have hold : ∀ pc, sp.prevChildrenLeaves = some pc →
              sp.pageLeaves.getD 0 + pc ≤ oldTot ps (parent.pageId ++ [cix]) := by
            intro pc hpc
            have := hacsp.1 pc hpc
            rw [hspid] at this; exact this
          obtain ⟨parent2, hp2, hp2id, hp2pg, hp2c, hp2d, hp2prev, hp2pl, hp2none, hp2some⟩ :=
            elideParentCounter_ok (storeElided sp) parent (countLeaves H (storeElided sp).page) clc hsp2 hcp (by
              intro pclc pc h1 h2
              rw [hpcl] at h2
              rw [hpl]
              have := hold pc h2
              have := hacp.2.1 pclc h1
              omega)
          unfold elidePage
          rw [hp2]
          simp only
          rw [hci]
          simp only
          rw [hrec]
          simp only [Bool.false_eq_true, if_false]
          have hc3 : CountersOK ({ parent2 with elided := PageLayout.elidedSet parent2.elided ci true } : StackPage Node) := hp2c
          have hac3 : Acct ps (ids ++ [sp.pageId])
              ({ parent2 with elided := PageLayout.elidedSet parent2.elided ci true } : StackPage Node) := by
            refine ⟨?_, ?_, ?_⟩
            rotate_left
            rotate_left
            · intro pc hpc
              show restSum ps (ids ++ [sp.pageId]) parent2.pageId ≤ pc
              rw [hp2id]
              exact (hacp.mono hsub).2.2 pc (by rw [← hp2prev]; exact hpc)
            · intro pc hpc
              show parent2.pageLeaves.getD 0 + pc ≤ oldTot ps parent2.pageId
              rw [hp2pl, hp2id]
              exact hacp.1 pc (by rw [← hp2prev]; exact hpc)
            · intro cur hcur
              show restSum ps (ids ++ [sp.pageId]) parent2.pageId ≤ cur
              rw [hp2id, hspid]
              have hcur' : parent2.childrenLeaves.or parent2.prevChildrenLeaves = some cur := hcur
              cases hpo : parent.childrenLeaves.or parent.prevChildrenLeaves with
              | none =>
                rw [hp2none hpo, hp2prev, hpo] at hcur'
                cases hcur'
              | some pclc =>
                cases hpv : sp.prevChildrenLeaves with
                | none => rw [hpcl, hpv] at hsp2; cases hsp2
                | some pc =>
                  rw [hp2some pclc pc hpo (by rw [hpcl]; exact hpv)] at hcur'
                  rw [Option.some_or] at hcur'
                  have hcur' := Option.some.inj hcur'
                  rw [hpl] at hcur'
                  have := hold pc hpv
                  have := hacp.2.1 pclc hpo
                  omega
          split
          · exact ⟨_, rfl, ⟨rfl, rfl, rfl, rfl, hrec.symm⟩, rfl, rfl, rfl,
              pushUpdated_outs w _ sp _ rfl hid (storeElided_nodes sp) (by intro i hi; show ((storeElided sp).diff.setCleared).changed i = true; rw [PageDiff.changed_setCleared, storeElided_diff, hi]; rfl),
              Or.inr ⟨_, rfl, hid⟩, Or.inr ⟨parent, rest, _, rfl, rfl, hp2id, hp2pg, hc3, hp2d, hac3⟩⟩
          · exact ⟨_, rfl, ⟨rfl, rfl, rfl, rfl, hrec.symm⟩, rfl, rfl, rfl, fun o ho => Or.inl ho,
              Or.inl rfl, Or.inr ⟨parent, rest, _, rfl, rfl, hp2id, hp2pg, hc3, hp2d, hac3⟩⟩
        · obtain ⟨w', h1, h2, h3, h4, h5, ho, hsh, p', h6, h7, h8, h9, h10, h11⟩ := hkeep
          exact ⟨w', h1, h2, h3, h4, h5, ho, hsh, Or.inr ⟨parent, rest, p', rfl, h6, h7, h8, h9, h10, h11⟩⟩

/-! ## the reconstructor (`new_reconstructor`): every page is handed out as reconstructed; nothing may be kept -/

theorem handleElision_spec_r (w : Walker Node) (sp : StackPage Node) (below : List (StackPage Node))
    (hst : w.stack = sp :: below) (hrec : w.reconstruction = true) (hinh : w.inhibitElision = false)
    (hz : ∀ x ∈ w.stack, x.prevChildrenLeaves = some 0 ∧ x.pageLeaves = some 0)
    (hne : below ≠ [] → sp.pageId ≠ []) (hsmall : SmallTop H w) :
    ∃ w' pg d, w.handleElision H = .ok w' ∧ Same w w' ∧ w'.position = w.position ∧ w'.root = w.root ∧
      w'.childPageRoots = w.childPageRoots ∧ pg.nodes = sp.page.nodes ∧
      (∀ i, sp.diff.changed i = true → d.changed i = true) ∧
      w'.outputPages = w.outputPages ++ [.reconstructed sp.pageId pg (clOf sp) d] ∧
      ((below = [] ∧ w'.stack = []) ∨
       (∃ parent rest parent', below = parent :: rest ∧ w'.stack = parent' :: rest ∧
          parent'.pageId = parent.pageId ∧ parent'.page = parent.page ∧ CountersOK parent' ∧
          parent'.diff = parent.diff ∧ parent'.prevChildrenLeaves = parent.prevChildrenLeaves ∧
          parent'.pageLeaves = parent.pageLeaves ∧ clOf parent' ≤ clOf parent + countLeaves H sp.page + clOf sp ∧
          clOf parent ≤ clOf parent')) := by
  obtain ⟨hid, hcl, hpcl, hpl⟩ := storeElided_fields sp
  have hzsp := hz sp (by rw [hst]; simp)
  have hz' : (storeElided sp).prevChildrenLeaves = some 0 := by rw [hpcl]; exact hzsp.1
  have hclof : clOf (storeElided sp) = clOf sp := by unfold clOf; rw [hcl]
  have hdiffs : ∀ i, sp.diff.changed i = true → (storeElided sp).totalDiff.changed i = true := by
    intro i hi
    exact totalDiff_changed _ i (by rw [storeElided_diff]; exact hi)
  unfold Walker.handleElision
  rw [hst]
  simp only
  cases below with
  | nil =>
    simp only
    rw [pushOut_rec _ _ (by exact hrec), pushReconstructed_zero _ _ hz', hid, hclof]
    exact ⟨_, (storeElided sp).page, _, rfl, ⟨rfl, rfl, rfl, rfl, rfl⟩, rfl, rfl, rfl, storeElided_nodes sp, hdiffs, rfl,
      Or.inl ⟨trivial, rfl⟩⟩
  | cons parent rest =>
    simp only
    have hzp := hz parent (by rw [hst]; simp)
    have hcp : CountersOK parent := fun _ => by rw [hzp.1]; rfl
    have hspne : (storeElided sp).pageId ≠ [] := by rw [hid]; exact hne (by simp)
    obtain ⟨ci, hci⟩ := childIndexAtLevel_last (storeElided sp).pageId hspne
    by_cases hroot : parentPageId (storeElided sp).pageId = []
    · rw [if_pos hroot]
      rw [pushOut_rec _ _ (by exact hrec), pushReconstructed_zero _ _ hz', hid, hclof]
      exact ⟨_, (storeElided sp).page, _, rfl, ⟨rfl, rfl, rfl, rfl, rfl⟩, rfl, rfl, rfl, storeElided_nodes sp, hdiffs, rfl,
        Or.inr ⟨parent, rest, parent, rfl, rfl, rfl, rfl, hcp, rfl, rfl, rfl, by omega, Nat.le_refl _⟩⟩
    · rw [if_neg hroot, or_eq_clOf _ hz', hclof]
      simp only
      have hsm := hsmall sp parent rest hst (by rw [← hid]; exact hroot)
      rw [countLeaves_nodes H sp.page (storeElided sp).page (storeElided_nodes sp)]
      rw [if_pos ⟨hsm, by rw [hinh]; simp⟩]
      unfold elidePage elideParentCounter
      rw [or_eq_clOf parent hzp.1]
      simp only
      rw [hpl, hzsp.2, hpcl, hzsp.1]
      simp only [Option.getD_some]
      rw [if_neg (by omega)]
      simp only
      rw [hci]
      simp only
      rw [if_pos (by exact hrec)]
      rw [pushReconstructed_zero _ _ hz', hid, hclof]
      refine ⟨_, (storeElided sp).page, _, rfl, ⟨rfl, rfl, rfl, rfl, rfl⟩, rfl, rfl, rfl, storeElided_nodes sp, hdiffs, rfl,
        Or.inr ⟨parent, rest, _, rfl, rfl, rfl, rfl,
          (fun _ => by show parent.prevChildrenLeaves.isSome = true; rw [hzp.1]; rfl), rfl, rfl, rfl, ?_, ?_⟩⟩
      · show (some _ : Option Nat).getD 0 ≤ _
        simp only [Option.getD_some]
        omega
      · show _ ≤ (some _ : Option Nat).getD 0
        simp only [Option.getD_some]
        omega

/-- both modes: what `handle_elision_threshold` does to the walker, in the form the simulation needs -/
theorem handleElision_sum (ps : PageSet Node) (ids : List PageId)
    (w : Walker Node) (sp : StackPage Node) (below : List (StackPage Node))
    (hst : w.stack = sp :: below) (hc : ∀ x ∈ w.stack, CountersOK x) (hne : below ≠ [] → sp.pageId ≠ [])
    (hrc : w.reconstruction = true → w.inhibitElision = false ∧
      ∀ x ∈ w.stack, x.prevChildrenLeaves = some 0 ∧ x.pageLeaves = some 0)
    (hsm : w.reconstruction = true → SmallTop H w)
    (hac : ∀ x ∈ w.stack, Acct ps ids x)
    (hchild : ∀ parent rest, below = parent :: rest → ∃ ci, ci < 64 ∧ sp.pageId = parent.pageId ++ [ci])
    (hnew : sp.pageId ∉ ids) :
    ∃ w', w.handleElision H = .ok w' ∧ Same w w' ∧ w'.position = w.position ∧ w'.root = w.root ∧
      w'.childPageRoots = w.childPageRoots ∧
      (∀ o ∈ w'.outputPages, o ∈ w.outputPages ∨
        (o.pageId = sp.pageId ∧ o.page.nodes = sp.page.nodes ∧ o.isReconstructed = w.reconstruction ∧
          ∀ i, sp.diff.changed i = true → o.diff.changed i = true)) ∧
      (w'.outputPages = w.outputPages ∨ ∃ o, w'.outputPages = w.outputPages ++ [o] ∧ o.pageId = sp.pageId) ∧
      ((below = [] ∧ w'.stack = []) ∨
       (∃ parent rest parent', below = parent :: rest ∧ w'.stack = parent' :: rest ∧
          parent'.pageId = parent.pageId ∧ parent'.page = parent.page ∧ CountersOK parent' ∧
          parent'.diff = parent.diff ∧ Acct ps (ids ++ [sp.pageId]) parent' ∧
          (w.reconstruction = true → parent'.prevChildrenLeaves = parent.prevChildrenLeaves ∧
            parent'.pageLeaves = parent.pageLeaves ∧ clOf parent' ≤ clOf parent + countLeaves H sp.page + clOf sp))) ∧
      (w.reconstruction = true → ∃ o, w'.outputPages = w.outputPages ++ [o] ∧ o.pageId = sp.pageId ∧
        o.page.nodes = sp.page.nodes) := by
  cases hrec : w.reconstruction with
  | false =>
    obtain ⟨w', h1, h2, h3, h4, h5, ho, hsh, hs'⟩ := handleElision_spec H ps ids w sp below hst hrec hc hne hac hchild hnew
    refine ⟨w', h1, h2, h3, h4, h5, ?_, hsh, ?_, fun h => by cases h⟩
    · intro o ho'
      rcases ho o ho' with h | ⟨pg, d, b, e1, e2, e3⟩
      · exact Or.inl h
      · right; rw [e2]; exact ⟨rfl, e1, rfl, e3⟩
    · rcases hs' with h | ⟨parent, rest, parent', e1, e2, e3, e4, e5, e6, e7⟩
      · exact Or.inl h
      · exact Or.inr ⟨parent, rest, parent', e1, e2, e3, e4, e5, e6, e7, fun h => by cases h⟩
  | true =>
    obtain ⟨hinh, hz⟩ := hrc hrec
    obtain ⟨w', pg, d, h1, h2, h3, h4, h5, hn, hd, ho, hs'⟩ := handleElision_spec_r H w sp below hst hrec hinh hz hne (hsm hrec)
    refine ⟨w', h1, h2, h3, h4, h5, ?_, Or.inr ⟨_, ho, rfl⟩, ?_, fun _ => ⟨_, ho, rfl, hn⟩⟩
    · intro o ho'
      rw [ho, List.mem_append, List.mem_singleton] at ho'
      rcases ho' with h | h
      · exact Or.inl h
      · right; rw [h]; exact ⟨rfl, hn, rfl, hd⟩
    · rcases hs' with h | ⟨parent, rest, parent', e1, e2, e3, e4, e5, e6, e7, e8, e9, e10⟩
      · exact Or.inl h
      · refine Or.inr ⟨parent, rest, parent', e1, e2, e3, e4, e5, e6, ?_, fun _ => ⟨e7, e8, e9⟩⟩
        have hacp : Acct ps ids parent := hac parent (by rw [hst, e1]; simp)
        have hzp := hz parent (by rw [hst, e1]; simp)
        refine ⟨?_, ?_, ?_⟩
        rotate_left
        rotate_left
        · intro pc hpc
          rw [e3]
          exact (hacp.mono (fun i hi => List.mem_append_left _ hi)).2.2 pc (by rw [← e7]; exact hpc)
        · intro pc hpc
          rw [e8, e3]
          exact hacp.1 pc (by rw [← e7]; exact hpc)
        · intro cur hcur
          rw [e3]
          have h0 : parent'.prevChildrenLeaves = some 0 := by rw [e7]; exact hzp.1
          rw [or_eq_clOf parent' h0] at hcur
          have hcur := Option.some.inj hcur
          have h1 := hacp.2.1 (clOf parent) (or_eq_clOf parent hzp.1)
          have h2 := restSum_mono ps ids (ids ++ [sp.pageId]) parent.pageId (fun i hi => List.mem_append_left _ hi)
          omega

/-! ## pages of neighbouring positions -/

section
variable (ps : PageSet Node)

/-- `up`.  A reconstructor must find the page it leaves small enough to be elided (`hsm`). -/
theorem sim_up {w : Walker Node} {a : TW Node} (h : Sim H ps w a) (hd : 6 * k0 w.parentPage < a.pos.length)
    (hsm : w.reconstruction = true → dip a.pos = 1 → SmallTop H w)
    (hnew : dip a.pos = 1 → specPage a.pos ∉ a.log.map (·.1)) :
    ∃ w', w.up H = .ok w' ∧ Sim H ps w' a.up ∧ Same w w' ∧ w'.childPageRoots = w.childPageRoots ∧ w'.root = w.root := by
  have hne := sim_pos_ne (w := w) hd
  obtain ⟨x, b, hxb⟩ : ∃ x b, a.pos = x ++ [b] := by
    rcases List.eq_nil_or_concat a.pos with e | ⟨l, y, e⟩
    · exact absurd e hne
    · exact ⟨l, y, by simpa using e⟩
  have hdep := pos_depth_pos h.wf h.pos
  have hdepth : 1 ≤ w.position.depth := by rw [hdep, hxb]; simp
  have hdip : w.position.depthInPage = dip a.pos := by
    rw [depthInPage_eq _ hdepth, hdep]
    unfold dip; rw [if_neg hne]
  obtain ⟨top, below, hst, htop⟩ := sim_stack_cons H ps h hd
  -- the position after the move
  obtain ⟨p', hup, hp'wf, hp'path, hp'depth⟩ := wf_up w.position 1 h.wf hdepth
  have hp'a : p'.path = a.pos.dropLast := by
    rw [hp'path, h.pos, hdep, List.dropLast_eq_take]
  have hposup : a.up.pos = a.pos.dropLast := tw_up_pos a
  have hstoreup : a.up.store = a.store := by unfold TW.up; split <;> rfl
  have hcprup : a.up.cpr = a.cpr := by unfold TW.up; split <;> rfl
  have hxl : a.pos.dropLast = x := by rw [hxb]; simp
  have hlen : a.pos.length = x.length + 1 := by rw [hxb]; simp
  unfold Walker.up
  by_cases h1 : dip a.pos = 1
  · -- leaving the page: it is popped
    rw [hdip, if_pos h1]
    have h6 : x.length % 6 = 0 := by
      rw [hxb, dip_snoc] at h1; omega
    have hchain := h.chain
    rw [hst] at hchain
    simp only [List.map_cons] at hchain
    have hchild : ∀ parent rest, below = parent :: rest → ∃ ci, ci < 64 ∧ top.pageId = parent.pageId ++ [ci] := by
      intro parent rest hb
      rw [hb] at hchain
      simp only [List.map_cons] at hchain
      have hne' : top.pageId ≠ [] := hchain.1
      refine ⟨top.pageId.getLast hne', ?_, ?_⟩
      · have hall : ∀ c ∈ top.pageId, c < 64 := by
          rw [htop]; unfold specPage; exact sextetsOf_lt_64 _
        exact hall _ (List.getLast_mem hne')
      · rw [hchain.2.1]
        exact (List.dropLast_concat_getLast hne').symm
    have hacc : ∀ x ∈ w.stack, Acct ps (a.log.map (·.1)) x := h.acct
    have hnew' : top.pageId ∉ a.log.map (·.1) := by rw [htop]; exact hnew h1
    have hne2 : below ≠ [] → top.pageId ≠ [] := by
      intro hb
      cases below with
      | nil => exact absurd rfl hb
      | cons q r => exact hchain.1
    have hsum0 := handleElision_sum H ps (a.log.map (·.1)) w top below hst h.counters hne2
        h.recon.rc (fun hr => hsm hr h1)
    have hsum1 := hsum0 hacc
    have hsum2 := hsum1 hchild hnew'
    obtain ⟨w1, hw1, hsame, hpos1, hroot1, hcpr1, houts1, hshape1, hstack1, hrec1⟩ := hsum2
    rw [hw1]
    simp only
    rw [hpos1, hup]
    refine ⟨_, rfl, ?_, hsame, hcpr1, hroot1⟩
    have htoplen := chain_top_length w.parentPage top.pageId (below.map (·.pageId)) hchain
    have hPl : 6 * top.pageId.length = x.length := by
      rw [htop, hxb]; exact specPage_first_layer_length x b h6
    have hlogup : a.up.log = a.log ++ [(specPage a.pos, a.store)] := by
      unfold TW.up; rw [if_pos h1]
    have hrec' : w1.reconstruction = w.reconstruction := hsame.2.2.2.2
    -- the mode invariant after the pop
    have hrecon : ReconInv H ({ w1 with position := p' } : Walker Node) a.up := by
      refine ⟨?_, ?_, ?_, ?_⟩
      · intro o ho
        show o.isReconstructed = w1.reconstruction
        rw [hrec']
        rcases houts1 o ho with hold | ⟨_, _, hk, _⟩
        · exact h.recon.kinds o hold
        · exact hk
      · intro hr
        have hr0 : w.reconstruction = true := by rw [← hrec']; exact hr
        obtain ⟨hinh, hz⟩ := h.recon.rc hr0
        refine ⟨by show w1.inhibitElision = false; rw [hsame.2.2.1]; exact hinh, ?_⟩
        intro sp hsp
        rcases hstack1 with ⟨_, hs⟩ | ⟨parent, rest, parent', hb, hs, _, _, _, _, _, hx⟩
        · have hsp' : sp ∈ w1.stack := hsp
          rw [hs] at hsp'; cases hsp'
        · have hsp' : sp ∈ w1.stack := hsp
          rw [hs] at hsp'
          rcases List.mem_cons.mp hsp' with e | hsp''
          · obtain ⟨e1, e2, _⟩ := hx hr0
            rw [e, e1, e2]; exact hz parent (by rw [hst, hb]; simp)
          · exact hz sp (by rw [hst, hb]; simp [hsp''])
      · intro hr
        have hr0 : w.reconstruction = true := by rw [← hrec']; exact hr
        obtain ⟨o, ho, hoid, hon⟩ := hrec1 hr0
        have hacc := h.recon.acct hr0
        rw [hst] at hacc
        simp only [List.map_cons, List.sum_cons] at hacc
        show (w1.stack.map clOf).sum ≤ (w1.outputPages.map (outLeaves H)).sum
        rw [ho]
        simp only [List.map_append, List.map_cons, List.map_nil, List.sum_append, List.sum_cons, List.sum_nil]
        have hol : outLeaves H o = countLeaves H top.page := by
          unfold outLeaves; exact countLeaves_nodes H top.page o.page hon
        rw [hol]
        rcases hstack1 with ⟨hb, hs⟩ | ⟨parent, rest, parent', hb, hs, _, _, _, _, _, hx⟩
        · rw [hs]; simp
        · rw [hs]
          obtain ⟨_, _, e3⟩ := hx hr0
          rw [hb] at hacc
          simp only [List.map_cons, List.sum_cons] at hacc ⊢
          omega
      · intro hr
        have hr0 : w.reconstruction = true := by rw [← hrec']; exact hr
        obtain ⟨o, ho, hoid, _⟩ := hrec1 hr0
        show w1.outputPages.map PageOut.pageId = a.up.log.map (·.1)
        rw [ho, hlogup]
        simp only [List.map_append, List.map_cons, List.map_nil]
        rw [h.recon.outIds hr0, hoid, htop]
    refine ⟨hp'wf, by rw [hp'a, hposup], by rw [hroot1, hstoreup]; exact h.root, ?_, ?_, ?_, ?_, ?_, hrecon,
      by show w1.childPageRoots.map _ = _; rw [hcpr1, hcprup]; exact h.cpr, ?_,
      by show w1.preFix = false; rw [hsame.2.2.2.1]; exact h.nofix, ?_, ?_, ?_⟩
    rotate_right
    · -- every slot written is named: the slots of the page just left move to its output, or to "left without output"
      have hids : a.up.log.map (·.1) = a.log.map (·.1) ++ [top.pageId] := by
        rw [hlogup, htop]; simp
      have holdids : ∀ o ∈ w.outputPages, o.pageId ∈ a.log.map (·.1) := by
        intro o ho
        obtain ⟨st, hmem, _⟩ := h.outs o ho
        exact List.mem_map_of_mem (f := (·.1)) hmem
      have hmono : ∀ o ∈ w.outputPages, o ∈ w1.outputPages := by
        intro o ho
        rcases hshape1 with e | ⟨o', e, _⟩
        · rw [e]; exact ho
        · rw [e]; exact List.mem_append_left _ ho
      have hnewout : ∀ o ∈ w1.outputPages, o ∉ w.outputPages → o.pageId = top.pageId ∧
          ∀ i, top.diff.changed i = true → o.diff.changed i = true := by
        intro o ho hn
        rcases houts1 o ho with hold | ⟨h1', _, _, h4⟩
        · exact absurd hold hn
        · exact ⟨h1', h4⟩
      refine ⟨?_, ?_⟩
      · show (w1.outputPages.map PageOut.pageId).Nodup
        rcases hshape1 with e | ⟨o', e, hid'⟩
        · rw [e]; exact h.named.1
        · rw [e, List.map_append, List.nodup_append]
          refine ⟨h.named.1, by simp, ?_⟩
          intro i hi j hj eij
          simp only [List.map_cons, List.map_nil, List.mem_singleton] at hj
          obtain ⟨o, ho, rfl⟩ := List.mem_map.mp hi
          rw [hj, hid'] at eij
          exact hnew' (by rw [← eij]; exact holdids o ho)
      · intro q hq hne
        have hq' : q ∈ a.wl := by
          have : a.up.wl = a.wl := by unfold TW.up; split <;> rfl
          rw [this] at hq; exact hq
        rw [hids]
        rcases h.named.2 q hq' hne with ⟨sp, hsp, h1', h2'⟩ | ⟨o, ho, h1', h2'⟩ | ⟨h1', h2'⟩
        · rw [hst] at hsp
          rcases List.mem_cons.mp hsp with e | hsp'
          · -- a slot of the page just left
            by_cases hex : ∃ o ∈ w1.outputPages, o.pageId = top.pageId
            · obtain ⟨o, ho, hoid⟩ := hex
              have hon : o ∉ w.outputPages := by
                intro hin
                exact hnew' (by rw [← hoid]; exact holdids o hin)
              right; left
              refine ⟨o, ho, by rw [hoid, ← e]; exact h1', (hnewout o ho hon).2 _ (by rw [← e]; exact h2')⟩
            · right; right
              refine ⟨by rw [← h1', e]; simp, ?_⟩
              intro o ho hoid
              exact hex ⟨o, ho, by rw [hoid, ← h1', e]⟩
          · left
            rcases hstack1 with ⟨hb, _⟩ | ⟨parent, rest, parent', hb, hs, hpid, _, _, hpdf, _⟩
            · rw [hb] at hsp'; cases hsp'
            · rw [hb] at hsp'
              show ∃ sp ∈ w1.stack, _
              rw [hs]
              rcases List.mem_cons.mp hsp' with e2 | hsp''
              · exact ⟨parent', List.mem_cons_self .., by rw [hpid, ← e2]; exact h1', by rw [hpdf, ← e2]; exact h2'⟩
              · exact ⟨sp, List.mem_cons_of_mem _ hsp'', h1', h2'⟩
        · right; left
          exact ⟨o, hmono o ho, h1', h2'⟩
        · right; right
          refine ⟨List.mem_append_left _ h1', ?_⟩
          intro o ho hoid
          by_cases hin : o ∈ w.outputPages
          · exact h2' o hin hoid
          · have := (hnewout o ho hin).1
            exact hnew' (by rw [← this, hoid]; exact h1')
    rotate_right
    · -- the accounting: the page just left joins the log
      intro sp hsp
      have hsp' : sp ∈ w1.stack := hsp
      have hids : a.up.log.map (·.1) = a.log.map (·.1) ++ [top.pageId] := by
        rw [hlogup, htop]; simp
      rw [hids]
      rcases hstack1 with ⟨_, hs⟩ | ⟨parent, rest, parent', hb, hs, _, _, _, _, hacp, _⟩
      · rw [hs] at hsp'; cases hsp'
      · rw [hs] at hsp'
        rcases List.mem_cons.mp hsp' with e | hsp''
        · rw [e]; exact hacp
        · exact (h.acct sp (by rw [hst, hb]; simp [hsp''])).mono (fun i hi => List.mem_append_left _ hi)
    · -- empty iff at the top layer
      rw [hsame.1, hposup, hxl]
      rcases hstack1 with ⟨hb, hs⟩ | ⟨parent, rest, parent', hb, hs, _⟩
      · rw [hs]
        simp only [true_iff]
        rw [hb] at htoplen; simp at htoplen
        omega
      · rw [hs]
        simp only [false_iff, reduceCtorEq]
        rw [hb] at htoplen; simp at htoplen
        omega
    · intro sp rest' e
      rcases hstack1 with ⟨_, hs⟩ | ⟨parent, rest, parent', hb, hs, hpid, _⟩
      · rw [hs] at e; cases e
      · rw [hs] at e
        simp only [List.cons.injEq] at e
        rw [← e.1, hpid, hposup, hxl]
        rw [hb] at hchain
        simp only [List.map_cons] at hchain
        rw [hchain.2.1, htop, hxb]
        exact specPage_dropLast_first_layer x b h6
    · rw [hsame.1]
      rcases hstack1 with ⟨_, hs⟩ | ⟨parent, rest, parent', hb, hs, hpid, _⟩
      · rw [hs]; trivial
      · rw [hs]
        have := chain_tail w.parentPage top.pageId (below.map (·.pageId)) hchain
        rw [hb] at this
        simpa [hpid] using this
    · intro sp hsp
      rw [hstoreup]
      rcases hstack1 with ⟨_, hs⟩ | ⟨parent, rest, parent', hb, hs, hpid, hpg, _⟩
      · rw [hs] at hsp; cases hsp
      · rw [hs] at hsp
        rcases List.mem_cons.mp hsp with e | hsp'
        · have := h.pages parent (by rw [hst, hb]; simp)
          rw [e]
          unfold PageMatches at this ⊢
          rw [hpg, hpid]; exact this
        · exact h.pages sp (by rw [hst, hb]; simp [hsp'])
    · intro sp hsp
      rcases hstack1 with ⟨_, hs⟩ | ⟨parent, rest, parent', hb, hs, _, _, hcnt, _⟩
      · rw [hs] at hsp; cases hsp
      · rw [hs] at hsp
        rcases List.mem_cons.mp hsp with e | hsp'
        · rw [e]; exact hcnt
        · exact h.counters sp (by rw [hst, hb]; simp [hsp'])
    · -- the outputs: the old ones, and the page just popped
      intro o ho
      rcases houts1 o ho with hold | ⟨hoid, hpgn, _, hdch⟩
      · obtain ⟨st, e2, e3, e4, e5⟩ := h.outs o hold
        exact ⟨st, by rw [hlogup]; exact List.mem_append_left _ e2, e3, e4, e5⟩
      · obtain ⟨hl126, hm⟩ := h.pages top (by rw [hst]; simp)
        obtain ⟨base, hbase, hdn⟩ := h.diffs top (by rw [hst]; simp)
        refine ⟨a.store, by rw [hlogup, hoid, htop]; simp, by rw [hpgn]; exact hl126, ?_, base,
          by rw [hoid]; exact hbase, ?_⟩
        · intro q hq hql hqp
          rw [hpgn]; exact hm q hq hql (by rw [hqp, hoid])
        · intro i hi hne
          rw [hpgn] at hne
          exact hdch i (hdn i hi hne)
    · intro sp hsp
      rcases hstack1 with ⟨_, hs⟩ | ⟨parent, rest, parent', hb, hs, hpid, hpg, _, hpdf, _⟩
      · rw [hs] at hsp; cases hsp
      · rw [hs] at hsp
        rcases List.mem_cons.mp hsp with e | hsp'
        · obtain ⟨base, hbase, hdn⟩ := h.diffs parent (by rw [hst, hb]; simp)
          rw [e]
          exact ⟨base, by rw [hpid]; exact hbase, by rw [hpg, hpdf]; exact hdn⟩
        · exact h.diffs sp (by rw [hst, hb]; simp [hsp'])
  · -- staying in the page
    rw [hdip, if_neg h1]
    simp only
    rw [hup]
    refine ⟨_, rfl, ?_, Same.rfl' _, rfl, rfl⟩
    have h6 : x.length % 6 ≠ 0 := by
      rw [hxb, dip_snoc] at h1; omega
    have h6k : (6 * k0 w.parentPage) % 6 = 0 := by omega
    have hposup' : a.up.pos = x := by rw [hposup, hxl]
    have hlogup : a.up.log = a.log := by unfold TW.up; rw [if_neg h1]
    refine ⟨hp'wf, by rw [hp'a, hposup], by rw [hstoreup]; exact h.root, ?_, ?_, h.chain, ?_, h.counters,
      h.recon.cast H rfl rfl rfl rfl hlogup, by rw [hcprup]; exact h.cpr, by rw [hlogup]; exact h.outs, h.nofix, h.diffs,
      h.acct.cast rfl hlogup, h.named.cast rfl rfl (by unfold TW.up; split <;> rfl) hlogup⟩
    · show w.stack = [] ↔ _
      rw [hst, hposup']
      simp only [false_iff, reduceCtorEq]
      omega
    · intro sp rest' e
      show sp.pageId = specPage a.up.pos
      rw [hposup', h.stackT sp rest' e, hxb, specPage_snoc_inside x b h6]
    · intro sp hsp
      rw [hstoreup]; exact h.pages sp hsp

/-- pushing a page with untouched `0 / 0` counters keeps the mode invariant -/
theorem reconInv_push {w w' : Walker Node} {a a' : TW Node} (h : ReconInv H w a) (sp : StackPage Node)
    (hz : sp.prevChildrenLeaves = some 0 ∧ sp.pageLeaves = some 0) (hc : sp.childrenLeaves = none)
    (e1 : w'.outputPages = w.outputPages) (e2 : w'.reconstruction = w.reconstruction)
    (e3 : w'.inhibitElision = w.inhibitElision) (e4 : w'.stack = sp :: w.stack) (e5 : a'.log = a.log) :
    ReconInv H w' a' := by
  refine ⟨?_, ?_, ?_, ?_⟩
  · rw [e1, e2]; exact h.kinds
  · rw [e2, e3, e4]
    intro hr
    obtain ⟨h1, h2⟩ := h.rc hr
    refine ⟨h1, ?_⟩
    intro x hx
    rcases List.mem_cons.mp hx with e | hx'
    · rw [e]; exact hz
    · exact h2 x hx'
  · rw [e1, e2, e4]
    intro hr
    have := h.acct hr
    simp only [List.map_cons, List.sum_cons]
    have e : clOf sp = 0 := by unfold clOf; rw [hc]; rfl
    rw [e]; omega
  · rw [e1, e2, e5]; exact h.outIds

/-- a freshly pushed page matches the flat store after the havoc of its slots -/
theorem fresh_page_matches (hfresh : ∀ P, (ps.fresh P).length = 126) (parent : Option PageId) (st : Store Node) (q0 : Path) :
    PageMatches H (StackPage.new (specPage q0) (ps.freshPage (specPage q0)) PageDiff.empty freshOrigin)
      (havoc st (cfgOf H ps parent).fresh q0) := by
  refine ⟨hfresh _, ?_⟩
  intro q hq _ hqp
  simp only [StackPage.new, freshOrigin] at hqp ⊢
  unfold havoc
  rw [if_pos ⟨hq, hqp⟩]
  simp only [cfgOf, PageSet.freshPage, hqp]

theorem fresh_page_diffok (P : PageId) :
    DiffOK H ps (StackPage.new P (ps.freshPage P) PageDiff.empty freshOrigin) := by
  refine ⟨ps.fresh P, Or.inl rfl, ?_⟩
  intro i _ hne
  exact absurd rfl hne

theorem fresh_page_counters (P : PageId) (pg : Page Node) :
    CountersOK (StackPage.new P pg PageDiff.empty freshOrigin) := by
  intro _; rfl

/-- one bit of `down` into fresh territory -/
theorem sim_downBit (hfresh : ∀ P, (ps.fresh P).length = 126) {w : Walker Node} {a : TW Node} (h : Sim H ps w a)
    (b : Bool) (hl : a.pos.length < 256)
    (hscope : (a.pos = [] ∧ w.parentPage = none) ∨ 6 * k0 w.parentPage < a.pos.length)
    (hz : a.pos.length % 6 = 0 → fullSum ps (specPage (a.pos ++ [b])) = 0) :
    ∃ w', w.downBit ps true b = .ok w' ∧ Sim H ps w' (a.downBit (cfgOf H ps w.parentPage) true b) ∧ Same w w' ∧
      w'.childPageRoots = w.childPageRoots ∧ w'.root = w.root := by
  have hdep := pos_depth_pos h.wf h.pos
  obtain ⟨p', hdown, hp'wf, hp'path, hp'depth, _⟩ := wf_down w.position b h.wf (by rw [hdep]; exact hl)
  have hp'a : p'.path = a.pos ++ [b] := by rw [hp'path, h.pos]
  have hposd : ∀ c : TWCfg Node, (a.downBit c true b).pos = a.pos ++ [b] := fun c => tw_downBit_pos c true a b
  have hcprd : ∀ c : TWCfg Node, (a.downBit c true b).cpr = a.cpr := fun c => (tw_downBit_log c true a b).2
  have hlogd : ∀ c : TWCfg Node, (a.downBit c true b).log = a.log := fun c => (tw_downBit_log c true a b).1
  unfold Walker.downBit
  rcases hscope with ⟨hnil, hpar⟩ | hd
  · -- at the root: the root page is pushed
    have hroot : w.position.isRoot = true := by unfold Pos.isRoot; rw [hdep, hnil]; rfl
    have hstk : w.stack = [] := h.stackE.mpr (by rw [hnil]; simp)
    rw [hroot]
    simp only [if_true]
    rw [hdown]
    refine ⟨_, rfl, ?_, Same.rfl' _, rfl, rfl⟩
    have hsp : specPage (a.pos ++ [b]) = [] := by rw [hnil]; exact specPage_snoc_boundary [] b rfl
    have hstore : (a.downBit (cfgOf H ps w.parentPage) true b).store =
        havoc a.store (cfgOf H ps w.parentPage).fresh (a.pos ++ [b]) := by
      unfold TW.downBit
      rw [if_pos ⟨by rw [hnil]; rfl, rfl⟩]
    refine ⟨hp'wf, by rw [hp'a, hposd], ?_, ?_, ?_, ?_, ?_, ?_,
      reconInv_push H h.recon _ ⟨rfl, rfl⟩ rfl rfl rfl rfl rfl (hlogd _), by rw [hcprd]; exact h.cpr,
      by rw [hlogd]; exact h.outs, h.nofix, ?_, ?_,
      h.named.push (fun sp hsp => List.mem_cons_of_mem _ hsp) rfl (tw_downBit_wl _ _ _ _) (hlogd _)⟩
    rotate_right
    · intro sp hsp'
      have hsp'' : sp ∈ (StackPage.new [] (ps.freshPage []) PageDiff.empty freshOrigin :: w.stack) := hsp'
      rw [hstk] at hsp''
      simp only [List.mem_singleton] at hsp''
      rw [hsp'']
      have hz0 := hz (by rw [hnil]; rfl)
      rw [hsp] at hz0
      exact acct_fresh ps _ [] _ hz0
    · rw [hstore]; unfold havoc; rw [if_neg (by simp)]; exact h.root
    · show (_ :: w.stack) = [] ↔ _
      rw [hposd]; simp [hpar, k0]
    · intro sp rest e
      simp only [List.cons.injEq] at e
      rw [← e.1, hposd, hsp]; rfl
    · show ChainBelow w.parentPage (List.map _ (_ :: w.stack))
      rw [hstk, hpar]; simp [ChainBelow, StackPage.new, freshOrigin]
    · intro sp hsp'
      rw [hstk] at hsp'
      simp only [List.mem_singleton] at hsp'
      rw [hsp', hstore]
      have := fresh_page_matches H ps hfresh w.parentPage a.store (a.pos ++ [b])
      rw [hsp] at this; exact this
    · intro sp hsp'
      rw [hstk] at hsp'
      simp only [List.mem_singleton] at hsp'
      rw [hsp']; exact fresh_page_counters _ _
    · intro sp hsp'
      rw [hstk] at hsp'
      simp only [List.mem_singleton] at hsp'
      rw [hsp']; exact fresh_page_diffok H ps []
  · have hne := sim_pos_ne (w := w) hd
    have hdepth : 1 ≤ w.position.depth := by rw [hdep]; exact List.length_pos_iff.mpr hne
    have hroot : w.position.isRoot = false := by unfold Pos.isRoot; simp; omega
    rw [hroot]
    simp only [Bool.false_eq_true, if_false]
    obtain ⟨top, rest, hst, htop⟩ := sim_stack_cons H ps h hd
    by_cases h6 : a.pos.length % 6 = 0
    · -- entering the child page
      have hdip : w.position.depthInPage = DEPTH := by
        rw [depthInPage_eq _ hdepth, hdep]; unfold specR DEPTH; omega
      rw [if_pos hdip, hst]
      simp only
      obtain ⟨P, c, hpid, hcpi, _, hchild, hqpid, _, _⟩ :=
        wf_down_page_boundary w.position p' b h.wf hdepth (by rw [hdep]; exact h6) hdown
      have hP : P = specPage a.pos := by
        have := pageId_eq w.position h.wf hdepth
        rw [hpid, h.pos] at this
        simpa using this
      have hPc : P ++ [c] = specPage (a.pos ++ [b]) := by
        have := pageId_eq p' hp'wf (by omega)
        rw [hqpid, hp'a] at this
        simpa using this
      rw [hcpi]
      simp only
      rw [htop, ← hP, hchild]
      simp only [if_true]
      rw [hdown]
      refine ⟨_, rfl, ?_, Same.rfl' _, rfl, rfl⟩
      have hstore : (a.downBit (cfgOf H ps w.parentPage) true b).store =
          havoc a.store (cfgOf H ps w.parentPage).fresh (a.pos ++ [b]) := by
        unfold TW.downBit
        rw [if_pos ⟨h6, rfl⟩]
      refine ⟨hp'wf, by rw [hp'a, hposd], ?_, ?_, ?_, ?_, ?_, ?_,
        reconInv_push H h.recon (StackPage.new (P ++ [c]) (ps.freshPage (P ++ [c])) PageDiff.empty freshOrigin)
          ⟨rfl, rfl⟩ rfl rfl rfl rfl (by rw [hst]) (hlogd _), by rw [hcprd]; exact h.cpr,
      by rw [hlogd]; exact h.outs, h.nofix, ?_, ?_,
      h.named.push (fun sp hsp => by
        show sp ∈ (_ :: top :: rest)
        rw [← hst]; exact List.mem_cons_of_mem _ hsp) rfl (tw_downBit_wl _ _ _ _) (hlogd _)⟩
      rotate_right
      · intro sp hsp'
        have hsp'' : sp ∈ (StackPage.new (P ++ [c]) (ps.freshPage (P ++ [c])) PageDiff.empty freshOrigin :: top :: rest) := hsp'
        rw [hlogd]
        rcases List.mem_cons.mp hsp'' with e | hsp3
        · rw [e]
          have hz0 := hz h6
          rw [← hPc] at hz0
          exact acct_fresh ps _ _ _ hz0
        · exact h.acct sp (by rw [hst]; exact hsp3)
      · rw [hstore]; unfold havoc; rw [if_neg (by simp)]; exact h.root
      · show (StackPage.new (P ++ [c]) (ps.freshPage (P ++ [c])) PageDiff.empty freshOrigin :: top :: rest) = [] ↔
          (a.downBit (cfgOf H ps w.parentPage) true b).pos.length ≤ 6 * k0 w.parentPage
        rw [hposd]
        simp only [List.length_append, List.length_singleton, false_iff, reduceCtorEq]
        omega
      · intro sp rest' e
        simp only [List.cons.injEq] at e
        rw [← e.1, hposd, ← hPc]; rfl
      · show ChainBelow w.parentPage (List.map (·.pageId)
          (StackPage.new (P ++ [c]) (ps.freshPage (P ++ [c])) PageDiff.empty freshOrigin :: top :: rest))
        have := h.chain
        rw [hst] at this
        simp only [List.map_cons] at this ⊢
        refine ⟨by simp [StackPage.new, freshOrigin], ?_, this⟩
        simp [StackPage.new, freshOrigin, htop, hP]
      · intro sp hsp'
        rw [hstore]
        rcases List.mem_cons.mp hsp' with e | hsp''
        · rw [e, hPc]
          exact fresh_page_matches H ps hfresh w.parentPage a.store (a.pos ++ [b])
        · have hsw : sp ∈ w.stack := by rw [hst]; exact hsp''
          obtain ⟨hl1, hm1⟩ := h.pages sp hsw
          refine ⟨hl1, ?_⟩
          intro q hq hql hqp
          unfold havoc
          rw [if_neg]
          · exact hm1 q hq hql hqp
          · intro ⟨_, hh⟩
            -- the ids on the stack are shorter than the new one
            have hlen : sp.pageId.length ≤ top.pageId.length := by
              rcases List.mem_cons.mp hsp'' with e | hr
              · rw [e]; exact Nat.le_refl _
              · have hc := h.chain
                rw [hst] at hc
                exact Nat.le_of_lt (chain_shorter w.parentPage top.pageId (rest.map (·.pageId)) (by simpa using hc)
                  sp.pageId (List.mem_map_of_mem hr))
            rw [hqp, ← hPc] at hh
            have := congrArg List.length hh
            rw [htop, ← hP] at hlen
            simp at this
            omega
      · intro sp hsp'
        rcases List.mem_cons.mp hsp' with e | hsp''
        · rw [e]; exact fresh_page_counters _ _
        · exact h.counters sp (by rw [hst]; exact hsp'')
      · intro sp hsp'
        rcases List.mem_cons.mp hsp' with e | hsp''
        · rw [e]; exact fresh_page_diffok H ps _
        · exact h.diffs sp (by rw [hst]; exact hsp'')
    · -- inside the page
      have hdip : ¬ w.position.depthInPage = DEPTH := by
        rw [depthInPage_eq _ hdepth, hdep]; unfold specR DEPTH; omega
      rw [if_neg hdip]
      simp only
      rw [hdown]
      refine ⟨_, rfl, ?_, Same.rfl' _, rfl, rfl⟩
      have hstore : (a.downBit (cfgOf H ps w.parentPage) true b).store = a.store := by
        unfold TW.downBit
        rw [if_neg (by intro hh; exact h6 hh.1)]
      refine ⟨hp'wf, by rw [hp'a, hposd], by rw [hstore]; exact h.root, ?_, ?_, h.chain, ?_, h.counters,
        h.recon.cast H rfl rfl rfl rfl (hlogd _),
        by rw [hcprd]; exact h.cpr, by rw [hlogd]; exact h.outs, h.nofix, h.diffs, h.acct.cast rfl (hlogd _),
        h.named.cast rfl rfl (tw_downBit_wl _ _ _ _) (hlogd _)⟩
      · show w.stack = [] ↔ _
        rw [hst, hposd]
        simp only [List.length_append, List.length_singleton, false_iff, reduceCtorEq]
        omega
      · intro sp rest' e
        show sp.pageId = specPage (a.downBit _ true b).pos
        rw [hposd, h.stackT sp rest' e, specPage_snoc_inside a.pos b h6]
      · intro sp hsp'
        rw [hstore]; exact h.pages sp hsp'

end

end Nomt.Walker.G
