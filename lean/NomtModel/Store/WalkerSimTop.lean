import NomtModel.Store.WalkerSimRun
/-!
# The walk without parent page on the mirror: no panic, the specified root, every output page right
-/
namespace Nomt.Walker
open Nomt Nomt.TriePos
open Nomt.Wal (PageDiff)

variable {Node VH : Type} [DecidableEq Node] [DecidableEq VH] (H : Hasher Node VH) (ps : PageSet Node)

/-- the whole script keeps the invariant -/
theorem runInv_run (hs : H.Sound) {D : Path → Prop} {pp : Option PageId} {root : Node} {S S' : List (Key × VH)}
    (hS : KeysOK S) (hS' : KeysOK S') (hrep : Rep0 H D S (flatStore H ps root)) (hD0 : D []) :
    ∀ (todo done : List (Step VH)) (w : Walker Node) (a : TW Node), ScriptOK S S' (done ++ todo) →
      PSOK ps (done ++ todo) → PathsIn D (done ++ todo) → InScope pp (done ++ todo) →
      RunInv H ps D pp root S S' done todo w a →
      ∃ w', w.runM H ps todo = .ok w' ∧
        RunInv H ps D pp root S S' (done ++ todo) [] w' (a.run H (cfgOf H ps pp) todo) := by
  intro todo
  induction todo with
  | nil => intro done w a _ _ _ _ h; exact ⟨w, rfl, by simpa [TW.run] using h⟩
  | cons s todo ih =>
    intro done w a hso hps hDp hscp h
    obtain ⟨w1, hw1, h1⟩ := runInv_step H ps hs hS hS' hso hps hrep hDp hD0 hscp h
    have e : (done ++ [s]) ++ todo = done ++ s :: todo := by simp
    obtain ⟨w2, hw2, h2⟩ := ih (done ++ [s]) w1 _ (by rw [e]; exact hso) (by rw [e]; exact hps) (by rw [e]; exact hDp)
      (by rw [e]; exact hscp) h1
    refine ⟨w2, ?_, ?_⟩
    · simp only [Walker.runM]; rw [hw1]; exact hw2
    · simpa [TW.run] using h2

/-- the slot of `q` is materialised: in a page of the page set, or strictly below a replaced terminal (where the walker
creates the pages itself) -/
def MatR (steps : List (Step VH)) (q : Path) : Prop :=
  Mat ps q ∨ ∃ s ∈ steps, s.2.isSome = true ∧ s.1 <+: q ∧ q ≠ s.1

/-- the page set represents `S` on its materialised slots -/
def Represents (root : Node) (S : List (Key × VH)) : Prop := Rep0 H (Mat ps) S (flatStore H ps root)

theorem rep_matR {root : Node} {S S' : List (Key × VH)} (hS : KeysOK S) {steps : List (Step VH)}
    (hso : ScriptOK S S' steps) (hrep : Represents H ps root S) : Rep0 H (MatR ps steps) S (flatStore H ps root) := by
  intro q hq hD hm
  rcases hD with h | ⟨s, hs, _, hpre, hne⟩
  · exact hrep q hq h hm
  · exact absurd hm (not_mean_below hS s.1 q (hso.term s hs).1 hpre hne hq)

/-- the initial walker (`PageWalker::new(root, parent_page)`, with the elision switch) -/
def Walker.startP (root : Node) (pp : Option PageId) (inhibit : Bool) : Walker Node :=
  { Walker.new root pp with inhibitElision := inhibit }

/-- the initial walker without parent page -/
def Walker.start (root : Node) (inhibit : Bool) : Walker Node := Walker.startP root none inhibit

theorem runInv_start (D : Path → Prop) (pp : Option PageId) (root : Node) (S S' : List (Key × VH))
    (steps : List (Step VH)) (inhibit : Bool) :
    RunInv H ps D pp root S S' [] steps (Walker.startP root pp inhibit)
      ({ pos := [], store := flatStore H ps root, log := [], cpr := [] } : TW Node) := by
  refine ⟨?_, rfl, rfl, Or.inl ⟨⟨by simp, rfl, rfl, rfl⟩, by simp⟩, rfl⟩
  have hrecon : ReconInv H (Walker.startP root pp inhibit) ({ pos := [], store := flatStore H ps root, log := [], cpr := [] } : TW Node) := by
    refine ⟨?_, ?_, ?_, ?_⟩
    · intro o ho; cases ho
    · intro hr; cases hr
    · intro hr; cases hr
    · intro hr; cases hr
  refine ⟨Pos.wf_new, rfl, ?_, ?_, ?_, trivial, ?_, ?_, hrecon, rfl, ?_, rfl, ?_⟩
  · simp [Walker.startP, Walker.new, Walker.newInner, flatStore]
  · simp [Walker.startP, Walker.new, Walker.newInner]
  · intro sp rest e; cases e
  · intro sp hsp; cases hsp
  · intro sp hsp; cases hsp
  · intro o ho; cases ho
  · intro sp hsp; cases hsp

/-- `conclude` after a script -/
theorem conclude_spec (hs : H.Sound) {D : Path → Prop} {root : Node} {S S' : List (Key × VH)} (hS : KeysOK S)
    (hS' : KeysOK S') {all : List (Step VH)} (hso : ScriptOK S S' all)
    (hrep : Rep0 H D S (flatStore H ps root)) (hD0 : D []) {w : Walker Node} {a : TW Node}
    (h : RunInv H ps D none root S S' all [] w a) :
    ∃ pages, w.conclude H = .ok (.root (specNode H S' []) pages) ∧
      ∀ o ∈ pages, ∃ P pg d b, o = .updated P pg d b ∧ pg.nodes.length = 126 ∧
        (∀ q, q ≠ [] → q.length ≤ 256 → specPage q = P → D q → Mean S' q →
          pg.nodes.getD (specIndex q) H.term = specNode H S' q) ∧
        ∃ base, BaseOf ps P base ∧ DiffNames H pg.nodes base d := by
  obtain ⟨w1, hw1, hs1, hsame1⟩ := sim_compactUp H ps h.sim none (by intro t ht; cases ht) []
    (fun hr => absurd hr (by rw [h.norec]; simp))
  have hnr1 : w1.reconstruction = false := hsame1.2.2.2.2.trans h.norec
  rw [h.par] at hs1
  simp only [Option.map_none] at hs1
  unfold Walker.conclude
  rw [if_neg (by rw [h.norec]; simp), hw1]
  simp only
  -- all outputs are updated pages
  have hany : w1.outputPages.any PageOut.isReconstructed = false := by
    rw [List.any_eq_false]
    intro o ho
    obtain ⟨P, pg, d, b, st, e, _⟩ := outMatches_updated H hs1 hnr1 o ho
    rw [e]; simp [PageOut.isReconstructed]
  rw [if_neg (by rw [hany]; simp)]
  have hpar1 : w1.parentPage = none := hsame1.1.trans h.par
  rw [if_pos (by rw [hpar1]; rfl)]
  -- the tree walker's result
  have htw : (a.conclude H (cfgOf H ps none)).store [] = specNode H S' [] ∧
      ∀ e ∈ (a.conclude H (cfgOf H ps none)).log, LogOK H D S' e := by
    rcases h.tw with ⟨hidle, hall⟩ | ⟨hinv, _⟩
    · have hconc : a.conclude H (cfgOf H ps none) = a := by
        unfold TW.conclude; exact tw_compactUp_idle H _ a _ hidle.pos
      rw [hconc, hidle.store, hidle.log]
      refine ⟨?_, fun e he => by cases he⟩
      have hsub : sub S' [] = sub S [] := hso.out [] (by simp) (by
        intro s hs' hsome
        rw [hall s hs'] at hsome; cases hsome)
      have hspec : specNode H S' [] = specNode H S [] := by unfold specNode; rw [hsub]
      rw [hspec]
      exact hrep [] (by simp) hD0 (Or.inl rfl)
    · obtain ⟨c1, _, c3, c4, _, _⟩ := tw_conclude_spec H D hs hS' hso hrep (cfgOf H ps none) a hinv _ rfl
      have hp : (a.conclude H (cfgOf H ps none)).pos = [] := by
        rw [c1]; show a.pos.take 0 = []; simp
      have := (c3 rfl).1
      rw [hp] at this
      exact ⟨this, c4⟩
  refine ⟨w1.outputPages, ?_, ?_⟩
  · have : w1.root = specNode H S' [] := by
      rw [hs1.root]; exact htw.1
    rw [this]
  · intro o ho
    obtain ⟨P, pg, d, b, st, e, hmem, hl, hm, hdiff⟩ := outMatches_updated H hs1 hnr1 o ho
    refine ⟨P, pg, d, b, e, hl, ?_, hdiff⟩
    intro q hq hql hqp hD hmean
    rw [hm q hq hql hqp]
    exact htw.2 (P, st) hmem q hq hqp hql hD hmean

/-- `conclude` after a script of a walker with a parent page: the child-page roots -/
theorem conclude_children_spec (hs : H.Sound) {D : Path → Prop} {P0 : PageId} {root : Node} {S S' : List (Key × VH)}
    (hS : KeysOK S) (hS' : KeysOK S') {all : List (Step VH)} (hso : ScriptOK S S' all)
    (hrep : Rep0 H D S (flatStore H ps root)) {w : Walker Node} {a : TW Node}
    (h : RunInv H ps D (some P0) root S S' all [] w a) :
    ∃ roots pages, w.conclude H = .ok (.childPageRoots roots pages) ∧
      (∀ e ∈ roots, e.2 = specNode H S' e.1.path ∧ e.1.path.length = 6 * (P0.length + 1)) ∧
      ∀ o ∈ pages, ∃ P pg d b, o = .updated P pg d b ∧ pg.nodes.length = 126 ∧
        (∀ q, q ≠ [] → q.length ≤ 256 → specPage q = P → D q → Mean S' q →
          pg.nodes.getD (specIndex q) H.term = specNode H S' q) ∧
        ∃ base, BaseOf ps P base ∧ DiffNames H pg.nodes base d := by
  obtain ⟨w1, hw1, hs1, hsame1⟩ := sim_compactUp H ps h.sim none (by intro t ht; cases ht) []
    (fun hr => absurd hr (by rw [h.norec]; simp))
  have hnr1 : w1.reconstruction = false := hsame1.2.2.2.2.trans h.norec
  rw [h.par] at hs1
  simp only [Option.map_none] at hs1
  unfold Walker.conclude
  rw [if_neg (by rw [h.norec]; simp), hw1]
  simp only
  have hany : w1.outputPages.any PageOut.isReconstructed = false := by
    rw [List.any_eq_false]
    intro o ho
    obtain ⟨P, pg, d, b, st, e, _⟩ := outMatches_updated H hs1 hnr1 o ho
    rw [e]; simp [PageOut.isReconstructed]
  rw [if_neg (by rw [hany]; simp)]
  have hpar1 : w1.parentPage = some P0 := hsame1.1.trans h.par
  rw [if_neg (by rw [hpar1]; simp)]
  -- the tree walker's result
  have htw : (∀ e ∈ (a.conclude H (cfgOf H ps (some P0))).cpr,
        e.2 = specNode H S' e.1 ∧ e.1.length = 6 * (P0.length + 1)) ∧
      ∀ e ∈ (a.conclude H (cfgOf H ps (some P0))).log, LogOK H D S' e := by
    rcases h.tw with ⟨hidle, _⟩ | ⟨hinv, _⟩
    · have hconc : a.conclude H (cfgOf H ps (some P0)) = a := by
        unfold TW.conclude; exact tw_compactUp_idle H _ a _ hidle.pos
      rw [hconc]
      refine ⟨?_, ?_⟩
      · intro e he; rw [hidle.cpr] at he; cases he
      · intro e he; rw [hidle.log] at he; cases he
    · obtain ⟨_, _, _, c4, c5, _⟩ := tw_conclude_spec H D hs hS' hso hrep (cfgOf H ps (some P0)) a hinv _ rfl
      exact ⟨c5, c4⟩
  refine ⟨w1.childPageRoots, w1.outputPages, rfl, ?_, ?_⟩
  · intro e he
    have hmem : (e.1.path, e.2) ∈ (a.conclude H (cfgOf H ps (some P0))).cpr := by
      have hc := hs1.cpr
      unfold TW.conclude
      rw [← hc]
      exact List.mem_map_of_mem (f := fun e => (e.1.path, e.2)) he
    exact htw.1 _ hmem
  · intro o ho
    obtain ⟨P, pg, d, b, st, e, hmem, hl, hm, hdiff⟩ := outMatches_updated H hs1 hnr1 o ho
    refine ⟨P, pg, d, b, e, hl, ?_, hdiff⟩
    intro q hq hql hqp hD hmean
    rw [hm q hq hql hqp]
    exact htw.2 (P, st) hmem q hq hqp hql hD hmean

end Nomt.Walker
