import NomtModel.Store.PushChunkSep3
/-!
# `BranchNodeBuilder::push_chunk` — the whole call: no panic, and the node decodes to the base's items

`builderPushChunk` (the byte-level mirror of `push_chunk`, `Store/BitOpsBuilder.lean`, tied byte for byte to the real
builder by `vharness bitops`) on a builder whose page has a known layout (`Lay`: header, the cells pushed so far) and a
base node with a known layout, under the documented preconditions (`ChunkPre`): the call returns, the new cells are
the old ones behind `separator_bit_offset` with the prefix difference applied, and **`get_key` of every new item is
`get_key` of the base item it was copied from**; its node pointer is the base's or the `updated` one; nothing the
earlier items decode from is touched.
-/
namespace Nomt.BitOps

/-- bit `q` of the key `get_key(base, i)` of a prefix-compressed item -/
def baseKeyBit (base : List Nat) (nB plB : Nat) (cB : Nat → Nat) (i q : Nat) : Bool :=
  compKeyBit (fun q => bitOf base (8 * (10 + nB * 2) + q)) plB (prevCell cB i) (cB i - prevCell cB i) q

/-- `is_prefix_extension` / `bit_prefix_len_difference` -/
def extOf (plN plB : Nat) : Nat := if plN < plB then 1 else 0
def diffOf (plN plB : Nat) : Nat := if plN < plB then plB - plN else plN - plB

/-- the preconditions of `push_chunk(base, frm, to, updated)` on builder `b` -/
structure ChunkPre (b : Builder) (base : List Nat) (frm to : Nat) (updated : List (Nat × Nat))
    (nN pcN plN : Nat) (cOld : Nat → Nat) (nB pcB plB : Nat) (cB : Nat → Nat) (lastN lastB : Nat) : Prop where
  /-- the node under construction: header written by `new`, cells `0 .. index` written -/
  LN : Lay b.page nN pcN plN cOld b.index
  /-- `separator_bit_offset` is the last cell written -/
  hoff : prevCell cOld b.index = b.sepBitOffset
  /-- the base node: header, all cells, non-decreasing, inside the capacity bound -/
  LB : Lay base nB pcB plB cB nB
  monoB : ∀ i, i < nB → prevCell cB i ≤ cB i
  hlastB : ∀ i, i < nB → cB i ≤ lastB
  FB : Fit nB plB lastB
  /-- no key of the chunk is longer than 256 bits -/
  itemB : ∀ i, frm ≤ i → i < to → plB + (cB i - prevCell cB i) ≤ 256
  /-- a non-empty range of the base … -/
  hft : frm < to
  hto : to ≤ nB
  /-- … of prefix-compressed separators only (the comment on `push_chunk`) -/
  hpcB : to ≤ pcB
  /-- `assert!(self.index + n_items <= prefix_compressed)` -/
  hpcN : b.index + (to - frm) ≤ pcN
  hpcnN : pcN ≤ nN
  /-- capacity: the gauge's `body_size(prefix_len, total_separator_lengths, n) ≤ BRANCH_NODE_BODY_SIZE`, the chunk's bits counted -/
  FN : Fit nN plN lastN
  hcp : b.sepBitOffset + cellSum cB frm (extOf plN plB) (diffOf plN plB) (to - frm) ≤ lastN
  /-- `updated` addresses items of the node, page numbers are `u32` -/
  hupd : ∀ x, x ∈ updated → b.index + x.1 < nN ∧ x.2 < 4294967296
  /-- every key of the chunk starts with the new node's prefix (the first key's, when the chunk opens the node) -/
  hpre : ∀ k, k < to - frm → ∀ q, q < plN →
    (if b.index = 0 then baseKeyBit base nB plB cB frm q else bitOf b.page (8 * (10 + nN * 2) + q)) =
      baseKeyBit base nB plB cB (frm + k) q

theorem getKey_base {base : List Nat} {nB pcB plB : Nat} {cB : Nat → Nat} {lastB : Nat} (LB : Lay base nB pcB plB cB nB)
    (FB : Fit nB plB lastB) (monoB : ∀ i, i < nB → prevCell cB i ≤ cB i) (hlastB : ∀ i, i < nB → cB i ≤ lastB)
    (i : Nat) (hi : i < nB) (hic : i < pcB) (htot : plB + (cB i - prevCell cB i) ≤ 256) :
    getKey base i = some (bytesOfBits (baseKeyBit base nB plB cB i) 32) :=
  getKey_of_lay LB lastB FB i hi hi hic (monoB i hi) (hlastB i hi) htot

/-- `set_prefix` as `push_chunk` calls it: only when the chunk opens the node -/
theorem pushChunk_prefix (b : Builder) (base : List Nat) (frm to : Nat) (updated : List (Nat × Nat))
    (nN pcN plN : Nat) (cOld : Nat → Nat) (nB pcB plB : Nat) (cB : Nat → Nat) (lastN lastB : Nat)
    (H : ChunkPre b base frm to updated nN pcN plN cOld nB pcB plB cB lastN lastB) :
    ∃ p0, (if b.index = 0 then (getKey base frm).bind (setPrefix b.page) else some b.page) = some p0 ∧
      Lay p0 nN pcN plN cOld b.index ∧
      (∀ k, k < to - frm → ∀ q, q < plN → bitOf p0 (8 * (10 + nN * 2) + q) = baseKeyBit base nB plB cB (frm + k) q) ∧
      (b.index ≠ 0 → p0 = b.page) ∧
      (∀ i, i < 10 → p0.getD i 0 = b.page.getD i 0) := by
  obtain ⟨LN, hoff, LB, monoB, hlastB, FB, itemB, hft, hto, hpcB, hpcN, hpcnN, FN, hcp, hupd, hpre⟩ := H
  by_cases h0 : b.index = 0
  · rw [if_pos h0]
    rw [h0] at LN
    have hk := getKey_base LB FB monoB hlastB frm (by omega) (by omega) (itemB frm (Nat.le_refl _) hft)
    have hroom : 10 + nN * 2 + ((plN + 7) / 8 + 7) / 8 * 8 ≤ 4096 := by
      obtain ⟨fit, hlast, hpl, hn⟩ := FN
      by_cases h1 : nN = 1
      · subst h1; omega
      · omega
    obtain ⟨p0, a1, a2, a3, a4, a5⟩ := setPrefix_spec b.page (bytesOfBits (baseKeyBit base nB plB cB frm) 32) nN pcN plN cOld LN
      (bytes_bytesOfBits _ _) (length_bytesOfBits _ _) FN.hpl hroom
    refine ⟨p0, by rw [hk, Option.bind_some, a1], ?_, ?_, fun h => absurd h0 h, fun i hi => a5 i (by left; omega)⟩
    · rw [h0]
      exact LN.of_agree a2 a3 fun i hi => a5 i (by left; omega)
    · intro k hk' q hq
      rw [a4 q hq, bitOf_bytesOfBits _ _ _ (by have := FN.hpl; omega)]
      have := hpre k hk' q hq
      rw [if_pos h0] at this
      exact this
  · rw [if_neg h0]
    refine ⟨b.page, rfl, LN, ?_, fun _ => rfl, fun _ _ => rfl⟩
    intro k hk' q hq
    have := hpre k hk' q hq
    rw [if_neg h0] at this
    exact this

/-- `push_chunk` put together from its parts (the control flow of the mirror, every check passed) -/
theorem pushChunk_eq (b : Builder) (base : List Nat) (frm to : Nat) (updated : List (Nat × Nat))
    (nN pcN plN nB plB basePrev cp : Nat) (p0 p1 p3 p4 : List Nat)
    (hft : frm < to) (hpcN : nodePc b.page = some pcN) (hassert : b.index + (to - frm) ≤ pcN)
    (hp0 : (if b.index = 0 then (getKey base frm).bind (setPrefix b.page) else some b.page) = some p0)
    (hplB : nodePl base = some plB) (hplN : nodePl p0 = some plN) (hnB : nodeN base = some nB) (hnN : nodeN p0 = some nN)
    (hprev : (if frm ≠ 0 then nodeCell base (frm - 1) else some 0) = some basePrev)
    (hb1 : 10 + nB * 2 < 4086) (hb2 : to ≤ nB) (hb3 : 10 + nN * 2 < 4086) (hb4 : b.index + (to - frm) ≤ nN)
    (hn4 : nB * 4 < 4096) (hn4' : nN * 4 < 4096)
    (hc : copyCells base frm (extOf plN plB) (diffOf plN plB) 0 (to - frm) b.index p0 basePrev b.sepBitOffset = some (p1, cp))
    (hu : applyUpdated b.index updated (writeAt p1 (PAGE_SIZE - nN * 4 + b.index * 4)
      ((base.drop (PAGE_SIZE - nB * 4 + frm * 4)).take ((to - frm) * 4))) = some p3)
    (hs : (if diffOf plN plB = 0 then
          (rawSeparatorsData p3 b.index (b.index + (to - frm))).bind fun (sStart, sLen, sBitStart, _) =>
          (sliceOf p3 sStart (sStart + sLen)).bind fun d =>
          (rawSeparators base frm to).bind fun (bBytes, bBitStart, bBitLen) =>
          (bitwiseMemcpy d sBitStart bBytes bBitStart bBitLen).map fun out => writeAt p3 sStart out
        else copyAndShiftSeparators p3 base b.index (to - frm) frm (extOf plN plB) (diffOf plN plB)) = some p4) :
    builderPushChunk b base frm to updated =
      some { b with page := p4, index := b.index + (to - frm), sepBitOffset := cp } := by
  unfold extOf diffOf at hc hs
  unfold builderPushChunk
  rw [if_neg (by omega)]
  simp only [hpcN, Option.bind_some]
  rw [if_neg (by omega), hp0]
  simp only [Option.bind_some, hplB, hplN, hnB, hnN, hprev, BRANCH_HEADER]
  rw [if_neg (by intro h; simp only [PAGE_SIZE] at h; rcases h with h | h <;> omega),
    if_neg (by intro h; simp only [PAGE_SIZE] at h; rcases h with h | h <;> omega)]
  rw [hc]
  simp only [Option.bind_some]
  rw [if_neg (by intro h; simp only [PAGE_SIZE] at h; rcases h with h | h <;> omega), hu]
  simp only [Option.bind_some]
  rw [hs]
  rfl

theorem adjLen_ext (d l : Nat) : adjLen 1 d l = l + d := by simp [adjLen]
theorem adjLen_noext (d l : Nat) : adjLen 0 d l = l - d := by simp [adjLen]

/-- **the whole `push_chunk`** -/
theorem builderPushChunk_spec (b : Builder) (base : List Nat) (frm to : Nat) (updated : List (Nat × Nat))
    (nN pcN plN : Nat) (cOld : Nat → Nat) (nB pcB plB : Nat) (cB : Nat → Nat) (lastN lastB : Nat)
    (H : ChunkPre b base frm to updated nN pcN plN cOld nB pcB plB cB lastN lastB) :
    ∃ b', builderPushChunk b base frm to updated = some b' ∧
      b'.index = b.index + (to - frm) ∧
      b'.sepBitOffset = b.sepBitOffset + cellSum cB frm (extOf plN plB) (diffOf plN plB) (to - frm) ∧
      b'.prefixLen = b.prefixLen ∧ b'.prefixCompressed = b.prefixCompressed ∧
      Lay b'.page nN pcN plN (newCells cOld cB b.index b.sepBitOffset frm (extOf plN plB) (diffOf plN plB)) (b.index + (to - frm)) ∧
      prevCell (newCells cOld cB b.index b.sepBitOffset frm (extOf plN plB) (diffOf plN plB)) (b.index + (to - frm)) =
        b.sepBitOffset + cellSum cB frm (extOf plN plB) (diffOf plN plB) (to - frm) ∧
      (∀ k, k < to - frm → getKey b'.page (b.index + k) = getKey base (frm + k)) ∧
      (∀ k, k < to - frm → ptrVal b'.page nN (b.index + k) =
        updFun b.index updated (fun j => ptrVal base nB (frm + (j - b.index))) (b.index + k)) ∧
      (b.index ≠ 0 → ∀ j, j < nN → ¬ (b.index ≤ j ∧ j < b.index + (to - frm)) →
        ptrVal b'.page nN j = updFun b.index updated (ptrVal b.page nN) j) ∧
      (b.index ≠ 0 → ∀ p, (p < 8 * (10 + 2 * b.index) ∨ (8 * (10 + nN * 2) ≤ p ∧ p < 8 * (10 + nN * 2) + plN + b.sepBitOffset)) →
        bitOf b'.page p = bitOf b.page p) := by
  obtain ⟨p0, hp0, L0, hpre0, hsame, _⟩ := pushChunk_prefix b base frm to updated nN pcN plN cOld nB pcB plB cB lastN lastB H
  obtain ⟨LN, hoff, LB, monoB, hlastB, FB, itemB, hft, hto, hpcB, hpcN, hpcnN, FN, hcp, hupd, hpre⟩ := H
  have hfB := FB.fit
  have hfN := FN.fit
  obtain ⟨p1, p3, c1, u1, L3, fr3, pt3⟩ := pushChunk_front p0 base b.index b.sepBitOffset frm (to - frm) (extOf plN plB)
    (diffOf plN plB) updated nN pcN plN cOld nB pcB plB cB lastN L0 LB monoB (by omega) (by omega) FN (by omega) hcp hupd
  have hprevN := fun j => prevCell_newCells cOld cB b.index b.sepBitOffset frm (extOf plN plB) (diffOf plN plB) j hoff
  have hatN := fun j => newCells_at cOld cB b.index b.sepBitOffset frm (extOf plN plB) (diffOf plN plB) j
  have hNc : ∀ j, j < to - frm →
      prevCell (newCells cOld cB b.index b.sepBitOffset frm (extOf plN plB) (diffOf plN plB)) (b.index + j) ≤
        newCells cOld cB b.index b.sepBitOffset frm (extOf plN plB) (diffOf plN plB) (b.index + j) ∧
      newCells cOld cB b.index b.sepBitOffset frm (extOf plN plB) (diffOf plN plB) (b.index + j) ≤ lastN := by
    intro j hj
    rw [hprevN, hatN]
    have m1 := cellSum_mono cB frm (extOf plN plB) (diffOf plN plB) j (j + 1) (by omega)
    have m2 := cellSum_mono cB frm (extOf plN plB) (diffOf plN plB) (j + 1) (to - frm) (by omega)
    omega
  have hLen : ∀ j, j < to - frm →
      newCells cOld cB b.index b.sepBitOffset frm (extOf plN plB) (diffOf plN plB) (b.index + j) -
        prevCell (newCells cOld cB b.index b.sepBitOffset frm (extOf plN plB) (diffOf plN plB)) (b.index + j) =
      adjLen (extOf plN plB) (diffOf plN plB) (cB (frm + j) - prevCell cB (frm + j)) := by
    intro j hj
    rw [hprevN, hatN]
    simp only [cellSum]
    omega
  -- the bits of p3 the decoding of the new items and of the earlier items depends on
  have fr3b : ∀ p, (p < 8 * (10 + 2 * b.index) ∨ (8 * (10 + 2 * (b.index + (to - frm))) ≤ p ∧ p < 8 * (4096 - nN * 4))) →
      bitOf p3 p = bitOf p0 p := fun p hp => bitOf_eq_of_getD p (fr3 _ (by omega))
  have hkB : ∀ k, k < to - frm → getKey base (frm + k) = some (bytesOfBits (baseKeyBit base nB plB cB (frm + k)) 32) :=
    fun k hk => getKey_base LB FB monoB hlastB (frm + k) (by omega) (by omega) (itemB _ (by omega) (by omega))
  -- step 3 and the decoding, by the direction of the prefix change
  have hstep3 : ∃ p4, (if diffOf plN plB = 0 then
          (rawSeparatorsData p3 b.index (b.index + (to - frm))).bind fun (sStart, sLen, sBitStart, _) =>
          (sliceOf p3 sStart (sStart + sLen)).bind fun d =>
          (rawSeparators base frm to).bind fun (bBytes, bBitStart, bBitLen) =>
          (bitwiseMemcpy d sBitStart bBytes bBitStart bBitLen).map fun out => writeAt p3 sStart out
        else copyAndShiftSeparators p3 base b.index (to - frm) frm (extOf plN plB) (diffOf plN plB)) = some p4 ∧
      p4.length = p3.length ∧ Bytes p4 ∧
      (∀ p, (p < 8 * (10 + nN * 2) + plN + b.sepBitOffset ∨ 8 * (10 + nN * 2) + plN + lastN ≤ p) → bitOf p4 p = bitOf p3 p) ∧
      (∀ k, k < to - frm → ∀ q, q < 256 →
        (∀ q', q' < plN → bitOf p4 (8 * (10 + nN * 2) + q') = baseKeyBit base nB plB cB (frm + k) q') →
        compKeyBit (fun q => bitOf p4 (8 * (10 + nN * 2) + q)) plN
          (prevCell (newCells cOld cB b.index b.sepBitOffset frm (extOf plN plB) (diffOf plN plB)) (b.index + k))
          (adjLen (extOf plN plB) (diffOf plN plB) (cB (frm + k) - prevCell cB (frm + k))) q =
        baseKeyBit base nB plB cB (frm + k) q) := by
    have h00 := hprevN 0
    simp only [Nat.add_zero, cellSum] at h00
    by_cases hext : plN < plB
    · have hE : extOf plN plB = 1 := by unfold extOf; rw [if_pos hext]
      have hD : diffOf plN plB = plB - plN := by unfold diffOf; rw [if_pos hext]
      obtain ⟨p4, a1, a2, a3, a4, a4', a5⟩ := seps_ext p3 base nB pcB plB cB LB nN pcN plN _ lastN lastB (plB - plN) b.index frm to
        FN FB (by rw [hE, hD] at L3; exact L3) (by omega) hft hto (by omega) (by omega) monoB hlastB
        (fun j hj => by have := hNc j hj; rw [hE, hD] at this; exact this)
        (fun j hj => by have := hLen j hj; rw [hE, hD, adjLen_ext] at this; exact this)
      rw [hE, hD]
      rw [hE, hD] at h00
      refine ⟨p4, a1, a2, a3, fun p hp => a5 p (by rw [h00]; exact hp), ?_⟩
      intro k hk q _ hpq
      rw [adjLen_ext]
      exact compKeyBit_ext _ _ plN plB (plB - plN) _ _ _ q (by omega) hpq
        (fun t ht => by
          have := a4 k hk t ht
          rw [show 8 * (10 + nN * 2) + (plN + prevCell (newCells cOld cB b.index b.sepBitOffset frm 1 (plB - plN)) (b.index + k) + t) =
            8 * (10 + nN * 2) + plN + prevCell (newCells cOld cB b.index b.sepBitOffset frm 1 (plB - plN)) (b.index + k) + t by omega,
            this]
          congr 1; omega)
        (fun t ht => by
          have := a4' k hk t ht
          rw [show 8 * (10 + nN * 2) + (plN + prevCell (newCells cOld cB b.index b.sepBitOffset frm 1 (plB - plN)) (b.index + k) + (plB - plN) + t) =
            8 * (10 + nN * 2) + plN + prevCell (newCells cOld cB b.index b.sepBitOffset frm 1 (plB - plN)) (b.index + k) + (plB - plN) + t by omega,
            this]
          congr 1; omega)
    · have hE : extOf plN plB = 0 := by unfold extOf; rw [if_neg hext]
      have hD : diffOf plN plB = plN - plB := by unfold diffOf; rw [if_neg hext]
      have hplN := FN.hpl
      obtain ⟨p4, a1, a2, a3, a4, a5⟩ := seps_noext p3 base nB pcB plB cB LB nN pcN plN _ lastN lastB (plN - plB) b.index frm to
        FN FB (by rw [hE, hD] at L3; exact L3) (by omega) hft hto (by omega) monoB hlastB
        (fun j hj => by have := hNc j hj; rw [hE, hD] at this; exact this)
        (fun j hj => by have := hLen j hj; rw [hE, hD, adjLen_noext] at this; exact this)
      rw [hE, hD]
      rw [hE, hD] at h00
      refine ⟨p4, a1, a2, a3, fun p hp => a5 p (by rw [h00]; exact hp), ?_⟩
      intro k hk q _ hpq
      rw [adjLen_noext]
      have hLk := hLen k hk
      rw [hE, hD, adjLen_noext] at hLk
      exact compKeyBit_noext _ _ plN plB (plN - plB) _ _ _ q (by omega) hpq
        (fun t ht => by
          have := a4 k hk t (by rw [hLk]; exact ht)
          rw [show 8 * (10 + nN * 2) + (plN + prevCell (newCells cOld cB b.index b.sepBitOffset frm 0 (plN - plB)) (b.index + k) + t) =
            8 * (10 + nN * 2) + plN + prevCell (newCells cOld cB b.index b.sepBitOffset frm 0 (plN - plB)) (b.index + k) + t by omega,
            this]
          congr 1; omega)
  obtain ⟨p4, s1, s2, s3, s4, s5⟩ := hstep3
  have hL3len := L3.len
  have L4 : Lay p4 nN pcN plN (newCells cOld cB b.index b.sepBitOffset frm (extOf plN plB) (diffOf plN plB)) (b.index + (to - frm)) :=
    L3.of_agree_bits s2 s3 fun p hp => s4 p (by left; omega)
  have hbeq := pushChunk_eq b base frm to updated nN pcN plN nB plB (prevCell cB frm)
    (b.sepBitOffset + cellSum cB frm (extOf plN plB) (diffOf plN plB) (to - frm)) p0 p1 p3 p4 hft LN.hpc hpcN hp0 LB.hpl L0.hpl LB.hn L0.hn
    (LB.prev frm (by omega)) (by omega) hto (by omega) (by omega) (by omega) (by omega) c1 u1 s1
  refine ⟨_, hbeq, rfl, rfl, rfl, rfl, L4, ?_, ?_, ?_, ?_, ?_⟩
  · rw [hprevN]
  · intro k hk
    have hNk := hNc k hk
    have hLk := hLen k hk
    have htot : plN + (newCells cOld cB b.index b.sepBitOffset frm (extOf plN plB) (diffOf plN plB) (b.index + k) -
        prevCell (newCells cOld cB b.index b.sepBitOffset frm (extOf plN plB) (diffOf plN plB)) (b.index + k)) ≤ 256 := by
      rw [hLk]
      have := itemB (frm + k) (by omega) (by omega)
      have hplN := FN.hpl
      unfold adjLen extOf diffOf
      split <;> split <;> omega
    show getKey p4 (b.index + k) = getKey base (frm + k)
    rw [getKey_of_lay L4 lastN FN (b.index + k) (by omega) (by omega) (by omega) hNk.1 hNk.2 htot, hkB k hk, hLk]
    apply congrArg some
    apply bytesOfBits_congr
    intro q hq
    apply s5 k hk q (by omega)
    intro q' hq'
    rw [s4 _ (by left; omega), fr3b _ (by right; omega), hpre0 k hk q' hq']
  · intro k hk
    show ptrVal p4 nN (b.index + k) = _
    have e1 : ptrVal p4 nN (b.index + k) = ptrVal p3 nN (b.index + k) := by
      unfold ptrVal
      apply u32Val_congr
      intro r hr
      exact getD_eq_of_bits s3 L3.bytes _ fun u hu => s4 _ (by right; omega)
    rw [e1, pt3 _ (by omega)]
    apply updFun_congr
    rw [if_pos (by omega)]
  · intro hi j hj hnot
    show ptrVal p4 nN j = _
    have e1 : ptrVal p4 nN j = ptrVal p3 nN j := by
      unfold ptrVal
      apply u32Val_congr
      intro r hr
      exact getD_eq_of_bits s3 L3.bytes _ fun u hu => s4 _ (by right; omega)
    rw [e1, pt3 _ hj]
    apply updFun_congr
    rw [if_neg hnot, hsame hi]
  · intro hi p hp
    show bitOf p4 p = bitOf b.page p
    rw [s4 p (by omega), fr3b p (by omega), hsame hi]

end Nomt.BitOps
